"""Per-property configuration of check.py: which theorems/ties are obligations, which harness
levels and generator profiles run, how 'distinct non-trivial' is counted."""

PROPS = {
    "C07": {
        "tie": [],
        "pure_kinds": ["stk"],
        "pure_n": {"quick": 20000, "thorough": 400000},
        "rule": "random message trees (depth<=12, fan-out<=6, 1-4 top-level messages, all three carrier types, 5% carriers that fail to unpack) x heights {0,1,2,3,10,1e6}; non-trivial = height>1, tree contains a forbidden staking message at nesting depth>=2 that is not under the first top-level message (or a single deep message); distinct by model term",
        "assumptions": ["carrier census (authz.MsgExec, gov v1 MsgSubmitProposal, group MsgSubmitProposal) is checked against the app's interface registry by Tie/Registry.v"],
    },
    "C08": {
        "tie": [],
        "pure_kinds": ["wd"],
        "pure_n": {"quick": 20000, "thorough": 400000},
        "rule": "as C07 with distribution.MsgWithdrawDelegatorReward as the forbidden leaf",
        "assumptions": [],
    },
    "C09": {
        "tie": [],
        "pure_kinds": ["comm"],
        "pure_n": {"quick": 20000, "thorough": 400000},
        "rule": "random trees with commission-carrying leaves (rates at floor/ceil +-1e-18, nil rates) x 6 (floor,ceil) configurations incl. floor=ceil and floor>ceil x genesis flag x heights; non-trivial = check applies and (>=2 rate-setting messages or a nil-rate message); distinct by model term",
        "assumptions": [],
    },
    "C14": {
        "tie": [],
        "pure_kinds": ["setpower"],
        "pure_n": {"quick": 5000, "thorough": 200000},
        "rule": "MsgSetPower.Validate on boundary and random 64-bit powers x valid/invalid addresses; non-trivial = valid address and power >= 999999; distinct by (address class, power)",
        "assumptions": [],
    },
}

_NOTE = ("Trusted: Coq 8.16.1 kernel + vm_compute; the hand-written Gallina model (x/staking, x/slashing, bank pools, CometBFT rules re-written, not verified); "
         "its tie to /repo = differential execution on generated inputs + Tie theorems over generated fact tables; extraction (ExtrOcamlBasic only) cross-checked in-Coq on a sample.")

LEVELS = {
    "C07": {"text": "Theorems over message trees of unbounded depth/fan-out (nested induction) that the staking filter rejects exactly the transactions containing a forbidden message through any carrier; model tied to the running decorator by differential execution on random trees and to the app's registry by census.",
            "note": _NOTE, "technique": "Coq proof by nested induction over rose trees + differential testing of the model against the Go decorator"},
    "C08": {"text": "Same theorems for the withdraw-delegator-reward filter.",
            "note": _NOTE, "technique": "Coq proof by nested induction over rose trees + differential testing of the model against the Go decorator"},
    "C09": {"text": "Theorems that the commission decorator accepts iff every rate-setting message at any depth is in [floor,ceil], never panics, and exempts genesis exactly when validation is off.",
            "note": _NOTE, "technique": "Coq proof (tree induction, lia over scaled decimals) + differential testing against the Go decorator"},
    "C14": {"text": "Theorems over all 64-bit powers: accepted iff 10^6 <= p <= 2^63-1, exact token/share/power conversion, same-power rejection; tied to Validate and the handler by differential execution on boundary values.",
            "note": _NOTE, "technique": "Coq proof (lia / Z.div over unbounded Z with explicit 64-bit casts) + differential testing"},
}

ALL_IDS = ["C%02d" % i for i in range(1, 19)]
NOT_APPLICABLE = [{"property_id": p, "reason": "check under construction in this revision: model and theorems not yet committed (see DESIGN.md §7 for the plan)"}
                  for p in ALL_IDS if p not in PROPS]
