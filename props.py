"""Per-property configuration of check.py: which theorems/ties are obligations, which harness
levels and generator profiles run, how 'distinct non-trivial' is counted."""

def _l1(profiles, nq, nt, **kw):
    d = {"profiles": profiles, "n": {"quick": nq, "thorough": nt}, "shards": {"quick": 1, "thorough": 4}, "incoq": {"quick": 3, "thorough": 12}}
    d.update(kw)
    return d


_TREES = "random message trees (depth<=12, fan-out<=6, 1-4 top-level messages, all three carrier types, 5% carriers that fail to unpack) x heights {0,1,2,3,10,1e6}"
_HIST = ("48 directed second-order scenarios (P1-P18, S1-S30 of DESIGN.md) + random histories (6-36 blocks, 1-5 genesis validators, pool of 8 identities, "
         "profiles %s: admin workflow around the 30%% boundary, hazards (repeat targets, jailed/removed/unknown targets, unjail, parameter changes, "
         "max_validators 2-4, removed validators that miss their last votes, apply again and are re-admitted), downtime patterns, double-sign evidence "
         "(both kinds of misbehaviour, stale and fresh, on active / jailed / removed validators) in half of them, wrong senders, malformed inputs, noise) "
         "on the real SimApp with CometBFT's ValidatorSet tracked; ")

PROPS = {
    "C01": {"tie": ["Tie/Census.v"], "l1": _l1(["authority", "mixed"], 120, 2400, twin=True),
            "l1_nontrivial": ["op:setpower", "out:setpower:err 0 3"],
            "rule": _HIST % "authority,mixed" + "non-trivial = history contains a SetPower refused as not-an-authority; distinct by history term; failing txs twin-executed (per-module store hashes)",
            "assumptions": ["POA_BYPASS_ADMIN_CHECK_FOR_SIMULATION_TESTING_ONLY is not set", "admin configured through POA_ADMIN_ADDRESS in L1 runs; the three resolution paths are exercised by the factgen probe (Tie/Census.v)"]},
    "C02": {"tie": [], "l1": _l1(["mixed", "hazard", "workflow"], 150, 6000),
            "l1_nontrivial": ["updates>=2blocks"],
            "rule": _HIST % "mixed,hazard,workflow" + "non-trivial = validator updates in >= 2 blocks; distinct by history term",
            "assumptions": ["H-time, H-alive, H-evidence, H-maxvals of DESIGN.md App. A are respected by the generators", "known finding: max_validators binding at admission (C02/...:max-validators-binding)"]},
    "C03": {"tie": [], "l1": _l1(["mixed", "hazard", "workflow"], 150, 6000),
            "l1_nontrivial": ["same-block-repeat"],
            "rule": _HIST % "mixed,hazard,workflow" + "non-trivial = some validator targeted twice in one block; distinct by history term",
            "assumptions": []},
    "C04": {"tie": [], "l1": _l1(["hazard", "mixed", "malformed"], 150, 6000),
            "l1_nontrivial": ["maturity"],
            "rule": _HIST % "hazard,mixed,malformed" + "non-trivial = history crosses an unbonding maturity; distinct by history term",
            "assumptions": ["environment hypotheses H-time (two block intervals < unbonding time), H-alive (downtime jailing and double-sign punishment never take the whole upcoming set), H-evidence (evidence names a validator whose record the chain still has, of a height not in the future), H-maxvals (max_validators <= 1000)"]},
    "C05": {"tie": [], "l1": _l1(["boundary", "workflow", "mixed"], 150, 6000),
            "l1_nontrivial": ["op:setpower", "out:setpower:err 0 4", "out:setpower:pass"],
            "rule": _HIST % "boundary,workflow,mixed" + "powers chosen at floor(0.3T)-1, floor(0.3T), +1 of the tracked total; non-trivial = history has both an accepted and a limit-refused SetPower; distinct by history term",
            "assumptions": []},
    "C06": {"tie": ["Tie/Census.v"], "l1": _l1(["mixed", "malformed", "authority"], 90, 2400, twin=True),
            "l1_nontrivial": ["op:setpower", "out:setpower:err 0 4"],
            "rule": _HIST % "mixed,malformed,authority" + "up to 3 failing txs per history are twin-executed (chain without the tx; per-module store hashes poa/staking/slashing/bank/mint/distribution + projection); non-trivial = history has a SetPower refused by the limit after its writes",
            "assumptions": ["atomicity itself is BaseApp's (outside the repository): the model assumes it in deliver_tx, the twin execution checks it"]},
    "C07": {"tie": ["Tie/Census.v"], "pure_kinds": ["stk"], "pure_n": {"quick": 20000, "thorough": 400000}, "l1": _l1(["mixed"], 40, 400),
            "rule": _TREES + "; non-trivial = height>1, forbidden staking message at nesting depth>=2 not under the first top-level message; distinct by model term",
            "assumptions": ["carrier census (authz.MsgExec, gov v1 MsgSubmitProposal, group MsgSubmitProposal) checked against the app's interface registry by Tie/Census.v"]},
    "C08": {"tie": ["Tie/Census.v"], "pure_kinds": ["wd"], "pure_n": {"quick": 20000, "thorough": 400000}, "l1": _l1(["mixed"], 40, 400),
            "rule": "as C07 with distribution.MsgWithdrawDelegatorReward as the forbidden leaf", "assumptions": []},
    "C09": {"tie": ["Tie/Census.v"], "pure_kinds": ["comm"], "pure_n": {"quick": 20000, "thorough": 400000}, "l1": _l1(["malformed"], 40, 400),
            "rule": "random trees with commission-carrying leaves (rates at floor/ceil +-1e-18, nil rates) x 6 (floor,ceil) configurations incl. floor=ceil and floor>ceil x genesis flag x heights; non-trivial = check applies and (>=2 rate-setting messages or a nil-rate message)",
            "assumptions": []},
    "C10": {"tie": [], "l1": _l1(["workflow", "hazard", "malformed"], 150, 6000),
            "l1_nontrivial": ["op:create", "out:create:pass", "out:create:err 2 4"],
            "rule": _HIST % "workflow,hazard,malformed" + "non-trivial = history has an accepted application and one refused for a reused operator; distinct by history term",
            "assumptions": []},
    "C11": {"tie": [], "l1": _l1(["mixed", "hazard", "workflow"], 150, 6000),
            "l1_nontrivial": ["op:setpower", "op:remove", "jailing"],
            "rule": _HIST % "mixed,hazard,workflow" + "non-trivial = history has SetPower, a removal and a jailing; x/mint inflation 0 so supply moves only through PoA and slashing",
            "assumptions": ["x/mint provisions are zero in the harness genesis (mint is not modelled)"]},
    "C12": {"tie": ["Tie/Census.v"], "l1": _l1(["mixed", "hazard"], 60, 1600, restarts=True),
            "l1_nontrivial": ["updates>=2blocks"],
            "rule": _HIST % "mixed,hazard" + "each history also on a fresh node that is never queried and on a node re-created from its MemDB at a random subset of commit boundaries (every boundary for histories <= 12 blocks); AppHash, tx results and ordered updates byte-compared per height",
            "assumptions": ["process-local memory, map iteration order and the database are runtime facts: validated by execution, not proved"]},
    "C13": {"tie": [], "l1": _l1(["hazard", "mixed"], 150, 6000),
            "l1_nontrivial": ["jailing", "op:unjail"],
            "rule": _HIST % "hazard,mixed" + "non-trivial = history has a jailing and an unjail attempt; distinct by history term",
            "assumptions": ["H-alive: downtime jailing and double-sign punishment never take the whole upcoming validator set",
                            "H-evidence: an evidence entry names a validator whose record the chain still has, of a height that is not in the future"]},
    "C14": {"tie": [], "pure_kinds": ["setpower"], "pure_n": {"quick": 5000, "thorough": 200000}, "l1": _l1(["malformed", "boundary"], 80, 1600),
            "rule": "MsgSetPower.Validate on boundary and random 64-bit powers x valid/invalid addresses (non-trivial = valid address and power >= 999999; distinct by (address class, power)); L1 read-back of tokens/shares/delegation/update power on histories with extreme powers",
            "assumptions": []},
    "C15": {"tie": [], "pure_kinds": ["commission", "create"], "pure_n": {"quick": 4000, "thorough": 100000}, "l1": _l1(["malformed"], 60, 800),
            "rule": "three-way differential poa Validate / model / stakingtypes Validate on generated commission decimals (negatives, >1, 18-digit boundaries, absent), description lengths at each limit +-1, absent keys, bad bech32; non-trivial = some rule rejects; distinct by model term",
            "assumptions": []},
    "C16": {"tie": [], "pure_kinds": ["params"], "pure_n": {"quick": 4000, "thorough": 100000}, "l1": _l1(["malformed", "hazard"], 100, 2400),
            "l1_nontrivial": ["op:params", "out:params:pass"],
            "rule": "stakingtypes.Params.Validate vs the model on tuples at each field's boundary; L1: admin parameter updates (valid and invalid) followed by further blocks; non-trivial = accepted update in the history",
            "assumptions": ["H-maxvals: generated max_validators <= 1000 (x/staking allocates max_validators entries per block)"]},
    "C17": {"tie": ["Tie/Census.v"], "pure_kinds": ["convert"], "pure_n": {"quick": 2000, "thorough": 50000},
            "rule": "random fully populated validator records (both key types, empty/maximal strings, large ints, 18-digit decimals) through ConvertStakingToPOA/ConvertPOAToStaking, the pending store (real codec) and ExportGenesis->JSON->ValidateGenesis->InitGenesis into a fresh app; non-trivial = every field non-default",
            "assumptions": []},
    "C18": {"tie": ["Tie/Census.v"], "l1": _l1(["mixed", "hazard"], 90, 2400, restarts=True),
            "l1_nontrivial": ["jailing"],
            "rule": _HIST % "mixed,hazard" + "after every commit the three queries are sent through the ABCI query path for every pool identity, an unknown and a malformed address; a never-queried twin node must have the same app hashes",
            "assumptions": []},
}

_NOTE = ("Trusted: Coq 8.16.1 kernel + vm_compute; the hand-written Gallina model (x/staking, x/slashing, bank pools, CometBFT rules re-written, not verified); "
         "its tie to /repo = differential execution on generated inputs + Tie theorems over generated fact tables; extraction (ExtrOcamlBasic only) cross-checked in-Coq on a sample.")

LEVELS = {
    "C01": {"text": "Theorems: every gated handler returns not-an-authority for any sender but the admin (self-removal excepted, only for a bonded validator that leaves a signer behind); through the tx wrapper the state is unchanged. Model tied to the app by history differential + twin execution; RPC census by Tie/Census.v.", "note": _NOTE, "technique": "Coq proof (case analysis on the handlers, tx-wrapper lemma) + differential testing against the real SimApp"},
    "C02": {"text": "Theorems at every reachable, non-halted state (induction over the block list through every handler, BeginBlock slashing, both EndBlocker loops, maturity, genesis): CometBFT's next set = last validator powers keyed by consensus key; every member is an unjailed bonded validator at tokens/10^6 > 0 (no hypothesis on max_validators); when max_validators does not bind the set is exactly the unjailed validators with power; index exact and complete; consensus keys distinct. Tied to the app by history differential; monitor = real UpdateWithChangeSet set vs bonded+unjailed validators with the power query.", "note": _NOTE + " Partial: the cap-binding case is a known finding, not covered by the theorem.", "technique": "Coq proof by induction over histories of an inductive invariant + differential testing against the real SimApp"},
    "C03": {"text": "Theorems: a successful SetPOAPower writes exactly the requested tokens/shares/delegation and re-keys exactly the target's index entry; frame lemma for every other validator; history level: the last power of every validator is the power of its tokens if it is not jailed (cap not binding), every update of a block belongs to a validator whose last power changes in that block and says what it becomes, hence only validators whose jailed flag or tokens changed in the block are mentioned; through any number of later blocks that carry no SetPower / RemoveValidator / Unjail naming it, a validator's key, jailed flag, tokens, shares and self-delegation are kept (or slashing jailed it on the way), and with the cap not binding so is its power: a removed validator never returns unless the admin re-admits it. Monitors: SetPower reflected in the next set, removed stays out, updates only for targets/jailed/unjailed/cap, non-targets unchanged.", "note": _NOTE, "technique": "Coq proof (gmap frame lemmas) + differential testing against the real SimApp"},
    "C04": {"text": "Theorems over all histories: chain invariant, unbonding-queue invariant and pool invariant hold in every reachable state; x/staking's EndBlocker returns no error of any kind; CometBFT never refuses the updates for a duplicate key, a negative power, the removal of a non-member, nor (if downtime leaves somebody: H-alive) an empty set; BeginBlock (x/distribution's voter lookup, x/slashing's downtime accounting, x/evidence's double-sign handling) never fails if a block interval is shorter than the unbonding period (H-time) and evidence names validators the chain still knows (H-evidence; the signing info x/evidence insists on is proved to exist); the total power stays within CometBFT's bound for key pools up to 125000; altogether no history halts; last-bonded guard. Tied to the app by history differential incl. maturities; monitor = real FinalizeBlock errors + real UpdateWithChangeSet verdict.", "note": _NOTE + " Environment hypotheses H-time, H-alive, H-evidence, H-maxvals are explicit.", "technique": "Coq proof (loop invariant of ApplyAndReturnValidatorSetUpdates) + differential testing against the real SimApp and CometBFT's ValidatorSet"},
    "C05": {"text": "Theorems: safe SetPower above height 1 succeeds only if 100*sum < 30*cached (uint64 arithmetic written out); every change adds |new - power held at that point|; BeginBlocker zeroes the sum and refreshes the total; failed txs roll back (C06); unsafe skips only the test; history level: LastTotalPower = sum of the last validator powers in every reachable state, and throughout a block the cached total is that sum as the previous block left it.", "note": _NOTE, "technique": "Coq proof (lia over Z with explicit wrap) + differential testing with boundary powers against the real SimApp"},
    "C06": {"text": "Theorems: a failing tx yields the pre-state or the pre-state with bumped sequences (enumerating ante rejection and every handler failure); every handler and the EndBlocker commute with replacing the sequence numbers, hence within a block every other transaction gets the same result and the block commits the same state (field by field, sequence numbers apart), the same updates and the same CometBFT sets with or without the failing tx. Atomicity is BaseApp's: assumed in the model's deliver_tx and validated by twin execution with per-module store hashes.", "note": _NOTE + " Partial by nature: the rollback mechanism lives in the SDK.", "technique": "Coq proof over the model's tx wrapper + twin execution (translation validation of atomicity)"},
    "C07": {"text": "Theorems over message trees of unbounded depth/fan-out (nested induction): the staking filter rejects exactly the transactions containing a forbidden message through any carrier; tied to the running decorator by differential execution on random trees and to the app's registry by census.", "note": _NOTE, "technique": "Coq proof by nested induction over rose trees + differential testing of the model against the Go decorator"},
    "C08": {"text": "Same theorems for the withdraw-delegator-reward filter.", "note": _NOTE, "technique": "Coq proof by nested induction over rose trees + differential testing of the model against the Go decorator"},
    "C09": {"text": "Theorems: the commission decorator accepts iff every rate-setting message at any depth is in [floor,ceil], never panics, exempts genesis exactly when validation is off.", "note": _NOTE, "technique": "Coq proof (tree induction, lia over scaled decimals) + differential testing against the Go decorator"},
    "C10": {"text": "Theorems: create appends exactly the application, remove-pending deletes the first match, both preserve pairwise-distinct operators/consensus keys across pending and validators; in every reachable state operators and consensus keys are pairwise distinct across applications and validator records; the pending list after any history is the in-order replay of the messages of the transactions that passed (create appends, SetPower / RemovePending delete the operator's first entry), nothing else touches it. Monitor refines the pending query against the history's applications.", "note": _NOTE, "technique": "Coq proof (list/gmap invariants) + differential testing against the real SimApp"},
    "C11": {"text": "Theorems: every PoA message ends with the bonded pool = bonded validators' tokens, not-bonded pool untouched, supply delta = pool delta; in every reachable state (induction over histories incl. slashing, EndBlocker transfers, maturity) bonded pool = sum of tokens of Bonded validators and the not-bonded pool covers the others, so no transfer, burn or slash is ever short of funds; after every history supply = what the accounts held at genesis + the two pools (nobody outside the pools is ever credited or debited). Monitors: pools vs token sums, supply outside pools constant.", "note": _NOTE + " x/mint is not modelled (inflation 0 in the harness).", "technique": "Coq proof + differential testing against the real SimApp"},
    "C12": {"text": "Theorem: a run cut at any commit boundary and continued from the persisted world equals the uncut run (the model has no hidden memory). That the code has none is validated: second node, never-queried node, node restarted from its database at random boundaries, byte-equal AppHash/results/updates.", "note": _NOTE + " Partial by nature: process memory and iteration order are runtime facts.", "technique": "Coq proof of run composition + restart/duplicate execution (translation validation of determinism)"},
    "C13": {"text": "Theorems: SetPower on a jailed / non-bonded validator and removal of a non-bonded one fail cleanly; in every reachable state a jailed validator owns no index entry, has no last power and its key is absent from CometBFT's set (any max_validators); every member's power is its token power (tokens less slashes); the index is complete for unjailed validators with power, so an unjailed or re-powered validator is seen by the next EndBlocker; queue and records agree, slashes never lack funds; double-sign evidence (x/evidence's handler is in the model) leaves the validator jailed and tombstoned with no more tokens and touches nobody else, is ignored exactly for unbonded / stale / already tombstoned targets, and a tombstoned validator cannot unjail nor a jailed one be re-powered; history level: through any blocks carrying no SetPower / RemoveValidator / Unjail naming it a validator keeps its stake and (cap not binding) its power unless slashing jailed it on the way. Monitors: jailed not in next set, jailed flag cleared only by a successful unjail, unjail power, decreases only with cause (downtime, double sign, admin, own removal, cap), a double signer ends its block jailed.", "note": _NOTE, "technique": "Coq proof + differential testing with downtime patterns against the real SimApp"},
    "C14": {"text": "Theorems over all 64-bit powers: accepted iff 10^6 <= p <= 2^63-1, exact token/share/power conversion, same-power rejection; the float64 step uint64(math.Abs(float64(d))) is proved exact for |d| < 2^53 against Flocq's IEEE 754 binary64, and the differences the code forms are below 2^53 (these two theorems depend on the standard library's real-number axioms sig_forall_dec, sig_not_dec, functional_extensionality_dep, classic; all others are closed under the global context).", "note": _NOTE, "technique": "Coq proof (lia / Z.div over unbounded Z with explicit 64-bit casts) + differential testing"},
    "C15": {"text": "Theorem: poa Validate = stakingtypes Validate for any value >= msd >= 1 (incl. error and crash cases); rule set spelled out; three-way differential against both Go implementations.", "note": _NOTE, "technique": "Coq proof of rule equivalence + three-way differential testing"},
    "C16": {"text": "Theorems: a successful update sets exactly the six fields and nothing else; invalid tuples (x/staking's Validate) are refused; validity spelled out.", "note": _NOTE, "technique": "Coq proof + differential testing against stakingtypes.Params.Validate and the real SimApp"},
    "C17": {"text": "Theorems: both conversions are the identity on every listed field (commission update time excepted), lists keep order; Go converters, pending store and genesis export/import exercised on random fully populated records; field census by Tie/Census.v.", "note": _NOTE, "technique": "Coq proof (record extensionality) + round-trip testing through the real codec and genesis path"},
    "C18": {"text": "Theorems: power query = last validator power for existing validators, error for unknown/malformed; pending and authority read-through; with the C02 invariant = CometBFT's power. Queries are state-free functions; the code's purity validated by the never-queried twin.", "note": _NOTE, "technique": "Coq proof + differential testing through the ABCI query path"},
}

ALL_IDS = ["C%02d" % i for i in range(1, 19)]
NOT_APPLICABLE = [{"property_id": p, "reason": "check under construction in this revision: model and theorems not yet committed (see DESIGN.md §7 for the plan)"}
                  for p in ALL_IDS if p not in PROPS]
