#!/usr/bin/env python3
"""check.py <Cxx> <quick|thorough> — decides one property for /repo's current working tree.

Protocol (DESIGN.md §6): rebuild harness + facts from /repo, re-check the Coq development
(proof obligations + tie theorems + hygiene), run the correspondence (implementation vs. extracted
model, a sample re-evaluated inside Coq), run the property monitors on the implementation's own
traces, classify failures against known_findings.json, write evidence/<id>.json, print the verdict.

Exit 0: property held on everything explored (KNOWN-FINDING lines allowed).
Exit 1: "VIOLATION property=<id> replay=<path>" (… no-failing-input-found when only a proof /
        correspondence broke and no failing input was found).
Exit 2: infrastructure failure (cannot build), never a VIOLATION line.
"""
import collections
import fcntl
import json
import os
import re
import subprocess
import sys
import time

ROOT = os.path.dirname(os.path.abspath(__file__))
COQ = os.path.join(ROOT, "coq")
EXTRACT = os.path.join(ROOT, "extract")
HARNESS = os.path.join(ROOT, "harness")
WORK = os.path.join(ROOT, "work")
REPLAYS = os.path.join(ROOT, "replays")
EVIDENCE = os.path.join(ROOT, "evidence")

GOENV = dict(os.environ, GOPROXY="off", GOSUMDB="off", GOTOOLCHAIN="local", GOFLAGS="")
GOENV.pop("GOWORK", None)

sys.path.insert(0, ROOT)
from props import PROPS  # noqa: E402  per-property configuration


def log(*a):
    print("[check]", *a, file=sys.stderr, flush=True)


def run(cmd, cwd=None, env=None, timeout=3600, inp=None):
    t0 = time.time()
    p = subprocess.run(cmd, cwd=cwd, env=env, input=inp, capture_output=True, text=True, timeout=timeout)
    return p.returncode, p.stdout, p.stderr, time.time() - t0


class Lock:
    def __init__(self, name):
        os.makedirs(WORK, exist_ok=True)
        self.path = os.path.join(WORK, name + ".lock")

    def __enter__(self):
        self.f = open(self.path, "w")
        fcntl.flock(self.f, fcntl.LOCK_EX)

    def __exit__(self, *a):
        fcntl.flock(self.f, fcntl.LOCK_UN)
        self.f.close()


# ------------------------------------------------------------------------------------------------
# step 1: rebuild
# ------------------------------------------------------------------------------------------------

def build_harness():
    """go build against /repo's working tree (workspace mode, offline)."""
    with Lock("gobuild"):
        # keep go.work.sum in step with the repository's
        src = "/repo/go.work.sum"
        if os.path.exists(src):
            with open(src) as f, open(os.path.join(HARNESS, "go.work.sum"), "w") as g:
                g.write(f.read())
        rc, out, err, dt = run(["go", "build", "-tags", "verif", "-o", "bin/harness", "./cmd/harness"], cwd=HARNESS, env=GOENV, timeout=1800)
    if rc != 0:
        log("harness build failed:\n" + err[-4000:])
        return False, err
    log("harness built in %.1fs" % dt)
    return True, ""


def regenerate_facts():
    """Fact generator: tables read off the running code -> coq/Extracted/*.v"""
    outdir = os.path.join(COQ, "Extracted")
    os.makedirs(outdir, exist_ok=True)
    with Lock("factgen"):
        rc, out, err, dt = run([os.path.join(HARNESS, "bin/harness"), "factgen", "-out", outdir], cwd=HARNESS, env=GOENV, timeout=600)
    if rc != 0:
        log("factgen failed:\n" + (out + err)[-3000:])
        return False, out + err
    return True, ""


def build_coq(clean=False):
    """Full .vo build of the development; returns (ok, failing_file_or_None, log)."""
    with Lock("coq"):
        if clean:
            run(["make", "clean"], cwd=COQ)
        if not os.path.exists(os.path.join(COQ, "Makefile")) or clean or \
                os.path.getmtime(os.path.join(COQ, "_CoqProject")) > os.path.getmtime(os.path.join(COQ, "Makefile")):
            run(["coq_makefile", "-f", "_CoqProject", "-o", "Makefile"], cwd=COQ)
        rc, out, err, dt = run(["timeout", "3000", "make", "-k", "-j16"], cwd=COQ, timeout=3100)
        if rc != 0 and "Cannot find a physical path" in out + err:
            # a stale dependency file (files added with old timestamps): recompute the dependencies once
            for fn in (".Makefile.d",):
                try:
                    os.remove(os.path.join(COQ, fn))
                except FileNotFoundError:
                    pass
            rc, out, err, dt = run(["timeout", "3000", "make", "-k", "-j16"], cwd=COQ, timeout=3100)
    logtxt = out + err
    failing = re.findall(r'File "\./([^"]+)", line (\d+)', logtxt) if rc != 0 else []
    # a file that no longer compiles must not leave the .vo of an earlier build behind
    for fn, _ in failing:
        for ext in (".vo", ".vos", ".vok", ".glob"):
            try:
                os.remove(os.path.join(COQ, fn[:-2] + ext))
            except (FileNotFoundError, IsADirectoryError):
                pass
    log("coq make rc=%d in %.1fs" % (rc, dt))
    return rc == 0, failing, logtxt


def build_model():
    with Lock("coq"):
        rc, out, err, dt = run(["sh", "build.sh"], cwd=EXTRACT, timeout=900)
    if rc != 0:
        log("model extraction/build failed:\n" + (out + err)[-3000:])
    return rc == 0, out + err


HYGIENE_RE = re.compile(r"\b(Admitted|admit|Axiom|Parameter|Conjecture|Admit Obligations|Unset Guard|bypass_check|"
                        r"type-in-type|impredicative-set|native_compute)\b")


def hygiene():
    """No Admitted/axioms/kernel switches anywhere in the development (comments stripped)."""
    bad = []
    for base, _, files in os.walk(COQ):
        for fn in files:
            if not fn.endswith(".v"):
                continue
            p = os.path.join(base, fn)
            txt = open(p).read()
            txt = re.sub(r"\(\*.*?\*\)", "", txt, flags=re.S)
            for m in HYGIENE_RE.finditer(txt):
                # "Variable"/"Hypothesis" inside sections are allowed; Parameter(s) never
                bad.append("%s: %s" % (os.path.relpath(p, COQ), m.group(1)))
    for fn in ("_CoqProject",):
        txt = open(os.path.join(COQ, fn)).read()
        for m in HYGIENE_RE.finditer(txt):
            bad.append("%s: %s" % (fn, m.group(1)))
    return bad


ALLOWED_AXIOMS = {
    # standard-library axioms admitted by the brief; each is named in DESIGN.md §9 (Flocq/Reals, C14 float lemma only)
    "ClassicalDedekindReals.sig_not_dec", "ClassicalDedekindReals.sig_forall_dec",
    "FunctionalExtensionality.functional_extensionality_dep", "Classical_Prop.classic",
}


def theorems_of(vfile):
    txt = open(vfile).read()
    txt = re.sub(r"\(\*.*?\*\)", "", txt, flags=re.S)
    return re.findall(r"^\s*(?:Theorem|Corollary)\s+([A-Za-z0-9_']+)", txt, flags=re.M)


def check_obligations(pid, coq_ok):
    """Returns (obligations, discharged, assumptions_text, broken:list[str])."""
    cfg = PROPS[pid]
    files = [os.path.join(COQ, "Properties", pid + ".v")] + [os.path.join(COQ, f) for f in cfg.get("tie", [])]
    names = []
    for f in files:
        if not os.path.exists(f):
            return 0, 0, "", ["missing " + os.path.relpath(f, COQ)]
        mod = os.path.relpath(f, COQ)[:-2].replace("/", ".")
        for th in theorems_of(f):
            names.append((mod, th))
    if not names:
        return 0, 0, "", ["no theorem in Properties/%s.v" % pid]
    broken = []
    discharged = 0
    texts = []
    wdir = os.path.join(WORK, pid)
    os.makedirs(wdir, exist_ok=True)
    # one coqc call per file of theorems: loads the compiled .vo (fails if it did not compile)
    for mod in sorted(set(m for m, _ in names)):
        ths = [t for m, t in names if m == mod]
        src = "Require Import %s.\n" % mod + "".join('Print Assumptions %s.\n' % t for t in ths)
        fn = os.path.join(wdir, "Assum_" + mod.replace(".", "_") + ".v")
        open(fn, "w").write(src)
        args = ["coqc"]
        for d in ("Model", "Legacy", "proofs", "Properties", "Tie", "Extracted"):
            args += ["-Q", os.path.join(COQ, d), d]
        rc, out, err, dt = run(args + [fn], cwd=wdir, timeout=600)
        if rc != 0:
            broken += ["%s.%s" % (mod, t) for t in ths]
            texts.append("%s: DOES NOT CHECK\n%s" % (mod, err[-1500:]))
            continue
        # split the output per theorem: each Print Assumptions prints either "Closed under the global context" or "Axioms:\n..."
        chunks = re.split(r"(?=Closed under the global context|Axioms:)", out)
        chunks = [c for c in chunks if c.strip()]
        for t, c in zip(ths, chunks):
            axs = re.findall(r"^([A-Za-z0-9_.']+)\s*:", c, flags=re.M) if c.startswith("Axioms:") else []
            axs = [a for a in axs if a != "Axioms"]
            unexpected = [a for a in axs if a not in ALLOWED_AXIOMS]
            if unexpected:
                broken.append("%s.%s uses %s" % (mod, t, ",".join(unexpected)))
            else:
                discharged += 1
            texts.append("%s.%s: %s" % (mod, t, "Closed under the global context" if not axs else "Axioms: " + ", ".join(axs)))
        if len(chunks) != len(ths):
            broken.append("%s: could not attribute Print Assumptions output" % mod)
    return len(names), discharged, "\n".join(texts), broken


# ------------------------------------------------------------------------------------------------
# step 3/4: correspondence and monitors
# ------------------------------------------------------------------------------------------------

def run_model_cases(cases):
    inp = "\n".join(cases) + "\n"
    rc, out, err, dt = run([os.path.join(EXTRACT, "poa_model"), "cases"], inp=inp, timeout=1800)
    lines = out.splitlines()
    if rc != 0 or len(lines) != len(cases):
        raise RuntimeError("model run failed rc=%d lines=%d/%d %s" % (rc, len(lines), len(cases), err[-500:]))
    return lines


def sexp_to_coq(s):
    """(Ctor a b [x y] 12 true None) -> Coq term. Mirrors the constructors one-to-one."""
    toks = re.findall(r"[()\[\]]|[^\s()\[\]]+", s)
    pos = 0

    def item():
        nonlocal pos
        t = toks[pos]
        pos += 1
        if t == "(":
            parts = []
            while toks[pos] != ")":
                parts.append(item())
            pos += 1
            return "(" + " ".join(parts) + ")"
        if t == "[":
            parts = []
            while toks[pos] != "]":
                parts.append(item())
            pos += 1
            return "[" + "; ".join(parts) + "]"
        if re.fullmatch(r"-?\d+", t):
            return "(%s)%%Z" % t
        return t
    return item()


def in_coq_crosscheck(pid, pairs, runner="run_case", imports="Model.Cases", printer="outcome"):
    """Evaluates a sample of the same cases inside Coq (vm_compute) and compares with the extracted
    model's answers: cross-checks extraction + the OCaml driver. pairs = [(case_sexp, model_out)]."""
    if not pairs:
        return 0, []
    wdir = os.path.join(WORK, pid)
    fn = os.path.join(wdir, "InCoq.v")
    with open(fn, "w") as f:
        f.write("Require Import Model.Base Model.Ante Model.Validate %s.\nOpen Scope Z_scope.\n" % imports)
        f.write("Definition cases := [\n  " + ";\n  ".join(sexp_to_coq(c) for c, _ in pairs) + "\n].\n")
        f.write("Definition outs := Eval vm_compute in map %s cases.\nPrint outs.\n" % runner)
    args = ["coqc"]
    for d in ("Model",):
        args += ["-Q", os.path.join(COQ, d), d]
    rc, out, err, dt = run(args + [fn], cwd=wdir, timeout=900)
    if rc != 0:
        return 0, ["in-Coq evaluation failed: " + err[-800:]]
    body = out[out.index("["):out.rindex("]") + 1]
    body = re.sub(r"\s+", " ", body)
    items = [x.strip() for x in body[1:-1].split(";")]
    got = []
    for it in items:
        it = it.replace("%Z", "").replace("(", "").replace(")", "").strip()
        m = it.split()
        if m[0] == "OPass":
            got.append("pass")
        elif m[0] == "OPanic":
            got.append("panic")
        elif m[0] == "OErr":
            got.append("err %s %s" % (m[1], m[2]))
        elif m[0] == "OBool":
            got.append(m[1])
        else:
            got.append("?" + it)
    bad = []
    if len(got) != len(pairs):
        return 0, ["in-Coq evaluation: %d answers for %d cases" % (len(got), len(pairs))]
    for (c, mo), g in zip(pairs, got):
        if mo != g:
            bad.append("extraction disagrees with vm_compute on %s: %s vs %s" % (c[:300], mo, g))
    return len(pairs), bad


def load_known():
    p = os.path.join(ROOT, "known_findings.json")
    if not os.path.exists(p):
        return []
    return json.load(open(p))


def write_replay(pid, seed, n, payload):
    os.makedirs(REPLAYS, exist_ok=True)
    p = os.path.join(REPLAYS, "%s-%d-%d.json" % (pid, seed, n))
    json.dump(payload, open(p, "w"), indent=1)
    return p


def pure_phase(pid, cfg, tier, seed, state):
    """L2/L3: stateless functions. Fills state with counts, mismatches, monitor failures."""
    kinds = cfg.get("pure_kinds")
    if not kinds:
        return
    n = cfg.get("pure_n", {}).get(tier, 2000)
    wdir = os.path.join(WORK, pid)
    os.makedirs(wdir, exist_ok=True)
    outp = os.path.join(wdir, "pure.jsonl")
    rc, out, err, dt = run([os.path.join(HARNESS, "bin/harness"), "pure", "-seed", str(seed), "-n", str(n), "-kinds", ",".join(kinds),
                            "-corpus", os.path.join(ROOT, "corpus", "pure.cases"), "-out", outp], cwd=wdir, env=GOENV, timeout=3000)
    if rc != 0:
        raise RuntimeError("harness pure failed: " + err[-2000:])
    recs = [json.loads(l) for l in open(outp)]
    # records without a model term (round trips through the real codec) are monitor-only
    with_case = [r for r in recs if r.get("case")]
    mod = dict(zip([id(r) for r in with_case], run_model_cases([r["case"] for r in with_case]) if with_case else []))
    model = [mod.get(id(r), r["impl"].split(" #")[0]) for r in recs]
    for r in recs:
        if not r.get("case"):
            r["case"] = "(no model term) " + " ".join(r.get("tags") or [])
    tags = collections.Counter()
    distinct = set()
    for r, mo in zip(recs, model):
        impl = r["impl"].split(" #")[0]
        state["evaluations"] += 1
        for t in r.get("tags") or []:
            tags[r["kind"] + ":" + t] += 1
        tags[r["kind"] + ":impl=" + impl] += 1
        if r.get("nontrivial"):
            distinct.add(r["case"] if not r["case"].startswith("(no model term)") else "%s#%d" % (r["case"], state["evaluations"]))
        if impl != mo:
            state["mismatches"].append({"level": "pure", "kind": r["kind"], "case": r["case"], "impl": r["impl"], "model": mo})
        if r["prop"] == pid and not r["monitor_ok"]:
            state["failures"].append({"sig": r["sig"], "level": "pure", "kind": r["kind"], "case": r["case"], "impl": r["impl"],
                                      "detail": r.get("detail", ""), "size": len(r["case"])})
    state["distinct"] |= distinct
    state["distribution"].update(tags)
    # samples + in-Coq cross-check on a deterministic sample
    step = max(1, len(recs) // cfg.get("incoq_n", {}).get(tier, 150))
    sample = [(recs[i]["case"], model[i]) for i in range(0, len(recs), step) if not recs[i]["case"].startswith("(no model term)")]
    nchk, bad = in_coq_crosscheck(pid, sample)
    state["incoq"] += nchk
    state["extraction_disagreements"] += bad
    state["samples"] += [{"case": recs[i]["case"], "impl": recs[i]["impl"], "model": model[i]} for i in range(0, len(recs), max(1, len(recs) // 4))][:4]


def main():
    if len(sys.argv) < 3 or sys.argv[1] not in PROPS or sys.argv[2] not in ("quick", "thorough"):
        print("usage: check.py <%s> <quick|thorough>" % "|".join(sorted(PROPS)), file=sys.stderr)
        return 2
    pid, tier = sys.argv[1], sys.argv[2]
    tier = os.environ.get("VERIF_TIER", tier) if os.environ.get("VERIF_TIER") in ("quick", "thorough") else tier
    seed = int(os.environ.get("VERIF_SEED", "1") or 1)
    cfg = PROPS[pid]
    t0 = time.time()
    os.makedirs(os.path.join(WORK, pid), exist_ok=True)
    os.makedirs(EVIDENCE, exist_ok=True)

    ok, err = build_harness()
    if not ok:
        print("INFRASTRUCTURE: harness does not build against /repo", file=sys.stderr)
        return 2
    ok, err = regenerate_facts()
    if not ok:
        print("INFRASTRUCTURE: fact generator failed", file=sys.stderr)
        return 2

    broken = []          # proof obligations / ties / hygiene that no longer check
    coq_ok, failing, coqlog = build_coq(clean=(tier == "thorough" and os.environ.get("VERIF_NO_CLEAN") != "1"))
    hyg = hygiene()
    if hyg:
        broken += ["hygiene: " + h for h in hyg]
    nob, ndis, assum, br = check_obligations(pid, coq_ok)
    broken += br
    model_ok, merr = build_model()
    if not model_ok:
        print("INFRASTRUCTURE: executable model does not build (Model/*.v broken)", file=sys.stderr)
        return 2

    state = dict(evaluations=0, mismatches=[], failures=[], distinct=set(), distribution=collections.Counter(),
                 incoq=0, extraction_disagreements=[], samples=[], histories=0, extra={})
    pure_phase(pid, cfg, tier, seed, state)
    if cfg.get("l1"):
        from l1 import l1_phase
        l1_phase(pid, cfg, tier, seed, state, dict(run=run, GOENV=GOENV, WORK=WORK, HARNESS=HARNESS, EXTRACT=EXTRACT, COQ=COQ, log=log,
                                                   in_coq_crosscheck=in_coq_crosscheck))

    coqchk_txt = ""
    if tier == "thorough" and os.environ.get("VERIF_NO_COQCHK") != "1":
        with Lock("coq"):
            rc, out, err, dt = run(["timeout", "2400", "coqchk", "-silent", "-o", "-Q", "Model", "Model", "-Q", "Legacy", "Legacy", "-Q", "proofs", "proofs",
                                    "-Q", "Properties", "Properties", "-Q", "Tie", "Tie", "-Q", "Extracted", "Extracted", "Properties." + pid]
                                   + [f[:-2].replace("/", ".") for f in cfg.get("tie", [])], cwd=COQ, timeout=2500)
        coqchk_txt = (out + err)[-3000:]
        if rc != 0:
            broken.append("coqchk Properties.%s failed" % pid)

    # ---- verdict ----
    known = [k for k in load_known() if k.get("property") == pid]
    known_sigs = {k["signature"]: k for k in known if k.get("status") == "known"}
    by_sig = collections.OrderedDict()
    for f in state["failures"]:
        by_sig.setdefault(f["sig"], []).append(f)
    lines = []
    violations = 0
    n = 0
    for sig, fs in by_sig.items():
        fs.sort(key=lambda f: f.get("size", 0))
        if sig in known_sigs:
            lines.append("KNOWN-FINDING: property=%s %s — %s (%d inputs this run)" % (pid, sig, known_sigs[sig].get("what", ""), len(fs)))
            continue
        n += 1
        violations += 1
        path = write_replay(pid, seed, n, {"property": pid, "signature": sig, "failing_inputs": len(fs), "minimal": fs[0],
                                           "replay_cmd": "python3 /verif/check.py %s --replay %s" % (pid, "<this file>"),
                                           "others": fs[1:4]})
        lines.append("VIOLATION property=%s replay=%s" % (pid, path))
    if violations == 0:
        problems = []
        if broken:
            problems.append({"kind": "proof-obligation", "items": broken, "coq_log_tail": coqlog[-3000:]})
        if state["mismatches"]:
            problems.append({"kind": "correspondence", "count": len(state["mismatches"]), "first": state["mismatches"][:5]})
        if state["extraction_disagreements"]:
            problems.append({"kind": "extraction-crosscheck", "items": state["extraction_disagreements"][:5]})
        if problems:
            violations += 1
            path = write_replay(pid, seed, 0, {"property": pid, "no_failing_input_found": True, "problems": problems,
                                               "explanation": "a theorem, tie or the model/implementation correspondence no longer checks; the monitors found no input on which the property fails"})
            lines.append("VIOLATION property=%s replay=%s no-failing-input-found" % (pid, path))

    wall = time.time() - t0
    ev = {
        "property_id": pid, "tier": tier, "seed": seed, "level": "proof",
        "coverage": {
            "obligations": nob, "discharged": ndis,
            "checker_cmd": "cd /verif/coq && coq_makefile -f _CoqProject -o Makefile && make -j16  (full .vo build, coqc 8.16.1); Print Assumptions per theorem; thorough adds make clean + coqchk -silent -o Properties.%s and the property's Tie modules" % pid,
            "trusted_base": [
                "Coq 8.16.1 kernel; vm_compute (witnesses, tie theorems, in-Coq case evaluation); no native_compute",
                "Print Assumptions: " + (assum.replace("\n", " | ") if assum else "n/a"),
                "fact generator (Go reflection over the built code) + Tie theorems",
                "extraction: ExtrOcamlBasic only (its Extract Inductive bool/option/unit/prod/list/sumbool), no user Extract directive; OCaml 4.13.1; hand-written driver (extract/sexp.ml, driver.ml); cross-checked by in-Coq vm_compute on a sample each run",
                "correspondence harness (Go) against /repo's working tree; monitors; CometBFT ValidatorSet as oracle (L1)",
                "modelled not verified: x/staking, x/slashing, bank pools, CometBFT update rules re-written in Gallina from the pinned versions",
            ],
            "evaluations": state["evaluations"],
            "distinct_nontrivial": len(state["distinct"]),
            "rule": cfg.get("rule", ""),
            "samples": state["samples"][:6] or [{"note": "no executable cases for this property in this tier"}],
            "traces_validated_against_impl": state["histories"],
            "model_vs_impl_mismatches": len(state["mismatches"]),
            "in_coq_crosschecked_cases": state["incoq"],
            "input_distribution": dict(sorted(state["distribution"].items())[:400]),
            "monitor_failures_by_signature": {k: len(v) for k, v in by_sig.items()},
            "known_findings_seen": [s for s in by_sig if s in known_sigs],
            "broken_obligations": broken,
            "coqchk": coqchk_txt,
            **state["extra"],
        },
        "assumptions": cfg.get("assumptions", []),
        "wall_s": round(wall, 1),
        "violations": violations,
    }
    json.dump(ev, open(os.path.join(EVIDENCE, pid + ".json"), "w"), indent=1)
    for l in lines:
        print(l)
    print("%s %s: obligations %d/%d, evaluations %d (distinct non-trivial %d), model≠impl %d, monitor signatures %d, %.0fs" % (
        pid, tier, ndis, nob, state["evaluations"], len(state["distinct"]), len(state["mismatches"]), len(by_sig), wall))
    return 1 if violations else 0


if __name__ == "__main__":
    try:
        sys.exit(main())
    except RuntimeError as e:
        print("INFRASTRUCTURE:", e, file=sys.stderr)
        sys.exit(2)
