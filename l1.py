"""L1 phase of check.py: histories on the real SimApp vs. the extracted Coq model, plus the
property monitors evaluated on the implementation's own traces."""
import collections
import json
import os
import re
import subprocess

TAGS = {1: "H", 2: "TX", 3: "UPD", 4: "HALT", 5: "COMET", 6: "VAL", 7: "DEL", 8: "IDX", 9: "LAST", 10: "LTOT", 11: "UBQ", 12: "PARAMS",
        13: "SIGN", 14: "PEND", 15: "POA", 16: "POOL", 17: "SUPPLY", 18: "QPOWER", 19: "SEQ", 20: "INITUPD"}


def split_proj(path):
    out, cur = [], None
    for line in open(path):
        line = line.rstrip("\n")
        if line.startswith("== "):
            cur = []
            out.append(cur)
        elif cur is not None:
            cur.append(line.rstrip())
    return out


def first_diff(a, b):
    h = "H 0"
    for k in range(max(len(a), len(b))):
        x = a[k] if k < len(a) else "<end>"
        y = b[k] if k < len(b) else "<end>"
        if x.startswith("H "):
            h = x
        if x != y:
            return {"at": h, "impl": x, "model": y}
    return None


def incoq_histories(env, pid, hist_lines, model_proj):
    """Evaluate a few histories inside Coq (vm_compute) and compare with the extracted model's rows."""
    from check import sexp_to_coq  # late import (check.py is the entry point)
    wdir = os.path.join(env["WORK"], pid)
    fn = os.path.join(wdir, "InCoqHist.v")
    with open(fn, "w") as f:
        f.write("From stdpp Require Import gmap.\nRequire Import Model.Base Model.Ante Model.Validate Model.State Model.Staking Model.Slashing Model.App.\nOpen Scope Z_scope.\n")
        for i, h in enumerate(hist_lines):
            f.write("Definition h%d := %s.\nDefinition r%d := Eval vm_compute in run_history h%d.\nPrint r%d.\n" % (i, sexp_to_coq(h), i, i, i))
    args = ["coqc", "-Q", os.path.join(env["COQ"], "Model"), "Model", fn]
    rc, out, err, dt = env["run"](args, cwd=wdir, timeout=1200)
    if rc != 0:
        return 0, ["in-Coq evaluation of histories failed: " + err[-600:]]
    chunks = re.split(r"r\d+\s*=", out)[1:]
    bad = []
    if len(chunks) != len(hist_lines):
        return 0, ["in-Coq evaluation: %d outputs for %d histories" % (len(chunks), len(hist_lines))]
    for i, ch in enumerate(chunks):
        ch = ch.split(": list row")[0]
        rows = []
        for m in re.finditer(r"Row\s+\(?(-?\d+)\)?(?:%Z)?\s+\[([^\]]*)\]", ch.replace("\n", " ")):
            tag = TAGS.get(int(m.group(1)), "T" + m.group(1))
            fields = [x.strip().replace("%Z", "").replace("(", "").replace(")", "") for x in m.group(2).split(";") if x.strip()]
            rows.append((tag + " " + " ".join(fields)).strip())
        if rows != [l for l in model_proj[i]]:
            d = first_diff(model_proj[i], rows)
            bad.append("extraction disagrees with vm_compute on history %d: %s" % (i, d))
    return len(hist_lines), bad


def l1_phase(pid, cfg, tier, seed, state, env):
    l1 = cfg["l1"]
    n = l1.get("n", {}).get(tier, 100)
    profiles = l1.get("profiles", ["mixed"])
    wdir = os.path.join(env["WORK"], pid)
    procs = []
    # shard: one process per (profile, shard)
    shards = l1.get("shards", {}).get(tier, 1)
    jobs = []
    for pi, prof in enumerate(profiles):
        for sh in range(shards):
            out = os.path.join(wdir, "l1_%s_%d" % (prof, sh))
            os.makedirs(out, exist_ok=True)
            for fn in ("l1.jsonl", "l1.hist", "l1.impl", "l1.model"):
                try:
                    os.remove(os.path.join(out, fn))
                except FileNotFoundError:
                    pass
            args = [os.path.join(env["HARNESS"], "bin/harness"), "l1", "-n", str(max(1, n // (len(profiles) * shards))), "-profile", prof,
                    "-seed", str(seed * 1000 + pi * 37 + sh), "-out", out]
            if sh > 0 or pi > 0:
                args += ["-only", "NONE"]  # directed scenarios once
            if l1.get("restarts"):
                args += ["-restarts", "1"]
            if l1.get("twin"):
                args += ["-twin", "1"]
            jobs.append((out, subprocess.Popen(["sh", "-c", "ulimit -v 16000000; exec \"$@\"", "sh"] + args, cwd=wdir, env=env["GOENV"],
                                               stdout=subprocess.DEVNULL, stderr=subprocess.PIPE)))
    for out, p in jobs:
        _, err = p.communicate(timeout=3400)
        if p.returncode != 0:
            raise RuntimeError("harness l1 failed (%s): %s" % (out, err.decode(errors="replace")[-1500:]))
    sample_for_coq = []
    for out, _ in jobs:
        with open(os.path.join(out, "l1.hist")) as f, open(os.path.join(out, "l1.model"), "w") as g:
            rc = subprocess.run([os.path.join(env["EXTRACT"], "poa_model"), "hist"], stdin=f, stdout=g, timeout=3000).returncode
        if rc != 0:
            raise RuntimeError("model run on histories failed")
        impl = split_proj(os.path.join(out, "l1.impl"))
        model = split_proj(os.path.join(out, "l1.model"))
        hist_lines = [l for l in open(os.path.join(out, "l1.hist")).read().splitlines() if l.strip()]
        recs = [json.loads(l) for l in open(os.path.join(out, "l1.jsonl"))]
        if not (len(impl) == len(model) == len(recs) == len(hist_lines)):
            raise RuntimeError("projection count mismatch %d/%d/%d" % (len(impl), len(model), len(recs)))
        for i, rec in enumerate(recs):
            state["evaluations"] += 1
            state["histories"] += 1
            tags = rec.get("tags") or []
            for t in tags:
                state["distribution"]["l1:" + t] += 1
            nontriv = cfg.get("l1_nontrivial")
            if nontriv is None or all(t in tags for t in nontriv):
                state["distinct"].add(hist_lines[i])
            if impl[i] != model[i]:
                d = first_diff(impl[i], model[i])
                state["mismatches"].append({"level": "l1", "history": rec["name"], "first_difference": d, "history_json": rec["history"]})
            for f in rec.get("failures") or []:
                if f["prop"] == pid:
                    nmsgs = sum(len(t["msgs"]) for b in rec["history"]["blocks"] for t in (b.get("txs") or []))
                    state["failures"].append({"sig": f["sig"], "level": "l1", "history_name": rec["name"], "height": f["height"], "detail": f["detail"],
                                              "history": rec["history"], "size": len(rec["history"]["blocks"]) * 3 + nmsgs * 10})
            if len(state["samples"]) < 3 and rec["name"].startswith(("P", "S")) is False and rec["blocks"] > 5:
                state["samples"].append({"history": hist_lines[i][:1500], "blocks": rec["blocks"], "tags": tags[:30]})
        if len(sample_for_coq) < l1.get("incoq", {}).get(tier, 4):
            k = l1.get("incoq", {}).get(tier, 4) - len(sample_for_coq)
            step = max(1, len(hist_lines) // max(1, k))
            for i in list(range(0, len(hist_lines), step))[:k]:
                sample_for_coq.append((hist_lines[i], model[i]))
    # focused search: when model and implementation disagree on histories and no monitor of this property fired on them, those
    # histories are run again with restart and twin execution switched on and *every* failing transaction twin-executed
    # (the first pass twin-executes three per history). Never runs on a tree where the correspondence holds.
    l1_mis = [m for m in state["mismatches"] if m.get("level") == "l1"]
    hit = set(f["history_name"] for f in state["failures"])
    todo = [m for m in l1_mis if m["history"] not in hit][:12]
    if todo:
        out = os.path.join(wdir, "l1_focus")
        os.makedirs(out, exist_ok=True)
        ffile = os.path.join(out, "focus.jsonl")
        with open(ffile, "w") as f:
            for m in todo:
                f.write(json.dumps({"name": m["history"], "history": m["history_json"]}) + "\n")
        args = [os.path.join(env["HARNESS"], "bin/harness"), "l1", "-focus", ffile, "-seed", str(seed), "-out", out, "-twin", "1", "-restarts", "1"]
        p = subprocess.run(["sh", "-c", "ulimit -v 16000000; exec \"$@\"", "sh"] + args, cwd=wdir, env=env["GOENV"],
                           stdout=subprocess.DEVNULL, stderr=subprocess.PIPE, timeout=3400)
        state["distribution"]["l1:focused-search-histories"] += len(todo)
        if p.returncode == 0:
            for line in open(os.path.join(out, "l1.jsonl")):
                rec = json.loads(line)
                for f in rec.get("failures") or []:
                    if f["prop"] == pid:
                        nmsgs = sum(len(t["msgs"]) for b in rec["history"]["blocks"] for t in (b.get("txs") or []))
                        state["failures"].append({"sig": f["sig"], "level": "l1", "history_name": rec["name"], "height": f["height"], "detail": f["detail"],
                                                  "history": rec["history"], "size": len(rec["history"]["blocks"]) * 3 + nmsgs * 10})
        else:
            env["log"]("focused search failed: " + p.stderr.decode(errors="replace")[-500:])
    if sample_for_coq:
        nchk, bad = incoq_histories(env, pid, [h for h, _ in sample_for_coq], [m for _, m in sample_for_coq])
        state["incoq"] += nchk
        state["extraction_disagreements"] += bad
