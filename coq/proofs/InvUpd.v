(* InvUpd.v — what a block's validator updates can mention: only validators whose last validator power changes in
   this very EndBlock, and the update says exactly what it changes to. (Together with InvElig — the last power is
   the token power of the unjailed validators — an update can therefore only concern a validator whose tokens or
   jailed flag were changed in the block, or that the max_validators cut-off moved.) *)
From stdpp Require Import gmap.
Require Import Model.Base Model.Ante Model.Validate Model.Current Model.State Model.Staking Model.Slashing Model.Poa Model.App.
Require Import proofs.EvBasic proofs.Inv proofs.InvIdx proofs.L1Effects proofs.InvPres proofs.InvMsgs proofs.InvHistory proofs.InvComet proofs.InvElig proofs.InvLive.
Open Scope Z_scope.

Definition new_power (p : Z) : option Z := if p =? 0 then None else Some p.

(* one update, against the store before (s0) and the last powers now (lp) *)
Definition upd_ok (s0 : staking) (lp : gmap Z Z) (k p : Z) (excl : list Z) (ll : gmap Z Z) : Prop :=
  exists id v0, vals s0 !! id = Some v0 /\ v_cons v0 = k /\ lp !! id = new_power p /\ last_pow s0 !! id <> new_power p /\
                ~ In id excl /\ ll !! id = None.

Lemma apply_loop_upd s0 keys maxv : forall a a',
  apply_loop keys maxv a = LDone a' ->
  (forall p id, In (p, id) keys -> exists v, vals (stk (la_chain a)) !! id = Some v /\ v_jailed v = false /\ p = v_power v) ->
  List.NoDup (map snd keys) ->
  same_ids_cons s0 (stk (la_chain a)) ->
  (forall id, In id (map snd keys) -> la_last a !! id = last_pow s0 !! id) ->
  (forall k p, In (k, p) (la_upd a) -> upd_ok s0 (last_pow (stk (la_chain a))) k p (map snd keys) (la_last a)) ->
  same_ids_cons s0 (stk (la_chain a')) /\
  (forall k p, In (k, p) (la_upd a') -> upd_ok s0 (last_pow (stk (la_chain a'))) k p [] (la_last a')).
Proof.
  induction keys as [|[p id] ks IH]; intros a a' Hrun K1 Knd Hsame Hcopy Hupd; cbn [apply_loop] in Hrun.
  - inversion Hrun; subst. auto.
  - assert (Hstop : LDone a = LDone a' -> same_ids_cons s0 (stk (la_chain a')) /\
              (forall k q, In (k, q) (la_upd a') -> upd_ok s0 (last_pow (stk (la_chain a'))) k q [] (la_last a'))).
    { intros [= <-]. split; [exact Hsame|]. intros k q Hin. destruct (Hupd k q Hin) as (i & v0 & A & B & C & D & _ & F). exists i, v0. repeat split; auto. }
    destruct (maxv <=? la_count a); [apply Hstop; exact Hrun|].
    destruct (K1 p id (or_introl eq_refl)) as (v & Hv & Hj & Hp). subst p. rewrite Hv, Hj in Hrun.
    destruct (Z.eqb_spec (v_power v) 0) as [Hz|Hnz]; [apply Hstop; exact Hrun|].
    inversion Knd as [|? ? Knotin Knd']; subst.
    set (r := match v_status v with Bonded => (la_chain a, v, 0) | _ => let '(c', v') := bond_validator (la_chain a) id v in (c', v', v_tokens v') end) in Hrun.
    assert (Hr : exists c1 v1 moved, r = (c1, v1, moved) /\ v_cons v1 = v_cons v /\ v_power v1 = v_power v /\
                 vals (stk c1) = <[id := v1]> (vals (stk (la_chain a))) /\ last_pow (stk c1) = last_pow (stk (la_chain a))).
    { subst r. pose proof (bond_validator_vals (la_chain a) id v) as (H1 & H2 & H3). destruct (v_status v) eqn:Es.
      - destruct (bond_validator (la_chain a) id v) as [c' v']. cbn in *. subst v'. do 3 eexists. repeat split; eauto.
      - destruct (bond_validator (la_chain a) id v) as [c' v']. cbn in *. subst v'. do 3 eexists. repeat split; eauto.
      - exists (la_chain a), v, 0. repeat split; auto. rewrite insert_id; auto. }
    destruct Hr as (c1 & v1 & moved & Er & Hc1 & Hp1 & Hvals1 & Hlp1). rewrite Er in Hrun. cbn zeta in Hrun.
    set (changed := match la_last a !! id with Some old => negb (old =? v_power v1) | None => true end) in Hrun.
    set (c2 := if changed then with_stk c1 (st_last_pow (stk c1) (<[id := v_power v1]> (last_pow (stk c1)))) else c1) in Hrun.
    assert (Hvals2 : vals (stk c2) = <[id := v1]> (vals (stk (la_chain a)))) by (subst c2; destruct changed; exact Hvals1).
    assert (Hlp2' : forall j, j <> id -> last_pow (stk c2) !! j = last_pow (stk (la_chain a)) !! j).
    { intros j Hjne. subst c2. destruct changed; cbn; rewrite Hlp1; [apply lookup_insert_ne; auto|reflexivity]. }
    assert (Hsame2 : same_ids_cons s0 (stk c2)).
    { eapply same_ids_cons_trans; [exact Hsame|]. eapply same_ids_cons_insert; [exact Hv|exact Hc1|exact Hvals2]. }
    match type of Hrun with apply_loop ks maxv ?x = _ => set (a1 := x) in Hrun end.
    apply (IH a1 a' Hrun).
    + intros q j Hin. destruct (K1 q j (or_intror Hin)) as (w & Hw & Hjw & Hq). cbn [a1 la_chain]. rewrite Hvals2.
      destruct (decide (j = id)) as [->|Hne]; [exfalso; apply Knotin; change id with (snd (q, id)); apply in_map; exact Hin|].
      rewrite lookup_insert_ne by auto. eauto.
    + exact Knd'.
    + exact Hsame2.
    + cbn [a1 la_last]. intros j Hin. assert (j <> id) by (intros ->; contradiction). rewrite lookup_delete_ne by auto. apply Hcopy. right; exact Hin.
    + cbn [a1 la_upd la_chain la_last]. intros k q Hin.
      assert (Hold : forall k q, In (k, q) (la_upd a) -> upd_ok s0 (last_pow (stk c2)) k q (map snd ks) (delete id (la_last a))).
      { intros k' q' Hin'. destruct (Hupd k' q' Hin') as (i & v0 & A & B & C & D & E & F). exists i, v0.
        assert (Hne : i <> id) by (intros ->; apply E; left; reflexivity).
        repeat split; auto; [rewrite Hlp2' by auto; exact C|intros H; apply E; right; exact H|rewrite lookup_delete_ne by auto; exact F]. }
      destruct changed eqn:Ech; [|apply Hold; exact Hin].
      apply in_app_or in Hin as [Hin|[Heq|[]]]; [apply Hold; exact Hin|]. inversion Heq; subst k q. clear Heq.
      destruct (proj2 Hsame id v Hv) as (v0 & Hv0 & Hc0).
      exists id, v0. split; [exact Hv0|]. split; [congruence|].
      assert (Hnp : new_power (v_power v1) = Some (v_power v1)) by (unfold new_power; rewrite Hp1; destruct (Z.eqb_spec (v_power v) 0); [contradiction|reflexivity]).
      rewrite Hnp. split; [subst c2; cbn; rewrite Hlp1; apply lookup_insert|].
      split; [|split; [exact Knotin|apply lookup_delete]].
      rewrite <- (Hcopy id (or_introl eq_refl)). unfold changed in Ech. destruct (la_last a !! id) as [old|]; [|discriminate].
      intros [= ->]. rewrite Z.eqb_refl in Ech. discriminate.
Qed.

Lemma unbond_loop_upd s0 ids : forall a a',
  unbond_loop ids a = LDone a' ->
  List.NoDup ids ->
  (forall id, In id ids -> is_Some (last_pow s0 !! id)) ->
  same_ids_cons s0 (stk (la_chain a)) ->
  (forall k p, In (k, p) (la_upd a) -> upd_ok s0 (last_pow (stk (la_chain a))) k p ids ∅) ->
  forall k p, In (k, p) (la_upd a') -> upd_ok s0 (last_pow (stk (la_chain a'))) k p [] ∅.
Proof.
  induction ids as [|i rest IH]; intros a a' Hrun Hnd Hlast Hsame Hupd; cbn [unbond_loop] in Hrun; [inversion Hrun; subst; exact Hupd|].
  destruct (vals (stk (la_chain a)) !! i) as [v|] eqn:Hv; [|discriminate]. destruct (negb _); [discriminate|].
  pose proof (begin_unbonding_vals (la_chain a) i v) as (vu & Hsnd & Hcu & _ & Hvals & Hlp).
  destruct (begin_unbonding (la_chain a) i v) as [c1 v1] eqn:Eb. cbn [fst snd] in *. subst v1.
  inversion Hnd as [|? ? Hnotin Hnd']; subst.
  apply (IH _ a' Hrun Hnd').
  - intros j Hj. apply Hlast. right; exact Hj.
  - cbn [la_chain]. eapply same_ids_cons_trans; [exact Hsame|]. eapply same_ids_cons_insert; [exact Hv|exact Hcu|exact Hvals].
  - cbn [la_upd la_chain]. intros k q Hin.
    apply in_app_or in Hin as [Hin|[Heq|[]]].
    + destruct (Hupd k q Hin) as (j & v0 & A & B & C & D & E & F). exists j, v0.
      assert (Hne : j <> i) by (intros ->; apply E; left; reflexivity).
      repeat split; auto; [cbn; rewrite Hlp, lookup_delete_ne by auto; exact C|intros H; apply E; right; exact H].
    + inversion Heq; subst k q. destruct (proj2 Hsame i v Hv) as (v0 & Hv0 & Hc0). exists i, v0.
      split; [exact Hv0|]. split; [congruence|]. unfold new_power. cbn [Z.eqb]. split; [cbn; rewrite Hlp; apply lookup_delete|].
      split; [destruct (Hlast i (or_introl eq_refl)) as [q Hq]; rewrite Hq; discriminate|]. split; [exact Hnotin|apply lookup_empty].
Qed.

Theorem apply_valset_updates_upd c c' upd :
  CI c -> apply_valset_updates c = EBOk c' upd ->
  forall k p, In (k, p) upd ->
    exists id v, vals (stk c) !! id = Some v /\ v_cons v = k /\
                 last_pow (stk c') !! id = new_power p /\ last_pow (stk c) !! id <> last_pow (stk c') !! id.
Proof.
  intros [HS HP] Hrun. unfold apply_valset_updates in Hrun.
  set (keys := sort_by pidx_le (pidx (stk c))) in *.
  set (a0 := {| la_chain := c; la_last := last_pow (stk c); la_upd := []; la_count := 0; la_total := 0; la_to_bonded := 0 |}) in *.
  destruct (apply_loop keys _ a0) as [a1|] eqn:E1; [|discriminate].
  destruct (unbond_loop _ a1) as [a2|] eqn:E2; [|discriminate].
  assert (Hperm : forall x, In x keys -> In x (pidx (stk c))).
  { intros x H. apply (Permutation_in _ (sort_by_perm pidx_le _)) in H. exact H. }
  destruct (apply_loop_upd (stk c) keys _ a0 a1 E1) as (S1 & U1).
  { intros p id Hin. apply Hperm in Hin. apply (si_sound _ HS). exact Hin. }
  { eapply Permutation_NoDup; [|exact (si_unique _ HS)]. apply Permutation_map. symmetry. apply sort_by_perm. }
  { apply same_ids_cons_refl. }
  { auto. }
  { intros k p []. }
  destruct (apply_loop_facts _ _ _ _ E1) as (_ & B & _). cbn in B.
  destruct (sorted_keys_spec (la_last a1)) as [Hnd Hmem].
  assert (U2 : forall k p, In (k, p) (la_upd a2) -> upd_ok (stk c) (last_pow (stk (la_chain a2))) k p [] ∅).
  { apply (unbond_loop_upd (stk c) _ a1 a2 E2 Hnd).
    - intros id Hin. apply Hmem in Hin as [q Hq]. apply B in Hq. eauto.
    - exact S1.
    - intros k p Hin. destruct (U1 k p Hin) as (i & v0 & A & B' & C & D & _ & F). exists i, v0. repeat split; auto.
      intros Hi. apply Hmem in Hi as [q Hq]. congruence. }
  destruct (if la_to_bonded a2 =? 0 then _ else _) as [b|]; [|discriminate]. injection Hrun as Hc' Hu.
  assert (Hl : last_pow (stk c') = last_pow (stk (la_chain a2))) by (rewrite <- Hc'; destruct (la_upd a2); reflexivity).
  subst upd. intros k p Hin. destruct (U2 k p Hin) as (i & v0 & A & B' & C & D & _ & _). exists i, v0.
  rewrite Hl. repeat split; auto. rewrite C. exact D.
Qed.

(* ---- records that survive the EndBlocker keep their consensus key ---- *)
Definition cons_back (s s' : staking) : Prop :=
  forall id v', vals s' !! id = Some v' -> exists v, vals s !! id = Some v /\ v_cons v = v_cons v'.

Lemma cons_back_refl s : cons_back s s.
Proof. intros id v H. eauto. Qed.
Lemma cons_back_trans s1 s2 s3 : cons_back s1 s2 -> cons_back s2 s3 -> cons_back s1 s3.
Proof. intros A B id v3 H3. destruct (B id v3 H3) as (v2 & H2 & E2). destruct (A id v2 H2) as (v1 & H1 & E1). exists v1. split; [exact H1|congruence]. Qed.

Lemma unbond_loop_cons_back ids : forall a a', unbond_loop ids a = LDone a' -> cons_back (stk (la_chain a)) (stk (la_chain a')).
Proof.
  induction ids as [|i rest IH]; intros a a'; cbn [unbond_loop]; [intros [= <-]; apply cons_back_refl|].
  destruct (vals (stk (la_chain a)) !! i) as [v|] eqn:Hv; [|discriminate]. destruct (negb _); [discriminate|].
  pose proof (begin_unbonding_vals (la_chain a) i v) as (vu & Hsnd & Hcu & _ & Hvals & _).
  destruct (begin_unbonding (la_chain a) i v) as [c1 v1] eqn:Eb. cbn [fst snd] in *. subst v1. intros H. apply IH in H. cbn [la_chain] in H.
  eapply cons_back_trans; [|exact H]. intros j w. cbn. rewrite Hvals. destruct (decide (j = i)) as [->|Hne].
  - rewrite lookup_insert. intros [= <-]. eauto.
  - rewrite lookup_insert_ne by auto. eauto.
Qed.

Lemma mature_ids_cons_back ids : forall c c', mature_ids ids c = Some c' -> cons_back (stk c) (stk c').
Proof.
  induction ids as [|id rest IH]; cbn [mature_ids]; intros c c'; [intros [= <-]; apply cons_back_refl|].
  destruct (vals (stk c) !! id) as [v|] eqn:Hv; [|discriminate]. destruct (negb _); [discriminate|].
  set (v' := set_status v Unbonded).
  destruct (v_shares v' =? 0).
  - destruct (0 <? v_tokens v'); [discriminate|]. intros H. apply IH in H. eapply cons_back_trans; [|exact H].
    intros j w. cbn. intros Hl. apply lookup_delete_Some in Hl as [Hne Hl]. rewrite lookup_insert_ne in Hl by auto. eauto.
  - intros H. apply IH in H. eapply cons_back_trans; [|exact H]. intros j w. cbn. destruct (decide (j = id)) as [->|Hne].
    + rewrite lookup_insert. intros [= <-]. eauto.
    + rewrite lookup_insert_ne by auto. eauto.
Qed.

Lemma mature_slots_cons_back slots : forall c c', mature_slots slots c = Some c' -> cons_back (stk c) (stk c').
Proof.
  induction slots as [|[[t h] ids] rest IH]; cbn [mature_slots]; intros c c'; [intros [= <-]; apply cons_back_refl|].
  destruct (_ && _); [|apply IH]. destruct (mature_ids ids c) as [c1|] eqn:E; [|discriminate]. intros H.
  eapply cons_back_trans; [eapply mature_ids_cons_back; eauto|apply IH; exact H].
Qed.

Lemma staking_end_block_cons_back c c' upd : staking_end_block c = EBOk c' upd -> cons_back (stk c) (stk c').
Proof.
  unfold staking_end_block. destruct (apply_valset_updates c) as [c1 u|] eqn:E1; [|discriminate].
  destruct (unbond_all_mature c1) as [c2|] eqn:E2; [|discriminate]. intros [= <- _].
  eapply cons_back_trans; [|eapply mature_slots_cons_back; exact E2].
  unfold apply_valset_updates in E1.
  destruct (apply_loop _ _ _) as [a1|] eqn:L1; [|discriminate]. destruct (unbond_loop _ a1) as [a2|] eqn:U1; [|discriminate].
  destruct (if la_to_bonded a2 =? 0 then _ else _); [|discriminate]. injection E1 as Hc1 _.
  destruct (apply_loop_facts _ _ _ _ L1) as (_ & _ & [_ C]). cbn in C.
  assert (Hb : cons_back (stk c) (stk (la_chain a2))) by (eapply cons_back_trans; [exact C|eapply unbond_loop_cons_back; exact U1]).
  intros id v' Hv'. apply Hb. rewrite <- Hc1 in Hv'. destruct (la_upd a2); exact Hv'.
Qed.

(* ---- one block ---- *)
Theorem block_updates_only_changes w b w' out :
  WI w -> w_halted w = None -> run_block w b = (w', Some out) ->
  forall k p, In (k, p) (bo_updates out) ->
    exists id, last_pow (stk (w_chain w')) !! id = new_power p /\
               last_pow (stk (w_chain w)) !! id <> last_pow (stk (w_chain w')) !! id /\
               ((exists v, vals (stk (w_chain w')) !! id = Some v /\ v_cons v = k) \/
                (exists v, vals (stk (w_chain w)) !! id = Some v /\ v_cons v = k)).
Proof.
  intros [HCI Hrel] Hh. unfold run_block. rewrite Hh.
  set (c0 := with_clock (w_chain w) (height (w_chain w) + 1) (now (w_chain w) + b_dt b)).
  assert (H0 : CI c0) by (apply CI_clock; exact HCI).
  destruct (begin_block c0 _ (b_absent b) (b_evidence b)) as [c1|e] eqn:Eb; [|discriminate].
  pose proof (begin_block_CI _ _ _ _ _ H0 Eb) as H1. pose proof (begin_block_MS _ _ _ _ _ Eb) as M1.
  pose proof (deliver_txs_CI (b_txs b) c1 H1) as H2. pose proof (deliver_txs_MS (b_txs b) c1 H1) as M2.
  destruct (deliver_txs c1 (b_txs b)) as [c2 outs]. cbn in H2, M2.
  assert (M : members_stable (stk (w_chain w)) (stk c2)) by (eapply members_stable_trans; [exact M1|exact M2]).
  destruct (staking_end_block c2) as [c3 upd|e] eqn:Ee; [|discriminate].
  pose proof (staking_end_block_cons_back _ _ _ Ee) as Hback. pose proof (staking_end_block_CI _ _ _ H2 Ee) as H3.
  assert (Hmain : forall k p, In (k, p) upd ->
    exists id, last_pow (stk c3) !! id = new_power p /\ last_pow (stk (w_chain w)) !! id <> last_pow (stk c3) !! id /\
               ((exists v, vals (stk c3) !! id = Some v /\ v_cons v = k) \/ (exists v, vals (stk (w_chain w)) !! id = Some v /\ v_cons v = k))).
  { unfold staking_end_block in Ee. destruct (apply_valset_updates c2) as [c3' u|] eqn:Ea; [|discriminate].
    destruct (unbond_all_mature c3') as [c4|] eqn:Em; [|discriminate]. injection Ee as -> ->.
    unfold unbond_all_mature in Em. pose proof (mature_slots_frame _ _ _ Em) as (L4 & _ & _).
    intros k p Hin. destruct (apply_valset_updates_upd _ _ _ H2 Ea k p Hin) as (id & v2 & Hv2 & Hk & Hnew & Hch).
    destruct M as [Ml Mm]. exists id. rewrite L4. rewrite <- Ml. split; [exact Hnew|]. split; [exact Hch|].
    unfold new_power in Hnew. destruct (Z.eqb_spec p 0) as [->|Hp].
    - right. destruct (last_pow (stk c2) !! id) as [q|] eqn:El; [|congruence]. rewrite Ml in El. destruct (Mm id q El) as [_ Bk].
      destruct (Bk v2 Hv2) as (v & Hv & Hc). exists v. split; [exact Hv|congruence].
    - left. rewrite <- L4 in Hnew. destruct H3 as [HS3 _]. destruct (si_last _ HS3 id p Hnew) as (v3 & Hv3 & _).
      destruct (Hback id v3 Hv3) as (v2' & Hv2' & Hc). rewrite Hv2 in Hv2'. inversion Hv2'; subst v2'. exists v3. split; [exact Hv3|congruence]. }
  destruct (comet_apply _ upd); intros [= <- <-]; cbn; exact Hmain.
Qed.

Lemma run_world_snoc bs : forall w b, run_world w (bs ++ [b]) = fst (run_block (run_world w bs) b).
Proof. induction bs as [|x bs IH]; cbn; intros w b; [reflexivity|apply IH]. Qed.

Definition elig_power (s : staking) (id : Z) : option Z :=
  match vals s !! id with Some v => if eligible v then Some (v_power v) else None | None => None end.

(* histories: with max_validators not binding before and after the block, an update can only concern a validator whose
   jailed flag or token power is different at the end of this block from what it was at the end of the previous one *)
Theorem history_updates_only_changes g bs b w' out :
  wf_genesis g ->
  let w := run_world (init_world g) bs in
  w_halted w = None -> run_block w b = (w', Some out) -> w_halted w' = None ->
  n_pos (pidx (stk (w_chain w))) <= sp_max_validators (params (stk (w_chain w))) ->
  n_pos (pidx (stk (w_chain w'))) <= sp_max_validators (params (stk (w_chain w'))) ->
  forall k p, In (k, p) (bo_updates out) ->
    exists id, elig_power (stk (w_chain w')) id = new_power p /\ elig_power (stk (w_chain w)) id <> elig_power (stk (w_chain w')) id /\
               ((exists v, vals (stk (w_chain w')) !! id = Some v /\ v_cons v = k) \/
                (exists v, vals (stk (w_chain w)) !! id = Some v /\ v_cons v = k)).
Proof.
  intros Hg w Hh Hrun Hh' Hcap Hcap' k p Hin.
  assert (HW : WI w) by (apply run_world_WI; apply init_world_WI; exact Hg).
  destruct (block_updates_only_changes w b w' out HW Hh Hrun k p Hin) as (id & A & B & C).
  assert (Ew' : w' = run_world (init_world g) (bs ++ [b])) by (rewrite run_world_snoc; fold w; rewrite Hrun; reflexivity).
  pose proof (reachable_set g bs Hg Hh Hcap) as S1.
  assert (S2 : set_is_eligible (stk (w_chain w'))).
  { rewrite Ew'. apply (reachable_set g (bs ++ [b]) Hg); rewrite <- Ew'; assumption. }
  exists id. unfold elig_power. pose proof (S1 id) as E1. pose proof (S2 id) as E2. fold w in E1. rewrite <- E1, <- E2. auto.
Qed.
