(* InvAdmit.v — admission moves exactly the application into the validator set and out of the list: the record a successful
   SetPower creates for a pending operator carries the application's consensus key, commission rates and description, minimum
   self-delegation 1, the requested tokens and shares, and is bonded and not jailed; the list loses that entry and nothing else. *)
From stdpp Require Import gmap.
Require Import Model.Base Model.Ante Model.Validate Model.Current Model.State Model.Staking Model.Slashing Model.Poa Model.App.
Require Import proofs.EvBasic proofs.L1Basic proofs.L1More proofs.L1Effects proofs.Inv proofs.InvPres proofs.InvMsgs proofs.InvHistory proofs.InvElig proofs.InvLive proofs.InvPending.
Open Scope Z_scope.

Theorem admission_moves_the_application c s v P u c' p :
  SI (stk c) -> find_pending v (pending (poa c)) = Some p -> msg_set_power c s v P u = MOk c' ->
  exists r, vals (stk c') !! v = Some r /\
    v_cons r = p_cons p /\ v_rate r = p_rate p /\ v_maxrate r = p_maxrate p /\ v_maxchg r = p_maxchg p /\ v_moniker r = p_moniker p /\
    v_msd r = 1 /\ v_jailed r = false /\ v_status r = Bonded /\ v_tokens r = cast_i64 P /\ v_shares r = cast_i64 P * dec_one /\
    dels (stk c') !! v = Some (cast_i64 P * dec_one) /\
    pending (poa c') = remove_first_pending v (pending (poa c)).
Proof.
  intros HS Hf H. pose proof (exec_msg_pending c (MSetPower s v P u) c' HS H) as Hpend. cbn in Hpend.
  revert H. unfold msg_set_power. destruct (negb (is_admin s)); [discriminate|]. destruct (setpower_validate (0 <=? v) P) as [[]|]; [|discriminate].
  rewrite Hf. destruct (accept_new_validator c p) as [c1|] eqn:Ea; [|discriminate]. cbn [mbind].
  destruct (set_poa_power c1 v (cast_i64 P)) as [c2|] eqn:E2; [|discriminate]. cbn [mbind].
  apply find_pending_in in Hf as [_ Hop].
  assert (Hv1 : vals (stk c1) !! v = Some {| v_cons := p_cons p; v_jailed := false; v_status := Unbonded; v_tokens := 0; v_shares := 0;
              v_ubheight := 0; v_ubtime := t_epoch; v_msd := 1; v_rate := p_rate p; v_maxrate := p_maxrate p;
              v_maxchg := p_maxchg p; v_moniker := p_moniker p |}).
  { unfold accept_new_validator in Ea. apply update_bonded_pool_spec in Ea as (Hs & _). rewrite Hs. cbn. rewrite Hop. apply lookup_insert. }
  destruct (set_poa_power_target _ _ _ _ E2) as (v0 & Hv0 & Hv2). rewrite Hv1 in Hv0. inversion Hv0; subst v0. clear Hv0.
  assert (Hd2 : dels (stk c2) !! v = Some (cast_i64 P * dec_one)).
  { revert E2. unfold set_poa_power. rewrite Hv1. destruct (_ =? _); [discriminate|]. destruct (_ && _).
    - destruct (slash _ _ _ _) as [cs|]; [|discriminate]. cbn [mbind]. intros Hx. apply update_validator_set_spec in Hx as (_ & Hd & _). rewrite Hd. apply lookup_insert.
    - cbn [mbind]. intros Hx. apply update_validator_set_spec in Hx as (_ & Hd & _). rewrite Hd. apply lookup_insert. }
  assert (Hfin : forall c3, update_bonded_pool c2 = MOk c3 -> exists r, vals (stk c3) !! v = Some r /\
    v_cons r = p_cons p /\ v_rate r = p_rate p /\ v_maxrate r = p_maxrate p /\ v_maxchg r = p_maxchg p /\ v_moniker r = p_moniker p /\
    v_msd r = 1 /\ v_jailed r = false /\ v_status r = Bonded /\ v_tokens r = cast_i64 P /\ v_shares r = cast_i64 P * dec_one /\
    dels (stk c3) !! v = Some (cast_i64 P * dec_one)).
  { intros c3 H3. apply update_bonded_pool_stk in H3 as (-> & _). eexists. split; [exact Hv2|]. cbn. repeat split; auto. }
  destruct (negb u && (1 <? height c2)); [destruct (_ =? 0); [discriminate|]; destruct (30 <=? _); [discriminate|]|];
    intros H3; destruct (Hfin _ H3) as (r & Hr & A); exists r; (split; [exact Hr|]); repeat (split; [apply A|]); try apply A; exact Hpend.
Qed.
