(* InvSeqs.v — nothing but the transaction wrapper reads or writes the sequence numbers: every handler commutes with
   replacing them. Hence a failing transaction, whose only trace is the signers' sequence numbers, changes neither
   the outcome of any later transaction of the block nor the state the block commits (C06 at block level). *)
From stdpp Require Import gmap.
Require Import Model.Base Model.Ante Model.Validate Model.Current Model.State Model.Staking Model.Slashing Model.Poa Model.App.
Require Import proofs.EvBasic proofs.L1Basic.
Open Scope Z_scope.

Definition lift (r : mres) (q : gmap Z Z) : mres := match r with MOk c => MOk (with_seqs c q) | MErr e => MErr e end.

Lemma slash_seqs c q k p f : slash (with_seqs c q) k p f = option_map (fun c' => with_seqs c' q) (slash c k p f).
Proof.
  unfold slash. cbn. destruct (f <? 0); [reflexivity|]. destruct (by_cons (stk c) !! k) as [id|]; [|reflexivity].
  destruct (vals (stk c) !! id) as [v|]; [|reflexivity]. destruct (status_eqb (v_status v) Unbonded); [reflexivity|].
  destruct (_ =? 0); [reflexivity|]. destruct (status_eqb (v_status v) Bonded); [destruct (burn_bonded _ _)|destruct (burn_notbonded _ _)]; reflexivity.
Qed.

Lemma update_bonded_pool_seqs c q : update_bonded_pool (with_seqs c q) = lift (update_bonded_pool c) q.
Proof.
  unfold update_bonded_pool. cbn. destruct (_ =? _); [reflexivity|]. destruct (_ <? _); [reflexivity|]. destruct (burn_bonded _ _); reflexivity.
Qed.

Lemma update_validator_set_seqs c q val v n : update_validator_set (with_seqs c q) val v n = lift (update_validator_set c val v n) q.
Proof. unfold update_validator_set. cbn. apply (update_bonded_pool_seqs (with_stk c _) q). Qed.

Lemma set_poa_power_seqs c q val n : set_poa_power (with_seqs c q) val n = lift (set_poa_power c val n) q.
Proof.
  unfold set_poa_power. cbn. destruct (vals (stk c) !! val) as [v|]; [|reflexivity]. destruct (_ =? _); [reflexivity|].
  destruct (_ && _).
  - change (with_stk (with_seqs c q) (del_index (stk c) val v)) with (with_seqs (with_stk c (del_index (stk c) val v)) q). rewrite slash_seqs.
    destruct (slash (with_stk c (del_index (stk c) val v)) (v_cons v) _ dec_one) as [c2|]; [|reflexivity]. cbn [option_map mbind].
    match goal with |- update_validator_set ?x val _ n = _ => change x with (with_seqs (with_poa (with_sl (with_stk c2 (del_index (stk c2) val (set_tokens v n))) (del_bitmap (sl c2) (v_cons v)))
        {| pending := pending (poa c2); cached_power := cached_power (poa c2); abs_changed := wrap_u64 (abs_changed (poa c2) + Z.abs (tokens_to_power n - (if status_eqb (v_status v) Bonded && negb (v_jailed v) then tokens_to_power (v_tokens v) else 0))) |}) q) end.
    apply update_validator_set_seqs.
  - cbn [mbind]. apply (update_validator_set_seqs (with_poa (with_stk c _) _) q).
Qed.

Lemma lift_bind r q f g : (forall c, f (with_seqs c q) = lift (g c) q) -> mbind (lift r q) f = lift (mbind r g) q.
Proof. intros H. destruct r as [c|e]; cbn; [apply H|reflexivity]. Qed.

Lemma ensure_active_seqs c q val : ensure_active (with_seqs c q) val = lift (ensure_active c val) q.
Proof. unfold ensure_active. cbn. destruct (vals (stk c) !! val) as [v|]; [|reflexivity]. destruct (v_jailed v); [reflexivity|]. destruct (negb _); reflexivity. Qed.

Lemma accept_seqs c q p : accept_new_validator (with_seqs c q) p = lift (accept_new_validator c p) q.
Proof. unfold accept_new_validator. cbn. apply (update_bonded_pool_seqs (with_sl (set_pending (with_stk c _) _) _) q). Qed.

Lemma msg_set_power_seqs c q s val power u : msg_set_power (with_seqs c q) s val power u = lift (msg_set_power c s val power u) q.
Proof.
  unfold msg_set_power. destruct (negb (is_admin s)); [reflexivity|]. destruct (setpower_validate _ _) as [[]|]; [|reflexivity]. cbn [poa with_seqs].
  set (r1 := match find_pending val (pending (poa c)) with Some p => accept_new_validator c p | None => ensure_active c val end).
  assert (E1 : match find_pending val (pending (poa c)) with Some p => accept_new_validator (with_seqs c q) p | None => ensure_active (with_seqs c q) val end = lift r1 q).
  { subst r1. destruct (find_pending val (pending (poa c))); [apply accept_seqs|apply ensure_active_seqs]. }
  rewrite E1. apply lift_bind. intros c1. rewrite set_poa_power_seqs. apply lift_bind. intros c2. cbn [height with_seqs poa].
  destruct (negb u && (1 <? height c2)); [destruct (_ =? 0); [reflexivity|]; destruct (30 <=? _); [reflexivity|]|]; apply update_bonded_pool_seqs.
Qed.

Lemma other_signers_seqs c q val : other_signers (with_seqs c q) val = other_signers c val.
Proof. reflexivity. Qed.

Lemma msg_remove_validator_seqs c q s val : msg_remove_validator (with_seqs c q) s val = lift (msg_remove_validator c s val) q.
Proof.
  unfold msg_remove_validator. destruct (if is_admin s then None else _); [reflexivity|]. rewrite other_signers_seqs. destruct (_ =? 0); [reflexivity|]. cbn [stk with_seqs].
  destruct (vals (stk c) !! val) as [v|]; [|reflexivity]. destruct (negb _); [reflexivity|]. rewrite set_poa_power_seqs. apply lift_bind. intros c1.
  apply (update_bonded_pool_seqs (with_sl c1 _) q).
Qed.

Lemma exec_msg_seqs c q m : exec_msg (with_seqs c q) m = lift (exec_msg c m) q.
Proof.
  destruct m as [s v p u|s v|s v|v k mon r mx ch msd|s p|v|s|s t]; cbn [exec_msg].
  - apply msg_set_power_seqs.
  - apply msg_remove_validator_seqs.
  - unfold msg_remove_pending. destruct (negb _); reflexivity.
  - destruct r as [r|], mx as [mx|], ch as [ch|]; try reflexivity.
    unfold msg_create_validator. cbn [stk poa with_seqs]. destruct (poa_create_validate {| cb_addr_ok := true; cb_has_pubkey := 0 <=? k; cb_desc := {| dl_moniker := mon; dl_identity := 0; dl_website := 0; dl_security := 0; dl_details := 0 |}; cb_rate := Some r; cb_max := Some mx; cb_chg := Some ch |}); try reflexivity. destruct (_ <? _); [reflexivity|].
    destruct (bool_decide _); [reflexivity|]. destruct (bool_decide _); [reflexivity|]. destruct (pending_conflict _ _ _); [reflexivity|].
    destruct (negb _); [reflexivity|]. apply (update_bonded_pool_seqs (set_pending c _) q).
  - unfold msg_update_params. cbn. destruct (negb _); [reflexivity|]. destruct (negb _); [reflexivity|]. destruct (negb _); reflexivity.
  - unfold msg_unjail. cbn. destruct (vals (stk c) !! v) as [vv|]; [|reflexivity]. destruct (dels (stk c) !! v); [|reflexivity].
    destruct (_ =? 0); [reflexivity|]. destruct (_ <? _); [reflexivity|]. destruct (negb _); [reflexivity|].
    destruct (match infos _ !! _ with Some _ => _ | None => _ end); [reflexivity|]. destruct (unjail _ _); reflexivity.
  - reflexivity.
  - reflexivity.
Qed.

Lemma exec_msgs_seqs ms : forall c q, exec_msgs (with_seqs c q) ms = lift (exec_msgs c ms) q.
Proof.
  induction ms as [|m ms IH]; intros c q; cbn [exec_msgs]; [reflexivity|]. rewrite exec_msg_seqs. apply lift_bind. intros c1. apply IH.
Qed.

(* ---- states that differ in the sequence numbers only ---- *)
Definition same_but_seqs (c d : chain) : Prop := exists q, d = with_seqs c q.

Lemma sbs_refl c : same_but_seqs c c.
Proof. exists (seqs c). destruct c; reflexivity. Qed.

Lemma sbs_trans c d e : same_but_seqs c d -> same_but_seqs d e -> same_but_seqs c e.
Proof. intros [q ->] [q' ->]. exists q'. reflexivity. Qed.

Lemma sbs_sym c d : same_but_seqs c d -> same_but_seqs d c.
Proof. intros [q ->]. exists (seqs c). destruct c; reflexivity. Qed.

(* a transaction behaves the same on such states: same result, same effect *)
Lemma deliver_tx_sbs c d tx : same_but_seqs c d ->
  snd (deliver_tx d tx) = snd (deliver_tx c tx) /\ same_but_seqs (fst (deliver_tx c tx)) (fst (deliver_tx d tx)).
Proof.
  intros [q ->]. unfold deliver_tx. cbn [height with_seqs].
  destruct (cur_stk_decorator _ _); [split; [reflexivity|exists q; reflexivity]|]. destruct (cur_wd_decorator _ _); [split; [reflexivity|exists q; reflexivity]|].
  destruct (cur_comm_decorator _ _ _ _ _); try (split; [reflexivity|exists q; reflexivity]).
  set (sg := dedup (map msg_sender tx)).
  assert (Hb : exists q', bump_seqs (with_seqs c q) sg = with_seqs (bump_seqs c sg) q').
  { unfold bump_seqs. cbn. eexists. reflexivity. }
  destruct Hb as [q' Hb]. rewrite Hb.
  destruct (existsb is_tree tx); [split; [reflexivity|exists q'; reflexivity]|].
  rewrite exec_msgs_seqs. destruct (exec_msgs (bump_seqs c sg) tx) as [c2|e]; cbn; (split; [reflexivity|exists q'; reflexivity]).
Qed.

Lemma deliver_txs_sbs txs : forall c d, same_but_seqs c d ->
  snd (deliver_txs d txs) = snd (deliver_txs c txs) /\ same_but_seqs (fst (deliver_txs c txs)) (fst (deliver_txs d txs)).
Proof.
  induction txs as [|tx txs IH]; intros c d H; cbn; [auto|].
  destruct (deliver_tx_sbs c d tx H) as [O1 S1]. destruct (deliver_tx c tx) as [c1 o1], (deliver_tx d tx) as [d1 p1]. cbn in *. subst p1.
  destruct (IH c1 d1 S1) as [O2 S2]. destruct (deliver_txs c1 txs) as [c2 os], (deliver_txs d1 txs) as [d2 ps]. cbn in *. subst ps. auto.
Qed.

(* a failing transaction leaves a state that differs from the one before it in sequence numbers only *)
Lemma failed_tx_sbs c tx c' e : deliver_tx c tx = (c', TErr e) -> same_but_seqs c c'.
Proof.
  intros H. destruct (deliver_tx_failure _ _ _ _ H) as [->| ->]; [apply sbs_refl|]. unfold bump_seqs. eexists. reflexivity.
Qed.

(* C06 at block level: a block executes a failing transaction as if it were not there — every other transaction gets the
   same result, and the state handed to the EndBlocker differs in the failing signers' sequence numbers only *)
Theorem failing_tx_is_invisible c txs1 tx txs2 c1 e :
  deliver_tx (fst (deliver_txs c txs1)) tx = (c1, TErr e) ->
  let with_it := deliver_txs c (txs1 ++ tx :: txs2) in
  let without := deliver_txs c (txs1 ++ txs2) in
  same_but_seqs (fst without) (fst with_it) /\
  snd with_it = firstn (length txs1) (snd without) ++ TErr e :: skipn (length txs1) (snd without).
Proof.
  revert c. induction txs1 as [|t txs1 IH]; intros c; cbn [app deliver_txs length firstn skipn].
  - cbn [fst]. intros H. rewrite H. pose proof (failed_tx_sbs _ _ _ _ H) as S.
    destruct (deliver_txs_sbs txs2 c c1 S) as [O2 S2]. destruct (deliver_txs c1 txs2) as [d2 ps], (deliver_txs c txs2) as [c2 os]. cbn in *. subst ps. auto.
  - destruct (deliver_tx c t) as [ct ot] eqn:Et. cbn [fst].
    destruct (deliver_txs ct txs1) as [cm om] eqn:Em. cbn [fst]. intros H.
    assert (H' : deliver_tx (fst (deliver_txs ct txs1)) tx = (c1, TErr e)) by (rewrite Em; exact H).
    specialize (IH ct H'). cbn zeta in IH. destruct IH as [S O].
    destruct (deliver_txs ct (txs1 ++ tx :: txs2)) as [a oa], (deliver_txs ct (txs1 ++ txs2)) as [b ob]. cbn in *. split; [exact S|]. rewrite O. reflexivity.
Qed.

(* ---- the EndBlocker does not read the sequence numbers either ---- *)
Definition acc_rel (q : gmap Z Z) (a b : loop_acc) : Prop :=
  la_chain b = with_seqs (la_chain a) q /\ la_last b = la_last a /\ la_upd b = la_upd a /\ la_count b = la_count a /\
  la_total b = la_total a /\ la_to_bonded b = la_to_bonded a.
Definition lres_rel (q : gmap Z Z) (r s : loop_res) : Prop :=
  match r, s with LDone a, LDone b => acc_rel q a b | LHalt e, LHalt e' => e = e' | _, _ => False end.

Lemma apply_loop_rel keys maxv q : forall a b, acc_rel q a b -> lres_rel q (apply_loop keys maxv a) (apply_loop keys maxv b).
Proof.
  induction keys as [|[p id] ks IH]; intros a b Hab; cbn [apply_loop]; [exact Hab|].
  destruct Hab as (Hc & Hl & Hu & Hn & Ht & Hb). rewrite Hc, Hl, Hu, Hn, Ht, Hb. cbn [stk with_seqs].
  destruct (maxv <=? la_count a); [repeat split; assumption|]. destruct (vals (stk (la_chain a)) !! id) as [v|]; [|reflexivity].
  destruct (v_jailed v); [apply IH; repeat split; assumption|]. destruct (v_power v =? 0); [repeat split; assumption|].
  destruct (v_status v); unfold bond_validator; cbv beta iota zeta;
    (match goal with |- context [if ?b then _ else _] => destruct b end; apply IH; repeat split; reflexivity).
Qed.

Lemma unbond_loop_rel ids q : forall a b, acc_rel q a b -> lres_rel q (unbond_loop ids a) (unbond_loop ids b).
Proof.
  induction ids as [|i rest IH]; intros a b Hab; cbn [unbond_loop]; [exact Hab|].
  destruct Hab as (Hc & Hl & Hu & Hn & Ht & Hb). rewrite Hc, Hl, Hu, Hn, Ht, Hb. cbn [stk with_seqs].
  destruct (vals (stk (la_chain a)) !! i) as [v|]; [|reflexivity]. destruct (negb _); [reflexivity|].
  unfold begin_unbonding. cbv beta iota zeta. apply IH. repeat split; reflexivity.
Qed.

Definition eb_seqs (r : eb_res) (q : gmap Z Z) : eb_res := match r with EBOk c u => EBOk (with_seqs c q) u | EBHalt e => EBHalt e end.

Lemma apply_valset_updates_seqs c q : apply_valset_updates (with_seqs c q) = eb_seqs (apply_valset_updates c) q.
Proof.
  unfold apply_valset_updates. cbn [stk with_seqs].
  set (a0 := {| la_chain := c; la_last := last_pow (stk c); la_upd := []; la_count := 0; la_total := 0; la_to_bonded := 0 |}).
  set (b0 := {| la_chain := with_seqs c q; la_last := last_pow (stk c); la_upd := []; la_count := 0; la_total := 0; la_to_bonded := 0 |}).
  assert (R0 : acc_rel q a0 b0) by (repeat split; reflexivity).
  pose proof (apply_loop_rel (sort_by pidx_le (pidx (stk c))) (sp_max_validators (params (stk c))) q a0 b0 R0) as R1.
  destruct (apply_loop _ _ a0) as [a1|e1], (apply_loop _ _ b0) as [b1|e1']; cbn in R1; try contradiction; [|subst; reflexivity].
  pose proof R1 as (_ & Hl1 & _). rewrite Hl1.
  pose proof (unbond_loop_rel (sorted_keys (la_last a1)) q a1 b1 R1) as R2.
  destruct (unbond_loop _ a1) as [a2|e2], (unbond_loop _ b1) as [b2|e2']; cbn in R2; try contradiction; [|subst; reflexivity].
  destruct R2 as (Hc & Hl & Hu & Hn & Ht & Hb). rewrite Hc, Hu, Ht, Hb. cbn [bk with_seqs].
  destruct (if la_to_bonded a2 =? 0 then _ else _) as [b|]; [|reflexivity]. destruct (la_upd a2); reflexivity.
Qed.

Lemma mature_ids_seqs ids q : forall c, mature_ids ids (with_seqs c q) = option_map (fun c' => with_seqs c' q) (mature_ids ids c).
Proof.
  induction ids as [|i rest IH]; intros c; cbn [mature_ids]; [reflexivity|]. cbn [stk with_seqs].
  destruct (vals (stk c) !! i) as [v|]; [|reflexivity]. destruct (negb _); [reflexivity|].
  destruct (v_shares _ =? 0); [destruct (0 <? _); [reflexivity|]|]; apply (IH (with_stk c _)).
Qed.

Lemma mature_slots_seqs slots q : forall c, mature_slots slots (with_seqs c q) = option_map (fun c' => with_seqs c' q) (mature_slots slots c).
Proof.
  induction slots as [|[[t h] ids] rest IH]; intros c; cbn [mature_slots]; [reflexivity|]. cbn [now height with_seqs].
  destruct (_ && _); [|apply IH]. rewrite mature_ids_seqs. destruct (mature_ids ids c) as [c1|]; [apply IH|reflexivity].
Qed.

Lemma staking_end_block_seqs c q : staking_end_block (with_seqs c q) = eb_seqs (staking_end_block c) q.
Proof.
  unfold staking_end_block. rewrite apply_valset_updates_seqs. destruct (apply_valset_updates c) as [c1 u|e]; [|reflexivity]. cbn [eb_seqs].
  unfold unbond_all_mature. cbn [stk with_seqs]. rewrite mature_slots_seqs. destruct (mature_slots _ c1); reflexivity.
Qed.

(* ---- one block, with and without a failing transaction ---- *)
Definition block_with (b : block) (txs : list (list l1msg)) : block := {| b_dt := b_dt b; b_absent := b_absent b; b_evidence := b_evidence b; b_txs := txs |}.

Theorem block_ignores_failing_tx w b txs1 tx txs2 :
  let c1 := match begin_block (with_clock (w_chain w) (height (w_chain w) + 1) (now (w_chain w) + b_dt b))
                              (match c_prev (w_comet w) with Some vs => sorted_votes vs | None => [] end) (b_absent b) (b_evidence b) with inl c1 => c1 | inr _ => w_chain w end in
  (exists cf e, deliver_tx (fst (deliver_txs c1 txs1)) tx = (cf, TErr e)) ->
  let w1 := fst (run_block w (block_with b (txs1 ++ tx :: txs2))) in
  let w2 := fst (run_block w (block_with b (txs1 ++ txs2))) in
  same_but_seqs (w_chain w2) (w_chain w1) /\ w_comet w1 = w_comet w2 /\ w_halted w1 = w_halted w2 /\
  option_map bo_updates (snd (run_block w (block_with b (txs1 ++ tx :: txs2)))) = option_map bo_updates (snd (run_block w (block_with b (txs1 ++ txs2)))).
Proof.
  intros c1 (cf & e & Hfail). unfold run_block. destruct (w_halted w) eqn:Hh; [cbn; rewrite Hh; repeat split; auto; apply sbs_refl|].
  cbn [block_with b_dt b_absent b_evidence b_txs].
  destruct (begin_block _ _ (b_absent b) (b_evidence b)) as [cb|eb] eqn:Eb; [|cbn; repeat split; auto; apply sbs_refl].
  subst c1. destruct (failing_tx_is_invisible cb txs1 tx txs2 cf e Hfail) as [S O].
  destruct (deliver_txs cb (txs1 ++ tx :: txs2)) as [ca oa], (deliver_txs cb (txs1 ++ txs2)) as [cz oz]. cbn [fst snd] in S, O.
  destruct S as [q ->]. rewrite staking_end_block_seqs. destruct (staking_end_block cz) as [c3 upd|ee]; cbn [eb_seqs].
  - destruct (comet_apply _ upd); cbn; repeat split; auto; exists q; reflexivity.
  - cbn. repeat split; auto. exists q; reflexivity.
Qed.
