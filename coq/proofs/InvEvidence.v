(* InvEvidence.v — what a double-sign evidence entry does, and what it makes impossible afterwards. *)
From stdpp Require Import gmap.
Require Import Model.Base Model.Ante Model.Validate Model.Current Model.State Model.Staking Model.Slashing Model.Poa Model.App.
Require Import proofs.EvBasic proofs.L1Basic proofs.L1Effects proofs.Inv proofs.InvPres proofs.InvMsgs proofs.InvHistory proofs.InvElig proofs.InvLive proofs.InvFrame.
Open Scope Z_scope.

(* an entry x/evidence does not ignore: the validator ends jailed and tombstoned (jailed until the year 9999), with its key,
   shares and status and no more tokens than it had; every other validator's record and every other signing info is untouched *)
Theorem evidence_effect c e c' : handle_evidence c e = Some c' ->
  c' = c \/
  exists id v i v',
    by_cons (stk c) !! ev_cons e = Some id /\ vals (stk c) !! id = Some v /\ status_eqb (v_status v) Unbonded = false /\
    infos (sl c) !! ev_cons e = Some i /\ si_tomb i = false /\
    vals (stk c') !! id = Some v' /\ v_jailed v' = true /\ v_cons v' = v_cons v /\ v_tokens v' <= v_tokens v /\ v_shares v' = v_shares v /\
    infos (sl c') !! ev_cons e = Some (tombstoned i) /\
    (forall w, w <> id -> vals (stk c') !! w = vals (stk c) !! w) /\
    (forall k, k <> ev_cons e -> infos (sl c') !! k = infos (sl c) !! k).
Proof.
  intros H. apply handle_evidence_cases in H as [->|(id & v & i & c1 & s2 & Hk & Hv & Hst & Hi & Ht & _ & Es & Hj & ->)]; [left; reflexivity|].
  right. pose proof (slash_frame _ _ _ _ _ Es) as (Hsl & _ & _ & _ & _ & Hbc & _).
  destruct (slash_target _ _ _ _ _ id v Es Hk Hv) as (v1 & Hv1 & C1 & J1 & T1 & S1).
  assert (Hinfo : forall s2', infos (sl (with_sl (with_stk c1 s2') (set_info (sl c1) (ev_cons e) (tombstoned i)))) !! ev_cons e = Some (tombstoned i))
    by (intros; cbn; apply lookup_insert).
  assert (Hinfo' : forall s2' k, k <> ev_cons e -> infos (sl (with_sl (with_stk c1 s2') (set_info (sl c1) (ev_cons e) (tombstoned i)))) !! k = infos (sl c) !! k)
    by (intros s2' k Hne; cbn; rewrite lookup_insert_ne by auto; rewrite Hsl; reflexivity).
  destruct Hj as [[Hjv ->]|[Hjv Ej]].
  - exists id, v, i, v1. repeat split; auto; try congruence.
    intros w Hw. cbn. apply (slash_others _ _ _ _ _ id Es Hk). exact Hw.
  - pose proof Ej as Ej'. revert Ej'. unfold jail. rewrite Hbc, Hk, Hv1. destruct (v_jailed v1); [discriminate|]. intros [= <-].
    exists id, v, i, (set_jailed v1 true). repeat split; auto.
    + cbn. unfold del_index, set_validator. cbn. apply lookup_insert.
    + intros w Hw. cbn. unfold del_index, set_validator. cbn. rewrite lookup_insert_ne by auto. apply (slash_others _ _ _ _ _ id Es Hk). exact Hw.
Qed.

(* exactly when an entry is ignored (the state is returned as it is), given a validator the chain knows *)
Theorem evidence_ignored_when c e id v :
  by_cons (stk c) !! ev_cons e = Some id -> vals (stk c) !! id = Some v ->
  (status_eqb (v_status v) Unbonded = true \/
   (ev_max_age_secs < now c - ev_time e /\ ev_max_age_blocks < height c - ev_height e) \/
   (exists i, infos (sl c) !! ev_cons e = Some i /\ si_tomb i = true)) ->
  handle_evidence c e = Some c.
Proof.
  intros Hk Hv H. unfold handle_evidence. rewrite Hk, Hv. destruct (status_eqb (v_status v) Unbonded) eqn:Est; [reflexivity|].
  destruct H as [H|[[H1 H2]|(i & Hi & Ht)]]; [discriminate| |].
  - apply Z.ltb_lt in H1, H2. rewrite H1, H2. reflexivity.
  - destruct (_ && _); [reflexivity|]. rewrite Hi, Ht. reflexivity.
Qed.

(* once tombstoned, MsgUnjail is refused for good (x/slashing: a tombstoned validator cannot be unjailed) *)
Theorem tombstoned_cannot_unjail c val v i :
  vals (stk c) !! val = Some v -> infos (sl c) !! v_cons v = Some i -> si_tomb i = true -> exists err, msg_unjail c val = MErr err.
Proof.
  intros Hv Hi Ht. unfold msg_unjail. rewrite Hv. destruct (dels (stk c) !! val); [|eauto]. destruct (_ =? 0); [eauto|].
  destruct (_ <? _); [eauto|]. destruct (negb _); [eauto|]. rewrite Hi, Ht. cbn. eauto.
Qed.

(* ... and the admin cannot give it power either while it is jailed (ensureActiveValidator) *)
Theorem jailed_cannot_be_powered c val power unsafe v :
  find_pending val (pending (poa c)) = None -> vals (stk c) !! val = Some v -> v_jailed v = true ->
  exists err, msg_set_power c admin_id val power unsafe = MErr err.
Proof.
  intros Hf Hv Hj. unfold msg_set_power. cbn. destruct (setpower_validate _ _) as [[]|]; [|eauto].
  rewrite Hf. unfold ensure_active. rewrite Hv, Hj. cbn. eauto.
Qed.
