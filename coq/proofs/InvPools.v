(* InvPools.v — the two staking pools against the validators' tokens, through every operation and history:
   the bonded pool holds exactly the tokens of the validators in the Bonded status, the not-bonded pool covers
   the tokens of all others. Hence no pool transfer, burn or slash ever fails for lack of funds: the EndBlocker
   never stops with "insufficient funds" (HEndBlock 4). *)
From stdpp Require Import gmap.
Require Import Model.Base Model.Ante Model.Validate Model.Current Model.State Model.Staking Model.Slashing Model.Poa Model.App.
Require Import proofs.EvBasic proofs.L1Effects proofs.Inv proofs.InvIdx proofs.InvPres proofs.InvMsgs proofs.InvHistory proofs.InvQueue.
Open Scope Z_scope.

(* ---- sums over the validator records ---- *)
Definition msum (f : validator -> Z) (m : gmap Z validator) : Z := map_fold (fun _ v acc => acc + f v) 0 m.

Lemma msum_empty f : msum f ∅ = 0.
Proof. apply map_fold_empty. Qed.

Lemma msum_insert_new f m id v : m !! id = None -> msum f (<[id := v]> m) = msum f m + f v.
Proof. intros H. unfold msum. rewrite map_fold_insert_L; [reflexivity| |exact H]. intros. lia. Qed.

Lemma msum_delete f m id v : m !! id = Some v -> msum f (delete id m) = msum f m - f v.
Proof.
  intros H. rewrite <- (insert_delete m id v H) at 2. rewrite msum_insert_new by apply lookup_delete. lia.
Qed.

Lemma msum_insert_old f m id v v' : m !! id = Some v -> msum f (<[id := v']> m) = msum f m - f v + f v'.
Proof.
  intros H. rewrite <- insert_delete_insert. rewrite msum_insert_new by apply lookup_delete. rewrite (msum_delete f m id v H). lia.
Qed.

Lemma msum_nonneg f m : (forall id v, m !! id = Some v -> 0 <= f v) -> 0 <= msum f m.
Proof.
  unfold msum. apply (map_fold_ind (fun acc m => (forall id v, m !! id = Some v -> 0 <= f v) -> 0 <= acc)).
  - intros _. lia.
  - intros i x m0 r Hi IH Hall. assert (0 <= f x) by (apply (Hall i); apply lookup_insert).
    assert (0 <= r); [|lia]. apply IH. intros id v Hl. apply (Hall id). rewrite lookup_insert_ne; [exact Hl|]. intros ->. congruence.
Qed.

Definition f_bonded (v : validator) : Z := if status_eqb (v_status v) Bonded then v_tokens v else 0.
Definition f_other (v : validator) : Z := if status_eqb (v_status v) Bonded then 0 else v_tokens v.
Definition other_tokens (s : staking) : Z := msum f_other (vals s).

Lemma bonded_tokens_msum s : bonded_tokens s = msum f_bonded (vals s).
Proof.
  unfold bonded_tokens, msum. apply (map_fold_ind (fun acc m => acc = map_fold (fun _ v a => a + f_bonded v) 0 m)).
  - rewrite map_fold_empty. reflexivity.
  - intros i x m r Hi IH. rewrite map_fold_insert_L; [|intros; lia|exact Hi]. rewrite <- IH. unfold f_bonded. destruct (status_eqb _ _); lia.
Qed.

(* the pool invariant *)
Definition BI (c : chain) : Prop :=
  bonded_pool (bk c) = bonded_tokens (stk c) /\ other_tokens (stk c) <= notbonded_pool (bk c).

Lemma sums_replace s s' id v v' :
  vals s !! id = Some v -> vals s' = <[id := v']> (vals s) ->
  bonded_tokens s' = bonded_tokens s - f_bonded v + f_bonded v' /\ other_tokens s' = other_tokens s - f_other v + f_other v'.
Proof.
  intros Hv Hvals. rewrite !bonded_tokens_msum. unfold other_tokens. rewrite Hvals.
  split; apply msum_insert_old; exact Hv.
Qed.

Lemma sums_new s s' id v' :
  vals s !! id = None -> vals s' = <[id := v']> (vals s) ->
  bonded_tokens s' = bonded_tokens s + f_bonded v' /\ other_tokens s' = other_tokens s + f_other v'.
Proof.
  intros Hv Hvals. rewrite !bonded_tokens_msum. unfold other_tokens. rewrite Hvals.
  split; apply msum_insert_new; exact Hv.
Qed.

Lemma sums_delete s s' id v :
  vals s !! id = Some v -> vals s' = delete id (vals s) ->
  bonded_tokens s' = bonded_tokens s - f_bonded v /\ other_tokens s' = other_tokens s - f_other v.
Proof.
  intros Hv Hvals. rewrite !bonded_tokens_msum. unfold other_tokens. rewrite Hvals.
  split; apply msum_delete; exact Hv.
Qed.

Lemma sums_ext s s' : vals s' = vals s -> bonded_tokens s' = bonded_tokens s /\ other_tokens s' = other_tokens s.
Proof. intros H. unfold bonded_tokens, other_tokens. rewrite H. auto. Qed.

Lemma BI_ext c c' : vals (stk c') = vals (stk c) -> bk c' = bk c -> BI c -> BI c'.
Proof. intros Hv Hb [A B]. destruct (sums_ext _ _ Hv) as [E1 E2]. unfold BI. rewrite Hb, E1, E2. auto. Qed.

(* one record's tokens are covered by its class's sum *)
Lemma sum_covers (f : validator -> Z) m id v : (forall i x, m !! i = Some x -> 0 <= f x) -> m !! id = Some v -> f v <= msum f m.
Proof.
  intros Hnn Hv. pose proof (msum_delete f m id v Hv) as Hd.
  assert (0 <= msum f (delete id m)); [|lia]. apply msum_nonneg. intros i x Hl. apply lookup_delete_Some in Hl as [_ Hl]. eauto.
Qed.

Lemma f_bonded_nonneg s : tokens_nonneg s -> forall i x, vals s !! i = Some x -> 0 <= f_bonded x.
Proof. intros Ht i x Hx. unfold f_bonded. destruct (status_eqb _ _); [eapply Ht; eauto|lia]. Qed.
Lemma f_other_nonneg s : tokens_nonneg s -> forall i x, vals s !! i = Some x -> 0 <= f_other x.
Proof. intros Ht i x Hx. unfold f_other. destruct (status_eqb _ _); [lia|eapply Ht; eauto]. Qed.

(* ---- Slash ---- *)
Lemma slash_BI c k p f c' : BI c -> slash c k p f = Some c' -> BI c'.
Proof.
  intros [HB HN]. unfold slash. destruct (f <? 0); [discriminate|].
  destruct (by_cons (stk c) !! k) as [id|]; [|intros [= <-]; split; assumption].
  destruct (vals (stk c) !! id) as [v|] eqn:Hv; [|intros [= <-]; split; assumption].
  destruct (status_eqb (v_status v) Unbonded); [discriminate|].
  set (burn := Z.max 0 (Z.min (p * power_reduction * f / dec_one) (v_tokens v))).
  destruct (burn =? 0); [intros [= <-]; split; assumption|].
  set (v' := set_tokens v (v_tokens v - burn)).
  assert (Hsum : bonded_tokens (rekey (stk c) id v v') = bonded_tokens (stk c) - f_bonded v + f_bonded v' /\
                 other_tokens (rekey (stk c) id v v') = other_tokens (stk c) - f_other v + f_other v').
  { apply (sums_replace (stk c) _ id v v' Hv). apply rekey_vals. }
  destruct Hsum as [S1 S2]. unfold f_bonded, f_other in S1, S2. cbn in S1, S2.
  destruct (status_eqb (v_status v) Bonded) eqn:Est.
  - unfold burn_bonded. destruct (bonded_pool (bk c) <? burn); [discriminate|]. intros [= <-]. unfold BI. cbn.
    change (set_index (set_validator (del_index (stk c) id v) id v') id v') with (rekey (stk c) id v v'). rewrite S1, S2. lia.
  - unfold burn_notbonded. destruct (notbonded_pool (bk c) <? burn); [discriminate|]. intros [= <-]. unfold BI. cbn.
    change (set_index (set_validator (del_index (stk c) id v) id v') id v') with (rekey (stk c) id v v'). rewrite S1, S2. lia.
Qed.

(* under the invariants the slash never fails for lack of funds: it fails only on an Unbonded target or a negative factor *)
Lemma slash_funds c k p f :
  BI c -> tokens_nonneg (stk c) -> slash c k p f = None ->
  f < 0 \/ exists id v, by_cons (stk c) !! k = Some id /\ vals (stk c) !! id = Some v /\ v_status v = Unbonded.
Proof.
  intros [HB HN] Ht. unfold slash. destruct (Z.ltb_spec f 0); [auto|].
  destruct (by_cons (stk c) !! k) as [id|]; [|discriminate].
  destruct (vals (stk c) !! id) as [v|] eqn:Hv; [|discriminate].
  destruct (v_status v) eqn:Est; cbn [status_eqb]; [intros _; right; eauto| |].
  - destruct (_ =? 0); [discriminate|]. unfold burn_notbonded.
    assert (Hc : f_other v <= other_tokens (stk c)) by (apply (sum_covers f_other _ id); [apply f_other_nonneg; exact Ht|exact Hv]).
    unfold f_other in Hc. rewrite Est in Hc. cbn in Hc. pose proof (Ht id v Hv).
    destruct (Z.ltb_spec (notbonded_pool (bk c)) (Z.max 0 (Z.min (p * power_reduction * f / dec_one) (v_tokens v)))); [lia|discriminate].
  - destruct (_ =? 0); [discriminate|]. unfold burn_bonded.
    assert (Hc : f_bonded v <= msum f_bonded (vals (stk c))) by (apply (sum_covers f_bonded _ id); [apply f_bonded_nonneg; exact Ht|exact Hv]).
    rewrite <- bonded_tokens_msum in Hc. unfold f_bonded in Hc. rewrite Est in Hc. cbn in Hc. pose proof (Ht id v Hv).
    destruct (Z.ltb_spec (bonded_pool (bk c)) (Z.max 0 (Z.min (p * power_reduction * f / dec_one) (v_tokens v)))); [lia|discriminate].
Qed.

Lemma jail_BI_stk s k s' : jail s k = Some s' -> bonded_tokens s' = bonded_tokens s /\ other_tokens s' = other_tokens s.
Proof.
  unfold jail. destruct (by_cons s !! k) as [id|]; [|discriminate]. destruct (vals s !! id) as [v|] eqn:Hv; [|discriminate].
  destruct (v_jailed v); [discriminate|]. intros [= <-].
  destruct (sums_replace s (del_index (set_validator s id (set_jailed v true)) id (set_jailed v true)) id v (set_jailed v true) Hv eq_refl) as [A B].
  rewrite A, B. unfold f_bonded, f_other. cbn. lia.
Qed.

Lemma unjail_BI_stk s k s' : unjail s k = Some s' -> bonded_tokens s' = bonded_tokens s /\ other_tokens s' = other_tokens s.
Proof.
  unfold unjail. destruct (by_cons s !! k) as [id|]; [|discriminate]. destruct (vals s !! id) as [v|] eqn:Hv; [|discriminate].
  destruct (negb _); [discriminate|]. intros [= <-].
  destruct (sums_replace s (set_index (set_validator s id (set_jailed v false)) id (set_jailed v false)) id v (set_jailed v false) Hv) as [A B].
  { unfold set_index, set_validator. cbn. reflexivity. }
  rewrite A, B. unfold f_bonded, f_other. cbn. lia.
Qed.

Lemma handle_signature_BI c k p sg c' : BI c -> handle_signature c k p sg = Some c' -> BI c'.
Proof.
  intros HB. unfold handle_signature. destruct (by_cons (stk c) !! k) as [id|]; [|discriminate].
  destruct (vals (stk c) !! id) as [v|]; [|discriminate]. destruct (v_jailed v); [intros [= <-]; exact HB|].
  destruct (infos (sl c) !! k) as [i|]; [|discriminate].
  destruct (if negb _ && negb sg then _ else _) as [bm' cnt].
  destruct (_ && _).
  - destruct (slash c k p _) as [c1|] eqn:Es; [|discriminate]. destruct (jail (stk c1) k) as [s2|] eqn:Ej; [|discriminate].
    intros [= <-]. pose proof (slash_BI _ _ _ _ _ HB Es) as [A B]. destruct (jail_BI_stk _ _ _ Ej) as [J1 J2].
    unfold BI. cbn. rewrite J1, J2. auto.
  - intros [= <-]. exact HB.
Qed.

Lemma handle_votes_BI votes absent c c' : BI c -> handle_votes votes absent c = Some c' -> BI c'.
Proof.
  revert c. induction votes as [|[k p] vs IH]; cbn; intros c HB; [intros [= <-]; exact HB|].
  destruct (handle_signature c k p _) as [c1|] eqn:E; [|discriminate]. apply IH. eapply handle_signature_BI; eauto.
Qed.

Lemma handle_evidence_BI c e c' : BI c -> handle_evidence c e = Some c' -> BI c'.
Proof.
  intros HB H. apply handle_evidence_cases in H as [->|(id & v & i & c1 & s2 & _ & _ & _ & _ & _ & _ & Es & Hj & ->)]; [exact HB|].
  pose proof (slash_BI _ _ _ _ _ HB Es) as [A B]. destruct Hj as [[_ ->]|[_ Ej]]; [split; assumption|].
  destruct (jail_BI_stk _ _ _ Ej) as [J1 J2]. unfold BI. cbn. rewrite J1, J2. auto.
Qed.

Lemma handle_evidences_BI evs c c' : BI c -> handle_evidences evs c = Some c' -> BI c'.
Proof. apply (handle_evidences_preserves BI). intros; eapply handle_evidence_BI; eauto. Qed.

Lemma begin_block_BI c votes absent evs c' : BI c -> begin_block c votes absent evs = inl c' -> BI c'.
Proof.
  intros HB. unfold begin_block. destruct (_ && _); [discriminate|]. destruct (handle_votes votes absent c) as [c1|] eqn:E; [|discriminate].
  destruct (handle_evidences evs c1) as [c2|] eqn:E2; [|discriminate].
  intros [= <-]. pose proof (handle_votes_BI _ _ _ _ HB E) as H1. pose proof (handle_evidences_BI _ _ _ H1 E2) as H2.
  unfold poa_begin_block. destruct (1 <? height c2); exact H2.
Qed.

(* ---- PoA messages ---- *)
Lemma update_bonded_pool_BI c c' : other_tokens (stk c) <= notbonded_pool (bk c) -> update_bonded_pool c = MOk c' -> BI c'.
Proof.
  intros HN H. apply update_bonded_pool_spec in H as (Hs & _ & _ & _ & _ & _ & Hb & Hn & _). unfold BI. rewrite Hs, Hb, Hn. auto.
Qed.

Lemma BI_other c : BI c -> other_tokens (stk c) <= notbonded_pool (bk c).
Proof. intros [_ H]. exact H. Qed.

Lemma set_poa_power_BI c val n c' : SI (stk c) -> BI c -> set_poa_power c val n = MOk c' -> BI c'.
Proof.
  intros HS HB. unfold set_poa_power.
  destruct (vals (stk c) !! val) as [v|] eqn:Hv; [|discriminate]. destruct (_ =? _); [discriminate|].
  (* the state handed to UpdateValidatorSet: invariant intact, tokens non-negative, the validator has a record *)
  assert (Hmid : forall c3, BI c3 -> tokens_nonneg (stk c3) -> (exists vb, vals (stk c3) !! val = Some vb) ->
            forall p', update_validator_set (with_poa c3 p') val (set_tokens v n) n = MOk c' -> BI c').
  { intros c3 HB3 Ht3 (vb & Hvb) p'. unfold update_validator_set. apply update_bonded_pool_BI. cbn.
    set (v2 := set_status (set_shares (set_tokens (set_tokens v n) n) (n * dec_one)) Bonded).
    destruct (sums_replace (stk c3) (set_validator (st_dels (stk c3) (<[val:=n * dec_one]> (dels (stk c3)))) val v2) val vb v2 Hvb eq_refl) as [_ E].
    rewrite E. pose proof (f_other_nonneg _ Ht3 val vb Hvb). unfold f_other at 2. cbn. pose proof (BI_other _ HB3). lia. }
  destruct (_ && _).
  - destruct (slash _ _ _ _) as [c2|] eqn:Es; [|discriminate]. cbn [mbind].
    assert (HS1 : SI (del_index (stk c) val v)) by (apply SI_del_index; exact HS).
    assert (HB1 : BI (with_stk c (del_index (stk c) val v))) by (eapply BI_ext; [| |exact HB]; reflexivity).
    pose proof (slash_BI _ _ _ _ _ HB1 Es) as HB2.
    pose proof (slash_SI (with_stk c (del_index (stk c) val v)) _ _ _ _ HS1 Es) as HS2.
    destruct (slash_same_ids _ _ _ _ _ Es) as [Hids _].
    eapply Hmid with (c3 := with_sl (with_stk c2 (del_index (stk c2) val (set_tokens v n))) (del_bitmap (sl c2) (v_cons v))).
    + eapply BI_ext; [| |exact HB2]; reflexivity.
    + exact (si_tok _ HS2).
    + cbn. destruct (vals (stk c2) !! val) as [vb|] eqn:E; [eauto|]. exfalso.
      specialize (Hids val). cbn in Hids. rewrite Hv, E in Hids. destruct Hids as [_ Hids]. specialize (Hids eq_refl). discriminate.
  - cbn [mbind]. eapply Hmid with (c3 := with_stk c (set_index (del_index (stk c) val v) val (set_tokens v n))).
    + eapply BI_ext; [| |exact HB]; [|reflexivity]. unfold set_index, del_index. cbn. destruct (v_jailed v); reflexivity.
    + intros i x. unfold set_index, del_index. cbn. destruct (v_jailed v); cbn; apply (si_tok _ HS).
    + exists v. unfold set_index, del_index. cbn. destruct (v_jailed v); exact Hv.
Qed.

Lemma accept_BI c p c' : BI c -> vals (stk c) !! p_oper p = None -> accept_new_validator c p = MOk c' -> BI c'.
Proof.
  intros HB Hnv. unfold accept_new_validator. apply update_bonded_pool_BI. cbn.
  match goal with |- other_tokens ?s <= _ => destruct (sums_new (stk c) s (p_oper p) {| v_cons := p_cons p; v_jailed := false; v_status := Unbonded; v_tokens := 0; v_shares := 0;
              v_ubheight := 0; v_ubtime := t_epoch; v_msd := 1; v_rate := p_rate p; v_maxrate := p_maxrate p;
              v_maxchg := p_maxchg p; v_moniker := p_moniker p |} Hnv eq_refl) as [_ E] end.
  rewrite E. unfold f_other. cbn. pose proof (BI_other _ HB). lia.
Qed.

Lemma exec_msg_BI c m c' : CI c -> BI c -> exec_msg c m = MOk c' -> BI c'.
Proof.
  intros [HS HP] HB. destruct m as [s v p u|s v|s v|v k mon r mx ch msd|s p|v|s|s t]; cbn.
  - unfold msg_set_power. destruct (negb (is_admin s)); [discriminate|].
    destruct (setpower_validate (0 <=? v) p) as [[]|] eqn:Ev; [|discriminate].
    destruct (find_pending v (pending (poa c))) as [q|] eqn:Ef.
    + apply find_pending_in in Ef as [Hin Hop]. destruct (accept_new_validator c q) as [c1|] eqn:Ea; [|discriminate]. cbn [mbind].
      destruct (accept_SI_PI _ _ _ HS HP Hin Ea) as [HS1 HP1].
      assert (Hnv : vals (stk c) !! p_oper q = None) by (apply (pi_not_val _ HP); exact Hin).
      pose proof (accept_BI _ _ _ HB Hnv Ea) as HB1.
      destruct (set_poa_power c1 v (cast_i64 p)) as [c2|] eqn:E2; [|discriminate]. cbn [mbind].
      pose proof (set_poa_power_BI _ _ _ _ HS1 HB1 E2) as HB2.
      destruct (negb u && (1 <? height c2)).
      * destruct (_ =? 0); [discriminate|]. destruct (30 <=? _); [discriminate|]. apply update_bonded_pool_BI. apply BI_other; exact HB2.
      * apply update_bonded_pool_BI. apply BI_other; exact HB2.
    + destruct (ensure_active c v) as [c1|] eqn:Ee; [|discriminate]. cbn [mbind].
      pose proof Ee as Ee'. apply ensure_active_id in Ee' as ->.
      destruct (set_poa_power c v (cast_i64 p)) as [c2|] eqn:E2; [|discriminate]. cbn [mbind].
      pose proof (set_poa_power_BI _ _ _ _ HS HB E2) as HB2.
      destruct (negb u && (1 <? height c2)).
      * destruct (_ =? 0); [discriminate|]. destruct (30 <=? _); [discriminate|]. apply update_bonded_pool_BI. apply BI_other; exact HB2.
      * apply update_bonded_pool_BI. apply BI_other; exact HB2.
  - unfold msg_remove_validator. destruct (if is_admin s then None else _); [discriminate|]. destruct (_ =? 0); [discriminate|].
    destruct (vals (stk c) !! v) as [vv|] eqn:Hv; [|discriminate]. destruct (negb _); [discriminate|].
    destruct (set_poa_power c v 0) as [c1|] eqn:E; [|discriminate]. cbn [mbind].
    pose proof (set_poa_power_BI _ _ _ _ HS HB E) as HB1. apply update_bonded_pool_BI. apply (BI_other _ HB1).
  - unfold msg_remove_pending. destruct (negb _); [discriminate|]. intros [= <-]. exact HB.
  - destruct r as [r|], mx as [mx|], ch as [ch|]; try discriminate.
    unfold msg_create_validator. destruct (poa_create_validate _); try discriminate. destruct (_ <? _); [discriminate|].
    destruct (bool_decide _); [discriminate|]. destruct (bool_decide _); [discriminate|]. destruct (pending_conflict _ _ _); [discriminate|].
    destruct (negb _); [discriminate|]. apply update_bonded_pool_BI. apply (BI_other _ HB).
  - unfold msg_update_params. destruct (negb _); [discriminate|]. destruct (negb _); [discriminate|]. destruct (negb _); [discriminate|].
    intros [= <-]. eapply BI_ext; [| |exact HB]; reflexivity.
  - unfold msg_unjail. destruct (vals (stk c) !! v) as [vv|]; [|discriminate]. destruct (dels (stk c) !! v); [|discriminate].
    destruct (_ =? 0); [discriminate|]. destruct (_ <? _); [discriminate|]. destruct (negb _); [discriminate|].
    destruct (match infos _ !! _ with Some _ => _ | None => _ end); [discriminate|].
    destruct (unjail (stk c) (v_cons vv)) as [s'|] eqn:E; [|discriminate]. intros [= <-]. destruct (unjail_BI_stk _ _ _ E) as [A B].
    destruct HB as [H1 H2]. unfold BI. cbn. rewrite A, B. auto.
  - intros [= <-]. exact HB.
  - intros [= <-]. exact HB.
Qed.

Lemma exec_msgs_BI ms c c' : CI c -> BI c -> exec_msgs c ms = MOk c' -> BI c'.
Proof.
  revert c. induction ms as [|m ms IH]; cbn; intros c HCI HB; [intros [= <-]; exact HB|].
  destruct (exec_msg c m) as [c1|] eqn:E; [|discriminate]. cbn. apply IH; [eapply exec_msg_CI; eauto|eapply exec_msg_BI; eauto].
Qed.

Lemma deliver_tx_BI c tx : CI c -> BI c -> BI (fst (deliver_tx c tx)).
Proof.
  intros HCI HB. unfold deliver_tx. destruct (cur_stk_decorator _ _); [exact HB|]. destruct (cur_wd_decorator _ _); [exact HB|].
  destruct (cur_comm_decorator _ _ _ _ _); try exact HB.
  destruct (existsb is_tree tx); [exact HB|].
  destruct (exec_msgs _ tx) as [c2|] eqn:E; [|exact HB]. cbn.
  eapply exec_msgs_BI; [| |exact E]; [apply CI_seqs; exact HCI|exact HB].
Qed.

Lemma deliver_txs_BI txs c : CI c -> BI c -> BI (fst (deliver_txs c txs)).
Proof.
  revert c. induction txs as [|tx txs IH]; cbn; intros c HCI HB; [exact HB|].
  pose proof (deliver_tx_BI c tx HCI HB) as Q1. pose proof (deliver_tx_CI c tx HCI) as H1. destruct (deliver_tx c tx) as [c1 o]. cbn in *.
  specialize (IH c1 H1 Q1). destruct (deliver_txs c1 txs) as [c2 os]. exact IH.
Qed.

(* ---- EndBlocker: the loops move validators between the classes and note the net transfer to make ---- *)
Definition LI (a : loop_acc) : Prop :=
  bonded_pool (bk (la_chain a)) + la_to_bonded a = bonded_tokens (stk (la_chain a)) /\
  other_tokens (stk (la_chain a)) <= notbonded_pool (bk (la_chain a)) - la_to_bonded a.

Lemma bond_validator_sums c id v :
  vals (stk c) !! id = Some v -> v_status v <> Bonded ->
  let c' := fst (bond_validator c id v) in
  bonded_tokens (stk c') = bonded_tokens (stk c) + v_tokens v /\ other_tokens (stk c') = other_tokens (stk c) - v_tokens v /\ bk c' = bk c.
Proof.
  intros Hv Hst. cbn.
  match goal with |- bonded_tokens ?s = _ /\ _ => destruct (sums_replace (stk c) s id v (set_status v Bonded) Hv) as [A B] end.
  { unfold set_index, set_validator, del_index. cbn. destruct (v_jailed v); reflexivity. }
  rewrite A, B. unfold f_bonded, f_other. cbn. destruct (v_status v); cbn; try congruence; repeat split; lia.
Qed.

Lemma apply_loop_LI keys maxv a a' : LI a -> apply_loop keys maxv a = LDone a' -> LI a'.
Proof.
  revert a. induction keys as [|[p id] ks IH]; intros a HL; cbn [apply_loop]; [intros [= <-]; exact HL|].
  destruct (maxv <=? la_count a); [intros [= <-]; exact HL|].
  destruct (vals (stk (la_chain a)) !! id) as [v|] eqn:Hv; [|discriminate].
  destruct (v_jailed v); [apply IH; exact HL|].
  destruct (v_power v =? 0); [intros [= <-]; exact HL|].
  set (r := match v_status v with Bonded => (la_chain a, v, 0) | _ => let '(c', v') := bond_validator (la_chain a) id v in (c', v', v_tokens v') end).
  assert (Hr : exists c1 v1 moved, r = (c1, v1, moved) /\
                 bonded_pool (bk c1) + (la_to_bonded a + moved) = bonded_tokens (stk c1) /\
                 other_tokens (stk c1) <= notbonded_pool (bk c1) - (la_to_bonded a + moved)).
  { subst r. destruct HL as [L1 L2].
    destruct (v_status v) eqn:Est.
    - pose proof (bond_validator_sums (la_chain a) id v Hv) as Hb. rewrite Est in Hb. specialize (Hb ltac:(discriminate)).
      destruct (bond_validator (la_chain a) id v) as [c' v''] eqn:Eb. cbn in Hb. destruct Hb as (A & B & C).
      assert (v'' = set_status v Bonded) by (unfold bond_validator in Eb; inversion Eb; reflexivity). subst v''.
      do 3 eexists. split; [reflexivity|]. rewrite A, B, C. cbn. lia.
    - pose proof (bond_validator_sums (la_chain a) id v Hv) as Hb. rewrite Est in Hb. specialize (Hb ltac:(discriminate)).
      destruct (bond_validator (la_chain a) id v) as [c' v''] eqn:Eb. cbn in Hb. destruct Hb as (A & B & C).
      assert (v'' = set_status v Bonded) by (unfold bond_validator in Eb; inversion Eb; reflexivity). subst v''.
      do 3 eexists. split; [reflexivity|]. rewrite A, B, C. cbn. lia.
    - do 3 eexists. split; [reflexivity|]. split; lia. }
  destruct Hr as (c1 & v1 & moved & -> & L1 & L2). cbn zeta.
  apply IH. unfold LI. cbn [la_chain la_to_bonded].
  destruct (match la_last a !! id with Some old => negb (old =? v_power v1) | None => true end); [|split; assumption].
  split; assumption.
Qed.

Lemma unbond_loop_LI ids a a' : LI a -> unbond_loop ids a = LDone a' -> LI a'.
Proof.
  revert a. induction ids as [|id rest IH]; intros a HL; cbn [unbond_loop]; [intros [= <-]; exact HL|].
  destruct (vals (stk (la_chain a)) !! id) as [v|] eqn:Hv; [|discriminate].
  destruct (status_eqb (v_status v) Bonded) eqn:Est; cbn [negb]; [|discriminate].
  destruct (begin_unbonding (la_chain a) id v) as [c1 v1] eqn:Eb. apply IH.
  unfold begin_unbonding in Eb. inversion Eb; subst c1 v1. clear Eb. unfold LI. cbn.
  set (t := now (la_chain a) + sp_unbonding_time (params (stk (la_chain a))) / 1000000000).
  match goal with |- _ = bonded_tokens ?s /\ _ =>
    destruct (sums_replace (stk (la_chain a)) s id v (set_unbonding v (height (la_chain a)) t) Hv) as [A B] end.
  { unfold set_index, set_validator, del_index. cbn. destruct (v_jailed v); reflexivity. }
  rewrite A, B. unfold f_bonded, f_other. cbn. rewrite Est. destruct HL as [L1 L2]. lia.
Qed.

Lemma apply_valset_updates_BI c c' upd : CI c -> BI c -> apply_valset_updates c = EBOk c' upd -> BI c'.
Proof.
  intros HCI HB. unfold apply_valset_updates.
  destruct (apply_loop _ _ _) as [a1|] eqn:E1; [|discriminate].
  destruct (unbond_loop _ a1) as [a2|] eqn:E2; [|discriminate].
  assert (L0 : LI {| la_chain := c; la_last := last_pow (stk c); la_upd := []; la_count := 0; la_total := 0; la_to_bonded := 0 |}).
  { destruct HB as [A B]. unfold LI. cbn. lia. }
  pose proof (apply_loop_LI _ _ _ _ L0 E1) as L1. pose proof (unbond_loop_LI _ _ _ L1 E2) as [A B].
  destruct (Z.eqb_spec (la_to_bonded a2) 0) as [Hz|Hz].
  - intros [= <- _]. assert (HB2 : BI (la_chain a2)) by (unfold BI; lia).
    destruct (la_upd a2); [eapply BI_ext; [| |exact HB2]; reflexivity|eapply BI_ext; [| |exact HB2]; reflexivity].
  - destruct (pool_transfer _ _) as [b|] eqn:Ep; [|discriminate]. intros [= <- _].
    assert (HB2 : BI (with_bk (la_chain a2) b)).
    { unfold pool_transfer in Ep. destruct (0 <=? la_to_bonded a2); destruct (_ <? _); try discriminate;
        inversion Ep; subst b; unfold BI; cbn [bk with_bk stk bonded_pool notbonded_pool]; lia. }
    destruct (la_upd a2); [exact HB2|eapply BI_ext; [| |exact HB2]; reflexivity].
Qed.

(* the transfer at the end of ApplyAndReturnValidatorSetUpdates always finds the funds *)
Lemma apply_valset_updates_funds c : CI c -> BI c -> apply_valset_updates c <> EBHalt 4.
Proof.
  intros HCI HB. unfold apply_valset_updates.
  destruct (apply_loop _ _ _) as [a1|e1] eqn:E1; [|intros [= ->]; apply apply_loop_halt in E1; lia].
  destruct (unbond_loop _ a1) as [a2|e2] eqn:E2; [|intros [= ->]; apply unbond_loop_halt in E2; lia].
  assert (L0 : LI {| la_chain := c; la_last := last_pow (stk c); la_upd := []; la_count := 0; la_total := 0; la_to_bonded := 0 |}).
  { destruct HB as [A B]. unfold LI. cbn. lia. }
  pose proof (apply_loop_LI _ _ _ _ L0 E1) as L1. pose proof (unbond_loop_LI _ _ _ L1 E2) as [A B].
  assert (H1 : CI (la_chain a1)) by (eapply apply_loop_CI; [|exact E1]; exact HCI).
  pose proof (unbond_loop_CI _ _ _ H1 E2) as [HS2 _].
  assert (Hb : 0 <= bonded_tokens (stk (la_chain a2))).
  { rewrite bonded_tokens_msum. apply msum_nonneg. apply f_bonded_nonneg. exact (si_tok _ HS2). }
  assert (Ho : 0 <= other_tokens (stk (la_chain a2))).
  { apply msum_nonneg. apply f_other_nonneg. exact (si_tok _ HS2). }
  destruct (la_to_bonded a2 =? 0); [discriminate|].
  unfold pool_transfer. destruct (Z.leb_spec 0 (la_to_bonded a2)).
  - destruct (Z.ltb_spec (notbonded_pool (bk (la_chain a2))) (la_to_bonded a2)); [lia|discriminate].
  - destruct (Z.ltb_spec (bonded_pool (bk (la_chain a2))) (- la_to_bonded a2)); [lia|discriminate].
Qed.

(* ---- maturity ---- *)
Lemma mature_ids_cons id rest c :
  mature_ids (id :: rest) c = match mature_ids [id] c with Some c1 => mature_ids rest c1 | None => None end.
Proof.
  cbn [mature_ids]. destruct (vals _ !! id) as [v|]; [|reflexivity]. destruct (negb _); [reflexivity|].
  destruct (v_shares _ =? 0); [destruct (0 <? _); reflexivity|reflexivity].
Qed.

Lemma mature_one_BI id c c1 : CI c -> BI c -> mature_ids [id] c = Some c1 -> BI c1.
Proof.
  intros HCI HB. cbn [mature_ids].
  destruct (vals (stk c) !! id) as [v|] eqn:Hv; [|discriminate].
  destruct (status_eqb (v_status v) Unbonding) eqn:Est; cbn [negb]; [|discriminate].
  set (v' := set_status v Unbonded).
  assert (Hf : f_bonded v = 0 /\ f_bonded v' = 0 /\ f_other v' = f_other v /\ f_other v = v_tokens v).
  { unfold f_bonded, f_other, v'. cbn. destruct (v_status v); cbn in *; try discriminate. auto. }
  destruct Hf as (F1 & F2 & F3 & F4).
  pose proof (si_tok _ (proj1 HCI) id v Hv) as Htok. destruct HB as [B1 B2].
  destruct (v_shares v' =? 0).
  - destruct (Z.ltb_spec 0 (v_tokens v')) as [|Hle]; [discriminate|]. cbn in Hle. intros [= <-]. unfold BI. cbn [stk with_stk bk].
    match goal with |- _ = bonded_tokens ?s /\ _ => destruct (sums_delete (stk c) s id v Hv) as [A B] end.
    { cbn. apply delete_insert_delete. }
    rewrite A, B. lia.
  - intros [= <-]. unfold BI. cbn [stk with_stk bk].
    match goal with |- _ = bonded_tokens ?s /\ _ => destruct (sums_replace (stk c) s id v v' Hv) as [A B] end.
    { reflexivity. }
    rewrite A, B. lia.
Qed.

Lemma mature_ids_BI ids c c' : CI c -> BI c -> mature_ids ids c = Some c' -> BI c'.
Proof.
  revert c. induction ids as [|id rest IH]; intros c HCI HB; [cbn; intros [= <-]; exact HB|].
  rewrite mature_ids_cons. destruct (mature_ids [id] c) as [c1|] eqn:E; [|discriminate].
  apply IH; [eapply mature_ids_CI; eauto|eapply mature_one_BI; eauto].
Qed.

Lemma mature_slots_BI slots c c' : CI c -> BI c -> mature_slots slots c = Some c' -> BI c'.
Proof.
  revert c. induction slots as [|[[t h] ids] rest IH]; cbn [mature_slots]; intros c HCI HB; [intros [= <-]; exact HB|].
  destruct (_ && _); [|apply IH; assumption].
  destruct (mature_ids ids c) as [c1|] eqn:E; [|discriminate]. apply IH; [eapply mature_ids_CI; eauto|eapply mature_ids_BI; eauto].
Qed.

Lemma staking_end_block_BI c c' upd : CI c -> BI c -> staking_end_block c = EBOk c' upd -> BI c'.
Proof.
  intros HCI HB. unfold staking_end_block. destruct (apply_valset_updates c) as [c1 u|] eqn:E1; [|discriminate].
  destruct (unbond_all_mature c1) as [c2|] eqn:E2; [|discriminate]. intros [= <- _].
  unfold unbond_all_mature in E2. eapply mature_slots_BI; [| |exact E2]; [eapply apply_valset_updates_CI; eauto|eapply apply_valset_updates_BI; eauto].
Qed.

(* the staking EndBlocker never halts at all: not on a missing record or bad transition (CI), not on the queue (QI),
   not on the pools (BI) *)
Lemma staking_end_block_never_halts c : CI c -> QI (stk c) -> BI c -> exists c' upd, staking_end_block c = EBOk c' upd.
Proof.
  intros HCI HQ HB. destruct (staking_end_block c) as [c' upd|e] eqn:E; [eauto|]. exfalso.
  unfold staking_end_block in E. destruct (apply_valset_updates c) as [c1 u|e1] eqn:E1.
  - pose proof (apply_valset_updates_QI _ _ _ HQ E1) as HQ1. destruct (unbond_all_mature_ok c1 HQ1) as (c2 & E2 & _). rewrite E2 in E. discriminate.
  - inversion E; subst e1. clear E.
    destruct HCI as [HS HP].
    pose proof (apply_valset_updates_safe c (si_sound _ HS) (si_unique _ HS) (si_cons _ HS) (si_last _ HS) (si_tok _ HS)) as Hsafe.
    rewrite E1 in Hsafe. subst e. eapply apply_valset_updates_funds; [split; eassumption|exact HB|exact E1].
Qed.

(* ---- histories ---- *)
Lemma msum_list_to_map (f : validator -> Z) (g : Z * Z -> validator) (l : list (Z * Z)) :
  List.NoDup (map fst l) ->
  msum f (list_to_map (map (fun p => (fst p, g p)) l)) = fold_right (fun p acc => f (g p) + acc) 0 l.
Proof.
  induction l as [|[k t] l IH]; cbn; intros Hnd; [apply msum_empty|].
  inversion Hnd as [|? ? Hnotin Hnd']; subst. rewrite msum_insert_new.
  - rewrite IH by exact Hnd'. lia.
  - destruct (list_to_map (map (fun p => (fst p, g p)) l) !! k) as [x|] eqn:E; [|reflexivity]. exfalso. apply Hnotin.
    apply list_to_map_lookup_inv in E. apply in_map_iff in E as ([k' t'] & Heq & Hin). cbn in Heq. inversion Heq; subst.
    change k with (fst (k, t')). apply in_map. exact Hin.
Qed.

Lemma genesis_chain_BI g : BI (genesis_chain g).
Proof.
  set (vs := enumerate_from 0 (g_tokens g)).
  assert (Hnd : List.NoDup (map fst vs)) by apply enumerate_from_nodup.
  unfold BI. rewrite bonded_tokens_msum. unfold other_tokens. cbn. fold vs.
  rewrite !(msum_list_to_map _ (fun p => set_status (genesis_validator (fst p) (snd p)) Unbonded) vs Hnd).
  split.
  - clear Hnd. induction vs as [|[i t] vs' IH]; cbn [fold_right]; [reflexivity|]. rewrite <- IH. reflexivity.
  - apply Z.eq_le_incl. clear Hnd. induction vs as [|[i t] vs' IH]; cbn [fold_right]; [reflexivity|]. rewrite IH. reflexivity.
Qed.

Lemma apply_valset_updates_never_halts c : CI c -> BI c -> exists c' upd, apply_valset_updates c = EBOk c' upd.
Proof.
  intros HCI HB. destruct (apply_valset_updates c) as [c' upd|e] eqn:E; [eauto|]. exfalso.
  destruct HCI as [HS HP].
  pose proof (apply_valset_updates_safe c (si_sound _ HS) (si_unique _ HS) (si_cons _ HS) (si_last _ HS) (si_tok _ HS)) as Hsafe.
  rewrite E in Hsafe. subst e. eapply apply_valset_updates_funds; [split; eassumption|exact HB|exact E].
Qed.

Lemma init_world_BI g : wf_genesis g -> BI (w_chain (init_world g)).
Proof.
  intros Hwf. pose proof (genesis_chain_CI g Hwf) as HC. pose proof (genesis_chain_BI g) as HB. unfold init_world. fold (genesis_chain g).
  change (match apply_valset_updates (genesis_chain g) with
          | EBOk c1 upd => _ | EBHalt e => _ end) with
    (match apply_valset_updates (genesis_chain g) with
     | EBHalt e => {| w_chain := genesis_chain g; w_comet := {| c_prev := None; c_cur := ∅; c_next := ∅ |}; w_halted := Some (HEndBlock e) |}
     | EBOk c1 upd =>
       {| w_chain := with_poa c1 {| pending := []; cached_power := last_total (stk c1); abs_changed := 0 |};
          w_comet := {| c_prev := None; c_cur := apply_updates ∅ upd; c_next := apply_updates ∅ upd |}; w_halted := None |}
     end).
  destruct (apply_valset_updates (genesis_chain g)) as [c1 upd|e] eqn:E; cbn; [|exact HB].
  eapply BI_ext; [| |eapply apply_valset_updates_BI; eauto]; reflexivity.
Qed.

Lemma init_world_not_halted g : wf_genesis g -> w_halted (init_world g) = None.
Proof.
  intros Hwf. pose proof (genesis_chain_CI g Hwf) as HC. pose proof (genesis_chain_BI g) as HB.
  destruct (apply_valset_updates_never_halts _ HC HB) as (c1 & upd & E). unfold init_world. fold (genesis_chain g). rewrite E. reflexivity.
Qed.

Lemma run_block_BI w b : CI (w_chain w) -> BI (w_chain w) -> BI (w_chain (fst (run_block w b))).
Proof.
  intros HCI HB. unfold run_block. destruct (w_halted w); [exact HB|].
  set (c0 := with_clock (w_chain w) (height (w_chain w) + 1) (now (w_chain w) + b_dt b)).
  assert (H0 : CI c0) by (apply CI_clock; exact HCI).
  assert (B0 : BI c0) by exact HB.
  destruct (begin_block c0 _ (b_absent b) (b_evidence b)) as [c1|e] eqn:Eb; [|exact B0].
  pose proof (begin_block_CI _ _ _ _ _ H0 Eb) as H1. pose proof (begin_block_BI _ _ _ _ _ B0 Eb) as B1.
  pose proof (deliver_txs_CI (b_txs b) c1 H1) as H2. pose proof (deliver_txs_BI (b_txs b) c1 H1 B1) as B2.
  destruct (deliver_txs c1 (b_txs b)) as [c2 outs]. cbn in H2, B2.
  destruct (staking_end_block c2) as [c3 upd|e] eqn:Ee; [|exact B2].
  pose proof (staking_end_block_BI _ _ _ H2 B2 Ee) as B3.
  destruct (comet_apply _ upd); exact B3.
Qed.

(* the three invariants together, in every reachable state *)
Theorem reachable_all g bs : wf_genesis g ->
  let c := w_chain (run_world (init_world g) bs) in CI c /\ QI (stk c) /\ BI c.
Proof.
  intros Hwf. pose proof (init_world_CI g Hwf) as HC. pose proof (init_world_QI g) as HQ. pose proof (init_world_BI g Hwf) as HB.
  revert HC HQ HB. generalize (init_world g). induction bs as [|b bs IH]; cbn; intros w HC HQ HB; [auto|].
  apply IH; [apply run_block_CI; exact HC|apply run_block_QI; assumption|apply run_block_BI; assumption].
Qed.

(* x/staking's EndBlocker never returns an error in any block of any history *)
Theorem block_endblock_never_halts w b e :
  CI (w_chain w) -> QI (stk (w_chain w)) -> BI (w_chain w) -> w_halted w = None -> w_halted (fst (run_block w b)) <> Some (HEndBlock e).
Proof.
  intros HCI HQ HB Hh. unfold run_block. rewrite Hh.
  set (c0 := with_clock (w_chain w) (height (w_chain w) + 1) (now (w_chain w) + b_dt b)).
  assert (H0 : CI c0) by (apply CI_clock; exact HCI).
  assert (Q0 : QI (stk c0)) by exact HQ. assert (B0 : BI c0) by exact HB.
  destruct (begin_block c0 _ (b_absent b) (b_evidence b)) as [c1|e1] eqn:Eb; [|cbn; discriminate].
  pose proof (begin_block_CI _ _ _ _ _ H0 Eb) as H1. pose proof (begin_block_QI _ _ _ _ _ H0 Q0 Eb) as Q1. pose proof (begin_block_BI _ _ _ _ _ B0 Eb) as B1.
  pose proof (deliver_txs_CI (b_txs b) c1 H1) as H2. pose proof (deliver_txs_QI (b_txs b) c1 H1 Q1) as Q2. pose proof (deliver_txs_BI (b_txs b) c1 H1 B1) as B2.
  destruct (deliver_txs c1 (b_txs b)) as [c2 outs]. cbn in H2, Q2, B2.
  destruct (staking_end_block_never_halts c2 H2 Q2 B2) as (c3 & upd & ->).
  destruct (comet_apply _ upd); cbn; discriminate.
Qed.

Theorem history_endblock_never_halts g bs e :
  wf_genesis g -> w_halted (run_world (init_world g) bs) <> Some (HEndBlock e).
Proof.
  intros Hwf. pose proof (init_world_CI g Hwf) as HC. pose proof (init_world_QI g) as HQ. pose proof (init_world_BI g Hwf) as HB.
  assert (H0 : w_halted (init_world g) <> Some (HEndBlock e)) by (rewrite init_world_not_halted by exact Hwf; discriminate).
  revert HC HQ HB H0. generalize (init_world g). induction bs as [|b bs IH]; cbn; intros w HC HQ HB H0; [exact H0|].
  apply IH; [apply run_block_CI; exact HC|apply run_block_QI; assumption|apply run_block_BI; assumption|].
  destruct (w_halted w) as [r|] eqn:Hh.
  - unfold run_block. rewrite Hh. cbn. rewrite Hh. exact H0.
  - apply block_endblock_never_halts; assumption.
Qed.

(* downtime slashing never fails for lack of funds either: in every reachable state, Slash finds the tokens it burns *)
Theorem reachable_slash_funds g bs k p f :
  wf_genesis g -> 0 <= f ->
  let c := w_chain (run_world (init_world g) bs) in
  slash c k p f = None -> exists id v, by_cons (stk c) !! k = Some id /\ vals (stk c) !! id = Some v /\ v_status v = Unbonded.
Proof.
  intros Hwf Hf c Hs. destruct (reachable_all g bs Hwf) as ([HS _] & _ & HB).
  destruct (slash_funds c k p f HB (si_tok _ HS) Hs) as [Hneg|H]; [lia|exact H].
Qed.
