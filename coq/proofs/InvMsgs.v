(* InvMsgs.v — every message handler, every transaction, BeginBlock's slashing and the EndBlocker keep the
   chain invariant CI = SI (x/staking store) /\ PI (pending list). *)
From stdpp Require Import gmap.
Require Import Model.Base Model.Ante Model.Validate Model.Current Model.State Model.Staking Model.Slashing Model.Poa Model.App.
Require Import proofs.Inv proofs.InvIdx proofs.L1Effects proofs.InvPres.
Open Scope Z_scope.

Definition CI (c : chain) : Prop := SI (stk c) /\ PI c.

Lemma CI_bk c b : CI c -> CI (with_bk c b).
Proof. intros [H1 [A B C D]]. split; [exact H1|constructor; auto]. Qed.
Lemma CI_sl c l : CI c -> CI (with_sl c l).
Proof. intros [H1 [A B C D]]. split; [exact H1|constructor; auto]. Qed.
Lemma CI_seqs c q : CI c -> CI (with_seqs c q).
Proof. intros [H1 [A B C D]]. split; [exact H1|constructor; auto]. Qed.
Lemma CI_clock c h t : CI c -> CI (with_clock c h t).
Proof. intros [H1 [A B C D]]. split; [exact H1|constructor; auto]. Qed.

Lemma update_bonded_pool_CI c c' : CI c -> update_bonded_pool c = MOk c' -> CI c'.
Proof.
  intros [HS HP] H. apply update_bonded_pool_stk in H as (Hs & Hp & _). split; [rewrite Hs; exact HS|].
  eapply PI_transfer; [exact HP|rewrite Hp; reflexivity|rewrite Hs; apply same_ids_cons_refl].
Qed.

Lemma set_poa_power_CI c val n c' : CI c -> 0 <= n -> set_poa_power c val n = MOk c' -> CI c'.
Proof.
  intros [HS HP] Hn H. split; [eapply set_poa_power_SI; eauto|].
  destruct (set_poa_power_same_ids _ _ _ _ HS H) as [Hsame Hpend]. eapply PI_transfer; eauto.
Qed.

Lemma cast_i64_of_valid val power : setpower_validate (0 <=? val) power = Ok tt -> 0 <= cast_i64 power.
Proof.
  unfold setpower_validate, cast_i64, min_power, max_int64, two63.
  destruct (negb _); [discriminate|]. destruct (Z.ltb_spec power 1000000); [discriminate|].
  destruct (Z.ltb_spec (2 ^ 63 - 1) power); [discriminate|]. intros _. destruct (Z.ltb_spec power (2 ^ 63)); lia.
Qed.

Lemma msg_set_power_CI c s val power u c' : CI c -> msg_set_power c s val power u = MOk c' -> CI c'.
Proof.
  intros HCI. unfold msg_set_power. destruct (negb (is_admin s)); [discriminate|].
  destruct (setpower_validate (0 <=? val) power) as [[]|] eqn:Ev; [|discriminate].
  set (r1 := match find_pending val (pending (poa c)) with Some p => accept_new_validator c p | None => ensure_active c val end).
  assert (H1 : forall c1, r1 = MOk c1 -> CI c1).
  { subst r1. intros c1. destruct (find_pending val (pending (poa c))) as [p|] eqn:Ef.
    - apply find_pending_in in Ef as [Hin _]. intros Ha. destruct HCI as [HS HP]. destruct (accept_SI_PI _ _ _ HS HP Hin Ha). split; assumption.
    - intros Ha. apply ensure_active_id in Ha as ->. exact HCI. }
  destruct r1 as [c1|]; [|discriminate]. cbn [mbind]. specialize (H1 c1 eq_refl).
  destruct (set_poa_power c1 val (cast_i64 power)) as [c2|] eqn:E2; [|discriminate]. cbn [mbind].
  assert (H2 : CI c2) by (eapply set_poa_power_CI; [exact H1|exact (cast_i64_of_valid val power Ev)|exact E2]).
  destruct (negb u && (1 <? height c2)).
  - destruct (_ =? 0); [discriminate|]. destruct (30 <=? _); [discriminate|]. apply update_bonded_pool_CI; exact H2.
  - apply update_bonded_pool_CI; exact H2.
Qed.

Lemma msg_remove_validator_CI c s val c' : CI c -> msg_remove_validator c s val = MOk c' -> CI c'.
Proof.
  intros HCI. unfold msg_remove_validator.
  destruct (if is_admin s then None else _); [discriminate|]. destruct (_ =? 0); [discriminate|].
  destruct (vals (stk c) !! val) as [v|]; [|discriminate]. destruct (negb _); [discriminate|].
  destruct (set_poa_power c val 0) as [c1|] eqn:E; [|discriminate]. cbn [mbind].
  intros H. eapply update_bonded_pool_CI; [|exact H]. apply CI_sl. apply (set_poa_power_CI c val 0); [exact HCI|lia|exact E].
Qed.

Lemma msg_remove_pending_CI c s val c' : CI c -> msg_remove_pending c s val = MOk c' -> CI c'.
Proof.
  intros [HS [A B C D]]. unfold msg_remove_pending. destruct (negb _); [discriminate|]. intros [= <-].
  split; [exact HS|]. constructor; cbn.
  - apply nodup_remove_first; exact A.
  - apply nodup_remove_first; exact B.
  - intros p Hin. apply C. eapply in_remove_first; eauto.
  - intros p id v Hin. apply D. eapply in_remove_first; eauto.
Qed.

Lemma pending_conflict_none' val cons l :
  pending_conflict val cons l = None -> forall p, In p l -> p_oper p <> val /\ p_cons p <> cons.
Proof.
  induction l as [|q l IH]; cbn; [intros _ p []|].
  destruct (Z.eqb_spec (p_oper q) val); [discriminate|]. destruct (Z.eqb_spec (p_cons q) cons); [discriminate|].
  intros H p [->|Hin]; [auto|]. apply IH; auto.
Qed.

Lemma msg_create_validator_CI c val cons mon r m ch c' : CI c -> msg_create_validator c val cons mon r m ch = MOk c' -> CI c'.
Proof.
  intros [HS [A B C D]]. unfold msg_create_validator. destruct (poa_create_validate _); try discriminate.
  destruct (_ <? _); [discriminate|].
  destruct (vals (stk c) !! val) eqn:Ev; [rewrite bool_decide_eq_true_2 by eauto; discriminate|].
  rewrite bool_decide_eq_false_2 by (intros [? ?]; discriminate).
  destruct (by_cons (stk c) !! cons) eqn:Ec; [rewrite bool_decide_eq_true_2 by eauto; discriminate|].
  rewrite bool_decide_eq_false_2 by (intros [? ?]; discriminate).
  destruct (pending_conflict _ _ _) eqn:Ep; [discriminate|]. destruct (negb _); [discriminate|].
  intros H. eapply update_bonded_pool_CI; [|exact H]. split; [exact HS|].
  pose proof (pending_conflict_none' _ _ _ Ep) as Hconf.
  constructor; cbn.
  - rewrite map_app. cbn. apply nodup_snoc; [|exact A]. intros Hin. apply in_map_iff in Hin as (p & Hp & Hin). destruct (Hconf p Hin). congruence.
  - rewrite map_app. cbn. apply nodup_snoc; [|exact B]. intros Hin. apply in_map_iff in Hin as (p & Hp & Hin). destruct (Hconf p Hin). congruence.
  - intros p Hin. apply in_app_or in Hin as [Hin|[<-|[]]]; [apply C; exact Hin|exact Ev].
  - intros p id v Hin Hv. apply in_app_or in Hin as [Hin|[<-|[]]]; [eapply D; eauto|]. cbn.
    intros Heq. pose proof (si_bycons _ HS id v Hv) as Hb. rewrite Heq in Hb. congruence.
Qed.

Lemma msg_update_params_CI c s p c' : CI c -> msg_update_params c s p = MOk c' -> CI c'.
Proof.
  intros [HS [A B C D]]. unfold msg_update_params. destruct (negb _); [discriminate|]. destruct (negb _); [discriminate|].
  destruct (negb _); [discriminate|]. intros [= <-]. split.
  - eapply SI_ext; [| | | |exact HS]; reflexivity.
  - constructor; cbn; auto.
Qed.

Lemma unjail_same_ids s k s' : unjail s k = Some s' -> same_ids_cons s s'.
Proof.
  unfold unjail. destruct (by_cons s !! k) as [id|]; [|discriminate]. destruct (vals s !! id) as [v|] eqn:Hv; [|discriminate].
  destruct (negb _); [discriminate|]. intros [= <-]. eapply same_ids_cons_insert; [exact Hv| |]. 2:{ unfold set_index, set_validator. cbn. reflexivity. } reflexivity.
Qed.

Lemma msg_unjail_CI c val c' : CI c -> msg_unjail c val = MOk c' -> CI c'.
Proof.
  intros [HS HP]. unfold msg_unjail. destruct (vals (stk c) !! val) as [v|]; [|discriminate].
  destruct (dels (stk c) !! val); [|discriminate]. destruct (_ =? 0); [discriminate|]. destruct (_ <? _); [discriminate|].
  destruct (negb _); [discriminate|]. destruct (match infos _ !! _ with Some _ => _ | None => _ end); [discriminate|].
  destruct (unjail (stk c) (v_cons v)) as [s'|] eqn:E; [|discriminate]. intros [= <-]. split.
  - cbn. eapply unjail_SI; eauto.
  - eapply PI_transfer; [exact HP|reflexivity|cbn; eapply unjail_same_ids; eauto].
Qed.

Lemma exec_msg_CI c m c' : CI c -> exec_msg c m = MOk c' -> CI c'.
Proof.
  intros HCI. destruct m as [s v p u|s v|s v|v k mon r mx ch msd|s p|v|s|s t]; cbn.
  - apply msg_set_power_CI; exact HCI.
  - apply msg_remove_validator_CI; exact HCI.
  - apply msg_remove_pending_CI; exact HCI.
  - destruct r as [r|], mx as [mx|], ch as [ch|]; try discriminate. apply msg_create_validator_CI; exact HCI.
  - apply msg_update_params_CI; exact HCI.
  - apply msg_unjail_CI; exact HCI.
  - intros [= <-]; exact HCI.
  - intros [= <-]; exact HCI.
Qed.

Lemma exec_msgs_CI ms c c' : CI c -> exec_msgs c ms = MOk c' -> CI c'.
Proof.
  revert c. induction ms as [|m ms IH]; cbn; intros c HCI; [intros [= <-]; exact HCI|].
  destruct (exec_msg c m) as [c1|] eqn:E; [|discriminate]. cbn. apply IH. eapply exec_msg_CI; eauto.
Qed.

Lemma deliver_tx_CI c tx : CI c -> CI (fst (deliver_tx c tx)).
Proof.
  intros HCI. unfold deliver_tx. destruct (cur_stk_decorator _ _); [exact HCI|]. destruct (cur_wd_decorator _ _); [exact HCI|].
  destruct (cur_comm_decorator _ _ _ _ _); try exact HCI.
  assert (Hb : CI (bump_seqs c (dedup (map msg_sender tx)))) by (apply CI_seqs; exact HCI).
  destruct (existsb is_tree tx); [exact Hb|].
  destruct (exec_msgs _ tx) as [c2|] eqn:E; [|exact Hb]. cbn. eapply exec_msgs_CI; eauto.
Qed.

Lemma deliver_txs_CI txs c : CI c -> CI (fst (deliver_txs c txs)).
Proof.
  revert c. induction txs as [|tx txs IH]; cbn; intros c HCI; [exact HCI|].
  pose proof (deliver_tx_CI c tx HCI) as H1. destruct (deliver_tx c tx) as [c1 o]. cbn in H1.
  specialize (IH c1 H1). destruct (deliver_txs c1 txs) as [c2 os]. exact IH.
Qed.
