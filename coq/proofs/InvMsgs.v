(* InvMsgs.v — every message handler, every transaction, BeginBlock's slashing and the EndBlocker keep the
   chain invariant CI = SI (x/staking store) /\ PI (pending list). *)
From stdpp Require Import gmap.
Require Import Model.Base Model.Ante Model.Validate Model.Current Model.State Model.Staking Model.Slashing Model.Poa Model.App.
Require Import proofs.Inv proofs.InvIdx proofs.L1Effects proofs.InvPres proofs.EvBasic.
Open Scope Z_scope.

Definition CI (c : chain) : Prop := SI (stk c) /\ PI c.

Lemma CI_bk c b : CI c -> CI (with_bk c b).
Proof. intros [H1 [A B C D]]. split; [exact H1|constructor; auto]. Qed.
Lemma CI_sl c l : CI c -> CI (with_sl c l).
Proof. intros [H1 [A B C D]]. split; [exact H1|constructor; auto]. Qed.
Lemma CI_seqs c q : CI c -> CI (with_seqs c q).
Proof. intros [H1 [A B C D]]. split; [exact H1|constructor; auto]. Qed.
Lemma CI_clock c h t : CI c -> CI (with_clock c h t).
Proof. intros [H1 [A B C D]]. split; [exact H1|constructor; auto]. Qed.

Lemma update_bonded_pool_CI c c' : CI c -> update_bonded_pool c = MOk c' -> CI c'.
Proof.
  intros [HS HP] H. apply update_bonded_pool_stk in H as (Hs & Hp & _). split; [rewrite Hs; exact HS|].
  eapply PI_transfer; [exact HP|rewrite Hp; reflexivity|rewrite Hs; apply same_ids_cons_refl].
Qed.

Lemma set_poa_power_CI c val n c' : CI c -> 0 <= n -> set_poa_power c val n = MOk c' -> CI c'.
Proof.
  intros [HS HP] Hn H. split; [eapply set_poa_power_SI; eauto|].
  destruct (set_poa_power_same_ids _ _ _ _ HS H) as [Hsame Hpend]. eapply PI_transfer; eauto.
Qed.

Lemma cast_i64_of_valid val power : setpower_validate (0 <=? val) power = Ok tt -> 0 <= cast_i64 power.
Proof.
  unfold setpower_validate, cast_i64, min_power, max_int64, two63.
  destruct (negb _); [discriminate|]. destruct (Z.ltb_spec power 1000000); [discriminate|].
  destruct (Z.ltb_spec (2 ^ 63 - 1) power); [discriminate|]. intros _. destruct (Z.ltb_spec power (2 ^ 63)); lia.
Qed.

Lemma msg_set_power_CI c s val power u c' : CI c -> msg_set_power c s val power u = MOk c' -> CI c'.
Proof.
  intros HCI. unfold msg_set_power. destruct (negb (is_admin s)); [discriminate|].
  destruct (setpower_validate (0 <=? val) power) as [[]|] eqn:Ev; [|discriminate].
  set (r1 := match find_pending val (pending (poa c)) with Some p => accept_new_validator c p | None => ensure_active c val end).
  assert (H1 : forall c1, r1 = MOk c1 -> CI c1).
  { subst r1. intros c1. destruct (find_pending val (pending (poa c))) as [p|] eqn:Ef.
    - apply find_pending_in in Ef as [Hin _]. intros Ha. destruct HCI as [HS HP]. destruct (accept_SI_PI _ _ _ HS HP Hin Ha). split; assumption.
    - intros Ha. apply ensure_active_id in Ha as ->. exact HCI. }
  destruct r1 as [c1|]; [|discriminate]. cbn [mbind]. specialize (H1 c1 eq_refl).
  destruct (set_poa_power c1 val (cast_i64 power)) as [c2|] eqn:E2; [|discriminate]. cbn [mbind].
  assert (H2 : CI c2) by (eapply set_poa_power_CI; [exact H1|exact (cast_i64_of_valid val power Ev)|exact E2]).
  destruct (negb u && (1 <? height c2)).
  - destruct (_ =? 0); [discriminate|]. destruct (30 <=? _); [discriminate|]. apply update_bonded_pool_CI; exact H2.
  - apply update_bonded_pool_CI; exact H2.
Qed.

Lemma msg_remove_validator_CI c s val c' : CI c -> msg_remove_validator c s val = MOk c' -> CI c'.
Proof.
  intros HCI. unfold msg_remove_validator.
  destruct (if is_admin s then None else _); [discriminate|]. destruct (_ =? 0); [discriminate|].
  destruct (vals (stk c) !! val) as [v|]; [|discriminate]. destruct (negb _); [discriminate|].
  destruct (set_poa_power c val 0) as [c1|] eqn:E; [|discriminate]. cbn [mbind].
  intros H. eapply update_bonded_pool_CI; [|exact H]. apply CI_sl. apply (set_poa_power_CI c val 0); [exact HCI|lia|exact E].
Qed.

Lemma msg_remove_pending_CI c s val c' : CI c -> msg_remove_pending c s val = MOk c' -> CI c'.
Proof.
  intros [HS [A B C D]]. unfold msg_remove_pending. destruct (negb _); [discriminate|]. intros [= <-].
  split; [exact HS|]. constructor; cbn.
  - apply nodup_remove_first; exact A.
  - apply nodup_remove_first; exact B.
  - intros p Hin. apply C. eapply in_remove_first; eauto.
  - intros p id v Hin. apply D. eapply in_remove_first; eauto.
Qed.

Lemma pending_conflict_none' val cons l :
  pending_conflict val cons l = None -> forall p, In p l -> p_oper p <> val /\ p_cons p <> cons.
Proof.
  induction l as [|q l IH]; cbn; [intros _ p []|].
  destruct (Z.eqb_spec (p_oper q) val); [discriminate|]. destruct (Z.eqb_spec (p_cons q) cons); [discriminate|].
  intros H p [->|Hin]; [auto|]. apply IH; auto.
Qed.

Lemma msg_create_validator_CI c val cons mon r m ch c' : CI c -> msg_create_validator c val cons mon r m ch = MOk c' -> CI c'.
Proof.
  intros [HS [A B C D]]. unfold msg_create_validator. destruct (poa_create_validate _); try discriminate.
  destruct (_ <? _); [discriminate|].
  destruct (vals (stk c) !! val) eqn:Ev; [rewrite bool_decide_eq_true_2 by eauto; discriminate|].
  rewrite bool_decide_eq_false_2 by (intros [? ?]; discriminate).
  destruct (by_cons (stk c) !! cons) eqn:Ec; [rewrite bool_decide_eq_true_2 by eauto; discriminate|].
  rewrite bool_decide_eq_false_2 by (intros [? ?]; discriminate).
  destruct (pending_conflict _ _ _) eqn:Ep; [discriminate|]. destruct (negb _); [discriminate|].
  intros H. eapply update_bonded_pool_CI; [|exact H]. split; [exact HS|].
  pose proof (pending_conflict_none' _ _ _ Ep) as Hconf.
  constructor; cbn.
  - rewrite map_app. cbn. apply nodup_snoc; [|exact A]. intros Hin. apply in_map_iff in Hin as (p & Hp & Hin). destruct (Hconf p Hin). congruence.
  - rewrite map_app. cbn. apply nodup_snoc; [|exact B]. intros Hin. apply in_map_iff in Hin as (p & Hp & Hin). destruct (Hconf p Hin). congruence.
  - intros p Hin. apply in_app_or in Hin as [Hin|[<-|[]]]; [apply C; exact Hin|exact Ev].
  - intros p id v Hin Hv. apply in_app_or in Hin as [Hin|[<-|[]]]; [eapply D; eauto|]. cbn.
    intros Heq. pose proof (si_bycons _ HS id v Hv) as Hb. rewrite Heq in Hb. congruence.
Qed.

Lemma msg_update_params_CI c s p c' : CI c -> msg_update_params c s p = MOk c' -> CI c'.
Proof.
  intros [HS [A B C D]]. unfold msg_update_params. destruct (negb _); [discriminate|]. destruct (negb _); [discriminate|].
  destruct (negb _); [discriminate|]. intros [= <-]. split.
  - eapply SI_ext; [| | | |exact HS]; reflexivity.
  - constructor; cbn; auto.
Qed.

Lemma unjail_same_ids s k s' : unjail s k = Some s' -> same_ids_cons s s'.
Proof.
  unfold unjail. destruct (by_cons s !! k) as [id|]; [|discriminate]. destruct (vals s !! id) as [v|] eqn:Hv; [|discriminate].
  destruct (negb _); [discriminate|]. intros [= <-]. eapply same_ids_cons_insert; [exact Hv| |]. 2:{ unfold set_index, set_validator. cbn. reflexivity. } reflexivity.
Qed.

Lemma msg_unjail_CI c val c' : CI c -> msg_unjail c val = MOk c' -> CI c'.
Proof.
  intros [HS HP]. unfold msg_unjail. destruct (vals (stk c) !! val) as [v|]; [|discriminate].
  destruct (dels (stk c) !! val); [|discriminate]. destruct (_ =? 0); [discriminate|]. destruct (_ <? _); [discriminate|].
  destruct (negb _); [discriminate|]. destruct (match infos _ !! _ with Some _ => _ | None => _ end); [discriminate|].
  destruct (unjail (stk c) (v_cons v)) as [s'|] eqn:E; [|discriminate]. intros [= <-]. split.
  - cbn. eapply unjail_SI; eauto.
  - eapply PI_transfer; [exact HP|reflexivity|cbn; eapply unjail_same_ids; eauto].
Qed.

Lemma exec_msg_CI c m c' : CI c -> exec_msg c m = MOk c' -> CI c'.
Proof.
  intros HCI. destruct m as [s v p u|s v|s v|v k mon r mx ch msd|s p|v|s|s t]; cbn.
  - apply msg_set_power_CI; exact HCI.
  - apply msg_remove_validator_CI; exact HCI.
  - apply msg_remove_pending_CI; exact HCI.
  - destruct r as [r|], mx as [mx|], ch as [ch|]; try discriminate. apply msg_create_validator_CI; exact HCI.
  - apply msg_update_params_CI; exact HCI.
  - apply msg_unjail_CI; exact HCI.
  - intros [= <-]; exact HCI.
  - intros [= <-]; exact HCI.
Qed.

Lemma exec_msgs_CI ms c c' : CI c -> exec_msgs c ms = MOk c' -> CI c'.
Proof.
  revert c. induction ms as [|m ms IH]; cbn; intros c HCI; [intros [= <-]; exact HCI|].
  destruct (exec_msg c m) as [c1|] eqn:E; [|discriminate]. cbn. apply IH. eapply exec_msg_CI; eauto.
Qed.

Lemma deliver_tx_CI c tx : CI c -> CI (fst (deliver_tx c tx)).
Proof.
  intros HCI. unfold deliver_tx. destruct (cur_stk_decorator _ _); [exact HCI|]. destruct (cur_wd_decorator _ _); [exact HCI|].
  destruct (cur_comm_decorator _ _ _ _ _); try exact HCI.
  assert (Hb : CI (bump_seqs c (dedup (map msg_sender tx)))) by (apply CI_seqs; exact HCI).
  destruct (existsb is_tree tx); [exact Hb|].
  destruct (exec_msgs _ tx) as [c2|] eqn:E; [|exact Hb]. cbn. eapply exec_msgs_CI; eauto.
Qed.

Lemma deliver_txs_CI txs c : CI c -> CI (fst (deliver_txs c txs)).
Proof.
  revert c. induction txs as [|tx txs IH]; cbn; intros c HCI; [exact HCI|].
  pose proof (deliver_tx_CI c tx HCI) as H1. destruct (deliver_tx c tx) as [c1 o]. cbn in H1.
  specialize (IH c1 H1). destruct (deliver_txs c1 txs) as [c2 os]. exact IH.
Qed.

(* ---- BeginBlock: x/slashing's signature handling ---- *)
Lemma jail_same_ids s k s' : jail s k = Some s' -> same_ids_cons s s'.
Proof.
  unfold jail. destruct (by_cons s !! k) as [id|]; [|discriminate]. destruct (vals s !! id) as [v|] eqn:Hv; [|discriminate].
  destruct (v_jailed v); [discriminate|]. intros [= <-]. eapply same_ids_cons_insert; [exact Hv| |]. 2:{ unfold del_index, set_validator. cbn. reflexivity. } reflexivity.
Qed.

Lemma slash_CI c k p f c' : CI c -> slash c k p f = Some c' -> CI c'.
Proof.
  intros [HS HP] H. split; [eapply slash_SI; eauto|]. eapply PI_transfer; [exact HP| |eapply slash_same_ids; eauto].
  apply slash_frame in H as (_ & Hp & _). rewrite Hp. reflexivity.
Qed.

Lemma handle_signature_CI c k p sg c' : CI c -> handle_signature c k p sg = Some c' -> CI c'.
Proof.
  intros HCI. unfold handle_signature. destruct (by_cons (stk c) !! k) as [id|]; [|discriminate].
  destruct (vals (stk c) !! id) as [v|]; [|discriminate]. destruct (v_jailed v); [intros [= <-]; exact HCI|].
  destruct (infos (sl c) !! k) as [i|]; [|discriminate].
  destruct (if negb _ && negb sg then _ else _) as [bm' cnt].
  destruct (_ && _).
  - destruct (slash c k p _) as [c1|] eqn:Es; [|discriminate]. destruct (jail (stk c1) k) as [s2|] eqn:Ej; [|discriminate].
    intros [= <-]. apply CI_sl. pose proof (slash_CI _ _ _ _ _ HCI Es) as [HS1 HP1]. split.
    + cbn. eapply jail_SI; eauto.
    + eapply PI_transfer; [exact HP1|reflexivity|cbn; eapply jail_same_ids; eauto].
  - intros [= <-]. apply CI_sl. exact HCI.
Qed.

Lemma handle_votes_CI votes absent c c' : CI c -> handle_votes votes absent c = Some c' -> CI c'.
Proof.
  revert c. induction votes as [|[k p] vs IH]; cbn; intros c HCI; [intros [= <-]; exact HCI|].
  destruct (handle_signature c k p _) as [c1|] eqn:E; [|discriminate]. apply IH. eapply handle_signature_CI; eauto.
Qed.

Lemma poa_begin_block_CI c : CI c -> CI (poa_begin_block c).
Proof.
  intros [HS [A B C D]]. unfold poa_begin_block. destruct (1 <? height c); [|split; [exact HS|constructor; auto]].
  split; [exact HS|constructor; auto].
Qed.

Lemma handle_evidence_CI c e c' : CI c -> handle_evidence c e = Some c' -> CI c'.
Proof.
  intros HCI H. apply handle_evidence_cases in H as [->|(id & v & i & c1 & s2 & _ & _ & _ & _ & _ & _ & Es & Hj & ->)]; [exact HCI|].
  apply CI_sl. pose proof (slash_CI _ _ _ _ _ HCI Es) as [HS1 HP1]. destruct Hj as [[_ ->]|[_ Ej]].
  - split; [exact HS1|]. eapply PI_transfer; [exact HP1|reflexivity|apply same_ids_cons_refl].
  - split; [cbn; eapply jail_SI; eauto|]. eapply PI_transfer; [exact HP1|reflexivity|cbn; eapply jail_same_ids; eauto].
Qed.

Lemma handle_evidences_CI evs c c' : CI c -> handle_evidences evs c = Some c' -> CI c'.
Proof. apply (handle_evidences_preserves CI). intros; eapply handle_evidence_CI; eauto. Qed.

(* what an evidence entry leaves alone *)
Lemma jail_frame s k s' : jail s k = Some s' ->
  by_cons s' = by_cons s /\ last_pow s' = last_pow s /\ ubq s' = ubq s /\ params s' = params s /\ dels s' = dels s /\ last_total s' = last_total s.
Proof.
  unfold jail. destruct (by_cons s !! k) as [id|]; [|discriminate]. destruct (vals s !! id) as [v|]; [|discriminate].
  destruct (v_jailed v); [discriminate|]. intros [= <-]. repeat split.
Qed.

Definition ev_frame (c c' : chain) : Prop :=
  poa c' = poa c /\ seqs c' = seqs c /\ height c' = height c /\ now c' = now c /\
  by_cons (stk c') = by_cons (stk c) /\ last_pow (stk c') = last_pow (stk c) /\ ubq (stk c') = ubq (stk c) /\ params (stk c') = params (stk c) /\
  dels (stk c') = dels (stk c) /\ last_total (stk c') = last_total (stk c) /\ slparams (sl c') = slparams (sl c) /\ bitmaps (sl c') = bitmaps (sl c).

Lemma ev_frame_refl c : ev_frame c c.
Proof. repeat split. Qed.

Lemma ev_frame_trans a b d : ev_frame a b -> ev_frame b d -> ev_frame a d.
Proof. unfold ev_frame. intros H1 H2. intuition congruence. Qed.

Lemma handle_evidence_frame c e c' : handle_evidence c e = Some c' -> ev_frame c c'.
Proof.
  intros H. apply handle_evidence_cases in H as [->|(id & v & i & c1 & s2 & _ & _ & _ & _ & _ & _ & Es & Hj & ->)]; [apply ev_frame_refl|].
  pose proof (slash_frame _ _ _ _ _ Es) as (F1 & F2 & F3 & F4 & F5 & F6 & F7 & F8 & F9 & F10 & F11).
  destruct Hj as [[_ ->]|[_ Ej]].
  - unfold ev_frame. cbn. rewrite F1. repeat split; assumption.
  - apply jail_frame in Ej as (J1 & J2 & J3 & J4 & J5 & J6). unfold ev_frame. cbn. rewrite F1. repeat split; congruence.
Qed.

Lemma handle_evidences_frame evs c c' : handle_evidences evs c = Some c' -> ev_frame c c'.
Proof.
  apply (handle_evidences_rel ev_frame); [apply ev_frame_refl|apply ev_frame_trans|]. intros; eapply handle_evidence_frame; eauto.
Qed.

Lemma begin_block_CI c votes absent evs c' : CI c -> begin_block c votes absent evs = inl c' -> CI c'.
Proof.
  intros HCI. unfold begin_block. destruct (_ && _); [discriminate|].
  destruct (handle_votes votes absent c) as [c1|] eqn:E; [|discriminate].
  destruct (handle_evidences evs c1) as [c2|] eqn:E2; [|discriminate]. intros [= <-].
  apply poa_begin_block_CI. eapply handle_evidences_CI; [|exact E2]. eapply handle_votes_CI; eauto.
Qed.

(* ---- EndBlocker: state transitions keep CI ---- *)
Lemma bond_validator_CI c id v : CI c -> vals (stk c) !! id = Some v -> CI (fst (bond_validator c id v)).
Proof.
  intros [HS HP] Hv. unfold bond_validator. cbn.
  set (v' := set_status v Bonded).
  assert (Hr : SI (rekey (stk c) id v v')) by (apply SI_rekey; auto; cbn; eapply si_tok; eauto).
  split.
  - cbn. eapply SI_ext; [| | | |exact Hr]; unfold rekey, set_index, set_validator, del_index; cbn; destruct (v_jailed v); reflexivity.
  - eapply PI_transfer; [exact HP|reflexivity|]. cbn. eapply same_ids_cons_insert; [exact Hv| |]. 2:{ unfold set_index, set_validator, del_index. cbn. destruct (v_jailed v); reflexivity. } reflexivity.
Qed.

Lemma apply_loop_CI keys maxv a a' :
  CI (la_chain a) -> apply_loop keys maxv a = LDone a' -> CI (la_chain a').
Proof.
  revert a. induction keys as [|[p id] ks IH]; intros a HCI; cbn [apply_loop]; [intros [= <-]; exact HCI|].
  destruct (maxv <=? la_count a); [intros [= <-]; exact HCI|].
  destruct (vals (stk (la_chain a)) !! id) as [v|] eqn:Hv; [|discriminate].
  destruct (v_jailed v); [apply IH; exact HCI|].
  destruct (v_power v =? 0); [intros [= <-]; exact HCI|].
  set (r := match v_status v with Bonded => (la_chain a, v, 0) | _ => let '(c', v') := bond_validator (la_chain a) id v in (c', v', v_tokens v') end).
  assert (Hr : exists c1 v1 moved, r = (c1, v1, moved) /\ CI c1 /\ vals (stk c1) !! id = Some v1 /\ v_status v1 = Bonded).
  { subst r. pose proof (bond_validator_CI _ id v HCI Hv) as Hb. pose proof (bond_validator_vals (la_chain a) id v) as (H1 & H2 & _).
    destruct (v_status v) eqn:Es.
    - destruct (bond_validator (la_chain a) id v) as [c' v'']. cbn in *. subst v''. do 3 eexists. split; [reflexivity|]. split; [exact Hb|]. rewrite H1, lookup_insert. auto.
    - destruct (bond_validator (la_chain a) id v) as [c' v'']. cbn in *. subst v''. do 3 eexists. split; [reflexivity|]. split; [exact Hb|]. rewrite H1, lookup_insert. auto.
    - do 3 eexists. split; [reflexivity|]. auto. }
  destruct Hr as (c1 & v1 & moved & -> & HCI1 & Hv1 & Hs1). cbn zeta.
  apply IH. cbn [la_chain].
  destruct (match la_last a !! id with Some old => negb (old =? v_power v1) | None => true end); [|exact HCI1].
  destruct HCI1 as [[S1 S2 S3 S4 S5 S6] [P1 P2 P3 P4]]. split; [constructor; auto|constructor; auto].
  intros i q. cbn. destruct (decide (i = id)) as [->|Hne]; [intros _; eauto|]. rewrite lookup_insert_ne by auto. apply S4.
Qed.

Lemma unbond_loop_CI ids a a' :
  CI (la_chain a) -> unbond_loop ids a = LDone a' -> CI (la_chain a').
Proof.
  revert a. induction ids as [|id rest IH]; intros a HCI; cbn [unbond_loop]; [intros [= <-]; exact HCI|].
  destruct (vals (stk (la_chain a)) !! id) as [v|] eqn:Hv; [|discriminate].
  destruct (negb (status_eqb (v_status v) Bonded)); [discriminate|].
  destruct (begin_unbonding (la_chain a) id v) as [c1 v1] eqn:Eb. apply IH. cbn [la_chain].
  (* the step: re-key to the unbonding record and drop the validator from the last set *)
  destruct HCI as [HS HP].
  set (v' := set_unbonding v (height (la_chain a)) (now (la_chain a) + sp_unbonding_time (params (stk (la_chain a))) / 1000000000)).
  assert (Hc1 : vals (stk c1) = <[id := v']> (vals (stk (la_chain a))) /\ pidx (stk c1) = pidx (rekey (stk (la_chain a)) id v v') /\
                last_pow (stk c1) = last_pow (stk (la_chain a)) /\ by_cons (stk c1) = by_cons (stk (la_chain a)) /\ poa c1 = poa (la_chain a)).
  { unfold begin_unbonding in Eb. inversion Eb; subst. cbn. unfold rekey, set_index, set_validator, del_index. cbn. destruct (v_jailed v); repeat split. }
  destruct Hc1 as (Hvals & Hpidx & Hlp & Hbc & Hpoa).
  destruct (rekey_sound (stk (la_chain a)) id v v' (si_sound _ HS) (si_unique _ HS) Hv) as [Hs' Hu'].
  set (s1 := st_last_pow (stk c1) (delete id (last_pow (stk c1)))).
  assert (E1 : vals s1 = <[id := v']> (vals (stk (la_chain a)))) by exact Hvals.
  assert (E2 : pidx s1 = pidx (rekey (stk (la_chain a)) id v v')) by exact Hpidx.
  assert (E3 : last_pow s1 = delete id (last_pow (stk (la_chain a)))) by (unfold s1; cbn; rewrite Hlp; reflexivity).
  assert (E4 : by_cons s1 = by_cons (stk (la_chain a))) by exact Hbc.
  change (CI (with_stk c1 s1)). split.
  - change (SI s1). constructor.
    + intros p i Hin. rewrite E2 in Hin. rewrite E1. rewrite <- (rekey_vals _ id v v'). apply Hs'; exact Hin.
    + unfold idx_unique. rewrite E2. exact Hu'.
    + eapply cons_inj_insert with (s := stk (la_chain a)) (v := v) (v' := v'); [apply HS|exact Hv|reflexivity|exact E1].
    + intros i q. rewrite E3. intros Hl. apply lookup_delete_Some in Hl as [Hne Hl].
      destruct (si_last _ HS i q Hl) as (vi & Hvi & Hsi). exists vi. rewrite E1, lookup_insert_ne by auto. auto.
    + eapply tokens_nonneg_insert with (s := stk (la_chain a)) (v' := v'); [apply HS| |exact E1]. cbn. eapply si_tok; eauto.
    + intros i vi. rewrite E1, E4. destruct (decide (i = id)) as [->|Hne].
      * rewrite lookup_insert. intros [= <-]. cbn. apply (si_bycons _ HS); exact Hv.
      * rewrite lookup_insert_ne by auto. apply (si_bycons _ HS).
  - eapply PI_transfer; [exact HP|cbn; rewrite Hpoa; reflexivity|]. cbn. eapply same_ids_cons_insert; [exact Hv| |exact E1]. reflexivity.
Qed.

Lemma apply_valset_updates_CI c c' upd : CI c -> apply_valset_updates c = EBOk c' upd -> CI c'.
Proof.
  intros HCI. unfold apply_valset_updates.
  destruct (apply_loop _ _ _) as [a1|] eqn:E1; [|discriminate].
  destruct (unbond_loop _ a1) as [a2|] eqn:E2; [|discriminate].
  assert (H1 : CI (la_chain a1)) by (eapply apply_loop_CI; [|exact E1]; exact HCI).
  pose proof (unbond_loop_CI _ _ _ H1 E2) as H2.
  destruct (if la_to_bonded a2 =? 0 then _ else _) as [b|]; [|discriminate]. intros [= <- _].
  assert (H3 : CI (with_bk (la_chain a2) b)) by (apply CI_bk; exact H2).
  destruct (la_upd a2); [exact H3|]. destruct H3 as [[S1 S2 S3 S4 S5 S6] [P1 P2 P3 P4]]. split; constructor; auto.
Qed.

(* ---- UnbondAllMatureValidators ---- *)
Lemma mature_ids_CI ids c c' : CI c -> mature_ids ids c = Some c' -> CI c'.
Proof.
  revert c. induction ids as [|id rest IH]; cbn [mature_ids]; intros c HCI; [intros [= <-]; exact HCI|].
  destruct (vals (stk c) !! id) as [v|] eqn:Hv; [|discriminate].
  destruct (status_eqb (v_status v) Unbonding) eqn:Est; cbn [negb]; [|discriminate].
  set (v' := set_status v Unbonded).
  set (s1 := set_validator (stk c) id v').
  destruct HCI as [HS HP].
  assert (Hnotlast : last_pow (stk c) !! id = None).
  { destruct (last_pow (stk c) !! id) as [q|] eqn:El; [|reflexivity]. destruct (si_last _ HS id q El) as (vi & Hvi & Hsi).
    rewrite Hv in Hvi. inversion Hvi; subst. rewrite Hsi in Est. discriminate. }
  assert (HS1 : SI s1).
  { constructor.
    - intros p i Hin. unfold s1, set_validator. cbn. destruct (decide (i = id)) as [->|Hne].
      + rewrite lookup_insert. destruct (si_sound _ HS p id Hin) as (v0 & Hv0 & Hj & Hp). rewrite Hv in Hv0. inversion Hv0; subst. exists v'. auto.
      + rewrite lookup_insert_ne by auto. apply (si_sound _ HS); exact Hin.
    - exact (si_unique _ HS).
    - eapply cons_inj_insert with (v := v) (v' := v'); [apply HS|exact Hv|reflexivity|reflexivity].
    - intros i q Hl. unfold s1, set_validator in Hl. cbn in Hl. destruct (si_last _ HS i q Hl) as (vi & Hvi & Hsi).
      assert (i <> id) by (intros ->; congruence). exists vi. unfold s1, set_validator. cbn. rewrite lookup_insert_ne by auto. auto.
    - eapply tokens_nonneg_insert with (v' := v'); [apply HS| |reflexivity]. cbn. eapply si_tok; eauto.
    - intros i vi. unfold s1, set_validator. cbn. destruct (decide (i = id)) as [->|Hne].
      + rewrite lookup_insert. intros [= <-]. cbn. apply (si_bycons _ HS); exact Hv.
      + rewrite lookup_insert_ne by auto. apply (si_bycons _ HS). }
  assert (HP1 : PI (with_stk c s1)).
  { eapply PI_transfer; [exact HP|reflexivity|]. cbn. eapply same_ids_cons_insert; [exact Hv| |reflexivity]. reflexivity. }
  destruct (v_shares v' =? 0).
  - destruct (0 <? v_tokens v'); [discriminate|]. cbn zeta.
    set (s2 := st_pidx (st_by_cons (st_vals s1 (delete id (vals s1))) (delete (v_cons v') (by_cons s1))) (pidx_del (v_power v', id) (pidx s1))).
    apply IH.
    assert (Hv1 : vals s1 !! id = Some v') by (unfold s1, set_validator; cbn; apply lookup_insert).
    split.
    + cbn. constructor.
      * intros p i Hin. cbn in Hin. apply in_pidx_del in Hin as [Hin Hne]. cbn.
        destruct (decide (i = id)) as [->|Hni]; [exfalso; apply Hne; f_equal; eapply owned_key; [apply HS1|exact Hv1|exact Hin]|].
        rewrite lookup_delete_ne by auto. apply (si_sound _ HS1); exact Hin.
      * unfold idx_unique. cbn. apply pidx_del_nodup. apply (si_unique _ HS1).
      * intros i j vi vj. cbn. intros Hi Hj. apply lookup_delete_Some in Hi as [_ Hi]. apply lookup_delete_Some in Hj as [_ Hj]. eapply (si_cons _ HS1); eauto.
      * intros i q. cbn. intros Hl. destruct (si_last _ HS1 i q Hl) as (vi & Hvi & Hsi).
        assert (i <> id) by (intros ->; unfold s1, set_validator in Hl; cbn in Hl; congruence). exists vi. rewrite lookup_delete_ne by auto. auto.
      * intros i vi. cbn. intros Hi. apply lookup_delete_Some in Hi as [_ Hi]. eapply (si_tok _ HS1); eauto.
      * intros i vi. cbn. intros Hi. apply lookup_delete_Some in Hi as [Hne Hi].
        rewrite lookup_delete_ne; [apply (si_bycons _ HS1); exact Hi|].
        intros Heq. apply Hne. symmetry. eapply (si_cons _ HS1); [exact Hi|exact Hv1|]. cbn. cbn in Heq. congruence.
    + destruct HP1 as [A B C D]. constructor; cbn; auto.
      * intros p Hin. destruct (decide (p_oper p = id)) as [->|Hne]; [apply lookup_delete|]. rewrite lookup_delete_ne by auto. apply C; exact Hin.
      * intros p i vi Hin Hi. apply lookup_delete_Some in Hi as [_ Hi]. eapply D; eauto.
  - cbn zeta. apply IH. split; [eapply SI_ext; [| | | |exact HS1]; reflexivity|]. destruct HP1 as [A B C D]. constructor; auto.
Qed.

Lemma mature_slots_CI slots c c' : CI c -> mature_slots slots c = Some c' -> CI c'.
Proof.
  revert c. induction slots as [|[[t h] ids] rest IH]; cbn [mature_slots]; intros c HCI; [intros [= <-]; exact HCI|].
  destruct (_ && _); [|apply IH; exact HCI].
  destruct (mature_ids ids c) as [c1|] eqn:E; [|discriminate]. apply IH. eapply mature_ids_CI; eauto.
Qed.

Lemma staking_end_block_CI c c' upd : CI c -> staking_end_block c = EBOk c' upd -> CI c'.
Proof.
  intros HCI. unfold staking_end_block. destruct (apply_valset_updates c) as [c1 u|] eqn:E1; [|discriminate].
  destruct (unbond_all_mature c1) as [c2|] eqn:E2; [|discriminate]. intros [= <- _].
  unfold unbond_all_mature in E2. eapply mature_slots_CI; [|exact E2]. eapply apply_valset_updates_CI; eauto.
Qed.
