(* Inv.v — the loop invariant of x/staking's ApplyAndReturnValidatorSetUpdates over the PoA-managed
   store, for index sets of any size:
     - under the index invariant (every index entry belongs to a non-jailed validator record, one entry per
       validator) the EndBlocker never meets a missing record or a bad state transition;
     - the validator updates it returns carry pairwise distinct consensus keys (CometBFT's "duplicate entry"
       refusal is impossible), every zero-power update concerns a validator of the last set, and no power is
       negative. *)
From stdpp Require Import gmap.
Require Import Model.Base Model.Validate Model.State Model.Staking.
Open Scope Z_scope.

(* ---- invariants of the staking store ---- *)
Definition idx_sound (s : staking) : Prop :=
  forall p id, In (p, id) (pidx s) -> exists v, vals s !! id = Some v /\ v_jailed v = false /\ p = v_power v.
Definition idx_unique (s : staking) : Prop := List.NoDup (map snd (pidx s)).
(* distinct validator records carry distinct consensus keys *)
Definition cons_inj (s : staking) : Prop :=
  forall i j vi vj, vals s !! i = Some vi -> vals s !! j = Some vj -> v_cons vi = v_cons vj -> i = j.
(* every member of the last validator set has a record and is bonded *)
Definition last_bonded (s : staking) : Prop :=
  forall id p, last_pow s !! id = Some p -> exists v, vals s !! id = Some v /\ v_status v = Bonded.
Definition tokens_nonneg (s : staking) : Prop := forall id v, vals s !! id = Some v -> 0 <= v_tokens v.

Lemma nodup_snoc {A} (l : list A) (x : A) : ~ In x l -> List.NoDup l -> List.NoDup (l ++ [x]).
Proof.
  induction l as [|y l IH]; cbn; intros Hn Hd.
  - constructor; [intros []|constructor].
  - inversion Hd; subst. constructor.
    + rewrite in_app_iff. cbn. intros [H|[H|[]]]; [contradiction|]. subst. apply Hn. left; reflexivity.
    + apply IH; auto.
Qed.

(* ---- bond_validator / begin_unbonding: what they do to the record map ---- *)
Lemma bond_validator_vals c id v :
  vals (stk (fst (bond_validator c id v))) = <[id := set_status v Bonded]> (vals (stk c)) /\
  snd (bond_validator c id v) = set_status v Bonded /\
  last_pow (stk (fst (bond_validator c id v))) = last_pow (stk c).
Proof.
  unfold bond_validator. cbn. unfold set_index, del_index, set_validator. destruct (v_jailed (set_status v Bonded)); cbn; auto.
Qed.

Lemma begin_unbonding_vals c id v :
  exists v', snd (begin_unbonding c id v) = v' /\ v_cons v' = v_cons v /\ v_tokens v' = v_tokens v /\
  vals (stk (fst (begin_unbonding c id v))) = <[id := v']> (vals (stk c)) /\
  last_pow (stk (fst (begin_unbonding c id v))) = last_pow (stk c).
Proof.
  unfold begin_unbonding. cbn. eexists. split; [reflexivity|]. cbn. unfold set_index, del_index, set_validator.
  destruct (v_jailed _); cbn; auto.
Qed.

(* ---- loop state invariant ---- *)
Record loop_inv (keys : list (Z * Z)) (a : loop_acc) : Prop := {
  li_keys_have_records : forall p id, In (p, id) keys -> is_Some (vals (stk (la_chain a)) !! id);
  li_keys_nodup : List.NoDup (map snd keys);
  li_cons_inj : cons_inj (stk (la_chain a));
  li_last_bonded : forall id p, la_last a !! id = Some p -> exists v, vals (stk (la_chain a)) !! id = Some v /\ v_status v = Bonded;
  li_upd_nodup : List.NoDup (map fst (la_upd a));
  (* every update emitted so far belongs to a record that is neither among the remaining keys nor in the shrinking copy *)
  li_upd_owner : forall k p, In (k, p) (la_upd a) ->
      exists id v, vals (stk (la_chain a)) !! id = Some v /\ v_cons v = k /\ ~ In id (map snd keys) /\ la_last a !! id = None;
  li_upd_nonneg : forall k p, In (k, p) (la_upd a) -> 0 <= p;
  li_tokens : tokens_nonneg (stk (la_chain a))
}.

Lemma tokens_to_power_nonneg t : 0 <= t -> 0 <= tokens_to_power t.
Proof. intros H. unfold tokens_to_power, power_reduction. apply Z.div_pos; lia. Qed.

Lemma cons_inj_insert_same_cons s id v v' :
  cons_inj s -> vals s !! id = Some v -> v_cons v' = v_cons v ->
  forall m, m = <[id := v']> (vals s) ->
  forall i j vi vj, m !! i = Some vi -> m !! j = Some vj -> v_cons vi = v_cons vj -> i = j.
Proof.
  intros Hinj Hv Hc m -> i j vi vj Hi Hj Heq.
  destruct (decide (i = id)) as [->|Hni], (decide (j = id)) as [->|Hnj]; auto.
  - rewrite lookup_insert in Hi. rewrite lookup_insert_ne in Hj by auto. inversion Hi; subst.
    eapply Hinj; eauto. congruence.
  - rewrite lookup_insert in Hj. rewrite lookup_insert_ne in Hi by auto. inversion Hj; subst.
    eapply Hinj; eauto. congruence.
  - rewrite lookup_insert_ne in Hi, Hj by auto. eapply Hinj; eauto.
Qed.

(* ---- the main loop never halts and keeps the invariant ---- *)
Lemma apply_loop_inv keys maxv a :
  loop_inv keys a ->
  exists a', apply_loop keys maxv a = LDone a' /\ loop_inv [] a'.
Proof.
  revert a. induction keys as [|[p id] ks IH]; intros a Hinv.
  - cbn. exists a. split; [reflexivity|exact Hinv].
  - cbn [apply_loop].
    assert (Hdrop : loop_inv [] a).
    { destruct Hinv. constructor; auto.
      - intros ? ? [].
      - constructor.
      - intros k q Hin. destruct (li_upd_owner0 k q Hin) as (i & v & ? & ? & ? & ?). exists i, v. repeat split; auto. }
    destruct (maxv <=? la_count a); [exists a; split; [reflexivity|exact Hdrop]|].
    destruct (li_keys_have_records _ _ Hinv p id (or_introl eq_refl)) as [v Hv]. rewrite Hv.
    assert (Hks_nodup : List.NoDup (map snd ks)) by (pose proof (li_keys_nodup _ _ Hinv) as H; cbn in H; inversion H; assumption).
    assert (Hid_notin : ~ In id (map snd ks)) by (pose proof (li_keys_nodup _ _ Hinv) as H; cbn in H; inversion H; assumption).
    destruct (v_jailed v) eqn:Hj.
    { (* continue *)
      apply IH. destruct Hinv. constructor; auto.
      - intros q i Hin. apply (li_keys_have_records0 q i). right; exact Hin.
      - intros k q Hin. destruct (li_upd_owner0 k q Hin) as (i & vi & ? & ? & Hn & ?). exists i, vi. repeat split; auto.
        intros Hc. apply Hn. cbn. right; exact Hc. }
    destruct (v_power v =? 0); [exists a; split; [reflexivity|exact Hdrop]|].
    (* bond if necessary *)
    set (r := match v_status v with Bonded => (la_chain a, v, 0) | _ => let '(c', v') := bond_validator (la_chain a) id v in (c', v', v_tokens v') end).
    assert (Hr : exists c1 v1 moved, r = (c1, v1, moved) /\ v_cons v1 = v_cons v /\ v_tokens v1 = v_tokens v /\ v_status v1 = Bonded /\
                 vals (stk c1) = <[id := v1]> (vals (stk (la_chain a))) /\ last_pow (stk c1) = last_pow (stk (la_chain a))).
    { subst r. destruct (v_status v) eqn:Es.
      - destruct (bond_validator (la_chain a) id v) as [c' v'] eqn:Eb.
        pose proof (bond_validator_vals (la_chain a) id v) as (H1 & H2 & H3). rewrite Eb in H1, H2, H3. cbn in *. subst v'.
        exists c', (set_status v Bonded), (v_tokens (set_status v Bonded)). repeat split; auto.
      - destruct (bond_validator (la_chain a) id v) as [c' v'] eqn:Eb.
        pose proof (bond_validator_vals (la_chain a) id v) as (H1 & H2 & H3). rewrite Eb in H1, H2, H3. cbn in *. subst v'.
        exists c', (set_status v Bonded), (v_tokens (set_status v Bonded)). repeat split; auto.
      - exists (la_chain a), v, 0. repeat split; auto. rewrite insert_id; auto. }
    destruct Hr as (c1 & v1 & moved & -> & Hc1 & Ht1 & Hs1 & Hvals1 & Hlast1).
    cbn zeta.
    set (pw := v_power v1).
    set (changed := match la_last a !! id with Some old => negb (old =? pw) | None => true end).
    set (c2 := if changed then with_stk c1 (st_last_pow (stk c1) (<[id := pw]> (last_pow (stk c1)))) else c1).
    assert (Hvals2 : vals (stk c2) = <[id := v1]> (vals (stk (la_chain a)))).
    { subst c2. destruct changed; cbn; exact Hvals1. }
    apply IH.
    assert (Hinj2 : cons_inj (stk c2)).
    { unfold cons_inj. rewrite Hvals2. eapply cons_inj_insert_same_cons; [exact (li_cons_inj _ _ Hinv)|exact Hv|exact Hc1|reflexivity]. }
    destruct Hinv. constructor; cbn [la_chain la_last la_upd la_count la_total la_to_bonded]; auto.
    + intros q i Hin. rewrite Hvals2. destruct (decide (i = id)) as [->|Hne]; [rewrite lookup_insert; eauto|].
      rewrite lookup_insert_ne by auto. apply (li_keys_have_records0 q i). right; exact Hin.
    + intros i q Hl. apply lookup_delete_Some in Hl as [Hne Hl]. destruct (li_last_bonded0 i q Hl) as (vi & Hvi & Hsi).
      exists vi. rewrite Hvals2, lookup_insert_ne by auto. auto.
    + (* no duplicate consensus key *)
      destruct changed; [|exact li_upd_nodup0].
      rewrite map_app. cbn. apply nodup_snoc; [|exact li_upd_nodup0].
      intros Hin. apply in_map_iff in Hin as ([k q] & Hk & Hin). cbn in Hk. subst k.
      destruct (li_upd_owner0 _ _ Hin) as (i & vi & Hvi & Hci & Hni & _).
      assert (i = id). { eapply li_cons_inj0; eauto. congruence. }
      subst i. apply Hni. cbn. left; reflexivity.
    + intros k q Hin.
      assert (Hold : In (k, q) (la_upd a) -> exists i vi, vals (stk c2) !! i = Some vi /\ v_cons vi = k /\ ~ In i (map snd ks) /\ delete id (la_last a) !! i = None).
      { intros Hin'. destruct (li_upd_owner0 _ _ Hin') as (i & vi & Hvi & Hci & Hni & Hli).
        assert (i <> id) by (intros ->; apply Hni; cbn; left; reflexivity).
        exists i, vi. rewrite Hvals2, lookup_insert_ne by auto. repeat split; auto.
        - intros Hc. apply Hni. cbn. right; exact Hc.
        - rewrite lookup_delete_ne by auto. exact Hli. }
      destruct changed; [|exact (Hold Hin)].
      apply in_app_or in Hin as [Hin|[Heq|[]]]; [exact (Hold Hin)|]. inversion Heq; subst k q.
      exists id, v1. rewrite Hvals2, lookup_insert. repeat split; auto. apply lookup_delete.
    + intros k q Hin. destruct changed; [|eauto]. apply in_app_or in Hin as [Hin|[Heq|[]]]; [eauto|].
      inversion Heq; subst. unfold pw, v_power. apply tokens_to_power_nonneg. rewrite Ht1. eapply li_tokens0; eauto.
    + intros i vi. rewrite Hvals2. destruct (decide (i = id)) as [->|Hne].
      * rewrite lookup_insert. intros [= <-]. rewrite Ht1. eapply li_tokens0; eauto.
      * rewrite lookup_insert_ne by auto. apply li_tokens0.
Qed.

(* ---- the unbonding loop over the rest of the last set ---- *)
Lemma unbond_loop_inv ids a (done : list Z) :
  List.NoDup ids ->
  (forall id, In id ids -> exists p, la_last a !! id = Some p) ->
  (forall id, In id ids -> exists v, vals (stk (la_chain a)) !! id = Some v /\ v_status v = Bonded) ->
  cons_inj (stk (la_chain a)) ->
  List.NoDup (map fst (la_upd a)) ->
  (* owners of the updates emitted so far are not among the ids still to process *)
  (forall k p, In (k, p) (la_upd a) -> exists id v, vals (stk (la_chain a)) !! id = Some v /\ v_cons v = k /\ ~ In id ids) ->
  (forall k p, In (k, p) (la_upd a) -> 0 <= p) ->
  exists a', unbond_loop ids a = LDone a' /\ List.NoDup (map fst (la_upd a')) /\ (forall k p, In (k, p) (la_upd a') -> 0 <= p) /\
             (* zero-power updates added here concern members of the last validator set *)
             (forall k p, In (k, p) (la_upd a') -> In (k, p) (la_upd a) \/ (p = 0 /\ exists id v, In id ids /\ vals (stk (la_chain a)) !! id = Some v /\ v_cons v = k)).
Proof.
  revert a. induction ids as [|id rest IH]; intros a Hnd Hlast Hb Hinj Hupd Hown Hnn.
  - cbn. exists a. repeat split; auto.
  - cbn [unbond_loop]. destruct (Hb id (or_introl eq_refl)) as (v & Hv & Hs). rewrite Hv, Hs. cbn [status_eqb negb].
    destruct (begin_unbonding (la_chain a) id v) as [c1 v1] eqn:Eb.
    pose proof (begin_unbonding_vals (la_chain a) id v) as (v' & Hsnd & Hc' & Ht' & Hvals' & Hlp'). rewrite Eb in Hsnd, Hvals', Hlp'. cbn in Hsnd, Hvals', Hlp'. subst v'.
    inversion Hnd as [|? ? Hnotin Hnd']; subst.
    set (a1 := {| la_chain := with_stk c1 (st_last_pow (stk c1) (delete id (last_pow (stk c1)))); la_last := la_last a;
                  la_upd := la_upd a ++ [(v_cons v1, 0)]; la_count := la_count a; la_total := la_total a;
                  la_to_bonded := la_to_bonded a - v_tokens v1 |}).
    assert (Hvals1 : vals (stk (la_chain a1)) = <[id := v1]> (vals (stk (la_chain a)))) by (cbn; exact Hvals').
    destruct (IH a1) as (a' & Hrun & Hnd2 & Hnn2 & Hsrc).
    + exact Hnd'.
    + intros i Hi. cbn. apply Hlast. right; exact Hi.
    + intros i Hi. rewrite Hvals1. assert (i <> id) by (intros ->; contradiction).
      rewrite lookup_insert_ne by auto. apply Hb. right; exact Hi.
    + unfold cons_inj. rewrite Hvals1. eapply cons_inj_insert_same_cons; [exact Hinj|exact Hv|exact Hc'|reflexivity].
    + cbn. rewrite map_app. cbn. apply nodup_snoc; [|exact Hupd].
      intros Hin. apply in_map_iff in Hin as ([k q] & Hk & Hin). cbn in Hk. subst k.
      destruct (Hown _ _ Hin) as (i & vi & Hvi & Hci & Hni).
      assert (i = id) by (eapply Hinj; eauto; congruence). subst i. apply Hni. left; reflexivity.
    + intros k q Hin. cbn in Hin. apply in_app_or in Hin as [Hin|[Heq|[]]].
      * destruct (Hown _ _ Hin) as (i & vi & Hvi & Hci & Hni).
        assert (i <> id) by (intros ->; apply Hni; left; reflexivity).
        exists i, vi. rewrite Hvals1, lookup_insert_ne by auto. repeat split; auto. intros Hc. apply Hni. right; exact Hc.
      * inversion Heq; subst. exists id, v1. rewrite Hvals1, lookup_insert. repeat split; auto.
    + intros k q Hin. cbn in Hin. apply in_app_or in Hin as [Hin|[Heq|[]]]; [eauto|]. inversion Heq; lia.
    + exists a'. split; [exact Hrun|]. split; [exact Hnd2|]. split; [exact Hnn2|].
      intros k q Hin. destruct (Hsrc k q Hin) as [Hold|(Hz & i & vi & Hi & Hvi & Hci)].
      * cbn in Hold. apply in_app_or in Hold as [Hold|[Heq|[]]]; [left; exact Hold|].
        inversion Heq; subst. right. split; [reflexivity|]. exists id, v. repeat split; auto. left; reflexivity.
      * right. split; [exact Hz|]. assert (i <> id) by (intros ->; contradiction).
        rewrite Hvals1, lookup_insert_ne in Hvi by auto. exists i, vi. repeat split; auto. right; exact Hi.
Qed.

(* ---- sorting is a permutation ---- *)
Lemma insert_by_perm {A} (le : A -> A -> bool) x l : Permutation (insert_by le x l) (x :: l).
Proof.
  induction l as [|y l IH]; cbn; [reflexivity|]. destruct (le x y); [reflexivity|].
  rewrite IH. apply perm_swap.
Qed.
Lemma sort_by_perm {A} (le : A -> A -> bool) l : Permutation (sort_by le l) l.
Proof.
  induction l as [|x l IH]; cbn; [reflexivity|]. unfold sort_by in *. cbn. rewrite insert_by_perm. constructor. exact IH.
Qed.

Lemma map_fmap {A B} (f : A -> B) l : map f l = f <$> l.
Proof. induction l; cbn; congruence. Qed.

Lemma sorted_keys_spec (m : gmap Z Z) : List.NoDup (sorted_keys m) /\ forall id, In id (sorted_keys m) <-> is_Some (m !! id).
Proof.
  unfold sorted_keys. split.
  - eapply Permutation_NoDup; [symmetry; apply sort_by_perm|]. rewrite map_fmap. apply NoDup_ListNoDup. apply NoDup_fst_map_to_list.
  - intros id. rewrite (Permutation_in' eq_refl (sort_by_perm Z.leb _)). rewrite map_fmap. rewrite <- elem_of_list_In, elem_of_list_fmap. split.
    + intros ([k v] & -> & Hin). apply elem_of_map_to_list in Hin. cbn. eauto.
    + intros [v Hv]. exists (id, v). split; [reflexivity|]. apply elem_of_map_to_list. exact Hv.
Qed.

(* ---- ApplyAndReturnValidatorSetUpdates ---- *)
Definition updates_wellformed (last : gmap Z Z) (vals0 : gmap Z validator) (upd : list (Z * Z)) : Prop :=
  List.NoDup (map fst upd) /\ (forall k p, In (k, p) upd -> 0 <= p).

Theorem apply_valset_updates_safe c :
  idx_sound (stk c) -> idx_unique (stk c) -> cons_inj (stk c) -> last_bonded (stk c) -> tokens_nonneg (stk c) ->
  match apply_valset_updates c with
  | EBHalt e => e = 4                         (* only the pool transfer can fail, never a missing record or a bad transition *)
  | EBOk _ upd => List.NoDup (map fst upd) /\ (forall k p, In (k, p) upd -> 0 <= p)
  end.
Proof.
  intros Hsound Huniq Hinj Hlast Htok. unfold apply_valset_updates.
  set (keys := sort_by pidx_le (pidx (stk c))).
  set (a0 := {| la_chain := c; la_last := last_pow (stk c); la_upd := []; la_count := 0; la_total := 0; la_to_bonded := 0 |}).
  assert (Hinv0 : loop_inv keys a0).
  { constructor; cbn.
    - intros p id Hin. apply (Permutation_in _ (sort_by_perm pidx_le _)) in Hin. destruct (Hsound p id Hin) as (v & Hv & _). eauto.
    - eapply Permutation_NoDup; [|exact Huniq]. apply Permutation_map. symmetry. apply sort_by_perm.
    - exact Hinj.
    - exact Hlast.
    - constructor.
    - intros ? ? [].
    - intros ? ? [].
    - exact Htok. }
  destruct (apply_loop_inv keys (sp_max_validators (params (stk c))) a0 Hinv0) as (a1 & -> & Hinv1).
  destruct (sorted_keys_spec (la_last a1)) as [Hnd Hmem].
  destruct (unbond_loop_inv (sorted_keys (la_last a1)) a1 [] Hnd) as (a2 & -> & Hnd2 & Hnn2 & _).
  - intros id Hin. apply Hmem in Hin as [p Hp]. eauto.
  - intros id Hin. apply Hmem in Hin as [p Hp]. eapply (li_last_bonded _ _ Hinv1); eauto.
  - exact (li_cons_inj _ _ Hinv1).
  - exact (li_upd_nodup _ _ Hinv1).
  - intros k p Hin. destruct (li_upd_owner _ _ Hinv1 k p Hin) as (id & v & Hv & Hc & _ & Hl). exists id, v. repeat split; auto.
    intros Hc2. apply Hmem in Hc2 as [q Hq]. congruence.
  - exact (li_upd_nonneg _ _ Hinv1).
  - destruct (if la_to_bonded a2 =? 0 then _ else _); [|reflexivity]. split; assumption.
Qed.
