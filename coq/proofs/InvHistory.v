(* InvHistory.v — the chain invariant holds at genesis and after every block of every history; corollaries for
   every block: x/staking's EndBlocker never meets a missing record or a bad transition, and CometBFT never
   refuses the returned updates for a duplicate key or a negative power. *)
From stdpp Require Import gmap.
Require Import Model.Base Model.Ante Model.Validate Model.Current Model.State Model.Staking Model.Slashing Model.Poa Model.App.
Require Import proofs.EvBasic proofs.Inv proofs.InvIdx proofs.InvPres proofs.InvMsgs.
Open Scope Z_scope.

Definition wf_genesis (g : genesis) : Prop := Forall (fun t => 0 <= t) (g_tokens g).

(* ---- genesis ---- *)
Lemma enumerate_from_fst i l : map fst (enumerate_from i l) = map (fun k => i + Z.of_nat k) (seq 0 (length l)).
Proof.
  revert i. induction l as [|x l IH]; intros i; cbn; [reflexivity|]. f_equal; [lia|].
  rewrite IH. rewrite <- seq_shift, map_map. apply map_ext. intros k. lia.
Qed.

Lemma enumerate_from_nodup i l : List.NoDup (map fst (enumerate_from i l)).
Proof.
  rewrite enumerate_from_fst. apply FinFun.Injective_map_NoDup; [|apply seq_NoDup]. intros a b H. lia.
Qed.

Lemma enumerate_from_snd i l : map snd (enumerate_from i l) = l.
Proof. revert i. induction l as [|x l IH]; intros i; cbn; [reflexivity|]. f_equal. apply IH. Qed.

Lemma list_to_map_lookup {A} (l : list (Z * A)) k v :
  List.NoDup (map fst l) -> In (k, v) l -> (list_to_map l : gmap Z A) !! k = Some v.
Proof.
  intros Hnd Hin. apply elem_of_list_to_map_1.
  - rewrite <- map_fmap. apply NoDup_ListNoDup. exact Hnd.
  - apply elem_of_list_In. exact Hin.
Qed.

Lemma list_to_map_lookup_inv {A} (l : list (Z * A)) k v : (list_to_map l : gmap Z A) !! k = Some v -> In (k, v) l.
Proof. intros H. apply elem_of_list_to_map_2 in H. apply elem_of_list_In. exact H. Qed.

Definition genesis_chain (g : genesis) : chain :=
  let vs := enumerate_from 0 (g_tokens g) in
  {| height := 0; now := 0;
     stk := {| vals := list_to_map (map (fun p => (fst p, set_status (genesis_validator (fst p) (snd p)) Unbonded)) vs);
               by_cons := list_to_map (map (fun p => (fst p, fst p)) vs);
               pidx := map (fun p => (tokens_to_power (snd p), fst p)) vs;
               last_pow := ∅; last_total := 0;
               dels := list_to_map (map (fun p => (fst p, snd p * dec_one)) vs);
               ubq := ∅; params := default_params g |};
     sl := {| infos := ∅; bitmaps := ∅;
              slparams := {| slp_window := g_window g; slp_min_signed_pc := g_min_signed_pc g; slp_jail := g_jail_secs g;
                             slp_slash_down_bp := g_slash_down_bp g; slp_slash_dbl_bp := g_slash_dbl_bp g |} |};
     bk := {| bonded_pool := 0; notbonded_pool := fold_right (fun p acc => snd p + acc) 0 vs; supply := n_accounts * account_funds |};
     poa := {| pending := []; cached_power := 0; abs_changed := 0 |};
     seqs := ∅ |}.

Lemma genesis_chain_CI g : wf_genesis g -> CI (genesis_chain g).
Proof.
  intros Hwf. set (vs := enumerate_from 0 (g_tokens g)).
  assert (Hnd : List.NoDup (map fst vs)) by apply enumerate_from_nodup.
  assert (Hvals : forall id v, vals (stk (genesis_chain g)) !! id = Some v ->
                    exists t, In (id, t) vs /\ v = set_status (genesis_validator id t) Unbonded).
  { intros id v H. apply list_to_map_lookup_inv in H. apply in_map_iff in H as ([i t] & Heq & Hin). cbn in Heq. inversion Heq; subst. eauto. }
  assert (Hlook : forall id t, In (id, t) vs -> vals (stk (genesis_chain g)) !! id = Some (set_status (genesis_validator id t) Unbonded)).
  { intros id t Hin. apply list_to_map_lookup.
    - rewrite map_map. cbn. exact Hnd.
    - apply in_map_iff. exists (id, t). auto. }
  split.
  - constructor.
    + intros p id Hin. cbn in Hin. apply in_map_iff in Hin as ([i t] & Heq & Hin). cbn in Heq. inversion Heq; subst.
      exists (set_status (genesis_validator id t) Unbonded). split; [apply Hlook; exact Hin|]. split; reflexivity.
    + unfold idx_unique. cbn. rewrite map_map. cbn. exact Hnd.
    + intros i j vi vj Hi Hj Heq. destruct (Hvals _ _ Hi) as (ti & _ & ->). destruct (Hvals _ _ Hj) as (tj & _ & ->). cbn in Heq. exact Heq.
    + intros id p H. cbn in H. rewrite lookup_empty in H. discriminate.
    + intros id v Hv. destruct (Hvals _ _ Hv) as (t & Hin & ->). cbn.
      unfold wf_genesis in Hwf. rewrite Forall_forall in Hwf. apply Hwf. rewrite <- (enumerate_from_snd 0 (g_tokens g)).
      apply in_map_iff. exists (id, t). auto.
    + intros id v Hv. destruct (Hvals _ _ Hv) as (t & Hin & ->). cbn. apply list_to_map_lookup.
      * rewrite map_map. cbn. exact Hnd.
      * apply in_map_iff. exists (id, t). auto.
  - constructor; cbn; [constructor|constructor|intros ? []|intros ? ? ? []].
Qed.

Lemma init_world_CI g : wf_genesis g -> CI (w_chain (init_world g)).
Proof.
  intros Hwf. pose proof (genesis_chain_CI g Hwf) as H0. unfold init_world. fold (genesis_chain g).
  change (match apply_valset_updates (genesis_chain g) with
          | EBOk c1 upd => _ | EBHalt e => _ end) with
    (match apply_valset_updates (genesis_chain g) with
     | EBHalt e => {| w_chain := genesis_chain g; w_comet := {| c_prev := None; c_cur := ∅; c_next := ∅ |}; w_halted := Some (HEndBlock e) |}
     | EBOk c1 upd =>
       {| w_chain := with_poa c1 {| pending := []; cached_power := last_total (stk c1); abs_changed := 0 |};
          w_comet := {| c_prev := None; c_cur := apply_updates ∅ upd; c_next := apply_updates ∅ upd |}; w_halted := None |}
     end).
  destruct (apply_valset_updates (genesis_chain g)) as [c1 upd|e] eqn:E; cbn; [|exact H0].
  pose proof (apply_valset_updates_CI _ _ _ H0 E) as [HS [A B C D]].
  assert (Hp : pending (poa c1) = []).
  { (* the EndBlocker does not touch PoA's store *)
    clear -E. unfold apply_valset_updates in E.
    destruct (apply_loop _ _ _) as [a1|] eqn:E1; [|discriminate]. destruct (unbond_loop _ a1) as [a2|] eqn:E2; [|discriminate].
    destruct (if la_to_bonded a2 =? 0 then _ else _); [|discriminate]. inversion E; subst. clear E.
    assert (H1 : forall keys maxv a a', apply_loop keys maxv a = LDone a' -> poa (la_chain a') = poa (la_chain a)).
    { induction keys as [|[p id] ks IH]; intros maxv a a'; cbn [apply_loop]; [intros [= <-]; reflexivity|].
      destruct (_ <=? _); [intros [= <-]; reflexivity|]. destruct (vals _ !! id) as [v|]; [|discriminate].
      destruct (v_jailed v); [apply IH|]. destruct (_ =? 0); [intros [= <-]; reflexivity|].
      destruct (v_status v); cbn zeta.
      - destruct (bond_validator (la_chain a) id v) as [c' v'] eqn:Eb. unfold bond_validator in Eb. inversion Eb; subst. intros H. apply IH in H. rewrite H. cbn.
        destruct (match la_last a !! id with Some old => _ | None => true end); reflexivity.
      - destruct (bond_validator (la_chain a) id v) as [c' v'] eqn:Eb. unfold bond_validator in Eb. inversion Eb; subst. intros H. apply IH in H. rewrite H. cbn.
        destruct (match la_last a !! id with Some old => _ | None => true end); reflexivity.
      - intros H. apply IH in H. rewrite H. cbn. destruct (match la_last a !! id with Some old => _ | None => true end); reflexivity. }
    assert (H2 : forall ids a a', unbond_loop ids a = LDone a' -> poa (la_chain a') = poa (la_chain a)).
    { induction ids as [|id rest IH]; intros a a'; cbn [unbond_loop]; [intros [= <-]; reflexivity|].
      destruct (vals _ !! id) as [v|]; [|discriminate]. destruct (negb _); [discriminate|].
      destruct (begin_unbonding (la_chain a) id v) as [c1 v1] eqn:Eb. unfold begin_unbonding in Eb. inversion Eb; subst. intros H. apply IH in H. rewrite H. reflexivity. }
    apply H2 in E2. apply H1 in E1. cbn in E1. destruct (la_upd a2); cbn; rewrite E2, E1; reflexivity. }
  split; [exact HS|]. constructor; cbn; [constructor|constructor|intros ? []|intros ? ? ? []].
Qed.

(* ---- every block ---- *)
Lemma run_block_CI w b : CI (w_chain w) -> CI (w_chain (fst (run_block w b))).
Proof.
  intros HCI. unfold run_block. destruct (w_halted w); [exact HCI|].
  set (c0 := with_clock (w_chain w) (height (w_chain w) + 1) (now (w_chain w) + b_dt b)).
  assert (H0 : CI c0) by (apply CI_clock; exact HCI).
  destruct (begin_block c0 _ (b_absent b) (b_evidence b)) as [c1|e] eqn:Eb; [|exact H0].
  pose proof (begin_block_CI _ _ _ _ _ H0 Eb) as H1.
  pose proof (deliver_txs_CI (b_txs b) c1 H1) as H2. destruct (deliver_txs c1 (b_txs b)) as [c2 outs]. cbn in H2.
  destruct (staking_end_block c2) as [c3 upd|e] eqn:Ee; [|exact H2].
  pose proof (staking_end_block_CI _ _ _ H2 Ee) as H3.
  destruct (comet_apply _ upd); exact H3.
Qed.

Theorem run_world_CI bs w : CI (w_chain w) -> CI (w_chain (run_world w bs)).
Proof. revert w. induction bs as [|b bs IH]; cbn; intros w H; [exact H|]. apply IH. apply run_block_CI. exact H. Qed.

Theorem reachable_CI g bs : wf_genesis g -> CI (w_chain (run_world (init_world g) bs)).
Proof. intros H. apply run_world_CI. apply init_world_CI. exact H. Qed.

(* ---- consequences for each block ---- *)
Lemma has_dup_false l : List.NoDup l -> has_dup l = false.
Proof.
  induction l as [|x l IH]; cbn; [reflexivity|]. intros H. inversion H; subst. rewrite IH by assumption. rewrite orb_false_r.
  apply not_true_is_false. intros He. apply existsb_exists in He as (y & Hy & Hxy). apply Z.eqb_eq in Hxy. subst. contradiction.
Qed.

Lemma comet_apply_not_dup_neg vs upd :
  List.NoDup (map fst upd) -> (forall k p, In (k, p) upd -> 0 <= p) -> comet_apply vs upd <> inr 1 /\ comet_apply vs upd <> inr 2.
Proof.
  intros Hnd Hnn. unfold comet_apply. destruct upd as [|u upd']; [split; discriminate|].
  rewrite (has_dup_false _ Hnd).
  assert (Hneg : existsb (fun u0 : Z * Z => snd u0 <? 0) (u :: upd') = false).
  { apply not_true_is_false. intros He. apply existsb_exists in He as ([k p] & Hin & Hlt). cbn in Hlt. apply Z.ltb_lt in Hlt.
    specialize (Hnn k p Hin). lia. }
  rewrite Hneg. cbn zeta.
  repeat match goal with |- context [if ?b then _ else _] => destruct b end; split; discriminate.
Qed.

Theorem block_safe w b :
  CI (w_chain w) ->
  let w' := fst (run_block w b) in
  w_halted w = None ->
  w_halted w' <> Some (HEndBlock 1) /\ w_halted w' <> Some (HEndBlock 2) /\
  w_halted w' <> Some (HComet 1) /\ w_halted w' <> Some (HComet 2).
Proof.
  intros HCI w' Hh. subst w'. unfold run_block. rewrite Hh.
  set (c0 := with_clock (w_chain w) (height (w_chain w) + 1) (now (w_chain w) + b_dt b)).
  assert (H0 : CI c0) by (apply CI_clock; exact HCI).
  destruct (begin_block c0 _ (b_absent b) (b_evidence b)) as [c1|e] eqn:Eb; [|cbn; repeat split; discriminate].
  pose proof (begin_block_CI _ _ _ _ _ H0 Eb) as H1.
  pose proof (deliver_txs_CI (b_txs b) c1 H1) as H2. destruct (deliver_txs c1 (b_txs b)) as [c2 outs]. cbn in H2.
  destruct H2 as [HS2 HP2].
  pose proof (apply_valset_updates_safe c2 (si_sound _ HS2) (si_unique _ HS2) (si_cons _ HS2) (si_last _ HS2) (si_tok _ HS2)) as Hsafe.
  unfold staking_end_block. destruct (apply_valset_updates c2) as [c3 upd|e] eqn:Ea.
  - destruct Hsafe as [Hnd Hnn]. destruct (unbond_all_mature c3); [|cbn; repeat split; discriminate].
    destruct (comet_apply_not_dup_neg (c_next (w_comet w)) upd Hnd Hnn) as [Hd Hn].
    destruct (comet_apply (c_next (w_comet w)) upd) as [nn|e]; cbn; [repeat split; discriminate|].
    repeat split; try discriminate; intros [= ->]; congruence.
  - subst e. cbn. repeat split; discriminate.
Qed.
