(* InvJailed.v — a jailed validator stays jailed until it is unjailed, whatever the admin does to it meanwhile: through any
   blocks that carry no Unjail naming it — SetPower, RemoveValidator, anything else aimed at it or at the others — its record
   is still jailed at the end of each block, or it is gone. *)
From stdpp Require Import gmap.
Require Import Model.Base Model.Ante Model.Validate Model.Current Model.State Model.Staking Model.Slashing Model.Poa Model.App.
Require Import proofs.EvBasic proofs.L1Basic proofs.L1More proofs.L1Effects proofs.Inv proofs.InvPres proofs.InvMsgs proofs.InvHistory proofs.InvQueue proofs.InvPools proofs.InvComet proofs.InvElig proofs.InvLive proofs.InvBegin proofs.InvFrame.
Open Scope Z_scope.

Definition jailed_at (s : staking) (id : Z) : Prop := exists v, vals s !! id = Some v /\ v_jailed v = true.
Definition jailed_or_gone (s : staking) (id : Z) : Prop := jailed_at s id \/ vals s !! id = None.

Definition unjails (m : l1msg) (id : Z) : Prop := match m with MUnjail v => v = id | _ => False end.
Definition no_unjail_tx (id : Z) (tx : list l1msg) : Prop := Forall (fun m => ~ unjails m id) tx.
Definition no_unjail_txs (id : Z) (txs : list (list l1msg)) : Prop := Forall (no_unjail_tx id) txs.

Lemma exec_msg_jailed c m c' id : CI c -> jailed_at (stk c) id -> exec_msg c m = MOk c' -> ~ unjails m id -> jailed_at (stk c') id.
Proof.
  intros HCI (v & Hv & Hj) H Hu. pose proof HCI as [HS HP].
  destruct (Z.eq_dec (match m with MSetPower _ w _ _ | MRemoveValidator _ w => w | _ => id + 1 end) id) as [Heq|Hne].
  - (* SetPower / RemoveValidator naming it *)
    destruct m as [s w p u|s w|s w|w kk mon r mx ch msd|s p|w|s|s t]; cbn in Heq; try lia; subst w; cbn in H.
    + exfalso. revert H. unfold msg_set_power. destruct (negb (is_admin s)); [discriminate|]. destruct (setpower_validate _ _) as [[]|]; [|discriminate].
      destruct (find_pending id (pending (poa c))) as [q|] eqn:Ef.
      * apply find_pending_in in Ef as [Hin Hop]. pose proof (pi_not_val _ HP q Hin) as Hn. rewrite Hop in Hn. congruence.
      * unfold ensure_active. rewrite Hv, Hj. cbn. discriminate.
    + revert H. unfold msg_remove_validator. destruct (if is_admin s then None else _); [discriminate|]. destruct (_ =? 0); [discriminate|].
      rewrite Hv. destruct (negb _); [discriminate|]. destruct (set_poa_power c id 0) as [c1|] eqn:E; [|discriminate]. cbn [mbind].
      intros Hx. apply update_bonded_pool_stk in Hx as (-> & _). cbn.
      destruct (set_poa_power_target _ _ _ _ E) as (v0 & Hv0 & Hv1). rewrite Hv in Hv0. inversion Hv0; subst v0.
      eexists. split; [exact Hv1|]. cbn. exact Hj.
  - assert (Hnt : ~ targets m id).
    { destruct m as [s w p u|s w|s w|w kk mon r mx ch msd|s p|w|s|s t]; cbn in *; auto. }
    destruct (exec_msg_same_at c m c' id HCI H Hnt) as [A _]. exists v. rewrite A. auto.
Qed.

Lemma exec_msgs_jailed ms id : forall c c', CI c -> jailed_at (stk c) id -> no_unjail_tx id ms -> exec_msgs c ms = MOk c' -> jailed_at (stk c') id.
Proof.
  induction ms as [|m rest IH]; intros c c' HC HJ Hsp; cbn [exec_msgs]; [intros [= <-]; exact HJ|].
  inversion Hsp as [|? ? Hm Hrest]; subst. destruct (exec_msg c m) as [c1|] eqn:E; [|discriminate]. cbn [mbind]. intros H.
  eapply IH; [eapply exec_msg_CI; eauto|eapply exec_msg_jailed; eauto|exact Hrest|exact H].
Qed.

Lemma deliver_txs_jailed txs id : forall c, CI c -> jailed_at (stk c) id -> no_unjail_txs id txs -> jailed_at (stk (fst (deliver_txs c txs))) id.
Proof.
  induction txs as [|tx rest IH]; intros c HC HJ Hsp; cbn [deliver_txs]; [exact HJ|].
  inversion Hsp as [|? ? Ht Hr]; subst.
  assert (T1 : jailed_at (stk (fst (deliver_tx c tx))) id).
  { unfold deliver_tx. destruct (cur_stk_decorator _ _); [exact HJ|]. destruct (cur_wd_decorator _ _); [exact HJ|].
    destruct (cur_comm_decorator _ _ _ _ _); try exact HJ. destruct (existsb is_tree tx); [exact HJ|].
    destruct (exec_msgs _ tx) as [c2|] eqn:E; [|exact HJ]. cbn [fst].
    eapply (exec_msgs_jailed tx id); [apply CI_seqs; exact HC|exact HJ|exact Ht|exact E]. }
  pose proof (deliver_tx_CI c tx HC) as C1. destruct (deliver_tx c tx) as [c1 o]. cbn [fst] in T1, C1.
  specialize (IH c1 C1 T1 Hr). destruct (deliver_txs c1 rest) as [c2 os]. exact IH.
Qed.

Theorem run_block_jailed w b id :
  CI (w_chain w) -> no_unjail_txs id (b_txs b) -> jailed_at (stk (w_chain w)) id -> jailed_or_gone (stk (w_chain (fst (run_block w b)))) id.
Proof.
  intros HC Hsp HJ. unfold run_block. destruct (w_halted w); [left; exact HJ|].
  set (c0 := with_clock (w_chain w) (height (w_chain w) + 1) (now (w_chain w) + b_dt b)).
  assert (HC0 : CI c0) by (apply CI_clock; exact HC).
  destruct (begin_block c0 _ (b_absent b) (b_evidence b)) as [c1|e] eqn:Eb; [|left; exact HJ].
  pose proof (begin_block_CI _ _ _ _ _ HC0 Eb) as HC1.
  destruct HJ as (v & Hv & Hj).
  assert (J1 : jailed_at (stk c1) id).
  { destruct (begin_block_rstable _ _ _ _ _ Eb) as [(R & _) _]. destruct (R id v Hv) as (v1 & Hv1 & _).
    exists v1. split; [exact Hv1|].
    destruct (begin_block_rel _ _ _ _ _ id Eb) as [[A _]|(_ & v0 & Hv0 & H1)].
    - rewrite A in Hv1. change (vals (stk c0) !! id) with (vals (stk (w_chain w)) !! id) in Hv1. congruence.
    - rewrite Hv1 in H1. apply H1. }
  pose proof (deliver_txs_jailed (b_txs b) id c1 HC1 J1 Hsp) as J2.
  destruct (deliver_txs c1 (b_txs b)) as [c2 outs]. cbn [fst] in J2.
  destruct (staking_end_block c2) as [c3 upd|e] eqn:Ee; [|left; exact J2].
  assert (J3 : jailed_or_gone (stk c3) id).
  { destruct J2 as (v2 & Hv2 & Hj2). pose proof (staking_end_block_keeps c2 c3 upd id Ee) as [_ K]. rewrite Hv2 in K.
    destruct (vals (stk c3) !! id) as [v3|] eqn:E3; [left; exists v3; split; [exact E3|]; destruct K as (_ & J & _); congruence|right; exact E3]. }
  destruct (comet_apply _ upd); exact J3.
Qed.

(* over a history: at the end of every block of the stretch the validator is jailed, up to the block (if any) whose EndBlocker
   deletes its record *)
Fixpoint stays_jailed (w : world) (bs : list block) (id : Z) : Prop :=
  match bs with
  | [] => True
  | b :: rest =>
    let w' := fst (run_block w b) in
    jailed_at (stk (w_chain w')) id /\ stays_jailed w' rest id \/ vals (stk (w_chain w')) !! id = None
  end.

Theorem run_world_jailed bs id : forall w,
  CI (w_chain w) -> Forall (fun b => no_unjail_txs id (b_txs b)) bs -> jailed_at (stk (w_chain w)) id -> stays_jailed w bs id.
Proof.
  induction bs as [|b rest IH]; intros w HC Hsp HJ; cbn [stays_jailed]; [exact I|].
  inversion Hsp as [|? ? Hb Hr]; subst.
  destruct (run_block_jailed w b id HC Hb HJ) as [J|G]; [left; split; [exact J|]|right; exact G].
  apply IH; [apply run_block_CI; exact HC|exact Hr|exact J].
Qed.

Theorem jailed_until_unjailed g bs bs2 id :
  wf_genesis g -> Forall (fun b => no_unjail_txs id (b_txs b)) bs2 ->
  let w := run_world (init_world g) bs in
  jailed_at (stk (w_chain w)) id -> stays_jailed w bs2 id.
Proof. intros Hg Hsp w HJ. apply run_world_jailed; [apply reachable_CI; exact Hg|exact Hsp|exact HJ]. Qed.
