(* InvCometTotal.v — the total PoA measures the 30 % against is the total voting power of the validator set CometBFT holds:
   the sum over the last validator powers (by operator) equals the sum over CometBFT's set (by consensus key). *)
From stdpp Require Import gmap.
Require Import Model.Base Model.Ante Model.Validate Model.Current Model.State Model.Staking Model.Slashing Model.Poa Model.App.
Require Import proofs.EvBasic proofs.Inv proofs.InvIdx proofs.L1Effects proofs.InvPres proofs.InvMsgs proofs.InvHistory proofs.InvComet proofs.InvElig proofs.InvLive proofs.InvUpd proofs.InvTotal.
Open Scope Z_scope.

(* sums are invariant under re-indexing along an injective partial function *)
Lemma tsum_reindex (f : Z -> option Z) : forall (m1 m2 : gmap Z Z),
  (forall i j k, f i = Some k -> f j = Some k -> i = j) ->
  (forall id p, m1 !! id = Some p -> is_Some (f id)) ->
  (forall k p, m2 !! k = Some p <-> exists id, f id = Some k /\ m1 !! id = Some p) ->
  tsum m2 = tsum m1.
Proof.
  intros m1. induction m1 as [|i x m Hi IH] using map_ind; intros m2 Hinj Hdom Hrel.
  - assert (m2 = ∅).
    { apply map_eq. intros k. rewrite lookup_empty. destruct (m2 !! k) as [p|] eqn:E; [|reflexivity].
      apply Hrel in E as (id & _ & H). rewrite lookup_empty in H. discriminate. }
    subst m2. reflexivity.
  - destruct (Hdom i x (lookup_insert m i x)) as [k0 Hk0].
    assert (H0 : m2 !! k0 = Some x) by (apply Hrel; exists i; split; [exact Hk0|apply lookup_insert]).
    rewrite tsum_insert_new by exact Hi. rewrite <- (IH (delete k0 m2)).
    + rewrite (tsum_delete m2 k0 x H0). lia.
    + exact Hinj.
    + intros id p Hp. apply (Hdom id p). rewrite lookup_insert_ne; [exact Hp|]. intros <-. congruence.
    + intros k p. rewrite lookup_delete_Some. split.
      * intros [Hne Hk]. apply Hrel in Hk as (id & Hf & Hm). exists id. split; [exact Hf|].
        destruct (decide (id = i)) as [->|Hn]; [congruence|]. rewrite lookup_insert_ne in Hm by auto. exact Hm.
      * intros (id & Hf & Hm). assert (id <> i) by (intros ->; congruence). split.
        -- intros <-. apply H. eapply Hinj; eauto.
        -- apply Hrel. exists id. split; [exact Hf|]. rewrite lookup_insert_ne by auto. exact Hm.
Qed.

Theorem comet_total s vs : SI s -> comet_rel s vs -> tsum vs = tsum (last_pow s).
Proof.
  intros HS Hrel. apply (tsum_reindex (fun id => v_cons <$> vals s !! id)).
  - intros i j k Hi Hj. destruct (vals s !! i) as [vi|] eqn:Ei; [|discriminate]. destruct (vals s !! j) as [vj|] eqn:Ej; [|discriminate].
    cbn in Hi, Hj. inversion Hi; inversion Hj. eapply (si_cons _ HS); eauto. congruence.
  - intros id p Hp. destruct (si_last _ HS id p Hp) as (v & Hv & _). rewrite Hv. cbn. eauto.
  - intros k p. rewrite (Hrel k p). split.
    + intros (id & v & Hv & Hc & Hp). exists id. rewrite Hv. cbn. split; [congruence|exact Hp].
    + intros (id & Hf & Hp). destruct (vals s !! id) as [v|] eqn:Hv; [|discriminate]. cbn in Hf. inversion Hf. exists id, v. auto.
Qed.

(* in every reachable state: x/staking's LastTotalPower is the total voting power of the set CometBFT will use *)
Theorem reachable_comet_total g bs : wf_genesis g ->
  let w := run_world (init_world g) bs in
  w_halted w = None -> last_total (stk (w_chain w)) = tsum (c_next (w_comet w)).
Proof.
  intros Hg w Hh. pose proof (reachable_TL g bs Hg Hh) as HT. fold w in HT. rewrite HT. symmetry.
  assert (HW : WI w) by (apply run_world_WI; apply init_world_WI; exact Hg).
  destruct HW as [[HS _] Hrel]. apply comet_total; [exact HS|exact (Hrel Hh)].
Qed.
