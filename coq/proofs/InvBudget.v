(* InvBudget.v — the per-block change budget in closed form: at any point of a block above height 1 the running sum PoA tests
   against the 30 % limit is the sum (as a uint64) of |new power - power held at that point| over the SetPower and RemoveValidator
   messages of the transactions that passed so far in this block — admissions count their whole power, removals what the
   validator held, unsafe changes count like safe ones, failed transactions and every other kind of message count nothing. *)
From stdpp Require Import gmap.
Require Import Model.Base Model.Ante Model.Validate Model.Current Model.State Model.Staking Model.Slashing Model.Poa Model.App.
Require Import proofs.EvBasic proofs.L1Effects proofs.L1More proofs.Inv proofs.InvIdx proofs.InvPres proofs.InvMsgs proofs.InvHistory proofs.InvBound proofs.InvPending proofs.InvTotal.
Open Scope Z_scope.

(* the voting power a validator holds at this point of the block, as SetPOAPower measures it *)
Definition held (c : chain) (val : Z) : Z :=
  match vals (stk c) !! val with
  | Some v => if status_eqb (v_status v) Bonded && negb (v_jailed v) then tokens_to_power (v_tokens v) else 0
  | None => 0
  end.

Definition spend_to (c : chain) (val n : Z) : Z := Z.abs (tokens_to_power n - held c val).

(* what a message adds to the running sum when it succeeds; None: it does not touch the sum *)
Definition msg_spend (c : chain) (m : l1msg) : option Z :=
  match m with
  | MSetPower _ v p _ =>
      Some (match find_pending v (pending (poa c)) with
            | Some _ => Z.abs (tokens_to_power (cast_i64 p))          (* admission: the whole new power *)
            | None => spend_to c v (cast_i64 p)
            end)
  | MRemoveValidator _ v => Some (spend_to c v 0)                     (* removal: what the validator held *)
  | _ => None
  end.

Definition bump (a : Z) (d : option Z) : Z := match d with Some x => wrap_u64 (a + x) | None => a end.

Lemma set_poa_power_budget c val n c' :
  set_poa_power c val n = MOk c' -> abs_changed (poa c') = wrap_u64 (abs_changed (poa c) + spend_to c val n).
Proof.
  unfold set_poa_power, spend_to, held.
  destruct (vals (stk c) !! val) as [v|] eqn:Hv; [|discriminate].
  destruct (_ =? _); [discriminate|].
  destruct (_ && _).
  - destruct (slash _ _ _ _) as [c2|] eqn:Es; [|discriminate]. cbn [mbind]. intros H.
    apply update_validator_set_spec in H as (_ & _ & _ & _ & _ & _ & _ & _ & _ & Hp). rewrite Hp. cbn.
    apply slash_frame in Es as (_ & Hpo & _). rewrite Hpo. reflexivity.
  - cbn [mbind]. intros H.
    apply update_validator_set_spec in H as (_ & _ & _ & _ & _ & _ & _ & _ & _ & Hp). rewrite Hp. reflexivity.
Qed.

Lemma accepted_holds_nothing c q c1 :
  accept_new_validator c q = MOk c1 -> held c1 (p_oper q) = 0 /\ abs_changed (poa c1) = abs_changed (poa c).
Proof.
  unfold accept_new_validator. intros H. apply update_bonded_pool_stk in H as (Hs & Hp & _).
  unfold held. rewrite Hs, Hp. cbn. rewrite lookup_insert. cbn. auto.
Qed.

Lemma exec_msg_budget c m c' : exec_msg c m = MOk c' -> abs_changed (poa c') = bump (abs_changed (poa c)) (msg_spend c m).
Proof.
  destruct m as [s v p u|s v|s v|v k mon r mx ch msd|s p|v|s|s t]; cbn.
  - unfold msg_set_power. destruct (negb (is_admin s)); [discriminate|].
    destruct (setpower_validate (0 <=? v) p) as [[]|] eqn:Ev; [|discriminate].
    destruct (find_pending v (pending (poa c))) as [q|] eqn:Ef.
    + destruct (accept_new_validator c q) as [c1|] eqn:Ea; [|discriminate]. cbn [mbind].
      apply find_pending_in in Ef as [_ Hop]. apply accepted_holds_nothing in Ea as [Hh Ha]. rewrite Hop in Hh.
      destruct (set_poa_power c1 v (cast_i64 p)) as [c2|] eqn:E2; [|discriminate]. cbn [mbind].
      apply set_poa_power_budget in E2. unfold spend_to in E2. rewrite Hh, Z.sub_0_r, Ha in E2.
      destruct (negb u && (1 <? height c2)); [destruct (_ =? 0); [discriminate|]; destruct (30 <=? _); [discriminate|]|];
        intros H; apply update_bonded_pool_stk in H as (_ & Hp3 & _); rewrite Hp3; exact E2.
    + destruct (ensure_active c v) as [c1|] eqn:Ee; [|discriminate]. cbn [mbind]. apply ensure_active_id in Ee as ->.
      destruct (set_poa_power c v (cast_i64 p)) as [c2|] eqn:E2; [|discriminate]. cbn [mbind].
      apply set_poa_power_budget in E2.
      destruct (negb u && (1 <? height c2)); [destruct (_ =? 0); [discriminate|]; destruct (30 <=? _); [discriminate|]|];
        intros H; apply update_bonded_pool_stk in H as (_ & Hp3 & _); rewrite Hp3; exact E2.
  - unfold msg_remove_validator. destruct (if is_admin s then None else _); [discriminate|]. destruct (_ =? 0); [discriminate|].
    destruct (vals (stk c) !! v) as [vv|]; [|discriminate]. destruct (negb _); [discriminate|].
    destruct (set_poa_power c v 0) as [c1|] eqn:E; [|discriminate]. cbn [mbind].
    apply set_poa_power_budget in E. intros H. apply update_bonded_pool_stk in H as (_ & Hp2 & _). rewrite Hp2. cbn. exact E.
  - unfold msg_remove_pending. destruct (negb _); [discriminate|]. intros [= <-]. reflexivity.
  - destruct r as [r|], mx as [mx|], ch as [ch|]; try discriminate. unfold msg_create_validator.
    destruct (poa_create_validate _); try discriminate. destruct (_ <? _); [discriminate|].
    destruct (bool_decide _); [discriminate|]. destruct (bool_decide _); [discriminate|].
    destruct (pending_conflict _ _ _); [discriminate|]. destruct (negb _); [discriminate|].
    intros H. apply update_bonded_pool_stk in H as (_ & Hp & _). rewrite Hp. reflexivity.
  - unfold msg_update_params. destruct (negb _); [discriminate|]. destruct (negb _); [discriminate|]. destruct (negb _); [discriminate|]. intros [= <-]. reflexivity.
  - unfold msg_unjail. destruct (vals (stk c) !! v) as [vv|]; [|discriminate]. destruct (dels (stk c) !! v); [|discriminate].
    destruct (_ =? 0); [discriminate|]. destruct (_ <? _); [discriminate|]. destruct (negb _); [discriminate|].
    destruct (match infos _ !! _ with Some _ => _ | None => _ end); [discriminate|]. destruct (unjail _ _); [|discriminate]. intros [= <-]. reflexivity.
  - intros [= <-]. reflexivity.
  - intros [= <-]. reflexivity.
Qed.

(* ---- the spends of a message list, a transaction, a list of transactions — in order ---- *)
Definition spend_list (d : option Z) : list Z := match d with Some x => [x] | None => [] end.

Fixpoint msgs_spends (c : chain) (ms : list l1msg) : list Z :=
  match ms with
  | [] => []
  | m :: rest => match exec_msg c m with
                 | MOk c1 => spend_list (msg_spend c m) ++ msgs_spends c1 rest
                 | MErr _ => []
                 end
  end.

(* a transaction counts only if it passed: every one of its messages succeeded *)
Definition tx_spends (c : chain) (tx : list l1msg) : list Z :=
  match snd (deliver_tx c tx) with
  | TPass => msgs_spends (bump_seqs c (dedup (map msg_sender tx))) tx
  | _ => []
  end.

Fixpoint txs_spends (c : chain) (txs : list (list l1msg)) : list Z :=
  match txs with
  | [] => []
  | tx :: rest => tx_spends c tx ++ txs_spends (fst (deliver_tx c tx)) rest
  end.

Definition add_u64 (a d : Z) : Z := wrap_u64 (a + d).

Lemma bump_fold a d : bump a d = fold_left add_u64 (spend_list d) a.
Proof. destruct d; reflexivity. Qed.

Lemma exec_msgs_budget ms : forall c c', exec_msgs c ms = MOk c' ->
  abs_changed (poa c') = fold_left add_u64 (msgs_spends c ms) (abs_changed (poa c)).
Proof.
  induction ms as [|m ms IH]; cbn; intros c c'; [intros [= <-]; reflexivity|].
  destruct (exec_msg c m) as [c1|] eqn:E; [|discriminate]. cbn. intros H.
  rewrite fold_left_app, <- bump_fold, <- (exec_msg_budget _ _ _ E). exact (IH _ _ H).
Qed.

Lemma deliver_tx_budget c tx :
  abs_changed (poa (fst (deliver_tx c tx))) = fold_left add_u64 (tx_spends c tx) (abs_changed (poa c)).
Proof.
  unfold tx_spends, deliver_tx. destruct (cur_stk_decorator _ _); [reflexivity|]. destruct (cur_wd_decorator _ _); [reflexivity|].
  destruct (cur_comm_decorator _ _ _ _ _); try reflexivity. destruct (existsb is_tree tx); [reflexivity|].
  destruct (exec_msgs _ tx) as [c2|] eqn:E; [|reflexivity]. cbn. rewrite (exec_msgs_budget tx _ _ E). reflexivity.
Qed.

Lemma deliver_txs_budget txs : forall c,
  abs_changed (poa (fst (deliver_txs c txs))) = fold_left add_u64 (txs_spends c txs) (abs_changed (poa c)).
Proof.
  induction txs as [|tx txs IH]; cbn; intros c; [reflexivity|].
  pose proof (deliver_tx_budget c tx) as H1. destruct (deliver_tx c tx) as [c1 o]. cbn [fst] in *.
  specialize (IH c1). destruct (deliver_txs c1 txs) as [c2 os]. cbn [fst] in *. rewrite fold_left_app, <- H1. exact IH.
Qed.

(* uint64 additions one after the other = the sum, once, as a uint64 *)
Definition zsum (l : list Z) : Z := fold_right Z.add 0 l.

Lemma add_u64_fold l : forall a, fold_left add_u64 l (wrap_u64 a) = wrap_u64 (a + zsum l).
Proof.
  induction l as [|d l IH]; cbn; intros a; [rewrite Z.add_0_r; reflexivity|].
  assert (H : add_u64 (wrap_u64 a) d = wrap_u64 (a + d)) by (unfold add_u64, wrap_u64; apply Zplus_mod_idemp_l).
  rewrite H, IH. f_equal. unfold zsum. cbn. lia.
Qed.

Lemma spends_nonneg_msg c m d : msg_spend c m = Some d -> 0 <= d.
Proof.
  destruct m; cbn; try discriminate; intros [= <-]; [destruct (find_pending _ _)|]; unfold spend_to; apply Z.abs_nonneg.
Qed.

Lemma msgs_spends_nonneg ms : forall c, Forall (fun d => 0 <= d) (msgs_spends c ms).
Proof.
  induction ms as [|m ms IH]; cbn; intros c; [constructor|].
  destruct (exec_msg c m) as [c1|]; [|constructor]. apply Forall_app. split; [|apply IH].
  destruct (msg_spend c m) as [d|] eqn:E; cbn; [|constructor]. constructor; [|constructor]. exact (spends_nonneg_msg _ _ _ E).
Qed.

Lemma txs_spends_nonneg txs : forall c, Forall (fun d => 0 <= d) (txs_spends c txs).
Proof.
  induction txs as [|tx txs IH]; cbn; intros c; [constructor|]. apply Forall_app. split; [|apply IH].
  unfold tx_spends. destruct (snd (deliver_tx c tx)); try constructor. apply msgs_spends_nonneg.
Qed.

(* BeginBlock above height 1 leaves the sum at zero *)
Lemma begin_block_resets c votes absent evs c1 : 1 < height c -> begin_block c votes absent evs = inl c1 -> abs_changed (poa c1) = 0.
Proof.
  intros Hh. unfold begin_block. destruct (_ && _); [discriminate|]. destruct (handle_votes _ _ _) as [cx|] eqn:E; [|discriminate].
  destruct (handle_evidences _ cx) as [cy|] eqn:E2; [|discriminate]. intros [= <-].
  pose proof (handle_votes_height _ _ _ _ E) as Hhx.
  apply handle_evidences_frame in E2 as (_ & _ & Hhy & _).
  unfold poa_begin_block. destruct (Z.ltb_spec 1 (height cy)); [reflexivity|]. lia.
Qed.

(* ---- the theorem: in every block above height 1 of every history, after any prefix of the block's transactions ---- *)
Theorem block_budget_is_the_sum_of_the_changes g bs b c1 txs :
  let w := run_world (init_world g) bs in
  0 < height (w_chain w) ->
  begin_block (with_clock (w_chain w) (height (w_chain w) + 1) (now (w_chain w) + b_dt b))
              (match c_prev (w_comet w) with Some vs => sorted_votes vs | None => [] end) (b_absent b) (b_evidence b) = inl c1 ->
  abs_changed (poa (fst (deliver_txs c1 txs))) = wrap_u64 (zsum (txs_spends c1 txs)) /\
  Forall (fun d => 0 <= d) (txs_spends c1 txs).
Proof.
  intros w Hh Eb. split; [|apply txs_spends_nonneg].
  rewrite deliver_txs_budget.
  assert (H1 : 1 < height (with_clock (w_chain w) (height (w_chain w) + 1) (now (w_chain w) + b_dt b))) by (unfold with_clock; cbn; lia).
  rewrite (begin_block_resets _ _ _ _ _ H1 Eb).
  change 0 with (wrap_u64 0) at 1. rewrite add_u64_fold. reflexivity.
Qed.

(* what the terms of the sum are: a failed transaction contributes nothing; a passing one, per message in order *)
Lemma tx_spends_failed c tx : snd (deliver_tx c tx) <> TPass -> tx_spends c tx = [].
Proof. unfold tx_spends. destruct (snd (deliver_tx c tx)); congruence. Qed.

Lemma tx_spends_single c m : snd (deliver_tx c [m]) = TPass ->
  tx_spends c [m] = spend_list (msg_spend (bump_seqs c (dedup [msg_sender m])) m).
Proof.
  intros H. unfold tx_spends. rewrite H. cbn [map msgs_spends].
  revert H. unfold deliver_tx. destruct (cur_stk_decorator _ _); [discriminate|]. destruct (cur_wd_decorator _ _); [discriminate|].
  destruct (cur_comm_decorator _ _ _ _ _); try discriminate. destruct (existsb is_tree [m]); [discriminate|].
  cbn [exec_msgs map]. destruct (exec_msg _ m) as [c2|]; [|discriminate]. intros _. rewrite app_nil_r. reflexivity.
Qed.
