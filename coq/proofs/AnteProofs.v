(* AnteProofs.v — the ante decorators decide exactly "some forbidden leaf is reachable through the
   carriers the walker looks into", for message trees of any depth and fan-out. *)
Require Import Model.Base Model.Ante.

(* ---- induction principle for the nested inductive [msg] ---- *)
Section MsgInd.
  Variable P : msg -> Prop.
  Hypothesis Hleaf : forall l, P (Leaf l).
  Hypothesis Hwrap : forall w ok cs, Forall P cs -> P (Wrap w ok cs).
  Fixpoint msg_ind' (m : msg) : P m :=
    match m with
    | Leaf l => Hleaf l
    | Wrap w ok cs =>
        Hwrap w ok cs
          ((fix go (l : list msg) : Forall P l :=
              match l with
              | [] => Forall_nil P
              | x :: xs => Forall_cons x (msg_ind' x) (go xs)
              end) cs)
    end.
End MsgInd.

(* ---- reference predicates (the property statements) ---- *)
Section Reach.
  Variable unwraps : wrapper -> bool.
  Variable p : leaf -> bool.

  (* a leaf satisfying p is reachable through carriers that are looked into and whose content unpacks *)
  Fixpoint reaches (m : msg) : bool :=
    match m with
    | Leaf l => p l
    | Wrap w ok cs => unwraps w && ok && existsb reaches cs
    end.

  (* some carrier that is looked into fails to unpack *)
  Fixpoint bad_unpack (m : msg) : bool :=
    match m with
    | Leaf _ => false
    | Wrap w ok cs => unwraps w && (negb ok || existsb bad_unpack cs)
    end.
End Reach.

(* the property's notion: reachable through *every* carrier, whatever the walker does *)
Definition contains (p : leaf -> bool) : msg -> bool := reaches unwraps_all p.
Definition well_packed : msg -> bool := fun m => negb (bad_unpack unwraps_all m).

Definition is_blocked (l : leaf) : bool := match l with LStaking _ => true | _ => false end.
Definition is_withdraw (l : leaf) : bool := match l with LWithdrawReward => true | _ => false end.

Lemma first_some_none {A B} (f : A -> option B) l :
  first_some f l = None <-> Forall (fun x => f x = None) l.
Proof.
  induction l as [|x xs IH]; cbn.
  - split; auto.
  - destruct (f x) eqn:E.
    + split; [discriminate|]. intros H; inversion H; congruence.
    + rewrite IH. split; intros H; [constructor; auto | inversion H; auto].
Qed.

Lemma first_some_some {A B} (f : A -> option B) l b :
  first_some f l = Some b -> exists x, In x l /\ f x = Some b.
Proof.
  induction l as [|x xs IH]; cbn; [discriminate|].
  destruct (f x) eqn:E.
  - intros [= <-]. exists x; auto.
  - intros H. destruct (IH H) as (y & Hy & Hf). exists y; auto.
Qed.

(* generic walker: the staking filter and the withdraw filter are instances *)
Section Generic.
  Variable unwraps : wrapper -> bool.
  Variable p : leaf -> bool.
  Variable e : err.
  Variable walk : msg -> option err.
  Hypothesis walk_leaf : forall l, walk (Leaf l) = if p l then Some e else None.
  Hypothesis walk_wrap : forall w ok cs,
      walk (Wrap w ok cs) = if unwraps w then if ok then first_some walk cs else Some (unpack_err w) else None.

  Lemma walk_none_iff m :
    walk m = None <-> reaches unwraps p m = false /\ bad_unpack unwraps m = false.
  Proof.
    induction m as [l | w ok cs IH] using msg_ind'.
    - rewrite walk_leaf. cbn. destruct (p l); split; intros; try tauto; try discriminate. destruct H; discriminate.
    - rewrite walk_wrap. cbn [reaches bad_unpack].
      destruct (unwraps w); cbn; [|tauto].
      destruct ok; cbn.
      + rewrite first_some_none.
        split.
        * intros HF. split.
          -- apply not_true_is_false. intros Hex. apply existsb_exists in Hex as (x & Hx & Hr).
             rewrite Forall_forall in HF, IH. specialize (HF x Hx). apply IH in HF; auto. destruct HF; congruence.
          -- apply not_true_is_false. intros Hex. apply existsb_exists in Hex as (x & Hx & Hr).
             rewrite Forall_forall in HF, IH. specialize (HF x Hx). apply IH in HF; auto. destruct HF; congruence.
        * intros [H1 H2]. rewrite Forall_forall in *. intros x Hx. apply IH; auto. split.
          -- apply not_true_is_false. intros Hr. assert (existsb (reaches unwraps p) cs = true) by (apply existsb_exists; eauto). congruence.
          -- apply not_true_is_false. intros Hr. assert (existsb (bad_unpack unwraps) cs = true) by (apply existsb_exists; eauto). congruence.
      + split; [discriminate|]. intros [_ H]; discriminate.
  Qed.

  (* without unpack failures the error is exactly [e] and it is returned iff a p-leaf is reachable *)
  Lemma walk_well_packed m :
    bad_unpack unwraps m = false ->
    walk m = if reaches unwraps p m then Some e else None.
  Proof.
    induction m as [l | w ok cs IH] using msg_ind'; intros Hb.
    - rewrite walk_leaf. reflexivity.
    - rewrite walk_wrap. cbn [reaches bad_unpack] in *.
      destruct (unwraps w); cbn in *; [|reflexivity].
      destruct ok; cbn in *; [|discriminate].
      assert (Hall : Forall (fun c => walk c = if reaches unwraps p c then Some e else None) cs).
      { rewrite Forall_forall in *. intros x Hx. apply IH; auto.
        apply not_true_is_false. intros Hr. assert (existsb (bad_unpack unwraps) cs = true) by (apply existsb_exists; eauto). congruence. }
      clear IH Hb. induction cs as [|c cs IHc]; cbn; [reflexivity|].
      inversion Hall as [|? ? Hc Hcs]; subst. rewrite Hc.
      destruct (reaches unwraps p c); cbn; [reflexivity|]. apply IHc; assumption.
  Qed.
End Generic.

Lemma stk_walk_none_iff u m :
  stk_walk u m = None <-> reaches u is_blocked m = false /\ bad_unpack u m = false.
Proof.
  apply walk_none_iff with (e := EPoaStakingNotAllowed).
  - intros [k| | | |]; reflexivity.
  - reflexivity.
Qed.

Lemma stk_walk_well_packed u m :
  bad_unpack u m = false -> stk_walk u m = if reaches u is_blocked m then Some EPoaStakingNotAllowed else None.
Proof.
  apply walk_well_packed.
  - intros [k| | | |]; reflexivity.
  - reflexivity.
Qed.

Lemma wd_walk_none_iff u m :
  wd_walk u m = None <-> reaches u is_withdraw m = false /\ bad_unpack u m = false.
Proof.
  apply walk_none_iff with (e := EPoaWithdrawNotAllowed).
  - intros [k| | | |]; reflexivity.
  - reflexivity.
Qed.

Lemma wd_walk_well_packed u m :
  bad_unpack u m = false -> wd_walk u m = if reaches u is_withdraw m then Some EPoaWithdrawNotAllowed else None.
Proof.
  apply walk_well_packed.
  - intros [k| | | |]; reflexivity.
  - reflexivity.
Qed.

(* ---- transaction level (list of top-level messages) ---- *)
Definition tx_contains (p : leaf -> bool) (msgs : list msg) : bool := existsb (contains p) msgs.
Definition tx_well_packed (msgs : list msg) : bool := forallb well_packed msgs.

Section TxLevel.
  Variable p : leaf -> bool.
  Variable e : err.
  Variable walk : msg -> option err.
  Hypothesis walk_none : forall m, walk m = None <-> contains p m = false /\ bad_unpack unwraps_all m = false.
  Hypothesis walk_wp : forall m, bad_unpack unwraps_all m = false -> walk m = if contains p m then Some e else None.

  (* a transaction with a forbidden message anywhere is never let through *)
  Lemma tx_contains_rejected msgs : tx_contains p msgs = true -> first_some walk msgs <> None.
  Proof.
    intros H Hn. apply first_some_none in Hn. apply existsb_exists in H as (m & Hm & Hc).
    rewrite Forall_forall in Hn. specialize (Hn m Hm). apply walk_none in Hn. destruct Hn; congruence.
  Qed.

  (* exact characterisation for transactions whose carriers all unpack (every decoded transaction) *)
  Lemma tx_exact msgs :
    tx_well_packed msgs = true ->
    first_some walk msgs = if tx_contains p msgs then Some e else None.
  Proof.
    unfold tx_well_packed, tx_contains, well_packed.
    induction msgs as [|m ms IH]; cbn; [reflexivity|].
    intros H. apply andb_true_iff in H as [Hm Hms]. apply negb_true_iff in Hm.
    rewrite (walk_wp m Hm). destruct (contains p m); cbn; [reflexivity|]. apply IH; assumption.
  Qed.
End TxLevel.

(* ---- commission walker ---- *)
Definition in_range (lo hi r : Z) : Prop := (lo = hi -> r = lo) /\ lo <= r <= hi.

Lemma rate_check_spec r lo hi : rate_check r lo hi = true <-> in_range lo hi r.
Proof.
  unfold rate_check, in_range.
  destruct (Z.eqb_spec lo hi), (Z.eqb_spec r lo), (Z.ltb_spec hi r), (Z.ltb_spec r lo); cbn; split; intros; try discriminate; try lia; auto.
Qed.

(* leaf sets a commission rate outside the range *)
Definition out_of_range (lo hi : Z) (l : leaf) : bool :=
  match comm_rate l with
  | Some (Some r) => negb (rate_check r lo hi)
  | _ => false
  end.

Lemma comm_walk_never_panics u lo hi m : comm_walk u lo hi m <> Some VPanic.
Proof.
  induction m as [l | w ok cs IH] using msg_ind'; cbn.
  - destruct (comm_rate l) as [[r|]|]; try discriminate. destruct (rate_check r lo hi); discriminate.
  - destruct (u w); [|discriminate]. destruct ok; [|discriminate].
    intros H. apply first_some_some in H as (x & Hx & Hf). rewrite Forall_forall in IH. exact (IH x Hx Hf).
Qed.

Lemma comm_walk_never_pass_early u lo hi m : comm_walk u lo hi m <> Some VPass.
Proof.
  induction m as [l | w ok cs IH] using msg_ind'; cbn.
  - destruct (comm_rate l) as [[r|]|]; try discriminate. destruct (rate_check r lo hi); discriminate.
  - destruct (u w); [|discriminate]. destruct ok; [|discriminate].
    intros H. apply first_some_some in H as (x & Hx & Hf). rewrite Forall_forall in IH. exact (IH x Hx Hf).
Qed.

Lemma comm_walk_none_iff u lo hi m :
  comm_walk u lo hi m = None <-> reaches u (out_of_range lo hi) m = false /\ bad_unpack u m = false.
Proof.
  induction m as [l | w ok cs IH] using msg_ind'.
  - cbn. unfold out_of_range. destruct (comm_rate l) as [[r|]|]; cbn; try tauto.
    destruct (rate_check r lo hi); cbn; split; intros; try tauto; try discriminate. destruct H; discriminate.
  - cbn [comm_walk reaches bad_unpack].
    destruct (u w); cbn; [|tauto].
    destruct ok; cbn.
    + rewrite first_some_none. split.
      * intros HF. split; apply not_true_is_false; intros Hex; apply existsb_exists in Hex as (x & Hx & Hr);
          rewrite Forall_forall in HF, IH; specialize (HF x Hx); apply IH in HF; auto; destruct HF; congruence.
      * intros [H1 H2]. rewrite Forall_forall in *. intros x Hx. apply IH; auto. split; apply not_true_is_false; intros Hr.
        -- assert (existsb (reaches u (out_of_range lo hi)) cs = true) by (apply existsb_exists; eauto). congruence.
        -- assert (existsb (bad_unpack u) cs = true) by (apply existsb_exists; eauto). congruence.
    + split; [discriminate|]. intros [_ H]; discriminate.
Qed.

(* ---- decorator level, for a walker that looks into every carrier ---- *)
Lemma stk_genesis_pass u h msgs : h <= 1 -> stk_decorator u h msgs = None.
Proof. unfold stk_decorator. intros H. destruct (Z.leb_spec h 1); [reflexivity|lia]. Qed.

Lemma stk_contains_rejected h msgs :
  h > 1 -> tx_contains is_blocked msgs = true -> stk_decorator unwraps_all h msgs <> None.
Proof.
  unfold stk_decorator. intros H Hc. destruct (Z.leb_spec h 1); [lia|].
  eapply tx_contains_rejected; eauto. intros m. apply stk_walk_none_iff.
Qed.

Lemma stk_exact h msgs :
  h > 1 -> tx_well_packed msgs = true ->
  stk_decorator unwraps_all h msgs = if tx_contains is_blocked msgs then Some EPoaStakingNotAllowed else None.
Proof.
  unfold stk_decorator. intros H Hw. destruct (Z.leb_spec h 1); [lia|].
  apply tx_exact; auto. intros m. apply stk_walk_well_packed.
Qed.

Lemma stk_no_false_reject h msgs :
  tx_contains is_blocked msgs = false -> tx_well_packed msgs = true -> stk_decorator unwraps_all h msgs = None.
Proof.
  intros Hc Hw. destruct (Z.leb_spec h 1) as [Hh|Hh].
  - apply stk_genesis_pass; assumption.
  - rewrite stk_exact by (auto; lia). rewrite Hc. reflexivity.
Qed.

Lemma wd_genesis_pass u h msgs : h <= 1 -> wd_decorator u h msgs = None.
Proof. unfold wd_decorator. intros H. destruct (Z.leb_spec h 1); [reflexivity|lia]. Qed.

Lemma wd_contains_rejected h msgs :
  h > 1 -> tx_contains is_withdraw msgs = true -> wd_decorator unwraps_all h msgs <> None.
Proof.
  unfold wd_decorator. intros H Hc. destruct (Z.leb_spec h 1); [lia|].
  eapply tx_contains_rejected; eauto. intros m. apply wd_walk_none_iff.
Qed.

Lemma wd_exact h msgs :
  h > 1 -> tx_well_packed msgs = true ->
  wd_decorator unwraps_all h msgs = if tx_contains is_withdraw msgs then Some EPoaWithdrawNotAllowed else None.
Proof.
  unfold wd_decorator. intros H Hw. destruct (Z.leb_spec h 1); [lia|].
  apply tx_exact; auto. intros m. apply wd_walk_well_packed.
Qed.

Lemma wd_no_false_reject h msgs :
  tx_contains is_withdraw msgs = false -> tx_well_packed msgs = true -> wd_decorator unwraps_all h msgs = None.
Proof.
  intros Hc Hw. destruct (Z.leb_spec h 1) as [Hh|Hh].
  - apply wd_genesis_pass; assumption.
  - rewrite wd_exact by (auto; lia). rewrite Hc. reflexivity.
Qed.

(* ---- commission decorator ---- *)
(* every rate set anywhere in the transaction (through every carrier) is within range *)
Definition tx_all_in_range (lo hi : Z) (msgs : list msg) : bool :=
  negb (existsb (contains (out_of_range lo hi)) msgs).

Lemma comm_exempt u lo hi h msgs : h <= 1 -> comm_decorator u false lo hi h msgs = VPass.
Proof. unfold comm_decorator. intros H. destruct (Z.leb_spec h 1); [reflexivity|lia]. Qed.

Lemma comm_first_some_never_panics u lo hi msgs :
  first_some (comm_walk u lo hi) msgs <> Some VPanic.
Proof.
  intros H. apply first_some_some in H as (x & _ & Hf). exact (comm_walk_never_panics _ _ _ _ Hf).
Qed.

Lemma comm_no_panic u g lo hi h msgs : comm_decorator u g lo hi h msgs <> VPanic.
Proof.
  unfold comm_decorator. destruct (negb g && (h <=? 1)); [discriminate|].
  destruct (first_some (comm_walk u lo hi) msgs) as [v|] eqn:E; cbn; [|discriminate].
  intros ->. exact (comm_first_some_never_panics _ _ _ _ E).
Qed.

(* checked (not exempt) and well packed: accepted iff every rate set is in range *)
Lemma comm_accept_iff g lo hi h msgs :
  negb g && (h <=? 1) = false -> tx_well_packed msgs = true ->
  (comm_decorator unwraps_all g lo hi h msgs = VPass <-> tx_all_in_range lo hi msgs = true).
Proof.
  unfold comm_decorator, tx_all_in_range. intros -> Hw.
  destruct (first_some (comm_walk unwraps_all lo hi) msgs) as [v|] eqn:E; cbn.
  - split.
    + intros ->. apply first_some_some in E as (x & _ & Hf). exfalso. exact (comm_walk_never_pass_early _ _ _ _ Hf).
    + intros Hr. apply negb_true_iff in Hr.
      assert (Hn : first_some (comm_walk unwraps_all lo hi) msgs = None).
      { apply first_some_none. rewrite Forall_forall. intros x Hx. apply comm_walk_none_iff. split.
        - apply not_true_is_false. intros Hc. assert (existsb (contains (out_of_range lo hi)) msgs = true) by (apply existsb_exists; eauto). congruence.
        - unfold tx_well_packed in Hw. rewrite forallb_forall in Hw. specialize (Hw x Hx). unfold well_packed in Hw. apply negb_true_iff in Hw. exact Hw. }
      congruence.
  - split; [|reflexivity]. intros _. apply negb_true_iff. apply not_true_is_false. intros Hex.
    apply existsb_exists in Hex as (x & Hx & Hc). apply first_some_none in E. rewrite Forall_forall in E.
    specialize (E x Hx). apply comm_walk_none_iff in E. destruct E; unfold contains in Hc; congruence.
Qed.

(* an out-of-range rate anywhere is never accepted, even in transactions whose carriers do not unpack *)
Lemma comm_out_of_range_rejected g lo hi h msgs :
  negb g && (h <=? 1) = false -> tx_all_in_range lo hi msgs = false ->
  comm_decorator unwraps_all g lo hi h msgs <> VPass.
Proof.
  unfold comm_decorator, tx_all_in_range. intros -> Hr. apply negb_false_iff in Hr.
  destruct (first_some (comm_walk unwraps_all lo hi) msgs) as [v|] eqn:E; cbn.
  - intros ->. apply first_some_some in E as (x & _ & Hf). exact (comm_walk_never_pass_early _ _ _ _ Hf).
  - exfalso. apply existsb_exists in Hr as (x & Hx & Hc). apply first_some_none in E. rewrite Forall_forall in E.
    specialize (E x Hx). apply comm_walk_none_iff in E. destruct E; unfold contains in Hc; congruence.
Qed.

(* the range predicate the decorator uses is the one the property states *)
Lemma out_of_range_spec lo hi l :
  out_of_range lo hi l = true <-> exists r, comm_rate l = Some (Some r) /\ ~ in_range lo hi r.
Proof.
  unfold out_of_range. destruct (comm_rate l) as [[r|]|].
  - rewrite negb_true_iff. split.
    + intros H. exists r. split; [reflexivity|]. intros Hin. apply rate_check_spec in Hin. congruence.
    + intros (r' & [= <-] & Hn). apply not_true_is_false. intros Hc. apply rate_check_spec in Hc. contradiction.
  - split; [discriminate|]. intros (r & [=] & _).
  - split; [discriminate|]. intros (r & [=] & _).
Qed.
