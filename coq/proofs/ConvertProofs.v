Require Import Model.Base Model.Convert.

Lemma roundtrip_staking v : to_staking (to_poa v) = with_sv_update_time v commission_epoch.
Proof. destruct v as [? ? ? ? ? ? [? ? ? ? ?] ? ? ? ? ? ? ? ? ?]. reflexivity. Qed.

Lemma roundtrip_poa p : to_poa (to_staking p) = with_pv_update_time p commission_zero_time.
Proof. destruct p as [? ? ? ? ? ? [? ? ? ? ?] ? ? ? ? ? ? ? ? ?]. reflexivity. Qed.

(* a list of records keeps its order and its entries through both conversions *)
Lemma roundtrip_list l : map to_poa (map to_staking l) = map (fun p => with_pv_update_time p commission_zero_time) l.
Proof. rewrite map_map. apply map_ext. exact roundtrip_poa. Qed.
