(* InvBound.v — CometBFT's bound on the total voting power (refusal 5). With consensus-key identities drawn from a pool of
   N keys (N * (2^63-1)/10^6 within the bound: N <= 125000), token amounts stay below 2^63 and a validator set can never
   exceed MaxTotalVotingPower: the last way a block could stop is excluded. *)
From stdpp Require Import gmap.
Require Import Model.Base Model.Ante Model.Validate Model.Current Model.State Model.Staking Model.Slashing Model.Poa Model.App.
Require Import proofs.EvBasic proofs.Inv proofs.InvIdx proofs.L1Effects proofs.InvPres proofs.InvMsgs proofs.InvHistory proofs.InvQueue proofs.InvPools proofs.InvComet proofs.InvElig proofs.InvLive proofs.InvUpd proofs.InvBegin proofs.InvTotal.
Open Scope Z_scope.

Definition KB (N : Z) (c : chain) : Prop :=
  (forall id v, vals (stk c) !! id = Some v -> 0 <= v_cons v < N /\ v_tokens v <= max_int64) /\
  (forall p, In p (pending (poa c)) -> 0 <= p_cons p < N).

Lemma KB_ext N c c' : vals (stk c') = vals (stk c) -> pending (poa c') = pending (poa c) -> KB N c -> KB N c'.
Proof. intros Hv Hp [A B]. split; [rewrite Hv; exact A|rewrite Hp; exact B]. Qed.

Lemma KB_update N c c' id v' :
  KB N c -> vals (stk c') = <[id := v']> (vals (stk c)) -> pending (poa c') = pending (poa c) ->
  0 <= v_cons v' < N -> v_tokens v' <= max_int64 -> KB N c'.
Proof.
  intros [A B] Hv Hp Hc Ht. split; [|rewrite Hp; exact B]. intros j w. rewrite Hv. destruct (decide (j = id)) as [->|Hne].
  - rewrite lookup_insert. intros [= <-]. auto.
  - rewrite lookup_insert_ne by auto. apply A.
Qed.

(* a sum of at most N values, each at most B *)
Lemma tsum_bound B : 0 <= B -> forall n (m : gmap Z Z),
  (forall k p, m !! k = Some p -> 0 <= k < Z.of_nat n /\ 0 <= p <= B) -> 0 <= tsum m <= Z.of_nat n * B.
Proof.
  intros HB. induction n as [|n IH]; intros m Hall.
  - assert (m = ∅) by (apply map_eq; intros k; rewrite lookup_empty; destruct (m !! k) as [p|] eqn:E; [|reflexivity]; destruct (Hall k p E); lia).
    subst m. rewrite tsum_empty. lia.
  - specialize (IH (delete (Z.of_nat n) m)).
    assert (Hd : forall k p, delete (Z.of_nat n) m !! k = Some p -> 0 <= k < Z.of_nat n /\ 0 <= p <= B).
    { intros k p Hl. apply lookup_delete_Some in Hl as [Hne Hl]. destruct (Hall k p Hl). lia. }
    specialize (IH Hd). rewrite tsum_delete' in IH.
    destruct (m !! Z.of_nat n) as [p|] eqn:E; cbn in IH; [destruct (Hall _ p E)|]; lia.
Qed.

(* ---- the bound through every operation ---- *)
Lemma slash_KB N c k p f c' : KB N c -> slash c k p f = Some c' -> KB N c'.
Proof.
  intros HK. unfold slash. destruct (f <? 0); [discriminate|].
  destruct (by_cons (stk c) !! k) as [id|]; [|intros [= <-]; exact HK].
  destruct (vals (stk c) !! id) as [v|] eqn:Hv; [|intros [= <-]; exact HK].
  destruct (status_eqb (v_status v) Unbonded); [discriminate|].
  set (burn := Z.max 0 (Z.min (p * power_reduction * f / dec_one) (v_tokens v))).
  destruct (burn =? 0); [intros [= <-]; exact HK|].
  destruct (if status_eqb (v_status v) Bonded then _ else _); [|discriminate]. intros [= <-].
  destruct (proj1 HK id v Hv) as [Hc Ht].
  eapply (KB_update N c _ id (set_tokens v (v_tokens v - burn)) HK); [|reflexivity|exact Hc|cbn; subst burn; lia].
  cbn. unfold set_index, set_validator, del_index. cbn. destruct (v_jailed v); reflexivity.
Qed.

Lemma handle_votes_KB N votes absent : forall c c', KB N c -> handle_votes votes absent c = Some c' -> KB N c'.
Proof.
  induction votes as [|[k p] vs IH]; cbn; intros c c' HK; [intros [= <-]; exact HK|].
  destruct (handle_signature c k p _) as [c1|] eqn:E; [|discriminate]. apply IH.
  unfold handle_signature in E. destruct (by_cons (stk c) !! k) as [id|]; [|discriminate].
  destruct (vals (stk c) !! id) as [v|]; [|discriminate]. destruct (v_jailed v); [inversion E; subst; exact HK|].
  destruct (infos (sl c) !! k) as [i|]; [|discriminate]. destruct (if negb _ && negb _ then _ else _) as [bm' cnt].
  destruct (_ && _); [|inversion E; subst; eapply KB_ext; [| |exact HK]; reflexivity].
  destruct (slash c k p _) as [cs|] eqn:Es; [|discriminate]. destruct (jail (stk cs) k) as [s2|] eqn:Ej; [|discriminate].
  inversion E; subst. pose proof (slash_KB N _ _ _ _ _ HK Es) as HK1.
  unfold jail in Ej. destruct (by_cons (stk cs) !! k) as [j|]; [|discriminate]. destruct (vals (stk cs) !! j) as [vj|] eqn:Hvj; [|discriminate].
  destruct (v_jailed vj); [discriminate|]. inversion Ej; subst. destruct (proj1 HK1 j vj Hvj) as [Hc Ht].
  eapply (KB_update N cs _ j (set_jailed vj true) HK1); [reflexivity|reflexivity|exact Hc|exact Ht].
Qed.

Lemma jail_KB N c k s2 : KB N c -> jail (stk c) k = Some s2 -> KB N (with_stk c s2).
Proof.
  intros HK Ej. unfold jail in Ej. destruct (by_cons (stk c) !! k) as [j|]; [|discriminate]. destruct (vals (stk c) !! j) as [vj|] eqn:Hvj; [|discriminate].
  destruct (v_jailed vj); [discriminate|]. inversion Ej; subst. destruct (proj1 HK j vj Hvj) as [Hc Ht].
  eapply (KB_update N c _ j (set_jailed vj true) HK); [reflexivity|reflexivity|exact Hc|exact Ht].
Qed.

Lemma handle_evidence_KB N c e c' : KB N c -> handle_evidence c e = Some c' -> KB N c'.
Proof.
  intros HK H. apply handle_evidence_cases in H as [->|(id & v & i & c1 & s2 & _ & _ & _ & _ & _ & _ & Es & Hj & ->)]; [exact HK|].
  pose proof (slash_KB N _ _ _ _ _ HK Es) as HK1. destruct Hj as [[_ ->]|[_ Ej]].
  - eapply KB_ext; [| |exact HK1]; reflexivity.
  - eapply KB_ext; [| |exact (jail_KB N _ _ _ HK1 Ej)]; reflexivity.
Qed.

Lemma handle_evidences_KB N evs c c' : KB N c -> handle_evidences evs c = Some c' -> KB N c'.
Proof. apply (handle_evidences_preserves (KB N)). intros; eapply handle_evidence_KB; eauto. Qed.

Lemma begin_block_KB N c votes absent evs c' : KB N c -> begin_block c votes absent evs = inl c' -> KB N c'.
Proof.
  intros HK. unfold begin_block. destruct (_ && _); [discriminate|]. destruct (handle_votes votes absent c) as [c1|] eqn:E; [|discriminate].
  destruct (handle_evidences evs c1) as [c2|] eqn:E2; [|discriminate].
  intros [= <-]. pose proof (handle_votes_KB N _ _ _ _ HK E) as H1. pose proof (handle_evidences_KB N _ _ _ H1 E2) as H2.
  unfold poa_begin_block. destruct (1 <? height c2); [|exact H2].
  eapply KB_ext; [| |exact H2]; reflexivity.
Qed.

Lemma valid_power_le val power : setpower_validate (0 <=? val) power = Ok tt -> 0 <= cast_i64 power <= max_int64.
Proof.
  unfold setpower_validate, cast_i64, min_power, max_int64, two63. destruct (negb _); [discriminate|]. destruct (Z.ltb_spec power 1000000); [discriminate|].
  destruct (Z.ltb_spec (2 ^ 63 - 1) power); [discriminate|]. intros _. destruct (Z.ltb_spec power (2 ^ 63)); lia.
Qed.

Lemma set_poa_power_KB N c val n c' : SI (stk c) -> KB N c -> 0 <= n <= max_int64 -> set_poa_power c val n = MOk c' -> KB N c'.
Proof.
  intros HS [A B] Hn H. pose proof (set_poa_power_others _ _ _ _ HS H) as Hoth. destruct (set_poa_power_target _ _ _ _ H) as (v & Hv & Hv').
  assert (Hp : pending (poa c') = pending (poa c)) by (destruct (set_poa_power_same_ids _ _ _ _ HS H) as [_ Hp]; exact Hp).
  split; [|rewrite Hp; exact B]. intros j w Hw. destruct (decide (j = val)) as [->|Hne].
  - rewrite Hv' in Hw. inversion Hw; subst w. destruct (A val v Hv) as [Hc _]. split; [exact Hc|exact (proj2 Hn)].
  - rewrite (Hoth j Hne) in Hw. apply (A j w Hw).
Qed.

Lemma accept_KB N c p c' : KB N c -> In p (pending (poa c)) -> accept_new_validator c p = MOk c' -> KB N c'.
Proof.
  intros [A B] Hin. unfold accept_new_validator. intros H. apply update_bonded_pool_stk in H as (Hs & Hp & _). split.
  - intros j w. rewrite Hs. cbn. destruct (decide (j = p_oper p)) as [->|Hne].
    + rewrite lookup_insert. intros [= <-]. cbn [v_cons v_tokens]. split; [apply B; exact Hin|unfold max_int64, two63; lia].
    + rewrite lookup_insert_ne by auto. apply A.
  - rewrite Hp. cbn. intros x Hx. apply B. eapply in_remove_first; eauto.
Qed.

(* consensus keys of applications come from the pool *)
Definition kb_msg (N : Z) (m : l1msg) : Prop := match m with MCreateValidator _ k _ _ _ _ _ => k < N | _ => True end.

Lemma exec_msg_KB N c m c' : CI c -> KB N c -> kb_msg N m -> exec_msg c m = MOk c' -> KB N c'.
Proof.
  intros [HS HP] HK Hkb. destruct m as [s v p u|s v|s v|v k mon r mx ch msd|s p|v|s|s t]; cbn.
  - unfold msg_set_power. destruct (negb (is_admin s)); [discriminate|].
    destruct (setpower_validate (0 <=? v) p) as [[]|] eqn:Ev; [|discriminate].
    destruct (find_pending v (pending (poa c))) as [q|] eqn:Ef.
    + apply find_pending_in in Ef as [Hin Hop]. destruct (accept_new_validator c q) as [c1|] eqn:Ea; [|discriminate]. cbn [mbind].
      destruct (accept_SI_PI _ _ _ HS HP Hin Ea) as [HS1 HP1]. pose proof (accept_KB N _ _ _ HK Hin Ea) as HK1.
      destruct (set_poa_power c1 v (cast_i64 p)) as [c2|] eqn:E2; [|discriminate]. cbn [mbind].
      pose proof (set_poa_power_KB N _ _ _ _ HS1 HK1 (valid_power_le v p Ev) E2) as HK2.
      destruct (negb u && (1 <? height c2)); [destruct (_ =? 0); [discriminate|]; destruct (30 <=? _); [discriminate|]|];
        intros H; apply update_bonded_pool_stk in H as (Hs & Hp & _); (eapply KB_ext; [rewrite Hs; reflexivity|rewrite Hp; reflexivity|exact HK2]).
    + destruct (ensure_active c v) as [c1|] eqn:Ee; [|discriminate]. cbn [mbind]. apply ensure_active_id in Ee as ->.
      destruct (set_poa_power c v (cast_i64 p)) as [c2|] eqn:E2; [|discriminate]. cbn [mbind].
      pose proof (set_poa_power_KB N _ _ _ _ HS HK (valid_power_le v p Ev) E2) as HK2.
      destruct (negb u && (1 <? height c2)); [destruct (_ =? 0); [discriminate|]; destruct (30 <=? _); [discriminate|]|];
        intros H; apply update_bonded_pool_stk in H as (Hs & Hp & _); (eapply KB_ext; [rewrite Hs; reflexivity|rewrite Hp; reflexivity|exact HK2]).
  - unfold msg_remove_validator. destruct (if is_admin s then None else _); [discriminate|]. destruct (_ =? 0); [discriminate|].
    destruct (vals (stk c) !! v) as [vv|]; [|discriminate]. destruct (negb _); [discriminate|].
    destruct (set_poa_power c v 0) as [c1|] eqn:E; [|discriminate]. cbn [mbind].
    assert (H0 : 0 <= 0 <= max_int64) by (unfold max_int64, two63; lia). pose proof (set_poa_power_KB N c v 0 c1 HS HK H0 E) as HK1.
    intros H. apply update_bonded_pool_stk in H as (Hs & Hp & _). eapply KB_ext; [rewrite Hs; reflexivity|rewrite Hp; reflexivity|exact HK1].
  - unfold msg_remove_pending. destruct (negb _); [discriminate|]. intros [= <-]. destruct HK as [A B]. split; [exact A|].
    cbn. intros x Hx. apply B. eapply in_remove_first; eauto.
  - destruct r as [r|], mx as [mx|], ch as [ch|]; try discriminate.
    unfold msg_create_validator.
    destruct (poa_create_validate {| cb_addr_ok := true; cb_has_pubkey := 0 <=? k; cb_desc := {| dl_moniker := mon; dl_identity := 0; dl_website := 0; dl_security := 0; dl_details := 0 |}; cb_rate := Some r; cb_max := Some mx; cb_chg := Some ch |}) eqn:Ev; try discriminate.
    destruct (_ <? _); [discriminate|]. destruct (bool_decide _); [discriminate|]. destruct (bool_decide _); [discriminate|]. destruct (pending_conflict _ _ _); [discriminate|].
    destruct (negb _); [discriminate|]. intros H. apply update_bonded_pool_stk in H as (Hs & Hp & _). destruct HK as [A B]. split; [rewrite Hs; exact A|].
    rewrite Hp. cbn. intros x Hx. apply in_app_or in Hx as [Hx|[<-|[]]]; [apply B; exact Hx|]. cbn. split; [|exact Hkb].
    (* the message's own validation requires a public key, i.e. a key id that is not negative *)
    destruct (Z.leb_spec 0 k) as [Hk|Hk]; [exact Hk|]. exfalso. revert Ev. unfold poa_create_validate. cbn. discriminate.
  - unfold msg_update_params. destruct (negb _); [discriminate|]. destruct (negb _); [discriminate|]. destruct (negb _); [discriminate|].
    intros [= <-]. eapply KB_ext; [| |exact HK]; reflexivity.
  - unfold msg_unjail. destruct (vals (stk c) !! v) as [vv|]; [|discriminate]. destruct (dels (stk c) !! v); [|discriminate].
    destruct (_ =? 0); [discriminate|]. destruct (_ <? _); [discriminate|]. destruct (negb _); [discriminate|].
    destruct (match infos _ !! _ with Some _ => _ | None => _ end); [discriminate|].
    destruct (unjail (stk c) (v_cons vv)) as [s'|] eqn:E; [|discriminate]. intros [= <-].
    unfold unjail in E. destruct (by_cons (stk c) !! v_cons vv) as [id|]; [|discriminate]. destruct (vals (stk c) !! id) as [vj|] eqn:Hvj; [|discriminate].
    destruct (negb _); [discriminate|]. inversion E; subst. destruct (proj1 HK id vj Hvj) as [Hc Ht].
    eapply (KB_update N c _ id (set_jailed vj false) HK); [|reflexivity|exact Hc|exact Ht]. unfold set_index, set_validator. cbn. reflexivity.
  - intros [= <-]. exact HK.
  - intros [= <-]. exact HK.
Qed.

Definition kb_block (N : Z) (b : block) : Prop := Forall (Forall (kb_msg N)) (b_txs b).

Lemma deliver_txs_KB N txs : forall c, Forall (Forall (kb_msg N)) txs -> CI c -> KB N c -> KB N (fst (deliver_txs c txs)).
Proof.
  induction txs as [|tx txs IH]; cbn; intros c Hwt HCI HK; [exact HK|]. inversion Hwt as [|? ? Hw1 Hw2]; subst.
  assert (H1 : KB N (fst (deliver_tx c tx))).
  { unfold deliver_tx. destruct (cur_stk_decorator _ _); [exact HK|]. destruct (cur_wd_decorator _ _); [exact HK|].
    destruct (cur_comm_decorator _ _ _ _ _); try exact HK.
    assert (HKb : KB N (bump_seqs c (dedup (map msg_sender tx)))) by (eapply KB_ext; [| |exact HK]; reflexivity).
    destruct (existsb is_tree tx); [exact HKb|].
    destruct (exec_msgs _ tx) as [c2|] eqn:E; [|exact HKb]. cbn.
    assert (G : forall ms c0 c1, Forall (kb_msg N) ms -> CI c0 -> KB N c0 -> exec_msgs c0 ms = MOk c1 -> KB N c1).
    { induction ms as [|m ms IHm]; cbn; intros c0 c1 Hw Hc Hk; [intros [= <-]; exact Hk|]. inversion Hw; subst.
      destruct (exec_msg c0 m) as [cm|] eqn:Em; [|discriminate]. cbn. apply IHm; [assumption|eapply exec_msg_CI; eauto|eapply exec_msg_KB; eauto]. }
    eapply (G tx _ c2 Hw1 (CI_seqs c _ HCI) HKb E). }
  pose proof (deliver_tx_CI c tx HCI) as HC1. destruct (deliver_tx c tx) as [c1 o]. cbn in *.
  specialize (IH c1 Hw2 HC1 H1). destruct (deliver_txs c1 txs) as [c2 os]. exact IH.
Qed.

(* the EndBlocker does not touch PoA's store; records keep key and tokens *)
Lemma staking_end_block_poa c c' upd : staking_end_block c = EBOk c' upd -> poa c' = poa c.
Proof.
  unfold staking_end_block. destruct (apply_valset_updates c) as [c1 u|] eqn:E1; [|discriminate].
  destruct (unbond_all_mature c1) as [c2|] eqn:E2; [|discriminate]. intros [= <- _].
  assert (M : forall ids c c', mature_ids ids c = Some c' -> poa c' = poa c).
  { induction ids as [|i r IHi]; cbn [mature_ids]; intros x x'; [intros [= <-]; reflexivity|].
    destruct (vals (stk x) !! i) as [v|]; [|discriminate]. destruct (negb _); [discriminate|].
    destruct (v_shares _ =? 0); [destruct (0 <? _); [discriminate|]|]; intros H; apply IHi in H; rewrite H; reflexivity. }
  assert (MS : forall slots c c', mature_slots slots c = Some c' -> poa c' = poa c).
  { induction slots as [|[[t h] ids] rest IH]; cbn [mature_slots]; intros x x'; [intros [= <-]; reflexivity|].
    destruct (_ && _); [|apply IH]. destruct (mature_ids ids x) as [xm|] eqn:E; [|discriminate]. intros H. rewrite (IH _ _ H). eapply M; eauto. }
  unfold unbond_all_mature in E2. rewrite (MS _ _ _ E2).
  unfold apply_valset_updates in E1.
  destruct (apply_loop _ _ _) as [a1|] eqn:L1; [|discriminate]. destruct (unbond_loop _ a1) as [a2|] eqn:L2; [|discriminate].
  destruct (if la_to_bonded a2 =? 0 then _ else _); [|discriminate]. injection E1 as Hc1 _.
  assert (A : forall keys maxv a a', apply_loop keys maxv a = LDone a' -> poa (la_chain a') = poa (la_chain a)).
  { induction keys as [|[p id] ks IH]; intros maxv a a'; cbn [apply_loop]; [intros [= <-]; reflexivity|].
    destruct (_ <=? _); [intros [= <-]; reflexivity|]. destruct (vals _ !! id) as [v|]; [|discriminate].
    destruct (v_jailed v); [apply IH|]. destruct (_ =? 0); [intros [= <-]; reflexivity|].
    destruct (v_status v); unfold bond_validator; cbv beta iota zeta; intros H; apply IH in H; rewrite H; cbn;
      (match goal with |- context [if ?b then _ else _] => destruct b end; reflexivity). }
  assert (B : forall ids a a', unbond_loop ids a = LDone a' -> poa (la_chain a') = poa (la_chain a)).
  { induction ids as [|id rest IH]; intros a a'; cbn [unbond_loop]; [intros [= <-]; reflexivity|].
    destruct (vals _ !! id) as [v|]; [|discriminate]. destruct (negb _); [discriminate|].
    unfold begin_unbonding. cbv beta iota zeta. intros H. apply IH in H. rewrite H. reflexivity. }
  apply A in L1. apply B in L2. cbn in L1. rewrite <- Hc1. destruct (la_upd a2); cbn; congruence.
Qed.

Lemma staking_end_block_KB N c c' upd : KB N c -> staking_end_block c = EBOk c' upd -> KB N c'.
Proof.
  intros [A B] H. pose proof (staking_end_block_poa _ _ _ H) as Hp. pose proof (staking_end_block_cons_back _ _ _ H) as Hcb.
  assert (F : frame (stk c) (stk c')).
  { revert H. unfold staking_end_block. destruct (apply_valset_updates c) as [c1 u|] eqn:E1; [|discriminate].
    destruct (unbond_all_mature c1) as [c2|] eqn:E2; [|discriminate]. intros [= <- _].
    unfold unbond_all_mature in E2. apply mature_slots_frame in E2 as (_ & _ & F2). eapply frame_trans; [|exact F2].
    clear -E1. unfold apply_valset_updates in E1.
    destruct (apply_loop _ _ _) as [a1|] eqn:L1; [|discriminate]. destruct (unbond_loop _ a1) as [a2|] eqn:U1; [|discriminate].
    destruct (if la_to_bonded a2 =? 0 then _ else _); [|discriminate]. inversion E1; subst. clear E1.
    assert (FL : forall keys maxv a a', apply_loop keys maxv a = LDone a' -> frame (stk (la_chain a)) (stk (la_chain a'))).
    { induction keys as [|[p id] ks IH]; intros maxv a a'; cbn [apply_loop]; [intros [= <-]; apply frame_refl|].
      destruct (_ <=? _); [intros [= <-]; apply frame_refl|]. destruct (vals _ !! id) as [v|] eqn:Hv; [|discriminate].
      destruct (v_jailed v); [apply IH|]. destruct (_ =? 0); [intros [= <-]; apply frame_refl|].
      pose proof (bond_validator_vals (la_chain a) id v) as (H1 & H2 & H3).
      destruct (v_status v); cbn zeta.
      - destruct (bond_validator (la_chain a) id v) as [cb vb]. cbn in H1, H2. subst vb. intros H. apply IH in H. eapply frame_trans; [|exact H]. cbn [la_chain].
        apply (frame_insert _ _ id v (set_status v Bonded) Hv); [|reflexivity|reflexivity]. destruct (match la_last a !! id with Some old => _ | None => true end); exact H1.
      - destruct (bond_validator (la_chain a) id v) as [cb vb]. cbn in H1, H2. subst vb. intros H. apply IH in H. eapply frame_trans; [|exact H]. cbn [la_chain].
        apply (frame_insert _ _ id v (set_status v Bonded) Hv); [|reflexivity|reflexivity]. destruct (match la_last a !! id with Some old => _ | None => true end); exact H1.
      - intros H. apply IH in H. eapply frame_trans; [|exact H]. cbn [la_chain]. apply frame_vals_eq. destruct (match la_last a !! id with Some old => _ | None => true end); reflexivity. }
    apply FL in L1. apply unbond_loop_last in U1 as [_ U1]. cbn in L1.
    eapply frame_trans; [exact L1|]. eapply frame_trans; [exact U1|]. apply frame_vals_eq. destruct (la_upd a2); reflexivity. }
  split; [|rewrite Hp; exact B]. intros id v' Hv'. destruct (proj1 F id v' Hv') as (v & Hv & _ & Ht). destruct (Hcb id v' Hv') as (v2 & Hv2 & Hc).
  rewrite Hv in Hv2. inversion Hv2; subst v2. destruct (A id v Hv) as [Ac At]. rewrite <- Hc, Ht. auto.
Qed.

(* ---- CometBFT's total-power test ---- *)
Lemma folds_are_apply_updates vs upd : List.NoDup (map fst upd) ->
  fold_left (fun m u => <[fst u := snd u]> m) (filter (fun u : Z * Z => negb (snd u =? 0)) upd)
    (fold_left (fun m u => delete (fst u) m) (filter (fun u : Z * Z => snd u =? 0) upd) vs) = apply_updates vs upd.
Proof.
  intros Hnd. set (deletes := filter (fun u : Z * Z => snd u =? 0) upd). set (updates := filter (fun u : Z * Z => negb (snd u =? 0)) upd).
  apply map_eq. intros k.
  rewrite fold_insert_lookup by (apply nodup_filter_fst; exact Hnd). rewrite fold_delete_lookup. rewrite apply_updates_lookup by exact Hnd.
  destruct (lookup_upd k upd) as [p|] eqn:El.
  - apply lookup_upd_some in El. destruct (Z.eqb_spec p 0) as [->|Hnz].
    + assert (Hd : In (k, 0) deletes) by (apply filter_In; auto).
      assert (Hu : lookup_upd k updates = None).
      { apply lookup_upd_none. intros Hin. apply in_map_iff in Hin as ([k2 p2] & Hk & Hin). cbn in Hk. subst k2. apply filter_In in Hin as [Hin Hp].
        assert (p2 = 0); [|subst; discriminate]. pose proof (lookup_upd_in k upd p2 Hnd Hin) as E1. pose proof (lookup_upd_in k upd 0 Hnd El) as E2. congruence. }
      rewrite Hu. rewrite (proj2 (existsb_eqb_in k (map fst deletes))); [reflexivity|]. apply in_map_iff. exists (k, 0). auto.
    + assert (Hu : In (k, p) updates) by (apply filter_In; split; [exact El|]; cbn; apply negb_true_iff; apply Z.eqb_neq; exact Hnz).
      rewrite (lookup_upd_in k updates p); [reflexivity|apply nodup_filter_fst; exact Hnd|exact Hu].
  - apply lookup_upd_none in El.
    assert (Hu : lookup_upd k updates = None).
    { apply lookup_upd_none. intros Hin. apply El. apply in_map_iff in Hin as (x & Hx & Hin). apply filter_In in Hin as [Hin _]. apply in_map_iff. eauto. }
    rewrite Hu. destruct (existsb (Z.eqb k) (map fst deletes)) eqn:Ex; [|reflexivity]. exfalso. apply existsb_eqb_in in Ex. revert Ex.
    intros Hin. apply El. apply in_map_iff in Hin as (x & Hx & Hin). apply filter_In in Hin as [Hin _]. apply in_map_iff. eauto.
Qed.

Lemma comet_apply_not_too_large vs upd :
  List.NoDup (map fst upd) -> (forall k p, In (k, p) upd -> p <= max_total_voting_power) ->
  tsum (apply_updates vs upd) <= max_total_voting_power -> comet_apply vs upd <> inr 5.
Proof.
  intros Hnd Hsmall Htot. unfold comet_apply. destruct upd as [|u0 upd0] eqn:Eu; [discriminate|]. rewrite <- Eu in *. clear Eu u0 upd0. cbn zeta.
  destruct (has_dup _); [discriminate|]. destruct (existsb (fun u : Z * Z => snd u <? 0) upd); [discriminate|].
  assert (He : existsb (fun u : Z * Z => max_total_voting_power <? snd u) upd = false).
  { apply not_true_is_false. intros He. apply existsb_exists in He as ([k p] & Hin & Hlt). cbn in Hlt. apply Z.ltb_lt in Hlt. specialize (Hsmall k p Hin). lia. }
  rewrite He. destruct (_ && _); [discriminate|]. destruct (existsb _ _); [discriminate|].
  rewrite (folds_are_apply_updates vs upd Hnd).
  match goal with |- context [if ?b then inr 3 else _] => destruct b end; [discriminate|].
  match goal with |- context [if ?b then _ else _] => destruct b eqn:E end; [|discriminate].
  exfalso. apply Z.ltb_lt in E. unfold tsum in Htot. lia.
Qed.

Definition max_power_one : Z := max_int64 / 1000000.

(* one block: the new set's total is within the bound *)
Theorem block_not_too_large N w b :
  0 <= N -> N * max_power_one <= max_total_voting_power ->
  WI w -> KB N (w_chain w) -> kb_block N b -> w_halted w = None -> w_halted (fst (run_block w b)) <> Some (HComet 5).
Proof.
  intros HN0 HN [HCI Hrel] HK Hkb Hh. specialize (Hrel Hh). unfold run_block. rewrite Hh.
  set (c0 := with_clock (w_chain w) (height (w_chain w) + 1) (now (w_chain w) + b_dt b)).
  assert (H0 : CI c0) by (apply CI_clock; exact HCI). assert (K0 : KB N c0) by exact HK.
  destruct (begin_block c0 _ (b_absent b) (b_evidence b)) as [c1|e] eqn:Eb; [|discriminate].
  pose proof (begin_block_CI _ _ _ _ _ H0 Eb) as H1. pose proof (begin_block_MS _ _ _ _ _ Eb) as M1. pose proof (begin_block_KB N _ _ _ _ _ K0 Eb) as K1.
  pose proof (deliver_txs_CI (b_txs b) c1 H1) as H2. pose proof (deliver_txs_MS (b_txs b) c1 H1) as M2. pose proof (deliver_txs_KB N (b_txs b) c1 Hkb H1 K1) as K2.
  destruct (deliver_txs c1 (b_txs b)) as [c2 outs]. cbn in H2, M2, K2.
  assert (Hrel2 : comet_rel (stk c2) (c_next (w_comet w))).
  { eapply comet_rel_stable; [exact M2|]. eapply comet_rel_stable; [exact M1|]. exact Hrel. }
  destruct (staking_end_block c2) as [c3 upd|e] eqn:Ee; [|discriminate].
  pose proof (staking_end_block_CI _ _ _ H2 Ee) as H3. pose proof (staking_end_block_KB N _ _ _ K2 Ee) as K3.
  pose proof (staking_end_block_sound _ _ _ H2 Ee) as Hmem.
  (* the new set, member by member *)
  assert (Hrel3 : comet_rel (stk c3) (apply_updates (c_next (w_comet w)) upd)).
  { revert Ee. unfold staking_end_block. destruct (apply_valset_updates c2) as [cx u|] eqn:Ea; [|discriminate].
    destruct (unbond_all_mature cx) as [cy|] eqn:Em; [|discriminate]. intros [= <- <-].
    pose proof (apply_valset_updates_CI _ _ _ H2 Ea) as Hx. unfold unbond_all_mature in Em.
    eapply comet_rel_stable; [exact (off_members_MS _ _ (mature_slots_off _ _ _ Hx Em))|]. exact (apply_valset_updates_comet c2 cx u _ H2 Hrel2 Ea). }
  destruct H2 as [HS2 HP2].
  pose proof (apply_valset_updates_safe c2 (si_sound _ HS2) (si_unique _ HS2) (si_cons _ HS2) (si_last _ HS2) (si_tok _ HS2)) as Hsafe.
  assert (Hnd : List.NoDup (map fst upd)).
  { revert Ee Hsafe. unfold staking_end_block. destruct (apply_valset_updates c2) as [cx u|]; [|discriminate]. destruct (unbond_all_mature cx); [|discriminate]. intros [= _ <-] [Hn _]. exact Hn. }
  assert (Hval : forall k p, apply_updates (c_next (w_comet w)) upd !! k = Some p -> 0 <= k < N /\ 0 <= p <= max_power_one).
  { intros k p Hk. apply (Hrel3 k p) in Hk as (id & v & Hv & Hkv & Hl). destruct (Hmem id p Hl) as (v' & Hv' & _ & Hp & Hpos).
    rewrite Hv in Hv'. inversion Hv'; subst v'. destruct (proj1 K3 id v Hv) as [Hc Ht]. split; [rewrite <- Hkv; exact Hc|]. split; [lia|].
    subst p. unfold v_power, tokens_to_power, power_reduction, max_power_one. apply Z.div_le_mono; [lia|exact Ht]. }
  assert (Htot : tsum (apply_updates (c_next (w_comet w)) upd) <= max_total_voting_power).
  { assert (Hmp : 0 <= max_power_one) by (unfold max_power_one, max_int64, two63; apply Z.div_pos; lia).
    pose proof (tsum_bound max_power_one Hmp (Z.to_nat N) (apply_updates (c_next (w_comet w)) upd)) as Hb.
    rewrite Z2Nat.id in Hb by exact HN0. specialize (Hb Hval). lia. }
  assert (Hsmall : forall k p, In (k, p) upd -> p <= max_total_voting_power).
  { intros k p Hin. destruct (Z.eq_dec p 0) as [->|Hp]; [unfold max_total_voting_power, max_int64, two63; apply Z.div_pos; lia|].
    assert (Hk : apply_updates (c_next (w_comet w)) upd !! k = Some p).
    { rewrite apply_updates_lookup by exact Hnd. rewrite (lookup_upd_in k upd p Hnd Hin). destruct (Z.eqb_spec p 0); [contradiction|reflexivity]. }
    destruct (Hval k p Hk) as [_ [_ Hle]].
    assert (max_power_one <= max_total_voting_power) by (vm_compute; discriminate). lia. }
  pose proof (comet_apply_not_too_large (c_next (w_comet w)) upd Hnd Hsmall Htot) as Hn5.
  destruct (comet_apply (c_next (w_comet w)) upd) as [nn|e]; cbn; [discriminate|]. intros [= ->]. congruence.
Qed.

(* ---- genesis and histories ---- *)
Lemma apply_valset_updates_back c c' upd : apply_valset_updates c = EBOk c' upd ->
  forall id v', vals (stk c') !! id = Some v' -> exists v, vals (stk c) !! id = Some v /\ v_cons v = v_cons v' /\ v_tokens v' = v_tokens v.
Proof.
  intros E1. unfold apply_valset_updates in E1.
  destruct (apply_loop _ _ _) as [a1|] eqn:L1; [|discriminate]. destruct (unbond_loop _ a1) as [a2|] eqn:U1; [|discriminate].
  destruct (if la_to_bonded a2 =? 0 then _ else _); [|discriminate]. injection E1 as Hc1 _.
  assert (FL : forall keys maxv a a', apply_loop keys maxv a = LDone a' -> frame (stk (la_chain a)) (stk (la_chain a'))).
  { induction keys as [|[p id] ks IH]; intros maxv a a'; cbn [apply_loop]; [intros [= <-]; apply frame_refl|].
    destruct (_ <=? _); [intros [= <-]; apply frame_refl|]. destruct (vals _ !! id) as [v|] eqn:Hv; [|discriminate].
    destruct (v_jailed v); [apply IH|]. destruct (_ =? 0); [intros [= <-]; apply frame_refl|].
    pose proof (bond_validator_vals (la_chain a) id v) as (H1 & H2 & H3).
    destruct (v_status v); cbn zeta.
    - destruct (bond_validator (la_chain a) id v) as [cb vb]. cbn in H1, H2. subst vb. intros H. apply IH in H. eapply frame_trans; [|exact H]. cbn [la_chain].
      apply (frame_insert _ _ id v (set_status v Bonded) Hv); [|reflexivity|reflexivity]. destruct (match la_last a !! id with Some old => _ | None => true end); exact H1.
    - destruct (bond_validator (la_chain a) id v) as [cb vb]. cbn in H1, H2. subst vb. intros H. apply IH in H. eapply frame_trans; [|exact H]. cbn [la_chain].
      apply (frame_insert _ _ id v (set_status v Bonded) Hv); [|reflexivity|reflexivity]. destruct (match la_last a !! id with Some old => _ | None => true end); exact H1.
    - intros H. apply IH in H. eapply frame_trans; [|exact H]. cbn [la_chain]. apply frame_vals_eq. destruct (match la_last a !! id with Some old => _ | None => true end); reflexivity. }
  pose proof (FL _ _ _ _ L1) as F1. cbn in F1. pose proof (unbond_loop_last _ _ _ U1) as [_ F2].
  destruct (apply_loop_facts _ _ _ _ L1) as (_ & _ & [_ C1]). cbn in C1. pose proof (unbond_loop_cons_back _ _ _ U1) as C2.
  assert (Hv : vals (stk c') = vals (stk (la_chain a2))) by (rewrite <- Hc1; destruct (la_upd a2); reflexivity).
  intros id v' Hv'. rewrite Hv in Hv'.
  destruct (proj1 (frame_trans _ _ _ F1 F2) id v' Hv') as (v & Hvv & _ & Ht).
  destruct (cons_back_trans _ _ _ C1 C2 id v' Hv') as (v2 & Hv2 & Hc). rewrite Hvv in Hv2. inversion Hv2; subst v2. exists v. auto.
Qed.

Definition wf_genesis_bounded (N : Z) (g : genesis) : Prop :=
  Forall (fun t => 0 <= t <= max_int64) (g_tokens g) /\ Z.of_nat (length (g_tokens g)) <= N.

Lemma enumerate_from_range i l k t : In (k, t) (enumerate_from i l) -> i <= k < i + Z.of_nat (length l) /\ In t l.
Proof.
  revert i. induction l as [|x l IH]; cbn; intros i; [intros []|]. intros [Heq|Hin].
  - inversion Heq; subst. split; [lia|auto].
  - destruct (IH _ Hin) as [A B]. split; [lia|auto].
Qed.

Lemma init_world_KB N g : wf_genesis_bounded N g -> KB N (w_chain (init_world g)).
Proof.
  intros [Htok Hlen].
  assert (K0 : forall id v, vals (stk (genesis_chain g)) !! id = Some v -> 0 <= v_cons v < N /\ v_tokens v <= max_int64).
  { intros id v Hv. cbn in Hv. apply list_to_map_lookup_inv in Hv. apply in_map_iff in Hv as ([i t] & Heq & Hin). cbn in Heq. inversion Heq; subst. cbn.
    destruct (enumerate_from_range _ _ _ _ Hin) as [Hr Ht]. rewrite Forall_forall in Htok. specialize (Htok t Ht). lia. }
  unfold init_world. fold (genesis_chain g).
  destruct (apply_valset_updates (genesis_chain g)) as [c1 upd|e] eqn:E; cbn; [|split; [exact K0|intros p []]].
  split; [|cbn; intros p []]. cbn. intros id v' Hv'. destruct (apply_valset_updates_back _ _ _ E id v' Hv') as (v & Hv & Hc & Ht).
  destruct (K0 id v Hv) as [A B]. rewrite <- Hc, Ht. auto.
Qed.

Lemma run_block_KB N w b : CI (w_chain w) -> KB N (w_chain w) -> kb_block N b -> KB N (w_chain (fst (run_block w b))).
Proof.
  intros HCI HK Hkb. unfold run_block. destruct (w_halted w); [exact HK|].
  set (c0 := with_clock (w_chain w) (height (w_chain w) + 1) (now (w_chain w) + b_dt b)).
  assert (H0 : CI c0) by (apply CI_clock; exact HCI). assert (K0 : KB N c0) by exact HK.
  destruct (begin_block c0 _ (b_absent b) (b_evidence b)) as [c1|e] eqn:Eb; [|exact K0].
  pose proof (begin_block_CI _ _ _ _ _ H0 Eb) as H1. pose proof (begin_block_KB N _ _ _ _ _ K0 Eb) as K1.
  pose proof (deliver_txs_CI (b_txs b) c1 H1) as H2. pose proof (deliver_txs_KB N (b_txs b) c1 Hkb H1 K1) as K2.
  destruct (deliver_txs c1 (b_txs b)) as [c2 outs]. cbn in H2, K2.
  destruct (staking_end_block c2) as [c3 upd|e] eqn:Ee; [|exact K2].
  pose proof (staking_end_block_KB N _ _ _ K2 Ee) as K3. destruct (comet_apply _ upd); exact K3.
Qed.

(* with consensus keys drawn from a pool of N (N * (2^63-1)/10^6 within CometBFT's bound, i.e. N <= 125000) and genesis
   amounts below 2^63, no block's updates are refused for exceeding the maximum total voting power *)
Theorem history_never_too_large N g bs :
  wf_genesis g -> wf_genesis_bounded N g -> 0 <= N -> N * max_power_one <= max_total_voting_power -> Forall (kb_block N) bs ->
  w_halted (run_world (init_world g) bs) <> Some (HComet 5).
Proof.
  intros Hwf Hb HN0 HN Hkb. pose proof (init_world_WI g Hwf) as HW. pose proof (init_world_KB N g Hb) as HK.
  assert (H0 : w_halted (init_world g) <> Some (HComet 5)) by (rewrite (init_world_not_halted g Hwf); discriminate).
  revert HW HK H0. generalize (init_world g). induction Hkb as [|b bs Hb1 Hbs IH]; cbn; intros w HW HK H0; [exact H0|].
  apply IH; [apply run_block_WI; exact HW|apply run_block_KB; [apply HW|exact HK|exact Hb1]|].
  destruct (w_halted w) as [r|] eqn:Hh.
  - unfold run_block. rewrite Hh. cbn. rewrite Hh. exact H0.
  - apply (block_not_too_large N); auto.
Qed.

Example pool_of_125000_is_fine : 125000 * max_power_one <= max_total_voting_power.
Proof. vm_compute. discriminate. Qed.

(* nothing left: under the environment hypotheses no history halts *)
Theorem history_never_halts_at_all m N g bs :
  wf_genesis g -> wf_genesis_bounded N g -> 0 <= N -> N * max_power_one <= max_total_voting_power ->
  1 <= g_max_vals g -> 1 <= m -> m <= g_unbond_secs g -> 0 <= g_slash_down_bp g -> 0 <= g_slash_dbl_bp g ->
  Forall (ut_block m) bs -> Forall (kb_block N) bs -> env_ok (init_world g) bs -> ev_env (init_world g) bs ->
  w_halted (run_world (init_world g) bs) = None.
Proof.
  intros Hwf Hb HN0 HN Hcap Hm Hmu Hbp Hbp2 Hut Hkb Henv Hev.
  destruct (history_never_halts m g bs Hwf Hcap Hm Hmu Hbp Hbp2 Hut Henv Hev) as [H|H]; [exact H|].
  exfalso. exact (history_never_too_large N g bs Hwf Hb HN0 HN Hkb H).
Qed.
