(* InvBegin.v — BeginBlock never returns an error. The validators whose votes a block carries (the set of two blocks
   before) still have their records, are not Unbonded and have signing infos, provided an unbonding period is longer
   than a block interval (H-time: the environment's hypothesis, stated explicitly): so x/distribution finds every voter
   (1) and x/slashing finds what it needs, can slash and can jail (2). *)
From stdpp Require Import gmap.
Require Import Model.Base Model.Ante Model.Validate Model.Current Model.State Model.Staking Model.Slashing Model.Poa Model.App.
Require Import proofs.EvBasic proofs.Inv proofs.InvIdx proofs.L1Effects proofs.InvPres proofs.InvMsgs proofs.InvHistory proofs.InvQueue proofs.InvPools proofs.InvComet proofs.InvElig proofs.InvLive.
Open Scope Z_scope.

(* records persist with their key and unbonding time; a status changes at most to Bonded; signing infos persist *)
Definition rstable (c c' : chain) : Prop :=
  (forall id v, vals (stk c) !! id = Some v ->
     exists v', vals (stk c') !! id = Some v' /\ v_cons v' = v_cons v /\ v_ubtime v' = v_ubtime v /\
                (v_status v' = v_status v \/ v_status v' = Bonded)) /\
  (forall k, is_Some (infos (sl c) !! k) -> is_Some (infos (sl c') !! k)) /\
  now c' = now c.

(* every validator that is bonded or unbonding (that has been in the set) has a signing info *)
Definition BInfo (c : chain) : Prop :=
  forall id v, vals (stk c) !! id = Some v -> v_status v <> Unbonded -> is_Some (infos (sl c) !! v_cons v).

Lemma rstable_refl c : rstable c c.
Proof. split; [|split]; auto. intros id v H. exists v. auto. Qed.

Lemma rstable_trans c1 c2 c3 : rstable c1 c2 -> rstable c2 c3 -> rstable c1 c3.
Proof.
  intros (A1 & B1 & C1) (A2 & B2 & C2). split; [|split]; [|auto|congruence].
  intros id v H. destruct (A1 id v H) as (v2 & H2 & E1 & E2 & E3). destruct (A2 id v2 H2) as (v3 & H3 & F1 & F2 & F3).
  exists v3. split; [exact H3|]. split; [congruence|]. split; [congruence|]. destruct F3 as [F3|F3]; [|right; exact F3]. destruct E3 as [E3|E3]; [left|right]; congruence.
Qed.

Lemma rstable_same c c' : vals (stk c') = vals (stk c) -> infos (sl c') = infos (sl c) -> now c' = now c -> rstable c c'.
Proof. intros Hv Hi Hn. split; [|split]; [|rewrite Hi; auto|exact Hn]. intros id v H. exists v. rewrite Hv. auto. Qed.

Lemma rstable_insert c c' id v v' :
  vals (stk c) !! id = Some v -> vals (stk c') = <[id := v']> (vals (stk c)) ->
  v_cons v' = v_cons v -> v_ubtime v' = v_ubtime v -> (v_status v' = v_status v \/ v_status v' = Bonded) ->
  (forall k, is_Some (infos (sl c) !! k) -> is_Some (infos (sl c') !! k)) -> now c' = now c -> rstable c c'.
Proof.
  intros Hv Hvals Hc Hu Hs Hi Hn. split; [|split]; [|exact Hi|exact Hn].
  intros j w Hw. rewrite Hvals. destruct (decide (j = id)) as [->|Hne].
  - rewrite lookup_insert. rewrite Hv in Hw. inversion Hw; subst w. exists v'. auto.
  - rewrite lookup_insert_ne by auto. exists w. auto.
Qed.

Lemma BInfo_same c c' : vals (stk c') = vals (stk c) -> (forall k, is_Some (infos (sl c) !! k) -> is_Some (infos (sl c') !! k)) -> BInfo c -> BInfo c'.
Proof. intros Hv Hi HB id v. rewrite Hv. intros H Hs. apply Hi. eapply HB; eauto. Qed.

Lemma BInfo_insert c c' id v v' :
  BInfo c -> vals (stk c) !! id = Some v -> vals (stk c') = <[id := v']> (vals (stk c)) -> v_cons v' = v_cons v ->
  (v_status v' <> Unbonded -> v_status v <> Unbonded \/ is_Some (infos (sl c') !! v_cons v)) ->
  (forall k, is_Some (infos (sl c) !! k) -> is_Some (infos (sl c') !! k)) -> BInfo c'.
Proof.
  intros HB Hv Hvals Hc Hst Hi j w. rewrite Hvals. destruct (decide (j = id)) as [->|Hne].
  - rewrite lookup_insert. intros [= <-] Hs. rewrite Hc. destruct (Hst Hs) as [Hb|Hb]; [apply Hi; eapply HB; eauto|exact Hb].
  - rewrite lookup_insert_ne by auto. intros Hw Hs. apply Hi. eapply HB; eauto.
Qed.

(* ---- Slash, Jail, Unjail ---- *)
Lemma slash_rstable c k p f c' : slash c k p f = Some c' -> rstable c c' /\ (BInfo c -> BInfo c').
Proof.
  unfold slash. destruct (f <? 0); [discriminate|].
  destruct (by_cons (stk c) !! k) as [id|]; [|intros [= <-]; split; [apply rstable_refl|auto]].
  destruct (vals (stk c) !! id) as [v|] eqn:Hv; [|intros [= <-]; split; [apply rstable_refl|auto]].
  destruct (status_eqb (v_status v) Unbonded); [discriminate|].
  destruct (_ =? 0); [intros [= <-]; split; [apply rstable_refl|auto]|].
  destruct (if status_eqb (v_status v) Bonded then _ else _); [|discriminate]. intros [= <-].
  set (v' := set_tokens v (v_tokens v - _)).
  assert (Hvals : vals (stk (with_bk (with_stk c (set_index (set_validator (del_index (stk c) id v) id v') id v')) b)) = <[id := v']> (vals (stk c))).
  { cbn. unfold set_index, set_validator, del_index. cbn. destruct (v_jailed v); reflexivity. }
  split.
  - eapply rstable_insert; [exact Hv|exact Hvals|reflexivity|reflexivity|left; reflexivity|auto|reflexivity].
  - intros HB. eapply BInfo_insert; [exact HB|exact Hv|exact Hvals|reflexivity|intros Hs; left; exact Hs|auto].
Qed.

Lemma jail_rstable c k s' : jail (stk c) k = Some s' -> rstable c (with_stk c s') /\ (BInfo c -> BInfo (with_stk c s')).
Proof.
  unfold jail. destruct (by_cons (stk c) !! k) as [id|]; [|discriminate]. destruct (vals (stk c) !! id) as [v|] eqn:Hv; [|discriminate].
  destruct (v_jailed v); [discriminate|]. intros [= <-]. split.
  - eapply rstable_insert; [exact Hv|reflexivity|reflexivity|reflexivity|left; reflexivity|auto|reflexivity].
  - intros HB. eapply BInfo_insert; [exact HB|exact Hv|reflexivity|reflexivity|intros Hs; left; exact Hs|auto].
Qed.

Lemma unjail_rstable c k s' : unjail (stk c) k = Some s' -> rstable c (with_stk c s') /\ (BInfo c -> BInfo (with_stk c s')).
Proof.
  unfold unjail. destruct (by_cons (stk c) !! k) as [id|]; [|discriminate]. destruct (vals (stk c) !! id) as [v|] eqn:Hv; [|discriminate].
  destruct (negb _); [discriminate|]. intros [= <-].
  assert (Hvals : vals (stk (with_stk c (set_index (set_validator (stk c) id (set_jailed v false)) id (set_jailed v false)))) = <[id := set_jailed v false]> (vals (stk c))).
  { unfold set_index, set_validator. cbn. reflexivity. }
  split.
  - eapply rstable_insert; [exact Hv|exact Hvals|reflexivity|reflexivity|left; reflexivity|auto|reflexivity].
  - intros HB. eapply BInfo_insert; [exact HB|exact Hv|exact Hvals|reflexivity|intros Hs; left; exact Hs|auto].
Qed.

Lemma infos_set_info l k i : forall x, is_Some (infos l !! x) -> is_Some (infos (set_info l k i) !! x).
Proof. intros x H. cbn. destruct (decide (x = k)) as [->|Hne]; [rewrite lookup_insert; eauto|rewrite lookup_insert_ne by auto; exact H]. Qed.

Lemma handle_signature_rstable c k p sg c' : handle_signature c k p sg = Some c' -> rstable c c' /\ (BInfo c -> BInfo c').
Proof.
  unfold handle_signature. destruct (by_cons (stk c) !! k) as [id|]; [|discriminate].
  destruct (vals (stk c) !! id) as [v|]; [|discriminate]. destruct (v_jailed v); [intros [= <-]; split; [apply rstable_refl|auto]|].
  destruct (infos (sl c) !! k) as [i|]; [|discriminate].
  destruct (if negb _ && negb sg then _ else _) as [bm' cnt].
  destruct (_ && _).
  - destruct (slash c k p _) as [c1|] eqn:Es; [|discriminate]. destruct (jail (stk c1) k) as [s2|] eqn:Ej; [|discriminate].
    intros [= <-]. destruct (slash_rstable _ _ _ _ _ Es) as [R1 B1]. destruct (jail_rstable _ _ _ Ej) as [R2 B2].
    assert (R3 : rstable (with_stk c1 s2) (with_sl (with_stk c1 s2) (set_info (del_bitmap (sl c1) k) k {| si_start := si_start i; si_index := 0; si_until := now c + slp_jail (slparams (sl c)); si_tomb := si_tomb i; si_missed := 0 |}))).
    { split; [|split]; [intros j w Hw; exists w; auto| |reflexivity]. intros x Hx. apply infos_set_info. exact Hx. }
    split; [eapply rstable_trans; [exact R1|eapply rstable_trans; [exact R2|exact R3]]|].
    intros HB. eapply (BInfo_same (with_stk c1 s2)); [reflexivity| |exact (B2 (B1 HB))]. intros x Hx. apply infos_set_info. exact Hx.
  - intros [= <-]. split.
    + split; [|split]; [intros j w Hw; exists w; auto| |reflexivity]. intros x Hx. apply infos_set_info. exact Hx.
    + intros HB. eapply (BInfo_same c); [reflexivity| |exact HB]. intros x Hx. apply infos_set_info. exact Hx.
Qed.

Lemma handle_votes_rstable votes absent : forall c c', handle_votes votes absent c = Some c' -> rstable c c' /\ (BInfo c -> BInfo c').
Proof.
  induction votes as [|[k p] vs IH]; cbn; intros c c'; [intros [= <-]; split; [apply rstable_refl|auto]|].
  destruct (handle_signature c k p _) as [c1|] eqn:E; [|discriminate]. intros H.
  destruct (handle_signature_rstable _ _ _ _ _ E) as [R1 B1]. destruct (IH _ _ H) as [R2 B2].
  split; [eapply rstable_trans; eauto|auto].
Qed.

Lemma handle_evidence_rstable c e c' : handle_evidence c e = Some c' -> rstable c c' /\ (BInfo c -> BInfo c').
Proof.
  intros H. apply handle_evidence_cases in H as [->|(id & v & i & c1 & s2 & _ & _ & _ & _ & _ & _ & Es & Hj & ->)]; [split; [apply rstable_refl|auto]|].
  destruct (slash_rstable _ _ _ _ _ Es) as [R1 B1].
  assert (R3 : rstable (with_stk c1 s2) (with_sl (with_stk c1 s2) (set_info (sl c1) (ev_cons e) (tombstoned i)))).
  { split; [|split]; [intros j w Hw; exists w; auto| |reflexivity]. intros x Hx. apply infos_set_info. exact Hx. }
  destruct Hj as [[_ ->]|[_ Ej]].
  - assert (E1 : with_stk c1 (stk c1) = c1) by (destruct c1; reflexivity). rewrite E1 in *.
    split; [eapply rstable_trans; [exact R1|exact R3]|].
    intros HB. eapply (BInfo_same c1); [reflexivity| |exact (B1 HB)]. intros x Hx. apply infos_set_info. exact Hx.
  - destruct (jail_rstable _ _ _ Ej) as [R2 B2].
    split; [eapply rstable_trans; [exact R1|eapply rstable_trans; [exact R2|exact R3]]|].
    intros HB. eapply (BInfo_same (with_stk c1 s2)); [reflexivity| |exact (B2 (B1 HB))]. intros x Hx. apply infos_set_info. exact Hx.
Qed.

Lemma handle_evidences_rstable evs : forall c c', handle_evidences evs c = Some c' -> rstable c c' /\ (BInfo c -> BInfo c').
Proof.
  induction evs as [|e rest IH]; cbn; intros c c'; [intros [= <-]; split; [apply rstable_refl|auto]|].
  destruct (handle_evidence c e) as [c1|] eqn:E; [|discriminate]. intros H.
  destruct (handle_evidence_rstable _ _ _ E) as [R1 B1]. destruct (IH _ _ H) as [R2 B2].
  split; [eapply rstable_trans; eauto|auto].
Qed.

Lemma begin_block_rstable c votes absent evs c' : begin_block c votes absent evs = inl c' -> rstable c c' /\ (BInfo c -> BInfo c').
Proof.
  unfold begin_block. destruct (_ && _); [discriminate|]. destruct (handle_votes votes absent c) as [c1|] eqn:E; [|discriminate].
  destruct (handle_evidences evs c1) as [c2|] eqn:E2; [|discriminate].
  intros [= <-]. destruct (handle_votes_rstable _ _ _ _ E) as [R B]. destruct (handle_evidences_rstable _ _ _ E2) as [R' B'].
  unfold poa_begin_block. destruct (1 <? height c2); [|split; [eapply rstable_trans; eauto|auto]].
  split; [eapply rstable_trans; [exact R|eapply rstable_trans; [exact R'|apply rstable_same; reflexivity]]|].
  intros HB. eapply (BInfo_same c2); [reflexivity|auto|exact (B' (B HB))].
Qed.

(* ---- PoA messages ---- *)
Lemma set_poa_power_rstable c val n c' :
  SI (stk c) -> set_poa_power c val n = MOk c' ->
  rstable c c' /\ (BInfo c -> (forall v, vals (stk c) !! val = Some v -> is_Some (infos (sl c) !! v_cons v)) -> BInfo c').
Proof.
  intros HS H. pose proof (set_poa_power_others _ _ _ _ HS H) as Hoth. destruct (set_poa_power_target _ _ _ _ H) as (v & Hv & Hv').
  assert (Hsl : forall k, is_Some (infos (sl c) !! k) -> is_Some (infos (sl c') !! k)).
  { revert H. unfold set_poa_power. rewrite Hv. destruct (_ =? _); [discriminate|]. destruct (_ && _).
    - destruct (slash _ _ _ _) as [c2|] eqn:Es; [|discriminate]. cbn [mbind]. intros H. apply update_validator_set_spec in H as (_ & _ & _ & _ & _ & _ & _ & _ & Hsl & _).
      rewrite Hsl. cbn. apply slash_frame in Es as (Hs2 & _). rewrite Hs2. cbn. auto.
    - cbn [mbind]. intros H. apply update_validator_set_spec in H as (_ & _ & _ & _ & _ & _ & _ & _ & Hsl & _). rewrite Hsl. cbn. auto. }
  assert (Hnow : now c' = now c).
  { revert H. unfold set_poa_power. rewrite Hv. destruct (_ =? _); [discriminate|]. destruct (_ && _).
    - destruct (slash _ _ _ _) as [c2|] eqn:Es; [|discriminate]. cbn [mbind]. unfold update_validator_set. intros H. apply update_bonded_pool_spec in H as (_ & _ & _ & _ & _ & Hn & _).
      rewrite Hn. cbn. apply slash_frame in Es as (_ & _ & _ & _ & Hn2 & _). rewrite Hn2. reflexivity.
    - cbn [mbind]. unfold update_validator_set. intros H. apply update_bonded_pool_spec in H as (_ & _ & _ & _ & _ & Hn & _). rewrite Hn. reflexivity. }
  split.
  - split; [|split]; [|exact Hsl|exact Hnow]. intros j w Hw. destruct (decide (j = val)) as [->|Hne].
    + rewrite Hv in Hw. inversion Hw; subst w. eexists. split; [exact Hv'|]. cbn. auto.
    + exists w. rewrite (Hoth j Hne). auto.
  - intros HB Hinfo j w Hw Hs. destruct (decide (j = val)) as [->|Hne].
    + rewrite Hv' in Hw. inversion Hw; subst w. cbn. apply Hsl. apply Hinfo. exact Hv.
    + rewrite (Hoth j Hne) in Hw. apply Hsl. eapply HB; eauto.
Qed.

Lemma accept_rstable c p c' :
  vals (stk c) !! p_oper p = None -> accept_new_validator c p = MOk c' ->
  rstable c c' /\ (BInfo c -> BInfo c') /\
  (exists v, vals (stk c') !! p_oper p = Some v /\ v_cons v = p_cons p) /\ is_Some (infos (sl c') !! p_cons p).
Proof.
  intros Hnv. unfold accept_new_validator. intros H. apply update_bonded_pool_spec in H as (Hs & Hl & _ & _ & _ & Hn & _).
  assert (Hinf : forall k, is_Some (infos (sl c) !! k) -> is_Some (infos (sl c') !! k)) by (rewrite Hl; cbn; intros k Hk; apply infos_set_info; exact Hk).
  split; [|split; [|split]].
  - split; [|split]; [|exact Hinf|rewrite Hn; reflexivity]. intros j w Hw. exists w. rewrite Hs. cbn. rewrite lookup_insert_ne; [auto|]. intros <-. congruence.
  - intros HB j w. rewrite Hs. cbn. destruct (decide (j = p_oper p)) as [->|Hne].
    + rewrite lookup_insert. intros [= <-]. cbn. intros Hc. exfalso. apply Hc. reflexivity.
    + rewrite lookup_insert_ne by auto. intros Hw Hst. apply Hinf. eapply HB; eauto.
  - eexists. rewrite Hs. cbn. rewrite lookup_insert. split; [reflexivity|reflexivity].
  - rewrite Hl. cbn. rewrite lookup_insert. eauto.
Qed.

Lemma update_bonded_pool_rstable c c' : update_bonded_pool c = MOk c' -> rstable c c' /\ (BInfo c -> BInfo c').
Proof.
  intros H. apply update_bonded_pool_spec in H as (Hs & Hl & _ & _ & _ & Hn & _). split.
  - apply rstable_same; [rewrite Hs|rewrite Hl|exact Hn]; reflexivity.
  - intros HB. eapply (BInfo_same c); [rewrite Hs; reflexivity|rewrite Hl; auto|exact HB].
Qed.

Lemma exec_msg_rstable c m c' : CI c -> exec_msg c m = MOk c' -> rstable c c' /\ (BInfo c -> BInfo c').
Proof.
  intros [HS HP]. destruct m as [s v p u|s v|s v|v k mon r mx ch msd|s p|v|s|s t]; cbn.
  - unfold msg_set_power. destruct (negb (is_admin s)); [discriminate|].
    destruct (setpower_validate (0 <=? v) p) as [[]|] eqn:Ev; [|discriminate].
    destruct (find_pending v (pending (poa c))) as [q|] eqn:Ef.
    + apply find_pending_in in Ef as [Hin Hop]. destruct (accept_new_validator c q) as [c1|] eqn:Ea; [|discriminate]. cbn [mbind].
      destruct (accept_SI_PI _ _ _ HS HP Hin Ea) as [HS1 HP1].
      assert (Hnv : vals (stk c) !! p_oper q = None) by (apply (pi_not_val _ HP); exact Hin).
      destruct (accept_rstable _ _ _ Hnv Ea) as (R1 & B1 & (vn & Hvn & Hcn) & Hin1).
      destruct (set_poa_power c1 v (cast_i64 p)) as [c2|] eqn:E2; [|discriminate]. cbn [mbind].
      destruct (set_poa_power_rstable _ _ _ _ HS1 E2) as [R2 B2].
      assert (Hfin : forall c3, update_bonded_pool c2 = MOk c3 -> rstable c c3 /\ (BInfo c -> BInfo c3)).
      { intros c3 H3. destruct (update_bonded_pool_rstable _ _ H3) as [R3 B3]. split; [eapply rstable_trans; [exact R1|eapply rstable_trans; eauto]|].
        intros HB. apply B3. apply B2; [apply B1; exact HB|]. intros w Hw. subst v. rewrite Hvn in Hw. inversion Hw; subst w. rewrite Hcn. exact Hin1. }
      destruct (negb u && (1 <? height c2)); [destruct (_ =? 0); [discriminate|]; destruct (30 <=? _); [discriminate|]|]; apply Hfin.
    + destruct (ensure_active c v) as [c1|] eqn:Ee; [|discriminate]. cbn [mbind].
      pose proof Ee as Ee'. apply ensure_active_id in Ee' as ->.
      destruct (set_poa_power c v (cast_i64 p)) as [c2|] eqn:E2; [|discriminate]. cbn [mbind].
      destruct (set_poa_power_rstable _ _ _ _ HS E2) as [R2 B2].
      assert (Hfin : forall c3, update_bonded_pool c2 = MOk c3 -> rstable c c3 /\ (BInfo c -> BInfo c3)).
      { intros c3 H3. destruct (update_bonded_pool_rstable _ _ H3) as [R3 B3]. split; [eapply rstable_trans; eauto|].
        intros HB. apply B3. apply B2; [exact HB|]. intros w Hw. unfold ensure_active in Ee. rewrite Hw in Ee. destruct (v_jailed w); [discriminate|].
        destruct (v_status w) eqn:Est; cbn in Ee; try discriminate. eapply HB; [exact Hw|rewrite Est; discriminate]. }
      destruct (negb u && (1 <? height c2)); [destruct (_ =? 0); [discriminate|]; destruct (30 <=? _); [discriminate|]|]; apply Hfin.
  - unfold msg_remove_validator. destruct (if is_admin s then None else _); [discriminate|]. destruct (_ =? 0); [discriminate|].
    destruct (vals (stk c) !! v) as [vv|] eqn:Hv; [|discriminate]. destruct (status_eqb (v_status vv) Bonded) eqn:Est; cbn [negb]; [|discriminate].
    destruct (set_poa_power c v 0) as [c1|] eqn:E; [|discriminate]. cbn [mbind].
    destruct (set_poa_power_rstable _ _ _ _ HS E) as [R1 B1]. intros H.
    assert (R2 : rstable c1 (with_sl c1 (set_info (del_bitmap (sl c1) (v_cons vv)) (v_cons vv) zero_info))).
    { split; [|split]; [intros j w Hw; exists w; auto| |reflexivity]. intros x Hx. apply infos_set_info. exact Hx. }
    destruct (update_bonded_pool_rstable _ _ H) as [R3 B3].
    split; [eapply rstable_trans; [exact R1|eapply rstable_trans; [exact R2|exact R3]]|].
    intros HB. apply B3. eapply (BInfo_same c1); [reflexivity|intros x Hx; apply infos_set_info; exact Hx|].
    apply B1; [exact HB|]. intros w Hw. rewrite Hv in Hw. inversion Hw; subst w. eapply HB; [exact Hv|]. destruct (v_status vv); try discriminate.
  - unfold msg_remove_pending. destruct (negb _); [discriminate|]. intros [= <-]. split; [apply rstable_same; reflexivity|]. intros HB. eapply (BInfo_same c); [reflexivity|auto|exact HB].
  - destruct r as [r|], mx as [mx|], ch as [ch|]; try discriminate.
    unfold msg_create_validator. destruct (poa_create_validate _); try discriminate. destruct (_ <? _); [discriminate|].
    destruct (bool_decide _); [discriminate|]. destruct (bool_decide _); [discriminate|]. destruct (pending_conflict _ _ _); [discriminate|].
    destruct (negb _); [discriminate|]. intros H. destruct (update_bonded_pool_rstable _ _ H) as [R B]. split.
    + eapply rstable_trans; [|exact R]. apply rstable_same; reflexivity.
    + intros HB. apply B. eapply (BInfo_same c); [reflexivity|auto|exact HB].
  - unfold msg_update_params. destruct (negb _); [discriminate|]. destruct (negb _); [discriminate|]. destruct (negb _); [discriminate|].
    intros [= <-]. split; [apply rstable_same; reflexivity|]. intros HB. eapply (BInfo_same c); [reflexivity|auto|exact HB].
  - unfold msg_unjail. destruct (vals (stk c) !! v) as [vv|]; [|discriminate]. destruct (dels (stk c) !! v); [|discriminate].
    destruct (_ =? 0); [discriminate|]. destruct (_ <? _); [discriminate|]. destruct (negb _); [discriminate|].
    destruct (match infos _ !! _ with Some _ => _ | None => _ end); [discriminate|].
    destruct (unjail (stk c) (v_cons vv)) as [s'|] eqn:E; [|discriminate]. intros [= <-]. apply unjail_rstable in E. exact E.
  - intros [= <-]. split; [apply rstable_refl|auto].
  - intros [= <-]. split; [apply rstable_refl|auto].
Qed.

Lemma exec_msgs_rstable ms : forall c c', CI c -> exec_msgs c ms = MOk c' -> rstable c c' /\ (BInfo c -> BInfo c').
Proof.
  induction ms as [|m ms IH]; cbn; intros c c' HCI; [intros [= <-]; split; [apply rstable_refl|auto]|].
  destruct (exec_msg c m) as [c1|] eqn:E; [|discriminate]. cbn. intros H.
  destruct (exec_msg_rstable _ _ _ HCI E) as [R1 B1]. destruct (IH _ _ (exec_msg_CI _ _ _ HCI E) H) as [R2 B2].
  split; [eapply rstable_trans; eauto|auto].
Qed.

Lemma deliver_tx_rstable c tx : CI c -> rstable c (fst (deliver_tx c tx)) /\ (BInfo c -> BInfo (fst (deliver_tx c tx))).
Proof.
  intros HCI.
  assert (Hsame : forall c0, vals (stk c0) = vals (stk c) -> infos (sl c0) = infos (sl c) -> now c0 = now c -> rstable c c0 /\ (BInfo c -> BInfo c0)).
  { intros c0 Hv Hi Hn. split; [apply rstable_same; assumption|]. intros HB. eapply (BInfo_same c); [exact Hv|rewrite Hi; auto|exact HB]. }
  unfold deliver_tx. destruct (cur_stk_decorator _ _); [apply Hsame; reflexivity|]. destruct (cur_wd_decorator _ _); [apply Hsame; reflexivity|].
  destruct (cur_comm_decorator _ _ _ _ _); try (apply Hsame; reflexivity).
  destruct (existsb is_tree tx); [apply Hsame; reflexivity|].
  destruct (exec_msgs _ tx) as [c2|] eqn:E; [|apply Hsame; reflexivity]. cbn.
  destruct (exec_msgs_rstable tx _ _ (CI_seqs c _ HCI) E) as [R B]. split.
  - eapply rstable_trans; [|exact R]. apply rstable_same; reflexivity.
  - intros HB. apply B. eapply (BInfo_same c); [reflexivity|auto|exact HB].
Qed.

Lemma deliver_txs_rstable txs : forall c, CI c -> rstable c (fst (deliver_txs c txs)) /\ (BInfo c -> BInfo (fst (deliver_txs c txs))).
Proof.
  induction txs as [|tx txs IH]; cbn; intros c HCI; [split; [apply rstable_refl|auto]|].
  destruct (deliver_tx_rstable c tx HCI) as [R1 B1]. pose proof (deliver_tx_CI c tx HCI) as H1. destruct (deliver_tx c tx) as [c1 o]. cbn in *.
  destruct (IH c1 H1) as [R2 B2]. destruct (deliver_txs c1 txs) as [c2 os]. cbn in *. split; [eapply rstable_trans; eauto|auto].
Qed.

(* ---- the EndBlocker ---- *)
Definition usecs (s : staking) : Z := sp_unbonding_time (params s) / 1000000000.

Definition live (c : chain) (v : validator) : Prop := v_status v = Bonded \/ (v_status v = Unbonding /\ now c < v_ubtime v).

(* what one EndBlock can do to a record that is bonded or still has unbonding time left *)
Definition eb_rel (U : Z) (c c' : chain) : Prop :=
  now c' = now c /\
  (forall k, is_Some (infos (sl c) !! k) -> is_Some (infos (sl c') !! k)) /\
  forall id v, vals (stk c) !! id = Some v -> live c v ->
    exists v', vals (stk c') !! id = Some v' /\ v_cons v' = v_cons v /\
      (v_status v' = Bonded \/ (v_status v' = Unbonding /\ (v_ubtime v' = now c + U \/ (v_status v = Unbonding /\ v_ubtime v' = v_ubtime v)))).

Lemma eb_rel_refl U c : eb_rel U c c.
Proof.
  split; [reflexivity|]. split; [auto|]. intros id v Hv [Hb|[Hu Ht]]; exists v; (split; [exact Hv|]); (split; [reflexivity|]); [left; exact Hb|right; split; [exact Hu|right; auto]].
Qed.

Lemma eb_rel_trans U c1 c2 c3 : 1 <= U -> eb_rel U c1 c2 -> eb_rel U c2 c3 -> eb_rel U c1 c3.
Proof.
  intros HU (N1 & I1 & R1) (N2 & I2 & R2). split; [congruence|]. split; [auto|].
  intros id v Hv Hl. destruct (R1 id v Hv Hl) as (v2 & Hv2 & C2 & S2).
  assert (Hl2 : live c2 v2).
  { unfold live. rewrite N1. destruct S2 as [Hb|[Hu [Ht|[Hu1 Ht]]]]; [left; exact Hb|right; split; [exact Hu|lia]|].
    right. split; [exact Hu|]. rewrite Ht. destruct Hl as [Hb|[_ Hlt]]; [congruence|exact Hlt]. }
  destruct (R2 id v2 Hv2 Hl2) as (v3 & Hv3 & C3 & S3). exists v3. split; [exact Hv3|]. split; [congruence|].
  destruct S3 as [Hb|[Hu3 [Ht3|[Hu2 Ht3]]]]; [left; exact Hb|right; split; [exact Hu3|left; rewrite Ht3, N1; reflexivity]|].
  right. split; [exact Hu3|]. destruct S2 as [Hb|[_ [Ht2|[Hu1 Ht2]]]]; [congruence|left; congruence|right; split; [exact Hu1|congruence]].
Qed.

Lemma eb_rel_same U c c' : vals (stk c') = vals (stk c) -> (forall k, is_Some (infos (sl c) !! k) -> is_Some (infos (sl c') !! k)) -> now c' = now c -> eb_rel U c c'.
Proof.
  intros Hv Hi Hn. split; [exact Hn|]. split; [exact Hi|]. intros id v H Hl. destruct (eb_rel_refl U c) as (_ & _ & R). rewrite Hv. apply R; assumption.
Qed.

Lemma eb_rel_insert U c c' id v v' :
  vals (stk c) !! id = Some v -> vals (stk c') = <[id := v']> (vals (stk c)) -> v_cons v' = v_cons v ->
  (v_status v' = Bonded \/ (v_status v' = Unbonding /\ v_ubtime v' = now c + U)) ->
  (forall k, is_Some (infos (sl c) !! k) -> is_Some (infos (sl c') !! k)) -> now c' = now c -> eb_rel U c c'.
Proof.
  intros Hv Hvals Hc Hs Hi Hn. split; [exact Hn|]. split; [exact Hi|]. intros j w Hw Hl. rewrite Hvals. destruct (decide (j = id)) as [->|Hne].
  - rewrite lookup_insert. rewrite Hv in Hw. inversion Hw; subst w. exists v'. split; [reflexivity|]. split; [exact Hc|].
    destruct Hs as [Hb|[Hu Ht]]; [left; exact Hb|right; split; [exact Hu|left; exact Ht]].
  - rewrite lookup_insert_ne by auto. destruct (eb_rel_refl U c) as (_ & _ & R). apply R; assumption.
Qed.

Lemma infos_after_bonded l k h : forall x, is_Some (infos l !! x) -> is_Some (infos (after_bonded l k h) !! x).
Proof. intros x H. unfold after_bonded. cbn. destruct (decide (x = k)) as [->|Hne]; [rewrite lookup_insert; eauto|rewrite lookup_insert_ne by auto; exact H]. Qed.

Lemma bond_validator_eb U c id v :
  vals (stk c) !! id = Some v ->
  eb_rel U c (fst (bond_validator c id v)) /\ (BInfo c -> BInfo (fst (bond_validator c id v))).
Proof.
  intros Hv. pose proof (bond_validator_vals c id v) as (H1 & _ & _). split.
  - eapply (eb_rel_insert U c _ id v (set_status v Bonded) Hv H1); [reflexivity|left; reflexivity| |reflexivity].
    unfold bond_validator. cbn. intros k Hk. apply infos_after_bonded. exact Hk.
  - intros HB j w. rewrite H1. unfold bond_validator. cbn [fst sl with_sl]. destruct (decide (j = id)) as [->|Hne].
    + rewrite lookup_insert. intros [= <-] _. cbn. unfold after_bonded. cbn. rewrite lookup_insert. eauto.
    + rewrite lookup_insert_ne by auto. intros Hw Hs. apply infos_after_bonded. eapply HB; eauto.
Qed.

Lemma apply_loop_eb U keys maxv : 1 <= U -> forall a a',
  apply_loop keys maxv a = LDone a' ->
  eb_rel U (la_chain a) (la_chain a') /\ (BInfo (la_chain a) -> BInfo (la_chain a')).
Proof.
  intros HU. induction keys as [|[p id] ks IH]; intros a a'; cbn [apply_loop]; [intros [= <-]; split; [apply eb_rel_refl|auto]|].
  destruct (maxv <=? la_count a); [intros [= <-]; split; [apply eb_rel_refl|auto]|].
  destruct (vals (stk (la_chain a)) !! id) as [v|] eqn:Hv; [|discriminate].
  destruct (v_jailed v); [apply IH|].
  destruct (v_power v =? 0); [intros [= <-]; split; [apply eb_rel_refl|auto]|].
  set (r := match v_status v with Bonded => (la_chain a, v, 0) | _ => let '(c', v') := bond_validator (la_chain a) id v in (c', v', v_tokens v') end).
  assert (Hr : exists c1 v1 moved, r = (c1, v1, moved) /\ eb_rel U (la_chain a) c1 /\ (BInfo (la_chain a) -> BInfo c1)).
  { subst r. pose proof (bond_validator_eb U (la_chain a) id v Hv) as [Hb1 Hb2].
    destruct (v_status v); [destruct (bond_validator (la_chain a) id v) as [c' v'']; cbn in Hb1, Hb2; do 3 eexists; split; [reflexivity|split; assumption]..|].
    do 3 eexists; split; [reflexivity|]. split; [apply eb_rel_refl|auto]. }
  destruct Hr as (c1 & v1 & moved & -> & R1 & B1). cbn zeta. intros Hrun. apply IH in Hrun as [R2 B2]. cbn [la_chain] in R2, B2.
  set (c2 := if match la_last a !! id with Some old => negb (old =? v_power v1) | None => true end
             then with_stk c1 (st_last_pow (stk c1) (<[id:=v_power v1]> (last_pow (stk c1)))) else c1) in *.
  assert (R12 : eb_rel U c1 c2) by (subst c2; destruct (match la_last a !! id with Some old => _ | None => true end); [apply eb_rel_same; auto|apply eb_rel_refl]).
  assert (B12 : BInfo c1 -> BInfo c2) by (subst c2; destruct (match la_last a !! id with Some old => _ | None => true end); [intros HB; eapply (BInfo_same c1); [reflexivity|auto|exact HB]|auto]).
  split; [eapply eb_rel_trans; [exact HU|exact R1|eapply eb_rel_trans; eauto]|auto].
Qed.

Lemma unbond_loop_eb U ids : 1 <= U -> forall a a',
  unbond_loop ids a = LDone a' -> usecs (stk (la_chain a)) = U ->
  eb_rel U (la_chain a) (la_chain a') /\ (BInfo (la_chain a) -> BInfo (la_chain a')).
Proof.
  intros HU. induction ids as [|i rest IH]; intros a a'; cbn [unbond_loop]; [intros [= <-] _; split; [apply eb_rel_refl|auto]|].
  destruct (vals (stk (la_chain a)) !! i) as [v|] eqn:Hv; [|discriminate].
  destruct (status_eqb (v_status v) Bonded) eqn:Est; cbn [negb]; [|discriminate].
  destruct (begin_unbonding (la_chain a) i v) as [c1 v1] eqn:Eb. intros Hrun HUeq.
  unfold begin_unbonding in Eb. inversion Eb; subst c1 v1. clear Eb.
  set (c1 := with_stk (with_stk (la_chain a) _) _) in Hrun.
  assert (Hvals : vals (stk c1) = <[i := set_unbonding v (height (la_chain a)) (now (la_chain a) + sp_unbonding_time (params (stk (la_chain a))) / 1000000000)]> (vals (stk (la_chain a)))).
  { subst c1. cbn. unfold set_index, set_validator, del_index. cbn. destruct (v_jailed v); reflexivity. }
  assert (Hpar : usecs (stk c1) = U).
  { subst c1. unfold usecs in *. cbn. unfold set_index, set_validator, del_index. cbn. destruct (v_jailed v); exact HUeq. }
  apply IH in Hrun as [R2 B2]; [|exact Hpar]. cbn [la_chain] in R2, B2.
  assert (R1 : eb_rel U (la_chain a) c1).
  { eapply (eb_rel_insert U _ c1 i v _ Hv Hvals); [reflexivity| |subst c1; cbn; auto|reflexivity].
    right. split; [reflexivity|]. cbn. unfold usecs in HUeq. rewrite HUeq. reflexivity. }
  split; [eapply eb_rel_trans; eauto|].
  intros HB. apply B2. intros j w. rewrite Hvals. destruct (decide (j = i)) as [->|Hne].
  - rewrite lookup_insert. intros [= <-] _. subst c1. cbn. eapply (HB i v Hv). intros Hc. rewrite Hc in Est. discriminate.
  - rewrite lookup_insert_ne by auto. intros Hw Hs. subst c1. cbn. eapply HB; eauto.
Qed.

(* ---- maturity touches only the validators in the slots it processes ---- *)
Lemma mature_ids_others ids : forall c c', mature_ids ids c = Some c' ->
  now c' = now c /\ sl c' = sl c /\ forall id, ~ In id ids -> vals (stk c') !! id = vals (stk c) !! id.
Proof.
  induction ids as [|i rest IH]; cbn [mature_ids]; intros c c'; [intros [= <-]; auto|].
  destruct (vals (stk c) !! i) as [v|] eqn:Hv; [|discriminate]. destruct (negb _); [discriminate|].
  set (v' := set_status v Unbonded).
  destruct (v_shares v' =? 0).
  - destruct (0 <? v_tokens v'); [discriminate|]. intros H. apply IH in H as (N & S & O). cbn in N, S. split; [exact N|]. split; [exact S|].
    intros id Hnot. rewrite O by (intros Hin; apply Hnot; right; exact Hin). cbn.
    assert (id <> i) by (intros ->; apply Hnot; left; reflexivity). rewrite lookup_delete_ne by auto. apply lookup_insert_ne; auto.
  - intros H. apply IH in H as (N & S & O). cbn in N, S. split; [exact N|]. split; [exact S|].
    intros id Hnot. rewrite O by (intros Hin; apply Hnot; right; exact Hin). cbn.
    assert (id <> i) by (intros ->; apply Hnot; left; reflexivity). apply lookup_insert_ne; auto.
Qed.

Lemma mature_slots_others slots : forall c c', mature_slots slots c = Some c' ->
  now c' = now c /\ sl c' = sl c /\
  forall id, (forall t h ids, In (t, h, ids) slots -> t <= now c -> ~ In id ids) -> vals (stk c') !! id = vals (stk c) !! id.
Proof.
  induction slots as [|[[t h] ids] rest IH]; cbn [mature_slots]; intros c c'; [intros [= <-]; auto|].
  destruct ((t <=? now c) && (h <=? height c)) eqn:Ec.
  - destruct (mature_ids ids c) as [c1|] eqn:E; [|discriminate]. intros H. apply IH in H as (N2 & S2 & O2).
    apply mature_ids_others in E as (N1 & S1 & O1). split; [congruence|]. split; [congruence|].
    intros id Hno. rewrite O2; [apply O1|].
    + apply (Hno t h ids); [left; reflexivity|]. apply andb_prop in Ec as [Ec _]. lia.
    + intros t' h' ids' Hin Ht. apply (Hno t' h' ids'); [right; exact Hin|lia].
  - intros H. apply IH in H as (N2 & S2 & O2). split; [exact N2|]. split; [exact S2|].
    intros id Hno. apply O2. intros t' h' ids' Hin Ht. apply (Hno t' h' ids'); [right; exact Hin|exact Ht].
Qed.

(* maturity produces only Unbonded records: the bonded and unbonding records after it are records it did not touch *)
Lemma mature_ids_bonded ids : forall c c', mature_ids ids c = Some c' ->
  forall id v', vals (stk c') !! id = Some v' -> v_status v' <> Unbonded -> vals (stk c) !! id = Some v'.
Proof.
  induction ids as [|i rest IH]; cbn [mature_ids]; intros c c'; [intros [= <-]; auto|].
  destruct (vals (stk c) !! i) as [v|] eqn:Hv; [|discriminate]. destruct (negb _); [discriminate|].
  set (v0 := set_status v Unbonded).
  destruct (v_shares v0 =? 0).
  - destruct (0 <? v_tokens v0); [discriminate|]. intros H id v' Hv' Hs. specialize (IH _ _ H id v' Hv' Hs). cbn in IH.
    apply lookup_delete_Some in IH as [Hne IH]. rewrite lookup_insert_ne in IH by auto. exact IH.
  - intros H id v' Hv' Hs. specialize (IH _ _ H id v' Hv' Hs). cbn in IH. destruct (decide (id = i)) as [->|Hne].
    + rewrite lookup_insert in IH. inversion IH; subst v'. cbn in Hs. exfalso. apply Hs. reflexivity.
    + rewrite lookup_insert_ne in IH by auto. exact IH.
Qed.

Lemma mature_slots_bonded slots : forall c c', mature_slots slots c = Some c' ->
  forall id v', vals (stk c') !! id = Some v' -> v_status v' <> Unbonded -> vals (stk c) !! id = Some v'.
Proof.
  induction slots as [|[[t h] ids] rest IH]; cbn [mature_slots]; intros c c'; [intros [= <-]; auto|].
  destruct (_ && _); [|apply IH]. destruct (mature_ids ids c) as [c1|] eqn:E; [|discriminate]. intros H id v' Hv' Hs.
  eapply mature_ids_bonded; [exact E| |exact Hs]. eapply IH; eauto.
Qed.

(* a record that is bonded or has unbonding time left is in no slot that matures now *)
Lemma live_not_maturing c id v :
  QI (stk c) -> vals (stk c) !! id = Some v -> live c v ->
  forall t h ids, In (t, h, ids) (sorted_slots (ubq (stk c))) -> t <= now c -> ~ In id ids.
Proof.
  intros HQ Hv Hl t h ids Hin Ht Hid. unfold sorted_slots in Hin. apply (Permutation_in _ (sort_by_perm slot_le _)) in Hin.
  apply elem_of_list_In in Hin. apply (elem_of_map_to_list (ubq (stk c)) (t, h) ids) in Hin.
  destruct (qi_sound _ HQ t h ids id Hin Hid) as (w & Hw & Hs & Hut & _). rewrite Hv in Hw. inversion Hw; subst w.
  destruct Hl as [Hb|[_ Hlt]]; [congruence|lia].
Qed.

Theorem staking_end_block_eb c c' upd :
  CI c -> QI (stk c) -> 1 <= usecs (stk c) -> staking_end_block c = EBOk c' upd ->
  eb_rel (usecs (stk c)) c c' /\ (BInfo c -> BInfo c').
Proof.
  intros HCI HQ HU Hrun. unfold staking_end_block in Hrun. destruct (apply_valset_updates c) as [c1 u|] eqn:E1; [|discriminate].
  destruct (unbond_all_mature c1) as [c2|] eqn:E2; [|discriminate]. inversion Hrun; subst c2 u. clear Hrun.
  pose proof (apply_valset_updates_QI _ _ _ HQ E1) as HQ1.
  set (U := usecs (stk c)) in *.
  (* first phase *)
  assert (P1 : eb_rel U c c1 /\ (BInfo c -> BInfo c1)).
  { unfold apply_valset_updates in E1.
    destruct (apply_loop _ _ _) as [a1|] eqn:L1; [|discriminate]. destruct (unbond_loop _ a1) as [a2|] eqn:L2; [|discriminate].
    destruct (if la_to_bonded a2 =? 0 then _ else _) as [b|]; [|discriminate]. injection E1 as Hc1 _.
    destruct (apply_loop_eb U _ _ HU _ _ L1) as [R1 B1]. cbn [la_chain] in R1, B1.
    pose proof (apply_loop_params _ _ _ _ L1) as Hp1. cbn [la_chain] in Hp1.
    destruct (unbond_loop_eb U _ HU _ _ L2) as [R2 B2]; [unfold usecs; rewrite Hp1; reflexivity|].
    assert (R3 : eb_rel U (la_chain a2) c1) by (rewrite <- Hc1; destruct (la_upd a2); apply eb_rel_same; auto).
    assert (B3 : BInfo (la_chain a2) -> BInfo c1) by (rewrite <- Hc1; intros HB; destruct (la_upd a2); (eapply (BInfo_same (la_chain a2)); [reflexivity|auto|exact HB])).
    split; [eapply eb_rel_trans; [exact HU|exact R1|eapply eb_rel_trans; eauto]|auto]. }
  destruct P1 as [R1 B1].
  (* maturity leaves the live records alone *)
  unfold unbond_all_mature in E2. pose proof (mature_slots_bonded _ _ _ E2) as Hbd. apply mature_slots_others in E2 as (N2 & S2 & O2).
  destruct R1 as (N1 & I1 & R1). split.
  - split; [congruence|]. split; [rewrite S2; exact I1|].
    intros id v Hv Hl. destruct (R1 id v Hv Hl) as (v1 & Hv1 & C1 & St1). exists v1. split; [|split; [exact C1|exact St1]].
    rewrite O2; [exact Hv1|]. apply (live_not_maturing c1 id v1 HQ1 Hv1).
    unfold live. rewrite N1. destruct St1 as [Hb|[Hu [Ht|[Hu0 Ht]]]]; [left; exact Hb|right; split; [exact Hu|lia]|].
    right. split; [exact Hu|]. rewrite Ht. destruct Hl as [Hb|[_ Hlt]]; [congruence|exact Hlt].
  - intros HB. specialize (B1 HB). intros id v Hv Hs. rewrite S2. eapply B1; [|exact Hs]. eapply Hbd; eauto.
Qed.

(* ---- the slashing parameters never change ---- *)
Definition slp (c : chain) : sl_params := slparams (sl c).

Lemma handle_votes_slp votes absent : forall c c', handle_votes votes absent c = Some c' -> slp c' = slp c.
Proof.
  induction votes as [|[k p] vs IH]; cbn; intros c c'; [intros [= <-]; reflexivity|].
  destruct (handle_signature c k p _) as [c1|] eqn:E; [|discriminate]. intros H. rewrite (IH _ _ H). clear H IH.
  unfold handle_signature in E. destruct (by_cons (stk c) !! k) as [id|]; [|discriminate].
  destruct (vals (stk c) !! id) as [v|]; [|discriminate]. destruct (v_jailed v); [inversion E; reflexivity|].
  destruct (infos (sl c) !! k) as [i|]; [|discriminate]. destruct (if negb _ && negb _ then _ else _) as [bm' cnt].
  destruct (_ && _).
  - destruct (slash c k p _) as [cs|] eqn:Es; [|discriminate]. destruct (jail (stk cs) k) as [s2|]; [|discriminate].
    inversion E; subst. unfold slp. cbn. apply slash_frame in Es as (Hs & _). rewrite Hs. reflexivity.
  - inversion E; reflexivity.
Qed.

Lemma begin_block_slp c votes absent evs c' : begin_block c votes absent evs = inl c' -> slp c' = slp c.
Proof.
  unfold begin_block. destruct (_ && _); [discriminate|]. destruct (handle_votes votes absent c) as [c1|] eqn:E; [|discriminate].
  destruct (handle_evidences evs c1) as [c2|] eqn:E2; [|discriminate].
  intros [= <-]. apply handle_votes_slp in E. apply handle_evidences_frame in E2 as (_ & _ & _ & _ & _ & _ & _ & _ & _ & _ & P & _).
  unfold slp in *. unfold poa_begin_block. destruct (1 <? height c2); cbn; congruence.
Qed.

Lemma set_poa_power_slp c val n c' : set_poa_power c val n = MOk c' -> slp c' = slp c.
Proof.
  unfold set_poa_power. destruct (vals (stk c) !! val) as [v|]; [|discriminate]. destruct (_ =? _); [discriminate|]. destruct (_ && _).
  - destruct (slash _ _ _ _) as [c2|] eqn:Es; [|discriminate]. cbn [mbind]. intros H. apply update_validator_set_spec in H as (_ & _ & _ & _ & _ & _ & _ & _ & Hsl & _).
    unfold slp. rewrite Hsl. cbn. apply slash_frame in Es as (Hs2 & _). rewrite Hs2. reflexivity.
  - cbn [mbind]. intros H. apply update_validator_set_spec in H as (_ & _ & _ & _ & _ & _ & _ & _ & Hsl & _). unfold slp. rewrite Hsl. reflexivity.
Qed.

Lemma update_bonded_pool_slp c c' : update_bonded_pool c = MOk c' -> slp c' = slp c.
Proof. intros H. apply update_bonded_pool_stk in H as (_ & _ & Hl). unfold slp. rewrite Hl. reflexivity. Qed.

Lemma exec_msg_slp c m c' : exec_msg c m = MOk c' -> slp c' = slp c.
Proof.
  destruct m as [s v p u|s v|s v|v k mon r mx ch msd|s p|v|s|s t]; cbn.
  - unfold msg_set_power. destruct (negb (is_admin s)); [discriminate|].
    destruct (setpower_validate (0 <=? v) p) as [[]|]; [|discriminate].
    set (r1 := match find_pending v (pending (poa c)) with Some q => accept_new_validator c q | None => ensure_active c v end).
    assert (H1 : forall c1, r1 = MOk c1 -> slp c1 = slp c).
    { subst r1. intros c1. destruct (find_pending v (pending (poa c))) as [q|].
      - unfold accept_new_validator. intros Ea. apply update_bonded_pool_slp in Ea. rewrite Ea. reflexivity.
      - intros H. apply ensure_active_id in H as ->. reflexivity. }
    destruct r1 as [c1|]; [|discriminate]. cbn [mbind]. specialize (H1 c1 eq_refl).
    destruct (set_poa_power c1 v (cast_i64 p)) as [c2|] eqn:E2; [|discriminate]. cbn [mbind]. apply set_poa_power_slp in E2.
    destruct (negb u && (1 <? height c2)); [destruct (_ =? 0); [discriminate|]; destruct (30 <=? _); [discriminate|]|]; intros H; apply update_bonded_pool_slp in H; congruence.
  - unfold msg_remove_validator. destruct (if is_admin s then None else _); [discriminate|]. destruct (_ =? 0); [discriminate|].
    destruct (vals (stk c) !! v) as [vv|]; [|discriminate]. destruct (negb _); [discriminate|].
    destruct (set_poa_power c v 0) as [c1|] eqn:E; [|discriminate]. cbn [mbind]. apply set_poa_power_slp in E.
    intros H. apply update_bonded_pool_slp in H. rewrite H. unfold slp in *. cbn. exact E.
  - unfold msg_remove_pending. destruct (negb _); [discriminate|]. intros [= <-]. reflexivity.
  - destruct r as [r|], mx as [mx|], ch as [ch|]; try discriminate.
    unfold msg_create_validator. destruct (poa_create_validate _); try discriminate. destruct (_ <? _); [discriminate|].
    destruct (bool_decide _); [discriminate|]. destruct (bool_decide _); [discriminate|]. destruct (pending_conflict _ _ _); [discriminate|].
    destruct (negb _); [discriminate|]. intros H. apply update_bonded_pool_slp in H. rewrite H. reflexivity.
  - unfold msg_update_params. destruct (negb _); [discriminate|]. destruct (negb _); [discriminate|]. destruct (negb _); [discriminate|]. intros [= <-]. reflexivity.
  - unfold msg_unjail. destruct (vals (stk c) !! v) as [vv|]; [|discriminate]. destruct (dels (stk c) !! v); [|discriminate].
    destruct (_ =? 0); [discriminate|]. destruct (_ <? _); [discriminate|]. destruct (negb _); [discriminate|].
    destruct (match infos _ !! _ with Some _ => _ | None => _ end); [discriminate|].
    destruct (unjail (stk c) (v_cons vv)) as [s'|]; [|discriminate]. intros [= <-]. reflexivity.
  - intros [= <-]. reflexivity.
  - intros [= <-]. reflexivity.
Qed.

Lemma deliver_txs_slp txs : forall c, slp (fst (deliver_txs c txs)) = slp c.
Proof.
  induction txs as [|tx txs IH]; cbn; intros c; [reflexivity|].
  assert (H1 : slp (fst (deliver_tx c tx)) = slp c).
  { unfold deliver_tx. destruct (cur_stk_decorator _ _); [reflexivity|]. destruct (cur_wd_decorator _ _); [reflexivity|].
    destruct (cur_comm_decorator _ _ _ _ _); try reflexivity. destruct (existsb is_tree tx); [reflexivity|].
    destruct (exec_msgs _ tx) as [c2|] eqn:E; [|reflexivity]. cbn.
    assert (G : forall ms c0 c1, exec_msgs c0 ms = MOk c1 -> slp c1 = slp c0).
    { induction ms as [|m ms IHm]; cbn; intros c0 c1; [intros [= <-]; reflexivity|]. destruct (exec_msg c0 m) as [cm|] eqn:Em; [|discriminate]. cbn.
      intros H. rewrite (IHm _ _ H). eapply exec_msg_slp; eauto. }
    rewrite (G _ _ _ E). reflexivity. }
  destruct (deliver_tx c tx) as [c1 o]. cbn in *. specialize (IH c1). destruct (deliver_txs c1 txs) as [c2 os]. cbn in *. congruence.
Qed.

Lemma staking_end_block_slp c c' upd : staking_end_block c = EBOk c' upd -> slp c' = slp c.
Proof.
  unfold staking_end_block. destruct (apply_valset_updates c) as [c1 u|] eqn:E1; [|discriminate].
  destruct (unbond_all_mature c1) as [c2|] eqn:E2; [|discriminate]. intros [= <- _].
  unfold unbond_all_mature in E2. apply mature_slots_others in E2 as (_ & S2 & _). unfold slp. rewrite S2.
  unfold apply_valset_updates in E1.
  destruct (apply_loop _ _ _) as [a1|] eqn:L1; [|discriminate]. destruct (unbond_loop _ a1) as [a2|] eqn:L2; [|discriminate].
  destruct (if la_to_bonded a2 =? 0 then _ else _) as [b|]; [|discriminate]. injection E1 as Hc1 _.
  assert (A : forall keys maxv a a', apply_loop keys maxv a = LDone a' -> slparams (sl (la_chain a')) = slparams (sl (la_chain a))).
  { induction keys as [|[p id] ks IH]; intros maxv a a'; cbn [apply_loop]; [intros [= <-]; reflexivity|].
    destruct (_ <=? _); [intros [= <-]; reflexivity|]. destruct (vals _ !! id) as [v|]; [|discriminate].
    destruct (v_jailed v); [apply IH|]. destruct (_ =? 0); [intros [= <-]; reflexivity|].
    destruct (v_status v); cbn zeta.
    - destruct (bond_validator (la_chain a) id v) as [cb vb] eqn:Eb. unfold bond_validator in Eb. inversion Eb; subst. intros H. apply IH in H. rewrite H. cbn.
      destruct (match la_last a !! id with Some old => _ | None => true end); reflexivity.
    - destruct (bond_validator (la_chain a) id v) as [cb vb] eqn:Eb. unfold bond_validator in Eb. inversion Eb; subst. intros H. apply IH in H. rewrite H. cbn.
      destruct (match la_last a !! id with Some old => _ | None => true end); reflexivity.
    - intros H. apply IH in H. rewrite H. cbn. destruct (match la_last a !! id with Some old => _ | None => true end); reflexivity. }
  assert (B : forall ids a a', unbond_loop ids a = LDone a' -> slparams (sl (la_chain a')) = slparams (sl (la_chain a))).
  { induction ids as [|id rest IH]; intros a a'; cbn [unbond_loop]; [intros [= <-]; reflexivity|].
    destruct (vals _ !! id) as [v|]; [|discriminate]. destruct (negb _); [discriminate|].
    destruct (begin_unbonding (la_chain a) id v) as [cb vb] eqn:Eb. unfold begin_unbonding in Eb. inversion Eb; subst. intros H. apply IH in H. rewrite H. reflexivity. }
  apply A in L1. apply B in L2. cbn in L1. rewrite <- Hc1. destruct (la_upd a2); cbn; congruence.
Qed.

(* ---- voters ---- *)
Definition ok_voter (c : chain) (k : Z) : Prop :=
  exists id v, vals (stk c) !! id = Some v /\ v_cons v = k /\ is_Some (infos (sl c) !! k) /\ (v_status v = Bonded \/ v_status v = Unbonding).

Definition ok_later (m : Z) (c : chain) (k : Z) : Prop :=
  exists id v, vals (stk c) !! id = Some v /\ v_cons v = k /\ is_Some (infos (sl c) !! k) /\
               (v_status v = Bonded \/ (v_status v = Unbonding /\ now c + m <= v_ubtime v)).

Lemma ok_voter_rstable c c' k : rstable c c' -> ok_voter c k -> ok_voter c' k.
Proof.
  intros (R & I & _) (id & v & Hv & Hk & Hi & Hs). destruct (R id v Hv) as (v' & Hv' & C & _ & S). exists id, v'.
  split; [exact Hv'|]. split; [congruence|]. split; [apply I; exact Hi|]. destruct S as [S|S]; [rewrite S; exact Hs|left; exact S].
Qed.

Lemma ok_later_rstable m c c' k : rstable c c' -> ok_later m c k -> ok_later m c' k.
Proof.
  intros (R & I & N) (id & v & Hv & Hk & Hi & Hs). destruct (R id v Hv) as (v' & Hv' & C & T & S). exists id, v'.
  split; [exact Hv'|]. split; [congruence|]. split; [apply I; exact Hi|]. rewrite N, T.
  destruct S as [S|S]; [rewrite S; exact Hs|left; exact S].
Qed.

Lemma handle_signature_never_fails c k p sg :
  CI c -> BI c -> 0 <= slp_slash_down_bp (slp c) -> ok_voter c k -> exists c', handle_signature c k p sg = Some c'.
Proof.
  intros [HS HP] HB Hbp (id & v & Hv & Hk & [i Hi] & Hst). subst k. unfold handle_signature.
  rewrite (si_bycons _ HS id v Hv), Hv. destruct (v_jailed v) eqn:Hj; [eauto|]. rewrite Hi.
  destruct (if negb _ && negb sg then _ else _) as [bm' cnt].
  destruct (_ && _); [|eauto].
  destruct (slash c (v_cons v) p _) as [c1|] eqn:Es.
  - assert (Hj1 : exists s2, jail (stk c1) (v_cons v) = Some s2).
    { unfold jail. pose proof (slash_frame _ _ _ _ _ Es) as (_ & _ & _ & _ & _ & Hbc & _). rewrite Hbc. rewrite (si_bycons _ HS id v Hv).
      revert Es. unfold slash. destruct (_ <? 0); [discriminate|]. rewrite (si_bycons _ HS id v Hv), Hv.
      destruct (status_eqb (v_status v) Unbonded); [discriminate|]. destruct (_ =? 0); [intros [= <-]; rewrite Hv, Hj; eauto|].
      destruct (if status_eqb (v_status v) Bonded then _ else _); [|discriminate]. intros [= <-]. cbn.
      unfold set_index, set_validator, del_index. cbn. rewrite Hj. cbn. rewrite lookup_insert. cbn. rewrite Hj. eauto. }
    destruct Hj1 as [s2 ->]. eauto.
  - exfalso. apply (slash_funds c (v_cons v) p _ HB (si_tok _ HS)) in Es as [Hneg|(id' & v' & Hbc & Hv' & Hun)].
    + unfold slp in Hbp. assert (0 <= slp_slash_down_bp (slparams (sl c)) * (dec_one / 10000)) by (apply Z.mul_nonneg_nonneg; [exact Hbp|apply Z.div_pos; [unfold dec_one; lia|lia]]). lia.
    + rewrite (si_bycons _ HS id v Hv) in Hbc. inversion Hbc; subst id'. rewrite Hv in Hv'. inversion Hv'; subst v'.
      destruct Hst as [Hst|Hst]; congruence.
Qed.

Lemma handle_votes_never_fails votes absent : forall c,
  CI c -> BI c -> 0 <= slp_slash_down_bp (slp c) -> (forall k p, In (k, p) votes -> ok_voter c k) ->
  exists c', handle_votes votes absent c = Some c'.
Proof.
  induction votes as [|[k p] vs IH]; cbn; intros c HCI HB Hbp Hok; [eauto|].
  destruct (handle_signature_never_fails c k p (negb (existsb (Z.eqb k) absent)) HCI HB Hbp (Hok k p (or_introl eq_refl))) as [c1 E]. rewrite E.
  apply IH.
  - eapply handle_signature_CI; eauto.
  - eapply handle_signature_BI; eauto.
  - assert (Hs : slp c1 = slp c) by (apply (handle_votes_slp [(k, p)] absent c c1); cbn; rewrite E; reflexivity). rewrite Hs. exact Hbp.
  - intros k' p' Hin. destruct (handle_signature_rstable _ _ _ _ _ E) as [R _]. eapply ok_voter_rstable; [exact R|]. apply (Hok k' p'). right; exact Hin.
Qed.

Lemma ok_voter_known c k : SI (stk c) -> ok_voter c k -> voter_known c k = true.
Proof.
  intros HS (id & v & Hv & Hk & _). subst k. unfold voter_known. rewrite (si_bycons _ HS id v Hv). apply bool_decide_eq_true. rewrite Hv. eauto.
Qed.

(* an evidence entry the environment may deliver: about a validator that still has its record (CometBFT drops evidence older
   than its max age, which a chain keeps below the unbonding period), of a height that is not in the future; that the signing
   info x/evidence insists on is there is not assumed: BInfo provides it *)
Definition ok_evidence (c : chain) (e : evidence) : Prop :=
  (exists id v, vals (stk c) !! id = Some v /\ v_cons v = ev_cons e) /\ ev_height e - 1 <= height c.

Lemma ok_evidence_rstable c c' e : rstable c c' -> height c' = height c -> ok_evidence c e -> ok_evidence c' e.
Proof.
  intros (R & I & _) Hh [(id & v & Hv & Hk) He]. destruct (R id v Hv) as (v' & Hv' & C & _). split; [|lia].
  exists id, v'. split; [exact Hv'|]. congruence.
Qed.

Lemma handle_evidence_never_fails c e :
  CI c -> BI c -> BInfo c -> 0 <= slp_slash_dbl_bp (slp c) -> ok_evidence c e -> exists c', handle_evidence c e = Some c'.
Proof.
  intros [HS HP] HB HBI Hbp [(id & v & Hv & Hk) He]. destruct e as [ek eh et ep]. cbn in Hk, He. subst ek.
  unfold handle_evidence. cbn [ev_cons ev_height ev_time ev_power].
  rewrite (si_bycons _ HS id v Hv), Hv. destruct (status_eqb (v_status v) Unbonded) eqn:Est; [eauto|].
  destruct (_ && _); [eauto|].
  destruct (HBI id v Hv) as [i Hi]; [intros Hc; rewrite Hc in Est; discriminate|].
  rewrite Hi. destruct (si_tomb i); [eauto|].
  destruct (Z.ltb_spec (height c) (eh - 1)); [lia|].
  destruct (slash c (v_cons v) ep _) as [c1|] eqn:Es.
  - destruct (v_jailed v) eqn:Hj; [eauto|].
    assert (Hj1 : exists s2, jail (stk c1) (v_cons v) = Some s2).
    { unfold jail. pose proof (slash_frame _ _ _ _ _ Es) as (_ & _ & _ & _ & _ & Hbc & _). rewrite Hbc. rewrite (si_bycons _ HS id v Hv).
      revert Es. unfold slash. destruct (_ <? 0); [discriminate|]. rewrite (si_bycons _ HS id v Hv), Hv. rewrite Est.
      destruct (_ =? 0); [intros [= <-]; rewrite Hv, Hj; eauto|].
      destruct (if status_eqb (v_status v) Bonded then _ else _); [|discriminate]. intros [= <-]. cbn.
      unfold set_index, set_validator, del_index. cbn. rewrite Hj. cbn. rewrite lookup_insert. cbn. rewrite Hj. eauto. }
    destruct Hj1 as [s2 ->]. eauto.
  - exfalso. apply (slash_funds c (v_cons v) ep _ HB (si_tok _ HS)) in Es as [Hneg|(id' & v' & Hbc & Hv' & Hun)].
    + unfold slp in Hbp. assert (0 <= slp_slash_dbl_bp (slparams (sl c)) * (dec_one / 10000)) by (apply Z.mul_nonneg_nonneg; [exact Hbp|apply Z.div_pos; [unfold dec_one; lia|lia]]). lia.
    + rewrite (si_bycons _ HS id v Hv) in Hbc. inversion Hbc; subst id'. rewrite Hv in Hv'. inversion Hv'; subst v'.
      rewrite Hun in Est. discriminate.
Qed.

Lemma handle_evidences_never_fails evs : forall c,
  CI c -> BI c -> BInfo c -> 0 <= slp_slash_dbl_bp (slp c) -> Forall (ok_evidence c) evs -> exists c', handle_evidences evs c = Some c'.
Proof.
  induction evs as [|e rest IH]; cbn; intros c HCI HB HBI Hbp Hok; [eauto|].
  inversion Hok as [|? ? He Hrest]; subst.
  destruct (handle_evidence_never_fails c e HCI HB HBI Hbp He) as [c1 E]. rewrite E.
  destruct (handle_evidence_rstable _ _ _ E) as [R BB]. apply IH.
  - eapply handle_evidence_CI; eauto.
  - eapply handle_evidence_BI; eauto.
  - exact (BB HBI).
  - pose proof (handle_evidence_frame _ _ _ E) as (_ & _ & _ & _ & _ & _ & _ & _ & _ & _ & P & _). unfold slp. rewrite P. exact Hbp.
  - pose proof (handle_evidence_frame _ _ _ E) as (_ & _ & Hh & _).
    eapply List.Forall_impl; [|exact Hrest]. intros e' He'. eapply ok_evidence_rstable; eauto.
Qed.

Lemma handle_votes_height votes absent : forall c c', handle_votes votes absent c = Some c' -> height c' = height c.
Proof.
  induction votes as [|[k p] vs IH]; cbn; intros c c'; [intros [= <-]; reflexivity|].
  destruct (handle_signature c k p _) as [c1|] eqn:E; [|discriminate]. intros H. rewrite (IH _ _ H). clear H IH.
  unfold handle_signature in E. destruct (by_cons (stk c) !! k) as [id|]; [|discriminate].
  destruct (vals (stk c) !! id) as [v|]; [|discriminate]. destruct (v_jailed v); [inversion E; reflexivity|].
  destruct (infos (sl c) !! k) as [i|]; [|discriminate]. destruct (if negb _ && negb _ then _ else _) as [bm' cnt].
  destruct (_ && _).
  - destruct (slash c k p _) as [cs|] eqn:Es; [|discriminate]. destruct (jail (stk cs) k) as [s2|]; [|discriminate].
    inversion E; subst. cbn. apply slash_frame in Es as (_ & _ & _ & Hh & _). exact Hh.
  - inversion E; reflexivity.
Qed.

Theorem begin_block_never_fails c votes absent evs :
  CI c -> BI c -> BInfo c -> 0 <= slp_slash_down_bp (slp c) -> 0 <= slp_slash_dbl_bp (slp c) ->
  (forall k p, In (k, p) votes -> ok_voter c k) -> Forall (ok_evidence c) evs ->
  exists c', begin_block c votes absent evs = inl c'.
Proof.
  intros HCI HB HBI Hbp Hbp2 Hok Hev. unfold begin_block.
  assert (Hall : forallb (fun v => voter_known c (fst v)) votes = true).
  { apply forallb_forall. intros [k p] Hin. cbn. apply ok_voter_known; [apply HCI|]. eapply Hok; eauto. }
  rewrite Hall. rewrite andb_false_r. destruct (handle_votes_never_fails votes absent c HCI HB Hbp Hok) as [c1 E]. rewrite E.
  destruct (handle_evidences_never_fails evs c1) as [c2 ->]; [eapply handle_votes_CI; eauto|eapply handle_votes_BI; eauto| | | |eauto].
  - destruct (handle_votes_rstable _ _ _ _ E) as [_ BB]. exact (BB HBI).
  - rewrite (handle_votes_slp _ _ _ _ E). exact Hbp2.
  - destruct (handle_votes_rstable _ _ _ _ E) as [R _]. eapply List.Forall_impl; [|exact Hev]. intros e He. eapply ok_evidence_rstable; [exact R|eapply handle_votes_height; eauto|exact He].
Qed.

(* ---- the staking parameters change only through an accepted MsgUpdateStakingParams ---- *)
Lemma set_poa_power_params c val n c' : set_poa_power c val n = MOk c' -> params (stk c') = params (stk c).
Proof.
  unfold set_poa_power. destruct (vals (stk c) !! val) as [vv|]; [|discriminate]. destruct (_ =? _); [discriminate|]. destruct (_ && _).
  - destruct (slash _ _ _ _) as [cs|] eqn:Es; [|discriminate]. cbn [mbind]. intros H. apply update_validator_set_spec in H as (_ & _ & _ & _ & _ & _ & _ & Hp & _).
    rewrite Hp. cbn. apply slash_frame in Es as (_ & _ & _ & _ & _ & _ & _ & _ & Hps & _). rewrite Hps. reflexivity.
  - cbn [mbind]. intros H. apply update_validator_set_spec in H as (_ & _ & _ & _ & _ & _ & _ & Hp & _). rewrite Hp. cbn.
    unfold set_index, del_index. cbn. destruct (v_jailed vv); reflexivity.
Qed.

Lemma exec_msg_params c m c' : exec_msg c m = MOk c' ->
  params (stk c') = params (stk c) \/ exists s p, m = MUpdateParams s p /\ params (stk c') = p /\ params_validate p = true.
Proof.
  destruct m as [s v p u|s v|s v|v k mon r mx ch msd|s p|v|s|s t]; cbn.
  - unfold msg_set_power. destruct (negb (is_admin s)); [discriminate|].
    destruct (setpower_validate (0 <=? v) p) as [[]|]; [|discriminate].
    set (r1 := match find_pending v (pending (poa c)) with Some q => accept_new_validator c q | None => ensure_active c v end).
    assert (H1 : forall c1, r1 = MOk c1 -> params (stk c1) = params (stk c)).
    { subst r1. intros c1. destruct (find_pending v (pending (poa c))) as [q|].
      - unfold accept_new_validator. intros Ea. apply update_bonded_pool_stk in Ea as (Hs & _). rewrite Hs. reflexivity.
      - intros H. apply ensure_active_id in H as ->. reflexivity. }
    destruct r1 as [c1|]; [|discriminate]. cbn [mbind]. specialize (H1 c1 eq_refl).
    destruct (set_poa_power c1 v (cast_i64 p)) as [c2|] eqn:E2; [|discriminate]. cbn [mbind]. apply set_poa_power_params in E2.
    destruct (negb u && (1 <? height c2)); [destruct (_ =? 0); [discriminate|]; destruct (30 <=? _); [discriminate|]|]; intros H; apply update_bonded_pool_stk in H as (-> & _); left; congruence.
  - unfold msg_remove_validator. destruct (if is_admin s then None else _); [discriminate|]. destruct (_ =? 0); [discriminate|].
    destruct (vals (stk c) !! v) as [vv|]; [|discriminate]. destruct (negb _); [discriminate|].
    destruct (set_poa_power c v 0) as [c1|] eqn:E; [|discriminate]. cbn [mbind]. apply set_poa_power_params in E.
    intros H. apply update_bonded_pool_stk in H as (-> & _). left. cbn. exact E.
  - unfold msg_remove_pending. destruct (negb _); [discriminate|]. intros [= <-]. left; reflexivity.
  - destruct r as [r|], mx as [mx|], ch as [ch|]; try discriminate.
    unfold msg_create_validator. destruct (poa_create_validate _); try discriminate. destruct (_ <? _); [discriminate|].
    destruct (bool_decide _); [discriminate|]. destruct (bool_decide _); [discriminate|]. destruct (pending_conflict _ _ _); [discriminate|].
    destruct (negb _); [discriminate|]. intros H. apply update_bonded_pool_stk in H as (-> & _). left; reflexivity.
  - unfold msg_update_params. destruct (negb _); [discriminate|]. destruct (params_validate p) eqn:Ev; cbn [negb]; [|discriminate]. destruct (negb _); [discriminate|].
    intros [= <-]. right. exists s, p. auto.
  - unfold msg_unjail. destruct (vals (stk c) !! v) as [vv|]; [|discriminate]. destruct (dels (stk c) !! v); [|discriminate].
    destruct (_ =? 0); [discriminate|]. destruct (_ <? _); [discriminate|]. destruct (negb _); [discriminate|].
    destruct (match infos _ !! _ with Some _ => _ | None => _ end); [discriminate|].
    destruct (unjail (stk c) (v_cons vv)) as [s'|] eqn:E; [|discriminate]. intros [= <-]. left. cbn.
    unfold unjail in E. destruct (by_cons (stk c) !! v_cons vv) as [id|]; [|discriminate]. destruct (vals (stk c) !! id) as [vj|]; [|discriminate].
    destruct (negb _); [discriminate|]. inversion E. unfold set_index, set_validator. cbn. reflexivity.
  - intros [= <-]. left; reflexivity.
  - intros [= <-]. left; reflexivity.
Qed.

(* the environment's side on unbonding time: every accepted parameter change keeps it at m seconds or more *)
Definition ut_msg (m : Z) (msg : l1msg) : Prop :=
  match msg with MUpdateParams _ p => m <= sp_unbonding_time p / 1000000000 | _ => True end.
Definition ut_block (m : Z) (b : block) : Prop := b_dt b < m /\ Forall (Forall (ut_msg m)) (b_txs b).

Lemma deliver_txs_usecs m txs : forall c, Forall (Forall (ut_msg m)) txs -> m <= usecs (stk c) -> m <= usecs (stk (fst (deliver_txs c txs))).
Proof.
  induction txs as [|tx txs IH]; cbn; intros c Hwt HU; [exact HU|]. inversion Hwt as [|? ? Hw1 Hw2]; subst.
  assert (H1 : m <= usecs (stk (fst (deliver_tx c tx)))).
  { unfold deliver_tx. destruct (cur_stk_decorator _ _); [exact HU|]. destruct (cur_wd_decorator _ _); [exact HU|].
    destruct (cur_comm_decorator _ _ _ _ _); try exact HU. destruct (existsb is_tree tx); [exact HU|].
    destruct (exec_msgs _ tx) as [c2|] eqn:E; [|exact HU]. cbn.
    assert (G : forall ms c0 c1, Forall (ut_msg m) ms -> m <= usecs (stk c0) -> exec_msgs c0 ms = MOk c1 -> m <= usecs (stk c1)).
    { induction ms as [|x ms IHm]; cbn; intros c0 c1 Hw Hc; [intros [= <-]; exact Hc|]. inversion Hw; subst.
      destruct (exec_msg c0 x) as [cm|] eqn:Em; [|discriminate]. cbn. apply IHm; [assumption|].
      destruct (exec_msg_params _ _ _ Em) as [Hp|(s & p & -> & Hp & _)]; unfold usecs; rewrite Hp; [exact Hc|]. cbn in H1. exact H1. }
    eapply (G tx (bump_seqs c (dedup (map msg_sender tx))) c2); [exact Hw1|exact HU|exact E]. }
  destruct (deliver_tx c tx) as [c1 o]. cbn in *. specialize (IH c1 Hw2 H1). destruct (deliver_txs c1 txs) as [c2 os]. exact IH.
Qed.

(* ---- the world invariant for voters ---- *)
Definition ok_at (t : Z) (c : chain) (k : Z) : Prop :=
  exists id v, vals (stk c) !! id = Some v /\ v_cons v = k /\ is_Some (infos (sl c) !! k) /\
               (v_status v = Bonded \/ (v_status v = Unbonding /\ t <= v_ubtime v)).

Lemma ok_at_rstable t c c' k : rstable c c' -> ok_at t c k -> ok_at t c' k.
Proof.
  intros (R & I & N) (id & v & Hv & Hk & Hi & Hs). destruct (R id v Hv) as (v' & Hv' & C & T & S). exists id, v'.
  split; [exact Hv'|]. split; [congruence|]. split; [apply I; exact Hi|]. rewrite T.
  destruct S as [S|S]; [rewrite S; exact Hs|left; exact S].
Qed.

Definition VI (m : Z) (w : world) : Prop :=
  let c := w_chain w in
  (forall vs k, c_prev (w_comet w) = Some vs -> is_Some (vs !! k) -> ok_voter c k) /\
  (forall k, is_Some (c_cur (w_comet w) !! k) -> ok_at (now c + m) c k) /\
  BInfo c /\ m <= usecs (stk c) /\ 0 <= slp_slash_down_bp (slp c) /\ 0 <= slp_slash_dbl_bp (slp c).

Lemma in_sorted_votes vs k p : In (k, p) (sorted_votes vs) -> is_Some (vs !! k).
Proof.
  unfold sorted_votes. intros H. apply in_map_iff in H as (x & Heq & Hin). inversion Heq; subst x. apply (proj1 (proj2 (sorted_keys_spec vs) k)). exact Hin.
Qed.

(* the block's evidence entries are about validators the chain still knows (the state at the start of the block) *)
Definition ok_evidence_at (w : world) (b : block) : Prop :=
  Forall (ok_evidence (with_clock (w_chain w) (height (w_chain w) + 1) (now (w_chain w) + b_dt b))) (b_evidence b).

Fixpoint ev_env (w : world) (bs : list block) : Prop :=
  match bs with [] => True | b :: rest => ok_evidence_at w b /\ ev_env (fst (run_block w b)) rest end.

(* BeginBlock of the next block succeeds *)
Theorem block_begin_never_halts m w b e :
  WI w -> BI (w_chain w) -> VI m w -> ok_evidence_at w b -> w_halted w = None -> w_halted (fst (run_block w b)) <> Some (HBeginBlock e).
Proof.
  intros [HCI _] HB (Vp & _ & VB & _ & Hbp & Hbp2) Hev Hh. unfold run_block. rewrite Hh.
  set (c0 := with_clock (w_chain w) (height (w_chain w) + 1) (now (w_chain w) + b_dt b)).
  assert (H0 : CI c0) by (apply CI_clock; exact HCI).
  destruct (begin_block_never_fails c0 (match c_prev (w_comet w) with Some vs => sorted_votes vs | None => [] end) (b_absent b) (b_evidence b) H0 HB VB Hbp Hbp2) as [c1 E].
  { intros k p Hin. destruct (c_prev (w_comet w)) as [vs|] eqn:Ep; [|destruct Hin]. apply in_sorted_votes in Hin. exact (Vp vs k eq_refl Hin). }
  { exact Hev. }
  rewrite E. destruct (deliver_txs c1 (b_txs b)) as [c2 outs]. destruct (staking_end_block c2) as [c3 upd|]; [|cbn; discriminate].
  destruct (comet_apply _ upd); cbn; discriminate.
Qed.

Lemma run_block_VI m w b :
  1 <= m -> WI w -> QI (stk (w_chain w)) -> VI m w -> ut_block m b -> w_halted w = None ->
  w_halted (fst (run_block w b)) = None -> VI m (fst (run_block w b)).
Proof.
  intros Hm [HCI Hrel] HQ (Vp & Vc & VB & VU & Vbp & Vbp2) [Hdt Hut] Hh. specialize (Hrel Hh). unfold run_block. rewrite Hh.
  set (c0 := with_clock (w_chain w) (height (w_chain w) + 1) (now (w_chain w) + b_dt b)).
  assert (H0 : CI c0) by (apply CI_clock; exact HCI). assert (Q0 : QI (stk c0)) by exact HQ.
  destruct (begin_block c0 _ (b_absent b) (b_evidence b)) as [c1|e] eqn:Eb; [|cbn; discriminate].
  pose proof (begin_block_CI _ _ _ _ _ H0 Eb) as H1. pose proof (begin_block_QI _ _ _ _ _ H0 Q0 Eb) as Q1.
  destruct (begin_block_rstable _ _ _ _ _ Eb) as [R1 B1].
  pose proof (deliver_txs_CI (b_txs b) c1 H1) as H2. pose proof (deliver_txs_QI (b_txs b) c1 H1 Q1) as Q2.
  destruct (deliver_txs_rstable (b_txs b) c1 H1) as [R2 B2].
  assert (U2 : m <= usecs (stk (fst (deliver_txs c1 (b_txs b))))).
  { apply deliver_txs_usecs; [exact Hut|]. unfold usecs. rewrite (begin_block_params _ _ _ _ _ Eb). exact VU. }
  pose proof (deliver_txs_slp (b_txs b) c1) as S2.
  destruct (deliver_txs c1 (b_txs b)) as [c2 outs]. cbn in H2, Q2, R2, B2, U2, S2.
  assert (R02 : rstable c0 c2) by (eapply rstable_trans; eauto).
  assert (HB2 : BInfo c2) by (apply B2; apply B1; exact VB).
  destruct (staking_end_block c2) as [c3 upd|e] eqn:Ee; [|cbn; discriminate].
  assert (HU2 : 1 <= usecs (stk c2)) by lia.
  destruct (staking_end_block_eb _ _ _ H2 Q2 HU2 Ee) as [(N3 & I3 & R3) B3].
  pose proof (staking_end_block_CI _ _ _ H2 Ee) as H3.
  destruct (comet_apply (c_next (w_comet w)) upd) as [nn|e2] eqn:Ec; cbn; [intros _|discriminate].
  assert (Hnow2 : now c2 = now (w_chain w) + b_dt b) by (destruct R02 as (_ & _ & N); rewrite N; reflexivity).
  (* a key whose record is bonded, or unbonding beyond the time of this block, in the state before the EndBlocker *)
  assert (Hstep : forall k t, ok_at t c2 k -> now c2 < t -> (forall id v, vals (stk c2) !! id = Some v -> v_cons v = k -> v_status v = Bonded -> True) ->
            exists id v v3, vals (stk c2) !! id = Some v /\ v_cons v = k /\ vals (stk c3) !! id = Some v3 /\ v_cons v3 = k /\ is_Some (infos (sl c3) !! k) /\
              (v_status v3 = Bonded \/ (v_status v3 = Unbonding /\ (v_ubtime v3 = now c2 + usecs (stk c2) \/ (v_status v = Unbonding /\ v_ubtime v3 = v_ubtime v))))).
  { intros k t (id & v & Hv & Hk & Hi & Hs) Ht _. assert (Hl : live c2 v) by (destruct Hs as [Hb|[Hu Hle]]; [left; exact Hb|right; split; [exact Hu|lia]]).
    destruct (R3 id v Hv Hl) as (v3 & Hv3 & C3 & S3). exists id, v, v3.
    split; [exact Hv|]. split; [exact Hk|]. split; [exact Hv3|]. split; [congruence|]. split; [apply I3; exact Hi|exact S3]. }
  split; [|split; [|split; [|split; [|split]]]].
  - (* the new previous set is the old current one *)
    cbn. intros vs k [= <-] Hk. specialize (Vc k Hk).
    assert (Hat : ok_at (now (w_chain w) + m) c2 k) by (eapply ok_at_rstable; [exact R02|exact Vc]).
    destruct (Hstep k _ Hat ltac:(lia) ltac:(auto)) as (id & v & v3 & _ & _ & Hv3 & Hk3 & Hi3 & S3).
    exists id, v3. split; [exact Hv3|]. split; [exact Hk3|]. split; [exact Hi3|]. destruct S3 as [S|[S _]]; auto.
  - (* the new current set is the old next one: its members were bonded *)
    cbn. intros k [p Hk].
    apply (Hrel k p) in Hk as (id & v & Hv & Hkv & Hl). destruct HCI as [HS HP]. destruct (si_last _ HS id p Hl) as (v' & Hv' & Hb). rewrite Hv in Hv'. inversion Hv'; subst v'.
    assert (Hat0 : ok_at (now c2 + 1) c0 k).
    { exists id, v. split; [exact Hv|]. split; [exact Hkv|]. split; [rewrite <- Hkv; eapply VB; [exact Hv|rewrite Hb; discriminate]|left; exact Hb]. }
    assert (Hat : ok_at (now c2 + 1) c2 k) by (eapply ok_at_rstable; [exact R02|exact Hat0]).
    destruct Hat as (id2 & v2 & Hv2 & Hk2 & Hi2 & Hs2).
    (* the record is still bonded before the EndBlocker *)
    assert (Hb2 : v_status v2 = Bonded).
    { destruct R02 as (Rr & _ & _). destruct (Rr id v Hv) as (vx & Hvx & Cx & _ & Sx).
      assert (id2 = id) by (eapply (si_cons _ (proj1 H2)); eauto; congruence). subst id2. rewrite Hvx in Hv2. inversion Hv2; subst vx.
      destruct Sx as [Sx|Sx]; congruence. }
    destruct (R3 id2 v2 Hv2 (or_introl Hb2)) as (v3 & Hv3 & C3 & S3).
    exists id2, v3. split; [exact Hv3|]. split; [congruence|]. split; [apply I3; exact Hi2|].
    destruct S3 as [S|[Su [St|[Sb _]]]]; [left; exact S| |congruence]. right. split; [exact Su|]. rewrite St, N3. lia.
  - cbn [w_chain]. exact (B3 HB2).
  - cbn [w_chain]. unfold usecs. rewrite (staking_end_block_params _ _ _ Ee). exact U2.
  - cbn [w_chain]. rewrite (staking_end_block_slp _ _ _ Ee), S2, (begin_block_slp _ _ _ _ _ Eb). exact Vbp.
  - cbn [w_chain]. rewrite (staking_end_block_slp _ _ _ Ee), S2, (begin_block_slp _ _ _ _ _ Eb). exact Vbp2.
Qed.

Lemma unbond_loop_BInfo ids : forall a a', unbond_loop ids a = LDone a' -> BInfo (la_chain a) -> BInfo (la_chain a').
Proof.
  induction ids as [|i rest IH]; intros a a'; cbn [unbond_loop]; [intros [= <-]; auto|].
  destruct (vals (stk (la_chain a)) !! i) as [v|] eqn:Hv; [|discriminate]. destruct (status_eqb (v_status v) Bonded) eqn:Est; cbn [negb]; [|discriminate].
  pose proof (begin_unbonding_vals (la_chain a) i v) as (vu & Hsnd & Hcu & _ & Hvals & _).
  assert (Hsl : sl (fst (begin_unbonding (la_chain a) i v)) = sl (la_chain a)) by reflexivity.
  destruct (begin_unbonding (la_chain a) i v) as [cb vb] eqn:Eb. cbn [fst snd] in *. subst vb. intros H HB. apply (IH _ _ H). cbn [la_chain].
  intros j w. cbn. rewrite Hvals, Hsl. destruct (decide (j = i)) as [->|Hne].
  - rewrite lookup_insert. intros [= <-] _. rewrite Hcu. eapply (HB i v Hv). intros Hc. rewrite Hc in Est. discriminate.
  - rewrite lookup_insert_ne by auto. intros Hw Hs. eapply HB; eauto.
Qed.

(* ---- genesis and histories ---- *)
Lemma init_world_VI m g :
  wf_genesis g -> m <= g_unbond_secs g -> 0 <= g_slash_down_bp g -> 0 <= g_slash_dbl_bp g -> VI m (init_world g).
Proof.
  intros Hwf Hm Hbp Hbp2. pose proof (init_world_WI g Hwf) as [HCI Hrel]. pose proof (genesis_chain_CI g Hwf) as HC0.
  assert (HB0 : BInfo (genesis_chain g)).
  { intros id v Hv Hs. cbn in Hv. apply list_to_map_lookup_inv in Hv. apply in_map_iff in Hv as ([i t] & Heq & _). inversion Heq; subst. cbn in Hs. exfalso. apply Hs. reflexivity. }
  revert HCI Hrel. unfold init_world. fold (genesis_chain g).
  destruct (apply_valset_updates (genesis_chain g)) as [c1 upd|e] eqn:E.
  2:{ intros _ _. split; [cbn; intros vs k [=]|]. split; [cbn; intros k Hk; rewrite lookup_empty in Hk; destruct Hk; discriminate|].
      split; [exact HB0|]. split; [unfold usecs; cbn; rewrite Z.div_mul by lia; exact Hm|split; [exact Hbp|exact Hbp2]]. }
  intros HCI Hrel. cbn in HCI. specialize (Hrel eq_refl). cbn in Hrel.
  assert (HB1 : BInfo c1).
  { unfold apply_valset_updates in E.
    destruct (apply_loop _ _ _) as [a1|] eqn:L1; [|discriminate]. destruct (unbond_loop _ a1) as [a2|] eqn:L2; [|discriminate].
    destruct (if la_to_bonded a2 =? 0 then _ else _) as [b|]; [|discriminate]. injection E as Hc1 _.
    destruct (apply_loop_eb 1 _ _ ltac:(lia) _ _ L1) as [_ B1]. cbn [la_chain] in B1.
    pose proof (unbond_loop_BInfo _ _ _ L2) as B2.
    rewrite <- Hc1. intros id v Hv Hs. assert (HB2 : BInfo (la_chain a2)) by auto. destruct (la_upd a2); cbn in *; eapply HB2; eauto. }
  assert (Hmem : forall k, is_Some (apply_updates ∅ upd !! k) -> forall t, ok_at t (with_poa c1 {| pending := []; cached_power := last_total (stk c1); abs_changed := 0 |}) k).
  { intros k [p Hk] t. apply (Hrel k p) in Hk as (id & v & Hv & Hkv & Hl). destruct HCI as [HS _]. destruct (si_last _ HS id p Hl) as (v' & Hv' & Hb).
    cbn in Hv, Hv'. rewrite Hv in Hv'. inversion Hv'; subst v'. exists id, v. split; [exact Hv|]. split; [exact Hkv|]. split; [|left; exact Hb]. cbn. rewrite <- Hkv. eapply HB1; [exact Hv|rewrite Hb; discriminate]. }
  split; [cbn; intros vs k [=]|]. split; [cbn; intros k Hk; apply Hmem; exact Hk|].
  split; [exact HB1|]. split.
  - unfold usecs. cbn. rewrite (apply_valset_updates_params _ _ _ E). cbn. rewrite Z.div_mul by lia. exact Hm.
  - unfold slp. cbn. clear -E Hbp Hbp2. unfold apply_valset_updates in E.
    destruct (apply_loop _ _ _) as [a1|] eqn:L1; [|discriminate]. destruct (unbond_loop _ a1) as [a2|] eqn:L2; [|discriminate].
    destruct (if la_to_bonded a2 =? 0 then _ else _) as [b|]; [|discriminate]. injection E as Hc1 _.
    pose proof (staking_end_block_slp) as _.
    assert (A : forall keys maxv a a', apply_loop keys maxv a = LDone a' -> slparams (sl (la_chain a')) = slparams (sl (la_chain a))).
    { induction keys as [|[p id] ks IH]; intros maxv a a'; cbn [apply_loop]; [intros [= <-]; reflexivity|].
      destruct (_ <=? _); [intros [= <-]; reflexivity|]. destruct (vals _ !! id) as [v|]; [|discriminate].
      destruct (v_jailed v); [apply IH|]. destruct (_ =? 0); [intros [= <-]; reflexivity|].
      destruct (v_status v); cbn zeta.
      - destruct (bond_validator (la_chain a) id v) as [cb vb] eqn:Eb. unfold bond_validator in Eb. inversion Eb; subst. intros H. apply IH in H. rewrite H. cbn.
        destruct (match la_last a !! id with Some old => _ | None => true end); reflexivity.
      - destruct (bond_validator (la_chain a) id v) as [cb vb] eqn:Eb. unfold bond_validator in Eb. inversion Eb; subst. intros H. apply IH in H. rewrite H. cbn.
        destruct (match la_last a !! id with Some old => _ | None => true end); reflexivity.
      - intros H. apply IH in H. rewrite H. cbn. destruct (match la_last a !! id with Some old => _ | None => true end); reflexivity. }
    assert (B : forall ids a a', unbond_loop ids a = LDone a' -> slparams (sl (la_chain a')) = slparams (sl (la_chain a))).
    { induction ids as [|id rest IH]; intros a a'; cbn [unbond_loop]; [intros [= <-]; reflexivity|].
      destruct (vals _ !! id) as [v|]; [|discriminate]. destruct (negb _); [discriminate|].
      destruct (begin_unbonding (la_chain a) id v) as [cb vb] eqn:Eb. unfold begin_unbonding in Eb. inversion Eb; subst. intros H. apply IH in H. rewrite H. reflexivity. }
    apply A in L1. apply B in L2. cbn in L1. rewrite <- Hc1. destruct (la_upd a2); cbn; rewrite L2, L1; (split; [exact Hbp|exact Hbp2]).
Qed.

(* BeginBlock returns no error in any block of any history, whatever the transactions and the downtime pattern were,
   as long as a block interval is shorter than the shortest unbonding period the admin ever sets (H-time) *)
Theorem history_begin_never_halts m g bs e :
  wf_genesis g -> 1 <= m -> m <= g_unbond_secs g -> 0 <= g_slash_down_bp g -> 0 <= g_slash_dbl_bp g -> Forall (ut_block m) bs ->
  ev_env (init_world g) bs ->
  w_halted (run_world (init_world g) bs) <> Some (HBeginBlock e).
Proof.
  intros Hwf Hm Hmu Hbp Hbp2 Henv Hev.
  pose proof (init_world_WI g Hwf) as HW. pose proof (init_world_QI g) as HQ. pose proof (init_world_BI g Hwf) as HB.
  pose proof (init_world_VI m g Hwf Hmu Hbp Hbp2) as HV.
  assert (H0 : w_halted (init_world g) <> Some (HBeginBlock e)) by (rewrite (init_world_not_halted g Hwf); discriminate).
  assert (HV' : w_halted (init_world g) = None -> VI m (init_world g)) by auto. clear HV.
  revert HW HQ HB HV' H0 Hev. generalize (init_world g). induction Henv as [|b bs Hb Hbs IH]; cbn; intros w HW HQ HB HV H0 Hev; [exact H0|].
  destruct Hev as [Hev1 Hev2].
  apply IH.
  - apply run_block_WI; exact HW.
  - apply run_block_QI; [apply HW|exact HQ].
  - apply run_block_BI; [apply HW|exact HB].
  - intros Hh'. destruct (w_halted w) as [r|] eqn:Hh.
    + exfalso. revert Hh'. unfold run_block. rewrite Hh. cbn. rewrite Hh. discriminate.
    + apply run_block_VI; auto.
  - destruct (w_halted w) as [r|] eqn:Hh.
    + unfold run_block. rewrite Hh. cbn. rewrite Hh. exact H0.
    + apply (block_begin_never_halts m); auto.
  - exact Hev2.
Qed.

(* =====================  all together: what can stop the chain  ===================== *)
Lemma history_comet_123 g bs e : wf_genesis g -> (e = 1 \/ e = 2 \/ e = 3) -> w_halted (run_world (init_world g) bs) <> Some (HComet e).
Proof.
  intros Hwf He. pose proof (init_world_WI g Hwf) as HW.
  assert (H0 : w_halted (init_world g) <> Some (HComet e)) by (rewrite (init_world_not_halted g Hwf); discriminate).
  revert HW H0. generalize (init_world g). induction bs as [|b bs IH]; cbn; intros w HW H0; [exact H0|].
  apply IH; [apply run_block_WI; exact HW|].
  destruct (w_halted w) as [r|] eqn:Hh.
  - unfold run_block. rewrite Hh. cbn. rewrite Hh. exact H0.
  - destruct (block_safe w b (proj1 HW) Hh) as (_ & _ & H1 & H2). pose proof (block_safe_members w b HW Hh) as H3.
    destruct He as [->|[->| ->]]; assumption.
Qed.

(* Under the environment hypotheses — a block interval shorter than any unbonding period in force (H-time), somebody
   left after each block's jailings (H-alive), evidence only about validators the chain still knows (H-evidence), unsigned 32-bit max_validators fields, a sane genesis — no history
   of blocks of transactions makes block execution return an error, and every block's validator updates are acceptable
   to CometBFT, except possibly for the total voting power exceeding CometBFT's maximum (H-maxvals' side: not excluded here). *)
Theorem history_never_halts m g bs :
  wf_genesis g -> 1 <= g_max_vals g -> 1 <= m -> m <= g_unbond_secs g -> 0 <= g_slash_down_bp g -> 0 <= g_slash_dbl_bp g ->
  Forall (ut_block m) bs -> env_ok (init_world g) bs -> ev_env (init_world g) bs ->
  w_halted (run_world (init_world g) bs) = None \/ w_halted (run_world (init_world g) bs) = Some (HComet 5).
Proof.
  intros Hwf Hcap Hm Hmu Hbp Hbp2 Hut Henv Hev.
  destruct (w_halted (run_world (init_world g) bs)) as [r|] eqn:Hh; [|left; reflexivity]. right.
  destruct r as [e|e|e].
  - exfalso. exact (history_begin_never_halts m g bs e Hwf Hm Hmu Hbp Hbp2 Hut Hev Hh).
  - exfalso. exact (history_endblock_never_halts g bs e Hwf Hh).
  - destruct (Z.eq_dec e 5) as [->|Hne]; [reflexivity|]. exfalso.
    destruct (Z.eq_dec e 4) as [->|Hne4]; [exact (history_never_emptied g bs Hwf Hcap Henv Hh)|].
    destruct (Z.eq_dec e 1) as [->|Hne1]; [exact (history_comet_123 g bs 1 Hwf ltac:(auto) Hh)|].
    destruct (Z.eq_dec e 2) as [->|Hne2]; [exact (history_comet_123 g bs 2 Hwf ltac:(auto) Hh)|].
    destruct (Z.eq_dec e 3) as [->|Hne3]; [exact (history_comet_123 g bs 3 Hwf ltac:(auto) Hh)|].
    (* comet_apply returns no other code *)
    clear -Hh Hne Hne4 Hne1 Hne2 Hne3.
    assert (Hcodes : forall vs upd x, comet_apply vs upd = inr x -> x = 1 \/ x = 2 \/ x = 3 \/ x = 4 \/ x = 5).
    { intros vs upd x. unfold comet_apply. destruct upd; [discriminate|].
      repeat match goal with |- context [if ?b then _ else _] => destruct b end; intros [= <-]; auto 6. }
    assert (Hall : forall bs w, (forall x, w_halted w = Some (HComet x) -> x = 1 \/ x = 2 \/ x = 3 \/ x = 4 \/ x = 5) ->
               forall x, w_halted (run_world w bs) = Some (HComet x) -> x = 1 \/ x = 2 \/ x = 3 \/ x = 4 \/ x = 5).
    { induction bs0 as [|b bs0 IH]; cbn; intros w Hw; [exact Hw|]. apply IH. intros x. unfold run_block. destruct (w_halted w) eqn:Hhw; [cbn; rewrite Hhw; apply Hw|].
      destruct (begin_block _ _ _ _); [|cbn; discriminate]. destruct (deliver_txs _ _) as [c2 outs]. destruct (staking_end_block c2) as [c3 upd|]; [|cbn; discriminate].
      destruct (comet_apply _ upd) eqn:Ec; cbn; [discriminate|]. intros [= <-]. eapply Hcodes; eauto. }
    destruct (Hall bs (init_world g)) with (x := e) as [?|[?|[?|[?|?]]]]; try lia; [|exact Hh].
    intros x. unfold init_world. destruct (apply_valset_updates _); cbn; discriminate.
Qed.
