(* InvPending.v — the pending list as a function of the history: after any history, the list the query returns is obtained
   by replaying, in order, the messages of the transactions that passed — a CreateValidator appends its application, a
   SetPower or RemovePending deletes the first entry of that operator — and nothing else ever touches it. *)
From stdpp Require Import gmap.
Require Import Model.Base Model.Ante Model.Validate Model.Current Model.State Model.Staking Model.Slashing Model.Poa Model.App.
Require Import proofs.EvBasic proofs.L1Effects proofs.L1More proofs.Inv proofs.InvIdx proofs.InvPres proofs.InvMsgs proofs.InvHistory proofs.InvBound.
Open Scope Z_scope.

Definition spec_step (l : list pending_val) (m : l1msg) : list pending_val :=
  match m with
  | MCreateValidator v k mon (Some r) (Some mx) (Some ch) _ =>
      l ++ [{| p_oper := v; p_cons := k; p_rate := r; p_maxrate := mx; p_maxchg := ch; p_moniker := mon |}]
  | MSetPower _ v _ _ => remove_first_pending v l
  | MRemovePending _ v => remove_first_pending v l
  | _ => l
  end.

Lemma remove_first_absent val l : find_pending val l = None -> remove_first_pending val l = l.
Proof.
  induction l as [|p rest IH]; cbn; [reflexivity|]. destruct (p_oper p =? val); [discriminate|]. intros H. rewrite IH by exact H. reflexivity.
Qed.

Lemma exec_msg_pending c m c' : SI (stk c) -> exec_msg c m = MOk c' -> pending (poa c') = spec_step (pending (poa c)) m.
Proof.
  intros HS. destruct m as [s v p u|s v|s v|v k mon r mx ch msd|s p|v|s|s t]; cbn.
  - unfold msg_set_power. destruct (negb (is_admin s)); [discriminate|].
    destruct (setpower_validate (0 <=? v) p) as [[]|] eqn:Ev; [|discriminate].
    destruct (find_pending v (pending (poa c))) as [q|] eqn:Ef.
    + destruct (accept_new_validator c q) as [c1|] eqn:Ea; [|discriminate]. cbn [mbind].
      assert (Hp1 : pending (poa c1) = remove_first_pending (p_oper q) (pending (poa c)) /\ SI (stk c1) \/ True) by auto. clear Hp1.
      pose proof Ea as Ea'. unfold accept_new_validator in Ea'. apply update_bonded_pool_stk in Ea' as (_ & Hp1 & _). cbn in Hp1.
      destruct (set_poa_power c1 v (cast_i64 p)) as [c2|] eqn:E2; [|discriminate]. cbn [mbind].
      assert (Hp2 : pending (poa c2) = pending (poa c1)).
      { revert E2. unfold set_poa_power. destruct (vals (stk c1) !! v) as [vv|]; [|discriminate]. destruct (_ =? _); [discriminate|]. destruct (_ && _).
        - destruct (slash _ _ _ _) as [cs|] eqn:Es; [|discriminate]. cbn [mbind]. intros H. apply update_validator_set_spec in H as (_ & _ & _ & _ & _ & _ & _ & _ & _ & Hp).
          rewrite Hp. cbn. apply slash_frame in Es as (_ & Hpo & _). rewrite Hpo. reflexivity.
        - cbn [mbind]. intros H. apply update_validator_set_spec in H as (_ & _ & _ & _ & _ & _ & _ & _ & _ & Hp). rewrite Hp. reflexivity. }
      apply find_pending_in in Ef as [_ Hop].
      destruct (negb u && (1 <? height c2)); [destruct (_ =? 0); [discriminate|]; destruct (30 <=? _); [discriminate|]|];
        intros H; apply update_bonded_pool_stk in H as (_ & Hp3 & _); rewrite Hp3, Hp2, Hp1, Hop; reflexivity.
    + destruct (ensure_active c v) as [c1|] eqn:Ee; [|discriminate]. cbn [mbind]. apply ensure_active_id in Ee as ->.
      destruct (set_poa_power c v (cast_i64 p)) as [c2|] eqn:E2; [|discriminate]. cbn [mbind].
      destruct (set_poa_power_same_ids _ _ _ _ HS E2) as [_ Hp2]. rewrite (remove_first_absent _ _ Ef).
      destruct (negb u && (1 <? height c2)); [destruct (_ =? 0); [discriminate|]; destruct (30 <=? _); [discriminate|]|];
        intros H; apply update_bonded_pool_stk in H as (_ & Hp3 & _); rewrite Hp3, Hp2; reflexivity.
  - unfold msg_remove_validator. destruct (if is_admin s then None else _); [discriminate|]. destruct (_ =? 0); [discriminate|].
    destruct (vals (stk c) !! v) as [vv|]; [|discriminate]. destruct (negb _); [discriminate|].
    destruct (set_poa_power c v 0) as [c1|] eqn:E; [|discriminate]. cbn [mbind].
    destruct (set_poa_power_same_ids _ _ _ _ HS E) as [_ Hp1]. intros H. apply update_bonded_pool_stk in H as (_ & Hp2 & _). rewrite Hp2. cbn. exact Hp1.
  - unfold msg_remove_pending. destruct (negb _); [discriminate|]. intros [= <-]. reflexivity.
  - destruct r as [r|], mx as [mx|], ch as [ch|]; try discriminate. intros H. apply create_validator_effect in H as (Hp & _). exact Hp.
  - unfold msg_update_params. destruct (negb _); [discriminate|]. destruct (negb _); [discriminate|]. destruct (negb _); [discriminate|]. intros [= <-]. reflexivity.
  - unfold msg_unjail. destruct (vals (stk c) !! v) as [vv|]; [|discriminate]. destruct (dels (stk c) !! v); [|discriminate].
    destruct (_ =? 0); [discriminate|]. destruct (_ <? _); [discriminate|]. destruct (negb _); [discriminate|].
    destruct (match infos _ !! _ with Some _ => _ | None => _ end); [discriminate|]. destruct (unjail _ _); [|discriminate]. intros [= <-]. reflexivity.
  - intros [= <-]. reflexivity.
  - intros [= <-]. reflexivity.
Qed.

Lemma exec_msgs_pending ms : forall c c', CI c -> exec_msgs c ms = MOk c' -> pending (poa c') = fold_left spec_step ms (pending (poa c)).
Proof.
  induction ms as [|m ms IH]; cbn; intros c c' HCI; [intros [= <-]; reflexivity|].
  destruct (exec_msg c m) as [c1|] eqn:E; [|discriminate]. cbn. intros H.
  rewrite (IH _ _ (exec_msg_CI _ _ _ HCI E) H). rewrite (exec_msg_pending _ _ _ (proj1 HCI) E). reflexivity.
Qed.

(* what a transaction contributes: its messages if it passed, nothing otherwise *)
Definition tx_contribution (tx : list l1msg) (o : tx_out) : list l1msg := match o with TPass => tx | _ => [] end.

Lemma deliver_tx_pending c tx : CI c ->
  pending (poa (fst (deliver_tx c tx))) = fold_left spec_step (tx_contribution tx (snd (deliver_tx c tx))) (pending (poa c)).
Proof.
  intros HCI. unfold deliver_tx. destruct (cur_stk_decorator _ _); [reflexivity|]. destruct (cur_wd_decorator _ _); [reflexivity|].
  destruct (cur_comm_decorator _ _ _ _ _); try reflexivity. destruct (existsb is_tree tx); [reflexivity|].
  destruct (exec_msgs _ tx) as [c2|] eqn:E; [|reflexivity]. cbn. rewrite (exec_msgs_pending tx _ _ (CI_seqs c _ HCI) E). reflexivity.
Qed.

Fixpoint contributions (txs : list (list l1msg)) (outs : list tx_out) : list l1msg :=
  match txs, outs with tx :: txs', o :: outs' => tx_contribution tx o ++ contributions txs' outs' | _, _ => [] end.

Lemma deliver_txs_pending txs : forall c, CI c ->
  pending (poa (fst (deliver_txs c txs))) = fold_left spec_step (contributions txs (snd (deliver_txs c txs))) (pending (poa c)).
Proof.
  induction txs as [|tx txs IH]; cbn; intros c HCI; [reflexivity|].
  pose proof (deliver_tx_pending c tx HCI) as H1. pose proof (deliver_tx_CI c tx HCI) as HC1. destruct (deliver_tx c tx) as [c1 o]. cbn in H1, HC1.
  specialize (IH c1 HC1). destruct (deliver_txs c1 txs) as [c2 os]. cbn in *. rewrite fold_left_app, <- H1. exact IH.
Qed.

(* neither BeginBlock nor the EndBlocker touches the list *)
Lemma begin_block_pending c votes absent evs c' : begin_block c votes absent evs = inl c' -> pending (poa c') = pending (poa c).
Proof.
  unfold begin_block. destruct (_ && _); [discriminate|]. destruct (handle_votes votes absent c) as [c1|] eqn:E; [|discriminate].
  destruct (handle_evidences evs c1) as [c2|] eqn:E2; [|discriminate]. intros [= <-].
  apply handle_evidences_frame in E2 as (Hp2 & _).
  assert (H : poa c1 = poa c).
  { revert c E. induction votes as [|[k p] vs IH]; cbn; intros c; [intros [= <-]; reflexivity|].
    destruct (handle_signature c k p _) as [cx|] eqn:Es; [|discriminate]. intros H. rewrite (IH _ H). clear H IH.
    unfold handle_signature in Es. destruct (by_cons (stk c) !! k) as [id|]; [|discriminate]. destruct (vals (stk c) !! id) as [v|]; [|discriminate].
    destruct (v_jailed v); [inversion Es; reflexivity|]. destruct (infos (sl c) !! k) as [i|]; [|discriminate]. destruct (if negb _ && negb _ then _ else _) as [bm' cnt].
    destruct (_ && _); [|inversion Es; reflexivity]. destruct (slash c k p _) as [cs|] eqn:E2; [|discriminate]. destruct (jail (stk cs) k); [|discriminate].
    inversion Es; subst. cbn. apply slash_frame in E2 as (_ & Hp & _). exact Hp. }
  unfold poa_begin_block. destruct (1 <? height c2); cbn; rewrite Hp2, H; reflexivity.
Qed.

(* ---- histories: what each block contributes, and the theorem ---- *)
Definition block_contribution (w : world) (b : block) : list l1msg :=
  match w_halted w with
  | Some _ => []
  | None =>
    match begin_block (with_clock (w_chain w) (height (w_chain w) + 1) (now (w_chain w) + b_dt b))
                      (match c_prev (w_comet w) with Some vs => sorted_votes vs | None => [] end) (b_absent b) (b_evidence b) with
    | inl c1 => contributions (b_txs b) (snd (deliver_txs c1 (b_txs b)))
    | inr _ => []
    end
  end.

Fixpoint history_contribution (w : world) (bs : list block) : list l1msg :=
  match bs with [] => [] | b :: rest => block_contribution w b ++ history_contribution (fst (run_block w b)) rest end.

Lemma run_block_pending w b : CI (w_chain w) ->
  pending (poa (w_chain (fst (run_block w b)))) = fold_left spec_step (block_contribution w b) (pending (poa (w_chain w))).
Proof.
  intros HCI. unfold run_block, block_contribution. destruct (w_halted w); [reflexivity|].
  set (c0 := with_clock (w_chain w) (height (w_chain w) + 1) (now (w_chain w) + b_dt b)).
  assert (H0 : CI c0) by (apply CI_clock; exact HCI).
  destruct (begin_block c0 _ (b_absent b) (b_evidence b)) as [c1|e] eqn:Eb; [|reflexivity].
  pose proof (begin_block_CI _ _ _ _ _ H0 Eb) as H1. pose proof (begin_block_pending _ _ _ _ _ Eb) as P1.
  pose proof (deliver_txs_pending (b_txs b) c1 H1) as P2.
  destruct (deliver_txs c1 (b_txs b)) as [c2 outs]. cbn [fst snd] in *.
  assert (Hfin : pending (poa c2) = fold_left spec_step (contributions (b_txs b) outs) (pending (poa (w_chain w)))) by (rewrite P2, P1; reflexivity).
  destruct (staking_end_block c2) as [c3 upd|e] eqn:Ee; [|exact Hfin].
  rewrite <- Hfin, <- (staking_end_block_poa _ _ _ Ee). destruct (comet_apply _ upd); reflexivity.
Qed.

Theorem pending_list_is_the_replay g bs : wf_genesis g ->
  pending (poa (w_chain (run_world (init_world g) bs))) = fold_left spec_step (history_contribution (init_world g) bs) [].
Proof.
  intros Hwf. pose proof (init_world_CI g Hwf) as HC.
  assert (H0 : pending (poa (w_chain (init_world g))) = []).
  { unfold init_world. fold (genesis_chain g). destruct (apply_valset_updates (genesis_chain g)); reflexivity. }
  rewrite <- H0. revert HC. clear H0. generalize (init_world g). induction bs as [|b bs IH]; cbn; intros w HC; [reflexivity|].
  rewrite fold_left_app, <- (run_block_pending w b HC). apply IH. apply run_block_CI. exact HC.
Qed.
