(* EvBasic.v — the shape of x/evidence's handler: an entry is either ignored or is a slash, a jailing (if the validator is
   not jailed yet) and a tombstone on the signing info. Every invariant proof goes through this decomposition. *)
From stdpp Require Import gmap.
Require Import Model.Base Model.Validate Model.State Model.Staking Model.Slashing Model.Poa Model.App.
Open Scope Z_scope.

Definition tombstoned (i : signing) : signing :=
  {| si_start := si_start i; si_index := si_index i; si_until := double_sign_jail_end; si_tomb := true; si_missed := si_missed i |}.

Definition dbl_factor (c : chain) : Z := slp_slash_dbl_bp (slparams (sl c)) * (dec_one / 10000).

Lemma handle_evidence_cases c e c' : handle_evidence c e = Some c' ->
  c' = c \/
  exists id v i c1 s2,
    by_cons (stk c) !! ev_cons e = Some id /\ vals (stk c) !! id = Some v /\ status_eqb (v_status v) Unbonded = false /\
    infos (sl c) !! ev_cons e = Some i /\ si_tomb i = false /\ ev_height e - 1 <= height c /\
    slash c (ev_cons e) (ev_power e) (dbl_factor c) = Some c1 /\
    ((v_jailed v = true /\ s2 = stk c1) \/ (v_jailed v = false /\ jail (stk c1) (ev_cons e) = Some s2)) /\
    c' = with_sl (with_stk c1 s2) (set_info (sl c1) (ev_cons e) (tombstoned i)).
Proof.
  unfold handle_evidence. destruct (by_cons (stk c) !! ev_cons e) as [id|] eqn:Hk; [|discriminate].
  destruct (vals (stk c) !! id) as [v|] eqn:Hv; [|discriminate].
  destruct (status_eqb (v_status v) Unbonded) eqn:Est; [intros [= <-]; left; reflexivity|].
  destruct (_ && _); [intros [= <-]; left; reflexivity|].
  destruct (infos (sl c) !! ev_cons e) as [i|] eqn:Hi; [|discriminate].
  destruct (si_tomb i) eqn:Et; [intros [= <-]; left; reflexivity|].
  destruct (Z.ltb_spec (height c) (ev_height e - 1)) as [|Hh]; [discriminate|].
  destruct (slash c (ev_cons e) (ev_power e) _) as [c1|] eqn:Es; [|discriminate].
  destruct (v_jailed v) eqn:Hj.
  - intros [= <-]. right. exists id, v, i, c1, (stk c1). repeat split; auto.
  - destruct (jail (stk c1) (ev_cons e)) as [s2|] eqn:Ej; [|discriminate]. intros [= <-]. right. exists id, v, i, c1, s2. repeat split; auto.
Qed.

(* an invariant kept by one entry is kept by the list *)
Lemma handle_evidences_preserves (P : chain -> Prop) evs :
  (forall c e c', P c -> handle_evidence c e = Some c' -> P c') -> forall c c', P c -> handle_evidences evs c = Some c' -> P c'.
Proof.
  intros Hstep. induction evs as [|e rest IH]; cbn; intros c c' HP; [intros [= <-]; exact HP|].
  destruct (handle_evidence c e) as [c1|] eqn:E; [|discriminate]. apply IH. eapply Hstep; eauto.
Qed.

(* a reflexive, transitive relation established by one entry holds over the list *)
Lemma handle_evidences_rel (R : chain -> chain -> Prop) evs :
  (forall c, R c c) -> (forall a b d, R a b -> R b d -> R a d) ->
  (forall c e c', handle_evidence c e = Some c' -> R c c') -> forall c c', handle_evidences evs c = Some c' -> R c c'.
Proof.
  intros Hr Ht Hstep. induction evs as [|e rest IH]; cbn; intros c c'; [intros [= <-]; apply Hr|].
  destruct (handle_evidence c e) as [c1|] eqn:E; [|discriminate]. intros H. eapply Ht; [eapply Hstep; exact E|apply IH; exact H].
Qed.

(* same, under an invariant *)
Lemma handle_evidences_rel_inv (P : chain -> Prop) (R : chain -> chain -> Prop) evs :
  (forall c, R c c) -> (forall a b d, R a b -> R b d -> R a d) ->
  (forall c e c', P c -> handle_evidence c e = Some c' -> P c' /\ R c c') -> forall c c', P c -> handle_evidences evs c = Some c' -> P c' /\ R c c'.
Proof.
  intros Hr Ht Hstep. induction evs as [|e rest IH]; cbn; intros c c' HP; [intros [= <-]; split; [exact HP|apply Hr]|].
  destruct (handle_evidence c e) as [c1|] eqn:E; [|discriminate]. intros H. destruct (Hstep _ _ _ HP E) as [P1 R1].
  destruct (IH _ _ P1 H) as [P2 R2]. split; [exact P2|eapply Ht; eauto].
Qed.
