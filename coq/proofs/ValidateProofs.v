(* ValidateProofs.v — facts about the stateless validators. *)
Require Import Model.Base Model.Validate.

Lemma setpower_validate_domain p :
  setpower_validate true p = Ok tt <-> min_power <= p <= max_int64.
Proof.
  unfold setpower_validate, min_power, max_int64, two63. cbn [negb].
  destruct (Z.ltb_spec p 1000000); [split; [discriminate|lia]|].
  destruct (Z.ltb_spec (2 ^ 63 - 1) p); split; intros; try discriminate; try lia; reflexivity.
Qed.

Lemma setpower_validate_below p : p < min_power -> setpower_validate true p = Err EPoaPowerBelowMinimum.
Proof.
  unfold setpower_validate, min_power. cbn [negb]. intros H.
  destruct (Z.ltb_spec p 1000000); [reflexivity|lia].
Qed.

Lemma setpower_validate_above p : max_int64 < p -> setpower_validate true p = Err ESdkInvalidRequest.
Proof.
  unfold setpower_validate, min_power, max_int64, two63. cbn [negb]. intros H.
  destruct (Z.ltb_spec p 1000000); [lia|].
  destruct (Z.ltb_spec (2 ^ 63 - 1) p); [reflexivity|lia].
Qed.

Lemma setpower_validate_bad_addr p : setpower_validate false p = Err ESdkInvalidAddress.
Proof. reflexivity. Qed.

(* accepted powers survive the int64 cast unchanged and give at least one unit of voting power *)
Lemma accepted_cast p : min_power <= p <= max_int64 -> cast_i64 p = p /\ 1 <= tokens_to_power p.
Proof.
  unfold cast_i64, min_power, max_int64, two63, tokens_to_power, power_reduction. intros H.
  destruct (Z.ltb_spec p (2 ^ 63)); [|lia]. split; [reflexivity|].
  apply Z.div_le_lower_bound; lia.
Qed.
