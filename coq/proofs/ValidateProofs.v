(* ValidateProofs.v — facts about the stateless validators. *)
Require Import Model.Base Model.Validate.

Lemma setpower_validate_domain p :
  setpower_validate true p = Ok tt <-> min_power <= p <= max_int64.
Proof.
  unfold setpower_validate, min_power, max_int64, two63. cbn [negb].
  destruct (Z.ltb_spec p 1000000); [split; [discriminate|lia]|].
  destruct (Z.ltb_spec (2 ^ 63 - 1) p); split; intros; try discriminate; try lia; reflexivity.
Qed.

Lemma setpower_validate_below p : p < min_power -> setpower_validate true p = Err EPoaPowerBelowMinimum.
Proof.
  unfold setpower_validate, min_power. cbn [negb]. intros H.
  destruct (Z.ltb_spec p 1000000); [reflexivity|lia].
Qed.

Lemma setpower_validate_above p : max_int64 < p -> setpower_validate true p = Err ESdkInvalidRequest.
Proof.
  unfold setpower_validate, min_power, max_int64, two63. cbn [negb]. intros H.
  destruct (Z.ltb_spec p 1000000); [lia|].
  destruct (Z.ltb_spec (2 ^ 63 - 1) p); [reflexivity|lia].
Qed.

Lemma setpower_validate_bad_addr p : setpower_validate false p = Err ESdkInvalidAddress.
Proof. reflexivity. Qed.

(* accepted powers survive the int64 cast unchanged and give at least one unit of voting power *)
Lemma accepted_cast p : min_power <= p <= max_int64 -> cast_i64 p = p /\ 1 <= tokens_to_power p.
Proof.
  unfold cast_i64, min_power, max_int64, two63, tokens_to_power, power_reduction. intros H.
  destruct (Z.ltb_spec p (2 ^ 63)); [|lia]. split; [reflexivity|].
  apply Z.div_le_lower_bound; lia.
Qed.

(* ---- C15: PoA's CreateValidator validation is x/staking's own, for any value >= min-self-delegation >= 1 ---- *)
Lemma create_validate_parity c value msd :
  0 < msd -> msd <= value ->
  staking_create_validate c true value msd = poa_create_validate c.
Proof.
  intros Hm Hv. unfold staking_create_validate, poa_create_validate.
  destruct (cb_addr_ok c); cbn; [|reflexivity].
  destruct (cb_has_pubkey c); cbn; [|reflexivity].
  destruct (Z.leb_spec value 0); [lia|]. cbn.
  destruct (desc_empty (cb_desc c)); [reflexivity|].
  destruct (comm_is_zero_struct c); [reflexivity|].
  destruct (commission_validate _ _ _); try reflexivity.
  destruct (Z.leb_spec msd 0); [lia|]. destruct (Z.ltb_spec value msd); [lia|]. reflexivity.
Qed.

(* the rule set, spelled out: accepted iff every listed condition holds *)
Lemma commission_validate_ok r m c :
  commission_validate (Some r) (Some m) (Some c) = VOk <-> 0 <= r <= m /\ m <= dec_one /\ 0 <= c <= m.
Proof.
  unfold commission_validate.
  destruct (Z.ltb_spec m 0); [split; [discriminate|lia]|].
  destruct (Z.ltb_spec dec_one m); [split; [discriminate|lia]|].
  destruct (Z.ltb_spec r 0); [split; [discriminate|lia]|].
  destruct (Z.ltb_spec m r); [split; [discriminate|lia]|].
  destruct (Z.ltb_spec c 0); [split; [discriminate|lia]|].
  destruct (Z.ltb_spec m c); [split; [discriminate|lia]|].
  split; [lia|reflexivity].
Qed.

Lemma ensure_length_spec d :
  ensure_length d = true <->
  dl_moniker d <= 70 /\ dl_identity d <= 3000 /\ dl_website d <= 140 /\ dl_security d <= 140 /\ dl_details d <= 280.
Proof.
  unfold ensure_length, max_moniker, max_identity, max_website, max_security, max_details.
  rewrite !andb_true_iff, !Z.leb_le. tauto.
Qed.
