(* InvTotal.v — LastTotalPower is the sum of the last validator powers in every reachable running state, and the
   total PoA caches for its 30 % test is that sum as it stood at the end of the previous block. *)
From stdpp Require Import gmap.
Require Import Model.Base Model.Ante Model.Validate Model.Current Model.State Model.Staking Model.Slashing Model.Poa Model.App.
Require Import proofs.EvBasic proofs.Inv proofs.InvIdx proofs.L1Effects proofs.InvPres proofs.InvMsgs proofs.InvHistory proofs.InvComet proofs.InvElig proofs.InvLive proofs.InvUpd.
Open Scope Z_scope.

Definition tsum (m : gmap Z Z) : Z := map_fold (fun _ p acc => acc + p) 0 m.

Lemma tsum_empty : tsum ∅ = 0.
Proof. apply map_fold_empty. Qed.
Lemma tsum_insert_new m k p : m !! k = None -> tsum (<[k := p]> m) = tsum m + p.
Proof. intros H. unfold tsum. rewrite map_fold_insert_L; [reflexivity| |exact H]. intros. lia. Qed.
Lemma tsum_delete m k p : m !! k = Some p -> tsum (delete k m) = tsum m - p.
Proof. intros H. rewrite <- (insert_delete m k p H) at 2. rewrite tsum_insert_new by apply lookup_delete. lia. Qed.
Lemma tsum_insert_old m k p q : m !! k = Some q -> tsum (<[k := p]> m) = tsum m - q + p.
Proof. intros H. rewrite <- insert_delete_insert. rewrite tsum_insert_new by apply lookup_delete. rewrite (tsum_delete m k q H). lia. Qed.
Lemma tsum_insert m k p : tsum (<[k := p]> m) = tsum m - default 0 (m !! k) + p.
Proof. destruct (m !! k) as [q|] eqn:E; cbn; [apply tsum_insert_old; exact E|rewrite tsum_insert_new by exact E; lia]. Qed.
Lemma tsum_delete' m k : tsum (delete k m) = tsum m - default 0 (m !! k).
Proof. destruct (m !! k) as [q|] eqn:E; cbn; [apply tsum_delete; exact E|rewrite delete_notin by exact E; lia]. Qed.

(* ---- main loop: total so far = sum of the store's last powers minus what the shrinking copy still holds ---- *)
Lemma apply_loop_total keys maxv : forall a a',
  apply_loop keys maxv a = LDone a' ->
  (forall p id, In (p, id) keys -> exists v, vals (stk (la_chain a)) !! id = Some v /\ v_jailed v = false /\ p = v_power v) ->
  List.NoDup (map snd keys) ->
  (forall id, In id (map snd keys) -> la_last a !! id = last_pow (stk (la_chain a)) !! id) ->
  tsum (last_pow (stk (la_chain a))) - tsum (la_last a) = la_total a ->
  tsum (last_pow (stk (la_chain a'))) - tsum (la_last a') = la_total a'.
Proof.
  induction keys as [|[p id] ks IH]; intros a a' Hrun K1 Knd Hcopy Hsum; cbn [apply_loop] in Hrun; [inversion Hrun; subst; exact Hsum|].
  destruct (maxv <=? la_count a); [inversion Hrun; subst; exact Hsum|].
  destruct (K1 p id (or_introl eq_refl)) as (v & Hv & Hj & Hp). subst p. rewrite Hv, Hj in Hrun.
  destruct (v_power v =? 0); [inversion Hrun; subst; exact Hsum|].
  inversion Knd as [|? ? Knotin Knd']; subst.
  set (r := match v_status v with Bonded => (la_chain a, v, 0) | _ => let '(c', v') := bond_validator (la_chain a) id v in (c', v', v_tokens v') end) in Hrun.
  assert (Hr : exists c1 v1 moved, r = (c1, v1, moved) /\ v_power v1 = v_power v /\
               vals (stk c1) = <[id := v1]> (vals (stk (la_chain a))) /\ v_jailed v1 = false /\ last_pow (stk c1) = last_pow (stk (la_chain a))).
  { subst r. pose proof (bond_validator_vals (la_chain a) id v) as (H1 & H2 & H3). destruct (v_status v) eqn:Es.
    - destruct (bond_validator (la_chain a) id v) as [c' v']. cbn in *. subst v'. do 3 eexists. repeat split; eauto.
    - destruct (bond_validator (la_chain a) id v) as [c' v']. cbn in *. subst v'. do 3 eexists. repeat split; eauto.
    - exists (la_chain a), v, 0. repeat split; auto. rewrite insert_id; auto. }
  destruct Hr as (c1 & v1 & moved & Er & Hp1 & Hvals1 & Hj1 & Hlp1). rewrite Er in Hrun. cbn zeta in Hrun.
  set (changed := match la_last a !! id with Some old => negb (old =? v_power v1) | None => true end) in Hrun.
  set (c2 := if changed then with_stk c1 (st_last_pow (stk c1) (<[id := v_power v1]> (last_pow (stk c1)))) else c1) in Hrun.
  assert (Hvals2 : vals (stk c2) = <[id := v1]> (vals (stk (la_chain a)))) by (subst c2; destruct changed; exact Hvals1).
  assert (Hlp2 : last_pow (stk c2) = <[id := v_power v1]> (last_pow (stk (la_chain a)))).
  { subst c2 changed. pose proof (Hcopy id (or_introl eq_refl)) as Hc. destruct (la_last a !! id) as [old|] eqn:El.
    - destruct (Z.eqb_spec old (v_power v1)) as [->|Hne]; cbn [negb]; [rewrite Hlp1; symmetry; apply insert_id; congruence|cbn; rewrite Hlp1; reflexivity].
    - cbn. rewrite Hlp1. reflexivity. }
  match type of Hrun with apply_loop ks maxv ?x = _ => set (a1 := x) in Hrun end.
  apply (IH a1 a' Hrun).
  - intros q j Hin. destruct (K1 q j (or_intror Hin)) as (w & Hw & Hjw & Hq). cbn [a1 la_chain]. rewrite Hvals2.
    destruct (decide (j = id)) as [->|Hne]; [exfalso; apply Knotin; change id with (snd (q, id)); apply in_map; exact Hin|].
    rewrite lookup_insert_ne by auto. eauto.
  - exact Knd'.
  - cbn [a1 la_last la_chain]. intros j Hin. assert (j <> id) by (intros ->; contradiction). rewrite Hlp2, lookup_delete_ne, lookup_insert_ne by auto. apply Hcopy. right; exact Hin.
  - cbn [a1 la_last la_chain la_total]. rewrite Hlp2, tsum_insert, tsum_delete'. rewrite (Hcopy id (or_introl eq_refl)). lia.
Qed.

Lemma unbond_loop_total ids : forall a a' (G : gmap Z Z),
  unbond_loop ids a = LDone a' -> List.NoDup ids ->
  (forall id, is_Some (G !! id) <-> In id ids) ->
  (forall id q, G !! id = Some q -> last_pow (stk (la_chain a)) !! id = Some q) ->
  tsum (last_pow (stk (la_chain a'))) = tsum (last_pow (stk (la_chain a))) - tsum G /\ la_total a' = la_total a.
Proof.
  induction ids as [|i rest IH]; intros a a' G Hrun Hnd Hdom Hsub; cbn [unbond_loop] in Hrun.
  - inversion Hrun; subst. assert (G = ∅) by (apply map_eq; intros k; rewrite lookup_empty; destruct (G !! k) eqn:E; [|reflexivity]; exfalso; apply (Hdom k); eauto).
    subst G. rewrite tsum_empty. split; [lia|reflexivity].
  - destruct (vals (stk (la_chain a)) !! i) as [v|] eqn:Hv; [|discriminate]. destruct (negb _); [discriminate|].
    pose proof (begin_unbonding_vals (la_chain a) i v) as (vu & Hsnd & _ & _ & _ & Hlp).
    destruct (begin_unbonding (la_chain a) i v) as [c1 v1] eqn:Eb. cbn [fst snd] in *.
    inversion Hnd as [|? ? Hnotin Hnd']; subst.
    destruct (proj2 (Hdom i) (or_introl eq_refl)) as [q Hq].
    destruct (IH _ a' (delete i G) Hrun Hnd') as [E1 E2].
    + intros j. rewrite lookup_delete_is_Some. rewrite Hdom. cbn. split; [intros [Hne [Heq|Hin]]; [congruence|exact Hin]|intros Hin; split; [intros ->; contradiction|right; exact Hin]].
    + intros j x Hx. apply lookup_delete_Some in Hx as [Hne Hx]. cbn [la_chain]. cbn. rewrite Hlp, lookup_delete_ne by auto. apply Hsub; exact Hx.
    + cbn [la_chain la_total] in E1, E2. split; [|exact E2]. rewrite E1. cbn. rewrite Hlp. rewrite (tsum_delete _ i q (Hsub i q Hq)), (tsum_delete G i q Hq). lia.
Qed.

(* no update emitted = no change of the last powers *)
Lemma apply_loop_quiet keys maxv : forall a a', apply_loop keys maxv a = LDone a' -> la_upd a' = [] -> la_upd a = [] /\ last_pow (stk (la_chain a')) = last_pow (stk (la_chain a)).
Proof.
  induction keys as [|[p id] ks IH]; intros a a'; cbn [apply_loop]; [intros [= <-]; auto|].
  destruct (_ <=? _); [intros [= <-]; auto|]. destruct (vals _ !! id) as [v|]; [|discriminate].
  destruct (v_jailed v); [apply IH|]. destruct (_ =? 0); [intros [= <-]; auto|].
  pose proof (bond_validator_vals (la_chain a) id v) as (_ & _ & H3).
  assert (Hgen : forall c1 v1 moved, last_pow (stk c1) = last_pow (stk (la_chain a)) ->
     apply_loop ks maxv
       {| la_chain := if match la_last a !! id with Some old => negb (old =? v_power v1) | None => true end
                      then with_stk c1 (st_last_pow (stk c1) (<[id:=v_power v1]> (last_pow (stk c1)))) else c1;
          la_last := delete id (la_last a);
          la_upd := if match la_last a !! id with Some old => negb (old =? v_power v1) | None => true end then la_upd a ++ [(v_cons v1, v_power v1)] else la_upd a;
          la_count := la_count a + 1; la_total := la_total a + v_power v1; la_to_bonded := la_to_bonded a + moved |} = LDone a' ->
     la_upd a' = [] -> la_upd a = [] /\ last_pow (stk (la_chain a')) = last_pow (stk (la_chain a))).
  { intros c1 v1 moved Hlp Hr Hq. destruct (IH _ _ Hr Hq) as [U L]. cbn [la_upd la_chain] in U, L.
    destruct (match la_last a !! id with Some old => negb (old =? v_power v1) | None => true end); [destruct (la_upd a); discriminate|].
    split; [exact U|congruence]. }
  destruct (v_status v); cbn zeta.
  - destruct (bond_validator (la_chain a) id v) as [cb vb]. cbn in H3. apply Hgen. exact H3.
  - destruct (bond_validator (la_chain a) id v) as [cb vb]. cbn in H3. apply Hgen. exact H3.
  - apply Hgen. reflexivity.
Qed.

Lemma unbond_loop_quiet ids : forall a a', unbond_loop ids a = LDone a' -> la_upd a' = [] -> ids = [] \/ False.
Proof.
  destruct ids as [|i rest]; [auto|]. intros a a'. cbn [unbond_loop].
  destruct (vals _ !! i) as [v|]; [|discriminate]. destruct (negb _); [discriminate|]. destruct (begin_unbonding _ _ _) as [c1 v1]. intros H Hq. right.
  assert (G : forall ids a a', unbond_loop ids a = LDone a' -> la_upd a' = [] -> la_upd a = []).
  { clear. induction ids as [|j r IH]; intros a a'; cbn [unbond_loop]; [intros [= <-]; auto|].
    destruct (vals _ !! j) as [v|]; [|discriminate]. destruct (negb _); [discriminate|]. destruct (begin_unbonding _ _ _) as [c1 v1]. intros H Hq.
    specialize (IH _ _ H Hq). cbn in IH. destruct (la_upd a); discriminate. }
  specialize (G _ _ _ H Hq). cbn in G. destruct (la_upd a); discriminate.
Qed.

Definition TL (s : staking) : Prop := last_total s = tsum (last_pow s).

Theorem apply_valset_updates_TL c c' upd : CI c -> TL (stk c) -> apply_valset_updates c = EBOk c' upd -> TL (stk c').
Proof.
  intros [HS HP] HT Hrun. unfold apply_valset_updates in Hrun.
  set (keys := sort_by pidx_le (pidx (stk c))) in *.
  set (a0 := {| la_chain := c; la_last := last_pow (stk c); la_upd := []; la_count := 0; la_total := 0; la_to_bonded := 0 |}) in *.
  destruct (apply_loop keys _ a0) as [a1|] eqn:E1; [|discriminate].
  destruct (unbond_loop _ a1) as [a2|] eqn:E2; [|discriminate].
  assert (Hperm : forall x, In x keys -> In x (pidx (stk c))).
  { intros x H. apply (Permutation_in _ (sort_by_perm pidx_le _)) in H. exact H. }
  assert (Knd : List.NoDup (map snd keys)).
  { eapply Permutation_NoDup; [|exact (si_unique _ HS)]. apply Permutation_map. symmetry. apply sort_by_perm. }
  assert (K1 : forall p id, In (p, id) keys -> exists v, vals (stk (la_chain a0)) !! id = Some v /\ v_jailed v = false /\ p = v_power v).
  { intros p id Hin. apply Hperm in Hin. apply (si_sound _ HS). exact Hin. }
  pose proof (apply_loop_total keys _ a0 a1 E1 K1 Knd ltac:(auto) ltac:(unfold a0; cbn; lia)) as T1.
  destruct (apply_loop_sound keys _ a0 a1 E1 K1) as (Agree & _).
  { intros p id Hin. apply Hperm in Hin. destruct (si_sound _ HS p id Hin) as (v & Hv & _ & ->). apply tokens_to_power_nonneg. eapply si_tok; eauto. }
  { unfold a0; cbn. auto. } { unfold a0; cbn. intros id q H1 H2. congruence. }
  destruct (sorted_keys_spec (la_last a1)) as [Hnd Hmem].
  destruct (unbond_loop_total _ a1 a2 (la_last a1) E2 Hnd) as [T2 T3].
  { intros id. symmetry. apply Hmem. } { exact Agree. }
  destruct (if la_to_bonded a2 =? 0 then _ else _) as [b|]; [|discriminate]. injection Hrun as Hc' Hu.
  unfold TL. rewrite <- Hc'. destruct (la_upd a2) eqn:Eu; cbn.
  - (* nothing emitted: nothing changed *)
    destruct (unbond_loop_quiet _ _ _ E2 Eu) as [Hids|[]].
    rewrite Hids in E2. cbn in E2. inversion E2; subst a2.
    destruct (apply_loop_quiet _ _ _ _ E1 Eu) as [_ L]. rewrite L. unfold a0. cbn.
    assert (Hlt : last_total (stk (la_chain a1)) = last_total (stk c)).
    { clear -E1. revert E1. unfold a0. generalize (sp_max_validators (params (stk c))).
      assert (G : forall keys maxv a a', apply_loop keys maxv a = LDone a' -> last_total (stk (la_chain a')) = last_total (stk (la_chain a))).
      { induction keys0 as [|[p id] ks IH]; intros maxv a a'; cbn [apply_loop]; [intros [= <-]; reflexivity|].
        destruct (_ <=? _); [intros [= <-]; reflexivity|]. destruct (vals _ !! id) as [v|]; [|discriminate].
        destruct (v_jailed v) eqn:Hj; [apply IH|]. destruct (_ =? 0); [intros [= <-]; reflexivity|].
        destruct (v_status v); cbn zeta.
        - destruct (bond_validator (la_chain a) id v) as [cb vb] eqn:Eb. unfold bond_validator in Eb. inversion Eb; subst. intros H. apply IH in H. rewrite H. cbn.
          destruct (match la_last a !! id with Some old => _ | None => true end); cbn; unfold set_index, set_validator, del_index; cbn; rewrite Hj; reflexivity.
        - destruct (bond_validator (la_chain a) id v) as [cb vb] eqn:Eb. unfold bond_validator in Eb. inversion Eb; subst. intros H. apply IH in H. rewrite H. cbn.
          destruct (match la_last a !! id with Some old => _ | None => true end); cbn; unfold set_index, set_validator, del_index; cbn; rewrite Hj; reflexivity.
        - intros H. apply IH in H. rewrite H. cbn. destruct (match la_last a !! id with Some old => _ | None => true end); reflexivity. }
      intros z H. apply G in H. exact H. }
    rewrite Hlt. exact HT.
  - rewrite T2, T3. lia.
Qed.

(* ---- nothing else writes the last powers or their total ---- *)
Definition lp_same (c c' : chain) : Prop := last_pow (stk c') = last_pow (stk c) /\ last_total (stk c') = last_total (stk c).

Lemma lp_same_refl c : lp_same c c. Proof. split; reflexivity. Qed.
Lemma lp_same_trans c1 c2 c3 : lp_same c1 c2 -> lp_same c2 c3 -> lp_same c1 c3.
Proof. intros [A1 B1] [A2 B2]. split; congruence. Qed.

Lemma slash_lp c k p f c' : slash c k p f = Some c' -> lp_same c c'.
Proof. intros H. apply slash_frame in H as (_ & _ & _ & _ & _ & _ & Hl & _ & _ & _ & Ht). split; assumption. Qed.

Lemma handle_votes_lp votes absent : forall c c', handle_votes votes absent c = Some c' -> lp_same c c'.
Proof.
  induction votes as [|[k p] vs IH]; cbn; intros c c'; [intros [= <-]; apply lp_same_refl|].
  destruct (handle_signature c k p _) as [c1|] eqn:E; [|discriminate]. intros H. eapply lp_same_trans; [|apply IH; exact H].
  unfold handle_signature in E. destruct (by_cons (stk c) !! k) as [id|]; [|discriminate].
  destruct (vals (stk c) !! id) as [v|]; [|discriminate]. destruct (v_jailed v); [inversion E; apply lp_same_refl|].
  destruct (infos (sl c) !! k) as [i|]; [|discriminate]. destruct (if negb _ && negb _ then _ else _) as [bm' cnt].
  destruct (_ && _); [|inversion E; subst; split; reflexivity].
  destruct (slash c k p _) as [cs|] eqn:Es; [|discriminate]. destruct (jail (stk cs) k) as [s2|] eqn:Ej; [|discriminate].
  inversion E; subst. eapply lp_same_trans; [eapply slash_lp; eauto|]. unfold lp_same. cbn.
  unfold jail in Ej. destruct (by_cons (stk cs) !! k) as [j|]; [|discriminate]. destruct (vals (stk cs) !! j) as [vj|]; [|discriminate].
  destruct (v_jailed vj); [discriminate|]. inversion Ej. split; reflexivity.
Qed.

Lemma set_poa_power_lp c val n c' : set_poa_power c val n = MOk c' -> lp_same c c' /\ cached_power (poa c') = cached_power (poa c).
Proof.
  unfold set_poa_power. destruct (vals (stk c) !! val) as [v|]; [|discriminate]. destruct (_ =? _); [discriminate|]. destruct (_ && _).
  - destruct (slash _ _ _ _) as [c2|] eqn:Es; [|discriminate]. cbn [mbind]. intros H. apply update_validator_set_spec in H as (_ & _ & _ & Hl & Ht & _ & _ & _ & _ & Hp).
    pose proof (slash_frame _ _ _ _ _ Es) as (_ & Hpoa & _ & _ & _ & _ & Hl2 & _ & _ & _ & Ht2). cbn in *.
    split; [split; congruence|]. rewrite Hp. cbn. rewrite Hpoa. reflexivity.
  - cbn [mbind]. intros H. apply update_validator_set_spec in H as (_ & _ & _ & Hl & Ht & _ & _ & _ & _ & Hp). cbn in *.
    split; [split; [rewrite Hl|rewrite Ht]; unfold set_index, del_index; cbn; destruct (v_jailed v); reflexivity|]. rewrite Hp. reflexivity.
Qed.

Lemma update_bonded_pool_lp c c' : update_bonded_pool c = MOk c' -> lp_same c c' /\ cached_power (poa c') = cached_power (poa c).
Proof. intros H. apply update_bonded_pool_stk in H as (Hs & Hp & _). unfold lp_same. rewrite Hs, Hp. auto. Qed.

Lemma exec_msg_lp c m c' : exec_msg c m = MOk c' -> lp_same c c' /\ cached_power (poa c') = cached_power (poa c).
Proof.
  destruct m as [s v p u|s v|s v|v k mon r mx ch msd|s p|v|s|s t]; cbn.
  - unfold msg_set_power. destruct (negb (is_admin s)); [discriminate|].
    destruct (setpower_validate (0 <=? v) p) as [[]|]; [|discriminate].
    set (r1 := match find_pending v (pending (poa c)) with Some q => accept_new_validator c q | None => ensure_active c v end).
    assert (H1 : forall c1, r1 = MOk c1 -> lp_same c c1 /\ cached_power (poa c1) = cached_power (poa c)).
    { subst r1. intros c1. destruct (find_pending v (pending (poa c))) as [q|].
      - unfold accept_new_validator. intros Ea. apply update_bonded_pool_lp in Ea as [[A B] C]. cbn in *. split; [split|]; assumption.
      - intros H. apply ensure_active_id in H as ->. split; [apply lp_same_refl|reflexivity]. }
    destruct r1 as [c1|]; [|discriminate]. cbn [mbind]. destruct (H1 c1 eq_refl) as [L1 P1].
    destruct (set_poa_power c1 v (cast_i64 p)) as [c2|] eqn:E2; [|discriminate]. cbn [mbind]. apply set_poa_power_lp in E2 as [L2 P2].
    destruct (negb u && (1 <? height c2)); [destruct (_ =? 0); [discriminate|]; destruct (30 <=? _); [discriminate|]|]; intros H; apply update_bonded_pool_lp in H as [L3 P3];
      (split; [eapply lp_same_trans; [exact L1|eapply lp_same_trans; eauto]|congruence]).
  - unfold msg_remove_validator. destruct (if is_admin s then None else _); [discriminate|]. destruct (_ =? 0); [discriminate|].
    destruct (vals (stk c) !! v) as [vv|]; [|discriminate]. destruct (negb _); [discriminate|].
    destruct (set_poa_power c v 0) as [c1|] eqn:E; [|discriminate]. cbn [mbind]. apply set_poa_power_lp in E as [L1 P1].
    intros H. apply update_bonded_pool_lp in H as [L2 P2]. cbn in *. split; [eapply lp_same_trans; [exact L1|exact L2]|congruence].
  - unfold msg_remove_pending. destruct (negb _); [discriminate|]. intros [= <-]. split; [split; reflexivity|reflexivity].
  - destruct r as [r|], mx as [mx|], ch as [ch|]; try discriminate.
    unfold msg_create_validator. destruct (poa_create_validate _); try discriminate. destruct (_ <? _); [discriminate|].
    destruct (bool_decide _); [discriminate|]. destruct (bool_decide _); [discriminate|]. destruct (pending_conflict _ _ _); [discriminate|].
    destruct (negb _); [discriminate|]. intros H. apply update_bonded_pool_lp in H as [L P]. cbn in *. split; [exact L|exact P].
  - unfold msg_update_params. destruct (negb _); [discriminate|]. destruct (negb _); [discriminate|]. destruct (negb _); [discriminate|].
    intros [= <-]. split; [split; reflexivity|reflexivity].
  - unfold msg_unjail. destruct (vals (stk c) !! v) as [vv|]; [|discriminate]. destruct (dels (stk c) !! v); [|discriminate].
    destruct (_ =? 0); [discriminate|]. destruct (_ <? _); [discriminate|]. destruct (negb _); [discriminate|].
    destruct (match infos _ !! _ with Some _ => _ | None => _ end); [discriminate|].
    destruct (unjail (stk c) (v_cons vv)) as [s'|] eqn:E; [|discriminate]. intros [= <-].
    unfold unjail in E. destruct (by_cons (stk c) !! v_cons vv) as [id|]; [|discriminate]. destruct (vals (stk c) !! id) as [vj|]; [|discriminate].
    destruct (negb _); [discriminate|]. inversion E. split; [split; unfold set_index, set_validator; cbn; reflexivity|reflexivity].
  - intros [= <-]. split; [apply lp_same_refl|reflexivity].
  - intros [= <-]. split; [apply lp_same_refl|reflexivity].
Qed.

Lemma deliver_txs_lp txs : forall c, lp_same c (fst (deliver_txs c txs)) /\ cached_power (poa (fst (deliver_txs c txs))) = cached_power (poa c).
Proof.
  induction txs as [|tx txs IH]; cbn; intros c; [split; [apply lp_same_refl|reflexivity]|].
  assert (H1 : lp_same c (fst (deliver_tx c tx)) /\ cached_power (poa (fst (deliver_tx c tx))) = cached_power (poa c)).
  { assert (Hsame : forall c0, stk c0 = stk c -> poa c0 = poa c -> lp_same c c0 /\ cached_power (poa c0) = cached_power (poa c)).
    { intros c0 Hs Hp. unfold lp_same. rewrite Hs, Hp. auto. }
    unfold deliver_tx. destruct (cur_stk_decorator _ _); [apply Hsame; reflexivity|]. destruct (cur_wd_decorator _ _); [apply Hsame; reflexivity|].
    destruct (cur_comm_decorator _ _ _ _ _); try (apply Hsame; reflexivity). destruct (existsb is_tree tx); [apply Hsame; reflexivity|].
    destruct (exec_msgs _ tx) as [c2|] eqn:E; [|apply Hsame; reflexivity]. cbn.
    assert (G : forall ms c0 c1, exec_msgs c0 ms = MOk c1 -> lp_same c0 c1 /\ cached_power (poa c1) = cached_power (poa c0)).
    { induction ms as [|m ms IHm]; cbn; intros c0 c1; [intros [= <-]; split; [apply lp_same_refl|reflexivity]|]. destruct (exec_msg c0 m) as [cm|] eqn:Em; [|discriminate]. cbn.
      intros H. destruct (exec_msg_lp _ _ _ Em) as [L1 P1]. destruct (IHm _ _ H) as [L2 P2]. split; [eapply lp_same_trans; eauto|congruence]. }
    destruct (G _ _ _ E) as [L P]. split; [exact L|exact P]. }
  destruct H1 as [L1 P1]. destruct (deliver_tx c tx) as [c1 o]. cbn in *. destruct (IH c1) as [L2 P2]. destruct (deliver_txs c1 txs) as [c2 os]. cbn in *.
  split; [eapply lp_same_trans; eauto|congruence].
Qed.

(* ---- histories ---- *)
Lemma mature_ids_last_total ids : forall c c', mature_ids ids c = Some c' -> last_total (stk c') = last_total (stk c).
Proof.
  induction ids as [|i r IHi]; cbn [mature_ids]; intros c c'; [intros [= <-]; reflexivity|].
  destruct (vals (stk c) !! i) as [v|]; [|discriminate]. destruct (negb _); [discriminate|].
  destruct (v_shares _ =? 0); [destruct (0 <? _); [discriminate|]|]; intros H; apply IHi in H; rewrite H; reflexivity.
Qed.

Lemma mature_slots_last_total slots : forall c c', mature_slots slots c = Some c' -> last_total (stk c') = last_total (stk c).
Proof.
  induction slots as [|[[t h] ids] rest IH]; cbn [mature_slots]; intros c c'; [intros [= <-]; reflexivity|].
  destruct (_ && _); [|apply IH]. destruct (mature_ids ids c) as [cm|] eqn:E; [|discriminate]. intros H. rewrite (IH _ _ H). eapply mature_ids_last_total; eauto.
Qed.

Lemma staking_end_block_TL c c' upd : CI c -> TL (stk c) -> staking_end_block c = EBOk c' upd -> TL (stk c').
Proof.
  intros HCI HT. unfold staking_end_block. destruct (apply_valset_updates c) as [c1 u|] eqn:E1; [|discriminate].
  destruct (unbond_all_mature c1) as [c2|] eqn:E2; [|discriminate]. intros [= <- _].
  pose proof (apply_valset_updates_TL _ _ _ HCI HT E1) as T1. unfold unbond_all_mature in E2.
  pose proof (mature_slots_frame _ _ _ E2) as (L & _ & _). unfold TL in *. rewrite L, (mature_slots_last_total _ _ _ E2). exact T1.
Qed.

Lemma run_block_TL w b : CI (w_chain w) -> (w_halted w = None -> TL (stk (w_chain w))) ->
  w_halted (fst (run_block w b)) = None -> TL (stk (w_chain (fst (run_block w b)))).
Proof.
  intros HCI HT. unfold run_block. destruct (w_halted w) eqn:Hh; [cbn; rewrite Hh; discriminate|]. specialize (HT eq_refl).
  set (c0 := with_clock (w_chain w) (height (w_chain w) + 1) (now (w_chain w) + b_dt b)).
  assert (H0 : CI c0) by (apply CI_clock; exact HCI).
  destruct (begin_block c0 _ (b_absent b) (b_evidence b)) as [c1|e] eqn:Eb; [|cbn; discriminate].
  pose proof (begin_block_CI _ _ _ _ _ H0 Eb) as H1.
  assert (L1 : lp_same c0 c1).
  { revert Eb. unfold begin_block. destruct (_ && _); [discriminate|]. destruct (handle_votes _ _ c0) as [cx|] eqn:E; [|discriminate].
    destruct (handle_evidences _ cx) as [cy|] eqn:E2; [|discriminate]. intros [= <-].
    apply handle_votes_lp in E. apply handle_evidences_frame in E2 as (_ & _ & _ & _ & _ & LP & _ & _ & _ & LT & _).
    destruct E as [A B]. unfold poa_begin_block. destruct (1 <? height cy); (split; [exact (eq_trans LP A)|exact (eq_trans LT B)]). }
  pose proof (deliver_txs_CI (b_txs b) c1 H1) as H2. destruct (deliver_txs_lp (b_txs b) c1) as [L2 _].
  destruct (deliver_txs c1 (b_txs b)) as [c2 outs]. cbn in H2, L2.
  assert (T2 : TL (stk c2)).
  { destruct L1 as [A1 B1], L2 as [A2 B2]. unfold TL in *. rewrite B2, B1, A2, A1. exact HT. }
  destruct (staking_end_block c2) as [c3 upd|e] eqn:Ee; [|cbn; discriminate].
  pose proof (staking_end_block_TL _ _ _ H2 T2 Ee) as T3.
  destruct (comet_apply _ upd); cbn; [intros _; exact T3|discriminate].
Qed.

Theorem reachable_TL g bs : wf_genesis g ->
  let w := run_world (init_world g) bs in w_halted w = None -> last_total (stk (w_chain w)) = tsum (last_pow (stk (w_chain w))).
Proof.
  intros Hwf. pose proof (init_world_CI g Hwf) as HC.
  assert (HT : w_halted (init_world g) = None -> TL (stk (w_chain (init_world g)))).
  { pose proof (genesis_chain_CI g Hwf) as HC0. unfold init_world. fold (genesis_chain g).
    destruct (apply_valset_updates (genesis_chain g)) as [c1 upd|e] eqn:E; cbn; [intros _|discriminate].
    apply (apply_valset_updates_TL _ _ upd HC0); [|exact E]. unfold TL. cbn. rewrite tsum_empty. reflexivity. }
  revert HC HT. generalize (init_world g). induction bs as [|b bs IH]; cbn; intros w HC HT; [exact HT|].
  apply IH; [apply run_block_CI; exact HC|apply run_block_TL; assumption].
Qed.


Lemma handle_votes_height votes absent : forall c c', handle_votes votes absent c = Some c' -> height c' = height c.
Proof.
  induction votes as [|[k p] vs IH]; cbn; intros c c'; [intros [= <-]; reflexivity|].
  destruct (handle_signature c k p _) as [c1|] eqn:E; [|discriminate]. intros H. rewrite (IH _ _ H). clear H IH.
  unfold handle_signature in E. destruct (by_cons (stk c) !! k) as [id|]; [|discriminate].
  destruct (vals (stk c) !! id) as [v|]; [|discriminate]. destruct (v_jailed v); [inversion E; reflexivity|].
  destruct (infos (sl c) !! k) as [i|]; [|discriminate]. destruct (if negb _ && negb _ then _ else _) as [bm' cnt].
  destruct (_ && _); [|inversion E; reflexivity].
  destruct (slash c k p _) as [cs|] eqn:Es; [|discriminate]. destruct (jail (stk cs) k) as [s2|]; [|discriminate].
  inversion E; subst. cbn. apply slash_frame in Es as (_ & _ & _ & Hh & _). exact Hh.
Qed.

(* the base of the 30 % test: throughout a block above height 1, whatever transactions ran so far, PoA's cached total is
   the sum of the last validator powers as the previous block left them (and those are still what the store holds) *)
Theorem cached_total_is_previous_set_total g bs b c1 txs : wf_genesis g ->
  let w := run_world (init_world g) bs in
  w_halted w = None -> 0 < height (w_chain w) ->
  begin_block (with_clock (w_chain w) (height (w_chain w) + 1) (now (w_chain w) + b_dt b))
              (match c_prev (w_comet w) with Some vs => sorted_votes vs | None => [] end) (b_absent b) (b_evidence b) = inl c1 ->
  cached_power (poa (fst (deliver_txs c1 txs))) = tsum (last_pow (stk (w_chain w))) /\
  last_pow (stk (fst (deliver_txs c1 txs))) = last_pow (stk (w_chain w)).
Proof.
  intros Hwf w Hh Hht Eb. pose proof (reachable_TL g bs Hwf Hh) as HT. fold w in HT.
  destruct (deliver_txs_lp txs c1) as [[L2 _] P2]. rewrite P2, L2.
  revert Eb. unfold begin_block. destruct (_ && _); [discriminate|]. destruct (handle_votes _ _ _) as [cx|] eqn:E; [|discriminate].
  destruct (handle_evidences _ cx) as [cy|] eqn:E2; [|discriminate]. intros [= <-].
  pose proof (handle_votes_height _ _ _ _ E) as Hhx. cbn in Hhx.
  apply handle_votes_lp in E as [A B]. cbn in A, B.
  apply handle_evidences_frame in E2 as (_ & _ & Hhy & _ & _ & LP & _ & _ & _ & LT & _).
  unfold poa_begin_block. destruct (Z.ltb_spec 1 (height cy)); [|lia]. cbn. rewrite LT, LP, B, A. auto.
Qed.
