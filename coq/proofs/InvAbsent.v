(* InvAbsent.v — who is NOT in CometBFT's set: the consensus key of a pending application, of a validator that is not Bonded
   (unbonding, unbonded: removed, displaced, waiting) and of a jailed validator has no seat, in every reachable state. *)
From stdpp Require Import gmap.
Require Import Model.Base Model.Ante Model.Validate Model.Current Model.State Model.Staking Model.Slashing Model.Poa Model.App.
Require Import proofs.EvBasic proofs.Inv proofs.InvIdx proofs.L1Effects proofs.InvPres proofs.InvMsgs proofs.InvHistory proofs.InvComet proofs.InvElig.
Open Scope Z_scope.

Theorem pending_key_has_no_seat g bs p : wf_genesis g ->
  let w := run_world (init_world g) bs in
  w_halted w = None -> In p (pending (poa (w_chain w))) -> c_next (w_comet w) !! p_cons p = None.
Proof.
  intros Hg w Hh Hin. assert (HW : WI w) by (apply run_world_WI; apply init_world_WI; exact Hg). destruct HW as [[HS HP] Hrel]. specialize (Hrel Hh).
  destruct (c_next (w_comet w) !! p_cons p) as [q|] eqn:E; [|reflexivity]. exfalso.
  apply (Hrel (p_cons p) q) in E as (id & v & Hv & Hc & _). exact (pi_cons_free _ HP p id v Hin Hv Hc).
Qed.

Theorem not_bonded_or_jailed_has_no_seat g bs id v : wf_genesis g ->
  let w := run_world (init_world g) bs in
  w_halted w = None -> vals (stk (w_chain w)) !! id = Some v -> (v_status v <> Bonded \/ v_jailed v = true) ->
  c_next (w_comet w) !! v_cons v = None.
Proof.
  intros Hg w Hh Hv Hor. assert (HW : WI w) by (apply run_world_WI; apply init_world_WI; exact Hg). destruct HW as [[HS HP] Hrel]. specialize (Hrel Hh).
  destruct (c_next (w_comet w) !! v_cons v) as [q|] eqn:E; [|reflexivity]. exfalso.
  apply (Hrel (v_cons v) q) in E as (id' & v' & Hv' & Hc & Hl).
  assert (id' = id) by (eapply (si_cons _ HS); eauto). subst id'. rewrite Hv in Hv'. inversion Hv'; subst v'.
  destruct Hor as [Hnb|Hj].
  - destruct (si_last _ HS id q Hl) as (v0 & Hv0 & Hb). rewrite Hv in Hv0. inversion Hv0; subst v0. contradiction.
  - destruct (reachable_members_ok g bs Hg Hh id q Hl) as (v0 & Hv0 & Hj0 & _). fold w in Hv0. rewrite Hv in Hv0. inversion Hv0; subst v0. congruence.
Qed.
