(* InvFrame.v — nobody's stake moves unless something is aimed at it: a validator's record keeps its consensus key, jailed
   flag, tokens, shares, minimum self-delegation, commission and description, and its self-delegation, through a whole
   block unless the block carries a SetPower / RemoveValidator / Unjail naming it, or x/slashing jails it for downtime, or
   x/evidence punishes it for a double sign. *)
From stdpp Require Import gmap.
Require Import Model.Base Model.Ante Model.Validate Model.Current Model.State Model.Staking Model.Slashing Model.Poa Model.App.
Require Import proofs.EvBasic proofs.L1Basic proofs.L1More proofs.L1Effects proofs.Inv proofs.InvPres proofs.InvMsgs proofs.InvHistory proofs.InvElig proofs.InvLive.
Open Scope Z_scope.

Definition same_stake (v v' : validator) : Prop :=
  v_cons v' = v_cons v /\ v_jailed v' = v_jailed v /\ v_tokens v' = v_tokens v /\ v_shares v' = v_shares v /\
  v_msd v' = v_msd v /\ v_rate v' = v_rate v /\ v_maxrate v' = v_maxrate v /\ v_maxchg v' = v_maxchg v /\ v_moniker v' = v_moniker v.

Lemma same_stake_refl v : same_stake v v.
Proof. repeat split. Qed.

Lemma same_stake_trans v1 v2 v3 : same_stake v1 v2 -> same_stake v2 v3 -> same_stake v1 v3.
Proof. unfold same_stake. intros H1 H2. intuition congruence. Qed.

(* [id]'s stake is the same in [s'] as in [s]; a record may only disappear when it holds neither tokens nor shares *)
Definition keeps (s s' : staking) (id : Z) : Prop :=
  dels s' !! id = dels s !! id /\
  match vals s !! id with
  | Some v => match vals s' !! id with Some v' => same_stake v v' | None => v_tokens v <= 0 /\ v_shares v = 0 end
  | None => vals s' !! id = None
  end.

Lemma keeps_refl s id : keeps s s id.
Proof. split; [reflexivity|]. destruct (vals s !! id); [apply same_stake_refl|reflexivity]. Qed.

Lemma keeps_trans s1 s2 s3 id : keeps s1 s2 id -> keeps s2 s3 id -> keeps s1 s3 id.
Proof.
  intros [D1 K1] [D2 K2]. split; [congruence|].
  destruct (vals s1 !! id) as [v1|]; destruct (vals s2 !! id) as [v2|]; destruct (vals s3 !! id) as [v3|]; try discriminate; auto.
  - eapply same_stake_trans; eauto.
  - destruct K1 as (_ & _ & T & S & _). destruct K2. split; congruence.
Qed.

Lemma keeps_eq s s' id : vals s' !! id = vals s !! id -> dels s' !! id = dels s !! id -> keeps s s' id.
Proof. intros H D. split; [exact D|]. rewrite H. destruct (vals s !! id); [apply same_stake_refl|reflexivity]. Qed.

Lemma keeps_insert s s' j v v' id :
  vals s !! j = Some v -> vals s' = <[j := v']> (vals s) -> dels s' = dels s -> same_stake v v' -> keeps s s' id.
Proof.
  intros Hv Hvals Hd Hs. destruct (decide (id = j)) as [->|Hne].
  - split; [rewrite Hd; reflexivity|]. rewrite Hv, Hvals, lookup_insert. exact Hs.
  - apply keeps_eq; [rewrite Hvals, lookup_insert_ne by auto; reflexivity|rewrite Hd; reflexivity].
Qed.

Lemma keeps_delete s s' j v id :
  vals s !! j = Some v -> v_tokens v <= 0 -> v_shares v = 0 -> vals s' = delete j (vals s) -> dels s' = dels s -> keeps s s' id.
Proof.
  intros Hv Ht Hsh Hvals Hd. destruct (decide (id = j)) as [->|Hne].
  - split; [rewrite Hd; reflexivity|]. rewrite Hv, Hvals, lookup_delete. auto.
  - apply keeps_eq; [rewrite Hvals, lookup_delete_ne by auto; reflexivity|rewrite Hd; reflexivity].
Qed.

(* =====================  the EndBlocker keeps everybody's stake  ===================== *)
Lemma bond_validator_keep c j v :
  vals (stk (fst (bond_validator c j v))) = <[j := set_status v Bonded]> (vals (stk c)) /\
  dels (stk (fst (bond_validator c j v))) = dels (stk c) /\ snd (bond_validator c j v) = set_status v Bonded.
Proof. unfold bond_validator. cbn. unfold set_index, del_index, set_validator. destruct (v_jailed (set_status v Bonded)); cbn; auto. Qed.

Lemma begin_unbonding_keep c j v :
  exists v', snd (begin_unbonding c j v) = v' /\ same_stake v v' /\
  vals (stk (fst (begin_unbonding c j v))) = <[j := v']> (vals (stk c)) /\ dels (stk (fst (begin_unbonding c j v))) = dels (stk c).
Proof.
  unfold begin_unbonding. cbn. eexists. split; [reflexivity|]. split; [repeat split|].
  unfold set_index, del_index, set_validator. destruct (v_jailed _); cbn; auto.
Qed.

Lemma apply_loop_keeps keys maxv id : forall a a', apply_loop keys maxv a = LDone a' -> keeps (stk (la_chain a)) (stk (la_chain a')) id.
Proof.
  induction keys as [|[p j] ks IH]; intros a a'; cbn [apply_loop]; [intros [= <-]; apply keeps_refl|].
  destruct (_ <=? _); [intros [= <-]; apply keeps_refl|]. destruct (vals _ !! j) as [v|] eqn:Hv; [|discriminate].
  destruct (v_jailed v); [apply IH|]. destruct (_ =? 0); [intros [= <-]; apply keeps_refl|].
  destruct (bond_validator_keep (la_chain a) j v) as (H1 & H2 & H3).
  destruct (v_status v) eqn:Est.
  - destruct (bond_validator (la_chain a) j v) as [cb vb]. cbn in H1, H2, H3. subst vb. intros H. apply IH in H. eapply keeps_trans; [|exact H]. cbn [la_chain].
    apply (keeps_insert _ _ j v (set_status v Bonded) id Hv); [| |repeat split];
      destruct (match la_last a !! j with Some old => _ | None => true end); assumption.
  - destruct (bond_validator (la_chain a) j v) as [cb vb]. cbn in H1, H2, H3. subst vb. intros H. apply IH in H. eapply keeps_trans; [|exact H]. cbn [la_chain].
    apply (keeps_insert _ _ j v (set_status v Bonded) id Hv); [| |repeat split];
      destruct (match la_last a !! j with Some old => _ | None => true end); assumption.
  - intros H. apply IH in H. eapply keeps_trans; [|exact H]. cbn [la_chain].
    apply keeps_eq; destruct (match la_last a !! j with Some old => _ | None => true end); reflexivity.
Qed.

Lemma unbond_loop_keeps ids id : forall a a', unbond_loop ids a = LDone a' -> keeps (stk (la_chain a)) (stk (la_chain a')) id.
Proof.
  induction ids as [|j rest IH]; intros a a'; cbn [unbond_loop]; [intros [= <-]; apply keeps_refl|].
  destruct (vals _ !! j) as [v|] eqn:Hv; [|discriminate]. destruct (negb _); [discriminate|].
  destruct (begin_unbonding_keep (la_chain a) j v) as (vu & Hsnd & Hss & Hvals & Hd).
  destruct (begin_unbonding (la_chain a) j v) as [cu vu']. cbn in Hsnd, Hvals, Hd. subst vu'.
  intros H. apply IH in H. eapply keeps_trans; [|exact H]. cbn [la_chain].
  apply (keeps_insert _ _ j v vu id Hv); [exact Hvals|exact Hd|exact Hss].
Qed.

Lemma apply_valset_updates_keeps c c' upd id : apply_valset_updates c = EBOk c' upd -> keeps (stk c) (stk c') id.
Proof.
  unfold apply_valset_updates.
  destruct (apply_loop _ _ _) as [a1|] eqn:E1; [|discriminate]. destruct (unbond_loop _ a1) as [a2|] eqn:E2; [|discriminate].
  destruct (if la_to_bonded a2 =? 0 then _ else _); [|discriminate]. intros [= <- _].
  apply (apply_loop_keeps _ _ id) in E1. apply (unbond_loop_keeps _ id) in E2. cbn [la_chain] in E1.
  eapply keeps_trans; [exact E1|]. eapply keeps_trans; [exact E2|]. apply keeps_eq; destruct (la_upd a2); reflexivity.
Qed.

Lemma mature_ids_keeps ids id : forall c c', mature_ids ids c = Some c' -> keeps (stk c) (stk c') id.
Proof.
  induction ids as [|j rest IH]; cbn [mature_ids]; intros c c'; [intros [= <-]; apply keeps_refl|].
  destruct (vals (stk c) !! j) as [v|] eqn:Hv; [|discriminate]. destruct (negb _); [discriminate|].
  set (v' := set_status v Unbonded).
  destruct (Z.eqb_spec (v_shares v') 0) as [Hsh|Hsh].
  - destruct (Z.ltb_spec 0 (v_tokens v')) as [|Hle]; [discriminate|]. intros H. apply IH in H. eapply keeps_trans; [|exact H].
    eapply (keeps_delete _ _ j v id Hv); [exact Hle|exact Hsh| |reflexivity]. cbn. apply delete_insert_delete.
  - intros H. apply IH in H. eapply keeps_trans; [|exact H]. eapply (keeps_insert _ _ j v v' id Hv); [reflexivity|reflexivity|repeat split].
Qed.

Lemma mature_slots_keeps slots id : forall c c', mature_slots slots c = Some c' -> keeps (stk c) (stk c') id.
Proof.
  induction slots as [|[[t h] ids] rest IH]; cbn [mature_slots]; intros c c'; [intros [= <-]; apply keeps_refl|].
  destruct (_ && _); [|apply IH]. destruct (mature_ids ids c) as [c1|] eqn:E; [|discriminate]. intros H. apply IH in H.
  apply (mature_ids_keeps _ id) in E. eapply keeps_trans; eauto.
Qed.

Theorem staking_end_block_keeps c c' upd id : staking_end_block c = EBOk c' upd -> keeps (stk c) (stk c') id.
Proof.
  unfold staking_end_block. destruct (apply_valset_updates c) as [c1 u1|] eqn:E1; [|discriminate].
  destruct (unbond_all_mature c1) as [c2|] eqn:E2; [|discriminate]. intros [= <- _].
  eapply keeps_trans; [eapply apply_valset_updates_keeps; exact E1|]. unfold unbond_all_mature in E2. eapply mature_slots_keeps; exact E2.
Qed.

(* =====================  messages: only the validator a message names  ===================== *)
Definition targets (m : l1msg) (id : Z) : Prop :=
  match m with MSetPower _ v _ _ | MRemoveValidator _ v | MUnjail v => v = id | _ => False end.

Definition same_at (s s' : staking) (id : Z) : Prop := vals s' !! id = vals s !! id /\ dels s' !! id = dels s !! id.

Lemma same_at_refl s id : same_at s s id. Proof. split; reflexivity. Qed.
Lemma same_at_trans s1 s2 s3 id : same_at s1 s2 id -> same_at s2 s3 id -> same_at s1 s3 id.
Proof. intros [A B] [C D]. split; congruence. Qed.
Lemma same_at_keeps s s' id : same_at s s' id -> keeps s s' id.
Proof. intros [A B]. apply keeps_eq; assumption. Qed.

Lemma set_poa_power_same_at c val n c' id : SI (stk c) -> set_poa_power c val n = MOk c' -> id <> val -> same_at (stk c) (stk c') id.
Proof.
  intros HS H Hne. split; [apply (set_poa_power_others _ _ _ _ HS H); exact Hne|].
  revert H. unfold set_poa_power. destruct (vals (stk c) !! val) as [v|]; [|discriminate]. destruct (_ =? _); [discriminate|].
  destruct (_ && _).
  - destruct (slash _ _ _ _) as [c2|] eqn:Es; [|discriminate]. cbn [mbind]. intros H.
    apply update_validator_set_spec in H as (_ & Hd & _). rewrite Hd. cbn. rewrite lookup_insert_ne by auto.
    apply slash_frame in Es as (_ & _ & _ & _ & _ & _ & _ & _ & _ & Hd2 & _). rewrite Hd2. reflexivity.
  - cbn [mbind]. intros H. apply update_validator_set_spec in H as (_ & Hd & _). rewrite Hd. cbn. rewrite lookup_insert_ne by auto.
    unfold set_index, del_index. destruct (v_jailed _); reflexivity.
Qed.

Lemma exec_msg_same_at c m c' id : CI c -> exec_msg c m = MOk c' -> ~ targets m id -> same_at (stk c) (stk c') id.
Proof.
  intros [HS HP] H Ht. destruct m as [s v p u|s v|s v|v k mon r mx ch msd|s p|v|s|s t]; cbn in H, Ht.
  - assert (Hne : id <> v) by (intros ->; apply Ht; reflexivity). clear Ht. revert H.
    unfold msg_set_power. destruct (negb (is_admin s)); [discriminate|].
    destruct (setpower_validate (0 <=? v) p) as [[]|] eqn:Ev; [|discriminate].
    set (r1 := match find_pending v (pending (poa c)) with Some q => accept_new_validator c q | None => ensure_active c v end).
    assert (H1 : forall c1, r1 = MOk c1 -> same_at (stk c) (stk c1) id /\ SI (stk c1)).
    { subst r1. intros c1. destruct (find_pending v (pending (poa c))) as [q|] eqn:Ef.
      - intros Ea. apply find_pending_in in Ef as [Hin Hop]. destruct (accept_SI_PI _ _ _ HS HP Hin Ea) as [HS1 _]. split; [|exact HS1].
        unfold accept_new_validator in Ea. apply update_bonded_pool_spec in Ea as (Hs & _). rewrite Hs. unfold same_at. cbn.
        split; [rewrite lookup_insert_ne by congruence; reflexivity|reflexivity].
      - intros H. apply ensure_active_id in H as ->. split; [apply same_at_refl|exact HS]. }
    destruct r1 as [c1|]; [|discriminate]. cbn [mbind]. destruct (H1 c1 eq_refl) as [A1 S1].
    destruct (set_poa_power c1 v (cast_i64 p)) as [c2|] eqn:E2; [|discriminate]. cbn [mbind].
    pose proof (set_poa_power_same_at _ _ _ _ id S1 E2 Hne) as A2.
    assert (A : same_at (stk c) (stk c2) id) by (eapply same_at_trans; eauto).
    destruct (negb u && (1 <? height c2)).
    + destruct (_ =? 0); [discriminate|]. destruct (30 <=? _); [discriminate|]. intros H. apply update_bonded_pool_spec in H as (-> & _). exact A.
    + intros H. apply update_bonded_pool_spec in H as (-> & _). exact A.
  - assert (Hne : id <> v) by (intros ->; apply Ht; reflexivity). clear Ht. revert H.
    unfold msg_remove_validator. destruct (if is_admin s then None else _); [discriminate|].
    destruct (_ =? 0); [discriminate|].
    destruct (vals (stk c) !! v) as [vv|] eqn:Hv; [|discriminate]. destruct (negb _); [discriminate|].
    destruct (set_poa_power c v 0) as [c1|] eqn:E; [|discriminate]. cbn [mbind].
    intros H. apply update_bonded_pool_spec in H as (-> & _). cbn. apply (set_poa_power_same_at _ _ _ _ id HS E Hne).
  - revert H. unfold msg_remove_pending. destruct (negb _); [discriminate|]. intros [= <-]. apply same_at_refl.
  - revert H. destruct r as [r|], mx as [mx|], ch as [ch|]; try discriminate.
    unfold msg_create_validator. destruct (poa_create_validate _); try discriminate. destruct (_ <? _); [discriminate|].
    destruct (bool_decide _); [discriminate|]. destruct (bool_decide _); [discriminate|]. destruct (pending_conflict _ _ _); [discriminate|].
    destruct (negb _); [discriminate|]. intros H. apply update_bonded_pool_spec in H as (-> & _). apply same_at_refl.
  - revert H. unfold msg_update_params. destruct (negb _); [discriminate|]. destruct (negb _); [discriminate|]. destruct (negb _); [discriminate|].
    intros [= <-]. split; reflexivity.
  - assert (Hne : id <> v) by (intros ->; apply Ht; reflexivity). clear Ht. revert H.
    unfold msg_unjail. destruct (vals (stk c) !! v) as [vv|] eqn:Hv; [|discriminate]. destruct (dels (stk c) !! v); [|discriminate].
    destruct (_ =? 0); [discriminate|]. destruct (_ <? _); [discriminate|]. destruct (negb _); [discriminate|].
    destruct (match infos _ !! _ with Some _ => _ | None => _ end); [discriminate|].
    destruct (unjail (stk c) (v_cons vv)) as [s'|] eqn:E; [|discriminate]. intros [= <-]. cbn.
    revert E. unfold unjail. rewrite (si_bycons _ HS v vv Hv), Hv. destruct (negb _); [discriminate|]. intros [= <-].
    unfold set_index, set_validator. destruct (v_jailed _); cbn; (split; [apply lookup_insert_ne; auto|reflexivity]).
  - inversion H; subst. apply same_at_refl.
  - inversion H; subst. apply same_at_refl.
Qed.

Definition spares_tx (id : Z) (tx : list l1msg) : Prop := Forall (fun m => ~ targets m id) tx.
Definition spares_txs (id : Z) (txs : list (list l1msg)) : Prop := Forall (spares_tx id) txs.

Lemma exec_msgs_same_at ms id : forall c c', CI c -> spares_tx id ms -> exec_msgs c ms = MOk c' -> same_at (stk c) (stk c') id.
Proof.
  induction ms as [|m rest IH]; intros c c' HC Hsp; cbn [exec_msgs]; [intros [= <-]; apply same_at_refl|].
  inversion Hsp as [|? ? Hm Hrest]; subst. destruct (exec_msg c m) as [c1|] eqn:E; [|discriminate]. cbn [mbind]. intros H.
  eapply same_at_trans; [eapply exec_msg_same_at; eauto|]. eapply IH; [eapply exec_msg_CI; eauto|exact Hrest|exact H].
Qed.

Lemma bump_seqs_stk c l : stk (bump_seqs c l) = stk c. Proof. reflexivity. Qed.

Lemma deliver_tx_same_at c tx id : CI c -> spares_tx id tx -> same_at (stk c) (stk (fst (deliver_tx c tx))) id.
Proof.
  intros HC Hsp. unfold deliver_tx. destruct (cur_stk_decorator _ _); [apply same_at_refl|]. destruct (cur_wd_decorator _ _); [apply same_at_refl|].
  destruct (cur_comm_decorator _ _ _ _ _); try apply same_at_refl.
  destruct (existsb is_tree tx); [apply same_at_refl|].
  destruct (exec_msgs _ tx) as [c2|] eqn:E; [|apply same_at_refl]. cbn [fst].
  apply (exec_msgs_same_at tx id) in E; [exact E| |exact Hsp]. apply CI_seqs. exact HC.
Qed.

Lemma deliver_txs_same_at txs id : forall c, CI c -> spares_txs id txs -> same_at (stk c) (stk (fst (deliver_txs c txs))) id.
Proof.
  induction txs as [|tx rest IH]; intros c HC Hsp; cbn [deliver_txs]; [apply same_at_refl|].
  inversion Hsp as [|? ? Ht Hr]; subst.
  pose proof (deliver_tx_same_at c tx id HC Ht) as A1. pose proof (deliver_tx_CI c tx HC) as C1.
  destruct (deliver_tx c tx) as [c1 o]. cbn [fst] in A1, C1. specialize (IH c1 C1 Hr). destruct (deliver_txs c1 rest) as [c2 os]. cbn [fst] in *.
  eapply same_at_trans; eauto.
Qed.

(* =====================  BeginBlock: only absentees  ===================== *)
Lemma jail_others s k s' j : jail s k = Some s' -> by_cons s !! k = Some j -> forall w, w <> j -> vals s' !! w = vals s !! w.
Proof.
  unfold jail. intros H Hk. rewrite Hk in H. destruct (vals s !! j) as [v|]; [|discriminate]. destruct (v_jailed v); [discriminate|].
  inversion H; subst. intros w Hw. unfold del_index, set_validator. cbn. apply lookup_insert_ne; auto.
Qed.

Lemma jail_dels s k s' : jail s k = Some s' -> dels s' = dels s /\ by_cons s' = by_cons s.
Proof.
  unfold jail. destruct (by_cons s !! k) as [j|]; [|discriminate]. destruct (vals s !! j) as [v|]; [|discriminate]. destruct (v_jailed v); [discriminate|].
  intros [= <-]. split; reflexivity.
Qed.

(* jailed in between — for downtime, or slashed and tombstoned for a double sign (then possibly jailed already): it ends jailed,
   with its consensus key and shares and no more tokens than it had *)
Definition downed (s s' : staking) (id : Z) : Prop :=
  dels s' !! id = dels s !! id /\
  exists v, vals s !! id = Some v /\
    match vals s' !! id with
    | Some v' => v_jailed v' = true /\ v_cons v' = v_cons v /\ v_tokens v' <= v_tokens v /\ v_shares v' = v_shares v
    | None => True
    end.

Definition block_rel (s s' : staking) (id : Z) : Prop := keeps s s' id \/ downed s s' id.

Lemma downed_trans s1 s2 s3 id : downed s1 s2 id -> downed s2 s3 id -> downed s1 s3 id.
Proof.
  intros (D1 & v1 & Hv1 & H2) (D2 & v2 & Hv2 & H3). split; [congruence|]. exists v1. split; [exact Hv1|].
  rewrite Hv2 in H2. destruct H2 as (J2 & C2 & T2 & S2). destruct (vals s3 !! id) as [v3|]; [|exact I].
  destruct H3 as (J3 & C3 & T3 & S3). split; [exact J3|]. split; [congruence|]. split; [lia|congruence].
Qed.

Lemma block_rel_trans s1 s2 s3 id : block_rel s1 s2 id -> block_rel s2 s3 id -> block_rel s1 s3 id.
Proof.
  intros [K1|D1] [K2|D2].
  - left. eapply keeps_trans; eauto.
  - right. destruct K1 as [Dl1 K1]. destruct D2 as (Dl2 & v2 & Hv2 & H3). split; [congruence|].
    rewrite Hv2 in K1. destruct (vals s1 !! id) as [v1|]; [|discriminate]. exists v1. split; [reflexivity|].
    destruct K1 as (C & J & T & S & _).
    destruct (vals s3 !! id) as [v3|]; [|exact I]. destruct H3 as (J3 & C3 & T3 & S3). split; [congruence|]. split; [congruence|]. split; [lia|congruence].
  - right. destruct D1 as (Dl1 & v1 & Hv1 & H2). destruct K2 as [Dl2 K2]. split; [congruence|]. exists v1. split; [exact Hv1|].
    destruct (vals s2 !! id) as [v2|].
    + destruct (vals s3 !! id) as [v3|]; [|exact I]. destruct H2 as (J2 & C2 & T2 & S2). destruct K2 as (C & J & T & S & _). split; [congruence|]. split; [congruence|]. split; [lia|congruence].
    + rewrite K2. exact I.
  - right. eapply downed_trans; eauto.
Qed.

Lemma slash_target c k p f c' j v :
  slash c k p f = Some c' -> by_cons (stk c) !! k = Some j -> vals (stk c) !! j = Some v ->
  exists v1, vals (stk c') !! j = Some v1 /\ v_cons v1 = v_cons v /\ v_jailed v1 = v_jailed v /\ v_tokens v1 <= v_tokens v /\ v_shares v1 = v_shares v.
Proof.
  unfold slash. destruct (f <? 0); [discriminate|]. intros H Hk Hv. rewrite Hk, Hv in H.
  destruct (status_eqb (v_status v) Unbonded); [discriminate|].
  destruct (_ =? 0); [inversion H; subst; exists v; repeat split; auto; lia|].
  destruct (if status_eqb (v_status v) Bonded then _ else _); [|discriminate]. inversion H; subst. clear H. cbn.
  exists (set_tokens v (v_tokens v - Z.max 0 (Z.min (p * power_reduction * f / dec_one) (v_tokens v)))).
  split; [unfold set_index, set_validator, del_index; cbn; destruct (v_jailed v); cbn; apply lookup_insert|]. cbn. split; [reflexivity|]. split; [reflexivity|]. split; [lia|reflexivity].
Qed.

Lemma handle_signature_rel c ck p sg c' id :
  handle_signature c ck p sg = Some c' ->
  (same_at (stk c) (stk c') id \/ downed (stk c) (stk c') id) /\ by_cons (stk c') = by_cons (stk c).
Proof.
  unfold handle_signature. destruct (by_cons (stk c) !! ck) as [j|] eqn:Hk; [|discriminate].
  destruct (vals (stk c) !! j) as [v|] eqn:Hv; [|discriminate]. destruct (v_jailed v) eqn:Hj; [intros [= <-]; split; [left; apply same_at_refl|reflexivity]|].
  destruct (infos (sl c) !! ck) as [i|]; [|discriminate].
  destruct (if negb _ && negb sg then _ else _) as [bm' cnt].
  destruct (_ && _).
  - destruct (slash c ck p _) as [c1|] eqn:Es; [|discriminate]. destruct (jail (stk c1) ck) as [s2|] eqn:Ej; [|discriminate].
    intros [= <-]. cbn.
    pose proof (slash_frame _ _ _ _ _ Es) as (_ & _ & _ & _ & _ & Hbc & _ & _ & _ & Hd & _).
    destruct (jail_dels _ _ _ Ej) as [Hd2 Hbc2]. split; [|congruence].
    destruct (decide (id = j)) as [->|Hne].
    + right. split; [congruence|]. exists v. split; [exact Hv|].
      destruct (slash_target _ _ _ _ _ j v Es Hk Hv) as (v1 & Hv1 & C1 & J1 & T1 & S1).
      revert Ej. unfold jail. rewrite Hbc, Hk, Hv1. destruct (v_jailed v1); [discriminate|]. intros [= <-].
      unfold del_index, set_validator. cbn. rewrite lookup_insert. cbn. auto.
    + left. split; [|congruence]. rewrite (jail_others _ _ _ j Ej) by (congruence || auto). apply (slash_others _ _ _ _ _ j Es Hk). exact Hne.
  - intros [= <-]. cbn. split; [left; apply same_at_refl|reflexivity].
Qed.

Lemma same_or_downed_trans s1 s2 s3 id :
  (same_at s1 s2 id \/ downed s1 s2 id) -> (same_at s2 s3 id \/ downed s2 s3 id) -> (same_at s1 s3 id \/ downed s1 s3 id).
Proof.
  intros [A|D] [B|E].
  - left. eapply same_at_trans; eauto.
  - right. destruct A as [A1 A2]. destruct E as (E1 & v & Hv & H). split; [congruence|]. exists v. rewrite <- A1. auto.
  - right. destruct B as [B1 B2]. destruct D as (D1 & v & Hv & H). split; [congruence|]. exists v. rewrite B1. auto.
  - right. eapply downed_trans; eauto.
Qed.

Lemma handle_votes_rel votes absent id : forall c c', handle_votes votes absent c = Some c' -> same_at (stk c) (stk c') id \/ downed (stk c) (stk c') id.
Proof.
  induction votes as [|[k p] vs IH]; cbn; intros c c'; [intros [= <-]; left; apply same_at_refl|].
  destruct (handle_signature c k p _) as [c1|] eqn:E; [|discriminate]. intros H. apply IH in H.
  apply (handle_signature_rel _ _ _ _ _ id) in E as [E _]. eapply same_or_downed_trans; eauto.
Qed.

Lemma handle_evidence_rel c e c' id : handle_evidence c e = Some c' -> same_at (stk c) (stk c') id \/ downed (stk c) (stk c') id.
Proof.
  intros H. apply handle_evidence_cases in H as [->|(j & v & i & c1 & s2 & Hk & Hv & _ & _ & _ & _ & Es & Hj & ->)]; [left; apply same_at_refl|].
  cbn. pose proof (slash_frame _ _ _ _ _ Es) as (_ & _ & _ & _ & _ & Hbc & _ & _ & _ & Hd & _).
  destruct (decide (id = j)) as [->|Hne].
  - right. destruct (slash_target _ _ _ _ _ j v Es Hk Hv) as (v1 & Hv1 & C1 & J1 & T1 & S1).
    destruct Hj as [[Hjv ->]|[Hjv Ej]].
    + split; [congruence|]. exists v. split; [exact Hv|]. rewrite Hv1. split; [congruence|]. auto.
    + destruct (jail_dels _ _ _ Ej) as [Hd2 _]. split; [congruence|]. exists v. split; [exact Hv|].
      revert Ej. unfold jail. rewrite Hbc, Hk, Hv1. destruct (v_jailed v1); [discriminate|]. intros [= <-].
      unfold del_index, set_validator. cbn. rewrite lookup_insert. cbn. auto.
  - left. destruct Hj as [[_ ->]|[_ Ej]].
    + split; [apply (slash_others _ _ _ _ _ j Es Hk); exact Hne|congruence].
    + destruct (jail_dels _ _ _ Ej) as [Hd2 _]. split; [|congruence].
      rewrite (jail_others _ _ _ j Ej) by (congruence || auto). apply (slash_others _ _ _ _ _ j Es Hk). exact Hne.
Qed.

Lemma handle_evidences_rel' evs id : forall c c', handle_evidences evs c = Some c' -> same_at (stk c) (stk c') id \/ downed (stk c) (stk c') id.
Proof.
  induction evs as [|e rest IH]; cbn; intros c c'; [intros [= <-]; left; apply same_at_refl|].
  destruct (handle_evidence c e) as [c1|] eqn:E; [|discriminate]. intros H. apply IH in H.
  apply (handle_evidence_rel _ _ _ id) in E. eapply same_or_downed_trans; eauto.
Qed.

Lemma begin_block_rel c votes absent evs c' id : begin_block c votes absent evs = inl c' -> same_at (stk c) (stk c') id \/ downed (stk c) (stk c') id.
Proof.
  unfold begin_block. destruct (_ && _); [discriminate|]. destruct (handle_votes votes absent c) as [c1|] eqn:E; [|discriminate].
  destruct (handle_evidences evs c1) as [c2|] eqn:E2; [|discriminate]. intros [= <-].
  apply (handle_votes_rel _ _ id) in E. apply (handle_evidences_rel' _ id) in E2. unfold poa_begin_block.
  destruct (1 <? height c2); eapply same_or_downed_trans; eauto.
Qed.

Lemma same_or_downed_block_rel s s' id : same_at s s' id \/ downed s s' id -> block_rel s s' id.
Proof. intros [A|D]; [left; apply same_at_keeps; exact A|right; exact D]. Qed.

(* =====================  a whole block, a whole history  ===================== *)
Theorem run_block_rel w b id :
  CI (w_chain w) -> spares_txs id (b_txs b) -> block_rel (stk (w_chain w)) (stk (w_chain (fst (run_block w b)))) id.
Proof.
  intros HC Hsp. unfold run_block. destruct (w_halted w); [left; apply keeps_refl|].
  set (c0 := with_clock (w_chain w) (height (w_chain w) + 1) (now (w_chain w) + b_dt b)).
  assert (HC0 : CI c0) by (apply CI_clock; exact HC).
  destruct (begin_block c0 _ (b_absent b) (b_evidence b)) as [c1|e] eqn:Eb; [|left; apply keeps_refl].
  pose proof (begin_block_rel _ _ _ _ _ id Eb) as R1. pose proof (begin_block_CI _ _ _ _ _ HC0 Eb) as HC1.
  pose proof (deliver_txs_same_at (b_txs b) id c1 HC1 Hsp) as R2.
  destruct (deliver_txs c1 (b_txs b)) as [c2 outs]. cbn [fst] in R2.
  assert (R12 : block_rel (stk c0) (stk c2) id).
  { eapply block_rel_trans; [apply same_or_downed_block_rel; exact R1|left; apply same_at_keeps; exact R2]. }
  destruct (staking_end_block c2) as [c3 upd|e] eqn:Ee; [|exact R12].
  assert (R : block_rel (stk c0) (stk c3) id).
  { eapply block_rel_trans; [exact R12|left; eapply staking_end_block_keeps; exact Ee]. }
  destruct (comet_apply _ upd); exact R.
Qed.

Theorem run_world_rel bs id : forall w,
  CI (w_chain w) -> Forall (fun b => spares_txs id (b_txs b)) bs -> block_rel (stk (w_chain w)) (stk (w_chain (run_world w bs))) id.
Proof.
  induction bs as [|b rest IH]; intros w HC Hsp; cbn [run_world]; [left; apply keeps_refl|].
  inversion Hsp as [|? ? Hb Hr]; subst. eapply block_rel_trans; [apply run_block_rel; [exact HC|exact Hb]|].
  apply IH; [apply run_block_CI; exact HC|exact Hr].
Qed.

(* from any reachable state on: through any number of blocks that carry no SetPower, RemoveValidator or Unjail naming it, a
   validator keeps its stake, unless slashing jails it for downtime, or slashes and tombstones it for a double sign, on the way — and
   then it is still jailed at the end, with its key and shares and no more tokens than it had *)
Theorem history_spared_validator g bs bs2 id :
  wf_genesis g -> Forall (fun b => spares_txs id (b_txs b)) bs2 ->
  let w := run_world (init_world g) bs in
  block_rel (stk (w_chain w)) (stk (w_chain (run_world w bs2))) id.
Proof. intros Hg Hsp w. apply run_world_rel; [apply reachable_CI; exact Hg|exact Hsp]. Qed.

(* in terms of seats (max_validators not binding at either end): the validator has at the end the voting power it had at the
   start, or it was jailed for downtime or a double sign on the way and has none *)
Theorem spared_validator_keeps_its_power g bs bs2 id :
  wf_genesis g -> Forall (fun b => spares_txs id (b_txs b)) bs2 ->
  let w := run_world (init_world g) bs in
  let w2 := run_world w bs2 in
  w_halted w = None -> w_halted w2 = None ->
  n_pos (pidx (stk (w_chain w))) <= sp_max_validators (params (stk (w_chain w))) ->
  n_pos (pidx (stk (w_chain w2))) <= sp_max_validators (params (stk (w_chain w2))) ->
  last_pow (stk (w_chain w2)) !! id = last_pow (stk (w_chain w)) !! id \/
  (downed (stk (w_chain w)) (stk (w_chain w2)) id /\ last_pow (stk (w_chain w2)) !! id = None).
Proof.
  intros Hg Hsp w w2 Hh Hh2 Hc Hc2.
  pose proof (history_spared_validator g bs bs2 id Hg Hsp) as R. change (block_rel (stk (w_chain w)) (stk (w_chain w2)) id) in R.
  pose proof (reachable_set g bs Hg Hh Hc id) as L1. fold w in L1.
  assert (Ew2 : w2 = run_world (init_world g) (bs ++ bs2)) by (unfold w2, w; symmetry; apply run_world_app).
  pose proof (reachable_set g (bs ++ bs2) Hg) as L2. rewrite <- Ew2 in L2. specialize (L2 Hh2 Hc2 id).
  destruct R as [[_ K]|D].
  - left. rewrite L1, L2. destruct (vals (stk (w_chain w)) !! id) as [v|] eqn:E1; rewrite ?E1 in K.
    + destruct (vals (stk (w_chain w2)) !! id) as [v'|] eqn:E2; rewrite ?E2 in K.
      * destruct K as (_ & J & T & _). destruct (eligible_same v v' J T) as [-> ->]. reflexivity.
      * destruct K as [T _]. unfold eligible, v_power, tokens_to_power, power_reduction.
        replace (0 <? v_tokens v / 1000000) with false; [rewrite andb_false_r; reflexivity|]. symmetry. apply Z.ltb_ge.
        apply Z.div_le_upper_bound; lia.
    + rewrite K. reflexivity.
  - right. split; [exact D|]. rewrite L2. destruct D as (_ & v & _ & H). destruct (vals (stk (w_chain w2)) !! id) as [v'|] eqn:E2; [|reflexivity].
    destruct H as (J & _). unfold eligible. rewrite J. reflexivity.
Qed.
