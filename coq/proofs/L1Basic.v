(* L1Basic.v — first-order facts about the message handlers and the transaction wrapper:
   authority gates, atomicity of failing transactions, parameter updates, input domain of SetPower. *)
From stdpp Require Import gmap.
Require Import Model.Base Model.Ante Model.Validate Model.Current Model.State Model.Staking Model.Slashing Model.Poa Model.App.
Open Scope Z_scope.

(* ---------- C01: authority gates ---------- *)
Lemma set_power_gate c sender val power unsafe :
  sender <> admin_id -> msg_set_power c sender val power unsafe = MErr EPoaNotAnAuthority.
Proof. intros H. unfold msg_set_power, is_admin. destruct (Z.eqb_spec sender admin_id); [contradiction|reflexivity]. Qed.

Lemma remove_pending_gate c sender val :
  sender <> admin_id -> msg_remove_pending c sender val = MErr EPoaNotAnAuthority.
Proof. intros H. unfold msg_remove_pending, is_admin. destruct (Z.eqb_spec sender admin_id); [contradiction|reflexivity]. Qed.

Lemma update_params_gate c sender p :
  sender <> admin_id -> msg_update_params c sender p = MErr EPoaNotAnAuthority.
Proof. intros H. unfold msg_update_params, is_admin. destruct (Z.eqb_spec sender admin_id); [contradiction|reflexivity]. Qed.

(* RemoveValidator: anybody who is neither the admin nor the target's own operator is refused;
   the error is not-an-authority, or invalid-address when the target address does not decode
   (known finding K1: keeper.go IsSenderValidator) *)
Lemma remove_validator_gate c sender val :
  sender <> admin_id -> sender <> val ->
  msg_remove_validator c sender val = MErr (if val <? 0 then ESdkInvalidAddress else EPoaNotAnAuthority).
Proof.
  intros H1 H2. unfold msg_remove_validator, is_admin.
  destruct (Z.eqb_spec sender admin_id); [contradiction|].
  destruct (val <? 0); [reflexivity|].
  destruct (Z.eqb_spec sender val); [contradiction|reflexivity].
Qed.

(* the self-removal exception only ever succeeds for a bonded validator that leaves another signer behind *)
Lemma self_removal_needs_bonded c val c' :
  msg_remove_validator c val val = MOk c' ->
  exists v, vals (stk c) !! val = Some v /\ v_status v = Bonded /\ other_signers c val <> 0.
Proof.
  unfold msg_remove_validator. destruct (is_admin val); cbn.
  - destruct (Z.eqb_spec (other_signers c val) 0); [discriminate|].
    destruct (vals (stk c) !! val) as [v|]; [|discriminate].
    destruct (v_status v) eqn:E; cbn; try discriminate. intros _. eauto.
  - destruct (val <? 0); [discriminate|]. rewrite Z.eqb_refl.
    destruct (Z.eqb_spec (other_signers c val) 0); [discriminate|].
    destruct (vals (stk c) !! val) as [v|]; [|discriminate].
    destruct (v_status v) eqn:E; cbn; try discriminate. intros _. eauto.
Qed.

Definition gated (m : l1msg) : bool :=
  match m with MSetPower _ _ _ _ | MRemoveValidator _ _ | MRemovePending _ _ | MUpdateParams _ _ => true | _ => false end.

Definition self_removal (m : l1msg) : bool :=
  match m with MRemoveValidator s v => s =? v | _ => false end.

Lemma exec_gated_non_admin c m :
  gated m = true -> msg_sender m <> admin_id -> self_removal m = false ->
  exists e, exec_msg c m = MErr e /\ (e = EPoaNotAnAuthority \/ e = ESdkInvalidAddress).
Proof.
  destruct m as [s v p u|s v|s v| | s p| | |]; cbn; intros Hg Hs Hself; try discriminate.
  - rewrite set_power_gate by assumption. eauto.
  - apply Z.eqb_neq in Hself. rewrite remove_validator_gate by assumption. destruct (v <? 0); eauto.
  - rewrite remove_pending_gate by assumption. eauto.
  - rewrite update_params_gate by assumption. eauto.
Qed.

(* ---------- C06: a failing transaction leaves nothing but the sequence bump ---------- *)
Lemma deliver_tx_failure c tx c' e :
  deliver_tx c tx = (c', TErr e) -> c' = c \/ c' = bump_seqs c (dedup (map msg_sender tx)).
Proof.
  unfold deliver_tx.
  destruct (cur_stk_decorator _ _); [intros [= <- _]; auto|].
  destruct (cur_wd_decorator _ _); [intros [= <- _]; auto|].
  destruct (cur_comm_decorator _ _ _ _ _); try (intros [= <- _]; auto).
  destruct (existsb is_tree tx); [discriminate|].
  destruct (exec_msgs _ tx); [discriminate|]. intros [= <- _]. auto.
Qed.

(* bump_seqs touches sequence numbers only *)
Lemma bump_seqs_frame c l :
  stk (bump_seqs c l) = stk c /\ sl (bump_seqs c l) = sl c /\ bk (bump_seqs c l) = bk c /\ poa (bump_seqs c l) = poa c
  /\ height (bump_seqs c l) = height c /\ now (bump_seqs c l) = now c.
Proof. unfold bump_seqs, with_seqs. cbn. repeat split. Qed.

Theorem failed_tx_no_trace c tx c' e :
  deliver_tx c tx = (c', TErr e) ->
  stk c' = stk c /\ sl c' = sl c /\ bk c' = bk c /\ poa c' = poa c.
Proof.
  intros H. destruct (deliver_tx_failure _ _ _ _ H) as [->| ->]; [repeat split|].
  pose proof (bump_seqs_frame c (dedup (map msg_sender tx))) as (?&?&?&?&?&?). repeat split; assumption.
Qed.

(* a transaction rejected by one of the PoA decorators does not even consume the sequence *)
Lemma ante_reject_unchanged c tx e :
  cur_stk_decorator (height c) (map ante_view tx) = Some e -> deliver_tx c tx = (c, TErr e).
Proof. unfold deliver_tx. intros ->. reflexivity. Qed.

(* ---------- C01 at transaction level ---------- *)
Theorem non_admin_tx_no_effect c m c' o :
  gated m = true -> msg_sender m <> admin_id -> self_removal m = false ->
  deliver_tx c [m] = (c', o) ->
  (exists e, o = TErr e) /\ stk c' = stk c /\ sl c' = sl c /\ bk c' = bk c /\ poa c' = poa c.
Proof.
  intros Hg Hs Hself H.
  assert (Ho : exists e, o = TErr e).
  { revert H. unfold deliver_tx.
    destruct (cur_stk_decorator _ _); [intros [= _ <-]; eauto|].
    destruct (cur_wd_decorator _ _); [intros [= _ <-]; eauto|].
    destruct (cur_comm_decorator _ _ _ _ _); try (intros [= _ <-]; eauto).
    assert (Ht : existsb is_tree [m] = false) by (destruct m; cbn in *; try discriminate; reflexivity).
    rewrite Ht. cbn [exec_msgs].
    destruct (exec_gated_non_admin (bump_seqs c (dedup (map msg_sender [m]))) m Hg Hs Hself) as (e & -> & _).
    cbn. intros [= _ <-]. eauto. }
  split; [exact Ho|]. destruct Ho as (e & ->). eapply failed_tx_no_trace; eauto.
Qed.

(* ---------- C16: UpdateStakingParams ---------- *)
Lemma update_params_ok c p c' :
  msg_update_params c admin_id p = MOk c' ->
  params_validate p = true /\ params (stk c') = p /\
  vals (stk c') = vals (stk c) /\ pidx (stk c') = pidx (stk c) /\ last_pow (stk c') = last_pow (stk c) /\
  dels (stk c') = dels (stk c) /\ ubq (stk c') = ubq (stk c) /\ by_cons (stk c') = by_cons (stk c) /\
  last_total (stk c') = last_total (stk c) /\
  sl c' = sl c /\ bk c' = bk c /\ poa c' = poa c /\ seqs c' = seqs c.
Proof.
  unfold msg_update_params. cbn. destruct (params_validate p) eqn:E; cbn; [|discriminate].
  destruct (sp_bond_denom p =? sp_bond_denom (params (stk c))); cbn; [|discriminate].
  intros [= <-]. cbn. repeat split.
Qed.

Lemma update_params_invalid c sender p :
  params_validate p = false -> exists e, msg_update_params c sender p = MErr e.
Proof.
  intros H. unfold msg_update_params. destruct (is_admin sender); cbn; [|eauto]. rewrite H. cbn. eauto.
Qed.

(* what x/staking's Validate refuses, spelled out *)
Lemma params_validate_spec p :
  params_validate p = true <->
  0 < sp_unbonding_time p /\ sp_max_validators p <> 0 /\ sp_max_entries p <> 0 /\ sp_bond_denom_ok p = true /\
  exists r, sp_min_commission p = Some r /\ 0 <= r <= dec_one.
Proof.
  unfold params_validate. rewrite !andb_true_iff, !negb_true_iff, Z.ltb_lt, !Z.eqb_neq.
  destruct (sp_min_commission p) as [r|].
  - rewrite andb_true_iff, !Z.leb_le. split.
    + intros ((((?&?)&?)&?)&?&?). repeat split; auto. exists r. auto.
    + intros (?&?&?&?&r'&[= <-]&?&?). repeat split; auto.
  - split; [intros (_&[=])|]. intros (_&_&_&_&r&[=]&_).
Qed.

(* ---------- C14: SetPower input domain at the handler ---------- *)
Lemma set_power_rejects_small c val power unsafe :
  0 <= val -> power < min_power -> msg_set_power c admin_id val power unsafe = MErr EPoaPowerBelowMinimum.
Proof.
  intros Hv Hp. unfold msg_set_power. cbn. unfold setpower_validate, min_power in *.
  destruct (Z.leb_spec 0 val); [|lia]. cbn. destruct (Z.ltb_spec power 1000000); [reflexivity|lia].
Qed.

Lemma set_power_rejects_huge c val power unsafe :
  0 <= val -> max_int64 < power -> msg_set_power c admin_id val power unsafe = MErr ESdkInvalidRequest.
Proof.
  intros Hv Hp. unfold msg_set_power. cbn. unfold setpower_validate, min_power, max_int64, two63 in *.
  destruct (Z.leb_spec 0 val); [|lia]. cbn. destruct (Z.ltb_spec power 1000000); [lia|].
  destruct (Z.ltb_spec (2 ^ 63 - 1) power); [reflexivity|lia].
Qed.

(* SetPOAPower refuses a request that would not change the validator's (last) power: nothing is written *)
Lemma set_poa_power_same c val shares v :
  vals (stk c) !! val = Some v ->
  tokens_to_power shares = default 0 (last_pow (stk c) !! val) ->
  set_poa_power c val shares = MErr EUndefined.
Proof. intros Hv Hs. unfold set_poa_power. rewrite Hv. rewrite Hs, Z.eqb_refl. reflexivity. Qed.
