(* L1Effects.v — what a successful PoA message does, and what it leaves alone (frame). *)
From stdpp Require Import gmap.
Require Import Model.Base Model.Ante Model.Validate Model.Current Model.State Model.Staking Model.Slashing Model.Poa Model.App.
Open Scope Z_scope.

(* ---------- UpdateBondedPoolPower ---------- *)
Lemma update_bonded_pool_spec c c' :
  update_bonded_pool c = MOk c' ->
  stk c' = stk c /\ sl c' = sl c /\ poa c' = poa c /\ seqs c' = seqs c /\ height c' = height c /\ now c' = now c /\
  bonded_pool (bk c') = bonded_tokens (stk c) /\
  notbonded_pool (bk c') = notbonded_pool (bk c) /\
  (* the supply moves by exactly what the pool moves: nobody else is credited or debited *)
  supply (bk c') - supply (bk c) = bonded_pool (bk c') - bonded_pool (bk c).
Proof.
  unfold update_bonded_pool.
  destruct (Z.eqb_spec (bonded_tokens (stk c)) (bonded_pool (bk c))) as [E|E].
  - intros [= <-]. repeat split; auto; lia.
  - destruct (Z.ltb_spec (bonded_pool (bk c)) (bonded_tokens (stk c))).
    + intros [= <-]. cbn. repeat split; lia.
    + unfold burn_bonded. destruct (Z.ltb_spec (bonded_pool (bk c)) (bonded_pool (bk c) - bonded_tokens (stk c))); [discriminate|].
      intros [= <-]. cbn. repeat split; lia.
Qed.

(* ---------- UpdateValidatorSet ---------- *)
Lemma update_validator_set_spec c val v n c' :
  update_validator_set c val v n = MOk c' ->
  vals (stk c') = <[val := set_status (set_shares (set_tokens v n) (n * dec_one)) Bonded]> (vals (stk c)) /\
  dels (stk c') = <[val := n * dec_one]> (dels (stk c)) /\
  pidx (stk c') = pidx (stk c) /\ last_pow (stk c') = last_pow (stk c) /\ last_total (stk c') = last_total (stk c) /\
  ubq (stk c') = ubq (stk c) /\ by_cons (stk c') = by_cons (stk c) /\ params (stk c') = params (stk c) /\
  sl c' = sl c /\ poa c' = poa c.
Proof.
  unfold update_validator_set. intros H. apply update_bonded_pool_spec in H as (Hs & Hl & Hp & _).
  rewrite Hs, Hl, Hp. cbn. repeat split.
Qed.

(* ---------- SetPOAPower, assignment of a positive amount ---------- *)
Lemma set_poa_power_assign c val n c' :
  0 < n -> set_poa_power c val n = MOk c' ->
  exists v,
    vals (stk c) !! val = Some v /\
    tokens_to_power n <> default 0 (last_pow (stk c) !! val) /\
    (* the target: exactly the requested tokens, shares and self-delegation; forced Bonded *)
    vals (stk c') = <[val := set_status (set_shares (set_tokens v n) (n * dec_one)) Bonded]> (vals (stk c)) /\
    dels (stk c') = <[val := n * dec_one]> (dels (stk c)) /\
    (* one index entry replaces the other *)
    pidx (stk c') = pidx (set_index (del_index (stk c) val v) val (set_tokens v n)) /\
    (* x/staking's own bookkeeping is left to its EndBlocker *)
    last_pow (stk c') = last_pow (stk c) /\ last_total (stk c') = last_total (stk c) /\
    ubq (stk c') = ubq (stk c) /\ by_cons (stk c') = by_cons (stk c) /\ params (stk c') = params (stk c) /\
    sl c' = sl c /\ pending (poa c') = pending (poa c) /\ cached_power (poa c') = cached_power (poa c) /\
    abs_changed (poa c') =
      wrap_u64 (abs_changed (poa c) +
                Z.abs (tokens_to_power n - (if status_eqb (v_status v) Bonded && negb (v_jailed v) then v_power v else 0))).
Proof.
  intros Hn. unfold set_poa_power.
  destruct (vals (stk c) !! val) as [v|] eqn:Hv; [|discriminate].
  destruct (Z.eqb_spec (tokens_to_power n) (default 0 (last_pow (stk c) !! val))) as [E|E]; [discriminate|].
  assert (Hz : (n =? 0) = false) by (apply Z.eqb_neq; lia). rewrite Hz. cbn [andb mbind].
  intros H. apply update_validator_set_spec in H as (H1 & H2 & H3 & H4 & H5 & H6 & H7 & H8 & H9 & H10).
  exists v. cbn in *. rewrite H1, H2, H3, H4, H5, H6, H7, H8, H9, H10. cbn.
  unfold set_index, del_index. destruct (v_jailed (set_tokens v n)); cbn; repeat split; auto.
Qed.

(* frame: nothing about any other validator changes *)
Lemma set_poa_power_frame c val n c' w :
  0 < n -> set_poa_power c val n = MOk c' -> w <> val ->
  vals (stk c') !! w = vals (stk c) !! w /\ dels (stk c') !! w = dels (stk c) !! w /\
  last_pow (stk c') !! w = last_pow (stk c) !! w /\
  (forall p, In (p, w) (pidx (stk c')) <-> In (p, w) (pidx (stk c))).
Proof.
  intros Hn H Hw. destruct (set_poa_power_assign _ _ _ _ Hn H) as (v & Hv & _ & H1 & H2 & H3 & H4 & _).
  rewrite H1, H2, H3, H4. rewrite !lookup_insert_ne by auto. repeat split; auto.
  - unfold set_index, del_index. destruct (v_jailed (set_tokens v n)); cbn.
    + unfold pidx_del. rewrite filter_In. intros [Hin _]; exact Hin.
    + unfold pidx_add. destruct (existsb _ _); cbn.
      * unfold pidx_del. rewrite filter_In. intros [Hin _]; exact Hin.
      * intros [Heq|Hin]; [inversion Heq; congruence|]. unfold pidx_del in Hin. apply filter_In in Hin as [Hin _]; exact Hin.
  - intros Hin. unfold set_index, del_index.
    assert (Hd : In (p, w) (pidx_del (v_power v, val) (pidx (stk c)))).
    { unfold pidx_del. apply filter_In. split; [exact Hin|]. unfold pair_eqb. cbn.
      apply negb_true_iff. apply andb_false_iff. right. apply Z.eqb_neq. congruence. }
    destruct (v_jailed (set_tokens v n)); cbn; [exact Hd|].
    unfold pidx_add. destruct (existsb _ _); cbn; auto.
Qed.

(* ---------- C05: the limit test of MsgSetPower ---------- *)
Lemma percent_lt_iff a t : 0 <= a -> 0 < t -> (a * 100 / t <? 30 = true <-> 100 * a < 30 * t).
Proof.
  intros Ha Ht. rewrite Z.ltb_lt. split; intros H.
  - destruct (Z.lt_ge_cases (a * 100) (t * 30)) as [?|Hge]; [lia|].
    apply (Z.div_le_lower_bound _ _ _ Ht) in Hge. lia.
  - apply Z.div_lt_upper_bound; lia.
Qed.

(* the clock is not touched by message handlers *)
Lemma slash_clock c k p f c' : slash c k p f = Some c' -> height c' = height c /\ now c' = now c.
Proof.
  unfold slash. destruct (f <? 0); [discriminate|].
  destruct (by_cons _ !! _); [|intros [= <-]; auto]. destruct (vals _ !! _); [|intros [= <-]; auto].
  destruct (status_eqb _ _); [discriminate|]. destruct (_ =? 0); [intros [= <-]; auto|].
  destruct (if status_eqb _ _ then _ else _); [|discriminate]. intros [= <-]; auto.
Qed.

Lemma set_poa_power_clock c val n c' : set_poa_power c val n = MOk c' -> height c' = height c /\ now c' = now c.
Proof.
  unfold set_poa_power. destruct (vals (stk c) !! val); [|discriminate]. destruct (_ =? _); [discriminate|].
  match goal with |- mbind ?r _ = _ -> _ => destruct r as [c3|] eqn:E3; [|discriminate] end. cbn [mbind].
  unfold update_validator_set. intros H. apply update_bonded_pool_spec in H as (_&_&_&_&Hh&Hn&_). rewrite Hh, Hn. cbn.
  destruct (_ && _) in E3.
  - destruct (slash _ _ _ _) as [c4|] eqn:E4; [|discriminate]. inversion E3; subst. cbn. apply slash_clock in E4. exact E4.
  - inversion E3; auto.
Qed.

Lemma accept_clock c p c' : accept_new_validator c p = MOk c' -> height c' = height c /\ now c' = now c.
Proof. unfold accept_new_validator. intros H. apply update_bonded_pool_spec in H as (_&_&_&_&Hh&Hn&_). rewrite Hh, Hn. auto. Qed.

Lemma ensure_active_id c val c' : ensure_active c val = MOk c' -> c' = c.
Proof.
  unfold ensure_active. destruct (vals _ !! _); [|discriminate]. destruct (v_jailed _); [discriminate|].
  destruct (negb _); [discriminate|]. intros [= <-]; reflexivity.
Qed.

(* a safe SetPower above height 1 succeeds only if the running sum, this change included, stays
   strictly below 30% of the cached total (uint64 arithmetic as in the Go); otherwise it is refused *)
Lemma msg_set_power_limit c val power c' :
  1 < height c -> msg_set_power c admin_id val power false = MOk c' ->
  cached_power (poa c') <> 0 /\ wrap_u64 (abs_changed (poa c') * 100) / cached_power (poa c') < 30.
Proof.
  intros Hh. unfold msg_set_power. change (is_admin admin_id) with true. cbn [negb].
  destruct (setpower_validate _ _); [|discriminate].
  set (r1 := match find_pending val (pending (poa c)) with Some p => accept_new_validator c p | None => ensure_active c val end).
  destruct r1 as [c1|] eqn:E1; [|discriminate]. cbn [mbind].
  destruct (set_poa_power c1 val (cast_i64 power)) as [c2|] eqn:E2; [|discriminate]. cbn [mbind negb andb].
  assert (Hh2 : height c2 = height c).
  { apply set_poa_power_clock in E2 as [-> _]. subst r1. destruct (find_pending val (pending (poa c))).
    - apply accept_clock in E1 as [-> _]. reflexivity.
    - apply ensure_active_id in E1 as ->. reflexivity. }
  rewrite Hh2. destruct (Z.ltb_spec 1 (height c)); [|lia].
  destruct (Z.eqb_spec (cached_power (poa c2)) 0); [discriminate|].
  destruct (Z.leb_spec 30 (wrap_u64 (abs_changed (poa c2) * 100) / cached_power (poa c2))); [discriminate|].
  intros Hfin. apply update_bonded_pool_spec in Hfin as (_&_&Hp&_). rewrite Hp. split; assumption.
Qed.

(* the refusal is the unsafe-power error and nothing else once the power has been applied *)
Lemma msg_set_power_unsafe_bypass c val power c1 c2 :
  setpower_validate (0 <=? val) power = Ok tt ->
  match find_pending val (pending (poa c)) with Some p => accept_new_validator c p | None => ensure_active c val end = MOk c1 ->
  set_poa_power c1 val (cast_i64 power) = MOk c2 ->
  msg_set_power c admin_id val power true = update_bonded_pool c2.
Proof.
  intros Hv H1 H2. unfold msg_set_power. change (is_admin admin_id) with true. cbn [negb]. rewrite Hv.
  rewrite H1. cbn [mbind]. rewrite H2. cbn. reflexivity.
Qed.

(* BeginBlocker: the running sum starts from zero in every block above height 1 and the cached total is
   x/staking's last total power *)
Lemma poa_begin_block_reset c :
  1 < height c -> abs_changed (poa (poa_begin_block c)) = 0 /\ cached_power (poa (poa_begin_block c)) = last_total (stk c)
                  /\ pending (poa (poa_begin_block c)) = pending (poa c).
Proof. intros H. unfold poa_begin_block. destruct (Z.ltb_spec 1 (height c)); [cbn; auto|lia]. Qed.
