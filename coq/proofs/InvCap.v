(* InvCap.v — the validator cap in force is respected: after every block the last validator set (what CometBFT is given) has at
   most max_validators members — in particular at the end of the very block in which the admin lowers the cap. *)
From stdpp Require Import gmap.
Require Import Model.Base Model.Ante Model.Validate Model.Current Model.State Model.Staking Model.Slashing Model.Poa Model.App.
Require Import proofs.EvBasic proofs.Inv proofs.InvIdx proofs.L1Effects proofs.InvPres proofs.InvMsgs proofs.InvHistory proofs.InvComet proofs.InvElig proofs.InvLive proofs.InvTop.
Open Scope Z_scope.

Lemma size_le_keys (m : gmap Z Z) (l : list Z) : (forall k, is_Some (m !! k) -> In k l) -> (size m <= length l)%nat.
Proof.
  intros H. unfold size, map_size. rewrite <- (map_length fst (map_to_list m)).
  apply NoDup_incl_length.
  - rewrite map_fmap. apply NoDup_ListNoDup. apply NoDup_fst_map_to_list.
  - intros k Hk. apply H. apply in_map_iff in Hk as ([k' p] & Heq & Hin). cbn in Heq. subst k'.
    apply elem_of_list_In in Hin. apply elem_of_map_to_list in Hin. eauto.
Qed.

Theorem block_set_within_cap w b c2 :
  CI (w_chain w) -> w_halted w = None -> before_endblock w b = Some c2 -> w_halted (fst (run_block w b)) = None ->
  let w' := fst (run_block w b) in
  Z.of_nat (size (last_pow (stk (w_chain w')))) <= Z.max 0 (sp_max_validators (params (stk (w_chain w')))) /\
  params (stk (w_chain w')) = params (stk c2).
Proof.
  intros HCI Hh Hb Hh' w'.
  pose proof (block_set_is_the_top w b c2 HCI Hh Hb Hh') as Htop. fold w' in Htop.
  assert (Hpar : params (stk (w_chain w')) = params (stk c2)).
  { subst w'. revert Hh'. unfold before_endblock in Hb. unfold run_block. rewrite Hh.
    destruct (begin_block _ _ (b_absent b) (b_evidence b)) as [c1|e] eqn:Eb; [|discriminate]. inversion Hb; subst c2. clear Hb.
    destruct (deliver_txs c1 (b_txs b)) as [cx outs]. cbn [fst].
    destruct (staking_end_block cx) as [c3 upd|e] eqn:Ee; [|cbn; discriminate].
    pose proof (staking_end_block_params _ _ _ Ee) as Hp. destruct (comet_apply _ upd); cbn; [intros _; exact Hp|discriminate]. }
  split; [|exact Hpar]. rewrite Hpar.
  assert (HC2 : CI c2).
  { unfold before_endblock in Hb. set (c0 := with_clock (w_chain w) (height (w_chain w) + 1) (now (w_chain w) + b_dt b)) in *.
    assert (H0 : CI c0) by (apply CI_clock; exact HCI).
    destruct (begin_block c0 _ (b_absent b) (b_evidence b)) as [c1|e] eqn:Eb; [|discriminate]. inversion Hb; subst c2.
    apply deliver_txs_CI. eapply begin_block_CI; eauto. }
  destruct (selected_spec c2 HC2) as [_ Hlen].
  assert (Hsz : (size (last_pow (stk (w_chain w'))) <= length (map snd (selected c2)))%nat).
  { apply size_le_keys. intros k [p Hp]. rewrite Htop in Hp. apply top_power_some in Hp. apply in_map_iff. exists (p, k). auto. }
  rewrite map_length in Hsz. lia.
Qed.
