(* InvTomb.v — a tombstoned validator stays out: through any number of blocks that carry no SetPower and no RemoveValidator
   naming it — Unjail attempts, evidence, downtime votes, anything aimed at the others are all allowed — a validator that is
   jailed and tombstoned is still jailed and tombstoned, or its record is gone (and then stays gone). *)
From stdpp Require Import gmap.
Require Import Model.Base Model.Ante Model.Validate Model.Current Model.State Model.Staking Model.Slashing Model.Poa Model.App.
Require Import proofs.EvBasic proofs.L1Basic proofs.L1More proofs.L1Effects proofs.Inv proofs.InvPres proofs.InvMsgs proofs.InvHistory proofs.InvElig proofs.InvLive proofs.InvFrame proofs.InvEvidence.
Open Scope Z_scope.

Definition tomb_at (l : slashing) (k : Z) : Prop := exists i, infos l !! k = Some i /\ si_tomb i = true.

(* jailed and tombstoned, under consensus key k *)
Definition TJ (c : chain) (id k : Z) : Prop :=
  (exists v, vals (stk c) !! id = Some v /\ v_cons v = k /\ v_jailed v = true) /\ tomb_at (sl c) k.

Definition gone (c : chain) (id : Z) : Prop := vals (stk c) !! id = None.

(* messages that could change that: the admin's (or its own) SetPower / RemoveValidator naming it *)
Definition hard_targets (m : l1msg) (id : Z) : Prop :=
  match m with MSetPower _ v _ _ | MRemoveValidator _ v => v = id | _ => False end.
Definition hspares_tx (id : Z) (tx : list l1msg) : Prop := Forall (fun m => ~ hard_targets m id) tx.
Definition hspares_txs (id : Z) (txs : list (list l1msg)) : Prop := Forall (hspares_tx id) txs.

Lemma tomb_at_set_info_other l k k' i : k' <> k -> tomb_at l k -> tomb_at (set_info l k' i) k.
Proof. intros Hne (j & Hj & Ht). exists j. cbn. rewrite lookup_insert_ne by auto. auto. Qed.

Lemma tomb_at_after_bonded l k k' h : tomb_at l k -> tomb_at (after_bonded l k' h) k.
Proof.
  intros (j & Hj & Ht). unfold after_bonded, tomb_at. cbn. destruct (decide (k' = k)) as [->|Hne].
  - rewrite lookup_insert, Hj. eexists. split; [reflexivity|]. exact Ht.
  - rewrite lookup_insert_ne by auto. eauto.
Qed.

Lemma classic_targets m id : targets m id \/ ~ targets m id.
Proof. destruct m; cbn; try (right; tauto); destruct (Z.eq_dec val id); auto. Qed.

(* ---- one message ---- *)
Lemma exec_msg_TJ c m c' id k : CI c -> TJ c id k -> exec_msg c m = MOk c' -> ~ hard_targets m id -> TJ c' id k.
Proof.
  intros HCI [(v & Hv & Hk & Hj) Ht] H Hh. pose proof HCI as [HS HP].
  (* an Unjail naming it is refused *)
  destruct (classic_targets m id) as [Hun|Hnt].
  { destruct m as [s w p u|s w|s w|w kk mon r mx ch msd|s p|w|s|s t]; cbn in Hun, Hh; try contradiction; subst w; try (exfalso; apply Hh; reflexivity).
    destruct Ht as (i & Hi & Hti). rewrite <- Hk in Hi. destruct (tombstoned_cannot_unjail c id v i Hv Hi Hti) as [e He]. cbn in H. rewrite He in H. discriminate. }
  destruct (exec_msg_same_at c m c' id HCI H Hnt) as [Hsame _].
  split; [exists v; rewrite Hsame; auto|].
  (* the signing info under k *)
  destruct m as [s w p u|s w|s w|w kk mon r mx ch msd|s p|w|s|s t]; cbn in H.
  - assert (Hne : w <> id) by (intros ->; apply Hh; reflexivity). revert H.
    unfold msg_set_power. destruct (negb (is_admin s)); [discriminate|]. destruct (setpower_validate _ _) as [[]|]; [|discriminate].
    set (r1 := match find_pending w (pending (poa c)) with Some q => accept_new_validator c q | None => ensure_active c w end).
    assert (H1 : forall c1, r1 = MOk c1 -> tomb_at (sl c1) k).
    { subst r1. intros c1. destruct (find_pending w (pending (poa c))) as [q|] eqn:Ef.
      - intros Ea. apply find_pending_in in Ef as [Hin _]. unfold accept_new_validator in Ea. apply update_bonded_pool_spec in Ea as (_ & Hl & _). rewrite Hl. cbn.
        apply tomb_at_set_info_other; [|exact Ht]. intros Heq. apply (pi_cons_free _ HP q id v Hin Hv). congruence.
      - intros Hx. apply ensure_active_id in Hx as ->. exact Ht. }
    destruct r1 as [c1|]; [|discriminate]. cbn [mbind]. specialize (H1 c1 eq_refl).
    destruct (set_poa_power c1 w (cast_i64 p)) as [c2|] eqn:E2; [|discriminate]. cbn [mbind].
    assert (H2 : infos (sl c2) = infos (sl c1)).
    { revert E2. unfold set_poa_power. destruct (vals (stk c1) !! w) as [vv|]; [|discriminate]. destruct (_ =? _); [discriminate|]. destruct (_ && _).
      - destruct (slash _ _ _ _) as [cs|] eqn:Es; [|discriminate]. cbn [mbind]. intros Hx. apply update_validator_set_spec in Hx as (_ & _ & _ & _ & _ & _ & _ & _ & Hsl & _).
        rewrite Hsl. cbn. apply slash_frame in Es as (Hs2 & _). rewrite Hs2. reflexivity.
      - cbn [mbind]. intros Hx. apply update_validator_set_spec in Hx as (_ & _ & _ & _ & _ & _ & _ & _ & Hsl & _). rewrite Hsl. reflexivity. }
    assert (T2 : tomb_at (sl c2) k) by (unfold tomb_at; rewrite H2; exact H1).
    destruct (negb u && (1 <? height c2)); [destruct (_ =? 0); [discriminate|]; destruct (30 <=? _); [discriminate|]|];
      intros Hx; apply update_bonded_pool_stk in Hx as (_ & _ & Hl); unfold tomb_at; rewrite Hl; exact T2.
  - assert (Hne : w <> id) by (intros ->; apply Hh; reflexivity). revert H.
    unfold msg_remove_validator. destruct (if is_admin s then None else _); [discriminate|]. destruct (_ =? 0); [discriminate|].
    destruct (vals (stk c) !! w) as [vv|] eqn:Hw; [|discriminate]. destruct (negb _); [discriminate|].
    destruct (set_poa_power c w 0) as [c1|] eqn:E; [|discriminate]. cbn [mbind].
    assert (H2 : infos (sl c1) = infos (sl c)).
    { revert E. unfold set_poa_power. rewrite Hw. destruct (_ =? _); [discriminate|]. destruct (_ && _).
      - destruct (slash _ _ _ _) as [cs|] eqn:Es; [|discriminate]. cbn [mbind]. intros Hx. apply update_validator_set_spec in Hx as (_ & _ & _ & _ & _ & _ & _ & _ & Hsl & _).
        rewrite Hsl. cbn. apply slash_frame in Es as (Hs2 & _). rewrite Hs2. reflexivity.
      - cbn [mbind]. intros Hx. apply update_validator_set_spec in Hx as (_ & _ & _ & _ & _ & _ & _ & _ & Hsl & _). rewrite Hsl. reflexivity. }
    intros Hx. apply update_bonded_pool_stk in Hx as (_ & _ & Hl). unfold tomb_at. rewrite Hl. cbn.
    assert (Hck : v_cons vv <> k).
    { intros Heq. apply Hne. symmetry. eapply (si_cons _ HS id w v vv); eauto. congruence. }
    destruct Ht as (i & Hi & Hti). exists i. rewrite lookup_insert_ne by auto. rewrite H2. auto.
  - revert H. unfold msg_remove_pending. destruct (negb _); [discriminate|]. intros [= <-]. exact Ht.
  - revert H. destruct r as [r|], mx as [mx|], ch as [ch|]; try discriminate.
    unfold msg_create_validator. destruct (poa_create_validate _); try discriminate. destruct (_ <? _); [discriminate|].
    destruct (bool_decide _); [discriminate|]. destruct (bool_decide _); [discriminate|]. destruct (pending_conflict _ _ _); [discriminate|].
    destruct (negb _); [discriminate|]. intros Hx. apply update_bonded_pool_stk in Hx as (_ & _ & Hl). unfold tomb_at. rewrite Hl. exact Ht.
  - revert H. unfold msg_update_params. destruct (negb _); [discriminate|]. destruct (negb _); [discriminate|]. destruct (negb _); [discriminate|].
    intros [= <-]. exact Ht.
  - revert H. unfold msg_unjail. destruct (vals (stk c) !! w) as [vv|]; [|discriminate]. destruct (dels (stk c) !! w); [|discriminate].
    destruct (_ =? 0); [discriminate|]. destruct (_ <? _); [discriminate|]. destruct (negb _); [discriminate|].
    destruct (match infos _ !! _ with Some _ => _ | None => _ end); [discriminate|].
    destruct (unjail (stk c) (v_cons vv)); [|discriminate]. intros [= <-]. exact Ht.
  - inversion H; subst. exact Ht.
  - inversion H; subst. exact Ht.
Qed.

Lemma TJ_seqs c q id k : TJ c id k -> TJ (with_seqs c q) id k.
Proof. intros H. exact H. Qed.

Lemma exec_msgs_TJ ms id k : forall c c', CI c -> TJ c id k -> hspares_tx id ms -> exec_msgs c ms = MOk c' -> TJ c' id k.
Proof.
  induction ms as [|m rest IH]; intros c c' HC HT Hsp; cbn [exec_msgs]; [intros [= <-]; exact HT|].
  inversion Hsp as [|? ? Hm Hrest]; subst. destruct (exec_msg c m) as [c1|] eqn:E; [|discriminate]. cbn [mbind]. intros H.
  eapply IH; [eapply exec_msg_CI; eauto|eapply exec_msg_TJ; eauto|exact Hrest|exact H].
Qed.

Lemma deliver_tx_TJ c tx id k : CI c -> TJ c id k -> hspares_tx id tx -> TJ (fst (deliver_tx c tx)) id k.
Proof.
  intros HC HT Hsp. unfold deliver_tx. destruct (cur_stk_decorator _ _); [exact HT|]. destruct (cur_wd_decorator _ _); [exact HT|].
  destruct (cur_comm_decorator _ _ _ _ _); try exact HT.
  destruct (existsb is_tree tx); [exact HT|].
  destruct (exec_msgs _ tx) as [c2|] eqn:E; [|exact HT]. cbn [fst].
  eapply (exec_msgs_TJ tx id k); [apply CI_seqs; exact HC|exact HT|exact Hsp|exact E].
Qed.

Lemma deliver_txs_TJ txs id k : forall c, CI c -> TJ c id k -> hspares_txs id txs -> TJ (fst (deliver_txs c txs)) id k.
Proof.
  induction txs as [|tx rest IH]; intros c HC HT Hsp; cbn [deliver_txs]; [exact HT|].
  inversion Hsp as [|? ? Ht Hr]; subst.
  pose proof (deliver_tx_TJ c tx id k HC HT Ht) as T1. pose proof (deliver_tx_CI c tx HC) as C1.
  destruct (deliver_tx c tx) as [c1 o]. cbn [fst] in T1, C1. specialize (IH c1 C1 T1 Hr). destruct (deliver_txs c1 rest) as [c2 os]. exact IH.
Qed.

(* ---- BeginBlock: a jailed validator's votes are skipped, evidence against a tombstoned one is ignored ---- *)
Lemma handle_signature_TJ c ck p sg c' id k : SI (stk c) -> TJ c id k -> handle_signature c ck p sg = Some c' -> TJ c' id k.
Proof.
  intros HS [(v & Hv & Hk & Hj) Ht]. pose proof (si_bycons _ HS id v Hv) as Hbc. rewrite Hk in Hbc.
  unfold handle_signature. destruct (by_cons (stk c) !! ck) as [j|] eqn:Hck; [|discriminate].
  destruct (vals (stk c) !! j) as [vj|] eqn:Hvj; [|discriminate]. destruct (v_jailed vj) eqn:Hjj; [intros [= <-]; split; [eauto|exact Ht]|].
  assert (Hjne : j <> id) by (intros ->; rewrite Hv in Hvj; inversion Hvj; subst; congruence).
  assert (Hkne : ck <> k) by (intros ->; rewrite Hbc in Hck; inversion Hck; subst; congruence).
  destruct (infos (sl c) !! ck) as [i|]; [|discriminate].
  destruct (if negb _ && negb sg then _ else _) as [bm' cnt].
  destruct (_ && _).
  - destruct (slash c ck p _) as [c1|] eqn:Es; [|discriminate]. destruct (jail (stk c1) ck) as [s2|] eqn:Ej; [|discriminate].
    intros [= <-]. pose proof (slash_frame _ _ _ _ _ Es) as (Hsl & _ & _ & _ & _ & Hbc1 & _).
    split.
    + exists v. cbn. rewrite (jail_others _ _ _ j Ej) by (congruence || auto). rewrite (slash_others _ _ _ _ _ j Es Hck) by auto. auto.
    + cbn. apply tomb_at_set_info_other; [exact Hkne|]. destruct Ht as (i0 & Hi0 & Ht0). exists i0. cbn. rewrite Hsl. auto.
  - intros [= <-]. split; [eauto|]. cbn. apply tomb_at_set_info_other; [exact Hkne|]. destruct Ht as (i0 & Hi0 & Ht0). exists i0. cbn. auto.
Qed.

Lemma handle_votes_TJ votes absent id k : forall c c', CI c -> TJ c id k -> handle_votes votes absent c = Some c' -> TJ c' id k.
Proof.
  induction votes as [|[ck p] vs IH]; cbn; intros c c' HC HT; [intros [= <-]; exact HT|].
  destruct (handle_signature c ck p _) as [c1|] eqn:E; [|discriminate]. apply IH; [eapply handle_signature_CI; eauto|eapply handle_signature_TJ; [apply HC|exact HT|exact E]].
Qed.

Lemma handle_evidence_TJ c e c' id k : SI (stk c) -> TJ c id k -> handle_evidence c e = Some c' -> TJ c' id k.
Proof.
  intros HS [(v & Hv & Hk & Hj) Ht] H. pose proof (si_bycons _ HS id v Hv) as Hbc. rewrite Hk in Hbc.
  apply handle_evidence_cases in H as [->|(j & vj & i & c1 & s2 & Hck & Hvj & _ & Hi & Hti & _ & Es & Hjl & ->)]; [split; [eauto|exact Ht]|].
  assert (Hkne : ev_cons e <> k).
  { intros Heq. destruct Ht as (i0 & Hi0 & Ht0). rewrite Heq in Hi. rewrite Hi0 in Hi. inversion Hi; subst. congruence. }
  pose proof (slash_frame _ _ _ _ _ Es) as (Hsl & _ & _ & _ & _ & Hbc1 & _).
  assert (T' : tomb_at (set_info (sl c1) (ev_cons e) (tombstoned i)) k).
  { apply tomb_at_set_info_other; [exact Hkne|]. destruct Ht as (i0 & Hi0 & Ht0). exists i0. rewrite Hsl. auto. }
  split; [|exact T'].
  destruct (decide (j = id)) as [->|Hjne].
  - (* a stale index entry could lead here: the record is slashed, and stays jailed *)
    rewrite Hv in Hvj. inversion Hvj; subst vj. destruct (slash_target _ _ _ _ _ id v Es Hck Hv) as (v1 & Hv1 & C1 & J1 & _).
    destruct Hjl as [[_ ->]|[Hjf _]]; [|congruence]. exists v1. cbn. split; [exact Hv1|]. split; congruence.
  - exists v. cbn. destruct Hjl as [[_ ->]|[_ Ej]].
    + rewrite (slash_others _ _ _ _ _ j Es Hck) by auto. auto.
    + rewrite (jail_others _ _ _ j Ej) by (congruence || auto). rewrite (slash_others _ _ _ _ _ j Es Hck) by auto. auto.
Qed.

Lemma handle_evidences_TJ evs id k : forall c c', CI c -> TJ c id k -> handle_evidences evs c = Some c' -> TJ c' id k.
Proof.
  intros c c' HC HT H.
  apply (handle_evidences_preserves (fun c => CI c /\ TJ c id k) evs) in H; [exact (proj2 H)| |split; assumption].
  intros c0 e c1 [A B] E. split; [eapply handle_evidence_CI; eauto|eapply handle_evidence_TJ; [apply A|exact B|exact E]].
Qed.

Lemma begin_block_TJ c votes absent evs c' id k : CI c -> TJ c id k -> begin_block c votes absent evs = inl c' -> TJ c' id k.
Proof.
  intros HC HT. unfold begin_block. destruct (_ && _); [discriminate|]. destruct (handle_votes votes absent c) as [c1|] eqn:E; [|discriminate].
  destruct (handle_evidences evs c1) as [c2|] eqn:E2; [|discriminate]. intros [= <-].
  pose proof (handle_votes_TJ _ _ id k _ _ HC HT E) as T1. pose proof (handle_votes_CI _ _ _ _ HC E) as C1.
  pose proof (handle_evidences_TJ _ id k _ _ C1 T1 E2) as T2. unfold poa_begin_block. destruct (1 <? height c2); exact T2.
Qed.

(* ---- the EndBlocker: the record keeps its jailed flag (or disappears), the tombstone survives AfterValidatorBonded ---- *)
Lemma apply_loop_tomb keys maxv k : forall a a', apply_loop keys maxv a = LDone a' -> tomb_at (sl (la_chain a)) k -> tomb_at (sl (la_chain a')) k.
Proof.
  induction keys as [|[p j] ks IH]; intros a a'; cbn [apply_loop]; [intros [= <-]; auto|].
  destruct (_ <=? _); [intros [= <-]; auto|]. destruct (vals _ !! j) as [v|]; [|discriminate].
  destruct (v_jailed v); [apply IH|]. destruct (_ =? 0); [intros [= <-]; auto|].
  destruct (v_status v).
  - destruct (bond_validator (la_chain a) j v) as [cb vb] eqn:Eb. unfold bond_validator in Eb. inversion Eb; subst cb vb. clear Eb.
    intros H HT. apply IH in H; [exact H|]. cbn [la_chain].
    destruct (match la_last a !! j with Some old => _ | None => true end); cbn; apply tomb_at_after_bonded; exact HT.
  - destruct (bond_validator (la_chain a) j v) as [cb vb] eqn:Eb. unfold bond_validator in Eb. inversion Eb; subst cb vb. clear Eb.
    intros H HT. apply IH in H; [exact H|]. cbn [la_chain].
    destruct (match la_last a !! j with Some old => _ | None => true end); cbn; apply tomb_at_after_bonded; exact HT.
  - intros H HT. apply IH in H; [exact H|]. cbn [la_chain]. destruct (match la_last a !! j with Some old => _ | None => true end); exact HT.
Qed.

Lemma unbond_loop_sl ids : forall a a', unbond_loop ids a = LDone a' -> sl (la_chain a') = sl (la_chain a).
Proof.
  induction ids as [|j rest IH]; intros a a'; cbn [unbond_loop]; [intros [= <-]; reflexivity|].
  destruct (vals _ !! j) as [v|]; [|discriminate]. destruct (negb _); [discriminate|].
  destruct (begin_unbonding (la_chain a) j v) as [cu vu] eqn:Eb. unfold begin_unbonding in Eb. inversion Eb; subst cu vu. clear Eb.
  intros H. apply IH in H. rewrite H. reflexivity.
Qed.

Lemma mature_ids_sl ids : forall c c', mature_ids ids c = Some c' -> sl c' = sl c.
Proof.
  induction ids as [|j rest IH]; cbn [mature_ids]; intros c c'; [intros [= <-]; reflexivity|].
  destruct (vals (stk c) !! j) as [v|]; [|discriminate]. destruct (negb _); [discriminate|].
  destruct (_ =? 0).
  - destruct (0 <? _); [discriminate|]. intros H. apply IH in H. exact H.
  - intros H. apply IH in H. exact H.
Qed.

Lemma mature_slots_sl slots : forall c c', mature_slots slots c = Some c' -> sl c' = sl c.
Proof.
  induction slots as [|[[t h] ids] rest IH]; cbn [mature_slots]; intros c c'; [intros [= <-]; reflexivity|].
  destruct (_ && _); [|apply IH]. destruct (mature_ids ids c) as [c1|] eqn:E; [|discriminate]. intros H. apply IH in H. apply mature_ids_sl in E. congruence.
Qed.

Lemma staking_end_block_TJ c c' upd id k : TJ c id k -> staking_end_block c = EBOk c' upd -> TJ c' id k \/ gone c' id.
Proof.
  intros [(v & Hv & Hk & Hj) Ht] H. pose proof (staking_end_block_keeps c c' upd id H) as [_ K]. rewrite Hv in K.
  assert (T' : tomb_at (sl c') k).
  { revert H. unfold staking_end_block. destruct (apply_valset_updates c) as [c1 u1|] eqn:E1; [|discriminate].
    destruct (unbond_all_mature c1) as [c2|] eqn:E2; [|discriminate]. intros [= <- _]. unfold unbond_all_mature in E2. apply mature_slots_sl in E2. rewrite E2.
    revert E1. unfold apply_valset_updates. destruct (apply_loop _ _ _) as [a1|] eqn:L1; [|discriminate]. destruct (unbond_loop _ a1) as [a2|] eqn:L2; [|discriminate].
    destruct (if la_to_bonded a2 =? 0 then _ else _); [|discriminate]. intros [= <- _].
    apply (apply_loop_tomb _ _ k) in L1; [|exact Ht]. apply unbond_loop_sl in L2. destruct (la_upd a2); cbn; rewrite L2; exact L1. }
  destruct (vals (stk c') !! id) as [v'|] eqn:Hv'; [|right; exact Hv'].
  left. destruct K as (C & J & _). split; [exists v'; split; [exact Hv'|split; congruence]|exact T'].
Qed.

(* ---- once the record is gone it stays gone, unless a SetPower naming it admits a new application ---- *)
Lemma gone_stays w b id : CI (w_chain w) -> hspares_txs id (b_txs b) -> gone (w_chain w) id -> gone (w_chain (fst (run_block w b))) id.
Proof.
  intros HC Hsp Hg.
  assert (Hsp' : spares_txs id (b_txs b) \/ True) by auto. clear Hsp'.
  (* a record that does not exist cannot be unjailed: every message not naming it by SetPower/RemoveValidator leaves [vals !! id] alone *)
  unfold gone in *. unfold run_block. destruct (w_halted w); [exact Hg|].
  set (c0 := with_clock (w_chain w) (height (w_chain w) + 1) (now (w_chain w) + b_dt b)).
  assert (HC0 : CI c0) by (apply CI_clock; exact HC).
  destruct (begin_block c0 _ (b_absent b) (b_evidence b)) as [c1|e] eqn:Eb; [|exact Hg].
  pose proof (begin_block_CI _ _ _ _ _ HC0 Eb) as HC1.
  assert (G1 : vals (stk c1) !! id = None).
  { destruct (begin_block_rel _ _ _ _ _ id Eb) as [[A _]|(_ & v & Hv & _)]; [rewrite A; exact Hg|]. change (vals (stk c0) !! id) with (vals (stk (w_chain w)) !! id) in Hv. congruence. }
  assert (G2 : forall txs c, CI c -> hspares_txs id txs -> vals (stk c) !! id = None -> vals (stk (fst (deliver_txs c txs))) !! id = None).
  { clear. induction txs as [|tx rest IH]; intros c HC Hsp Hn; cbn [deliver_txs]; [exact Hn|].
    inversion Hsp as [|? ? Ht Hr]; subst.
    assert (T1 : vals (stk (fst (deliver_tx c tx))) !! id = None).
    { unfold deliver_tx. destruct (cur_stk_decorator _ _); [exact Hn|]. destruct (cur_wd_decorator _ _); [exact Hn|].
      destruct (cur_comm_decorator _ _ _ _ _); try exact Hn. destruct (existsb is_tree tx); [exact Hn|].
      destruct (exec_msgs _ tx) as [c2|] eqn:E; [|exact Hn]. cbn [fst].
      assert (G : forall ms c0 c1, CI c0 -> hspares_tx id ms -> vals (stk c0) !! id = None -> exec_msgs c0 ms = MOk c1 -> vals (stk c1) !! id = None).
      { induction ms as [|m ms IHm]; intros c0 c1 HC0 Hs0 Hn0; cbn [exec_msgs]; [intros [= <-]; exact Hn0|].
        inversion Hs0 as [|? ? Hm Hms]; subst. destruct (exec_msg c0 m) as [cm|] eqn:Em; [|discriminate]. cbn [mbind].
        apply IHm; [eapply exec_msg_CI; eauto|exact Hms|].
        destruct (classic_targets m id) as [Hun|Hnt].
        - (* only an Unjail naming it is left: refused for lack of a record *)
          destruct m as [s w p u|s w|s w|w kk mon r mx ch msd|s p|w|s|s t]; cbn in Hun, Hm; try contradiction; subst w; try (exfalso; apply Hm; reflexivity).
          cbn in Em. unfold msg_unjail in Em. rewrite Hn0 in Em. discriminate.
        - destruct (exec_msg_same_at c0 m cm id HC0 Em Hnt) as [A _]. rewrite A. exact Hn0. }
      eapply (G tx _ c2); [apply CI_seqs; exact HC|exact Ht|exact Hn|exact E]. }
    pose proof (deliver_tx_CI c tx HC) as C1. destruct (deliver_tx c tx) as [c1 o]. cbn [fst] in T1, C1.
    specialize (IH c1 C1 Hr T1). destruct (deliver_txs c1 rest) as [c2 os]. exact IH. }
  specialize (G2 (b_txs b) c1 HC1 Hsp G1). destruct (deliver_txs c1 (b_txs b)) as [c2 outs]. cbn [fst] in G2.
  destruct (staking_end_block c2) as [c3 upd|e] eqn:Ee; [|exact G2].
  assert (G3 : vals (stk c3) !! id = None).
  { pose proof (staking_end_block_keeps c2 c3 upd id Ee) as [_ K]. rewrite G2 in K. exact K. }
  destruct (comet_apply _ upd); exact G3.
Qed.

(* ---- a block, a history ---- *)
Definition TJG (c : chain) (id k : Z) : Prop := TJ c id k \/ gone c id.

Theorem run_block_TJ w b id k : CI (w_chain w) -> hspares_txs id (b_txs b) -> TJG (w_chain w) id k -> TJG (w_chain (fst (run_block w b))) id k.
Proof.
  intros HC Hsp [HT|Hg]; [|right; apply gone_stays; assumption].
  unfold run_block. destruct (w_halted w); [left; exact HT|].
  set (c0 := with_clock (w_chain w) (height (w_chain w) + 1) (now (w_chain w) + b_dt b)).
  assert (HC0 : CI c0) by (apply CI_clock; exact HC). assert (T0 : TJ c0 id k) by exact HT.
  destruct (begin_block c0 _ (b_absent b) (b_evidence b)) as [c1|e] eqn:Eb; [|left; exact T0].
  pose proof (begin_block_CI _ _ _ _ _ HC0 Eb) as HC1. pose proof (begin_block_TJ _ _ _ _ _ id k HC0 T0 Eb) as T1.
  pose proof (deliver_txs_TJ (b_txs b) id k c1 HC1 T1 Hsp) as T2.
  destruct (deliver_txs c1 (b_txs b)) as [c2 outs]. cbn [fst] in T2.
  destruct (staking_end_block c2) as [c3 upd|e] eqn:Ee; [|left; exact T2].
  pose proof (staking_end_block_TJ _ _ _ id k T2 Ee) as T3.
  destruct (comet_apply _ upd); exact T3.
Qed.

Theorem run_world_TJ bs id k : forall w,
  CI (w_chain w) -> Forall (fun b => hspares_txs id (b_txs b)) bs -> TJG (w_chain w) id k -> TJG (w_chain (run_world w bs)) id k.
Proof.
  induction bs as [|b rest IH]; intros w HC Hsp HT; cbn [run_world]; [exact HT|].
  inversion Hsp as [|? ? Hb Hr]; subst. apply IH; [apply run_block_CI; exact HC|exact Hr|apply run_block_TJ; [exact HC|exact Hb|exact HT]].
Qed.

(* from any reachable state in which a validator is jailed and tombstoned: through any number of blocks that carry no SetPower
   and no RemoveValidator naming it — its own Unjail attempts included — it is still jailed and tombstoned, or its record is gone *)
Theorem tombstoned_stays_out g bs bs2 id k :
  wf_genesis g -> Forall (fun b => hspares_txs id (b_txs b)) bs2 ->
  let w := run_world (init_world g) bs in
  TJ (w_chain w) id k -> TJG (w_chain (run_world w bs2)) id k.
Proof. intros Hg Hsp w HT. apply run_world_TJ; [apply reachable_CI; exact Hg|exact Hsp|left; exact HT]. Qed.
