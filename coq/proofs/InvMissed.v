(* InvMissed.v — x/slashing's liveness accounting stays consistent whatever the admin does: in every reachable state, for every
   consensus key, the missed-block counter of its signing info is the number of bits set in its missed-block bitmap (no bit is
   recorded twice), and a key without a signing info has no bits. (R13 made this true: before it, admission reset the counter and
   left the bits.) *)
From stdpp Require Import gmap.
Require Import Model.Base Model.Ante Model.Validate Model.Current Model.State Model.Staking Model.Slashing Model.Poa Model.App.
Require Import proofs.EvBasic proofs.L1Basic proofs.L1More proofs.L1Effects proofs.Inv proofs.InvPres proofs.InvMsgs proofs.InvHistory proofs.InvElig proofs.InvLive proofs.InvFrame proofs.InvEvidence proofs.InvTomb.
Open Scope Z_scope.

Definition bits (l : slashing) (k : Z) : list Z := default [] (bitmaps l !! k).

Definition MI (l : slashing) : Prop :=
  forall k, List.NoDup (bits l k) /\
            match infos l !! k with Some i => si_missed i = Z.of_nat (length (bits l k)) | None => bits l k = [] end.

Lemma MI_ext l l' : infos l' = infos l -> bitmaps l' = bitmaps l -> MI l -> MI l'.
Proof. intros Hi Hb H k. unfold bits. rewrite Hi, Hb. apply H. Qed.

(* both reset together *)
Lemma MI_reset l k i : MI l -> si_missed i = 0 -> MI (set_info (del_bitmap l k) k i).
Proof.
  intros H Hz k'. unfold bits. cbn. destruct (decide (k' = k)) as [->|Hne].
  - rewrite lookup_delete, lookup_insert. cbn. split; [constructor|exact Hz].
  - rewrite lookup_delete_ne, lookup_insert_ne by auto. apply H.
Qed.

(* the info replaced by one with the same counter *)
Lemma MI_same_counter l k i i' : MI l -> infos l !! k = Some i -> si_missed i' = si_missed i -> MI (set_info l k i').
Proof.
  intros H Hi Hm k'. unfold bits. cbn. destruct (decide (k' = k)) as [->|Hne].
  - rewrite lookup_insert. destruct (H k) as [N C]. rewrite Hi in C. split; [exact N|]. unfold bits in C. congruence.
  - rewrite lookup_insert_ne by auto. apply H.
Qed.

Lemma length_filter_remove (x : Z) l : List.NoDup l -> In x l -> length (filter (fun y => negb (y =? x)) l) = (length l - 1)%nat.
Proof.
  induction l as [|a l IH]; intros Hn Hin; [destruct Hin|]. inversion Hn as [|? ? Hna Hnl]; subst. cbn.
  destruct (Z.eqb_spec a x) as [->|Hne]; cbn.
  - (* the one occurrence *)
    assert (E : filter (fun y => negb (y =? x)) l = l).
    { clear -Hna. induction l as [|b l IH]; cbn; [reflexivity|]. destruct (Z.eqb_spec b x) as [->|]; cbn.
      - exfalso. apply Hna. left; reflexivity.
      - rewrite IH; [reflexivity|]. intros H. apply Hna. right; exact H. }
    rewrite E. lia.
  - destruct Hin as [->|Hin]; [congruence|]. rewrite (IH Hnl Hin). destruct l; [destruct Hin|cbn; lia].
Qed.

Lemma NoDup_filter_Z (f : Z -> bool) l : List.NoDup l -> List.NoDup (filter f l).
Proof.
  induction l as [|a l IH]; intros Hn; cbn; [constructor|]. inversion Hn; subst. destruct (f a); [constructor; [|auto]|auto].
  intros H. apply filter_In in H as [H _]. contradiction.
Qed.

Lemma existsb_eqb_In (x : Z) l : existsb (Z.eqb x) l = true <-> In x l.
Proof. rewrite existsb_exists. split; [intros (y & Hy & E); apply Z.eqb_eq in E; subst; exact Hy|intros H; exists x; split; [exact H|apply Z.eqb_refl]]. Qed.

(* ---- the accounting step ---- *)
Lemma handle_signature_MI c k p sg c' : MI (sl c) -> handle_signature c k p sg = Some c' -> MI (sl c').
Proof.
  intros HM. unfold handle_signature. destruct (by_cons (stk c) !! k) as [id|]; [|discriminate].
  destruct (vals (stk c) !! id) as [v|]; [|discriminate]. destruct (v_jailed v); [intros [= <-]; exact HM|].
  destruct (infos (sl c) !! k) as [i|] eqn:Hi; [|discriminate].
  set (index := si_index i mod slp_window (slparams (sl c))).
  set (bm := default [] (bitmaps (sl c) !! k)).
  destruct (HM k) as [Nbm Cbm]. rewrite Hi in Cbm. fold (bits (sl c) k) in bm. change (bits (sl c) k) with bm in Nbm, Cbm.
  set (previous := existsb (Z.eqb index) bm).
  assert (Hpair : exists bm' cnt, (if negb previous && negb sg then (index :: bm, si_missed i + 1)
                                   else if previous && negb (negb sg) then (filter (fun x => negb (x =? index)) bm, si_missed i - 1)
                                   else (bm, si_missed i)) = (bm', cnt) /\ List.NoDup bm' /\ cnt = Z.of_nat (length bm')).
  { unfold previous. destruct (existsb (Z.eqb index) bm) eqn:Ep; destruct sg; cbn.
    - do 2 eexists. split; [reflexivity|]. split; [apply NoDup_filter_Z; exact Nbm|].
      rewrite length_filter_remove; [|exact Nbm|apply existsb_eqb_In; exact Ep].
      assert (In index bm) by (apply existsb_eqb_In; exact Ep). destruct bm; [contradiction|cbn in *; lia].
    - do 2 eexists. split; [reflexivity|]. split; [exact Nbm|exact Cbm].
    - do 2 eexists. split; [reflexivity|]. split; [exact Nbm|exact Cbm].
    - do 2 eexists. split; [reflexivity|]. split; [constructor; [|exact Nbm]|cbn; lia].
      intros Hin. apply existsb_eqb_In in Hin. congruence. }
  destruct Hpair as (bm' & cnt & -> & Nbm' & Ccnt).
  destruct (_ && _).
  - destruct (slash c k p _) as [c1|] eqn:Es; [|discriminate]. destruct (jail (stk c1) k) as [s2|]; [|discriminate].
    intros [= <-]. cbn. apply slash_frame in Es as (Hsl & _). rewrite Hsl. apply MI_reset; [exact HM|reflexivity].
  - intros [= <-]. cbn. intros k'. unfold bits. cbn. destruct (decide (k' = k)) as [->|Hne].
    + rewrite !lookup_insert. cbn. split; [exact Nbm'|exact Ccnt].
    + rewrite !lookup_insert_ne by auto. apply HM.
Qed.

Lemma handle_votes_MI votes absent : forall c c', MI (sl c) -> handle_votes votes absent c = Some c' -> MI (sl c').
Proof.
  induction votes as [|[k p] vs IH]; cbn; intros c c' HM; [intros [= <-]; exact HM|].
  destruct (handle_signature c k p _) as [c1|] eqn:E; [|discriminate]. apply IH. eapply handle_signature_MI; eauto.
Qed.

Lemma handle_evidence_MI c e c' : MI (sl c) -> handle_evidence c e = Some c' -> MI (sl c').
Proof.
  intros HM H. apply handle_evidence_cases in H as [->|(id & v & i & c1 & s2 & _ & _ & _ & Hi & _ & _ & Es & _ & ->)]; [exact HM|].
  cbn. apply slash_frame in Es as (Hsl & _). rewrite Hsl. eapply MI_same_counter; [exact HM|exact Hi|reflexivity].
Qed.

Lemma begin_block_MI c votes absent evs c' : MI (sl c) -> begin_block c votes absent evs = inl c' -> MI (sl c').
Proof.
  intros HM. unfold begin_block. destruct (_ && _); [discriminate|]. destruct (handle_votes votes absent c) as [c1|] eqn:E; [|discriminate].
  destruct (handle_evidences evs c1) as [c2|] eqn:E2; [|discriminate]. intros [= <-].
  pose proof (handle_votes_MI _ _ _ _ HM E) as M1.
  assert (M2 : MI (sl c2)).
  { apply (handle_evidences_preserves (fun c => MI (sl c)) evs) with (c := c1); [|exact M1|exact E2]. intros c0 e c0' H0 H1. eapply handle_evidence_MI; eauto. }
  unfold poa_begin_block. destruct (1 <? height c2); exact M2.
Qed.

(* ---- messages ---- *)
Lemma set_poa_power_pos_sl c val n c' : n <> 0 -> set_poa_power c val n = MOk c' -> sl c' = sl c.
Proof.
  intros Hn. unfold set_poa_power. destruct (vals (stk c) !! val) as [v|]; [|discriminate]. destruct (_ =? _); [discriminate|].
  destruct (Z.eqb_spec n 0) as [|_]; [contradiction|]. cbn [andb mbind]. intros H.
  apply update_validator_set_spec in H as (_ & _ & _ & _ & _ & _ & _ & _ & Hsl & _). rewrite Hsl. reflexivity.
Qed.

Lemma set_poa_power_zero_sl c val c' : set_poa_power c val 0 = MOk c' -> infos (sl c') = infos (sl c) /\
  (bitmaps (sl c') = bitmaps (sl c) \/ exists v, vals (stk c) !! val = Some v /\ bitmaps (sl c') = delete (v_cons v) (bitmaps (sl c))).
Proof.
  unfold set_poa_power. destruct (vals (stk c) !! val) as [v|] eqn:Hv; [|discriminate]. destruct (_ =? _); [discriminate|].
  destruct (_ && _).
  - destruct (slash _ _ _ _) as [c2|] eqn:Es; [|discriminate]. cbn [mbind]. intros H.
    apply update_validator_set_spec in H as (_ & _ & _ & _ & _ & _ & _ & _ & Hsl & _). rewrite Hsl. cbn.
    apply slash_frame in Es as (Hs2 & _). rewrite Hs2. cbn. split; [reflexivity|]. right. exists v. auto.
  - cbn [mbind]. intros H. apply update_validator_set_spec in H as (_ & _ & _ & _ & _ & _ & _ & _ & Hsl & _). rewrite Hsl. cbn. auto.
Qed.

Lemma exec_msg_MI c m c' : MI (sl c) -> exec_msg c m = MOk c' -> MI (sl c').
Proof.
  intros HM. destruct m as [s v p u|s v|s v|v k mon r mx ch msd|s p|v|s|s t]; cbn.
  - unfold msg_set_power. destruct (negb (is_admin s)); [discriminate|]. destruct (setpower_validate (0 <=? v) p) as [[]|] eqn:Ev; [|discriminate].
    set (r1 := match find_pending v (pending (poa c)) with Some q => accept_new_validator c q | None => ensure_active c v end).
    assert (H1 : forall c1, r1 = MOk c1 -> MI (sl c1)).
    { subst r1. intros c1. destruct (find_pending v (pending (poa c))) as [q|].
      - unfold accept_new_validator. intros H. apply update_bonded_pool_spec in H as (_ & Hl & _). rewrite Hl. cbn. apply MI_reset; [exact HM|reflexivity].
      - intros H. apply ensure_active_id in H as ->. exact HM. }
    destruct r1 as [c1|]; [|discriminate]. cbn [mbind]. specialize (H1 c1 eq_refl).
    destruct (set_poa_power c1 v (cast_i64 p)) as [c2|] eqn:E2; [|discriminate]. cbn [mbind].
    assert (Hnz : cast_i64 p <> 0).
    { pose proof (valid_power_pos v p Ev) as Hp. intros Hz. rewrite Hz in Hp. unfold tokens_to_power, power_reduction in Hp. rewrite Z.div_0_l in Hp by lia. lia. }
    pose proof (set_poa_power_pos_sl _ _ _ _ Hnz E2) as Hsl.
    destruct (negb u && (1 <? height c2)); [destruct (_ =? 0); [discriminate|]; destruct (30 <=? _); [discriminate|]|];
      intros H; apply update_bonded_pool_stk in H as (_ & _ & Hl); rewrite Hl, Hsl; exact H1.
  - unfold msg_remove_validator. destruct (if is_admin s then None else _); [discriminate|]. destruct (_ =? 0); [discriminate|].
    destruct (vals (stk c) !! v) as [vv|] eqn:Hv; [|discriminate]. destruct (negb _); [discriminate|].
    destruct (set_poa_power c v 0) as [c1|] eqn:E; [|discriminate]. cbn [mbind].
    intros H. apply update_bonded_pool_stk in H as (_ & _ & Hl). rewrite Hl. cbn [sl with_sl].
    destruct (set_poa_power_zero_sl _ _ _ E) as [Hi Hb].
    (* whatever SetPOAPower did to the bitmap of this key, clearSlashingInfo deletes it and zeroes the info *)
    intros k'. unfold bits. cbn. destruct (decide (k' = v_cons vv)) as [->|Hne].
    + rewrite lookup_delete, lookup_insert. cbn. split; [constructor|reflexivity].
    + rewrite lookup_delete_ne, lookup_insert_ne by auto. rewrite Hi.
      destruct Hb as [Hb|(v0 & Hv0 & Hb)]; rewrite Hb.
      * apply HM.
      * rewrite Hv in Hv0. inversion Hv0; subst v0. rewrite lookup_delete_ne by auto. apply HM.
  - unfold msg_remove_pending. destruct (negb _); [discriminate|]. intros [= <-]. exact HM.
  - destruct r as [r|], mx as [mx|], ch as [ch|]; try discriminate.
    unfold msg_create_validator. destruct (poa_create_validate _); try discriminate. destruct (_ <? _); [discriminate|].
    destruct (bool_decide _); [discriminate|]. destruct (bool_decide _); [discriminate|]. destruct (pending_conflict _ _ _); [discriminate|].
    destruct (negb _); [discriminate|]. intros H. apply update_bonded_pool_stk in H as (_ & _ & Hl). rewrite Hl. exact HM.
  - unfold msg_update_params. destruct (negb _); [discriminate|]. destruct (negb _); [discriminate|]. destruct (negb _); [discriminate|].
    intros [= <-]. exact HM.
  - unfold msg_unjail. destruct (vals (stk c) !! v) as [vv|]; [|discriminate]. destruct (dels (stk c) !! v); [|discriminate].
    destruct (_ =? 0); [discriminate|]. destruct (_ <? _); [discriminate|]. destruct (negb _); [discriminate|].
    destruct (match infos _ !! _ with Some _ => _ | None => _ end); [discriminate|].
    destruct (unjail (stk c) (v_cons vv)); [|discriminate]. intros [= <-]. exact HM.
  - intros [= <-]. exact HM.
  - intros [= <-]. exact HM.
Qed.

Lemma deliver_txs_MI txs : forall c, MI (sl c) -> MI (sl (fst (deliver_txs c txs))).
Proof.
  induction txs as [|tx rest IH]; intros c HM; cbn [deliver_txs]; [exact HM|].
  assert (T1 : MI (sl (fst (deliver_tx c tx)))).
  { unfold deliver_tx. destruct (cur_stk_decorator _ _); [exact HM|]. destruct (cur_wd_decorator _ _); [exact HM|].
    destruct (cur_comm_decorator _ _ _ _ _); try exact HM. destruct (existsb is_tree tx); [exact HM|].
    destruct (exec_msgs _ tx) as [c2|] eqn:E; [|exact HM]. cbn [fst].
    assert (G : forall ms c0 c1, MI (sl c0) -> exec_msgs c0 ms = MOk c1 -> MI (sl c1)).
    { induction ms as [|m ms IHm]; intros c0 c1 H0; cbn [exec_msgs]; [intros [= <-]; exact H0|].
      destruct (exec_msg c0 m) as [cm|] eqn:Em; [|discriminate]. cbn [mbind]. apply IHm. eapply exec_msg_MI; eauto. }
    eapply (G tx (bump_seqs c (dedup (map msg_sender tx))) c2); [exact HM|exact E]. }
  destruct (deliver_tx c tx) as [c1 o]. cbn [fst] in T1. specialize (IH c1 T1). destruct (deliver_txs c1 rest) as [c2 os]. exact IH.
Qed.

(* ---- the EndBlocker: AfterValidatorBonded keeps the counter, or creates an info for a key that has no bits ---- *)
Lemma MI_after_bonded l k h : MI l -> MI (after_bonded l k h).
Proof.
  intros HM k'. unfold bits, after_bonded. cbn. destruct (HM k') as [N C]. unfold bits in N, C. split; [exact N|].
  destruct (decide (k' = k)) as [->|Hne].
  - rewrite lookup_insert. destruct (infos l !! k) as [i|]; cbn; [exact C|rewrite C; reflexivity].
  - rewrite lookup_insert_ne by auto. exact C.
Qed.

Lemma apply_loop_MI keys maxv : forall a a', apply_loop keys maxv a = LDone a' -> MI (sl (la_chain a)) -> MI (sl (la_chain a')).
Proof.
  induction keys as [|[p j] ks IH]; intros a a'; cbn [apply_loop]; [intros [= <-]; auto|].
  destruct (_ <=? _); [intros [= <-]; auto|]. destruct (vals _ !! j) as [v|]; [|discriminate].
  destruct (v_jailed v); [apply IH|]. destruct (_ =? 0); [intros [= <-]; auto|].
  destruct (v_status v).
  - destruct (bond_validator (la_chain a) j v) as [cb vb] eqn:Eb. unfold bond_validator in Eb. inversion Eb; subst cb vb. clear Eb.
    intros H HT. apply IH in H; [exact H|]. cbn [la_chain].
    destruct (match la_last a !! j with Some old => _ | None => true end); cbn; apply MI_after_bonded; exact HT.
  - destruct (bond_validator (la_chain a) j v) as [cb vb] eqn:Eb. unfold bond_validator in Eb. inversion Eb; subst cb vb. clear Eb.
    intros H HT. apply IH in H; [exact H|]. cbn [la_chain].
    destruct (match la_last a !! j with Some old => _ | None => true end); cbn; apply MI_after_bonded; exact HT.
  - intros H HT. apply IH in H; [exact H|]. cbn [la_chain]. destruct (match la_last a !! j with Some old => _ | None => true end); exact HT.
Qed.

Lemma staking_end_block_MI c c' upd : MI (sl c) -> staking_end_block c = EBOk c' upd -> MI (sl c').
Proof.
  intros HM. unfold staking_end_block. destruct (apply_valset_updates c) as [c1 u1|] eqn:E1; [|discriminate].
  destruct (unbond_all_mature c1) as [c2|] eqn:E2; [|discriminate]. intros [= <- _]. unfold unbond_all_mature in E2. apply mature_slots_sl in E2. rewrite E2.
  revert E1. unfold apply_valset_updates. destruct (apply_loop _ _ _) as [a1|] eqn:L1; [|discriminate]. destruct (unbond_loop _ a1) as [a2|] eqn:L2; [|discriminate].
  destruct (if la_to_bonded a2 =? 0 then _ else _); [|discriminate]. intros [= <- _].
  apply apply_loop_MI in L1; [|exact HM]. apply unbond_loop_sl in L2. destruct (la_upd a2); cbn; rewrite L2; exact L1.
Qed.

Lemma run_block_MI w b : MI (sl (w_chain w)) -> MI (sl (w_chain (fst (run_block w b)))).
Proof.
  intros HM. unfold run_block. destruct (w_halted w); [exact HM|].
  set (c0 := with_clock (w_chain w) (height (w_chain w) + 1) (now (w_chain w) + b_dt b)).
  destruct (begin_block c0 _ (b_absent b) (b_evidence b)) as [c1|e] eqn:Eb; [|exact HM].
  assert (HM0 : MI (sl c0)) by exact HM. pose proof (begin_block_MI _ _ _ _ _ HM0 Eb) as M1. pose proof (deliver_txs_MI (b_txs b) c1 M1) as M2.
  destruct (deliver_txs c1 (b_txs b)) as [c2 outs]. cbn [fst] in M2.
  destruct (staking_end_block c2) as [c3 upd|e] eqn:Ee; [|exact M2].
  pose proof (staking_end_block_MI _ _ _ M2 Ee) as M3. destruct (comet_apply _ upd); exact M3.
Qed.

Lemma init_world_MI g : MI (sl (w_chain (init_world g))).
Proof.
  assert (M0 : MI (sl (genesis_chain g))).
  { intros k. unfold bits. cbn. rewrite !lookup_empty. cbn. split; [constructor|reflexivity]. }
  unfold init_world. fold (genesis_chain g).
  destruct (apply_valset_updates (genesis_chain g)) as [c1 upd|e] eqn:E; cbn; [|exact M0].
  revert E. unfold apply_valset_updates. destruct (apply_loop _ _ _) as [a1|] eqn:L1; [|discriminate]. destruct (unbond_loop _ a1) as [a2|] eqn:L2; [|discriminate].
  destruct (if la_to_bonded a2 =? 0 then _ else _); [|discriminate]. intros [= <- _].
  apply apply_loop_MI in L1; [|exact M0]. apply unbond_loop_sl in L2. destruct (la_upd a2); cbn; rewrite L2; exact L1.
Qed.

(* in every reachable state: counter = number of recorded misses, for every consensus key *)
Theorem reachable_MI g bs : MI (sl (w_chain (run_world (init_world g) bs))).
Proof.
  pose proof (init_world_MI g) as HM. revert HM. generalize (init_world g). induction bs as [|b bs IH]; cbn; intros w HM; [exact HM|].
  apply IH. apply run_block_MI. exact HM.
Qed.

(* what R13 repaired: resetting the signing info of a key without deleting its bitmap (the code before 73db156 did that at
   admission) breaks the accounting whenever the key has bits on record — e.g. a removed validator that missed its last votes *)
Theorem legacy_admission_breaks_the_accounting :
  exists (l : slashing) (k : Z) (i : signing), MI l /\ si_missed i = 0 /\ ~ MI (set_info l k i).
Proof.
  set (i2 := {| si_start := 0; si_index := 2; si_until := 0; si_tomb := false; si_missed := 2 |}).
  set (i0 := {| si_start := 10; si_index := 0; si_until := 0; si_tomb := false; si_missed := 0 |}).
  exists {| infos := {[ 7 := i2 ]}; bitmaps := {[ 7 := [0; 1] ]}; slparams := {| slp_window := 4; slp_min_signed_pc := 50; slp_jail := 5; slp_slash_down_bp := 100; slp_slash_dbl_bp := 500 |} |}, 7, i0.
  split; [|split; [reflexivity|]].
  - intros k. unfold bits. cbn. destruct (decide (k = 7)) as [->|Hne].
    + rewrite !lookup_singleton. cbn. split; [repeat constructor; cbn; intuition lia|reflexivity].
    + rewrite !lookup_singleton_ne by auto. cbn. split; [constructor|reflexivity].
  - intros H. destruct (H 7) as [_ C]. unfold bits in C. cbn in C. rewrite lookup_insert, lookup_singleton in C. cbn in C. discriminate.
Qed.
