(* InvElig.v — who is in the validator set. The power index is complete for the eligible validators (not jailed,
   positive power) in every reachable state; x/staking's EndBlocker therefore leaves, whenever max_validators does
   not bind, exactly the eligible validators in the last validator set, each at the power of its tokens. With
   InvComet (CometBFT's set = the last validator set by consensus key) this characterises the set CometBFT holds. *)
From Coq Require Import Sorted.
From stdpp Require Import gmap.
Require Import Model.Base Model.Ante Model.Validate Model.Current Model.State Model.Staking Model.Slashing Model.Poa Model.App.
Require Import proofs.EvBasic proofs.Inv proofs.InvIdx proofs.L1Effects proofs.InvPres proofs.InvMsgs proofs.InvHistory proofs.InvQueue.
Open Scope Z_scope.

Definition eligible (v : validator) : bool := negb (v_jailed v) && (0 <? v_power v).

(* index completeness, for the ids satisfying P *)
Definition ICP (P : Z -> Prop) (s : staking) : Prop :=
  forall id v, P id -> vals s !! id = Some v -> eligible v = true -> In (v_power v, id) (pidx s).
Definition IC (s : staking) : Prop := ICP (fun _ => True) s.

Lemma ICP_weaken (P Q : Z -> Prop) s : (forall j, Q j -> P j) -> ICP P s -> ICP Q s.
Proof. intros H HI id v Hq. apply HI. auto. Qed.

Lemma ICP_ext P s s' : vals s' = vals s -> pidx s' = pidx s -> ICP P s -> ICP P s'.
Proof. intros Hv Hp HI id v. rewrite Hv, Hp. apply HI. Qed.

Lemma ICP_update P s s' id v' :
  ICP P s -> vals s' = <[id := v']> (vals s) ->
  (forall q j, In (q, j) (pidx s) -> j <> id -> In (q, j) (pidx s')) ->
  (P id -> eligible v' = true -> In (v_power v', id) (pidx s')) ->
  ICP P s'.
Proof.
  intros HI Hvals Hsurv Hnew j v Hp. rewrite Hvals. destruct (decide (j = id)) as [->|Hne].
  - rewrite lookup_insert. intros [= <-]. auto.
  - rewrite lookup_insert_ne by auto. intros Hv He. apply Hsurv; [|exact Hne]. apply HI; auto.
Qed.

(* filling the hole left for [id] *)
Lemma ICP_fill s s' id v' :
  ICP (fun j => j <> id) s -> vals s' = <[id := v']> (vals s) ->
  (forall q j, In (q, j) (pidx s) -> j <> id -> In (q, j) (pidx s')) ->
  (eligible v' = true -> In (v_power v', id) (pidx s')) ->
  IC s'.
Proof.
  intros HI Hvals Hsurv Hnew j v _. rewrite Hvals. destruct (decide (j = id)) as [->|Hne].
  - rewrite lookup_insert. intros [= <-]. auto.
  - rewrite lookup_insert_ne by auto. intros Hv He. apply Hsurv; [|exact Hne]. apply HI; auto.
Qed.

Lemma ICP_remove P s s' id :
  ICP P s -> vals s' = delete id (vals s) -> (forall q j, In (q, j) (pidx s) -> j <> id -> In (q, j) (pidx s')) -> ICP P s'.
Proof.
  intros HI Hvals Hsurv j v Hp. rewrite Hvals. intros Hl He. apply lookup_delete_Some in Hl as [Hne Hl].
  apply Hsurv; [|auto]. apply HI; auto.
Qed.

Lemma survive_del q j p id l : In (q, j) l -> j <> id -> In (q, j) (pidx_del (p, id) l).
Proof. intros H Hne. apply in_pidx_del. split; [exact H|]. intros [= _ ->]. contradiction. Qed.
Lemma survive_add q j k l : In (q, j) l -> In (q, j) (pidx_add k l).
Proof. intros H. apply in_pidx_add. auto. Qed.

Lemma rekey_pidx s id v v' :
  pidx (rekey s id v v') = if v_jailed v' then pidx_del (v_power v, id) (pidx s) else pidx_add (v_power v', id) (pidx_del (v_power v, id) (pidx s)).
Proof. unfold rekey, set_index, set_validator, del_index. destruct (v_jailed v'); reflexivity. Qed.

Lemma ICP_rekey P s id v v' : ICP P s -> ICP P (rekey s id v v').
Proof.
  intros HI. eapply ICP_update; [exact HI|apply rekey_vals| |].
  - intros q j Hin Hne. rewrite rekey_pidx. destruct (v_jailed v'); [|apply survive_add]; apply survive_del; auto.
  - intros _ He. rewrite rekey_pidx. unfold eligible in He. destruct (v_jailed v'); [discriminate|]. apply in_pidx_add. auto.
Qed.

Lemma ICP_del_index s id v : ICP (fun _ => True) s -> ICP (fun j => j <> id) (del_index s id v).
Proof.
  intros HI j w Hne Hv He. unfold del_index. cbn. apply survive_del; [|exact Hne]. apply HI; auto.
Qed.

Lemma ICP_del_index' P s id v : ICP P s -> ICP (fun j => P j /\ j <> id) (del_index s id v).
Proof.
  intros HI j w [Hp Hne] Hv He. unfold del_index. cbn. apply survive_del; [|exact Hne]. apply HI; auto.
Qed.

(* ---- Slash, Jail, Unjail ---- *)
Lemma slash_ICP P c k p f c' : ICP P (stk c) -> slash c k p f = Some c' -> ICP P (stk c').
Proof.
  intros HI. unfold slash. destruct (f <? 0); [discriminate|].
  destruct (by_cons (stk c) !! k) as [id|]; [|intros [= <-]; exact HI].
  destruct (vals (stk c) !! id) as [v|] eqn:Hv; [|intros [= <-]; exact HI].
  destruct (status_eqb (v_status v) Unbonded); [discriminate|].
  destruct (_ =? 0); [intros [= <-]; exact HI|].
  destruct (if status_eqb (v_status v) Bonded then _ else _); [|discriminate]. intros [= <-]. cbn.
  match goal with |- ICP P (set_index (set_validator (del_index ?s ?i ?a) ?i ?b) ?i ?b) => change (ICP P (rekey s i a b)) end.
  apply ICP_rekey. exact HI.
Qed.

Lemma jail_ICP P s k s' : ICP P s -> jail s k = Some s' -> ICP P s'.
Proof.
  intros HI. unfold jail. destruct (by_cons s !! k) as [id|]; [|discriminate]. destruct (vals s !! id) as [v|] eqn:Hv; [|discriminate].
  destruct (v_jailed v); [discriminate|]. intros [= <-].
  eapply ICP_update; [exact HI|reflexivity| |].
  - intros q j Hin Hne. cbn. apply survive_del; auto.
  - intros _ He. unfold eligible in He. cbn in He. discriminate.
Qed.

Lemma unjail_ICP P s k s' : ICP P s -> unjail s k = Some s' -> ICP P s'.
Proof.
  intros HI. unfold unjail. destruct (by_cons s !! k) as [id|]; [|discriminate]. destruct (vals s !! id) as [v|] eqn:Hv; [|discriminate].
  destruct (negb _); [discriminate|]. intros [= <-].
  eapply ICP_update; [exact HI| | |].
  - unfold set_index, set_validator. cbn. reflexivity.
  - intros q j Hin Hne. unfold set_index, set_validator. cbn. apply survive_add. exact Hin.
  - intros _ _. unfold set_index, set_validator. cbn. apply in_pidx_add. auto.
Qed.

Lemma handle_signature_IC c k p sg c' : IC (stk c) -> handle_signature c k p sg = Some c' -> IC (stk c').
Proof.
  intros HI. unfold handle_signature. destruct (by_cons (stk c) !! k) as [id|]; [|discriminate].
  destruct (vals (stk c) !! id) as [v|]; [|discriminate]. destruct (v_jailed v); [intros [= <-]; exact HI|].
  destruct (infos (sl c) !! k) as [i|]; [|discriminate].
  destruct (if negb _ && negb sg then _ else _) as [bm' cnt].
  destruct (_ && _).
  - destruct (slash c k p _) as [c1|] eqn:Es; [|discriminate]. destruct (jail (stk c1) k) as [s2|] eqn:Ej; [|discriminate].
    intros [= <-]. cbn. eapply jail_ICP; [|exact Ej]. eapply slash_ICP; eauto.
  - intros [= <-]. exact HI.
Qed.

Lemma handle_votes_IC votes absent c c' : IC (stk c) -> handle_votes votes absent c = Some c' -> IC (stk c').
Proof.
  revert c. induction votes as [|[k p] vs IH]; cbn; intros c HI; [intros [= <-]; exact HI|].
  destruct (handle_signature c k p _) as [c1|] eqn:E; [|discriminate]. apply IH. eapply handle_signature_IC; eauto.
Qed.

Lemma handle_evidence_IC c e c' : IC (stk c) -> handle_evidence c e = Some c' -> IC (stk c').
Proof.
  intros HI H. apply handle_evidence_cases in H as [->|(id & v & i & c1 & s2 & _ & _ & _ & _ & _ & _ & Es & Hj & ->)]; [exact HI|].
  cbn. pose proof (slash_ICP _ _ _ _ _ _ HI Es) as I1. destruct Hj as [[_ ->]|[_ Ej]]; [exact I1|eapply jail_ICP; eauto].
Qed.

Lemma handle_evidences_IC evs c c' : IC (stk c) -> handle_evidences evs c = Some c' -> IC (stk c').
Proof. apply (handle_evidences_preserves (fun c => IC (stk c))). intros; eapply handle_evidence_IC; eauto. Qed.

Lemma begin_block_IC c votes absent evs c' : IC (stk c) -> begin_block c votes absent evs = inl c' -> IC (stk c').
Proof.
  intros HI. unfold begin_block. destruct (_ && _); [discriminate|]. destruct (handle_votes votes absent c) as [c1|] eqn:E; [|discriminate].
  destruct (handle_evidences evs c1) as [c2|] eqn:E2; [|discriminate].
  intros [= <-]. pose proof (handle_votes_IC _ _ _ _ HI E) as H1. pose proof (handle_evidences_IC _ _ _ H1 E2) as H2.
  unfold poa_begin_block. destruct (1 <? height c2); exact H2.
Qed.

(* ---- SetPOAPower ---- *)
Lemma set_poa_power_IC c val n c' : IC (stk c) -> set_poa_power c val n = MOk c' -> IC (stk c').
Proof.
  intros HI. unfold set_poa_power.
  destruct (vals (stk c) !! val) as [v|] eqn:Hv; [|discriminate]. destruct (_ =? _); [discriminate|].
  set (v2 := set_status (set_shares (set_tokens (set_tokens v n) n) (n * dec_one)) Bonded).
  destruct ((n =? 0) && _) eqn:Erm.
  - destruct (slash _ _ _ _) as [c2|] eqn:Es; [|discriminate]. cbn [mbind].
    intros H. apply update_validator_set_spec in H as (Hvals & _ & Hpidx & _). cbn in Hvals, Hpidx.
    assert (H1 : ICP (fun j => j <> val) (del_index (stk c) val v)) by (apply ICP_del_index; exact HI).
    pose proof (slash_ICP _ (with_stk c (del_index (stk c) val v)) _ _ _ _ H1 Es) as H2.
    eapply ICP_fill with (s := stk c2) (id := val) (v' := v2); [exact H2|exact Hvals| |].
    + intros q j Hin Hne. rewrite Hpidx. apply survive_del; auto.
    + intros He. apply andb_prop in Erm as [En _]. apply Z.eqb_eq in En. subst n. unfold eligible, v2, v_power in He. cbn in He.
      rewrite andb_false_r in He. discriminate.
  - cbn [mbind]. intros H. apply update_validator_set_spec in H as (Hvals & _ & Hpidx & _). cbn in Hvals, Hpidx.
    eapply ICP_fill with (s := stk c) (id := val) (v' := v2); [eapply ICP_weaken; [|exact HI]; intros; exact I| | |].
    + rewrite Hvals. unfold set_index, del_index. cbn. destruct (v_jailed v); reflexivity.
    + intros q j Hin Hne. rewrite Hpidx. unfold set_index, del_index. cbn. destruct (v_jailed v); cbn; [|apply survive_add]; apply survive_del; auto.
    + intros He. rewrite Hpidx. unfold eligible, v2 in He. cbn in He. unfold set_index, del_index. cbn.
      destruct (v_jailed v); [discriminate|]. cbn. apply in_pidx_add. left. reflexivity.
Qed.

Lemma accept_IC c p c' : IC (stk c) -> accept_new_validator c p = MOk c' -> IC (stk c').
Proof.
  intros HI. unfold accept_new_validator. intros H. apply update_bonded_pool_stk in H as (Hs & _). rewrite Hs. cbn.
  eapply ICP_update with (s := stk c); [exact HI|reflexivity| |].
  - intros q j Hin Hne. cbn. apply survive_add. exact Hin.
  - intros _ _. cbn. apply in_pidx_add. left. reflexivity.
Qed.

Lemma exec_msg_IC c m c' : IC (stk c) -> exec_msg c m = MOk c' -> IC (stk c').
Proof.
  intros HI. destruct m as [s v p u|s v|s v|v k mon r mx ch msd|s p|v|s|s t]; cbn.
  - unfold msg_set_power. destruct (negb (is_admin s)); [discriminate|].
    destruct (setpower_validate (0 <=? v) p) as [[]|] eqn:Ev; [|discriminate].
    set (r1 := match find_pending v (pending (poa c)) with Some q => accept_new_validator c q | None => ensure_active c v end).
    assert (H1 : forall c1, r1 = MOk c1 -> IC (stk c1)).
    { subst r1. intros c1. destruct (find_pending v (pending (poa c))) as [q|]; [apply accept_IC; exact HI|].
      intros H. apply ensure_active_id in H as ->. exact HI. }
    destruct r1 as [c1|]; [|discriminate]. cbn [mbind]. specialize (H1 c1 eq_refl).
    destruct (set_poa_power c1 v (cast_i64 p)) as [c2|] eqn:E2; [|discriminate]. cbn [mbind].
    pose proof (set_poa_power_IC _ _ _ _ H1 E2) as H2.
    destruct (negb u && (1 <? height c2)).
    + destruct (_ =? 0); [discriminate|]. destruct (30 <=? _); [discriminate|]. intros H. apply update_bonded_pool_stk in H as (-> & _). exact H2.
    + intros H. apply update_bonded_pool_stk in H as (-> & _). exact H2.
  - unfold msg_remove_validator. destruct (if is_admin s then None else _); [discriminate|]. destruct (_ =? 0); [discriminate|].
    destruct (vals (stk c) !! v) as [vv|] eqn:Hv; [|discriminate]. destruct (negb _); [discriminate|].
    destruct (set_poa_power c v 0) as [c1|] eqn:E; [|discriminate]. cbn [mbind].
    intros H. apply update_bonded_pool_stk in H as (-> & _). cbn. eapply set_poa_power_IC; eauto.
  - unfold msg_remove_pending. destruct (negb _); [discriminate|]. intros [= <-]. exact HI.
  - destruct r as [r|], mx as [mx|], ch as [ch|]; try discriminate.
    unfold msg_create_validator. destruct (poa_create_validate _); try discriminate. destruct (_ <? _); [discriminate|].
    destruct (bool_decide _); [discriminate|]. destruct (bool_decide _); [discriminate|]. destruct (pending_conflict _ _ _); [discriminate|].
    destruct (negb _); [discriminate|]. intros H. apply update_bonded_pool_stk in H as (-> & _). exact HI.
  - unfold msg_update_params. destruct (negb _); [discriminate|]. destruct (negb _); [discriminate|]. destruct (negb _); [discriminate|].
    intros [= <-]. eapply ICP_ext; [| |exact HI]; reflexivity.
  - unfold msg_unjail. destruct (vals (stk c) !! v) as [vv|]; [|discriminate]. destruct (dels (stk c) !! v); [|discriminate].
    destruct (_ =? 0); [discriminate|]. destruct (_ <? _); [discriminate|]. destruct (negb _); [discriminate|].
    destruct (match infos _ !! _ with Some _ => _ | None => _ end); [discriminate|].
    destruct (unjail (stk c) (v_cons vv)) as [s'|] eqn:E; [|discriminate]. intros [= <-]. cbn. eapply unjail_ICP; eauto.
  - intros [= <-]. exact HI.
  - intros [= <-]. exact HI.
Qed.

Lemma exec_msgs_IC ms c c' : IC (stk c) -> exec_msgs c ms = MOk c' -> IC (stk c').
Proof.
  revert c. induction ms as [|m ms IH]; cbn; intros c HI; [intros [= <-]; exact HI|].
  destruct (exec_msg c m) as [c1|] eqn:E; [|discriminate]. cbn. apply IH. eapply exec_msg_IC; eauto.
Qed.

Lemma deliver_tx_IC c tx : IC (stk c) -> IC (stk (fst (deliver_tx c tx))).
Proof.
  intros HI. unfold deliver_tx. destruct (cur_stk_decorator _ _); [exact HI|]. destruct (cur_wd_decorator _ _); [exact HI|].
  destruct (cur_comm_decorator _ _ _ _ _); try exact HI.
  destruct (existsb is_tree tx); [exact HI|].
  destruct (exec_msgs _ tx) as [c2|] eqn:E; [|exact HI]. cbn. eapply exec_msgs_IC; [|exact E]. exact HI.
Qed.

Lemma deliver_txs_IC txs c : IC (stk c) -> IC (stk (fst (deliver_txs c txs))).
Proof.
  revert c. induction txs as [|tx txs IH]; cbn; intros c HI; [exact HI|].
  pose proof (deliver_tx_IC c tx HI) as Q1. destruct (deliver_tx c tx) as [c1 o]. cbn in *.
  specialize (IH c1 Q1). destruct (deliver_txs c1 txs) as [c2 os]. exact IH.
Qed.

(* ---- EndBlocker ---- *)
Lemma bond_validator_IC c id v : IC (stk c) -> IC (stk (fst (bond_validator c id v))).
Proof.
  intros HI. unfold bond_validator. cbn.
  eapply ICP_ext with (s := rekey (stk c) id v (set_status v Bonded)); [| |apply ICP_rekey; exact HI];
    unfold rekey, set_index, set_validator, del_index; cbn; destruct (v_jailed v); reflexivity.
Qed.

Lemma begin_unbonding_IC c id v : IC (stk c) -> IC (stk (fst (begin_unbonding c id v))).
Proof.
  intros HI. unfold begin_unbonding. cbn.
  set (v' := set_unbonding v (height c) (now c + sp_unbonding_time (params (stk c)) / 1000000000)).
  eapply ICP_ext with (s := rekey (stk c) id v v'); [| |apply ICP_rekey; exact HI];
    unfold rekey, set_index, set_validator, del_index; cbn; destruct (v_jailed v); reflexivity.
Qed.

Lemma apply_loop_IC keys maxv a a' : IC (stk (la_chain a)) -> apply_loop keys maxv a = LDone a' -> IC (stk (la_chain a')).
Proof.
  revert a. induction keys as [|[p id] ks IH]; intros a HI; cbn [apply_loop]; [intros [= <-]; exact HI|].
  destruct (maxv <=? la_count a); [intros [= <-]; exact HI|].
  destruct (vals (stk (la_chain a)) !! id) as [v|] eqn:Hv; [|discriminate].
  destruct (v_jailed v); [apply IH; exact HI|].
  destruct (v_power v =? 0); [intros [= <-]; exact HI|].
  set (r := match v_status v with Bonded => (la_chain a, v, 0) | _ => let '(c', v') := bond_validator (la_chain a) id v in (c', v', v_tokens v') end).
  assert (Hr : exists c1 v1 moved, r = (c1, v1, moved) /\ IC (stk c1)).
  { subst r. pose proof (bond_validator_IC _ id v HI) as Hb.
    destruct (v_status v); [destruct (bond_validator (la_chain a) id v) as [c' v'']; cbn in Hb; do 3 eexists; split; [reflexivity|exact Hb]..|].
    do 3 eexists; split; [reflexivity|exact HI]. }
  destruct Hr as (c1 & v1 & moved & -> & HI1). cbn zeta.
  apply IH. cbn [la_chain].
  destruct (match la_last a !! id with Some old => negb (old =? v_power v1) | None => true end); [|exact HI1].
  eapply ICP_ext; [| |exact HI1]; reflexivity.
Qed.

Lemma unbond_loop_IC ids a a' : IC (stk (la_chain a)) -> unbond_loop ids a = LDone a' -> IC (stk (la_chain a')).
Proof.
  revert a. induction ids as [|id rest IH]; intros a HI; cbn [unbond_loop]; [intros [= <-]; exact HI|].
  destruct (vals (stk (la_chain a)) !! id) as [v|] eqn:Hv; [|discriminate].
  destruct (negb _); [discriminate|].
  pose proof (begin_unbonding_IC (la_chain a) id v HI) as H1.
  destruct (begin_unbonding (la_chain a) id v) as [c1 v1] eqn:Eb. apply IH. cbn [la_chain]. cbn in H1.
  eapply ICP_ext; [| |exact H1]; reflexivity.
Qed.

Lemma apply_valset_updates_IC c c' upd : IC (stk c) -> apply_valset_updates c = EBOk c' upd -> IC (stk c').
Proof.
  intros HI. unfold apply_valset_updates.
  destruct (apply_loop _ _ _) as [a1|] eqn:E1; [|discriminate].
  destruct (unbond_loop _ a1) as [a2|] eqn:E2; [|discriminate].
  assert (H1 : IC (stk (la_chain a1))) by (eapply apply_loop_IC; [|exact E1]; exact HI).
  pose proof (unbond_loop_IC _ _ _ H1 E2) as H2.
  destruct (if la_to_bonded a2 =? 0 then _ else _) as [b|]; [|discriminate]. intros [= <- _].
  destruct (la_upd a2); [exact H2|]. eapply ICP_ext; [| |exact H2]; reflexivity.
Qed.

Lemma mature_ids_IC ids c c' : IC (stk c) -> mature_ids ids c = Some c' -> IC (stk c').
Proof.
  revert c. induction ids as [|id rest IH]; cbn [mature_ids]; intros c HI; [intros [= <-]; exact HI|].
  destruct (vals (stk c) !! id) as [v|] eqn:Hv; [|discriminate].
  destruct (negb _); [discriminate|].
  set (v' := set_status v Unbonded).
  destruct (v_shares v' =? 0).
  - destruct (0 <? v_tokens v'); [discriminate|]. apply IH. cbn.
    eapply ICP_remove with (s := stk c) (id := id); [exact HI|cbn; apply delete_insert_delete|].
    intros q j Hin Hne. cbn. apply survive_del; auto.
  - apply IH. cbn. eapply ICP_update with (s := stk c) (id := id) (v' := v'); [exact HI|reflexivity|auto|].
    intros _ He. cbn. apply (HI id v I Hv). exact He.
Qed.

Lemma mature_slots_IC slots c c' : IC (stk c) -> mature_slots slots c = Some c' -> IC (stk c').
Proof.
  revert c. induction slots as [|[[t h] ids] rest IH]; cbn [mature_slots]; intros c HI; [intros [= <-]; exact HI|].
  destruct (_ && _); [|apply IH; exact HI].
  destruct (mature_ids ids c) as [c1|] eqn:E; [|discriminate]. apply IH. eapply mature_ids_IC; eauto.
Qed.

Lemma staking_end_block_IC c c' upd : IC (stk c) -> staking_end_block c = EBOk c' upd -> IC (stk c').
Proof.
  intros HI. unfold staking_end_block. destruct (apply_valset_updates c) as [c1 u|] eqn:E1; [|discriminate].
  destruct (unbond_all_mature c1) as [c2|] eqn:E2; [|discriminate]. intros [= <- _].
  unfold unbond_all_mature in E2. eapply mature_slots_IC; [|exact E2]. eapply apply_valset_updates_IC; eauto.
Qed.

(* ---- histories ---- *)
Lemma genesis_chain_IC g : IC (stk (genesis_chain g)).
Proof.
  intros id v _ Hv He. cbn in *. apply list_to_map_lookup_inv in Hv. apply in_map_iff in Hv as ([i t] & Heq & Hin). cbn in Heq. inversion Heq; subst.
  apply in_map_iff. exists (id, t). split; [reflexivity|exact Hin].
Qed.

Lemma init_world_IC g : IC (stk (w_chain (init_world g))).
Proof.
  pose proof (genesis_chain_IC g) as H0. unfold init_world. fold (genesis_chain g).
  change (match apply_valset_updates (genesis_chain g) with
          | EBOk c1 upd => _ | EBHalt e => _ end) with
    (match apply_valset_updates (genesis_chain g) with
     | EBHalt e => {| w_chain := genesis_chain g; w_comet := {| c_prev := None; c_cur := ∅; c_next := ∅ |}; w_halted := Some (HEndBlock e) |}
     | EBOk c1 upd =>
       {| w_chain := with_poa c1 {| pending := []; cached_power := last_total (stk c1); abs_changed := 0 |};
          w_comet := {| c_prev := None; c_cur := apply_updates ∅ upd; c_next := apply_updates ∅ upd |}; w_halted := None |}
     end).
  destruct (apply_valset_updates (genesis_chain g)) as [c1 upd|e] eqn:E; cbn; [|exact H0].
  eapply apply_valset_updates_IC; eauto.
Qed.

Lemma run_block_IC w b : IC (stk (w_chain w)) -> IC (stk (w_chain (fst (run_block w b)))).
Proof.
  intros HI. unfold run_block. destruct (w_halted w); [exact HI|].
  set (c0 := with_clock (w_chain w) (height (w_chain w) + 1) (now (w_chain w) + b_dt b)).
  assert (Q0 : IC (stk c0)) by exact HI.
  destruct (begin_block c0 _ (b_absent b) (b_evidence b)) as [c1|e] eqn:Eb; [|exact Q0].
  pose proof (begin_block_IC _ _ _ _ _ Q0 Eb) as Q1.
  pose proof (deliver_txs_IC (b_txs b) c1 Q1) as Q2.
  destruct (deliver_txs c1 (b_txs b)) as [c2 outs]. cbn in Q2.
  destruct (staking_end_block c2) as [c3 upd|e] eqn:Ee; [|exact Q2].
  pose proof (staking_end_block_IC _ _ _ Q2 Ee) as Q3.
  destruct (comet_apply _ upd); exact Q3.
Qed.

Theorem reachable_IC g bs : IC (stk (w_chain (run_world (init_world g) bs))).
Proof.
  pose proof (init_world_IC g) as HI. revert HI. generalize (init_world g).
  induction bs as [|b bs IH]; cbn; intros w HI; [exact HI|]. apply IH. apply run_block_IC. exact HI.
Qed.

(* =====================  what the EndBlocker leaves in the last validator set  ===================== *)

(* records keep their jailed flag and tokens; only records without tokens disappear *)
Definition frame (s s' : staking) : Prop :=
  (forall id v', vals s' !! id = Some v' -> exists v, vals s !! id = Some v /\ v_jailed v' = v_jailed v /\ v_tokens v' = v_tokens v) /\
  (forall id v, vals s !! id = Some v -> 0 < v_tokens v -> is_Some (vals s' !! id)).

Lemma frame_refl s : frame s s.
Proof. split; [intros id v H; eauto|intros id v H _; eauto]. Qed.

Lemma frame_trans s1 s2 s3 : frame s1 s2 -> frame s2 s3 -> frame s1 s3.
Proof.
  intros [A1 B1] [A2 B2]. split.
  - intros id v3 H3. destruct (A2 id v3 H3) as (v2 & H2 & J2 & T2). destruct (A1 id v2 H2) as (v1 & H1 & J1 & T1). exists v1. repeat split; congruence.
  - intros id v1 H1 Hpos. destruct (B1 id v1 H1 Hpos) as [v2 H2]. destruct (A1 id v2 H2) as (v1' & H1' & _ & T). rewrite H1 in H1'. inversion H1'; subst v1'.
    apply (B2 id v2 H2). lia.
Qed.

Lemma frame_vals_eq s s' : vals s' = vals s -> frame s s'.
Proof. intros H. unfold frame. rewrite H. apply frame_refl. Qed.

Lemma frame_insert s s' id v v' :
  vals s !! id = Some v -> vals s' = <[id := v']> (vals s) -> v_jailed v' = v_jailed v -> v_tokens v' = v_tokens v -> frame s s'.
Proof.
  intros Hv Hvals Hj Ht. split.
  - intros j w. rewrite Hvals. destruct (decide (j = id)) as [->|Hne].
    + rewrite lookup_insert. intros [= <-]. eauto.
    + rewrite lookup_insert_ne by auto. eauto.
  - intros j w Hw _. rewrite Hvals. destruct (decide (j = id)) as [->|Hne]; [rewrite lookup_insert; eauto|rewrite lookup_insert_ne by auto; eauto].
Qed.

Lemma frame_delete s s' id v : vals s !! id = Some v -> v_tokens v <= 0 -> vals s' = delete id (vals s) -> frame s s'.
Proof.
  intros Hv Ht Hvals. split.
  - intros j w. rewrite Hvals. intros H. apply lookup_delete_Some in H as [_ H]. eauto.
  - intros j w Hw Hpos. rewrite Hvals. destruct (decide (j = id)) as [->|Hne]; [rewrite Hv in Hw; inversion Hw; subst; lia|].
    rewrite lookup_delete_ne by auto. eauto.
Qed.

(* ---- the index in iteration order: powers never increase ---- *)
Definition desc (keys : list (Z * Z)) : Prop := StronglySorted (fun a b => fst b <= fst a) keys.

Lemma insert_by_desc x l : desc l -> desc (insert_by pidx_le x l).
Proof.
  induction l as [|y l IH]; cbn; intros Hd; [repeat constructor|].
  inversion Hd as [|? ? Hd' Hall]; subst.
  destruct (pidx_le x y) eqn:E.
  - constructor; [exact Hd|]. assert (Hxy : fst y <= fst x) by (unfold pidx_le in E; lia).
    constructor; [exact Hxy|]. eapply Forall_impl; [|exact Hall]. cbn. intros a Ha. lia.
  - assert (Hyx : fst x <= fst y) by (unfold pidx_le in E; lia).
    constructor; [apply IH; exact Hd'|].
    apply Forall_forall. intros a Ha. apply (Permutation_in _ (insert_by_perm pidx_le x l)) in Ha. destruct Ha as [<-|Ha]; [exact Hyx|].
    rewrite Forall_forall in Hall. apply Hall. exact Ha.
Qed.

Lemma sort_by_desc l : desc (sort_by pidx_le l).
Proof. induction l as [|x l IH]; cbn; [constructor|]. apply insert_by_desc. exact IH. Qed.

Definition pos_key (k : Z * Z) : bool := 0 <? fst k.
Definition n_pos (keys : list (Z * Z)) : Z := Z.of_nat (length (filter pos_key keys)).

Lemma filter_nil_none {A} (f : A -> bool) l : filter f l = [] -> forall x, In x l -> f x = false.
Proof.
  induction l as [|y l IH]; cbn; [intros _ x []|]. destruct (f y) eqn:E; [discriminate|]. intros H x [<-|Hx]; auto.
Qed.

Lemma n_pos_zero keys : n_pos keys <= 0 -> forall q j, In (q, j) keys -> q <= 0.
Proof.
  unfold n_pos. intros H q j Hin. destruct (filter pos_key keys) eqn:E; [|cbn in H; lia].
  pose proof (filter_nil_none _ _ E (q, j) Hin) as Hf. unfold pos_key in Hf. cbn in Hf. lia.
Qed.

Lemma n_pos_cons_pos p id ks : 0 < p -> n_pos ((p, id) :: ks) = 1 + n_pos ks.
Proof. intros Hp. unfold n_pos. cbn. unfold pos_key at 1. cbn. destruct (Z.ltb_spec 0 p); [cbn; lia|lia]. Qed.

(* ---- the main loop: every positive key ends in the last set at its power; nothing else changes ---- *)
Lemma apply_loop_last keys maxv : forall a a',
  apply_loop keys maxv a = LDone a' ->
  (forall p id, In (p, id) keys -> exists v, vals (stk (la_chain a)) !! id = Some v /\ v_jailed v = false /\ p = v_power v) ->
  List.NoDup (map snd keys) -> desc keys -> (forall p id, In (p, id) keys -> 0 <= p) ->
  la_count a + n_pos keys <= maxv ->
  (forall id q, la_last a !! id = Some q -> last_pow (stk (la_chain a)) !! id = Some q) ->
  (forall p id, In (p, id) keys -> 0 < p -> last_pow (stk (la_chain a')) !! id = Some p /\ la_last a' !! id = None) /\
  (forall id, (forall p, In (p, id) keys -> p <= 0) ->
     last_pow (stk (la_chain a')) !! id = last_pow (stk (la_chain a)) !! id /\ la_last a' !! id = la_last a !! id) /\
  frame (stk (la_chain a)) (stk (la_chain a')).
Proof.
  induction keys as [|[p id] ks IH]; intros a a' Hrun K1 Knd Kd Knn Hcap Hagree; cbn [apply_loop] in Hrun.
  - inversion Hrun; subst. split; [intros ? ? []|]. split; [auto|apply frame_refl].
  - assert (Hnone : (forall q j, In (q, j) ((p, id) :: ks) -> q <= 0) ->
        LDone a = LDone a' ->
        (forall p0 id0, In (p0, id0) ((p, id) :: ks) -> 0 < p0 -> last_pow (stk (la_chain a')) !! id0 = Some p0 /\ la_last a' !! id0 = None) /\
        (forall id0, (forall p0, In (p0, id0) ((p, id) :: ks) -> p0 <= 0) ->
           last_pow (stk (la_chain a')) !! id0 = last_pow (stk (la_chain a)) !! id0 /\ la_last a' !! id0 = la_last a !! id0) /\
        frame (stk (la_chain a)) (stk (la_chain a'))).
    { intros Hz [= <-]. split; [intros q j Hin Hq; specialize (Hz q j Hin); lia|]. split; [auto|apply frame_refl]. }
    destruct (Z.leb_spec maxv (la_count a)) as [Hfull|Hroom].
    { apply Hnone; [|exact Hrun]. apply n_pos_zero. pose proof (Zle_0_nat (length (filter pos_key ((p, id) :: ks)))). unfold n_pos in *. lia. }
    destruct (K1 p id (or_introl eq_refl)) as (v & Hv & Hj & Hp). rewrite Hv, Hj in Hrun.
    inversion Kd as [|? ? Kd' Kall]; subst. inversion Knd as [|? ? Knotin Knd']; subst.
    destruct (Z.eqb_spec (v_power v) 0) as [Hz|Hnz].
    { apply Hnone; [|exact Hrun]. intros q j [Heq|Hin]; [inversion Heq; lia|]. rewrite Forall_forall in Kall. specialize (Kall (q, j) Hin). cbn in Kall. lia. }
    assert (Hpos : 0 < v_power v) by (specialize (Knn (v_power v) id (or_introl eq_refl)); lia).
    (* the step *)
    set (r := match v_status v with Bonded => (la_chain a, v, 0) | _ => let '(c', v') := bond_validator (la_chain a) id v in (c', v', v_tokens v') end) in Hrun.
    assert (Hr : exists c1 v1 moved, r = (c1, v1, moved) /\ v_power v1 = v_power v /\
              (vals (stk c1) = vals (stk (la_chain a)) \/ vals (stk c1) = <[id := set_status v Bonded]> (vals (stk (la_chain a)))) /\
              last_pow (stk c1) = last_pow (stk (la_chain a))).
    { subst r. pose proof (bond_validator_vals (la_chain a) id v) as (H1 & H2 & H3).
      destruct (v_status v).
      - destruct (bond_validator (la_chain a) id v) as [c' v'']. cbn in *. subst v''. do 3 eexists. split; [reflexivity|]. split; [reflexivity|]. split; [right; exact H1|exact H3].
      - destruct (bond_validator (la_chain a) id v) as [c' v'']. cbn in *. subst v''. do 3 eexists. split; [reflexivity|]. split; [reflexivity|]. split; [right; exact H1|exact H3].
      - do 3 eexists. split; [reflexivity|]. split; [reflexivity|]. split; [left; reflexivity|reflexivity]. }
    destruct Hr as (c1 & v1 & moved & Er & Hp1 & Hvals1 & Hlp1). rewrite Er in Hrun. cbn zeta in Hrun.
    set (changed := match la_last a !! id with Some old => negb (old =? v_power v1) | None => true end) in Hrun.
    set (c2 := if changed then with_stk c1 (st_last_pow (stk c1) (<[id := v_power v1]> (last_pow (stk c1)))) else c1) in Hrun.
    assert (Hvals2 : vals (stk c2) = vals (stk c1)) by (subst c2; destruct changed; reflexivity).
    assert (Hlp2 : last_pow (stk c2) !! id = Some (v_power v) /\ forall j, j <> id -> last_pow (stk c2) !! j = last_pow (stk (la_chain a)) !! j).
    { subst c2 changed. destruct (la_last a !! id) as [old|] eqn:El.
      - destruct (Z.eqb_spec old (v_power v1)) as [->|Hne]; cbn [negb].
        + rewrite Hlp1. split; [rewrite <- Hp1; apply Hagree; exact El|auto].
        + cbn. rewrite Hlp1, Hp1. split; [apply lookup_insert|intros j Hjne; apply lookup_insert_ne; auto].
      - cbn. rewrite Hlp1, Hp1. split; [apply lookup_insert|intros j Hjne; apply lookup_insert_ne; auto]. }
    destruct Hlp2 as [Hlp2 Hlp2'].
    assert (Hframe1 : frame (stk (la_chain a)) (stk c2)).
    { destruct Hvals1 as [E|E]; [apply frame_vals_eq; congruence|]. eapply frame_insert; [exact Hv|rewrite Hvals2; exact E|reflexivity|reflexivity]. }
    match type of Hrun with apply_loop ks maxv ?x = _ => set (a1 := x) in Hrun end.
    destruct (IH a1 a' Hrun) as (R1 & R2 & R3).
    { intros q j Hin. destruct (K1 q j (or_intror Hin)) as (w & Hw & Hjw & Hq). cbn [a1 la_chain]. rewrite Hvals2.
      destruct Hvals1 as [E|E]; rewrite E; [eauto|]. destruct (decide (j = id)) as [->|Hne].
      - rewrite lookup_insert. rewrite Hv in Hw. inversion Hw; subst w. exists (set_status v Bonded). auto.
      - rewrite lookup_insert_ne by auto. eauto. }
    { exact Knd'. } { exact Kd'. } { intros q j Hin. apply (Knn q j). right; exact Hin. }
    { cbn [a1 la_count]. rewrite (n_pos_cons_pos _ _ _ Hpos) in Hcap. lia. }
    { cbn [a1 la_last la_chain]. intros j q Hl. apply lookup_delete_Some in Hl as [Hne Hl]. rewrite Hlp2' by auto. apply Hagree; exact Hl. }
    assert (Hid_notin : forall q, In (q, id) ks -> False).
    { intros q Hin. apply Knotin. change id with (snd (q, id)). apply in_map. exact Hin. }
    split; [|split].
    + intros q j [Heq|Hin] Hq.
      * inversion Heq; subst q j. destruct (R2 id) as [E1 E2]; [intros q Hin; destruct (Hid_notin q Hin)|].
        rewrite E1, E2. cbn [a1 la_chain la_last]. split; [exact Hlp2|apply lookup_delete].
      * apply R1; assumption.
    + intros j Hnp. assert (Hne : j <> id) by (intros ->; specialize (Hnp (v_power v) (or_introl eq_refl)); lia).
      destruct (R2 j) as [E1 E2]; [intros q Hin; apply Hnp; right; exact Hin|]. rewrite E1, E2. cbn [a1 la_chain la_last].
      split; [apply Hlp2'; exact Hne|apply lookup_delete_ne; auto].
    + eapply frame_trans; [exact Hframe1|exact R3].
Qed.

(* ---- the second loop: whoever is left in the shrinking copy leaves the last set ---- *)
Lemma unbond_loop_last ids : forall a a',
  unbond_loop ids a = LDone a' ->
  (forall id, last_pow (stk (la_chain a')) !! id = if existsb (Z.eqb id) ids then None else last_pow (stk (la_chain a)) !! id) /\
  frame (stk (la_chain a)) (stk (la_chain a')).
Proof.
  induction ids as [|i rest IH]; intros a a'; cbn [unbond_loop]; [intros [= <-]; split; [reflexivity|apply frame_refl]|].
  destruct (vals (stk (la_chain a)) !! i) as [v|] eqn:Hv; [|discriminate].
  destruct (negb _); [discriminate|].
  pose proof (begin_unbonding_vals (la_chain a) i v) as (vu & Hsnd & _ & Htok & Hvals & Hlp).
  assert (Hjail : v_jailed vu = v_jailed v) by (rewrite <- Hsnd; reflexivity).
  destruct (begin_unbonding (la_chain a) i v) as [c1 v1] eqn:Eb. cbn [fst snd] in *. subst v1.
  intros Hrun. apply IH in Hrun as [R1 R2]. cbn [la_chain] in *.
  split.
  - intros id. rewrite R1. cbn [existsb]. destruct (existsb (Z.eqb id) rest); [rewrite orb_true_r; reflexivity|]. rewrite orb_false_r.
    cbn. rewrite Hlp. destruct (Z.eqb_spec id i) as [->|Hne]; [apply lookup_delete|apply lookup_delete_ne; auto].
  - eapply frame_trans; [|exact R2]. apply (frame_insert _ _ i v vu Hv); [exact Hvals|exact Hjail|exact Htok].
Qed.

Lemma in_sorted_keys (m : gmap Z Z) id : existsb (Z.eqb id) (sorted_keys m) = true <-> is_Some (m !! id).
Proof.
  rewrite existsb_exists. unfold sorted_keys. split.
  - intros (x & Hin & He). apply Z.eqb_eq in He. subst x. apply (Permutation_in _ (sort_by_perm Z.leb _)) in Hin.
    apply in_map_iff in Hin as ([k q] & Hk & Hin). cbn in Hk. subst k. apply elem_of_list_In in Hin. apply elem_of_map_to_list in Hin. eauto.
  - intros [q Hq]. exists id. split; [|apply Z.eqb_refl]. apply (Permutation_in _ (Permutation_sym (sort_by_perm Z.leb _))).
    apply in_map_iff. exists (id, q). split; [reflexivity|]. apply elem_of_list_In. apply elem_of_map_to_list. exact Hq.
Qed.

(* positive keys of the index = eligible validators *)
Lemma pos_key_eligible s p id : SI s -> In (p, id) (pidx s) -> 0 < p -> exists v, vals s !! id = Some v /\ eligible v = true /\ p = v_power v.
Proof.
  intros HS Hin Hp. destruct (si_sound _ HS p id Hin) as (v & Hv & Hj & Hpv). exists v. split; [exact Hv|]. split; [|exact Hpv].
  unfold eligible. rewrite Hj. cbn. apply Z.ltb_lt. lia.
Qed.

Theorem apply_valset_updates_last c c' upd :
  CI c -> IC (stk c) -> apply_valset_updates c = EBOk c' upd ->
  n_pos (pidx (stk c)) <= sp_max_validators (params (stk c)) ->
  (forall id, last_pow (stk c') !! id =
     match vals (stk c) !! id with Some v => if eligible v then Some (v_power v) else None | None => None end) /\
  frame (stk c) (stk c').
Proof.
  intros [HS HP] HI Hrun Hcap. unfold apply_valset_updates in Hrun.
  set (keys := sort_by pidx_le (pidx (stk c))) in *.
  set (a0 := {| la_chain := c; la_last := last_pow (stk c); la_upd := []; la_count := 0; la_total := 0; la_to_bonded := 0 |}) in *.
  destruct (apply_loop keys _ a0) as [a1|] eqn:E1; [|discriminate].
  destruct (unbond_loop _ a1) as [a2|] eqn:E2; [|discriminate].
  assert (Hperm : forall x, In x keys <-> In x (pidx (stk c))).
  { intros x. split; intros H; [apply (Permutation_in _ (sort_by_perm pidx_le _)) in H; exact H|apply (Permutation_in _ (Permutation_sym (sort_by_perm pidx_le _))); exact H]. }
  assert (Hnpos : n_pos keys = n_pos (pidx (stk c))).
  { unfold n_pos. f_equal. apply Permutation_length. unfold keys. clear. 
    generalize (sort_by_perm pidx_le (pidx (stk c))). generalize (sort_by pidx_le (pidx (stk c))) (pidx (stk c)).
    intros l1 l2 Hp. induction Hp; cbn; [constructor|destruct (pos_key x); [constructor|]; exact IHHp| |etransitivity; eauto].
    destruct (pos_key x), (pos_key y); try reflexivity. apply perm_swap. }
  destruct (apply_loop_last keys _ a0 a1 E1) as (R1 & R2 & R3).
  { intros p id Hin. apply Hperm in Hin. apply (si_sound _ HS). exact Hin. }
  { eapply Permutation_NoDup; [|exact (si_unique _ HS)]. apply Permutation_map. symmetry. apply sort_by_perm. }
  { apply sort_by_desc. }
  { intros p id Hin. apply Hperm in Hin. destruct (si_sound _ HS p id Hin) as (v & Hv & _ & ->). apply tokens_to_power_nonneg. eapply si_tok; eauto. }
  { cbn [a0 la_count]. rewrite Hnpos. lia. }
  { cbn [a0 la_last la_chain]. auto. }
  destruct (unbond_loop_last _ a1 a2 E2) as (U1 & U2).
  assert (Hframe : frame (stk c) (stk (la_chain a2))) by (eapply frame_trans; [exact R3|exact U2]).
  assert (Hlast : forall id, last_pow (stk (la_chain a2)) !! id =
     match vals (stk c) !! id with Some v => if eligible v then Some (v_power v) else None | None => None end).
  { intros id. rewrite U1.
    destruct (vals (stk c) !! id) as [v|] eqn:Hv.
    - destruct (eligible v) eqn:He.
      + assert (Hin : In (v_power v, id) keys) by (apply Hperm; apply (HI id v I Hv He)).
        assert (Hp : 0 < v_power v) by (unfold eligible in He; lia).
        destruct (R1 _ _ Hin Hp) as [L1 L2].
        destruct (existsb (Z.eqb id) (sorted_keys (la_last a1))) eqn:Ex; [apply in_sorted_keys in Ex as [q Hq]; congruence|exact L1].
      + assert (Hnp : forall p, In (p, id) keys -> p <= 0).
        { intros p Hin. apply Hperm in Hin. destruct (si_sound _ HS p id Hin) as (w & Hw & Hjw & ->). rewrite Hv in Hw. inversion Hw; subst w.
          unfold eligible in He. rewrite Hjw in He. cbn in He. lia. }
        destruct (R2 id Hnp) as [L1 L2]. unfold a0 in L1, L2; cbn [la_chain la_last] in L1, L2.
        destruct (existsb (Z.eqb id) (sorted_keys (la_last a1))) eqn:Ex; [reflexivity|].
        rewrite L1. destruct (last_pow (stk c) !! id) as [q|] eqn:El; [|reflexivity]. exfalso.
        assert (Hs : is_Some (la_last a1 !! id)) by (rewrite L2; eauto). apply in_sorted_keys in Hs. congruence.
    - assert (Hnp : forall p, In (p, id) keys -> p <= 0).
      { intros p Hin. apply Hperm in Hin. destruct (si_sound _ HS p id Hin) as (w & Hw & _). congruence. }
      destruct (R2 id Hnp) as [L1 L2]. unfold a0 in L1, L2; cbn [la_chain la_last] in L1, L2.
      destruct (existsb (Z.eqb id) (sorted_keys (la_last a1))) eqn:Ex; [reflexivity|].
      rewrite L1. destruct (last_pow (stk c) !! id) as [q|] eqn:El; [|reflexivity]. exfalso.
      destruct (si_last _ HS id q El) as (w & Hw & _). congruence. }
  destruct (if la_to_bonded a2 =? 0 then _ else _) as [b|]; [|discriminate]. inversion Hrun; subst. clear Hrun.
  destruct (la_upd a2); cbn; split; auto.
Qed.

(* ---- maturity: no effect on the last set, records keep flag and tokens ---- *)
Lemma mature_ids_frame ids : forall c c', mature_ids ids c = Some c' ->
  last_pow (stk c') = last_pow (stk c) /\ params (stk c') = params (stk c) /\ frame (stk c) (stk c').
Proof.
  induction ids as [|id rest IH]; cbn [mature_ids]; intros c c'; [intros [= <-]; split; [|split]; auto; apply frame_refl|].
  destruct (vals (stk c) !! id) as [v|] eqn:Hv; [|discriminate].
  destruct (negb _); [discriminate|].
  set (v' := set_status v Unbonded).
  destruct (v_shares v' =? 0).
  - destruct (Z.ltb_spec 0 (v_tokens v')) as [|Hle]; [discriminate|]. intros H. apply IH in H as (L & P & F). cbn in L, P.
    split; [exact L|]. split; [exact P|]. eapply frame_trans; [|exact F].
    eapply (frame_delete _ _ id v Hv); [exact Hle|]. cbn. apply delete_insert_delete.
  - intros H. apply IH in H as (L & P & F). cbn in L, P. split; [exact L|]. split; [exact P|]. eapply frame_trans; [|exact F].
    eapply (frame_insert _ _ id v v' Hv); reflexivity.
Qed.

Lemma mature_slots_frame slots : forall c c', mature_slots slots c = Some c' ->
  last_pow (stk c') = last_pow (stk c) /\ params (stk c') = params (stk c) /\ frame (stk c) (stk c').
Proof.
  induction slots as [|[[t h] ids] rest IH]; cbn [mature_slots]; intros c c'; [intros [= <-]; split; [|split]; auto; apply frame_refl|].
  destruct (_ && _); [|apply IH].
  destruct (mature_ids ids c) as [c1|] eqn:E; [|discriminate]. intros H. apply IH in H as (L2 & P2 & F2).
  apply mature_ids_frame in E as (L1 & P1 & F1). split; [congruence|]. split; [congruence|]. eapply frame_trans; eauto.
Qed.

Lemma apply_loop_params keys maxv : forall a a', apply_loop keys maxv a = LDone a' -> params (stk (la_chain a')) = params (stk (la_chain a)).
Proof.
  induction keys as [|[p id] ks IH]; intros a a'; cbn [apply_loop]; [intros [= <-]; reflexivity|].
  destruct (_ <=? _); [intros [= <-]; reflexivity|]. destruct (vals _ !! id) as [v|]; [|discriminate].
  destruct (v_jailed v) eqn:Hj; [apply IH|]. destruct (_ =? 0); [intros [= <-]; reflexivity|].
  destruct (v_status v); cbn zeta.
  - destruct (bond_validator (la_chain a) id v) as [c' v'] eqn:Eb. unfold bond_validator in Eb. inversion Eb; subst. intros H. apply IH in H. rewrite H. cbn.
    destruct (match la_last a !! id with Some old => _ | None => true end); cbn; unfold set_index, set_validator, del_index; cbn; rewrite Hj; reflexivity.
  - destruct (bond_validator (la_chain a) id v) as [c' v'] eqn:Eb. unfold bond_validator in Eb. inversion Eb; subst. intros H. apply IH in H. rewrite H. cbn.
    destruct (match la_last a !! id with Some old => _ | None => true end); cbn; unfold set_index, set_validator, del_index; cbn; rewrite Hj; reflexivity.
  - intros H. apply IH in H. rewrite H. cbn. destruct (match la_last a !! id with Some old => _ | None => true end); reflexivity.
Qed.

Lemma unbond_loop_params ids : forall a a', unbond_loop ids a = LDone a' -> params (stk (la_chain a')) = params (stk (la_chain a)).
Proof.
  induction ids as [|id rest IH]; intros a a'; cbn [unbond_loop]; [intros [= <-]; reflexivity|].
  destruct (vals _ !! id) as [v|]; [|discriminate]. destruct (negb _); [discriminate|].
  destruct (begin_unbonding (la_chain a) id v) as [c1 v1] eqn:Eb. unfold begin_unbonding in Eb. inversion Eb; subst. intros H. apply IH in H. rewrite H. cbn.
  unfold set_index, set_validator, del_index. cbn. destruct (v_jailed v); reflexivity.
Qed.

Lemma apply_valset_updates_params c c' upd : apply_valset_updates c = EBOk c' upd -> params (stk c') = params (stk c).
Proof.
  unfold apply_valset_updates. destruct (apply_loop _ _ _) as [a1|] eqn:E1; [|discriminate]. destruct (unbond_loop _ a1) as [a2|] eqn:E2; [|discriminate].
  destruct (if la_to_bonded a2 =? 0 then _ else _); [|discriminate]. intros [= <- _].
  apply apply_loop_params in E1. apply unbond_loop_params in E2. cbn in E1. destruct (la_upd a2); cbn; congruence.
Qed.

Lemma eligible_same v v' : v_jailed v' = v_jailed v -> v_tokens v' = v_tokens v -> eligible v' = eligible v /\ v_power v' = v_power v.
Proof. intros Hj Ht. unfold eligible, v_power. rewrite Hj, Ht. auto. Qed.

Lemma power_pos_tokens v : 0 < v_power v -> 0 < v_tokens v.
Proof.
  unfold v_power, tokens_to_power, power_reduction. intros H. destruct (Z.le_gt_cases (v_tokens v) 0) as [Hle|]; [|assumption].
  assert (v_tokens v / 1000000 <= 0) by (apply Z.div_le_upper_bound; lia). lia.
Qed.

(* ---- the EndBlocker as a whole ---- *)
Theorem staking_end_block_set c c' upd :
  CI c -> IC (stk c) -> staking_end_block c = EBOk c' upd ->
  n_pos (pidx (stk c')) <= sp_max_validators (params (stk c')) ->
  forall id, last_pow (stk c') !! id =
    match vals (stk c') !! id with Some v => if eligible v then Some (v_power v) else None | None => None end.
Proof.
  intros HCI HI Hrun Hcap. pose proof (staking_end_block_IC _ _ _ HI Hrun) as HI'.
  unfold staking_end_block in Hrun. destruct (apply_valset_updates c) as [c1 u|] eqn:E1; [|discriminate].
  destruct (unbond_all_mature c1) as [c2|] eqn:E2; [|discriminate]. inversion Hrun; subst c2 u. clear Hrun.
  unfold unbond_all_mature in E2. apply mature_slots_frame in E2 as (L2 & P2 & F2).
  pose proof (apply_valset_updates_params _ _ _ E1) as P1.
  (* frame from c to c', which needs the first phase's frame; obtained below together with the set *)
  assert (Hcap0 : n_pos (pidx (stk c)) <= sp_max_validators (params (stk c)) -> frame (stk c) (stk c') ->
            forall id, last_pow (stk c') !! id =
              match vals (stk c') !! id with Some v => if eligible v then Some (v_power v) else None | None => None end).
  { intros Hc0 [FA FB] id. destruct (apply_valset_updates_last _ _ _ HCI HI E1 Hc0) as [Hlast _]. rewrite L2, Hlast.
    destruct (vals (stk c') !! id) as [v'|] eqn:Hv'.
    - destruct (FA id v' Hv') as (v & Hv & Hj & Ht). rewrite Hv. destruct (eligible_same v v' Hj Ht) as [-> ->]. reflexivity.
    - destruct (vals (stk c) !! id) as [v|] eqn:Hv; [|reflexivity]. destruct (eligible v) eqn:He; [|reflexivity]. exfalso.
      assert (Hp : 0 < v_power v) by (unfold eligible in He; lia). destruct (FB id v Hv (power_pos_tokens v Hp)) as [x Hx]. congruence. }
  (* the two frames *)
  destruct HCI as [HS HP].
  assert (F1 : frame (stk c) (stk c1)).
  { (* the first phase's frame does not depend on the cap: re-run the loops' frame part *)
    clear -E1. unfold apply_valset_updates in E1.
    destruct (apply_loop _ _ _) as [a1|] eqn:L1; [|discriminate]. destruct (unbond_loop _ a1) as [a2|] eqn:U1; [|discriminate].
    destruct (if la_to_bonded a2 =? 0 then _ else _); [|discriminate]. inversion E1; subst. clear E1.
    assert (FL : forall keys maxv a a', apply_loop keys maxv a = LDone a' -> frame (stk (la_chain a)) (stk (la_chain a'))).
    { induction keys as [|[p id] ks IH]; intros maxv a a'; cbn [apply_loop]; [intros [= <-]; apply frame_refl|].
      destruct (_ <=? _); [intros [= <-]; apply frame_refl|]. destruct (vals _ !! id) as [v|] eqn:Hv; [|discriminate].
      destruct (v_jailed v); [apply IH|]. destruct (_ =? 0); [intros [= <-]; apply frame_refl|].
      pose proof (bond_validator_vals (la_chain a) id v) as (H1 & H2 & H3).
      destruct (v_status v); cbn zeta.
      - destruct (bond_validator (la_chain a) id v) as [cb vb]. cbn in H1, H2. subst vb. intros H. apply IH in H. eapply frame_trans; [|exact H]. cbn [la_chain].
        apply (frame_insert _ _ id v (set_status v Bonded) Hv); [|reflexivity|reflexivity]. destruct (match la_last a !! id with Some old => _ | None => true end); exact H1.
      - destruct (bond_validator (la_chain a) id v) as [cb vb]. cbn in H1, H2. subst vb. intros H. apply IH in H. eapply frame_trans; [|exact H]. cbn [la_chain].
        apply (frame_insert _ _ id v (set_status v Bonded) Hv); [|reflexivity|reflexivity]. destruct (match la_last a !! id with Some old => _ | None => true end); exact H1.
      - intros H. apply IH in H. eapply frame_trans; [|exact H]. cbn [la_chain]. apply frame_vals_eq. destruct (match la_last a !! id with Some old => _ | None => true end); reflexivity. }
    apply FL in L1. apply unbond_loop_last in U1 as [_ U1]. cbn in L1.
    eapply frame_trans; [exact L1|]. eapply frame_trans; [exact U1|]. apply frame_vals_eq. destruct (la_upd a2); reflexivity. }
  assert (F : frame (stk c) (stk c')) by (eapply frame_trans; eauto).
  apply Hcap0; [|exact F].
  (* every positive key before is a positive key after *)
  rewrite P2, P1 in Hcap. eapply Z.le_trans; [|exact Hcap]. unfold n_pos. apply inj_le. apply NoDup_incl_length.
  - apply List.NoDup_filter. apply (NoDup_map_inv snd). exact (si_unique _ HS).
  - intros [p id] Hin. apply filter_In in Hin as [Hin Hp]. unfold pos_key in Hp. cbn in Hp. apply Z.ltb_lt in Hp.
    destruct (pos_key_eligible _ p id HS Hin Hp) as (v & Hv & He & ->).
    destruct F as [FA FB]. destruct (FB id v Hv (power_pos_tokens v Hp)) as [v' Hv'].
    destruct (FA id v' Hv') as (v0 & Hv0 & Hj & Ht). rewrite Hv in Hv0. inversion Hv0; subst v0.
    destruct (eligible_same v v' Hj Ht) as [Ee Ep]. apply filter_In. split.
    + rewrite <- Ep. apply (HI' id v' I Hv'). rewrite Ee. exact He.
    + unfold pos_key. cbn. apply Z.ltb_lt. exact Hp.
Qed.

Lemma n_pos_mono s s' : SI s -> IC s' -> frame s s' -> n_pos (pidx s) <= n_pos (pidx s').
Proof.
  intros HS HI' [FA FB]. unfold n_pos. apply inj_le. apply NoDup_incl_length.
  - apply List.NoDup_filter. apply (NoDup_map_inv snd). exact (si_unique _ HS).
  - intros [p id] Hin. apply filter_In in Hin as [Hin Hp]. unfold pos_key in Hp. cbn in Hp. apply Z.ltb_lt in Hp.
    destruct (pos_key_eligible _ p id HS Hin Hp) as (v & Hv & He & ->).
    destruct (FB id v Hv (power_pos_tokens v Hp)) as [v' Hv'].
    destruct (FA id v' Hv') as (v0 & Hv0 & Hj & Ht). rewrite Hv in Hv0. inversion Hv0; subst v0.
    destruct (eligible_same v v' Hj Ht) as [Ee Ep]. apply filter_In. split.
    + rewrite <- Ep. apply (HI' id v' I Hv'). rewrite Ee. exact He.
    + unfold pos_key. cbn. apply Z.ltb_lt. exact Hp.
Qed.

Definition set_is_eligible (s : staking) : Prop :=
  forall id, last_pow s !! id = match vals s !! id with Some v => if eligible v then Some (v_power v) else None | None => None end.

(* genesis: InitChain runs the validator-set update only *)
Lemma init_world_set g :
  wf_genesis g -> w_halted (init_world g) = None ->
  let s := stk (w_chain (init_world g)) in
  n_pos (pidx s) <= sp_max_validators (params s) -> set_is_eligible s.
Proof.
  intros Hwf. pose proof (genesis_chain_CI g Hwf) as HC. pose proof (genesis_chain_IC g) as HI. unfold init_world. fold (genesis_chain g).
  change (match apply_valset_updates (genesis_chain g) with
          | EBOk c1 upd => _ | EBHalt e => _ end) with
    (match apply_valset_updates (genesis_chain g) with
     | EBHalt e => {| w_chain := genesis_chain g; w_comet := {| c_prev := None; c_cur := ∅; c_next := ∅ |}; w_halted := Some (HEndBlock e) |}
     | EBOk c1 upd =>
       {| w_chain := with_poa c1 {| pending := []; cached_power := last_total (stk c1); abs_changed := 0 |};
          w_comet := {| c_prev := None; c_cur := apply_updates ∅ upd; c_next := apply_updates ∅ upd |}; w_halted := None |}
     end).
  destruct (apply_valset_updates (genesis_chain g)) as [c1 upd|e] eqn:E; cbn; [|discriminate]. intros _ Hcap.
  pose proof (apply_valset_updates_IC _ _ _ HI E) as HI1. pose proof (apply_valset_updates_params _ _ _ E) as P1.
  (* the frame of the first phase, as in the theorem above *)
  assert (Hc0 : n_pos (pidx (stk (genesis_chain g))) <= sp_max_validators (params (stk (genesis_chain g))) -> set_is_eligible (stk c1)).
  { intros Hc0. destruct (apply_valset_updates_last _ _ _ HC HI E Hc0) as [Hlast [FA FB]]. intros id. rewrite Hlast.
    destruct (vals (stk c1) !! id) as [v'|] eqn:Hv'.
    - destruct (FA id v' Hv') as (v & Hv & Hj & Ht). rewrite Hv. destruct (eligible_same v v' Hj Ht) as [-> ->]. reflexivity.
    - destruct (vals (stk (genesis_chain g)) !! id) as [v|] eqn:Hv; [|reflexivity]. destruct (eligible v) eqn:He; [|reflexivity]. exfalso.
      assert (Hp : 0 < v_power v) by (unfold eligible in He; lia). destruct (FB id v Hv (power_pos_tokens v Hp)) as [x Hx]. congruence. }
  apply Hc0. rewrite P1 in Hcap. eapply Z.le_trans; [|exact Hcap].
  (* without the cap hypothesis the frame is still available: EndBlocker's first phase with an unbounded cap is not needed — use monotonicity through a direct frame *)
  apply n_pos_mono; [apply HC|exact HI1|].
  clear -E. unfold apply_valset_updates in E.
  destruct (apply_loop _ _ _) as [a1|] eqn:L1; [|discriminate]. destruct (unbond_loop _ a1) as [a2|] eqn:U1; [|discriminate].
  destruct (if la_to_bonded a2 =? 0 then _ else _); [|discriminate]. inversion E; subst. clear E.
  assert (FL : forall keys maxv a a', apply_loop keys maxv a = LDone a' -> frame (stk (la_chain a)) (stk (la_chain a'))).
  { induction keys as [|[p id] ks IH]; intros maxv a a'; cbn [apply_loop]; [intros [= <-]; apply frame_refl|].
    destruct (_ <=? _); [intros [= <-]; apply frame_refl|]. destruct (vals _ !! id) as [v|] eqn:Hv; [|discriminate].
    destruct (v_jailed v); [apply IH|]. destruct (_ =? 0); [intros [= <-]; apply frame_refl|].
    pose proof (bond_validator_vals (la_chain a) id v) as (H1 & H2 & H3).
    destruct (v_status v); cbn zeta.
    - destruct (bond_validator (la_chain a) id v) as [cb vb]. cbn in H1, H2. subst vb. intros H. apply IH in H. eapply frame_trans; [|exact H]. cbn [la_chain].
      apply (frame_insert _ _ id v (set_status v Bonded) Hv); [|reflexivity|reflexivity]. destruct (match la_last a !! id with Some old => _ | None => true end); exact H1.
    - destruct (bond_validator (la_chain a) id v) as [cb vb]. cbn in H1, H2. subst vb. intros H. apply IH in H. eapply frame_trans; [|exact H]. cbn [la_chain].
      apply (frame_insert _ _ id v (set_status v Bonded) Hv); [|reflexivity|reflexivity]. destruct (match la_last a !! id with Some old => _ | None => true end); exact H1.
    - intros H. apply IH in H. eapply frame_trans; [|exact H]. cbn [la_chain]. apply frame_vals_eq. destruct (match la_last a !! id with Some old => _ | None => true end); reflexivity. }
  apply FL in L1. apply unbond_loop_last in U1 as [_ U1]. cbn in L1.
  eapply frame_trans; [exact L1|]. eapply frame_trans; [exact U1|]. apply frame_vals_eq. destruct (la_upd a2); reflexivity.
Qed.

Lemma run_block_set w b :
  CI (w_chain w) -> IC (stk (w_chain w)) ->
  (w_halted w = None -> n_pos (pidx (stk (w_chain w))) <= sp_max_validators (params (stk (w_chain w))) -> set_is_eligible (stk (w_chain w))) ->
  let w' := fst (run_block w b) in
  w_halted w' = None -> n_pos (pidx (stk (w_chain w'))) <= sp_max_validators (params (stk (w_chain w'))) -> set_is_eligible (stk (w_chain w')).
Proof.
  intros HCI HI Hset. unfold run_block. destruct (w_halted w) eqn:Hh; [cbn; rewrite Hh; discriminate|].
  set (c0 := with_clock (w_chain w) (height (w_chain w) + 1) (now (w_chain w) + b_dt b)).
  assert (H0 : CI c0) by (apply CI_clock; exact HCI). assert (Q0 : IC (stk c0)) by exact HI.
  destruct (begin_block c0 _ (b_absent b) (b_evidence b)) as [c1|e] eqn:Eb; [|cbn; discriminate].
  pose proof (begin_block_CI _ _ _ _ _ H0 Eb) as H1. pose proof (begin_block_IC _ _ _ _ _ Q0 Eb) as Q1.
  pose proof (deliver_txs_CI (b_txs b) c1 H1) as H2. pose proof (deliver_txs_IC (b_txs b) c1 Q1) as Q2.
  destruct (deliver_txs c1 (b_txs b)) as [c2 outs]. cbn in H2, Q2.
  destruct (staking_end_block c2) as [c3 upd|e] eqn:Ee; [|cbn; discriminate].
  pose proof (staking_end_block_set _ _ _ H2 Q2 Ee) as Hs.
  destruct (comet_apply _ upd); cbn; [intros _ Hcap; exact (Hs Hcap)|discriminate].
Qed.

(* In every reachable, running state in which max_validators does not bind, the last validator set consists of
   exactly the validators that are not jailed and have a positive power, each at the power of its tokens. *)
Theorem reachable_set g bs :
  wf_genesis g ->
  let w := run_world (init_world g) bs in
  w_halted w = None ->
  n_pos (pidx (stk (w_chain w))) <= sp_max_validators (params (stk (w_chain w))) ->
  set_is_eligible (stk (w_chain w)).
Proof.
  intros Hwf. pose proof (init_world_CI g Hwf) as HC. pose proof (init_world_IC g) as HI. pose proof (init_world_set g Hwf) as HS.
  revert HC HI HS. generalize (init_world g). induction bs as [|b bs IH]; cbn; intros w HC HI HS; [exact HS|].
  apply IH; [apply run_block_CI; exact HC|apply run_block_IC; exact HI|apply run_block_set; assumption].
Qed.

(* n_pos counts the eligible validators: the positive keys and the eligible records correspond one to one *)
Lemma pos_keys_are_eligible s : SI s -> IC s ->
  forall p id, (In (p, id) (pidx s) /\ 0 < p) <-> (exists v, vals s !! id = Some v /\ eligible v = true /\ p = v_power v).
Proof.
  intros HS HI p id. split.
  - intros [Hin Hp]. apply pos_key_eligible; assumption.
  - intros (v & Hv & He & ->). split; [apply (HI id v I Hv He)|unfold eligible in He; lia].
Qed.

(* =====================  without any hypothesis on max_validators: nobody is in the set who should not be  ===================== *)
Definition member_ok (s : staking) (id q : Z) : Prop :=
  exists v, vals s !! id = Some v /\ v_jailed v = false /\ q = v_power v /\ 0 < q.

Lemma member_ok_frame s s' id q : frame s s' -> member_ok s id q -> member_ok s' id q.
Proof.
  intros [FA FB] (v & Hv & Hj & Hq & Hp). subst q. destruct (FB id v Hv (power_pos_tokens v Hp)) as [v' Hv'].
  destruct (FA id v' Hv') as (v0 & Hv0 & Hj' & Ht'). rewrite Hv in Hv0. inversion Hv0; subst v0.
  exists v'. split; [exact Hv'|]. split; [congruence|]. unfold v_power in *. rewrite Ht'. auto.
Qed.

Lemma apply_loop_sound keys maxv : forall a a',
  apply_loop keys maxv a = LDone a' ->
  (forall p id, In (p, id) keys -> exists v, vals (stk (la_chain a)) !! id = Some v /\ v_jailed v = false /\ p = v_power v) ->
  (forall p id, In (p, id) keys -> 0 <= p) ->
  (forall id q, la_last a !! id = Some q -> last_pow (stk (la_chain a)) !! id = Some q) ->
  (forall id q, last_pow (stk (la_chain a)) !! id = Some q -> la_last a !! id = None -> member_ok (stk (la_chain a)) id q) ->
  (forall id q, la_last a' !! id = Some q -> last_pow (stk (la_chain a')) !! id = Some q) /\
  (forall id q, last_pow (stk (la_chain a')) !! id = Some q -> la_last a' !! id = None -> member_ok (stk (la_chain a')) id q).
Proof.
  induction keys as [|[p id] ks IH]; intros a a' Hrun K1 Knn Hagree Hgood; cbn [apply_loop] in Hrun; [inversion Hrun; subst; auto|].
  destruct (maxv <=? la_count a); [inversion Hrun; subst; auto|].
  destruct (K1 p id (or_introl eq_refl)) as (v & Hv & Hj & Hp). subst p. rewrite Hv, Hj in Hrun.
  destruct (Z.eqb_spec (v_power v) 0) as [Hz|Hnz]; [inversion Hrun; subst; auto|].
  assert (Hpos : 0 < v_power v) by (specialize (Knn (v_power v) id (or_introl eq_refl)); lia).
  set (r := match v_status v with Bonded => (la_chain a, v, 0) | _ => let '(c', v') := bond_validator (la_chain a) id v in (c', v', v_tokens v') end) in Hrun.
  assert (Hr : exists c1 v1 moved, r = (c1, v1, moved) /\ v_power v1 = v_power v /\
            (vals (stk c1) = vals (stk (la_chain a)) \/ vals (stk c1) = <[id := set_status v Bonded]> (vals (stk (la_chain a)))) /\
            last_pow (stk c1) = last_pow (stk (la_chain a))).
  { subst r. pose proof (bond_validator_vals (la_chain a) id v) as (H1 & H2 & H3).
    destruct (v_status v).
    - destruct (bond_validator (la_chain a) id v) as [c' v'']. cbn in *. subst v''. do 3 eexists. split; [reflexivity|]. split; [reflexivity|]. split; [right; exact H1|exact H3].
    - destruct (bond_validator (la_chain a) id v) as [c' v'']. cbn in *. subst v''. do 3 eexists. split; [reflexivity|]. split; [reflexivity|]. split; [right; exact H1|exact H3].
    - do 3 eexists. split; [reflexivity|]. split; [reflexivity|]. split; [left; reflexivity|reflexivity]. }
  destruct Hr as (c1 & v1 & moved & Er & Hp1 & Hvals1 & Hlp1). rewrite Er in Hrun. cbn zeta in Hrun.
  set (changed := match la_last a !! id with Some old => negb (old =? v_power v1) | None => true end) in Hrun.
  set (c2 := if changed then with_stk c1 (st_last_pow (stk c1) (<[id := v_power v1]> (last_pow (stk c1)))) else c1) in Hrun.
  assert (Hvals2 : vals (stk c2) = vals (stk c1)) by (subst c2; destruct changed; reflexivity).
  assert (Hlp2 : last_pow (stk c2) !! id = Some (v_power v) /\ forall j, j <> id -> last_pow (stk c2) !! j = last_pow (stk (la_chain a)) !! j).
  { subst c2 changed. destruct (la_last a !! id) as [old|] eqn:El.
    - destruct (Z.eqb_spec old (v_power v1)) as [->|Hne]; cbn [negb].
      + rewrite Hlp1. split; [rewrite <- Hp1; apply Hagree; exact El|auto].
      + cbn. rewrite Hlp1, Hp1. split; [apply lookup_insert|intros j Hjne; apply lookup_insert_ne; auto].
    - cbn. rewrite Hlp1, Hp1. split; [apply lookup_insert|intros j Hjne; apply lookup_insert_ne; auto]. }
  destruct Hlp2 as [Hlp2 Hlp2'].
  assert (Hframe1 : frame (stk (la_chain a)) (stk c2)).
  { destruct Hvals1 as [E|E]; [apply frame_vals_eq; congruence|]. eapply frame_insert; [exact Hv|rewrite Hvals2; exact E|reflexivity|reflexivity]. }
  match type of Hrun with apply_loop ks maxv ?x = _ => set (a1 := x) in Hrun end.
  apply (IH a1 a' Hrun).
  - intros q j Hin. destruct (K1 q j (or_intror Hin)) as (w & Hw & Hjw & Hq). cbn [a1 la_chain]. rewrite Hvals2.
    destruct Hvals1 as [E|E]; rewrite E; [eauto|]. destruct (decide (j = id)) as [->|Hne].
    + rewrite lookup_insert. rewrite Hv in Hw. inversion Hw; subst w. exists (set_status v Bonded). auto.
    + rewrite lookup_insert_ne by auto. eauto.
  - intros q j Hin. apply (Knn q j). right; exact Hin.
  - cbn [a1 la_last la_chain]. intros j q Hl. apply lookup_delete_Some in Hl as [Hne Hl]. rewrite Hlp2' by auto. apply Hagree; exact Hl.
  - cbn [a1 la_last la_chain]. intros j q Hl Hnone. destruct (decide (j = id)) as [->|Hne].
    + rewrite Hlp2 in Hl. inversion Hl; subst q. eapply member_ok_frame; [exact Hframe1|]. exists v. auto.
    + rewrite Hlp2' in Hl by auto. rewrite lookup_delete_ne in Hnone by auto. eapply member_ok_frame; [exact Hframe1|]. apply Hgood; assumption.
Qed.

Theorem apply_valset_updates_sound c c' upd :
  CI c -> apply_valset_updates c = EBOk c' upd ->
  forall id q, last_pow (stk c') !! id = Some q -> member_ok (stk c') id q.
Proof.
  intros [HS HP] Hrun. unfold apply_valset_updates in Hrun.
  set (keys := sort_by pidx_le (pidx (stk c))) in *.
  set (a0 := {| la_chain := c; la_last := last_pow (stk c); la_upd := []; la_count := 0; la_total := 0; la_to_bonded := 0 |}) in *.
  destruct (apply_loop keys _ a0) as [a1|] eqn:E1; [|discriminate].
  destruct (unbond_loop _ a1) as [a2|] eqn:E2; [|discriminate].
  assert (Hperm : forall x, In x keys -> In x (pidx (stk c))).
  { intros x H. apply (Permutation_in _ (sort_by_perm pidx_le _)) in H. exact H. }
  destruct (apply_loop_sound keys _ a0 a1 E1) as (R1 & R2).
  { intros p id Hin. apply Hperm in Hin. apply (si_sound _ HS). exact Hin. }
  { intros p id Hin. apply Hperm in Hin. destruct (si_sound _ HS p id Hin) as (v & Hv & _ & ->). apply tokens_to_power_nonneg. eapply si_tok; eauto. }
  { unfold a0; cbn [la_last la_chain]. auto. }
  { unfold a0; cbn [la_last la_chain]. intros id q H1 H2. congruence. }
  destruct (unbond_loop_last _ a1 a2 E2) as (U1 & U2).
  assert (Hfin : forall id q, last_pow (stk (la_chain a2)) !! id = Some q -> member_ok (stk (la_chain a2)) id q).
  { intros id q Hl. rewrite U1 in Hl. destruct (existsb (Z.eqb id) (sorted_keys (la_last a1))) eqn:Ex; [discriminate|].
    eapply member_ok_frame; [exact U2|]. apply R2; [exact Hl|].
    destruct (la_last a1 !! id) as [x|] eqn:El; [|reflexivity]. assert (Hs : is_Some (la_last a1 !! id)) by (rewrite El; eauto). apply in_sorted_keys in Hs. congruence. }
  destruct (if la_to_bonded a2 =? 0 then _ else _) as [b|]; [|discriminate]. inversion Hrun; subst. clear Hrun.
  destruct (la_upd a2); cbn; exact Hfin.
Qed.

Theorem staking_end_block_sound c c' upd :
  CI c -> staking_end_block c = EBOk c' upd ->
  forall id q, last_pow (stk c') !! id = Some q -> member_ok (stk c') id q.
Proof.
  intros HCI Hrun. unfold staking_end_block in Hrun. destruct (apply_valset_updates c) as [c1 u|] eqn:E1; [|discriminate].
  destruct (unbond_all_mature c1) as [c2|] eqn:E2; [|discriminate]. inversion Hrun; subst c2 u. clear Hrun.
  unfold unbond_all_mature in E2. apply mature_slots_frame in E2 as (L2 & P2 & F2).
  intros id q Hl. rewrite L2 in Hl. eapply member_ok_frame; [exact F2|]. eapply apply_valset_updates_sound; eauto.
Qed.

Definition members_ok (s : staking) : Prop := forall id q, last_pow s !! id = Some q -> member_ok s id q.

Lemma init_world_sound g : wf_genesis g -> w_halted (init_world g) = None -> members_ok (stk (w_chain (init_world g))).
Proof.
  intros Hwf. pose proof (genesis_chain_CI g Hwf) as HC. unfold init_world. fold (genesis_chain g).
  change (match apply_valset_updates (genesis_chain g) with
          | EBOk c1 upd => _ | EBHalt e => _ end) with
    (match apply_valset_updates (genesis_chain g) with
     | EBHalt e => {| w_chain := genesis_chain g; w_comet := {| c_prev := None; c_cur := ∅; c_next := ∅ |}; w_halted := Some (HEndBlock e) |}
     | EBOk c1 upd =>
       {| w_chain := with_poa c1 {| pending := []; cached_power := last_total (stk c1); abs_changed := 0 |};
          w_comet := {| c_prev := None; c_cur := apply_updates ∅ upd; c_next := apply_updates ∅ upd |}; w_halted := None |}
     end).
  destruct (apply_valset_updates (genesis_chain g)) as [c1 upd|e] eqn:E; cbn; [|discriminate]. intros _.
  exact (apply_valset_updates_sound _ _ _ HC E).
Qed.

Lemma run_block_sound w b :
  CI (w_chain w) -> (w_halted w = None -> members_ok (stk (w_chain w))) ->
  let w' := fst (run_block w b) in w_halted w' = None -> members_ok (stk (w_chain w')).
Proof.
  intros HCI Hset. unfold run_block. destruct (w_halted w) eqn:Hh; [cbn; rewrite Hh; discriminate|].
  set (c0 := with_clock (w_chain w) (height (w_chain w) + 1) (now (w_chain w) + b_dt b)).
  assert (H0 : CI c0) by (apply CI_clock; exact HCI).
  destruct (begin_block c0 _ (b_absent b) (b_evidence b)) as [c1|e] eqn:Eb; [|cbn; discriminate].
  pose proof (begin_block_CI _ _ _ _ _ H0 Eb) as H1.
  pose proof (deliver_txs_CI (b_txs b) c1 H1) as H2.
  destruct (deliver_txs c1 (b_txs b)) as [c2 outs]. cbn in H2.
  destruct (staking_end_block c2) as [c3 upd|e] eqn:Ee; [|cbn; discriminate].
  pose proof (staking_end_block_sound _ _ _ H2 Ee) as Hs.
  destruct (comet_apply _ upd); cbn; [intros _; exact Hs|discriminate].
Qed.

(* In every reachable running state — whatever max_validators is — every member of the last validator set is a
   validator that is not jailed, at the positive power of its tokens. *)
Theorem reachable_members_ok g bs :
  wf_genesis g -> let w := run_world (init_world g) bs in w_halted w = None -> members_ok (stk (w_chain w)).
Proof.
  intros Hwf. pose proof (init_world_CI g Hwf) as HC. pose proof (init_world_sound g Hwf) as HS.
  revert HC HS. generalize (init_world g). induction bs as [|b bs IH]; cbn; intros w HC HS; [exact HS|].
  apply IH; [apply run_block_CI; exact HC|apply run_block_sound; assumption].
Qed.
