(* InvComet.v — the set CometBFT holds is the chain's last validator powers, keyed by consensus key.
   Loop invariant of ApplyAndReturnValidatorSetUpdates: applying the updates emitted so far to CometBFT's set
   tracks every write the loop makes to LastValidatorPower. *)
From stdpp Require Import gmap.
Require Import Model.Base Model.Ante Model.Validate Model.Current Model.State Model.Staking Model.Slashing Model.Poa Model.App.
Require Import proofs.EvBasic proofs.Inv proofs.InvIdx proofs.L1Effects proofs.InvPres proofs.InvMsgs proofs.InvHistory.
Open Scope Z_scope.

(* CometBFT's view and the chain's view agree *)
Definition comet_rel (s : staking) (vs : gmap Z Z) : Prop :=
  forall k p, vs !! k = Some p <-> exists id v, vals s !! id = Some v /\ v_cons v = k /\ last_pow s !! id = Some p.

Lemma apply_updates_snoc m upd u : apply_updates m (upd ++ [u]) = apply_update (apply_updates m upd) u.
Proof. unfold apply_updates. rewrite fold_left_app. reflexivity. Qed.

(* ---- record-level facts the loops preserve ---- *)
Definition cons_stable (s0 s : staking) : Prop :=
  (forall id, vals s0 !! id = None <-> vals s !! id = None) /\
  (forall id v0 v, vals s0 !! id = Some v0 -> vals s !! id = Some v -> v_cons v = v_cons v0).

(* ---- main loop ---- *)
Lemma apply_loop_comet keys maxv a a' vs0 :
  loop_inv keys a ->
  comet_rel (stk (la_chain a)) (apply_updates vs0 (la_upd a)) ->
  (* the shrinking copy still agrees with the store on the ids it contains *)
  (forall id q, la_last a !! id = Some q -> last_pow (stk (la_chain a)) !! id = Some q) ->
  apply_loop keys maxv a = LDone a' ->
  comet_rel (stk (la_chain a')) (apply_updates vs0 (la_upd a')) /\
  (forall id q, la_last a' !! id = Some q -> last_pow (stk (la_chain a')) !! id = Some q).
Proof.
  revert a. induction keys as [|[p id] ks IH]; intros a Hinv Hrel Hcopy; cbn [apply_loop].
  - intros [= <-]. auto.
  - destruct (maxv <=? la_count a); [intros [= <-]; auto|].
    destruct (li_keys_have_records _ _ Hinv p id (or_introl eq_refl)) as [v Hv]. rewrite Hv.
    assert (Hks_nodup : List.NoDup (map snd ks)) by (pose proof (li_keys_nodup _ _ Hinv) as H; cbn in H; inversion H; assumption).
    assert (Hid_notin : ~ In id (map snd ks)) by (pose proof (li_keys_nodup _ _ Hinv) as H; cbn in H; inversion H; assumption).
    assert (Hinv_tail : forall a1, la_chain a1 = la_chain a -> la_last a1 = la_last a -> la_upd a1 = la_upd a -> loop_inv ks a1).
    { intros a1 E1 E2 E3. destruct Hinv as [li_keys_have_records0 li_keys_nodup0 li_cons_inj0 li_last_bonded0 li_upd_nodup0 li_upd_owner0 li_upd_nonneg0 li_tokens0]. constructor; rewrite ?E1, ?E2, ?E3; auto.
      - intros q i Hin. apply (li_keys_have_records0 q i). right; exact Hin.
      - intros k q Hin. destruct (li_upd_owner0 k q Hin) as (i & vi & ? & ? & Hn & ?). exists i, vi. repeat split; auto.
        intros Hc. apply Hn. cbn. right; exact Hc. }
    destruct (v_jailed v) eqn:Hj.
    { apply IH; auto. }
    destruct (Z.eqb_spec (v_power v) 0) as [Hz|Hnz]; [intros [= <-]; auto|].
    set (r := match v_status v with Bonded => (la_chain a, v, 0) | _ => let '(c', v') := bond_validator (la_chain a) id v in (c', v', v_tokens v') end).
    assert (Hr : exists c1 v1 moved, r = (c1, v1, moved) /\ v_cons v1 = v_cons v /\ v_tokens v1 = v_tokens v /\ v_status v1 = Bonded /\
                 vals (stk c1) = <[id := v1]> (vals (stk (la_chain a))) /\ last_pow (stk c1) = last_pow (stk (la_chain a))).
    { subst r. destruct (v_status v) eqn:Es.
      - destruct (bond_validator (la_chain a) id v) as [c' v'] eqn:Eb.
        pose proof (bond_validator_vals (la_chain a) id v) as (H1 & H2 & H3). rewrite Eb in H1, H2, H3. cbn in *. subst v'.
        exists c', (set_status v Bonded), (v_tokens (set_status v Bonded)). repeat split; auto.
      - destruct (bond_validator (la_chain a) id v) as [c' v'] eqn:Eb.
        pose proof (bond_validator_vals (la_chain a) id v) as (H1 & H2 & H3). rewrite Eb in H1, H2, H3. cbn in *. subst v'.
        exists c', (set_status v Bonded), (v_tokens (set_status v Bonded)). repeat split; auto.
      - exists (la_chain a), v, 0. repeat split; auto. rewrite insert_id; auto. }
    destruct Hr as (c1 & v1 & moved & -> & Hc1 & Ht1 & Hs1 & Hvals1 & Hlast1). cbn zeta.
    set (pw := v_power v1).
    assert (Hpw : pw <> 0) by (unfold pw, v_power; rewrite Ht1; exact Hnz).
    set (changed := match la_last a !! id with Some old => negb (old =? pw) | None => true end).
    set (c2 := if changed then with_stk c1 (st_last_pow (stk c1) (<[id := pw]> (last_pow (stk c1)))) else c1).
    set (a1 := {| la_chain := c2; la_last := delete id (la_last a);
                  la_upd := if changed then la_upd a ++ [(v_cons v1, pw)] else la_upd a;
                  la_count := la_count a + 1; la_total := la_total a + pw; la_to_bonded := la_to_bonded a + moved |}).
    assert (Hvals2 : vals (stk c2) = <[id := v1]> (vals (stk (la_chain a)))) by (subst c2; destruct changed; cbn; exact Hvals1).
    (* re-derive the loop invariant for the tail from the proved step lemma *)
    assert (Hinv1 : loop_inv ks a1).
    {
        destruct Hinv as [li_keys_have_records0 li_keys_nodup0 li_cons_inj0 li_last_bonded0 li_upd_nodup0 li_upd_owner0 li_upd_nonneg0 li_tokens0]. subst a1. constructor; cbn [la_chain la_last la_upd]; auto.
        + intros q i Hin. rewrite Hvals2. destruct (decide (i = id)) as [->|Hne]; [rewrite lookup_insert; eauto|].
          rewrite lookup_insert_ne by auto. apply (li_keys_have_records0 q i). right; exact Hin.
        + unfold cons_inj. rewrite Hvals2. eapply cons_inj_insert_same_cons; [exact li_cons_inj0|exact Hv|exact Hc1|reflexivity].
        + intros i q Hl. apply lookup_delete_Some in Hl as [Hne Hl]. destruct (li_last_bonded0 i q Hl) as (vi & Hvi & Hsi).
          exists vi. rewrite Hvals2, lookup_insert_ne by auto. auto.
        + destruct changed; [|exact li_upd_nodup0]. rewrite map_app. cbn. apply nodup_snoc; [|exact li_upd_nodup0].
          intros Hin. apply in_map_iff in Hin as ([k q] & Hk & Hin). cbn in Hk. subst k.
          destruct (li_upd_owner0 _ _ Hin) as (i & vi & Hvi & Hci & Hni & _).
          assert (i = id) by (eapply li_cons_inj0; eauto; congruence). subst i. apply Hni. cbn. left; reflexivity.
        + intros k q Hin.
          assert (Hold : In (k, q) (la_upd a) -> exists i vi, vals (stk c2) !! i = Some vi /\ v_cons vi = k /\ ~ In i (map snd ks) /\ delete id (la_last a) !! i = None).
          { intros Hin'. destruct (li_upd_owner0 _ _ Hin') as (i & vi & Hvi & Hci & Hni & Hli).
            assert (i <> id) by (intros ->; apply Hni; cbn; left; reflexivity).
            exists i, vi. rewrite Hvals2, lookup_insert_ne by auto. repeat split; auto.
            - intros Hc. apply Hni. cbn. right; exact Hc.
            - rewrite lookup_delete_ne by auto. exact Hli. }
          destruct changed; [|exact (Hold Hin)].
          apply in_app_or in Hin as [Hin|[Heq|[]]]; [exact (Hold Hin)|]. inversion Heq; subst k q.
          exists id, v1. rewrite Hvals2, lookup_insert. repeat split; auto. apply lookup_delete.
        + intros k q Hin. destruct changed; [|eauto]. apply in_app_or in Hin as [Hin|[Heq|[]]]; [eauto|].
          inversion Heq; subst. unfold pw, v_power. apply tokens_to_power_nonneg. rewrite Ht1. eapply li_tokens0; eauto.
        + intros i vi. rewrite Hvals2. destruct (decide (i = id)) as [->|Hne].
          * rewrite lookup_insert. intros [= <-]. rewrite Ht1. eapply li_tokens0; eauto.
          * rewrite lookup_insert_ne by auto. apply li_tokens0. }
    apply IH; [exact Hinv1| |].
    + (* comet_rel after the step *)
      subst a1. cbn [la_chain la_upd].
      assert (Hlp2 : last_pow (stk c2) = if changed then <[id := pw]> (last_pow (stk (la_chain a))) else last_pow (stk (la_chain a))).
      { subst c2. destruct changed; cbn; rewrite Hlast1; reflexivity. }
      intros k q. destruct changed eqn:Ech.
      * rewrite apply_updates_snoc. unfold apply_update. cbn [fst snd]. destruct (Z.eqb_spec pw 0); [contradiction|].
        rewrite Hlp2, Hvals2. destruct (decide (k = v_cons v1)) as [->|Hnk].
        -- rewrite lookup_insert. split.
           ++ intros [= <-]. exists id, v1. rewrite !lookup_insert. auto.
           ++ intros (i & vi & Hvi & Hci & Hli).
              assert (i = id).
              { destruct (decide (i = id)) as [->|Hne]; [reflexivity|]. rewrite lookup_insert_ne in Hvi by auto.
                eapply (li_cons_inj _ _ Hinv); eauto. congruence. }
              subst i. rewrite lookup_insert in Hli. exact Hli.
        -- rewrite lookup_insert_ne by auto. rewrite (Hrel k q). split.
           ++ intros (i & vi & Hvi & Hci & Hli). assert (i <> id) by (intros ->; rewrite Hv in Hvi; inversion Hvi; subst; congruence).
              exists i, vi. rewrite !lookup_insert_ne by auto. auto.
           ++ intros (i & vi & Hvi & Hci & Hli). assert (i <> id) by (intros ->; rewrite lookup_insert in Hvi; inversion Hvi; subst; congruence).
              exists i, vi. rewrite !lookup_insert_ne in * by auto. auto.
      * (* unchanged: the last power already equals the new one *)
        rewrite Hlp2, Hvals2. rewrite (Hrel k q). split.
        -- intros (i & vi & Hvi & Hci & Hli). destruct (decide (i = id)) as [->|Hne].
           ++ exists id, v1. rewrite lookup_insert. rewrite Hv in Hvi. inversion Hvi; subst. repeat split; auto.
           ++ exists i, vi. rewrite lookup_insert_ne by auto. auto.
        -- intros (i & vi & Hvi & Hci & Hli). destruct (decide (i = id)) as [->|Hne].
           ++ rewrite lookup_insert in Hvi. inversion Hvi; subst. exists id, v. repeat split; auto; congruence.
           ++ rewrite lookup_insert_ne in Hvi by auto. exists i, vi. auto.
    + subst a1. cbn [la_chain la_last]. intros i q Hl. apply lookup_delete_Some in Hl as [Hne Hl].
      subst c2. destruct changed; cbn; rewrite ?Hlast1; [rewrite lookup_insert_ne by auto|]; apply Hcopy; exact Hl.
Qed.

(* ---- the unbonding loop ---- *)
Lemma unbond_loop_comet ids a a' vs0 :
  List.NoDup ids ->
  (forall id, In id ids -> exists v, vals (stk (la_chain a)) !! id = Some v /\ v_status v = Bonded) ->
  cons_inj (stk (la_chain a)) ->
  comet_rel (stk (la_chain a)) (apply_updates vs0 (la_upd a)) ->
  unbond_loop ids a = LDone a' ->
  comet_rel (stk (la_chain a')) (apply_updates vs0 (la_upd a')).
Proof.
  revert a. induction ids as [|id rest IH]; intros a Hnd Hb Hinj Hrel; cbn [unbond_loop]; [intros [= <-]; exact Hrel|].
  destruct (Hb id (or_introl eq_refl)) as (v & Hv & Hs). rewrite Hv, Hs. cbn [status_eqb negb].
  destruct (begin_unbonding (la_chain a) id v) as [c1 v1] eqn:Eb.
  pose proof (begin_unbonding_vals (la_chain a) id v) as (v' & Hsnd & Hc' & Ht' & Hvals' & Hlp'). rewrite Eb in Hsnd, Hvals', Hlp'. cbn in Hsnd, Hvals', Hlp'. subst v'.
  inversion Hnd as [|? ? Hnotin Hnd']; subst.
  apply IH; cbn [la_chain la_upd]; auto.
  - intros i Hi. cbn. rewrite Hvals'. assert (i <> id) by (intros ->; contradiction). rewrite lookup_insert_ne by auto. apply Hb. right; exact Hi.
  - unfold cons_inj. cbn. rewrite Hvals'. eapply cons_inj_insert_same_cons; [exact Hinj|exact Hv|exact Hc'|reflexivity].
  - cbn. rewrite apply_updates_snoc. unfold apply_update. cbn [fst snd]. rewrite Z.eqb_refl.
    unfold comet_rel. cbn. intros k q. rewrite Hvals', Hlp'. destruct (decide (k = v_cons v1)) as [->|Hnk].
    + rewrite lookup_delete. split; [discriminate|]. intros (i & vi & Hvi & Hci & Hli). exfalso.
      assert (i = id).
      { destruct (decide (i = id)) as [->|Hne]; [reflexivity|]. rewrite lookup_insert_ne in Hvi by auto.
        eapply Hinj; eauto. congruence. }
      subst i. rewrite lookup_delete in Hli. discriminate.
    + rewrite lookup_delete_ne by auto. rewrite (Hrel k q). split.
      * intros (i & vi & Hvi & Hci & Hli). assert (i <> id) by (intros ->; rewrite Hv in Hvi; inversion Hvi; subst; congruence).
        exists i, vi. rewrite lookup_insert_ne, lookup_delete_ne by auto. auto.
      * intros (i & vi & Hvi & Hci & Hli). assert (i <> id) by (intros ->; rewrite lookup_delete in Hli; discriminate).
        exists i, vi. rewrite lookup_insert_ne in Hvi by auto. rewrite lookup_delete_ne in Hli by auto. auto.
Qed.

(* ---- CometBFT's two-phase application equals applying the updates one by one (distinct keys) ---- *)
Definition lookup_upd (k : Z) (upd : list (Z * Z)) : option Z := snd <$> find (fun u => fst u =? k) upd.

Lemma lookup_upd_in k upd p : List.NoDup (map fst upd) -> In (k, p) upd -> lookup_upd k upd = Some p.
Proof.
  unfold lookup_upd. induction upd as [|[k' p'] upd IH]; cbn; [intros _ []|]. intros Hnd [Heq|Hin].
  - inversion Heq; subst. rewrite Z.eqb_refl. reflexivity.
  - inversion Hnd; subst. destruct (Z.eqb_spec k' k) as [->|Hne]; [exfalso; apply H1; apply in_map_iff; exists (k, p); auto|]. apply IH; auto.
Qed.

Lemma lookup_upd_none k upd : lookup_upd k upd = None <-> ~ In k (map fst upd).
Proof.
  unfold lookup_upd. induction upd as [|[k' p'] upd IH]; cbn; [tauto|].
  destruct (Z.eqb_spec k' k) as [->|Hne]; cbn; [split; [discriminate|tauto]|]. rewrite IH. tauto.
Qed.

Lemma lookup_upd_some k upd p : lookup_upd k upd = Some p -> In (k, p) upd.
Proof.
  unfold lookup_upd. induction upd as [|[k' p'] upd IH]; cbn; [discriminate|].
  destruct (Z.eqb_spec k' k) as [->|Hne]; cbn; [intros [= <-]; left; reflexivity|]. intros H. right. apply IH; exact H.
Qed.

Lemma apply_updates_lookup upd : forall m k,
  List.NoDup (map fst upd) ->
  apply_updates m upd !! k = match lookup_upd k upd with Some p => if p =? 0 then None else Some p | None => m !! k end.
Proof.
  induction upd as [|[k' p'] upd IH]; intros m k Hnd; [reflexivity|].
  inversion Hnd as [|? ? Hn Hnd']; subst. change (apply_updates m ((k', p') :: upd)) with (apply_updates (apply_update m (k', p')) upd).
  rewrite IH by exact Hnd'. unfold lookup_upd at 2. cbn [find fst]. destruct (Z.eqb_spec k' k) as [->|Hne].
  - assert (Hl : lookup_upd k upd = None) by (apply lookup_upd_none; exact Hn). rewrite Hl. cbn.
    unfold apply_update. cbn. destruct (p' =? 0); [apply lookup_delete|apply lookup_insert].
  - fold (lookup_upd k upd). destruct (lookup_upd k upd); [reflexivity|].
    unfold apply_update. cbn. destruct (p' =? 0); [apply lookup_delete_ne|apply lookup_insert_ne]; auto.
Qed.

Lemma fold_delete_lookup (ds : list (Z * Z)) : forall (m : gmap Z Z) k,
  fold_left (fun m u => delete (fst u) m) ds m !! k = if existsb (Z.eqb k) (map fst ds) then None else m !! k.
Proof.
  induction ds as [|[k' p'] ds IH]; intros m k; cbn [fold_left map fst existsb]; [reflexivity|].
  rewrite IH. destruct (existsb (Z.eqb k) (map fst ds)); [rewrite orb_true_r; reflexivity|]. rewrite orb_false_r.
  destruct (Z.eqb_spec k k') as [->|Hne]; [apply lookup_delete|apply lookup_delete_ne; auto].
Qed.

Lemma existsb_eqb_in k l : existsb (Z.eqb k) l = true <-> In k l.
Proof.
  rewrite existsb_exists. split; [intros (x & Hx & He); apply Z.eqb_eq in He; subst; exact Hx|intros H; exists k; split; [exact H|apply Z.eqb_refl]].
Qed.

Lemma fold_insert_lookup us : forall (m : gmap Z Z) k,
  List.NoDup (map fst us) ->
  fold_left (fun m u => <[fst u := snd u]> m) us m !! k = match lookup_upd k us with Some p => Some p | None => m !! k end.
Proof.
  induction us as [|[k' p'] us IH]; intros m k Hnd; [reflexivity|].
  inversion Hnd as [|? ? Hn Hnd']; subst. cbn [fold_left fst snd]. rewrite IH by exact Hnd'.
  unfold lookup_upd at 2. cbn [find fst]. destruct (Z.eqb_spec k' k) as [->|Hne].
  - assert (Hl : lookup_upd k us = None) by (apply lookup_upd_none; exact Hn). rewrite Hl. cbn. apply lookup_insert.
  - fold (lookup_upd k us). destruct (lookup_upd k us); [reflexivity|]. apply lookup_insert_ne; auto.
Qed.

Lemma nodup_filter_fst (f : Z * Z -> bool) upd : List.NoDup (map fst upd) -> List.NoDup (map fst (filter f upd)).
Proof. apply nodup_filter_map. Qed.

Lemma comet_apply_is_apply_updates vs upd nn :
  List.NoDup (map fst upd) -> comet_apply vs upd = inl nn -> nn = apply_updates vs upd.
Proof.
  intros Hnd. unfold comet_apply. destruct upd as [|u0 upd0] eqn:Eu; [intros [= <-]; reflexivity|]. rewrite <- Eu in *. clear Eu u0 upd0.
  cbn zeta. repeat match goal with |- context [if ?b then inr _ else _] => destruct b; [discriminate|] end.
  set (deletes := filter (fun u : Z * Z => snd u =? 0) upd). set (updates := filter (fun u : Z * Z => negb (snd u =? 0)) upd).
  repeat match goal with |- context [if ?b then inr _ else _] => destruct b; [discriminate|] end.
  intros [= <-]. apply map_eq. intros k.
  rewrite fold_insert_lookup by (apply nodup_filter_fst; exact Hnd). rewrite fold_delete_lookup. rewrite apply_updates_lookup by exact Hnd.
  destruct (lookup_upd k upd) as [p|] eqn:El.
  - apply lookup_upd_some in El. destruct (Z.eqb_spec p 0) as [->|Hnz].
    + assert (Hd : In (k, 0) deletes) by (apply filter_In; auto).
      assert (Hu : lookup_upd k updates = None).
      { apply lookup_upd_none. intros Hin. apply in_map_iff in Hin as ([k2 p2] & Hk & Hin). cbn in Hk. subst k2. apply filter_In in Hin as [Hin Hp].
        assert (p2 = 0); [|subst; discriminate]. pose proof (lookup_upd_in k upd p2 Hnd Hin) as E1. pose proof (lookup_upd_in k upd 0 Hnd El) as E2. congruence. }
      rewrite Hu. rewrite (proj2 (existsb_eqb_in k (map fst deletes))); [reflexivity|]. apply in_map_iff. exists (k, 0). auto.
    + assert (Hu : In (k, p) updates) by (apply filter_In; split; [exact El|]; cbn; apply negb_true_iff; apply Z.eqb_neq; exact Hnz).
      rewrite (lookup_upd_in k updates p); [reflexivity|apply nodup_filter_fst; exact Hnd|exact Hu].
  - apply lookup_upd_none in El.
    assert (Hu : lookup_upd k updates = None).
    { apply lookup_upd_none. intros Hin. apply El. apply in_map_iff in Hin as (x & Hx & Hin). apply filter_In in Hin as [Hin _]. apply in_map_iff. eauto. }
    rewrite Hu. destruct (existsb (Z.eqb k) (map fst deletes)) eqn:Ex; [|reflexivity]. exfalso. apply existsb_eqb_in in Ex. revert Ex.
    intros Hin. apply El. apply in_map_iff in Hin as (x & Hx & Hin). apply filter_In in Hin as [Hin _]. apply in_map_iff. eauto.
Qed.

(* ---- ApplyAndReturnValidatorSetUpdates keeps CometBFT and the chain in step ---- *)
Theorem apply_valset_updates_comet c c' upd vs :
  CI c -> comet_rel (stk c) vs -> apply_valset_updates c = EBOk c' upd ->
  comet_rel (stk c') (apply_updates vs upd).
Proof.
  intros [HS HP] Hrel. unfold apply_valset_updates.
  set (keys := sort_by pidx_le (pidx (stk c))).
  set (a0 := {| la_chain := c; la_last := last_pow (stk c); la_upd := []; la_count := 0; la_total := 0; la_to_bonded := 0 |}).
  assert (Hinv0 : loop_inv keys a0).
  { constructor; cbn.
    - intros p id Hin. apply (Permutation_in _ (sort_by_perm pidx_le _)) in Hin. destruct (si_sound _ HS p id Hin) as (v & Hv & _). eauto.
    - eapply Permutation_NoDup; [|exact (si_unique _ HS)]. apply Permutation_map. symmetry. apply sort_by_perm.
    - exact (si_cons _ HS).
    - exact (si_last _ HS).
    - constructor.
    - intros ? ? [].
    - intros ? ? [].
    - exact (si_tok _ HS). }
  destruct (apply_loop_inv keys (sp_max_validators (params (stk c))) a0 Hinv0) as (a1 & E1 & Hinv1). rewrite E1.
  destruct (apply_loop_comet keys (sp_max_validators (params (stk c))) a0 a1 vs Hinv0) as [Hrel1 Hcopy1]; [exact Hrel|auto|exact E1|].
  destruct (sorted_keys_spec (la_last a1)) as [Hnd Hmem].
  destruct (unbond_loop (sorted_keys (la_last a1)) a1) as [a2|] eqn:E2; [|discriminate].
  assert (Hrel2 : comet_rel (stk (la_chain a2)) (apply_updates vs (la_upd a2))).
  { eapply unbond_loop_comet; [exact Hnd| |exact (li_cons_inj _ _ Hinv1)|exact Hrel1|exact E2].
    intros id Hin. apply Hmem in Hin as [q Hq]. eapply (li_last_bonded _ _ Hinv1); eauto. }
  destruct (if la_to_bonded a2 =? 0 then _ else _) as [b|]; [|discriminate]. intros [= <- <-].
  destruct (la_upd a2); exact Hrel2.
Qed.

(* ---- operations inside a block leave the relation alone ---- *)
(* same last powers, and the members' records keep their ids and consensus keys *)
Definition members_stable (s s' : staking) : Prop :=
  last_pow s' = last_pow s /\
  forall id p, last_pow s !! id = Some p ->
    (forall v, vals s !! id = Some v -> exists v', vals s' !! id = Some v' /\ v_cons v' = v_cons v) /\
    (forall v', vals s' !! id = Some v' -> exists v, vals s !! id = Some v /\ v_cons v = v_cons v').

Lemma members_stable_refl s : members_stable s s.
Proof. split; [reflexivity|]. intros id p _. split; intros v H; eauto. Qed.

Lemma members_stable_trans s1 s2 s3 : members_stable s1 s2 -> members_stable s2 s3 -> members_stable s1 s3.
Proof.
  intros [L1 M1] [L2 M2]. split; [congruence|]. intros id p Hp. destruct (M1 id p Hp) as [A1 B1].
  assert (Hp2 : last_pow s2 !! id = Some p) by (rewrite L1; exact Hp). destruct (M2 id p Hp2) as [A2 B2]. split.
  - intros v Hv. destruct (A1 v Hv) as (v2 & Hv2 & E2). destruct (A2 v2 Hv2) as (v3 & Hv3 & E3). exists v3. split; [exact Hv3|congruence].
  - intros v3 Hv3. destruct (B2 v3 Hv3) as (v2 & Hv2 & E2). destruct (B1 v2 Hv2) as (v1 & Hv1 & E1). exists v1. split; [exact Hv1|congruence].
Qed.

Lemma members_stable_of_same_ids s s' : last_pow s' = last_pow s -> same_ids_cons s s' -> members_stable s s'.
Proof.
  intros Hl [A B]. split; [exact Hl|]. intros id p _. split.
  - intros v Hv. destruct (vals s' !! id) as [v'|] eqn:Hv'.
    + destruct (B id v' Hv') as (v0 & Hv0 & E). rewrite Hv in Hv0. inversion Hv0; subst. eauto.
    + apply A in Hv'. congruence.
  - intros v' Hv'. apply B; exact Hv'.
Qed.

Lemma comet_rel_stable s s' vs : members_stable s s' -> comet_rel s vs -> comet_rel s' vs.
Proof.
  intros [Hl Hm] Hrel k p. rewrite (Hrel k p). rewrite Hl. split.
  - intros (id & v & Hv & Hc & Hp). destruct (Hm id p Hp) as [A _]. destruct (A v Hv) as (v' & Hv' & E). exists id, v'. repeat split; auto. congruence.
  - intros (id & v' & Hv' & Hc & Hp). destruct (Hm id p Hp) as [_ B]. destruct (B v' Hv') as (v & Hv & E). exists id, v. repeat split; auto. congruence.
Qed.

(* ---- every in-block operation is members-stable ---- *)
Notation MS c c' := (members_stable (stk c) (stk c')).

Lemma slash_MS c k p f c' : slash c k p f = Some c' -> MS c c'.
Proof.
  intros H. apply members_stable_of_same_ids; [|eapply slash_same_ids; eauto].
  apply slash_frame in H as (_ & _ & _ & _ & _ & _ & Hl & _). exact Hl.
Qed.

Lemma jail_MS s k s' : jail s k = Some s' -> members_stable s s'.
Proof.
  intros H. apply members_stable_of_same_ids; [|eapply jail_same_ids; eauto].
  unfold jail in H. destruct (by_cons s !! k) as [id|]; [|discriminate]. destruct (vals s !! id) as [v|]; [|discriminate].
  destruct (v_jailed v); [discriminate|]. inversion H; reflexivity.
Qed.

Lemma unjail_MS s k s' : unjail s k = Some s' -> members_stable s s'.
Proof.
  intros H. apply members_stable_of_same_ids; [|eapply unjail_same_ids; eauto].
  unfold unjail in H. destruct (by_cons s !! k) as [id|]; [|discriminate]. destruct (vals s !! id) as [v|]; [|discriminate].
  destruct (negb _); [discriminate|]. inversion H. unfold set_index, set_validator. cbn. reflexivity.
Qed.

Lemma handle_signature_MS c k p sg c' : handle_signature c k p sg = Some c' -> MS c c'.
Proof.
  unfold handle_signature. destruct (by_cons (stk c) !! k) as [id|]; [|discriminate].
  destruct (vals (stk c) !! id) as [v|]; [|discriminate]. destruct (v_jailed v); [intros [= <-]; apply members_stable_refl|].
  destruct (infos (sl c) !! k) as [i|]; [|discriminate].
  destruct (if negb _ && negb sg then _ else _) as [bm' cnt].
  destruct (_ && _).
  - destruct (slash c k p _) as [c1|] eqn:Es; [|discriminate]. destruct (jail (stk c1) k) as [s2|] eqn:Ej; [|discriminate].
    intros [= <-]. cbn. eapply members_stable_trans; [eapply slash_MS; eauto|eapply jail_MS; eauto].
  - intros [= <-]. apply members_stable_refl.
Qed.

Lemma handle_votes_MS votes absent c c' : handle_votes votes absent c = Some c' -> MS c c'.
Proof.
  revert c. induction votes as [|[k p] vs IH]; cbn; intros c; [intros [= <-]; apply members_stable_refl|].
  destruct (handle_signature c k p _) as [c1|] eqn:E; [|discriminate]. intros H. eapply members_stable_trans; [eapply handle_signature_MS; eauto|apply IH; exact H].
Qed.

Lemma handle_evidence_MS c e c' : handle_evidence c e = Some c' -> MS c c'.
Proof.
  intros H. apply handle_evidence_cases in H as [->|(id & v & i & c1 & s2 & _ & _ & _ & _ & _ & _ & Es & Hj & ->)]; [apply members_stable_refl|].
  cbn. destruct Hj as [[_ ->]|[_ Ej]]; [eapply slash_MS; eauto|]. eapply members_stable_trans; [eapply slash_MS; eauto|eapply jail_MS; eauto].
Qed.

Lemma handle_evidences_MS evs c c' : handle_evidences evs c = Some c' -> MS c c'.
Proof.
  apply (handle_evidences_rel (fun a b => MS a b)); [intros; apply members_stable_refl|intros; eapply members_stable_trans; eauto|].
  intros; eapply handle_evidence_MS; eauto.
Qed.

Lemma begin_block_MS c votes absent evs c' : begin_block c votes absent evs = inl c' -> MS c c'.
Proof.
  unfold begin_block. destruct (_ && _); [discriminate|]. destruct (handle_votes votes absent c) as [c1|] eqn:E; [|discriminate].
  destruct (handle_evidences evs c1) as [c2|] eqn:E2; [|discriminate]. intros [= <-].
  apply handle_votes_MS in E. apply handle_evidences_MS in E2. unfold poa_begin_block.
  destruct (1 <? height c2); eapply members_stable_trans; eauto.
Qed.

Lemma update_bonded_pool_MS c c' : update_bonded_pool c = MOk c' -> MS c c'.
Proof. intros H. apply update_bonded_pool_stk in H as (-> & _). apply members_stable_refl. Qed.

Lemma set_poa_power_last_pow c val n c' : set_poa_power c val n = MOk c' -> last_pow (stk c') = last_pow (stk c).
Proof.
  unfold set_poa_power. destruct (vals (stk c) !! val) as [v|]; [|discriminate]. destruct (_ =? _); [discriminate|].
  destruct (_ && _).
  - destruct (slash _ _ _ _) as [c2|] eqn:Es; [|discriminate]. cbn [mbind].
    intros H. apply update_validator_set_spec in H as (_ & _ & _ & Hlp & _). cbn in Hlp. rewrite Hlp.
    apply slash_frame in Es as (_ & _ & _ & _ & _ & _ & Hl & _). exact Hl.
  - cbn [mbind]. intros H. apply update_validator_set_spec in H as (_ & _ & _ & Hlp & _). cbn in Hlp. rewrite Hlp.
    unfold set_index, del_index. cbn. destruct (v_jailed v); reflexivity.
Qed.

Lemma set_poa_power_MS c val n c' : SI (stk c) -> set_poa_power c val n = MOk c' -> MS c c'.
Proof.
  intros HS H. apply members_stable_of_same_ids; [eapply set_poa_power_last_pow; eauto|]. eapply set_poa_power_same_ids; eauto.
Qed.

Lemma accept_MS c p c' : SI (stk c) -> PI c -> In p (pending (poa c)) -> accept_new_validator c p = MOk c' -> MS c c'.
Proof.
  intros HS HP Hin. unfold accept_new_validator. intros H. apply update_bonded_pool_stk in H as (Hs & _).
  assert (Hnv : vals (stk c) !! p_oper p = None) by (apply (pi_not_val _ HP); exact Hin).
  assert (Hlp : last_pow (stk c') = last_pow (stk c)) by (rewrite Hs; reflexivity).
  assert (Hvals : exists vn, vals (stk c') = <[p_oper p := vn]> (vals (stk c))) by (rewrite Hs; cbn; eexists; reflexivity).
  destruct Hvals as [vn Hvals].
  split; [exact Hlp|]. intros id q Hq.
  assert (id <> p_oper p). { intros ->. destruct (si_last _ HS _ _ Hq) as (v & Hv & _). congruence. }
  rewrite Hvals. split; intros v Hv.
  - exists v. rewrite lookup_insert_ne by auto. auto.
  - rewrite lookup_insert_ne in Hv by auto. eauto.
Qed.

Lemma exec_msg_MS c m c' : CI c -> exec_msg c m = MOk c' -> MS c c'.
Proof.
  intros [HS HP]. destruct m as [s v p u|s v|s v|v k mon r mx ch msd|s p|v|s|s t]; cbn.
  - (* SetPower *)
    unfold msg_set_power. destruct (negb (is_admin s)); [discriminate|].
    destruct (setpower_validate (0 <=? v) p) as [[]|] eqn:Ev; [|discriminate].
    set (r1 := match find_pending v (pending (poa c)) with Some q => accept_new_validator c q | None => ensure_active c v end).
    assert (H1 : forall c1, r1 = MOk c1 -> MS c c1 /\ CI c1).
    { subst r1. intros c1. destruct (find_pending v (pending (poa c))) as [q|] eqn:Ef.
      - apply find_pending_in in Ef as [Hin _]. intros Ha. split; [eapply accept_MS; eauto|].
        destruct (accept_SI_PI _ _ _ HS HP Hin Ha). split; assumption.
      - intros Ha. apply ensure_active_id in Ha as ->. split; [apply members_stable_refl|split; assumption]. }
    destruct r1 as [c1|]; [|discriminate]. cbn [mbind]. destruct (H1 c1 eq_refl) as [M1 [HS1 HP1]].
    destruct (set_poa_power c1 v (cast_i64 p)) as [c2|] eqn:E2; [|discriminate]. cbn [mbind].
    pose proof (set_poa_power_MS _ _ _ _ HS1 E2) as M2.
    assert (Hfin : forall c3, update_bonded_pool c2 = MOk c3 -> MS c c3).
    { intros c3 H3. eapply members_stable_trans; [exact M1|]. eapply members_stable_trans; [exact M2|]. eapply update_bonded_pool_MS; eauto. }
    destruct (negb u && (1 <? height c2)).
    + destruct (_ =? 0); [discriminate|]. destruct (30 <=? _); [discriminate|]. apply Hfin.
    + apply Hfin.
  - (* RemoveValidator *)
    unfold msg_remove_validator. destruct (if is_admin s then None else _); [discriminate|]. destruct (_ =? 0); [discriminate|].
    destruct (vals (stk c) !! v) as [vv|]; [|discriminate]. destruct (negb _); [discriminate|].
    destruct (set_poa_power c v 0) as [c1|] eqn:E; [|discriminate]. cbn [mbind].
    intros H. eapply members_stable_trans; [eapply set_poa_power_MS; eauto|]. apply update_bonded_pool_MS in H. exact H.
  - unfold msg_remove_pending. destruct (negb _); [discriminate|]. intros [= <-]. apply members_stable_refl.
  - destruct r as [r|], mx as [mx|], ch as [ch|]; try discriminate.
    unfold msg_create_validator. destruct (poa_create_validate _); try discriminate. destruct (_ <? _); [discriminate|].
    destruct (bool_decide _); [discriminate|]. destruct (bool_decide _); [discriminate|]. destruct (pending_conflict _ _ _); [discriminate|].
    destruct (negb _); [discriminate|]. intros H. apply update_bonded_pool_MS in H. exact H.
  - unfold msg_update_params. destruct (negb _); [discriminate|]. destruct (negb _); [discriminate|]. destruct (negb _); [discriminate|].
    intros [= <-]. split; [reflexivity|]. intros id q _. split; intros w Hw; eauto.
  - unfold msg_unjail. destruct (vals (stk c) !! v) as [vv|]; [|discriminate]. destruct (dels (stk c) !! v); [|discriminate].
    destruct (_ =? 0); [discriminate|]. destruct (_ <? _); [discriminate|]. destruct (negb _); [discriminate|].
    destruct (match infos _ !! _ with Some _ => _ | None => _ end); [discriminate|].
    destruct (unjail (stk c) (v_cons vv)) as [s'|] eqn:E; [|discriminate]. intros [= <-]. cbn. eapply unjail_MS; eauto.
  - intros [= <-]. apply members_stable_refl.
  - intros [= <-]. apply members_stable_refl.
Qed.

Lemma exec_msgs_MS ms c c' : CI c -> exec_msgs c ms = MOk c' -> MS c c'.
Proof.
  revert c. induction ms as [|m ms IH]; cbn; intros c HCI; [intros [= <-]; apply members_stable_refl|].
  destruct (exec_msg c m) as [c1|] eqn:E; [|discriminate]. cbn. intros H.
  eapply members_stable_trans; [eapply exec_msg_MS; eauto|]. apply IH; [eapply exec_msg_CI; eauto|exact H].
Qed.

Lemma deliver_tx_MS c tx : CI c -> MS c (fst (deliver_tx c tx)).
Proof.
  intros HCI. unfold deliver_tx. destruct (cur_stk_decorator _ _); [apply members_stable_refl|]. destruct (cur_wd_decorator _ _); [apply members_stable_refl|].
  destruct (cur_comm_decorator _ _ _ _ _); try apply members_stable_refl.
  destruct (existsb is_tree tx); [apply members_stable_refl|].
  destruct (exec_msgs _ tx) as [c2|] eqn:E; [|apply members_stable_refl]. cbn.
  assert (Hb : CI (bump_seqs c (dedup (map msg_sender tx)))) by (apply CI_seqs; exact HCI).
  apply (exec_msgs_MS _ _ _ Hb E).
Qed.

Lemma deliver_txs_MS txs c : CI c -> MS c (fst (deliver_txs c txs)).
Proof.
  revert c. induction txs as [|tx txs IH]; cbn; intros c HCI; [apply members_stable_refl|].
  pose proof (deliver_tx_MS c tx HCI) as M1. pose proof (deliver_tx_CI c tx HCI) as H1. destruct (deliver_tx c tx) as [c1 o]. cbn in *.
  specialize (IH c1 H1). destruct (deliver_txs c1 txs) as [c2 os]. cbn in *. eapply members_stable_trans; eauto.
Qed.

(* maturity only touches validators that are unbonding, hence not in the last set *)
Definition off_members (c c' : chain) : Prop :=
  (last_pow (stk c') = last_pow (stk c)) /\
  (forall i : Z, is_Some (last_pow (stk c) !! i) -> vals (stk c') !! i = vals (stk c) !! i).

Lemma off_members_MS c c' : off_members c c' -> MS c c'.
Proof.
  intros [Hl Hv]. split; [exact Hl|]. intros i q Hq. assert (Hne : is_Some (last_pow (stk c) !! i)) by eauto.
  rewrite (Hv i Hne). split; intros w Hw; eauto.
Qed.

Lemma mature_ids_off ids c c' : CI c -> mature_ids ids c = Some c' -> off_members c c'.
Proof.
  revert c. induction ids as [|id rest IH]; intros c HCI Hrun; [cbn in Hrun; inversion Hrun; split; auto|].
  pose proof Hrun as Hrun0. cbn [mature_ids] in Hrun.
  destruct (vals (stk c) !! id) as [v|] eqn:Hv; [|discriminate].
  destruct (status_eqb (v_status v) Unbonding) eqn:Est; cbn [negb] in Hrun; [|discriminate].
  assert (Hnotlast : last_pow (stk c) !! id = None).
  { destruct HCI as [HS _]. destruct (last_pow (stk c) !! id) as [q|] eqn:El; [|reflexivity]. destruct (si_last _ HS id q El) as (vi & Hvi & Hsi).
    rewrite Hv in Hvi. inversion Hvi; subst. rewrite Hsi in Est. discriminate. }
  (* the chain after this id, as computed by the one-element run *)
  destruct (mature_ids [id] c) as [c1|] eqn:E1.
  2:{ exfalso. cbn [mature_ids] in E1. rewrite Hv, Est in E1. cbn [negb] in E1.
      destruct (v_shares (set_status v Unbonded) =? 0); [destruct (0 <? v_tokens (set_status v Unbonded)); discriminate|discriminate]. }
  assert (H1 : CI c1) by (eapply mature_ids_CI; eauto).
  assert (Hoff1 : off_members c c1 /\ mature_ids rest c1 = Some c').
  { cbn [mature_ids] in E1. rewrite Hv, Est in E1. cbn [negb] in E1.
    destruct (v_shares (set_status v Unbonded) =? 0).
    - destruct (0 <? v_tokens (set_status v Unbonded)); [discriminate|]. cbn zeta in E1, Hrun. inversion E1; subst c1. split; [|exact Hrun].
      split; [reflexivity|]. intros i Hi. assert (i <> id) by (intros ->; rewrite Hnotlast in Hi; destruct Hi; discriminate). cbn. unfold set_validator. cbn.
      rewrite lookup_delete_ne, lookup_insert_ne by auto. reflexivity.
    - cbn zeta in E1, Hrun. inversion E1; subst c1. split; [|exact Hrun].
      split; [reflexivity|]. intros i Hi. assert (i <> id) by (intros ->; rewrite Hnotlast in Hi; destruct Hi; discriminate). cbn. unfold set_validator. cbn.
      rewrite lookup_insert_ne by auto. reflexivity. }
  destruct Hoff1 as [[Hl1 Hv1] Hrest]. destruct (IH c1 H1 Hrest) as [Hl2 Hv2]. split; [congruence|].
  intros i Hi. rewrite Hv2 by (rewrite Hl1; exact Hi). apply Hv1; exact Hi.
Qed.

Lemma mature_slots_off slots c c' : CI c -> mature_slots slots c = Some c' -> off_members c c'.
Proof.
  revert c. induction slots as [|[[t h] ids] rest IH]; cbn [mature_slots]; intros c HCI; [intros [= <-]; split; auto|].
  destruct (_ && _); [|apply IH; exact HCI].
  destruct (mature_ids ids c) as [c1|] eqn:E; [|discriminate]. intros H.
  pose proof (mature_ids_off _ _ _ HCI E) as [Hl1 Hv1]. pose proof (mature_ids_CI _ _ _ HCI E) as H1.
  destruct (IH c1 H1 H) as [Hl2 Hv2]. split; [congruence|]. intros i Hi. rewrite Hv2 by (rewrite Hl1; exact Hi). apply Hv1; exact Hi.
Qed.

(* ---- the world invariant: chain invariant + CometBFT's next set = last validator powers by consensus key ---- *)
Definition WI (w : world) : Prop :=
  CI (w_chain w) /\ (w_halted w = None -> comet_rel (stk (w_chain w)) (c_next (w_comet w))).

Lemma comet_rel_clock c h t vs : comet_rel (stk c) vs -> comet_rel (stk (with_clock c h t)) vs.
Proof. auto. Qed.

Lemma init_world_WI g : wf_genesis g -> WI (init_world g).
Proof.
  intros Hwf. split; [apply init_world_CI; exact Hwf|].
  pose proof (genesis_chain_CI g Hwf) as H0. unfold init_world. fold (genesis_chain g).
  change (match apply_valset_updates (genesis_chain g) with
          | EBOk c1 upd => _ | EBHalt e => _ end) with
    (match apply_valset_updates (genesis_chain g) with
     | EBHalt e => {| w_chain := genesis_chain g; w_comet := {| c_prev := None; c_cur := ∅; c_next := ∅ |}; w_halted := Some (HEndBlock e) |}
     | EBOk c1 upd =>
       {| w_chain := with_poa c1 {| pending := []; cached_power := last_total (stk c1); abs_changed := 0 |};
          w_comet := {| c_prev := None; c_cur := apply_updates ∅ upd; c_next := apply_updates ∅ upd |}; w_halted := None |}
     end).
  destruct (apply_valset_updates (genesis_chain g)) as [c1 upd|e] eqn:E; cbn; [|discriminate]. intros _.
  eapply (apply_valset_updates_comet (genesis_chain g) c1 upd ∅ H0); [|exact E].
  intros k p. rewrite lookup_empty. split; [discriminate|]. intros (id & v & _ & _ & Hl). cbn in Hl. rewrite lookup_empty in Hl. discriminate.
Qed.

Lemma run_block_WI w b : WI w -> WI (fst (run_block w b)).
Proof.
  intros [HCI Hrel]. unfold run_block. destruct (w_halted w) eqn:Hh; [split; [exact HCI|cbn; intros Hc; congruence]|].
  specialize (Hrel eq_refl).
  set (c0 := with_clock (w_chain w) (height (w_chain w) + 1) (now (w_chain w) + b_dt b)).
  assert (H0 : CI c0) by (apply CI_clock; exact HCI).
  destruct (begin_block c0 _ (b_absent b) (b_evidence b)) as [c1|e] eqn:Eb; [|split; [exact H0|discriminate]].
  pose proof (begin_block_CI _ _ _ _ _ H0 Eb) as H1. pose proof (begin_block_MS _ _ _ _ _ Eb) as M1.
  pose proof (deliver_txs_CI (b_txs b) c1 H1) as H2. pose proof (deliver_txs_MS (b_txs b) c1 H1) as M2.
  destruct (deliver_txs c1 (b_txs b)) as [c2 outs]. cbn in H2, M2.
  assert (Hrel2 : comet_rel (stk c2) (c_next (w_comet w))).
  { eapply comet_rel_stable; [exact M2|]. eapply comet_rel_stable; [exact M1|]. exact Hrel. }
  unfold staking_end_block. destruct (apply_valset_updates c2) as [c3 upd|e] eqn:Ea; [|split; [exact H2|discriminate]].
  pose proof (apply_valset_updates_CI _ _ _ H2 Ea) as H3.
  pose proof (apply_valset_updates_comet _ _ _ _ H2 Hrel2 Ea) as Hrel3.
  destruct (unbond_all_mature c3) as [c4|] eqn:Em; [|split; [exact H2|discriminate]].
  unfold unbond_all_mature in Em.
  pose proof (mature_slots_CI _ _ _ H3 Em) as H4. pose proof (off_members_MS _ _ (mature_slots_off _ _ _ H3 Em)) as M4.
  destruct H2 as [HS2 HP2].
  pose proof (apply_valset_updates_safe c2 (si_sound _ HS2) (si_unique _ HS2) (si_cons _ HS2) (si_last _ HS2) (si_tok _ HS2)) as Hsafe. rewrite Ea in Hsafe.
  destruct Hsafe as [Hnd _].
  destruct (comet_apply (c_next (w_comet w)) upd) as [nn|e] eqn:Ec; cbn; (split; [exact H4|]); [|discriminate].
  intros _. rewrite (comet_apply_is_apply_updates _ _ _ Hnd Ec). eapply comet_rel_stable; [exact M4|exact Hrel3].
Qed.

Theorem run_world_WI bs w : WI w -> WI (run_world w bs).
Proof. revert w. induction bs as [|b bs IH]; cbn; intros w H; [exact H|]. apply IH. apply run_block_WI. exact H. Qed.

(* C02 / C18: after every block of every history that has not halted, the set CometBFT will use is exactly the
   chain's last validator powers keyed by the validators' consensus keys *)
Theorem reachable_comet_rel g bs :
  wf_genesis g ->
  let w := run_world (init_world g) bs in
  w_halted w = None ->
  forall k p, c_next (w_comet w) !! k = Some p <->
              exists id v, vals (stk (w_chain w)) !! id = Some v /\ v_cons v = k /\ last_pow (stk (w_chain w)) !! id = Some p.
Proof. intros Hg w Hh. destruct (run_world_WI bs (init_world g) (init_world_WI g Hg)) as [_ Hrel]. exact (Hrel Hh). Qed.

(* and CometBFT never refuses a block's updates for removing a key it does not have *)
Lemma unbond_loop_zero_members ids a a' :
  unbond_loop ids a = LDone a' ->
  forall k, In (k, 0) (la_upd a') -> In (k, 0) (la_upd a) \/
            exists id v, In id ids /\ vals (stk (la_chain a)) !! id = Some v /\ v_cons v = k.
Proof.
  revert a. induction ids as [|id rest IH]; intros a; cbn [unbond_loop]; [intros [= <-] k H; left; exact H|].
  destruct (vals (stk (la_chain a)) !! id) as [v|] eqn:Hv; [|discriminate]. destruct (negb _); [discriminate|].
  destruct (begin_unbonding (la_chain a) id v) as [c1 v1] eqn:Eb.
  pose proof (begin_unbonding_vals (la_chain a) id v) as (v' & Hsnd & Hc' & _ & Hvals' & _). rewrite Eb in Hsnd, Hvals'. cbn in Hsnd, Hvals'. subst v'.
  intros H k Hin. destruct (IH _ H k Hin) as [Hold|(i & vi & Hi & Hvi & Hci)].
  - cbn in Hold. apply in_app_or in Hold as [Hold|[Heq|[]]]; [left; exact Hold|]. inversion Heq; subst. right. exists id, v. repeat split; auto. left; reflexivity.
  - cbn in Hvi. rewrite Hvals' in Hvi. destruct (decide (i = id)) as [->|Hne].
    + rewrite lookup_insert in Hvi. inversion Hvi; subst. right. exists id, v. repeat split; auto. left; reflexivity.
    + rewrite lookup_insert_ne in Hvi by auto. right. exists i, vi. repeat split; auto. right; exact Hi.
Qed.

(* ---- three small facts about the main loop ---- *)
Lemma apply_loop_facts keys maxv : forall a a',
  apply_loop keys maxv a = LDone a' ->
  (forall k p, In (k, p) (la_upd a') -> In (k, p) (la_upd a) \/ p <> 0) /\
  (forall id q, la_last a' !! id = Some q -> la_last a !! id = Some q) /\
  same_ids_cons (stk (la_chain a)) (stk (la_chain a')).
Proof.
  induction keys as [|[p id] ks IH]; intros a a'; cbn [apply_loop].
  - intros [= <-]. repeat split; auto. apply same_ids_cons_refl.
  - destruct (maxv <=? la_count a); [intros [= <-]; repeat split; auto; apply same_ids_cons_refl|].
    destruct (vals (stk (la_chain a)) !! id) as [v|] eqn:Hv; [|discriminate].
    destruct (v_jailed v); [apply IH|].
    destruct (Z.eqb_spec (v_power v) 0) as [Hz|Hnz]; [intros [= <-]; repeat split; auto; apply same_ids_cons_refl|].
    set (r := match v_status v with Bonded => (la_chain a, v, 0) | _ => let '(c', v') := bond_validator (la_chain a) id v in (c', v', v_tokens v') end).
    assert (Hr : exists c1 v1 moved, r = (c1, v1, moved) /\ v_cons v1 = v_cons v /\ v_tokens v1 = v_tokens v /\
                 vals (stk c1) = <[id := v1]> (vals (stk (la_chain a)))).
    { subst r. destruct (v_status v) eqn:Es.
      - destruct (bond_validator (la_chain a) id v) as [c' v'] eqn:Eb.
        pose proof (bond_validator_vals (la_chain a) id v) as (H1 & H2 & H3). rewrite Eb in H1, H2, H3. cbn in *. subst v'. do 3 eexists. repeat split; eauto.
      - destruct (bond_validator (la_chain a) id v) as [c' v'] eqn:Eb.
        pose proof (bond_validator_vals (la_chain a) id v) as (H1 & H2 & H3). rewrite Eb in H1, H2, H3. cbn in *. subst v'. do 3 eexists. repeat split; eauto.
      - exists (la_chain a), v, 0. repeat split; auto. rewrite insert_id; auto. }
    destruct Hr as (c1 & v1 & moved & -> & Hc1 & Ht1 & Hvals1). cbn zeta. intros Hrun.
    destruct (IH _ _ Hrun) as (A & B & C). cbn [la_upd la_last la_chain] in A, B, C.
    assert (Hpw : v_power v1 <> 0) by (unfold v_power; rewrite Ht1; exact Hnz).
    split; [|split].
    + intros k q Hin. destruct (A k q Hin) as [Hold|Hnz']; [|right; exact Hnz'].
      destruct (match la_last a !! id with Some old => negb (old =? v_power v1) | None => true end); [|left; exact Hold].
      apply in_app_or in Hold as [Hold|[Heq|[]]]; [left; exact Hold|]. inversion Heq; subst. right; exact Hpw.
    + intros i q Hl. apply B in Hl. apply lookup_delete_Some in Hl as [_ Hl]. exact Hl.
    + eapply same_ids_cons_trans; [|exact C].
      eapply same_ids_cons_insert; [exact Hv|exact Hc1|]. destruct (match la_last a !! id with Some old => negb (old =? v_power v1) | None => true end); cbn; exact Hvals1.
Qed.

(* a zero-power update always concerns a key CometBFT has *)
Theorem apply_valset_updates_zero_members c c' upd vs :
  CI c -> comet_rel (stk c) vs -> apply_valset_updates c = EBOk c' upd ->
  forall k, In (k, 0) upd -> is_Some (vs !! k).
Proof.
  intros [HS HP] Hrel. unfold apply_valset_updates.
  set (keys := sort_by pidx_le (pidx (stk c))).
  set (a0 := {| la_chain := c; la_last := last_pow (stk c); la_upd := []; la_count := 0; la_total := 0; la_to_bonded := 0 |}).
  destruct (apply_loop keys (sp_max_validators (params (stk c))) a0) as [a1|] eqn:E1; [|discriminate].
  destruct (apply_loop_facts _ _ _ _ E1) as (A & B & C). cbn in A, B, C.
  destruct (sorted_keys_spec (la_last a1)) as [Hnd Hmem].
  destruct (unbond_loop (sorted_keys (la_last a1)) a1) as [a2|] eqn:E2; [|discriminate].
  destruct (if la_to_bonded a2 =? 0 then _ else _) as [b|]; [|discriminate]. intros [= _ <-] k Hin.
  destruct (unbond_loop_zero_members _ _ _ E2 k Hin) as [Hold|(id & v1 & Hid & Hv1 & Hc1)].
  - destruct (A k 0 Hold) as [[]|Hnz]; congruence.
  - apply Hmem in Hid as [q Hq]. apply B in Hq.
    destruct (proj2 C id v1 Hv1) as (v & Hv & Hcv).
    assert (Hvs : vs !! k = Some q) by (apply (Hrel k q); exists id, v; repeat split; auto; congruence). eauto.
Qed.

Lemma comet_apply_not_remove_nonmember vs upd :
  (forall k, In (k, 0) upd -> is_Some (vs !! k)) -> comet_apply vs upd <> inr 3.
Proof.
  intros Hz. unfold comet_apply. destruct upd as [|u0 upd0] eqn:Eu; [discriminate|]. rewrite <- Eu in *. clear Eu u0 upd0. cbn zeta.
  repeat match goal with |- context [if ?b then inr ?e else _] => lazymatch e with 3 => fail | _ => destruct b; [discriminate|] end end.
  set (deletes := filter (fun u : Z * Z => snd u =? 0) upd).
  assert (Hex : existsb (fun u : Z * Z => negb (bool_decide (is_Some (vs !! fst u)))) deletes = false).
  { apply not_true_is_false. intros He. apply existsb_exists in He as ([k p] & Hin & Hn). apply filter_In in Hin as [Hin Hp]. cbn in Hp, Hn.
    apply Z.eqb_eq in Hp. subst p. apply negb_true_iff in Hn. apply bool_decide_eq_false in Hn. apply Hn. apply Hz. exact Hin. }
  rewrite Hex. destruct (_ <? _); discriminate.
Qed.

Theorem block_safe_members w b :
  WI w -> w_halted w = None -> w_halted (fst (run_block w b)) <> Some (HComet 3).
Proof.
  intros [HCI Hrel] Hh. specialize (Hrel Hh). unfold run_block. rewrite Hh.
  set (c0 := with_clock (w_chain w) (height (w_chain w) + 1) (now (w_chain w) + b_dt b)).
  assert (H0 : CI c0) by (apply CI_clock; exact HCI).
  destruct (begin_block c0 _ (b_absent b) (b_evidence b)) as [c1|e] eqn:Eb; [|discriminate].
  pose proof (begin_block_CI _ _ _ _ _ H0 Eb) as H1. pose proof (begin_block_MS _ _ _ _ _ Eb) as M1.
  pose proof (deliver_txs_CI (b_txs b) c1 H1) as H2. pose proof (deliver_txs_MS (b_txs b) c1 H1) as M2.
  destruct (deliver_txs c1 (b_txs b)) as [c2 outs]. cbn in H2, M2.
  assert (Hrel2 : comet_rel (stk c2) (c_next (w_comet w))).
  { eapply comet_rel_stable; [exact M2|]. eapply comet_rel_stable; [exact M1|]. exact Hrel. }
  unfold staking_end_block. destruct (apply_valset_updates c2) as [c3 upd|e] eqn:Ea; [|discriminate].
  destruct (unbond_all_mature c3); [|discriminate].
  pose proof (comet_apply_not_remove_nonmember (c_next (w_comet w)) upd (apply_valset_updates_zero_members _ _ _ _ H2 Hrel2 Ea)) as Hn3.
  destruct (comet_apply (c_next (w_comet w)) upd) as [nn|e]; cbn; [discriminate|]. intros [= ->]. congruence.
Qed.
