(* InvCreate.v — exactly which applications CreateValidator accepts, and what acceptance does. *)
From stdpp Require Import gmap.
Require Import Model.Base Model.Validate Model.State Model.Staking Model.Slashing Model.Poa.
Require Import proofs.EvBasic proofs.L1Effects proofs.InvPools.
Open Scope Z_scope.

Lemma pending_conflict_none_iff val cons l :
  pending_conflict val cons l = None <-> forall q, In q l -> p_oper q <> val /\ p_cons q <> cons.
Proof.
  induction l as [|p rest IH]; cbn; [split; [intros _ q []|reflexivity]|].
  destruct (Z.eqb_spec (p_oper p) val) as [E1|E1]; [split; [discriminate|intros H; destruct (H p (or_introl eq_refl)); contradiction]|].
  destruct (Z.eqb_spec (p_cons p) cons) as [E2|E2]; [split; [discriminate|intros H; destruct (H p (or_introl eq_refl)); contradiction]|].
  rewrite IH. split; [intros H q [<-|Hq]; auto|intros H q Hq; apply H; right; exact Hq].
Qed.

Definition create_basic_of (cons mon r mx ch : Z) : create_basic :=
  {| cb_addr_ok := true; cb_has_pubkey := 0 <=? cons;
     cb_desc := {| dl_moniker := mon; dl_identity := 0; dl_website := 0; dl_security := 0; dl_details := 0 |};
     cb_rate := Some r; cb_max := Some mx; cb_chg := Some ch |}.

Definition application (val cons mon r mx ch : Z) : pending_val :=
  {| p_oper := val; p_cons := cons; p_rate := r; p_maxrate := mx; p_maxchg := ch; p_moniker := mon |}.

(* the conditions, spelled out *)
Definition acceptable (c : chain) (val cons mon r mx ch : Z) : Prop :=
  poa_create_validate (create_basic_of cons mon r mx ch) = VOk /\
  default 0 (sp_min_commission (params (stk c))) <= r /\
  vals (stk c) !! val = None /\ by_cons (stk c) !! cons = None /\
  (forall q, In q (pending (poa c)) -> p_oper q <> val /\ p_cons q <> cons) /\
  ensure_length (cb_desc (create_basic_of cons mon r mx ch)) = true.

Theorem create_accept_iff c val cons mon r mx ch :
  bonded_pool (bk c) = bonded_tokens (stk c) ->
  (exists c', msg_create_validator c val cons mon r mx ch = MOk c') <-> acceptable c val cons mon r mx ch.
Proof.
  intros HB. unfold msg_create_validator, acceptable. fold (create_basic_of cons mon r mx ch).
  destruct (poa_create_validate (create_basic_of cons mon r mx ch)) eqn:Ev.
  - destruct (Z.ltb_spec r (default 0 (sp_min_commission (params (stk c))))) as [Hlt|Hge].
    { split; [intros [c' H]; discriminate|intros (_ & H & _); lia]. }
    destruct (vals (stk c) !! val) as [v|] eqn:Hv.
    { rewrite bool_decide_eq_true_2 by eauto. split; [intros [c' H]; discriminate|intros (_ & _ & H & _); discriminate]. }
    rewrite bool_decide_eq_false_2 by (intros [x Hx]; discriminate).
    destruct (by_cons (stk c) !! cons) as [i|] eqn:Hc.
    { rewrite bool_decide_eq_true_2 by eauto. split; [intros [c' H]; discriminate|intros (_ & _ & _ & H & _); discriminate]. }
    rewrite bool_decide_eq_false_2 by (intros [x Hx]; discriminate).
    destruct (pending_conflict val cons (pending (poa c))) as [e|] eqn:Ep.
    { split; [intros [c' H]; discriminate|]. intros (_ & _ & _ & _ & H & _). apply pending_conflict_none_iff in H. congruence. }
    destruct (ensure_length (cb_desc (create_basic_of cons mon r mx ch))) eqn:El; cbn [negb].
    + split; [intros _|].
      * split; [reflexivity|]. split; [exact Hge|]. split; [reflexivity|]. split; [reflexivity|]. split; [apply pending_conflict_none_iff; exact Ep|reflexivity].
      * intros _. unfold update_bonded_pool. cbn. rewrite HB, Z.eqb_refl. eauto.
    + split; [intros [c' H]; discriminate|intros (_ & _ & _ & _ & _ & H); discriminate].
  - split; [intros [c' H]; discriminate|intros (H & _); discriminate].
  - split; [intros [c' H]; discriminate|intros (H & _); discriminate].
Qed.

(* and what acceptance does: the application is appended with exactly the submitted fields — an entry of the pending list
   has no token or min-self-delegation field at all; admission gives it zero tokens and minimum self delegation 1
   (accept_new_validator) — and nothing else changes: no pool, no supply, no validator, no parameter *)
Theorem create_accept_effect c val cons mon r mx ch c' :
  bonded_pool (bk c) = bonded_tokens (stk c) ->
  msg_create_validator c val cons mon r mx ch = MOk c' ->
  c' = set_pending c (pending (poa c) ++ [application val cons mon r mx ch]).
Proof.
  intros HB. unfold msg_create_validator. destruct (poa_create_validate _); try discriminate. destruct (_ <? _); [discriminate|].
  destruct (bool_decide _); [discriminate|]. destruct (bool_decide _); [discriminate|]. destruct (pending_conflict _ _ _); [discriminate|].
  destruct (negb _); [discriminate|]. unfold update_bonded_pool. cbn. rewrite HB, Z.eqb_refl. intros [= <-]. reflexivity.
Qed.

(* ---- the other handlers: exactly when they succeed ---- *)
Theorem update_params_accept_iff c s p :
  (exists c', msg_update_params c s p = MOk c') <->
  is_admin s = true /\ params_validate p = true /\ sp_bond_denom p = sp_bond_denom (params (stk c)).
Proof.
  unfold msg_update_params. destruct (is_admin s); cbn [negb]; [|split; [intros [c' H]; discriminate|intros (H & _); discriminate]].
  destruct (params_validate p); cbn [negb]; [|split; [intros [c' H]; discriminate|intros (_ & H & _); discriminate]].
  destruct (Z.eqb_spec (sp_bond_denom p) (sp_bond_denom (params (stk c)))); cbn [negb]; [split; eauto|].
  split; [intros [c' H]; discriminate|intros (_ & _ & H); contradiction].
Qed.

Theorem remove_pending_accept_iff c s val : (exists c', msg_remove_pending c s val = MOk c') <-> is_admin s = true.
Proof. unfold msg_remove_pending. destruct (is_admin s); cbn [negb]; split; eauto; try discriminate. intros [c' H]; discriminate. Qed.

(* RemoveValidator: the gate (admin, or the validator's own operator), another validator able to sign, a bonded target —
   and then the power assignment of zero must go through (it fails only when the target has no power to lose) *)
Theorem remove_validator_needs c s val c' :
  msg_remove_validator c s val = MOk c' ->
  (is_admin s = true \/ (0 <= val /\ s = val)) /\ other_signers c val <> 0 /\
  exists v, vals (stk c) !! val = Some v /\ v_status v = Bonded /\ default 0 (last_pow (stk c) !! val) <> 0.
Proof.
  unfold msg_remove_validator. destruct (is_admin s) eqn:Ea.
  - destruct (Z.eqb_spec (other_signers c val) 0); [discriminate|].
    destruct (vals (stk c) !! val) as [v|] eqn:Hv; [|discriminate]. destruct (v_status v) eqn:Est; cbn; try discriminate.
    destruct (set_poa_power c val 0) as [c1|] eqn:E; [|discriminate]. intros _. split; [left; reflexivity|]. split; [assumption|].
    exists v. split; [reflexivity|]. split; [exact Est|]. revert E. unfold set_poa_power. rewrite Hv.
    change (tokens_to_power 0) with 0. destruct (Z.eqb_spec 0 (default 0 (last_pow (stk c) !! val))); [discriminate|]. intros _. congruence.
  - destruct (Z.ltb_spec val 0); [discriminate|]. destruct (Z.eqb_spec s val); [|discriminate].
    destruct (Z.eqb_spec (other_signers c val) 0); [discriminate|].
    destruct (vals (stk c) !! val) as [v|] eqn:Hv; [|discriminate]. destruct (v_status v) eqn:Est; cbn; try discriminate.
    destruct (set_poa_power c val 0) as [c1|] eqn:E; [|discriminate]. intros _. split; [right; split; [lia|assumption]|]. split; [assumption|].
    exists v. split; [reflexivity|]. split; [exact Est|]. revert E. unfold set_poa_power. rewrite Hv.
    change (tokens_to_power 0) with 0. destruct (Z.eqb_spec 0 (default 0 (last_pow (stk c) !! val))); [discriminate|]. intros _. congruence.
Qed.
