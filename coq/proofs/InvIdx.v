(* InvIdx.v — index-level lemmas: re-keying one validator's power index entry keeps the index sound
   (every entry belongs to a non-jailed record at its power) and unique (one entry per validator). *)
From stdpp Require Import gmap.
Require Import Model.Base Model.Validate Model.State Model.Staking.
Require Import proofs.EvBasic proofs.Inv.
Open Scope Z_scope.

Lemma pair_eqb_eq a b : pair_eqb a b = true <-> a = b.
Proof.
  unfold pair_eqb. destruct a as [a1 a2], b as [b1 b2]. cbn. rewrite andb_true_iff, !Z.eqb_eq. split; [intros [-> ->]; reflexivity|intros [= -> ->]; auto].
Qed.

Lemma in_pidx_del k x l : In x (pidx_del k l) <-> In x l /\ x <> k.
Proof.
  unfold pidx_del. rewrite filter_In. split; intros [H1 H2]; split; auto.
  - intros ->. rewrite (proj2 (pair_eqb_eq k k) eq_refl) in H2. discriminate.
  - apply negb_true_iff. apply not_true_is_false. intros H. apply pair_eqb_eq in H. congruence.
Qed.

Lemma in_pidx_add k x l : In x (pidx_add k l) <-> x = k \/ In x l.
Proof.
  unfold pidx_add. destruct (existsb (pair_eqb k) l) eqn:E.
  - split; [auto|]. intros [->|H]; [|exact H]. apply existsb_exists in E as (y & Hy & Hk). apply pair_eqb_eq in Hk. subst. exact Hy.
  - cbn. split; intros [H|H]; auto.
Qed.

Lemma nodup_filter_map {A B} (f : A -> B) (p : A -> bool) l : List.NoDup (map f l) -> List.NoDup (map f (filter p l)).
Proof.
  induction l as [|x l IH]; cbn; [auto|]. intros H. inversion H; subst. destruct (p x); cbn; [|auto].
  constructor; [|auto]. intros Hin. apply H2. apply in_map_iff in Hin as (y & Hy & Hin). apply filter_In in Hin as [Hin _].
  apply in_map_iff. eauto.
Qed.

Lemma pidx_del_nodup k l : List.NoDup (map snd l) -> List.NoDup (map snd (pidx_del k l)).
Proof. apply nodup_filter_map. Qed.

Lemma pidx_add_nodup p id l :
  List.NoDup (map snd l) -> (forall q, In (q, id) l -> q = p) -> List.NoDup (map snd (pidx_add (p, id) l)).
Proof.
  intros Hnd Hq. unfold pidx_add. destruct (existsb _ l) eqn:E; [exact Hnd|]. cbn. constructor; [|exact Hnd].
  intros Hin. apply in_map_iff in Hin as ([q i] & Hi & Hin). cbn in Hi. subst i.
  assert (q = p) by (apply Hq; exact Hin). subst q.
  assert (existsb (pair_eqb (p, id)) l = true) by (apply existsb_exists; exists (p, id); split; [exact Hin|apply pair_eqb_eq; reflexivity]).
  congruence.
Qed.

(* under soundness, the only entry a validator can own is the one at its power *)
Lemma owned_key s id v p : idx_sound s -> vals s !! id = Some v -> In (p, id) (pidx s) -> p = v_power v.
Proof. intros Hs Hv Hin. destruct (Hs p id Hin) as (v' & Hv' & _ & ->). congruence. Qed.

Lemma jailed_owns_nothing s id v p : idx_sound s -> vals s !! id = Some v -> v_jailed v = true -> ~ In (p, id) (pidx s).
Proof. intros Hs Hv Hj Hin. destruct (Hs p id Hin) as (v' & Hv' & Hj' & _). congruence. Qed.

Lemma no_record_owns_nothing s id p : idx_sound s -> vals s !! id = None -> ~ In (p, id) (pidx s).
Proof. intros Hs Hv Hin. destruct (Hs p id Hin) as (v' & Hv' & _). congruence. Qed.

(* replace the record of [id] by [v'] and re-key: del at the old power, set at the new one *)
Definition rekey (s : staking) (id : Z) (v v' : validator) : staking :=
  set_index (set_validator (del_index s id v) id v') id v'.

Lemma rekey_vals s id v v' : vals (rekey s id v v') = <[id := v']> (vals s).
Proof. unfold rekey, set_index, set_validator, del_index. destruct (v_jailed v'); reflexivity. Qed.

Lemma rekey_other s id v v' :
  last_pow (rekey s id v v') = last_pow s /\ by_cons (rekey s id v v') = by_cons s /\ dels (rekey s id v v') = dels s /\
  ubq (rekey s id v v') = ubq s /\ params (rekey s id v v') = params s /\ last_total (rekey s id v v') = last_total s.
Proof. unfold rekey, set_index, set_validator, del_index. destruct (v_jailed v'); cbn; repeat split. Qed.

Lemma rekey_sound s id v v' :
  idx_sound s -> idx_unique s -> vals s !! id = Some v ->
  idx_sound (rekey s id v v') /\ idx_unique (rekey s id v v').
Proof.
  intros Hs Hu Hv.
  assert (Hnone : forall q, ~ In (q, id) (pidx_del (v_power v, id) (pidx s))).
  { intros q Hin. apply in_pidx_del in Hin as [Hin Hne]. apply Hne. f_equal. eapply owned_key; eauto. }
  unfold idx_sound, idx_unique. rewrite rekey_vals. unfold rekey, set_index, set_validator, del_index.
  destruct (v_jailed v') eqn:Hj; cbn.
  - split.
    + intros p i Hin. apply in_pidx_del in Hin as [Hin Hne].
      destruct (decide (i = id)) as [->|Hni]; [exfalso; apply (Hnone p); apply in_pidx_del; auto|].
      rewrite lookup_insert_ne by auto. apply Hs; exact Hin.
    + apply pidx_del_nodup; exact Hu.
  - split.
    + intros p i Hin. apply in_pidx_add in Hin as [Heq|Hin].
      * inversion Heq; subst. rewrite lookup_insert. eauto.
      * destruct (decide (i = id)) as [->|Hni]; [exfalso; exact (Hnone p Hin)|].
        apply in_pidx_del in Hin as [Hin _]. rewrite lookup_insert_ne by auto. apply Hs; exact Hin.
    + apply pidx_add_nodup; [apply pidx_del_nodup; exact Hu|]. intros q Hin. exfalso. exact (Hnone q Hin).
Qed.

(* deleting the entry at the record's own power leaves the validator without any entry *)
Lemma del_index_none s id v q : idx_sound s -> vals s !! id = Some v -> ~ In (q, id) (pidx (del_index s id v)).
Proof.
  intros Hs Hv Hin. unfold del_index in Hin. cbn in Hin. apply in_pidx_del in Hin as [Hin Hne]. apply Hne. f_equal. eapply owned_key; eauto.
Qed.

(* replacing a record (same or different contents) of a validator that owns no entry keeps the index sound *)
Lemma set_validator_no_key s id v' :
  idx_sound s -> (forall q, ~ In (q, id) (pidx s)) -> idx_sound (set_validator s id v').
Proof.
  intros Hs Hn p i Hin. unfold set_validator in *. cbn in *.
  destruct (decide (i = id)) as [->|Hni]; [exfalso; exact (Hn p Hin)|]. rewrite lookup_insert_ne by auto. apply Hs; exact Hin.
Qed.

(* cons_inj, tokens_nonneg, last_bonded under a record replacement *)
Lemma cons_inj_insert s id v v' :
  cons_inj s -> vals s !! id = Some v -> v_cons v' = v_cons v -> forall s', vals s' = <[id := v']> (vals s) -> cons_inj s'.
Proof. intros Hinj Hv Hc s' Hs'. unfold cons_inj. rewrite Hs'. eapply cons_inj_insert_same_cons; eauto. Qed.

Lemma tokens_nonneg_insert s id v' s' :
  tokens_nonneg s -> 0 <= v_tokens v' -> vals s' = <[id := v']> (vals s) -> tokens_nonneg s'.
Proof.
  intros Ht Hv Hs' i vi. rewrite Hs'. destruct (decide (i = id)) as [->|Hne]; [rewrite lookup_insert; intros [= <-]; exact Hv|].
  rewrite lookup_insert_ne by auto. apply Ht.
Qed.

Lemma last_bonded_insert s id v v' s' :
  last_bonded s -> vals s !! id = Some v -> (v_status v = Bonded -> v_status v' = Bonded) ->
  vals s' = <[id := v']> (vals s) -> last_pow s' = last_pow s -> last_bonded s'.
Proof.
  intros Hl Hv Hst Hs' Hlp i p. rewrite Hlp, Hs'. intros Hi. destruct (Hl i p Hi) as (vi & Hvi & Hsi).
  destruct (decide (i = id)) as [->|Hne].
  - rewrite lookup_insert. exists v'. split; [reflexivity|]. apply Hst. congruence.
  - rewrite lookup_insert_ne by auto. eauto.
Qed.
