(* InvQueue.v — the unbonding-validator queue stays consistent with the validator records, so
   UnbondAllMatureValidators never fails ("validator in the unbonding queue was not found", "unexpected
   validator in unbonding queue", "attempting to remove a validator which still contains tokens"):
   an operation accepted today does not make a later block fail when an unbonding period matures. *)
From stdpp Require Import gmap.
Require Import Model.Base Model.Ante Model.Validate Model.Current Model.State Model.Staking Model.Slashing Model.Poa Model.App.
Require Import proofs.Inv proofs.InvIdx proofs.L1Effects proofs.InvPres proofs.InvMsgs proofs.InvHistory.
Open Scope Z_scope.

Record QI (s : staking) : Prop := {
  (* every queued id has a record that is unbonding with exactly that completion time and height *)
  qi_sound : forall t h ids id, ubq s !! (t, h) = Some ids -> In id ids ->
               exists v, vals s !! id = Some v /\ v_status v = Unbonding /\ v_ubtime v = t /\ v_ubheight v = h;
  qi_nodup : forall t h ids, ubq s !! (t, h) = Some ids -> List.NoDup ids;
  (* a validator without shares holds no tokens (RemoveValidator refuses otherwise) *)
  qi_zero : forall id v, vals s !! id = Some v -> v_shares v = 0 -> v_tokens v <= 0
}.

Definition queued (s : staking) (id : Z) : Prop := exists t h ids, ubq s !! (t, h) = Some ids /\ In id ids.

Lemma not_unbonding_not_queued s id v : QI s -> vals s !! id = Some v -> v_status v <> Unbonding -> ~ queued s id.
Proof. intros HQ Hv Hs (t & h & ids & Hq & Hin). destruct (qi_sound _ HQ t h ids id Hq Hin) as (v' & Hv' & Hs' & _). congruence. Qed.

Lemma no_record_not_queued s id : QI s -> vals s !! id = None -> ~ queued s id.
Proof. intros HQ Hv (t & h & ids & Hq & Hin). destruct (qi_sound _ HQ t h ids id Hq Hin) as (v' & Hv' & _). congruence. Qed.

(* ---- replacing the record of a validator that keeps its queue-relevant fields, or is not queued ---- *)
Lemma QI_insert s s' id v' :
  QI s -> vals s' = <[id := v']> (vals s) -> ubq s' = ubq s ->
  ((exists v, vals s !! id = Some v /\ v_status v' = v_status v /\ v_ubtime v' = v_ubtime v /\ v_ubheight v' = v_ubheight v) \/ ~ queued s id) ->
  (v_shares v' = 0 -> v_tokens v' <= 0) ->
  QI s'.
Proof.
  intros [Hs Hn Hz] Hv Hq Hcase Hzero. constructor.
  - intros t h ids i. rewrite Hq, Hv. intros Hslot Hin. destruct (Hs t h ids i Hslot Hin) as (vi & Hvi & Hst & Ht & Hh).
    destruct (decide (i = id)) as [->|Hne].
    + rewrite lookup_insert. destruct Hcase as [(v & Hv0 & E1 & E2 & E3)|Hnq].
      * rewrite Hvi in Hv0. inversion Hv0; subst. exists v'. repeat split; congruence.
      * exfalso. apply Hnq. exists t, h, ids. auto.
    + rewrite lookup_insert_ne by auto. eauto.
  - intros t h ids. rewrite Hq. apply Hn.
  - intros i vi. rewrite Hv. destruct (decide (i = id)) as [->|Hne]; [rewrite lookup_insert; intros [= <-]; exact Hzero|].
    rewrite lookup_insert_ne by auto. apply Hz.
Qed.

(* ---- queue operations ---- *)
Lemma ubq_insert_lookup q t h id t' h' :
  ubq_insert t h id q !! (t', h') = if decide ((t', h') = (t, h)) then Some (default [] (q !! (t, h)) ++ [id]) else q !! (t', h').
Proof. unfold ubq_insert. destruct (decide _) as [->|Hne]; [apply lookup_insert|apply lookup_insert_ne; congruence]. Qed.

Lemma ubq_delete_lookup q t h id t' h' ids :
  ubq_delete t h id q !! (t', h') = Some ids ->
  (((t', h') <> (t, h) /\ q !! (t', h') = Some ids) \/
   ((t', h') = (t, h) /\ ids = filter (fun x => negb (x =? id)) (default [] (q !! (t, h))))).
Proof.
  unfold ubq_delete. destruct (filter _ _) as [|x l] eqn:Ef.
  - destruct (decide ((t', h') = (t, h))) as [->|Hne]; [rewrite lookup_delete; discriminate|rewrite lookup_delete_ne by congruence; auto].
  - destruct (decide ((t', h') = (t, h))) as [->|Hne]; [rewrite lookup_insert; intros [= <-]; right; auto|rewrite lookup_insert_ne by congruence; auto].
Qed.

Lemma filter_neq_in (l : list Z) id x : In x (filter (fun y => negb (y =? id)) l) <-> In x l /\ x <> id.
Proof. rewrite filter_In, negb_true_iff, Z.eqb_neq. tauto. Qed.

(* after DeleteValidatorQueue with the record's own time and height the validator is no longer queued *)
Lemma ubq_delete_unqueues s id v :
  QI s -> vals s !! id = Some v ->
  forall t' h' ids, ubq_delete (v_ubtime v) (v_ubheight v) id (ubq s) !! (t', h') = Some ids -> ~ In id ids.
Proof.
  intros HQ Hv t' h' ids Hl Hin. apply ubq_delete_lookup in Hl as [[Hne Hl]|[Heq ->]].
  - destruct (qi_sound _ HQ t' h' ids id Hl Hin) as (v' & Hv' & _ & Ht & Hh). rewrite Hv in Hv'. inversion Hv'; subst. congruence.
  - apply filter_neq_in in Hin as [_ Hne]. congruence.
Qed.

(* bond / mature: the record leaves the Unbonding status and the queue together *)
Lemma QI_leave_queue s s' id v v' :
  QI s -> vals s !! id = Some v ->
  vals s' = <[id := v']> (vals s) -> ubq s' = ubq_delete (v_ubtime v) (v_ubheight v) id (ubq s) ->
  (v_shares v' = 0 -> v_tokens v' <= 0) ->
  QI s'.
Proof.
  intros HQ Hv Hvals Hq Hzero. constructor.
  - intros t h ids i. rewrite Hq, Hvals. intros Hslot Hin.
    assert (i <> id) by (intros ->; eapply ubq_delete_unqueues; eauto).
    rewrite lookup_insert_ne by auto. apply ubq_delete_lookup in Hslot as [[Hne Hl]|[Heq ->]].
    + eapply (qi_sound _ HQ); eauto.
    + inversion Heq; subst. apply filter_neq_in in Hin as [Hin _]. destruct (ubq s !! (v_ubtime v, v_ubheight v)) as [ids0|] eqn:E; [|destruct Hin].
      eapply (qi_sound _ HQ); eauto.
  - intros t h ids. rewrite Hq. intros Hslot. apply ubq_delete_lookup in Hslot as [[Hne Hl]|[Heq ->]].
    + eapply (qi_nodup _ HQ); eauto.
    + destruct (ubq s !! (v_ubtime v, v_ubheight v)) as [ids0|] eqn:E; cbn; [|constructor].
      apply List.NoDup_filter. eapply (qi_nodup _ HQ); eauto.
  - intros i vi. rewrite Hvals. destruct (decide (i = id)) as [->|Hne]; [rewrite lookup_insert; intros [= <-]; exact Hzero|].
    rewrite lookup_insert_ne by auto. apply (qi_zero _ HQ).
Qed.

(* begin unbonding: the record enters the Unbonding status and the queue together *)
Lemma QI_enter_queue s s' id v v' t h :
  QI s -> vals s !! id = Some v -> v_status v = Bonded ->
  v_status v' = Unbonding -> v_ubtime v' = t -> v_ubheight v' = h ->
  vals s' = <[id := v']> (vals s) -> ubq s' = ubq_insert t h id (ubq s) ->
  (v_shares v' = 0 -> v_tokens v' <= 0) ->
  QI s'.
Proof.
  intros HQ Hv Hb Hs' Ht' Hh' Hvals Hq Hzero.
  assert (Hnq : ~ queued s id) by (eapply not_unbonding_not_queued; eauto; congruence).
  constructor.
  - intros t0 h0 ids i. rewrite Hq, Hvals, ubq_insert_lookup. destruct (decide ((t0, h0) = (t, h))) as [Heq|Hne].
    + assert (t0 = t /\ h0 = h) as [-> ->] by (inversion Heq; auto). intros Hsome Hin. inversion Hsome; subst ids. clear Hsome.
      apply in_app_or in Hin as [Hin|[<-|[]]].
      * destruct (ubq s !! (t, h)) as [ids0|] eqn:E; [|destruct Hin].
        assert (i <> id) by (intros ->; apply Hnq; exists t, h, ids0; auto).
        rewrite lookup_insert_ne by auto. eapply (qi_sound _ HQ); eauto.
      * rewrite lookup_insert. exists v'. auto.
    + intros Hslot Hin. assert (i <> id) by (intros ->; apply Hnq; exists t0, h0, ids; auto).
      rewrite lookup_insert_ne by auto. eapply (qi_sound _ HQ); eauto.
  - intros t0 h0 ids. rewrite Hq, ubq_insert_lookup. destruct (decide ((t0, h0) = (t, h))) as [Heq|Hne]; [|apply (qi_nodup _ HQ)].
    intros [= <-]. apply nodup_snoc.
    + destruct (ubq s !! (t, h)) as [ids0|] eqn:E; [|intros []]. intros Hin. apply Hnq. exists t, h, ids0. auto.
    + destruct (ubq s !! (t, h)) as [ids0|] eqn:E; [eapply (qi_nodup _ HQ); eauto|constructor].
  - intros i vi. rewrite Hvals. destruct (decide (i = id)) as [->|Hne]; [rewrite lookup_insert; intros [= <-]; exact Hzero|].
    rewrite lookup_insert_ne by auto. apply (qi_zero _ HQ).
Qed.
