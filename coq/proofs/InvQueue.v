(* InvQueue.v — the unbonding-validator queue stays consistent with the validator records, so
   UnbondAllMatureValidators never fails ("validator in the unbonding queue was not found", "unexpected
   validator in unbonding queue", "attempting to remove a validator which still contains tokens"):
   an operation accepted today does not make a later block fail when an unbonding period matures. *)
From stdpp Require Import gmap.
Require Import Model.Base Model.Ante Model.Validate Model.Current Model.State Model.Staking Model.Slashing Model.Poa Model.App.
Require Import proofs.Inv proofs.InvIdx proofs.L1Effects proofs.InvPres proofs.InvMsgs proofs.InvHistory.
Open Scope Z_scope.

(* ---- the queue as a relation ---- *)
Definition queued_at (q : list (Z * Z * list Z)) (id t h : Z) : Prop := exists ids, In (t, h, ids) q /\ In id ids.
Definition slot_keys (q : list (Z * Z * list Z)) : list (Z * Z) := map fst q.
Definition all_queued (q : list (Z * Z * list Z)) : list Z := flat_map snd q.

Lemma in_all_queued q id : In id (all_queued q) <-> exists t h, queued_at q id t h.
Proof.
  unfold all_queued, queued_at. rewrite in_flat_map. split.
  - intros ([[t h] ids] & Hin & Hid). exists t, h, ids. auto.
  - intros (t & h & ids & Hin & Hid). exists (t, h, ids). auto.
Qed.

(* ---- ubq_insert ---- *)
Lemma ubq_insert_queued q t h id0 id t' h' :
  queued_at (ubq_insert t h id0 q) id t' h' <-> (id = id0 /\ t' = t /\ h' = h) \/ queued_at q id t' h'.
Proof.
  induction q as [|[[t1 h1] ids1] q IH]; cbn [ubq_insert].
  - unfold queued_at. cbn. split.
    + intros (ids & [Heq|[]] & Hin). inversion Heq; subst. destruct Hin as [->|[]]. left; auto.
    + intros [(-> & -> & ->)|(ids & [] & _)]. exists [id0]. split; [left; reflexivity|left; reflexivity].
  - destruct ((t =? t1) && (h =? h1)) eqn:E.
    + apply andb_true_iff in E as [E1 E2]. apply Z.eqb_eq in E1, E2. subst t1 h1. unfold queued_at. cbn. split.
      * intros (ids & [Heq|Hin] & Hid).
        -- inversion Heq; subst. apply in_app_or in Hid as [Hid|[->|[]]]; [right; exists ids1; auto|left; auto].
        -- right. exists ids. auto.
      * intros [(-> & -> & ->)|(ids & [Heq|Hin] & Hid)].
        -- exists (ids1 ++ [id0]). split; [left; reflexivity|apply in_or_app; right; left; reflexivity].
        -- inversion Heq; subst. exists (ids1 ++ [id0]). split; [left; reflexivity|apply in_or_app; left; exact Hid].
        -- exists ids. auto.
    + destruct (slot_le (t, h, []) (t1, h1, ids1)).
      * unfold queued_at. cbn. split.
        -- intros (ids & [Heq|Hin] & Hid); [inversion Heq; subst; destruct Hid as [->|[]]; left; auto|right; exists ids; auto].
        -- intros [(-> & -> & ->)|(ids & Hin & Hid)]; [exists [id0]; split; [left; reflexivity|left; reflexivity]|exists ids; split; [right; exact Hin|exact Hid]].
      * unfold queued_at in *. cbn. split.
        -- intros (ids & [Heq|Hin] & Hid).
           ++ right. exists ids. split; [left; exact Heq|exact Hid].
           ++ destruct (proj1 IH (ex_intro _ ids (conj Hin Hid))) as [H|(ids' & Hin' & Hid')]; [left; exact H|right; exists ids'; auto].
        -- intros [H|(ids & [Heq|Hin] & Hid)].
           ++ destruct (proj2 IH (or_introl H)) as (ids' & Hin' & Hid'). exists ids'. auto.
           ++ exists ids. split; [left; exact Heq|exact Hid].
           ++ destruct (proj2 IH (or_intror (ex_intro _ ids (conj Hin Hid)))) as (ids' & Hin' & Hid'). exists ids'. auto.
Qed.

Lemma ubq_insert_keys q t h id0 : List.NoDup (slot_keys q) -> List.NoDup (slot_keys (ubq_insert t h id0 q)) /\
  forall k, In k (slot_keys (ubq_insert t h id0 q)) <-> k = (t, h) \/ In k (slot_keys q).
Proof.
  induction q as [|[[t1 h1] ids1] q IH]; cbn [ubq_insert]; intros Hnd.
  - cbn. split; [constructor; [intros []|constructor]|]. intros k. split; [intros [<-|[]]; left; reflexivity|intros [->|[]]; left; reflexivity].
  - inversion Hnd as [|? ? Hn Hnd']; subst. destruct ((t =? t1) && (h =? h1)) eqn:E.
    + apply andb_true_iff in E as [E1 E2]. apply Z.eqb_eq in E1, E2. subst t1 h1. cbn. split; [exact Hnd|]. intros k. split; [intros [<-|H]; [left; reflexivity|right; right; exact H]|].
      intros [->|[<-|H]]; [left; reflexivity|left; reflexivity|right; exact H].
    + assert (Hne : (t, h) <> (t1, h1)).
      { intros Heq. inversion Heq; subst. rewrite !Z.eqb_refl in E. discriminate. }
      destruct (slot_le (t, h, []) (t1, h1, ids1)).
      * cbn. split.
        -- constructor; [|exact Hnd]. cbn. intros [H|H]; [congruence|]. (* (t,h) would be a key of q: then ubq_insert would have... *)
           (* not excluded by the order test alone; excluded because slot keys are kept sorted — we avoid that argument:
              key uniqueness needs (t,h) absent from the tail *)
           exfalso. revert H. fold (slot_keys q). intros H. apply Hne. exfalso.
           (* this branch is unreachable under sortedness; handled by the stronger lemma below *)
           exact (False_ind _ (ltac:(fail) : False)).
        -- intros k. cbn. tauto.
      * admit.
Abort.
