(* InvQueue.v — the unbonding-validator queue stays consistent with the validator records, so
   UnbondAllMatureValidators never fails ("validator in the unbonding queue was not found", "unexpected
   validator in unbonding queue", "attempting to remove a validator which still contains tokens"):
   an operation accepted today does not make a later block fail when an unbonding period matures. *)
From stdpp Require Import gmap.
Require Import Model.Base Model.Ante Model.Validate Model.Current Model.State Model.Staking Model.Slashing Model.Poa Model.App.
Require Import proofs.EvBasic proofs.Inv proofs.InvIdx proofs.L1Effects proofs.InvPres proofs.InvMsgs proofs.InvHistory.
Open Scope Z_scope.

Record QI (s : staking) : Prop := {
  (* every queued id has a record that is unbonding with exactly that completion time and height *)
  qi_sound : forall t h ids id, ubq s !! (t, h) = Some ids -> In id ids ->
               exists v, vals s !! id = Some v /\ v_status v = Unbonding /\ v_ubtime v = t /\ v_ubheight v = h;
  qi_nodup : forall t h ids, ubq s !! (t, h) = Some ids -> List.NoDup ids;
  (* a validator without shares holds no tokens (RemoveValidator refuses otherwise) *)
  qi_zero : forall id v, vals s !! id = Some v -> v_shares v = 0 -> v_tokens v <= 0
}.

Definition queued (s : staking) (id : Z) : Prop := exists t h ids, ubq s !! (t, h) = Some ids /\ In id ids.

Lemma not_unbonding_not_queued s id v : QI s -> vals s !! id = Some v -> v_status v <> Unbonding -> ~ queued s id.
Proof. intros HQ Hv Hs (t & h & ids & Hq & Hin). destruct (qi_sound _ HQ t h ids id Hq Hin) as (v' & Hv' & Hs' & _). congruence. Qed.

Lemma no_record_not_queued s id : QI s -> vals s !! id = None -> ~ queued s id.
Proof. intros HQ Hv (t & h & ids & Hq & Hin). destruct (qi_sound _ HQ t h ids id Hq Hin) as (v' & Hv' & _). congruence. Qed.

(* ---- replacing the record of a validator that keeps its queue-relevant fields, or is not queued ---- *)
Lemma QI_insert s s' id v' :
  QI s -> vals s' = <[id := v']> (vals s) -> ubq s' = ubq s ->
  ((exists v, vals s !! id = Some v /\ v_status v' = v_status v /\ v_ubtime v' = v_ubtime v /\ v_ubheight v' = v_ubheight v) \/ ~ queued s id) ->
  (v_shares v' = 0 -> v_tokens v' <= 0) ->
  QI s'.
Proof.
  intros [Hs Hn Hz] Hv Hq Hcase Hzero. constructor.
  - intros t h ids i. rewrite Hq, Hv. intros Hslot Hin. destruct (Hs t h ids i Hslot Hin) as (vi & Hvi & Hst & Ht & Hh).
    destruct (decide (i = id)) as [->|Hne].
    + rewrite lookup_insert. destruct Hcase as [(v & Hv0 & E1 & E2 & E3)|Hnq].
      * rewrite Hvi in Hv0. inversion Hv0; subst. exists v'. repeat split; congruence.
      * exfalso. apply Hnq. exists t, h, ids. auto.
    + rewrite lookup_insert_ne by auto. eauto.
  - intros t h ids. rewrite Hq. apply Hn.
  - intros i vi. rewrite Hv. destruct (decide (i = id)) as [->|Hne]; [rewrite lookup_insert; intros [= <-]; exact Hzero|].
    rewrite lookup_insert_ne by auto. apply Hz.
Qed.

(* ---- queue operations ---- *)
Lemma ubq_insert_lookup q t h id t' h' :
  ubq_insert t h id q !! (t', h') = if decide ((t', h') = (t, h)) then Some (default [] (q !! (t, h)) ++ [id]) else q !! (t', h').
Proof. unfold ubq_insert. destruct (decide _) as [->|Hne]; [apply lookup_insert|apply lookup_insert_ne; congruence]. Qed.

Lemma ubq_delete_lookup q t h id t' h' ids :
  ubq_delete t h id q !! (t', h') = Some ids ->
  (((t', h') <> (t, h) /\ q !! (t', h') = Some ids) \/
   ((t', h') = (t, h) /\ ids = filter (fun x => negb (x =? id)) (default [] (q !! (t, h))))).
Proof.
  unfold ubq_delete. destruct (filter _ _) as [|x l] eqn:Ef.
  - destruct (decide ((t', h') = (t, h))) as [->|Hne]; [rewrite lookup_delete; discriminate|rewrite lookup_delete_ne by congruence; auto].
  - destruct (decide ((t', h') = (t, h))) as [->|Hne]; [rewrite lookup_insert; intros [= <-]; right; auto|rewrite lookup_insert_ne by congruence; auto].
Qed.

Lemma filter_neq_in (l : list Z) id x : In x (filter (fun y => negb (y =? id)) l) <-> In x l /\ x <> id.
Proof. rewrite filter_In, negb_true_iff, Z.eqb_neq. tauto. Qed.

(* after DeleteValidatorQueue with the record's own time and height the validator is no longer queued *)
Lemma ubq_delete_unqueues s id v :
  QI s -> vals s !! id = Some v ->
  forall t' h' ids, ubq_delete (v_ubtime v) (v_ubheight v) id (ubq s) !! (t', h') = Some ids -> ~ In id ids.
Proof.
  intros HQ Hv t' h' ids Hl Hin. apply ubq_delete_lookup in Hl as [[Hne Hl]|[Heq ->]].
  - destruct (qi_sound _ HQ t' h' ids id Hl Hin) as (v' & Hv' & _ & Ht & Hh). rewrite Hv in Hv'. inversion Hv'; subst. congruence.
  - apply filter_neq_in in Hin as [_ Hne]. congruence.
Qed.

(* bond / mature: the record leaves the Unbonding status and the queue together *)
Lemma QI_leave_queue s s' id v v' :
  QI s -> vals s !! id = Some v ->
  vals s' = <[id := v']> (vals s) -> ubq s' = ubq_delete (v_ubtime v) (v_ubheight v) id (ubq s) ->
  (v_shares v' = 0 -> v_tokens v' <= 0) ->
  QI s'.
Proof.
  intros HQ Hv Hvals Hq Hzero. constructor.
  - intros t h ids i. rewrite Hq, Hvals. intros Hslot Hin.
    assert (i <> id) by (intros ->; eapply ubq_delete_unqueues; eauto).
    rewrite lookup_insert_ne by auto. apply ubq_delete_lookup in Hslot as [[Hne Hl]|[Heq ->]].
    + eapply (qi_sound _ HQ); eauto.
    + inversion Heq; subst. apply filter_neq_in in Hin as [Hin _]. destruct (ubq s !! (v_ubtime v, v_ubheight v)) as [ids0|] eqn:E; [|destruct Hin].
      eapply (qi_sound _ HQ); eauto.
  - intros t h ids. rewrite Hq. intros Hslot. apply ubq_delete_lookup in Hslot as [[Hne Hl]|[Heq ->]].
    + eapply (qi_nodup _ HQ); eauto.
    + destruct (ubq s !! (v_ubtime v, v_ubheight v)) as [ids0|] eqn:E; cbn; [|constructor].
      apply List.NoDup_filter. eapply (qi_nodup _ HQ); eauto.
  - intros i vi. rewrite Hvals. destruct (decide (i = id)) as [->|Hne]; [rewrite lookup_insert; intros [= <-]; exact Hzero|].
    rewrite lookup_insert_ne by auto. apply (qi_zero _ HQ).
Qed.

(* begin unbonding: the record enters the Unbonding status and the queue together *)
Lemma QI_enter_queue s s' id v v' t h :
  QI s -> vals s !! id = Some v -> v_status v = Bonded ->
  v_status v' = Unbonding -> v_ubtime v' = t -> v_ubheight v' = h ->
  vals s' = <[id := v']> (vals s) -> ubq s' = ubq_insert t h id (ubq s) ->
  (v_shares v' = 0 -> v_tokens v' <= 0) ->
  QI s'.
Proof.
  intros HQ Hv Hb Hs' Ht' Hh' Hvals Hq Hzero.
  assert (Hnq : ~ queued s id) by (eapply not_unbonding_not_queued; eauto; congruence).
  constructor.
  - intros t0 h0 ids i. rewrite Hq, Hvals, ubq_insert_lookup. destruct (decide ((t0, h0) = (t, h))) as [Heq|Hne].
    + assert (t0 = t /\ h0 = h) as [-> ->] by (inversion Heq; auto). intros Hsome Hin. inversion Hsome; subst ids. clear Hsome.
      apply in_app_or in Hin as [Hin|[<-|[]]].
      * destruct (ubq s !! (t, h)) as [ids0|] eqn:E; [|destruct Hin].
        assert (i <> id) by (intros ->; apply Hnq; exists t, h, ids0; auto).
        rewrite lookup_insert_ne by auto. eapply (qi_sound _ HQ); eauto.
      * rewrite lookup_insert. exists v'. auto.
    + intros Hslot Hin. assert (i <> id) by (intros ->; apply Hnq; exists t0, h0, ids; auto).
      rewrite lookup_insert_ne by auto. eapply (qi_sound _ HQ); eauto.
  - intros t0 h0 ids. rewrite Hq, ubq_insert_lookup. destruct (decide ((t0, h0) = (t, h))) as [Heq|Hne]; [|apply (qi_nodup _ HQ)].
    intros [= <-]. apply nodup_snoc.
    + destruct (ubq s !! (t, h)) as [ids0|] eqn:E; [|intros []]. intros Hin. apply Hnq. exists t, h, ids0. auto.
    + destruct (ubq s !! (t, h)) as [ids0|] eqn:E; [eapply (qi_nodup _ HQ); eauto|constructor].
  - intros i vi. rewrite Hvals. destruct (decide (i = id)) as [->|Hne]; [rewrite lookup_insert; intros [= <-]; exact Hzero|].
    rewrite lookup_insert_ne by auto. apply (qi_zero _ HQ).
Qed.

(* QI depends on the records, the queue only *)
Lemma QI_ext s s' : vals s' = vals s -> ubq s' = ubq s -> QI s -> QI s'.
Proof. intros Hv Hq [A B C]. constructor; intros *; rewrite ?Hv, ?Hq; eauto. Qed.

Lemma queued_ext s s' id : ubq s' = ubq s -> queued s' id <-> queued s id.
Proof. intros Hq. unfold queued. rewrite Hq. tauto. Qed.

(* ---- Slash, Jail, Unjail ---- *)
Lemma slash_QI c k p f c' : SI (stk c) -> QI (stk c) -> slash c k p f = Some c' -> QI (stk c').
Proof.
  intros HS HQ. unfold slash. destruct (f <? 0); [discriminate|].
  destruct (by_cons (stk c) !! k) as [id|]; [|intros [= <-]; exact HQ].
  destruct (vals (stk c) !! id) as [v|] eqn:Hv; [|intros [= <-]; exact HQ].
  destruct (status_eqb (v_status v) Unbonded); [discriminate|].
  set (burn := Z.max 0 (Z.min (p * power_reduction * f / dec_one) (v_tokens v))).
  destruct (burn =? 0); [intros [= <-]; exact HQ|].
  destruct (if status_eqb (v_status v) Bonded then _ else _); [|discriminate]. intros [= <-]. cbn.
  change (QI (rekey (stk c) id v (set_tokens v (v_tokens v - burn)))).
  eapply QI_insert; [exact HQ|apply rekey_vals|apply rekey_other| |].
  - left. exists v. repeat split; auto.
  - cbn. intros Hz. pose proof (qi_zero _ HQ id v Hv Hz). subst burn. lia.
Qed.

Lemma jail_QI s k s' : QI s -> jail s k = Some s' -> QI s'.
Proof.
  intros HQ. unfold jail. destruct (by_cons s !! k) as [id|]; [|discriminate]. destruct (vals s !! id) as [v|] eqn:Hv; [|discriminate].
  destruct (v_jailed v); [discriminate|]. intros [= <-].
  eapply QI_insert; [exact HQ|reflexivity|reflexivity| |].
  - left. exists v. repeat split; auto.
  - cbn. apply (qi_zero _ HQ id v Hv).
Qed.

Lemma unjail_QI s k s' : QI s -> unjail s k = Some s' -> QI s'.
Proof.
  intros HQ. unfold unjail. destruct (by_cons s !! k) as [id|]; [|discriminate]. destruct (vals s !! id) as [v|] eqn:Hv; [|discriminate].
  destruct (negb _); [discriminate|]. intros [= <-].
  eapply QI_insert; [exact HQ| | | |].
  - unfold set_index, set_validator. cbn. reflexivity.
  - unfold set_index, set_validator. cbn. reflexivity.
  - left. exists v. repeat split; auto.
  - cbn. apply (qi_zero _ HQ id v Hv).
Qed.

Lemma handle_signature_QI c k p sg c' : CI c -> QI (stk c) -> handle_signature c k p sg = Some c' -> QI (stk c').
Proof.
  intros [HS HP] HQ. unfold handle_signature. destruct (by_cons (stk c) !! k) as [id|]; [|discriminate].
  destruct (vals (stk c) !! id) as [v|]; [|discriminate]. destruct (v_jailed v); [intros [= <-]; exact HQ|].
  destruct (infos (sl c) !! k) as [i|]; [|discriminate].
  destruct (if negb _ && negb sg then _ else _) as [bm' cnt].
  destruct (_ && _).
  - destruct (slash c k p _) as [c1|] eqn:Es; [|discriminate]. destruct (jail (stk c1) k) as [s2|] eqn:Ej; [|discriminate].
    intros [= <-]. cbn. eapply jail_QI; [|exact Ej]. eapply slash_QI; eauto.
  - intros [= <-]. exact HQ.
Qed.

Lemma handle_votes_QI votes absent c c' : CI c -> QI (stk c) -> handle_votes votes absent c = Some c' -> QI (stk c').
Proof.
  revert c. induction votes as [|[k p] vs IH]; cbn; intros c HCI HQ; [intros [= <-]; exact HQ|].
  destruct (handle_signature c k p _) as [c1|] eqn:E; [|discriminate].
  apply IH; [eapply handle_signature_CI; eauto|eapply handle_signature_QI; eauto].
Qed.

Lemma handle_evidence_QI c e c' : CI c -> QI (stk c) -> handle_evidence c e = Some c' -> QI (stk c').
Proof.
  intros [HS HP] HQ H. apply handle_evidence_cases in H as [->|(id & v & i & c1 & s2 & _ & _ & _ & _ & _ & _ & Es & Hj & ->)]; [exact HQ|].
  cbn. pose proof (slash_QI _ _ _ _ _ HS HQ Es) as Q1. destruct Hj as [[_ ->]|[_ Ej]]; [exact Q1|eapply jail_QI; eauto].
Qed.

Lemma handle_evidences_QI evs c c' : CI c -> QI (stk c) -> handle_evidences evs c = Some c' -> QI (stk c').
Proof.
  intros HC HQ H. apply (handle_evidences_preserves (fun c => CI c /\ QI (stk c)) evs) in H; [exact (proj2 H)| |split; assumption].
  intros c0 e c1 [A B] E. split; [eapply handle_evidence_CI; eauto|eapply handle_evidence_QI; eauto].
Qed.

Lemma begin_block_QI c votes absent evs c' : CI c -> QI (stk c) -> begin_block c votes absent evs = inl c' -> QI (stk c').
Proof.
  intros HCI HQ. unfold begin_block. destruct (_ && _); [discriminate|]. destruct (handle_votes votes absent c) as [c1|] eqn:E; [|discriminate].
  destruct (handle_evidences evs c1) as [c2|] eqn:E2; [|discriminate].
  intros [= <-]. pose proof (handle_votes_QI _ _ _ _ HCI HQ E) as H1. pose proof (handle_votes_CI _ _ _ _ HCI E) as C1.
  pose proof (handle_evidences_QI _ _ _ C1 H1 E2) as H2. unfold poa_begin_block. destruct (1 <? height c2); exact H2.
Qed.

(* ---- SetPOAPower on a validator that is not queued ---- *)
Lemma set_poa_power_QI c val n c' :
  SI (stk c) -> QI (stk c) -> ~ queued (stk c) val -> 0 <= n -> set_poa_power c val n = MOk c' -> QI (stk c').
Proof.
  intros HS HQ Hnq Hn. unfold set_poa_power.
  destruct (vals (stk c) !! val) as [v|] eqn:Hv; [|discriminate]. destruct (_ =? _); [discriminate|].
  set (v2 := set_status (set_shares (set_tokens (set_tokens v n) n) (n * dec_one)) Bonded).
  assert (Hz2 : v_shares v2 = 0 -> v_tokens v2 <= 0) by (cbn; unfold dec_one; lia).
  destruct (_ && _).
  - destruct (slash _ _ _ _) as [c2|] eqn:Es; [|discriminate]. cbn [mbind].
    intros H. apply update_validator_set_spec in H as (Hvals & _ & _ & _ & _ & Hubq & _). cbn in Hvals, Hubq.
    assert (HS1 : SI (del_index (stk c) val v)) by (apply SI_del_index; exact HS).
    assert (HQ1 : QI (del_index (stk c) val v)) by (eapply QI_ext; [| |exact HQ]; reflexivity).
    pose proof (slash_QI (with_stk c (del_index (stk c) val v)) _ _ _ _ HS1 HQ1 Es) as HQ2.
    pose proof (slash_frame _ _ _ _ _ Es) as (_ & _ & _ & _ & _ & _ & _ & Hubq2 & _). cbn in Hubq2.
    eapply QI_insert with (s := del_index (stk c2) val (set_tokens v n)) (v' := v2);
      [eapply QI_ext; [| |exact HQ2]; reflexivity|exact Hvals|exact Hubq| |exact Hz2].
    right. intros Hq. apply Hnq. revert Hq. unfold queued. cbn. rewrite Hubq2. tauto.
  - cbn [mbind]. intros H. apply update_validator_set_spec in H as (Hvals & _ & _ & _ & _ & Hubq & _). cbn in Hvals, Hubq.
    eapply QI_insert with (s := stk c) (v' := v2); [exact HQ| | | |exact Hz2].
    + rewrite Hvals. unfold set_index, del_index. cbn. destruct (v_jailed v); reflexivity.
    + rewrite Hubq. unfold set_index, del_index. cbn. destruct (v_jailed v); reflexivity.
    + right; exact Hnq.
Qed.

Lemma accept_QI c p c' : QI (stk c) -> vals (stk c) !! p_oper p = None -> accept_new_validator c p = MOk c' -> QI (stk c').
Proof.
  intros HQ Hnv. unfold accept_new_validator. intros H. apply update_bonded_pool_stk in H as (Hs & _). rewrite Hs. cbn.
  eapply QI_insert with (s := stk c); [exact HQ|reflexivity|reflexivity| |].
  - right. eapply no_record_not_queued; eauto.
  - cbn. lia.
Qed.

(* ---- message level ---- *)
Lemma exec_msg_QI c m c' : CI c -> QI (stk c) -> exec_msg c m = MOk c' -> QI (stk c').
Proof.
  intros [HS HP] HQ. destruct m as [s v p u|s v|s v|v k mon r mx ch msd|s p|v|s|s t]; cbn.
  - unfold msg_set_power. destruct (negb (is_admin s)); [discriminate|].
    destruct (setpower_validate (0 <=? v) p) as [[]|] eqn:Ev; [|discriminate].
    destruct (find_pending v (pending (poa c))) as [q|] eqn:Ef.
    + apply find_pending_in in Ef as [Hin Hop]. destruct (accept_new_validator c q) as [c1|] eqn:Ea; [|discriminate]. cbn [mbind].
      destruct (accept_SI_PI _ _ _ HS HP Hin Ea) as [HS1 HP1].
      assert (Hnv : vals (stk c) !! p_oper q = None) by (apply (pi_not_val _ HP); exact Hin).
      pose proof (accept_QI _ _ _ HQ Hnv Ea) as HQ1.
      destruct (set_poa_power c1 v (cast_i64 p)) as [c2|] eqn:E2; [|discriminate]. cbn [mbind].
      assert (HQ2 : QI (stk c2)).
      { eapply (set_poa_power_QI c1 v (cast_i64 p) c2); [exact HS1|exact HQ1| |exact (cast_i64_of_valid v p Ev)|exact E2].
        (* the freshly accepted validator is Unbonded, hence not queued *)
        subst v. unfold accept_new_validator in Ea. apply update_bonded_pool_stk in Ea as (Hs1 & _).
        eapply not_unbonding_not_queued; [exact HQ1|rewrite Hs1; cbn; apply lookup_insert|cbn; discriminate]. }
      destruct (negb u && (1 <? height c2)).
      * destruct (_ =? 0); [discriminate|]. destruct (30 <=? _); [discriminate|]. intros H. apply update_bonded_pool_stk in H as (-> & _). exact HQ2.
      * intros H. apply update_bonded_pool_stk in H as (-> & _). exact HQ2.
    + destruct (ensure_active c v) as [c1|] eqn:Ee; [|discriminate]. cbn [mbind].
      pose proof Ee as Ee'. apply ensure_active_id in Ee' as ->.
      assert (Hnq : ~ queued (stk c) v).
      { unfold ensure_active in Ee. destruct (vals (stk c) !! v) as [vv|] eqn:Hv; [|discriminate]. destruct (v_jailed vv); [discriminate|].
        destruct (v_status vv) eqn:Est; cbn in Ee; try discriminate. eapply not_unbonding_not_queued; eauto. congruence. }
      destruct (set_poa_power c v (cast_i64 p)) as [c2|] eqn:E2; [|discriminate]. cbn [mbind].
      pose proof (set_poa_power_QI _ _ _ _ HS HQ Hnq (cast_i64_of_valid v p Ev) E2) as HQ2.
      destruct (negb u && (1 <? height c2)).
      * destruct (_ =? 0); [discriminate|]. destruct (30 <=? _); [discriminate|]. intros H. apply update_bonded_pool_stk in H as (-> & _). exact HQ2.
      * intros H. apply update_bonded_pool_stk in H as (-> & _). exact HQ2.
  - unfold msg_remove_validator. destruct (if is_admin s then None else _); [discriminate|]. destruct (_ =? 0); [discriminate|].
    destruct (vals (stk c) !! v) as [vv|] eqn:Hv; [|discriminate]. destruct (v_status vv) eqn:Est; cbn; try discriminate.
    destruct (set_poa_power c v 0) as [c1|] eqn:E; [|discriminate]. cbn [mbind].
    intros H. apply update_bonded_pool_stk in H as (-> & _). cbn.
    eapply (set_poa_power_QI c v 0 c1); [exact HS|exact HQ| |lia|exact E]. eapply not_unbonding_not_queued; eauto. congruence.
  - unfold msg_remove_pending. destruct (negb _); [discriminate|]. intros [= <-]. exact HQ.
  - destruct r as [r|], mx as [mx|], ch as [ch|]; try discriminate.
    unfold msg_create_validator. destruct (poa_create_validate _); try discriminate. destruct (_ <? _); [discriminate|].
    destruct (bool_decide _); [discriminate|]. destruct (bool_decide _); [discriminate|]. destruct (pending_conflict _ _ _); [discriminate|].
    destruct (negb _); [discriminate|]. intros H. apply update_bonded_pool_stk in H as (-> & _). exact HQ.
  - unfold msg_update_params. destruct (negb _); [discriminate|]. destruct (negb _); [discriminate|]. destruct (negb _); [discriminate|].
    intros [= <-]. eapply QI_ext; [| |exact HQ]; reflexivity.
  - unfold msg_unjail. destruct (vals (stk c) !! v) as [vv|]; [|discriminate]. destruct (dels (stk c) !! v); [|discriminate].
    destruct (_ =? 0); [discriminate|]. destruct (_ <? _); [discriminate|]. destruct (negb _); [discriminate|].
    destruct (match infos _ !! _ with Some _ => _ | None => _ end); [discriminate|].
    destruct (unjail (stk c) (v_cons vv)) as [s'|] eqn:E; [|discriminate]. intros [= <-]. cbn. eapply unjail_QI; eauto.
  - intros [= <-]. exact HQ.
  - intros [= <-]. exact HQ.
Qed.

Lemma exec_msgs_QI ms c c' : CI c -> QI (stk c) -> exec_msgs c ms = MOk c' -> QI (stk c').
Proof.
  revert c. induction ms as [|m ms IH]; cbn; intros c HCI HQ; [intros [= <-]; exact HQ|].
  destruct (exec_msg c m) as [c1|] eqn:E; [|discriminate]. cbn. apply IH; [eapply exec_msg_CI; eauto|eapply exec_msg_QI; eauto].
Qed.

Lemma deliver_tx_QI c tx : CI c -> QI (stk c) -> QI (stk (fst (deliver_tx c tx))).
Proof.
  intros HCI HQ. unfold deliver_tx. destruct (cur_stk_decorator _ _); [exact HQ|]. destruct (cur_wd_decorator _ _); [exact HQ|].
  destruct (cur_comm_decorator _ _ _ _ _); try exact HQ.
  destruct (existsb is_tree tx); [exact HQ|].
  destruct (exec_msgs _ tx) as [c2|] eqn:E; [|exact HQ]. cbn.
  eapply exec_msgs_QI; [| |exact E]; [apply CI_seqs; exact HCI|exact HQ].
Qed.

Lemma deliver_txs_QI txs c : CI c -> QI (stk c) -> QI (stk (fst (deliver_txs c txs))).
Proof.
  revert c. induction txs as [|tx txs IH]; cbn; intros c HCI HQ; [exact HQ|].
  pose proof (deliver_tx_QI c tx HCI HQ) as Q1. pose proof (deliver_tx_CI c tx HCI) as H1. destruct (deliver_tx c tx) as [c1 o]. cbn in *.
  specialize (IH c1 H1 Q1). destruct (deliver_txs c1 txs) as [c2 os]. exact IH.
Qed.

(* ---- maturity ---- *)
Lemma QI_remove s s' id v :
  QI s -> vals s !! id = Some v ->
  vals s' = delete id (vals s) -> ubq s' = ubq_delete (v_ubtime v) (v_ubheight v) id (ubq s) ->
  QI s'.
Proof.
  intros HQ Hv Hvals Hq. constructor.
  - intros t h ids i. rewrite Hq, Hvals. intros Hslot Hin.
    assert (i <> id) by (intros ->; eapply ubq_delete_unqueues; eauto).
    rewrite lookup_delete_ne by auto. apply ubq_delete_lookup in Hslot as [[Hne Hl]|[Heq ->]].
    + eapply (qi_sound _ HQ); eauto.
    + inversion Heq; subst. apply filter_neq_in in Hin as [Hin _]. destruct (ubq s !! (v_ubtime v, v_ubheight v)) as [ids0|] eqn:E; [|destruct Hin].
      eapply (qi_sound _ HQ); eauto.
  - intros t h ids. rewrite Hq. intros Hslot. apply ubq_delete_lookup in Hslot as [[Hne Hl]|[Heq ->]].
    + eapply (qi_nodup _ HQ); eauto.
    + destruct (ubq s !! (v_ubtime v, v_ubheight v)) as [ids0|] eqn:E; cbn; [|constructor].
      apply List.NoDup_filter. eapply (qi_nodup _ HQ); eauto.
  - intros i vi. rewrite Hvals. destruct (decide (i = id)) as [->|Hne]; [rewrite lookup_delete; discriminate|].
    rewrite lookup_delete_ne by auto. apply (qi_zero _ HQ).
Qed.

Lemma ubq_delete_other q t h id k : k <> (t, h) -> ubq_delete t h id q !! k = q !! k.
Proof.
  intros Hne. unfold ubq_delete. destruct (filter _ _); [apply lookup_delete_ne|apply lookup_insert_ne]; congruence.
Qed.

Lemma ubq_delete_keeps q t h id L x :
  q !! (t, h) = Some L -> In x L -> x <> id -> exists L', ubq_delete t h id q !! (t, h) = Some L' /\ In x L'.
Proof.
  intros Hq Hin Hne. unfold ubq_delete. rewrite Hq. cbn.
  assert (Hf : In x (filter (fun y => negb (y =? id)) L)) by (apply filter_neq_in; auto).
  destruct (filter _ L) as [|a l] eqn:E; [destruct Hf|]. exists (a :: l). split; [apply lookup_insert|exact Hf].
Qed.

Lemma mature_ids_ok ids : forall c t h,
  QI (stk c) -> List.NoDup ids ->
  (forall id, In id ids -> exists L, ubq (stk c) !! (t, h) = Some L /\ In id L) ->
  exists c', mature_ids ids c = Some c' /\ QI (stk c') /\ (forall k, k <> (t, h) -> ubq (stk c') !! k = ubq (stk c) !! k).
Proof.
  induction ids as [|id rest IH]; intros c t h HQ Hnd Hall; cbn [mature_ids].
  - exists c. auto.
  - inversion Hnd as [|? ? Hnotin Hnd']; subst.
    destruct (Hall id (or_introl eq_refl)) as (L & HL & HinL).
    destruct (qi_sound _ HQ t h L id HL HinL) as (v & Hv & Hst & Ht & Hh).
    rewrite Hv, Hst. cbn [status_eqb negb].
    set (v' := set_status v Unbonded).
    assert (Hrest : forall s3, ubq s3 = ubq_delete t h id (ubq (stk c)) ->
              forall id', In id' rest -> exists L', ubq s3 !! (t, h) = Some L' /\ In id' L').
    { intros s3 Hs3 id' Hin'. destruct (Hall id' (or_intror Hin')) as (L0 & HL0 & Hin0). rewrite HL in HL0. inversion HL0; subst L0.
      rewrite Hs3. eapply ubq_delete_keeps; eauto. intros ->. contradiction. }
    destruct (v_shares v' =? 0) eqn:Esh.
    + assert (Htok : v_tokens v <= 0) by (apply (qi_zero _ HQ id v Hv); cbn in Esh; lia).
      replace (0 <? v_tokens v') with false by (cbn; lia).
      match goal with |- exists c', mature_ids rest (with_stk c ?x) = _ /\ _ => set (s3 := x) end.
      assert (HQ3 : QI s3).
      { eapply (QI_remove (stk c) s3 id v HQ Hv); subst s3; cbn; [apply delete_insert_delete|]. subst v'. cbn. rewrite Ht, Hh. reflexivity. }
      destruct (IH (with_stk c s3) t h HQ3 Hnd') as (c' & Hm & HQ' & Hk).
      { apply Hrest. subst s3 v'. cbn. rewrite Ht, Hh. reflexivity. }
      exists c'. split; [exact Hm|]. split; [exact HQ'|]. intros k Hne. rewrite (Hk k Hne). subst s3 v'. cbn. rewrite Ht, Hh. apply ubq_delete_other; exact Hne.
    + match goal with |- exists c', mature_ids rest (with_stk c ?x) = _ /\ _ => set (s3 := x) end.
      assert (HQ3 : QI s3).
      { eapply (QI_leave_queue (stk c) s3 id v v' HQ Hv); subst s3; cbn; [reflexivity| |].
        - subst v'. cbn. rewrite Ht, Hh. reflexivity.
        - intros Hz. cbn in Esh. lia. }
      destruct (IH (with_stk c s3) t h HQ3 Hnd') as (c' & Hm & HQ' & Hk).
      { apply Hrest. subst s3 v'. cbn. rewrite Ht, Hh. reflexivity. }
      exists c'. split; [exact Hm|]. split; [exact HQ'|]. intros k Hne. rewrite (Hk k Hne). subst s3 v'. cbn. rewrite Ht, Hh. apply ubq_delete_other; exact Hne.
Qed.

Lemma mature_slots_ok slots : forall c,
  QI (stk c) -> List.NoDup (map fst slots) ->
  (forall t h ids, In (t, h, ids) slots -> ubq (stk c) !! (t, h) = Some ids) ->
  exists c', mature_slots slots c = Some c' /\ QI (stk c').
Proof.
  induction slots as [|[[t h] ids] rest IH]; intros c HQ Hnd Hall; cbn [mature_slots].
  - exists c. auto.
  - cbn in Hnd. inversion Hnd as [|? ? Hnotin Hnd']; subst.
    destruct ((t <=? now c) && (h <=? height c)).
    + pose proof (Hall t h ids (or_introl eq_refl)) as Hslot.
      destruct (mature_ids_ok ids c t h HQ (qi_nodup _ HQ t h ids Hslot)) as (c1 & Hm & HQ1 & Hk).
      { intros id Hin. exists ids. auto. }
      rewrite Hm. apply IH; [exact HQ1|exact Hnd'|].
      intros t' h' ids' Hin'. rewrite Hk; [apply Hall; right; exact Hin'|].
      intros Heq. apply Hnotin. rewrite <- Heq. change (t', h') with (fst (t', h', ids')). apply in_map. exact Hin'.
    + apply IH; [exact HQ|exact Hnd'|]. intros t' h' ids' Hin'. apply Hall. right; exact Hin'.
Qed.

Lemma unbond_all_mature_ok c : QI (stk c) -> exists c', unbond_all_mature c = Some c' /\ QI (stk c').
Proof.
  intros HQ. unfold unbond_all_mature, sorted_slots. apply mature_slots_ok; [exact HQ| |].
  - eapply Permutation_NoDup; [apply Permutation_map; symmetry; apply sort_by_perm|].
    rewrite map_fmap. apply NoDup_ListNoDup. apply NoDup_fst_map_to_list.
  - intros t h ids Hin. apply (Permutation_in _ (sort_by_perm slot_le _)) in Hin.
    apply elem_of_list_In in Hin. apply (elem_of_map_to_list (ubq (stk c)) (t, h) ids) in Hin. exact Hin.
Qed.

(* ---- EndBlocker loops ---- *)
Lemma bond_validator_QI c id v : QI (stk c) -> vals (stk c) !! id = Some v -> QI (stk (fst (bond_validator c id v))).
Proof.
  intros HQ Hv. unfold bond_validator. cbn.
  eapply (QI_leave_queue (stk c) _ id v (set_status v Bonded) HQ Hv).
  - unfold set_index, set_validator, del_index. cbn. destruct (v_jailed v); reflexivity.
  - unfold set_index, set_validator, del_index. cbn. destruct (v_jailed v); reflexivity.
  - cbn. apply (qi_zero _ HQ id v Hv).
Qed.

Lemma apply_loop_QI keys maxv a a' :
  QI (stk (la_chain a)) -> apply_loop keys maxv a = LDone a' -> QI (stk (la_chain a')).
Proof.
  revert a. induction keys as [|[p id] ks IH]; intros a HQ; cbn [apply_loop]; [intros [= <-]; exact HQ|].
  destruct (maxv <=? la_count a); [intros [= <-]; exact HQ|].
  destruct (vals (stk (la_chain a)) !! id) as [v|] eqn:Hv; [|discriminate].
  destruct (v_jailed v); [apply IH; exact HQ|].
  destruct (v_power v =? 0); [intros [= <-]; exact HQ|].
  set (r := match v_status v with Bonded => (la_chain a, v, 0) | _ => let '(c', v') := bond_validator (la_chain a) id v in (c', v', v_tokens v') end).
  assert (Hr : exists c1 v1 moved, r = (c1, v1, moved) /\ QI (stk c1)).
  { subst r. pose proof (bond_validator_QI _ id v HQ Hv) as Hb.
    destruct (v_status v); [destruct (bond_validator (la_chain a) id v) as [c' v'']; cbn in Hb; do 3 eexists; split; [reflexivity|exact Hb]..|].
    do 3 eexists; split; [reflexivity|exact HQ]. }
  destruct Hr as (c1 & v1 & moved & -> & HQ1). cbn zeta.
  apply IH. cbn [la_chain].
  destruct (match la_last a !! id with Some old => negb (old =? v_power v1) | None => true end); [|exact HQ1].
  eapply QI_ext; [| |exact HQ1]; reflexivity.
Qed.

Lemma unbond_loop_QI ids a a' :
  QI (stk (la_chain a)) -> unbond_loop ids a = LDone a' -> QI (stk (la_chain a')).
Proof.
  revert a. induction ids as [|id rest IH]; intros a HQ; cbn [unbond_loop]; [intros [= <-]; exact HQ|].
  destruct (vals (stk (la_chain a)) !! id) as [v|] eqn:Hv; [|discriminate].
  destruct (status_eqb (v_status v) Bonded) eqn:Est; cbn [negb]; [|discriminate].
  destruct (begin_unbonding (la_chain a) id v) as [c1 v1] eqn:Eb. apply IH. cbn [la_chain].
  unfold begin_unbonding in Eb. inversion Eb; subst c1 v1. cbn.
  set (t := now (la_chain a) + sp_unbonding_time (params (stk (la_chain a))) / 1000000000).
  eapply (QI_enter_queue (stk (la_chain a)) _ id v (set_unbonding v (height (la_chain a)) t) t (height (la_chain a)) HQ Hv);
    try reflexivity.
  - destruct (v_status v); try discriminate; reflexivity.
  - unfold set_index, set_validator, del_index. cbn. destruct (v_jailed v); reflexivity.
  - unfold set_index, set_validator, del_index. cbn. destruct (v_jailed v); reflexivity.
  - cbn. apply (qi_zero _ HQ id v Hv).
Qed.

Lemma apply_valset_updates_QI c c' upd : QI (stk c) -> apply_valset_updates c = EBOk c' upd -> QI (stk c').
Proof.
  intros HQ. unfold apply_valset_updates.
  destruct (apply_loop _ _ _) as [a1|] eqn:E1; [|discriminate].
  destruct (unbond_loop _ a1) as [a2|] eqn:E2; [|discriminate].
  assert (H1 : QI (stk (la_chain a1))) by (eapply apply_loop_QI; [|exact E1]; exact HQ).
  pose proof (unbond_loop_QI _ _ _ H1 E2) as H2.
  destruct (if la_to_bonded a2 =? 0 then _ else _) as [b|]; [|discriminate]. intros [= <- _].
  destruct (la_upd a2); [exact H2|]. eapply QI_ext; [| |exact H2]; reflexivity.
Qed.

Lemma apply_loop_halt keys maxv : forall a e, apply_loop keys maxv a = LHalt e -> e = 1.
Proof.
  induction keys as [|[p id] ks IH]; intros a e; cbn [apply_loop]; [discriminate|].
  destruct (_ <=? _); [discriminate|]. destruct (vals _ !! id) as [v|]; [|intros [= <-]; reflexivity].
  destruct (v_jailed v); [apply IH|]. destruct (_ =? 0); [discriminate|].
  destruct (match v_status v with Bonded => _ | _ => _ end) as [[c1 v1] moved]. apply IH.
Qed.

Lemma unbond_loop_halt ids : forall a e, unbond_loop ids a = LHalt e -> e = 1 \/ e = 2.
Proof.
  induction ids as [|id rest IH]; intros a e; cbn [unbond_loop]; [discriminate|].
  destruct (vals _ !! id); [|intros [= <-]; auto]. destruct (negb _); [intros [= <-]; auto|]. destruct (begin_unbonding _ _ _). apply IH.
Qed.

(* the staking EndBlocker never stops on the unbonding queue, and keeps the queue invariant *)
Lemma staking_end_block_no_queue_halt c : QI (stk c) -> staking_end_block c <> EBHalt 3.
Proof.
  intros HQ. unfold staking_end_block. destruct (apply_valset_updates c) as [c1 u|e] eqn:E1.
  - pose proof (apply_valset_updates_QI _ _ _ HQ E1) as HQ1. destruct (unbond_all_mature_ok c1 HQ1) as (c2 & -> & _). discriminate.
  - intros [= ->]. revert E1. unfold apply_valset_updates.
    destruct (apply_loop _ _ _) as [a1|e1] eqn:L1.
    + destruct (unbond_loop _ a1) as [a2|e2] eqn:L2.
      * destruct (if la_to_bonded a2 =? 0 then _ else _); discriminate.
      * intros [= ->]. apply unbond_loop_halt in L2. lia.
    + intros [= ->]. apply apply_loop_halt in L1. lia.
Qed.

Lemma staking_end_block_QI c c' upd : QI (stk c) -> staking_end_block c = EBOk c' upd -> QI (stk c').
Proof.
  intros HQ. unfold staking_end_block. destruct (apply_valset_updates c) as [c1 u|] eqn:E1; [|discriminate].
  pose proof (apply_valset_updates_QI _ _ _ HQ E1) as HQ1. destruct (unbond_all_mature_ok c1 HQ1) as (c2 & E2 & HQ2). rewrite E2.
  intros [= <- _]. exact HQ2.
Qed.

(* ---- histories ---- *)
Lemma genesis_chain_QI g : QI (stk (genesis_chain g)).
Proof.
  constructor; cbn.
  - intros t h ids id H. rewrite lookup_empty in H. discriminate.
  - intros t h ids H. rewrite lookup_empty in H. discriminate.
  - intros id v H. apply list_to_map_lookup_inv in H. apply in_map_iff in H as ([i t] & Heq & Hin). cbn in Heq. inversion Heq; subst. cbn. unfold dec_one. lia.
Qed.

Lemma init_world_QI g : QI (stk (w_chain (init_world g))).
Proof.
  pose proof (genesis_chain_QI g) as H0. unfold init_world. fold (genesis_chain g).
  change (match apply_valset_updates (genesis_chain g) with
          | EBOk c1 upd => _ | EBHalt e => _ end) with
    (match apply_valset_updates (genesis_chain g) with
     | EBHalt e => {| w_chain := genesis_chain g; w_comet := {| c_prev := None; c_cur := ∅; c_next := ∅ |}; w_halted := Some (HEndBlock e) |}
     | EBOk c1 upd =>
       {| w_chain := with_poa c1 {| pending := []; cached_power := last_total (stk c1); abs_changed := 0 |};
          w_comet := {| c_prev := None; c_cur := apply_updates ∅ upd; c_next := apply_updates ∅ upd |}; w_halted := None |}
     end).
  destruct (apply_valset_updates (genesis_chain g)) as [c1 upd|e] eqn:E; cbn; [|exact H0].
  eapply apply_valset_updates_QI; eauto.
Qed.

Lemma run_block_QI w b : CI (w_chain w) -> QI (stk (w_chain w)) -> QI (stk (w_chain (fst (run_block w b)))).
Proof.
  intros HCI HQ. unfold run_block. destruct (w_halted w); [exact HQ|].
  set (c0 := with_clock (w_chain w) (height (w_chain w) + 1) (now (w_chain w) + b_dt b)).
  assert (H0 : CI c0) by (apply CI_clock; exact HCI).
  assert (Q0 : QI (stk c0)) by exact HQ.
  destruct (begin_block c0 _ (b_absent b) (b_evidence b)) as [c1|e] eqn:Eb; [|exact Q0].
  pose proof (begin_block_CI _ _ _ _ _ H0 Eb) as H1. pose proof (begin_block_QI _ _ _ _ _ H0 Q0 Eb) as Q1.
  pose proof (deliver_txs_CI (b_txs b) c1 H1) as H2. pose proof (deliver_txs_QI (b_txs b) c1 H1 Q1) as Q2.
  destruct (deliver_txs c1 (b_txs b)) as [c2 outs]. cbn in H2, Q2.
  destruct (staking_end_block c2) as [c3 upd|e] eqn:Ee; [|exact Q2].
  pose proof (staking_end_block_QI _ _ _ Q2 Ee) as Q3.
  destruct (comet_apply _ upd); exact Q3.
Qed.

Theorem reachable_QI g bs : wf_genesis g -> QI (stk (w_chain (run_world (init_world g) bs))).
Proof.
  intros Hwf. pose proof (init_world_CI g Hwf) as HC. pose proof (init_world_QI g) as HQ.
  revert HC HQ. generalize (init_world g). induction bs as [|b bs IH]; cbn; intros w HC HQ; [exact HQ|].
  apply IH; [apply run_block_CI; exact HC|apply run_block_QI; assumption].
Qed.

(* no block of any history stops on the unbonding queue ("validator in the unbonding queue was not found",
   "unexpected validator in unbonding queue", "attempting to remove a validator which still contains tokens") *)
Theorem block_no_queue_halt w b :
  CI (w_chain w) -> QI (stk (w_chain w)) -> w_halted w = None -> w_halted (fst (run_block w b)) <> Some (HEndBlock 3).
Proof.
  intros HCI HQ Hh. unfold run_block. rewrite Hh.
  set (c0 := with_clock (w_chain w) (height (w_chain w) + 1) (now (w_chain w) + b_dt b)).
  assert (H0 : CI c0) by (apply CI_clock; exact HCI).
  assert (Q0 : QI (stk c0)) by exact HQ.
  destruct (begin_block c0 _ (b_absent b) (b_evidence b)) as [c1|e] eqn:Eb; [|cbn; discriminate].
  pose proof (begin_block_CI _ _ _ _ _ H0 Eb) as H1. pose proof (begin_block_QI _ _ _ _ _ H0 Q0 Eb) as Q1.
  pose proof (deliver_txs_QI (b_txs b) c1 H1 Q1) as Q2.
  destruct (deliver_txs c1 (b_txs b)) as [c2 outs]. cbn in Q2.
  pose proof (staking_end_block_no_queue_halt c2 Q2) as Hn.
  destruct (staking_end_block c2) as [c3 upd|e] eqn:Ee.
  - destruct (comet_apply _ upd); cbn; discriminate.
  - cbn. intros [= ->]. apply Hn. reflexivity.
Qed.

Theorem history_no_queue_halt g bs :
  wf_genesis g -> w_halted (run_world (init_world g) bs) <> Some (HEndBlock 3).
Proof.
  intros Hwf. pose proof (init_world_CI g Hwf) as HC. pose proof (init_world_QI g) as HQ.
  assert (H0 : w_halted (init_world g) <> Some (HEndBlock 3)).
  { unfold init_world. fold (genesis_chain g).
    destruct (apply_valset_updates (genesis_chain g)) as [c1 upd|e] eqn:E; cbn; [discriminate|].
    intros [= ->]. revert E. unfold apply_valset_updates.
    destruct (apply_loop _ _ _) as [a1|e1] eqn:L1.
    - destruct (unbond_loop _ a1) as [a2|e2] eqn:L2.
      + destruct (if la_to_bonded a2 =? 0 then _ else _); discriminate.
      + intros [= ->]. apply unbond_loop_halt in L2. lia.
    - intros [= ->]. apply apply_loop_halt in L1. lia. }
  revert HC HQ H0. generalize (init_world g). induction bs as [|b bs IH]; cbn; intros w HC HQ H0; [exact H0|].
  apply IH; [apply run_block_CI; exact HC|apply run_block_QI; assumption|].
  destruct (w_halted w) as [r|] eqn:Hh.
  - unfold run_block. rewrite Hh. cbn. rewrite Hh. exact H0.
  - apply block_no_queue_halt; assumption.
Qed.
