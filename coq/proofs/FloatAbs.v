(* FloatAbs.v — the one floating-point step of the code: uint64(math.Abs(float64(newPower - powerBefore))) is the exact
   absolute difference for every difference below 2^53 in absolute value (IEEE 754 binary64, Flocq's formalisation). *)
From Coq Require Import ZArith Reals Lia Lra.
From Flocq Require Import Core.Core IEEE754.BinarySingleNaN.
Open Scope Z_scope.

Global Instance prec64_gt_0 : Prec_gt_0 53 := eq_refl.
Global Instance prec64_lt_emax : Prec_lt_emax 53 1024 := eq_refl.

Definition f64 := binary_float 53 1024.
(* float64(d): the integer rounded to nearest, ties to even *)
Definition f64_of_Z (d : Z) : f64 := binary_normalize 53 1024 _ _ mode_NE d 0 false.
(* uint64(x) for a finite x: truncation toward zero *)
Definition Z_of_f64 (x : f64) : Z := Ztrunc (B2R x).
Definition go_abs_diff (d : Z) : Z := Z_of_f64 (Babs (f64_of_Z d)).

Theorem go_abs_diff_exact d : Z.abs d < 2 ^ 53 -> go_abs_diff d = Z.abs d.
Proof.
  intros Hd. unfold go_abs_diff, Z_of_f64, f64_of_Z.
  pose proof (binary_normalize_correct 53 1024 _ _ mode_NE d 0 false) as H. cbv zeta in H.
  assert (Hx : F2R (Float radix2 d 0) = IZR d) by (unfold F2R; simpl; lra).
  rewrite Hx in H.
  assert (Hg : generic_format radix2 (FLT_exp (3 - 1024 - 53) 53) (IZR d)).
  { apply generic_format_FLT. exists (Float radix2 d 0); [symmetry; exact Hx|simpl; exact Hd|simpl; lia]. }
  rewrite round_generic in H; [|auto with typeclass_instances|exact Hg].
  rewrite Rlt_bool_true in H.
  - destruct H as (HB & _). rewrite B2R_Babs, HB, <- abs_IZR, Ztrunc_IZR. reflexivity.
  - rewrite <- abs_IZR. apply Rlt_trans with (IZR (2 ^ 53)); [apply IZR_lt; exact Hd|].
    change (2 ^ 53) with (Zpower radix2 53). rewrite IZR_Zpower by lia. apply bpow_lt. lia.
Qed.
