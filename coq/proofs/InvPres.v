(* InvPres.v — the store invariant SI is preserved by every operation that touches x/staking's store:
   Slash, Jail, Unjail, SetPOAPower (assignment and removal), AcceptNewValidator, the EndBlocker's
   state transitions and the maturity of unbonding validators. *)
From stdpp Require Import gmap.
Require Import Model.Base Model.Validate Model.State Model.Staking Model.Slashing Model.Poa.
Require Import proofs.EvBasic proofs.Inv proofs.InvIdx proofs.L1Effects.
Open Scope Z_scope.

Record SI (s : staking) : Prop := {
  si_sound : idx_sound s;
  si_unique : idx_unique s;
  si_cons : cons_inj s;
  si_last : last_bonded s;
  si_tok : tokens_nonneg s;
  (* the consensus-address index knows every record *)
  si_bycons : forall id v, vals s !! id = Some v -> by_cons s !! v_cons v = Some id
}.

(* replacing [id]'s record by one with the same consensus key, keeping the index in step *)
Lemma SI_rekey s id v v' :
  SI s -> vals s !! id = Some v -> v_cons v' = v_cons v -> 0 <= v_tokens v' ->
  (v_status v = Bonded -> v_status v' = Bonded) ->
  SI (rekey s id v v').
Proof.
  intros [Hs Hu Hc Hl Ht Hb] Hv Hcons Htok Hst.
  destruct (rekey_sound s id v v' Hs Hu Hv) as [Hs' Hu'].
  destruct (rekey_other s id v v') as (Hlp & Hbc & _).
  constructor; auto.
  - eapply cons_inj_insert; eauto. apply rekey_vals.
  - eapply last_bonded_insert; eauto. apply rekey_vals.
  - eapply tokens_nonneg_insert; eauto. apply rekey_vals.
  - intros i vi. rewrite rekey_vals, Hbc. destruct (decide (i = id)) as [->|Hne].
    + rewrite lookup_insert. intros [= <-]. rewrite Hcons. apply Hb; exact Hv.
    + rewrite lookup_insert_ne by auto. apply Hb.
Qed.

Lemma filter_all_true {A} (f : A -> bool) l : (forall x, In x l -> f x = true) -> filter f l = l.
Proof.
  induction l as [|x l IH]; cbn; intros H; [reflexivity|]. rewrite (H x (or_introl eq_refl)). f_equal. apply IH. intros y Hy. apply H. right; exact Hy.
Qed.

(* ---- Slash ---- *)
Lemma slash_SI c k p f c' : SI (stk c) -> slash c k p f = Some c' -> SI (stk c').
Proof.
  intros HSI. unfold slash. destruct (f <? 0); [discriminate|].
  destruct (by_cons (stk c) !! k) as [id|]; [|intros [= <-]; exact HSI].
  destruct (vals (stk c) !! id) as [v|] eqn:Hv; [|intros [= <-]; exact HSI].
  destruct (status_eqb (v_status v) Unbonded); [discriminate|].
  set (burn := Z.max 0 (Z.min (p * power_reduction * f / dec_one) (v_tokens v))).
  destruct (burn =? 0); [intros [= <-]; exact HSI|].
  destruct (if status_eqb (v_status v) Bonded then _ else _); [|discriminate]. intros [= <-]. cbn.
  change (SI (rekey (stk c) id v (set_tokens v (v_tokens v - burn)))).
  apply SI_rekey; auto. cbn. pose proof (si_tok _ HSI id v Hv). subst burn. lia.
Qed.

Lemma slash_frame c k p f c' :
  slash c k p f = Some c' -> sl c' = sl c /\ poa c' = poa c /\ seqs c' = seqs c /\ height c' = height c /\ now c' = now c /\
  by_cons (stk c') = by_cons (stk c) /\ last_pow (stk c') = last_pow (stk c) /\ ubq (stk c') = ubq (stk c) /\ params (stk c') = params (stk c) /\
  dels (stk c') = dels (stk c) /\ last_total (stk c') = last_total (stk c).
Proof.
  unfold slash. destruct (f <? 0); [discriminate|].
  destruct (by_cons (stk c) !! k) as [id|]; [|intros [= <-]; repeat split].
  destruct (vals (stk c) !! id) as [v|]; [|intros [= <-]; repeat split].
  destruct (status_eqb (v_status v) Unbonded); [discriminate|].
  destruct (_ =? 0); [intros [= <-]; repeat split|].
  destruct (if status_eqb (v_status v) Bonded then _ else _); [|discriminate]. intros [= <-]. cbn.
  unfold set_index, set_validator, del_index. destruct (v_jailed _); cbn; repeat split.
Qed.

(* ---- Jail / Unjail ---- *)
Lemma jail_SI s k s' : SI s -> jail s k = Some s' -> SI s'.
Proof.
  intros HSI. unfold jail. destruct (by_cons s !! k) as [id|]; [|discriminate].
  destruct (vals s !! id) as [v|] eqn:Hv; [|discriminate]. destruct (v_jailed v) eqn:Hj; [discriminate|].
  intros [= <-].
  (* jailing = re-key to a jailed record (which owns no entry) *)
  assert (Heq : del_index (set_validator s id (set_jailed v true)) id (set_jailed v true) = rekey s id v (set_jailed v true)).
  { unfold rekey, set_index, del_index, set_validator. cbn. reflexivity. }
  rewrite Heq. apply SI_rekey; auto. cbn. eapply si_tok; eauto.
Qed.

Lemma unjail_SI s k s' : SI s -> unjail s k = Some s' -> SI s'.
Proof.
  intros HSI. unfold unjail. destruct (by_cons s !! k) as [id|]; [|discriminate].
  destruct (vals s !! id) as [v|] eqn:Hv; [|discriminate]. destruct (v_jailed v) eqn:Hj; [|discriminate]. cbn [negb].
  intros [= <-].
  (* a jailed validator owns no entry, so deleting "its" entry first changes nothing *)
  assert (Hnone : forall q, ~ In (q, id) (pidx s)) by (intros q; eapply jailed_owns_nothing; eauto; apply HSI).
  assert (Hdel : pidx_del (v_power v, id) (pidx s) = pidx s).
  { unfold pidx_del. apply filter_all_true. intros x Hx. apply negb_true_iff. apply not_true_is_false.
    intros He. apply pair_eqb_eq in He. subst x. exact (Hnone _ Hx). }
  assert (Heq : set_index (set_validator s id (set_jailed v false)) id (set_jailed v false) = rekey s id v (set_jailed v false)).
  { unfold rekey, set_index, del_index, set_validator. cbn. rewrite Hdel. reflexivity. }
  rewrite Heq. apply SI_rekey; auto. cbn. eapply si_tok; eauto.
Qed.

(* SI only looks at the records, the index, the last powers and the consensus-address index *)
Lemma SI_ext s s' :
  vals s' = vals s -> pidx s' = pidx s -> last_pow s' = last_pow s -> by_cons s' = by_cons s -> SI s -> SI s'.
Proof.
  intros Hv Hp Hl Hb [H1 H2 H3 H4 H5 H6].
  constructor; unfold idx_sound, idx_unique, cons_inj, last_bonded, tokens_nonneg in *; rewrite ?Hv, ?Hp, ?Hl, ?Hb; auto.
Qed.

(* dropping an index entry never hurts *)
Lemma SI_del_index s id v : SI s -> SI (del_index s id v).
Proof.
  intros [H1 H2 H3 H4 H5 H6]. constructor; auto.
  - intros p i Hin. unfold del_index in Hin. cbn in Hin. apply in_pidx_del in Hin as [Hin _]. apply H1; exact Hin.
  - unfold idx_unique, del_index. cbn. apply pidx_del_nodup. exact H2.
Qed.

Lemma slash_amount_covers t : 0 <= t -> t <= (tokens_to_power t + 1) * power_reduction * dec_one / dec_one.
Proof.
  intros Ht. unfold tokens_to_power, power_reduction, dec_one. rewrite Z.div_mul by lia.
  pose proof (Z.div_mod t 1000000). pose proof (Z.mod_pos_bound t 1000000). lia.
Qed.

(* a 100% slash sized from the validator's own tokens leaves it with none *)
Lemma slash_full_burn c k id v c' :
  by_cons (stk c) !! k = Some id -> vals (stk c) !! id = Some v -> 0 <= v_tokens v ->
  slash c k (tokens_to_power (v_tokens v) + 1) dec_one = Some c' ->
  exists v', vals (stk c') !! id = Some v' /\ v_tokens v' = 0 /\ v_cons v' = v_cons v /\ v_jailed v' = v_jailed v /\ v_status v' = v_status v.
Proof.
  intros Hk Hv Ht. unfold slash. destruct (dec_one <? 0) eqn:E; [discriminate|]. rewrite Hk, Hv.
  destruct (status_eqb (v_status v) Unbonded); [discriminate|].
  pose proof (slash_amount_covers _ Ht) as Hcov.
  set (amt := (tokens_to_power (v_tokens v) + 1) * power_reduction * dec_one / dec_one) in *.
  assert (Hburn : Z.max 0 (Z.min amt (v_tokens v)) = v_tokens v) by lia. rewrite Hburn.
  destruct (Z.eqb_spec (v_tokens v) 0) as [Hz|Hnz].
  - intros [= <-]. exists v. repeat split; auto.
  - destruct (if status_eqb (v_status v) Bonded then _ else _); [|discriminate]. intros [= <-]. cbn.
    change (vals (rekey (stk c) id v (set_tokens v (v_tokens v - v_tokens v))) !! id) with (vals (rekey (stk c) id v (set_tokens v (v_tokens v - v_tokens v))) !! id).
    exists (set_tokens v (v_tokens v - v_tokens v)). split.
    + unfold set_index, set_validator, del_index. destruct (v_jailed _); cbn; apply lookup_insert.
    + cbn. repeat split; lia.
Qed.

(* ---- SetPOAPower ---- *)
Lemma set_poa_power_SI c val n c' :
  SI (stk c) -> 0 <= n -> set_poa_power c val n = MOk c' -> SI (stk c').
Proof.
  intros HSI Hn. unfold set_poa_power.
  destruct (vals (stk c) !! val) as [v|] eqn:Hv; [|discriminate].
  destruct (tokens_to_power n =? default 0 (last_pow (stk c) !! val)); [discriminate|].
  set (v2 := set_status (set_shares (set_tokens (set_tokens v n) n) (n * dec_one)) Bonded).
  destruct ((n =? 0) && (0 <? default 0 (last_pow (stk c) !! val))) eqn:Ebr.
  - (* removal *)
    destruct (slash (with_stk c (del_index (stk c) val v)) (v_cons v) (tokens_to_power (v_tokens v) + 1) dec_one) as [c2|] eqn:Es; [|discriminate].
    cbn [mbind]. intros H. apply update_validator_set_spec in H as (Hvals & _ & Hpidx & Hlp & _ & _ & Hbc & _).
    cbn in Hvals, Hpidx, Hlp, Hbc.
    assert (HSI1 : SI (del_index (stk c) val v)) by (apply SI_del_index; exact HSI).
    assert (HSI2 : SI (stk c2)) by (eapply slash_SI; [|exact Es]; exact HSI1).
    assert (Hk : by_cons (del_index (stk c) val v) !! v_cons v = Some val) by (cbn; exact (si_bycons _ HSI val v Hv)).
    assert (Hv1 : vals (stk (with_stk c (del_index (stk c) val v))) !! val = Some v) by (cbn; exact Hv).
    assert (Htk : 0 <= v_tokens v) by (exact (si_tok _ HSI val v Hv)).
    destruct (slash_full_burn (with_stk c (del_index (stk c) val v)) _ val v c2 Hk Hv1 Htk Es) as (v'' & Hv'' & Ht'' & Hc'' & Hj'' & Hs'').
    set (s3 := del_index (stk c2) val (set_tokens v n)).
    assert (HSI3 : SI s3) by (apply SI_del_index; exact HSI2).
    assert (Hn0 : n = 0) by (apply andb_true_iff in Ebr as [E _]; apply Z.eqb_eq in E; exact E).
    assert (Hnone : forall q, ~ In (q, val) (pidx s3)).
    { intros q Hin. unfold s3, del_index in Hin. cbn in Hin. apply in_pidx_del in Hin as [Hin Hne]. apply Hne.
      f_equal. rewrite (owned_key _ _ _ _ (si_sound _ HSI2) Hv'' Hin). unfold v_power. cbn. rewrite Ht'', Hn0. reflexivity. }
    assert (Hv3 : vals s3 !! val = Some v'') by (unfold s3, del_index; cbn; exact Hv'').
    constructor.
    + intros p i Hin. rewrite Hpidx in Hin. rewrite Hvals.
      destruct (decide (i = val)) as [->|Hne]; [exfalso; exact (Hnone p Hin)|]. rewrite lookup_insert_ne by auto.
      apply (si_sound _ HSI3); exact Hin.
    + unfold idx_unique. rewrite Hpidx. apply (si_unique _ HSI3).
    + eapply cons_inj_insert with (s := s3) (v := v'') (v' := v2); [apply HSI3|exact Hv3| |exact Hvals]. cbn. congruence.
    + eapply last_bonded_insert with (s := s3) (v := v'') (v' := v2); [apply HSI3|exact Hv3|intros _; reflexivity|exact Hvals|exact Hlp].
    + eapply tokens_nonneg_insert with (s := s3) (v' := v2); [apply HSI3| |exact Hvals]. cbn. lia.
    + intros i vi. rewrite Hvals, Hbc. destruct (decide (i = val)) as [->|Hne].
      * rewrite lookup_insert. intros [= <-]. cbn. rewrite <- Hc''. apply (si_bycons _ HSI3). exact Hv3.
      * rewrite lookup_insert_ne by auto. apply (si_bycons _ HSI3).
  - (* assignment: one index entry replaces the other *)
    cbn [mbind]. intros H. apply update_validator_set_spec in H as (Hvals & _ & Hpidx & Hlp & _ & _ & Hbc & _).
    cbn in Hvals, Hpidx, Hlp, Hbc.
    assert (HSIr : SI (rekey (stk c) val v v2)).
    { apply SI_rekey; auto. }
    eapply SI_ext; [| | | |exact HSIr].
    + rewrite rekey_vals, Hvals. unfold set_index, del_index. cbn. destruct (v_jailed v); reflexivity.
    + rewrite Hpidx. unfold rekey, set_index, set_validator, del_index. cbn. destruct (v_jailed v); reflexivity.
    + rewrite Hlp. unfold rekey, set_index, set_validator, del_index. cbn. destruct (v_jailed v); reflexivity.
    + rewrite Hbc. unfold rekey, set_index, set_validator, del_index. cbn. destruct (v_jailed v); reflexivity.
Qed.

(* ---- the pending list: pairwise distinct identities, none of them a validator's ---- *)
Record PI (c : chain) : Prop := {
  pi_opers : List.NoDup (map p_oper (pending (poa c)));
  pi_cons : List.NoDup (map p_cons (pending (poa c)));
  pi_not_val : forall p, In p (pending (poa c)) -> vals (stk c) !! p_oper p = None;
  pi_cons_free : forall p id v, In p (pending (poa c)) -> vals (stk c) !! id = Some v -> v_cons v <> p_cons p
}.

Lemma find_pending_in val l p : find_pending val l = Some p -> In p l /\ p_oper p = val.
Proof. unfold find_pending. intros H. apply find_some in H as [H1 H2]. apply Z.eqb_eq in H2. auto. Qed.

Lemma in_remove_first val l x : In x (remove_first_pending val l) -> In x l.
Proof.
  induction l as [|p l IH]; cbn; [auto|]. destruct (p_oper p =? val); [intros H; right; exact H|].
  intros [->|H]; [left; reflexivity|right; auto].
Qed.

Lemma nodup_remove_first {B} (f : pending_val -> B) val l : List.NoDup (map f l) -> List.NoDup (map f (remove_first_pending val l)).
Proof.
  induction l as [|p l IH]; cbn; [auto|]. intros H. inversion H; subst. destruct (p_oper p =? val); [assumption|].
  cbn. constructor; [|auto]. intros Hin. apply H2. apply in_map_iff in Hin as (q & Hq & Hin). apply in_map_iff. exists q. split; [exact Hq|].
  eapply in_remove_first; eauto.
Qed.

(* after removing the first entry of an operator from a list without duplicate operators, no entry of that operator is left *)
Lemma remove_first_gone val l x : List.NoDup (map p_oper l) -> In x (remove_first_pending val l) -> p_oper x <> val.
Proof.
  induction l as [|p l IH]; cbn; [intros _ []|]. intros H. inversion H; subst.
  destruct (Z.eqb_spec (p_oper p) val) as [E|E].
  - intros Hin Heq. apply H2. apply in_map_iff. exists x. split; [congruence|exact Hin].
  - intros [->|Hin]; [exact E|]. apply IH; assumption.
Qed.

(* ---- AcceptNewValidator ---- *)
Lemma accept_SI_PI c p c' :
  SI (stk c) -> PI c -> In p (pending (poa c)) ->
  accept_new_validator c p = MOk c' -> SI (stk c') /\ PI c'.
Proof.
  intros HSI HPI Hin. unfold accept_new_validator.
  set (val := p_oper p).
  set (v := {| v_cons := p_cons p; v_jailed := false; v_status := Unbonded; v_tokens := 0; v_shares := 0; v_ubheight := 0;
               v_ubtime := t_epoch; v_msd := 1; v_rate := p_rate p; v_maxrate := p_maxrate p; v_maxchg := p_maxchg p; v_moniker := p_moniker p |}).
  intros H. apply update_bonded_pool_spec in H as (Hs & _ & Hp & _). cbn in Hs, Hp.
  assert (Hnv : vals (stk c) !! val = None) by (apply (pi_not_val _ HPI); exact Hin).
  assert (Hnk : forall q, ~ In (q, val) (pidx (stk c))) by (intros q; eapply no_record_owns_nothing; [apply HSI|exact Hnv]).
  assert (Hfresh : forall id vi, vals (stk c) !! id = Some vi -> v_cons vi <> p_cons p) by (intros id vi Hvi; eapply (pi_cons_free _ HPI); eauto).
  split.
  - rewrite Hs. constructor.
    + intros q i Hq. cbn in Hq. unfold set_new_index, set_validator in *. cbn in *. apply in_pidx_add in Hq as [Heq|Hq].
      * inversion Heq; subst. rewrite lookup_insert. exists v. repeat split.
      * destruct (decide (i = val)) as [->|Hne]; [exfalso; exact (Hnk q Hq)|]. rewrite lookup_insert_ne by auto. apply (si_sound _ HSI); exact Hq.
    + unfold idx_unique. cbn. apply pidx_add_nodup; [apply HSI|]. intros q Hq. exfalso; exact (Hnk q Hq).
    + intros i j vi vj. cbn. intros Hi Hj Heq.
      destruct (decide (i = val)) as [->|Hni], (decide (j = val)) as [->|Hnj]; auto.
      * rewrite lookup_insert in Hi. rewrite lookup_insert_ne in Hj by auto. inversion Hi; subst. exfalso. eapply Hfresh; eauto.
      * rewrite lookup_insert in Hj. rewrite lookup_insert_ne in Hi by auto. inversion Hj; subst. exfalso. eapply Hfresh; eauto.
      * rewrite lookup_insert_ne in Hi, Hj by auto. eapply (si_cons _ HSI); eauto.
    + intros i q. cbn. intros Hl. destruct (si_last _ HSI i q Hl) as (vi & Hvi & Hsi).
      assert (i <> val) by (intros ->; congruence). exists vi. rewrite lookup_insert_ne by auto. auto.
    + intros i vi. cbn. destruct (decide (i = val)) as [->|Hne]; [rewrite lookup_insert; intros [= <-]; cbn; lia|].
      rewrite lookup_insert_ne by auto. apply (si_tok _ HSI).
    + intros i vi. cbn. destruct (decide (i = val)) as [->|Hne].
      * rewrite lookup_insert. intros [= <-]. cbn. apply lookup_insert.
      * rewrite lookup_insert_ne by auto. intros Hvi. rewrite lookup_insert_ne by (intros E; eapply Hfresh; eauto).
        apply (si_bycons _ HSI); exact Hvi.
  - constructor; rewrite ?Hs, ?Hp; cbn.
    + apply nodup_remove_first. apply HPI.
    + apply nodup_remove_first. apply HPI.
    + intros q Hq. assert (p_oper q <> val) by (eapply remove_first_gone; [apply HPI|exact Hq]).
      rewrite lookup_insert_ne by auto. apply (pi_not_val _ HPI). eapply in_remove_first; eauto.
    + intros q i vi Hq. destruct (decide (i = val)) as [->|Hne].
      * rewrite lookup_insert. intros [= <-]. cbn.
        (* two pending entries never share a consensus key; q is not p because p's operator is gone from the list *)
        intros Heq. assert (Hqne : q <> p) by (intros ->; eapply remove_first_gone; [apply HPI|exact Hq|reflexivity]).
        apply in_remove_first in Hq.
        pose proof (pi_cons _ HPI) as Hnd. clear -Hnd Hq Hin Heq Hqne.
        induction (pending (poa c)) as [|x l IH]; [destruct Hin|]. cbn in Hnd. inversion Hnd; subst.
        destruct Hin as [->|Hin], Hq as [->|Hq]; try congruence.
        -- apply H1. apply in_map_iff. exists q. split; [congruence|exact Hq].
        -- apply H1. apply in_map_iff. exists p. split; [congruence|exact Hin].
        -- apply IH; auto.
      * rewrite lookup_insert_ne by auto. intros Hvi. eapply (pi_cons_free _ HPI); eauto. eapply in_remove_first; eauto.
Qed.

(* ---- operations that keep the set of validator ids and their consensus keys ---- *)
Definition same_ids_cons (s s' : staking) : Prop :=
  (forall id, vals s !! id = None <-> vals s' !! id = None) /\
  (forall id v', vals s' !! id = Some v' -> exists v, vals s !! id = Some v /\ v_cons v = v_cons v').

Lemma same_ids_cons_refl s : same_ids_cons s s.
Proof. split; [tauto|]. intros id v H. eauto. Qed.

Lemma same_ids_cons_trans s1 s2 s3 : same_ids_cons s1 s2 -> same_ids_cons s2 s3 -> same_ids_cons s1 s3.
Proof.
  intros [A1 B1] [A2 B2]. split.
  - intros id. rewrite A1. apply A2.
  - intros id v3 H3. destruct (B2 id v3 H3) as (v2 & H2 & E2). destruct (B1 id v2 H2) as (v1 & H1 & E1). exists v1. split; [exact H1|congruence].
Qed.

Lemma same_ids_cons_insert s s' id v v' :
  vals s !! id = Some v -> v_cons v' = v_cons v -> vals s' = <[id := v']> (vals s) -> same_ids_cons s s'.
Proof.
  intros Hv Hc Hs'. split.
  - intros i. rewrite Hs'. destruct (decide (i = id)) as [->|Hne]; [rewrite lookup_insert, Hv; split; discriminate|].
    rewrite lookup_insert_ne by auto. tauto.
  - intros i vi. rewrite Hs'. destruct (decide (i = id)) as [->|Hne].
    + rewrite lookup_insert. intros [= <-]. eauto.
    + rewrite lookup_insert_ne by auto. eauto.
Qed.

Lemma same_ids_cons_vals_eq s s' : vals s' = vals s -> same_ids_cons s s'.
Proof. intros H. split; intros; rewrite H in *; [tauto|eauto]. Qed.

Lemma PI_transfer c c' :
  PI c -> pending (poa c') = pending (poa c) -> same_ids_cons (stk c) (stk c') -> PI c'.
Proof.
  intros [H1 H2 H3 H4] Hp [A B]. constructor; rewrite ?Hp; auto.
  - intros p Hin. apply A. apply H3; exact Hin.
  - intros p id v' Hin Hv'. destruct (B id v' Hv') as (v & Hv & Hc). rewrite <- Hc. eapply H4; eauto.
Qed.

Lemma slash_same_ids c k p f c' : slash c k p f = Some c' -> same_ids_cons (stk c) (stk c').
Proof.
  unfold slash. destruct (f <? 0); [discriminate|].
  destruct (by_cons (stk c) !! k) as [id|]; [|intros [= <-]; apply same_ids_cons_refl].
  destruct (vals (stk c) !! id) as [v|] eqn:Hv; [|intros [= <-]; apply same_ids_cons_refl].
  destruct (status_eqb (v_status v) Unbonded); [discriminate|].
  destruct (_ =? 0); [intros [= <-]; apply same_ids_cons_refl|].
  destruct (if status_eqb (v_status v) Bonded then _ else _); [|discriminate]. intros [= <-]. cbn.
  eapply same_ids_cons_insert; [exact Hv| |apply (rekey_vals (stk c) id v)]. reflexivity.
Qed.

Lemma update_bonded_pool_stk c c' : update_bonded_pool c = MOk c' -> stk c' = stk c /\ poa c' = poa c /\ sl c' = sl c.
Proof. intros H. apply update_bonded_pool_spec in H as (H1 & H2 & H3 & _). auto. Qed.

Lemma set_poa_power_same_ids c val n c' :
  SI (stk c) -> set_poa_power c val n = MOk c' -> same_ids_cons (stk c) (stk c') /\ pending (poa c') = pending (poa c).
Proof.
  intros HSI. unfold set_poa_power.
  destruct (vals (stk c) !! val) as [v|] eqn:Hv; [|discriminate].
  destruct (_ =? _); [discriminate|].
  destruct (_ && _).
  - destruct (slash _ _ _ _) as [c2|] eqn:Es; [|discriminate]. cbn [mbind].
    intros H. apply update_validator_set_spec in H as (Hvals & _ & _ & _ & _ & _ & _ & _ & _ & Hpoa). cbn in Hvals, Hpoa.
    pose proof (slash_same_ids _ _ _ _ _ Es) as Hsame. cbn in Hsame.
    assert (Hd : same_ids_cons (stk c) (del_index (stk c) val v)) by (apply same_ids_cons_vals_eq; reflexivity).
    pose proof (same_ids_cons_trans _ _ _ Hd Hsame) as H12.
    destruct (vals (stk c2) !! val) as [v''|] eqn:Hv2.
    + destruct (proj2 H12 val v'' Hv2) as (v0 & Hv0 & Hc0). split.
      * eapply same_ids_cons_trans; [exact H12|]. eapply same_ids_cons_insert; [exact Hv2| |exact Hvals]. cbn. congruence.
      * rewrite Hpoa. cbn. apply slash_frame in Es as (_ & Hp & _). rewrite Hp. reflexivity.
    + exfalso. apply (proj1 H12 val) in Hv2. congruence.
  - cbn [mbind]. intros H. apply update_validator_set_spec in H as (Hvals & _ & _ & _ & _ & _ & _ & _ & _ & Hpoa). cbn in Hvals, Hpoa. split.
    + eapply same_ids_cons_insert; [exact Hv| |]. 2:{ rewrite Hvals. unfold set_index, del_index. cbn. destruct (v_jailed v); reflexivity. } reflexivity.
    + rewrite Hpoa. reflexivity.
Qed.
