(* InvLive.v — no transaction sequence can empty the validator set. If BeginBlock (downtime jailing: the environment)
   leaves at least one validator that is not jailed and has power, then whatever the block's transactions do, the
   set CometBFT is asked to adopt is not empty: CometBFT's "applying the validator changes would result in empty set"
   (HComet 4) is unreachable through transactions. *)
From stdpp Require Import gmap.
Require Import Model.Base Model.Ante Model.Validate Model.Current Model.State Model.Staking Model.Slashing Model.Poa Model.App.
Require Import proofs.EvBasic proofs.Inv proofs.InvIdx proofs.L1Effects proofs.InvPres proofs.InvMsgs proofs.InvHistory proofs.InvQueue proofs.InvComet proofs.InvElig.
Open Scope Z_scope.

Definition NE (s : staking) : Prop := exists id v, vals s !! id = Some v /\ eligible v = true.
(* the validator cap is a positive number (the wire type is unsigned; x/staking refuses zero) *)
Definition cap_pos (s : staking) : Prop := 1 <= sp_max_validators (params s).

Lemma NE_ext s s' : vals s' = vals s -> NE s -> NE s'.
Proof. intros H (id & v & Hv & He). exists id, v. rewrite H. auto. Qed.

(* ---- SetPOAPower touches no other record ---- *)
Lemma slash_others c k p f c' id0 :
  slash c k p f = Some c' -> by_cons (stk c) !! k = Some id0 -> forall w, w <> id0 -> vals (stk c') !! w = vals (stk c) !! w.
Proof.
  unfold slash. destruct (f <? 0); [discriminate|]. intros H Hk. rewrite Hk in H.
  destruct (vals (stk c) !! id0) as [v|] eqn:Hv; [|inversion H; reflexivity].
  destruct (status_eqb (v_status v) Unbonded); [discriminate|].
  destruct (_ =? 0); [inversion H; reflexivity|].
  destruct (if status_eqb (v_status v) Bonded then _ else _); [|discriminate]. inversion H; subst. clear H. intros w Hw. cbn.
  unfold set_index, set_validator, del_index. cbn. destruct (v_jailed v); cbn; apply lookup_insert_ne; auto.
Qed.

Lemma set_poa_power_others c val n c' :
  SI (stk c) -> set_poa_power c val n = MOk c' -> forall w, w <> val -> vals (stk c') !! w = vals (stk c) !! w.
Proof.
  intros HS. unfold set_poa_power.
  destruct (vals (stk c) !! val) as [v|] eqn:Hv; [|discriminate]. destruct (_ =? _); [discriminate|].
  destruct (_ && _).
  - destruct (slash _ _ _ _) as [c2|] eqn:Es; [|discriminate]. cbn [mbind].
    intros H w Hw. apply update_validator_set_spec in H as (Hvals & _). cbn in Hvals. rewrite Hvals, lookup_insert_ne by auto.
    rewrite (slash_others _ _ _ _ _ val Es); [reflexivity| |exact Hw]. cbn. apply (si_bycons _ HS). exact Hv.
  - cbn [mbind]. intros H w Hw. apply update_validator_set_spec in H as (Hvals & _). cbn in Hvals. rewrite Hvals, lookup_insert_ne by auto.
    unfold set_index, del_index. cbn. destruct (v_jailed v); reflexivity.
Qed.

Lemma set_poa_power_target c val n c' :
  set_poa_power c val n = MOk c' ->
  exists v, vals (stk c) !! val = Some v /\
            vals (stk c') !! val = Some (set_status (set_shares (set_tokens (set_tokens v n) n) (n * dec_one)) Bonded).
Proof.
  unfold set_poa_power. destruct (vals (stk c) !! val) as [v|] eqn:Hv; [|discriminate]. destruct (_ =? _); [discriminate|].
  destruct (_ && _).
  - destruct (slash _ _ _ _) as [c2|] eqn:Es; [|discriminate]. cbn [mbind].
    intros H. apply update_validator_set_spec in H as (Hvals & _). exists v. split; [reflexivity|]. rewrite Hvals. apply lookup_insert.
  - cbn [mbind]. intros H. apply update_validator_set_spec in H as (Hvals & _). exists v. split; [reflexivity|]. rewrite Hvals. apply lookup_insert.
Qed.

Lemma valid_power_pos val power : setpower_validate (0 <=? val) power = Ok tt -> 0 < tokens_to_power (cast_i64 power).
Proof.
  unfold setpower_validate, cast_i64, min_power, max_int64, two63, tokens_to_power, power_reduction.
  destruct (negb _); [discriminate|]. destruct (Z.ltb_spec power 1000000); [discriminate|].
  destruct (Z.ltb_spec (2 ^ 63 - 1) power); [discriminate|]. intros _. destruct (Z.ltb_spec power (2 ^ 63)); [|lia].
  apply Z.div_str_pos. lia.
Qed.

(* a validator given a positive power keeps the set non-empty unless it is jailed; any other witness is untouched *)
Lemma set_poa_power_NE c val n c' :
  SI (stk c) -> NE (stk c) -> 0 < tokens_to_power n -> set_poa_power c val n = MOk c' -> NE (stk c').
Proof.
  intros HS (w & vw & Hw & He) Hn H. destruct (decide (w = val)) as [->|Hne].
  - destruct (set_poa_power_target _ _ _ _ H) as (v & Hv & Hv'). rewrite Hw in Hv. inversion Hv; subst v.
    eexists val, _. split; [exact Hv'|]. unfold eligible in *. cbn. unfold v_power. cbn.
    destruct (v_jailed vw); [discriminate|]. cbn. apply Z.ltb_lt. exact Hn.
  - exists w, vw. rewrite (set_poa_power_others _ _ _ _ HS H w Hne). auto.
Qed.

(* RemoveValidator's guard names a witness other than the target *)
Lemma other_signers_witness c val : other_signers c val <> 0 ->
  exists id v, id <> val /\ vals (stk c) !! id = Some v /\ eligible v = true.
Proof.
  unfold other_signers.
  apply (map_fold_ind (fun acc m => acc <> 0 -> exists id v, id <> val /\ m !! id = Some v /\ eligible v = true)).
  - intros H. congruence.
  - intros i x m r Hi IH.
    destruct (negb (i =? val) && status_eqb (v_status x) Bonded && negb (v_jailed x) && (0 <? v_power x)) eqn:E.
    + intros _. exists i, x. apply andb_prop in E as [E E4]. apply andb_prop in E as [E E3]. apply andb_prop in E as [E1 E2].
      split; [apply negb_true_iff in E1; apply Z.eqb_neq in E1; exact E1|]. split; [apply lookup_insert|]. unfold eligible. rewrite E3, E4. reflexivity.
    + intros Hr. destruct (IH Hr) as (id & v & Hne & Hv & He). exists id, v. split; [exact Hne|]. split; [|exact He].
      rewrite lookup_insert_ne; [exact Hv|]. intros ->. congruence.
Qed.

Lemma unjail_others s k s' : unjail s k = Some s' ->
  exists id v, vals s !! id = Some v /\ v_jailed v = true /\ forall w, w <> id -> vals s' !! w = vals s !! w.
Proof.
  unfold unjail. destruct (by_cons s !! k) as [id|]; [|discriminate]. destruct (vals s !! id) as [v|] eqn:Hv; [|discriminate].
  destruct (v_jailed v) eqn:Hj; cbn [negb]; [|discriminate]. intros [= <-]. exists id, v. split; [exact Hv|]. split; [exact Hj|].
  intros w Hw. unfold set_index, set_validator. cbn. apply lookup_insert_ne; auto.
Qed.

Lemma exec_msg_NE c m c' : CI c -> NE (stk c) -> exec_msg c m = MOk c' -> NE (stk c').
Proof.
  intros [HS HP] HN. destruct m as [s v p u|s v|s v|v k mon r mx ch msd|s p|v|s|s t]; cbn.
  - unfold msg_set_power. destruct (negb (is_admin s)); [discriminate|].
    destruct (setpower_validate (0 <=? v) p) as [[]|] eqn:Ev; [|discriminate].
    set (r1 := match find_pending v (pending (poa c)) with Some q => accept_new_validator c q | None => ensure_active c v end).
    assert (H1 : forall c1, r1 = MOk c1 -> NE (stk c1) /\ SI (stk c1)).
    { subst r1. intros c1. destruct (find_pending v (pending (poa c))) as [q|] eqn:Ef.
      - intros Ea. apply find_pending_in in Ef as [Hin Hop]. destruct (accept_SI_PI _ _ _ HS HP Hin Ea) as [HS1 _]. split; [|exact HS1].
        assert (Hnv : vals (stk c) !! p_oper q = None) by (apply (pi_not_val _ HP); exact Hin).
        unfold accept_new_validator in Ea. apply update_bonded_pool_stk in Ea as (Hs & _). rewrite Hs. cbn.
        destruct HN as (w & vw & Hw & He). exists w, vw. split; [|exact He]. cbn. rewrite lookup_insert_ne; [exact Hw|]. intros <-. congruence.
      - intros H. apply ensure_active_id in H as ->. auto. }
    destruct r1 as [c1|]; [|discriminate]. cbn [mbind]. destruct (H1 c1 eq_refl) as [N1 S1].
    destruct (set_poa_power c1 v (cast_i64 p)) as [c2|] eqn:E2; [|discriminate]. cbn [mbind].
    pose proof (set_poa_power_NE _ _ _ _ S1 N1 (valid_power_pos v p Ev) E2) as N2.
    destruct (negb u && (1 <? height c2)).
    + destruct (_ =? 0); [discriminate|]. destruct (30 <=? _); [discriminate|]. intros H. apply update_bonded_pool_stk in H as (-> & _). exact N2.
    + intros H. apply update_bonded_pool_stk in H as (-> & _). exact N2.
  - unfold msg_remove_validator. destruct (if is_admin s then None else _); [discriminate|].
    destruct (Z.eqb_spec (other_signers c v) 0) as [|Hos]; [discriminate|].
    destruct (vals (stk c) !! v) as [vv|] eqn:Hv; [|discriminate]. destruct (negb _); [discriminate|].
    destruct (set_poa_power c v 0) as [c1|] eqn:E; [|discriminate]. cbn [mbind].
    intros H. apply update_bonded_pool_stk in H as (-> & _). cbn.
    destruct (other_signers_witness c v Hos) as (w & vw & Hne & Hw & He). exists w, vw.
    rewrite (set_poa_power_others _ _ _ _ HS E w Hne). auto.
  - unfold msg_remove_pending. destruct (negb _); [discriminate|]. intros [= <-]. exact HN.
  - destruct r as [r|], mx as [mx|], ch as [ch|]; try discriminate.
    unfold msg_create_validator. destruct (poa_create_validate _); try discriminate. destruct (_ <? _); [discriminate|].
    destruct (bool_decide _); [discriminate|]. destruct (bool_decide _); [discriminate|]. destruct (pending_conflict _ _ _); [discriminate|].
    destruct (negb _); [discriminate|]. intros H. apply update_bonded_pool_stk in H as (-> & _). exact HN.
  - unfold msg_update_params. destruct (negb _); [discriminate|]. destruct (negb _); [discriminate|]. destruct (negb _); [discriminate|].
    intros [= <-]. eapply NE_ext; [|exact HN]. reflexivity.
  - unfold msg_unjail. destruct (vals (stk c) !! v) as [vv|]; [|discriminate]. destruct (dels (stk c) !! v); [|discriminate].
    destruct (_ =? 0); [discriminate|]. destruct (_ <? _); [discriminate|]. destruct (negb _); [discriminate|].
    destruct (match infos _ !! _ with Some _ => _ | None => _ end); [discriminate|].
    destruct (unjail (stk c) (v_cons vv)) as [s'|] eqn:E; [|discriminate]. intros [= <-]. cbn.
    destruct (unjail_others _ _ _ E) as (id & vj & Hvj & Hj & Hoth). destruct HN as (w & vw & Hw & He).
    exists w, vw. split; [|exact He]. rewrite Hoth; [exact Hw|]. intros ->. rewrite Hvj in Hw. inversion Hw; subst. unfold eligible in He. rewrite Hj in He. discriminate.
  - intros [= <-]. exact HN.
  - intros [= <-]. exact HN.
Qed.

(* the cap stays positive: x/staking's validation refuses zero, the wire type has no negative numbers *)
Definition wt_msg (m : l1msg) : Prop := match m with MUpdateParams _ p => 0 <= sp_max_validators p | _ => True end.

Lemma exec_msg_cap c m c' : wt_msg m -> cap_pos (stk c) -> exec_msg c m = MOk c' -> cap_pos (stk c').
Proof.
  intros Hwt HC. destruct m as [s v p u|s v|s v|v k mon r mx ch msd|s p|v|s|s t]; cbn.
  - unfold msg_set_power. destruct (negb (is_admin s)); [discriminate|].
    destruct (setpower_validate (0 <=? v) p) as [[]|] eqn:Ev; [|discriminate].
    set (r1 := match find_pending v (pending (poa c)) with Some q => accept_new_validator c q | None => ensure_active c v end).
    assert (H1 : forall c1, r1 = MOk c1 -> params (stk c1) = params (stk c)).
    { subst r1. intros c1. destruct (find_pending v (pending (poa c))) as [q|].
      - unfold accept_new_validator. intros Ea. apply update_bonded_pool_stk in Ea as (Hs & _). rewrite Hs. reflexivity.
      - intros H. apply ensure_active_id in H as ->. reflexivity. }
    destruct r1 as [c1|]; [|discriminate]. cbn [mbind]. specialize (H1 c1 eq_refl).
    destruct (set_poa_power c1 v (cast_i64 p)) as [c2|] eqn:E2; [|discriminate]. cbn [mbind].
    assert (P2 : params (stk c2) = params (stk c1)).
    { revert E2. unfold set_poa_power. destruct (vals (stk c1) !! v) as [vv|]; [|discriminate]. destruct (_ =? _); [discriminate|].
      destruct (_ && _).
      - destruct (slash _ _ _ _) as [cs|] eqn:Es; [|discriminate]. cbn [mbind]. intros H. apply update_validator_set_spec in H as (_ & _ & _ & _ & _ & _ & _ & Hp & _).
        rewrite Hp. cbn. apply slash_frame in Es as (_ & _ & _ & _ & _ & _ & _ & _ & Hps & _). rewrite Hps. reflexivity.
      - cbn [mbind]. intros H. apply update_validator_set_spec in H as (_ & _ & _ & _ & _ & _ & _ & Hp & _). rewrite Hp. cbn.
        unfold set_index, del_index. cbn. destruct (v_jailed vv); reflexivity. }
    destruct (negb u && (1 <? height c2)).
    + destruct (_ =? 0); [discriminate|]. destruct (30 <=? _); [discriminate|]. intros H. apply update_bonded_pool_stk in H as (-> & _). unfold cap_pos in *. congruence.
    + intros H. apply update_bonded_pool_stk in H as (-> & _). unfold cap_pos in *. congruence.
  - unfold msg_remove_validator. destruct (if is_admin s then None else _); [discriminate|]. destruct (_ =? 0); [discriminate|].
    destruct (vals (stk c) !! v) as [vv|] eqn:Hv; [|discriminate]. destruct (negb _); [discriminate|].
    destruct (set_poa_power c v 0) as [c1|] eqn:E; [|discriminate]. cbn [mbind].
    intros H. apply update_bonded_pool_stk in H as (-> & _). cbn.
    revert E. unfold set_poa_power. rewrite Hv. destruct (_ =? _); [discriminate|].
    destruct (_ && _).
    + destruct (slash _ _ _ _) as [cs|] eqn:Es; [|discriminate]. cbn [mbind]. intros H. apply update_validator_set_spec in H as (_ & _ & _ & _ & _ & _ & _ & Hp & _).
      unfold cap_pos. rewrite Hp. cbn. apply slash_frame in Es as (_ & _ & _ & _ & _ & _ & _ & _ & Hps & _). rewrite Hps. exact HC.
    + cbn [mbind]. intros H. apply update_validator_set_spec in H as (_ & _ & _ & _ & _ & _ & _ & Hp & _). unfold cap_pos. rewrite Hp. cbn.
      unfold set_index, del_index. cbn. destruct (v_jailed vv); exact HC.
  - unfold msg_remove_pending. destruct (negb _); [discriminate|]. intros [= <-]. exact HC.
  - destruct r as [r|], mx as [mx|], ch as [ch|]; try discriminate.
    unfold msg_create_validator. destruct (poa_create_validate _); try discriminate. destruct (_ <? _); [discriminate|].
    destruct (bool_decide _); [discriminate|]. destruct (bool_decide _); [discriminate|]. destruct (pending_conflict _ _ _); [discriminate|].
    destruct (negb _); [discriminate|]. intros H. apply update_bonded_pool_stk in H as (-> & _). exact HC.
  - unfold msg_update_params. destruct (negb _); [discriminate|]. destruct (params_validate p) eqn:Ev; cbn [negb]; [|discriminate]. destruct (negb _); [discriminate|].
    intros [= <-]. unfold cap_pos. cbn. cbn in Hwt. unfold params_validate in Ev.
    destruct (Z.eqb_spec (sp_max_validators p) 0); [rewrite andb_false_r in Ev; cbn in Ev; discriminate|]. lia.
  - unfold msg_unjail. destruct (vals (stk c) !! v) as [vv|]; [|discriminate]. destruct (dels (stk c) !! v); [|discriminate].
    destruct (_ =? 0); [discriminate|]. destruct (_ <? _); [discriminate|]. destruct (negb _); [discriminate|].
    destruct (match infos _ !! _ with Some _ => _ | None => _ end); [discriminate|].
    destruct (unjail (stk c) (v_cons vv)) as [s'|] eqn:E; [|discriminate]. intros [= <-]. unfold cap_pos. cbn.
    unfold unjail in E. destruct (by_cons (stk c) !! v_cons vv) as [id|]; [|discriminate]. destruct (vals (stk c) !! id) as [vj|]; [|discriminate].
    destruct (negb _); [discriminate|]. inversion E. unfold set_index, set_validator. cbn. exact HC.
  - intros [= <-]. exact HC.
  - intros [= <-]. exact HC.
Qed.

Definition wt_tx (tx : list l1msg) : Prop := Forall wt_msg tx.
Definition wt_block (b : block) : Prop := Forall wt_tx (b_txs b).

Lemma exec_msgs_NE_cap ms c c' :
  Forall wt_msg ms -> CI c -> NE (stk c) -> cap_pos (stk c) -> exec_msgs c ms = MOk c' -> NE (stk c') /\ cap_pos (stk c').
Proof.
  revert c. induction ms as [|m ms IH]; cbn; intros c Hwt HCI HN HC; [intros [= <-]; auto|].
  inversion Hwt; subst. destruct (exec_msg c m) as [c1|] eqn:E; [|discriminate]. cbn.
  apply IH; [assumption|eapply exec_msg_CI; eauto|eapply exec_msg_NE; eauto|eapply exec_msg_cap; eauto].
Qed.

Lemma deliver_tx_NE_cap c tx :
  wt_tx tx -> CI c -> NE (stk c) -> cap_pos (stk c) -> NE (stk (fst (deliver_tx c tx))) /\ cap_pos (stk (fst (deliver_tx c tx))).
Proof.
  intros Hwt HCI HN HC. unfold deliver_tx. destruct (cur_stk_decorator _ _); [auto|]. destruct (cur_wd_decorator _ _); [auto|].
  destruct (cur_comm_decorator _ _ _ _ _); auto.
  destruct (existsb is_tree tx); [auto|].
  destruct (exec_msgs _ tx) as [c2|] eqn:E; [|auto]. cbn.
  eapply exec_msgs_NE_cap; [exact Hwt| | | |exact E]; [apply CI_seqs; exact HCI|exact HN|exact HC].
Qed.

Lemma deliver_txs_NE_cap txs c :
  Forall wt_tx txs -> CI c -> NE (stk c) -> cap_pos (stk c) -> NE (stk (fst (deliver_txs c txs))) /\ cap_pos (stk (fst (deliver_txs c txs))).
Proof.
  revert c. induction txs as [|tx txs IH]; cbn; intros c Hwt HCI HN HC; [auto|]. inversion Hwt; subst.
  destruct (deliver_tx_NE_cap c tx) as [N1 C1]; try assumption. pose proof (deliver_tx_CI c tx HCI) as HCI1.
  destruct (deliver_tx c tx) as [c1 o]. cbn in *.
  specialize (IH c1 ltac:(assumption) HCI1 N1 C1). destruct (deliver_txs c1 txs) as [c2 os]. exact IH.
Qed.

(* ---- the EndBlocker puts the strongest eligible validator into the last set ---- *)
Lemma apply_loop_untouched keys maxv : forall a a' id,
  apply_loop keys maxv a = LDone a' -> ~ In id (map snd keys) ->
  last_pow (stk (la_chain a')) !! id = last_pow (stk (la_chain a)) !! id /\ la_last a' !! id = la_last a !! id.
Proof.
  induction keys as [|[p i] ks IH]; intros a a' id; cbn [apply_loop]; [intros [= <-]; auto|].
  intros Hrun Hnotin. cbn in Hnotin. assert (Hne : id <> i) by (intros ->; apply Hnotin; left; reflexivity).
  assert (Hnotin' : ~ In id (map snd ks)) by (intros H; apply Hnotin; right; exact H).
  destruct (maxv <=? la_count a); [inversion Hrun; subst; auto|].
  destruct (vals (stk (la_chain a)) !! i) as [v|] eqn:Hv; [|discriminate].
  destruct (v_jailed v); [eapply IH; eauto|].
  destruct (v_power v =? 0); [inversion Hrun; subst; auto|].
  pose proof (bond_validator_vals (la_chain a) i v) as (_ & _ & H3).
  destruct (v_status v); cbn zeta in Hrun.
  - destruct (bond_validator (la_chain a) i v) as [cb vb]. cbn in H3. destruct (IH _ _ id Hrun Hnotin') as [A B]. rewrite A, B. cbn [la_chain la_last].
    split; [|apply lookup_delete_ne; auto]. destruct (match la_last a !! i with Some old => _ | None => true end); cbn; rewrite H3; [apply lookup_insert_ne; auto|reflexivity].
  - destruct (bond_validator (la_chain a) i v) as [cb vb]. cbn in H3. destruct (IH _ _ id Hrun Hnotin') as [A B]. rewrite A, B. cbn [la_chain la_last].
    split; [|apply lookup_delete_ne; auto]. destruct (match la_last a !! i with Some old => _ | None => true end); cbn; rewrite H3; [apply lookup_insert_ne; auto|reflexivity].
  - destruct (IH _ _ id Hrun Hnotin') as [A B]. rewrite A, B. cbn [la_chain la_last].
    split; [|apply lookup_delete_ne; auto]. destruct (match la_last a !! i with Some old => _ | None => true end); cbn; [apply lookup_insert_ne; auto|reflexivity].
Qed.

Lemma apply_loop_head p id ks maxv a a' v :
  apply_loop ((p, id) :: ks) maxv a = LDone a' ->
  la_count a < maxv -> vals (stk (la_chain a)) !! id = Some v -> v_jailed v = false -> 0 < v_power v ->
  ~ In id (map snd ks) ->
  (forall j q, la_last a !! j = Some q -> last_pow (stk (la_chain a)) !! j = Some q) ->
  last_pow (stk (la_chain a')) !! id = Some (v_power v) /\ la_last a' !! id = None.
Proof.
  cbn [apply_loop]. intros Hrun Hroom Hv Hj Hp Hnotin Hagree.
  destruct (Z.leb_spec maxv (la_count a)); [lia|]. rewrite Hv, Hj in Hrun.
  destruct (Z.eqb_spec (v_power v) 0); [lia|].
  pose proof (bond_validator_vals (la_chain a) id v) as (_ & H2 & H3).
  assert (Hstep : forall c1 v1 moved, last_pow (stk c1) = last_pow (stk (la_chain a)) -> v_power v1 = v_power v ->
     apply_loop ks maxv
       {| la_chain := if match la_last a !! id with Some old => negb (old =? v_power v1) | None => true end
                      then with_stk c1 (st_last_pow (stk c1) (<[id:=v_power v1]> (last_pow (stk c1)))) else c1;
          la_last := delete id (la_last a);
          la_upd := if match la_last a !! id with Some old => negb (old =? v_power v1) | None => true end then la_upd a ++ [(v_cons v1, v_power v1)] else la_upd a;
          la_count := la_count a + 1; la_total := la_total a + v_power v1; la_to_bonded := la_to_bonded a + moved |} = LDone a' ->
     last_pow (stk (la_chain a')) !! id = Some (v_power v) /\ la_last a' !! id = None).
  { intros c1 v1 moved Hlp Hpw Hr. destruct (apply_loop_untouched _ _ _ _ id Hr Hnotin) as [A B]. rewrite A, B. cbn [la_chain la_last].
    split; [|apply lookup_delete]. rewrite Hpw.
    destruct (la_last a !! id) as [old|] eqn:El.
    - destruct (Z.eqb_spec old (v_power v)) as [->|]; cbn [negb]; [rewrite Hlp; apply Hagree; exact El|cbn; apply lookup_insert].
    - cbn. apply lookup_insert. }
  destruct (v_status v); cbn zeta in Hrun.
  - destruct (bond_validator (la_chain a) id v) as [cb vb]. cbn in H2, H3. subst vb. eapply Hstep; [exact H3|reflexivity|exact Hrun].
  - destruct (bond_validator (la_chain a) id v) as [cb vb]. cbn in H2, H3. subst vb. eapply Hstep; [exact H3|reflexivity|exact Hrun].
  - eapply Hstep; [reflexivity|reflexivity|exact Hrun].
Qed.

Lemma desc_head_max p id ks q j : desc ((p, id) :: ks) -> In (q, j) ((p, id) :: ks) -> q <= p.
Proof.
  intros Hd [Heq|Hin]; [inversion Heq; lia|]. inversion Hd as [|? ? _ Hall]; subst. rewrite Forall_forall in Hall. apply (Hall (q, j) Hin).
Qed.

Theorem apply_valset_updates_nonempty c c' upd :
  CI c -> IC (stk c) -> NE (stk c) -> cap_pos (stk c) -> apply_valset_updates c = EBOk c' upd ->
  exists id p, last_pow (stk c') !! id = Some p.
Proof.
  intros [HS HP] HI (w & vw & Hw & He) HC Hrun. unfold apply_valset_updates in Hrun.
  set (keys := sort_by pidx_le (pidx (stk c))) in *.
  set (a0 := {| la_chain := c; la_last := last_pow (stk c); la_upd := []; la_count := 0; la_total := 0; la_to_bonded := 0 |}) in *.
  destruct (apply_loop keys _ a0) as [a1|] eqn:E1; [|discriminate].
  destruct (unbond_loop _ a1) as [a2|] eqn:E2; [|discriminate].
  assert (Hperm : forall x, In x keys <-> In x (pidx (stk c))).
  { intros x. split; intros H; [apply (Permutation_in _ (sort_by_perm pidx_le _)) in H; exact H|apply (Permutation_in _ (Permutation_sym (sort_by_perm pidx_le _))); exact H]. }
  assert (Hin : In (v_power vw, w) keys) by (apply Hperm; apply (HI w vw I Hw He)).
  assert (Hpw : 0 < v_power vw) by (unfold eligible in He; lia).
  assert (Hd : desc keys) by apply sort_by_desc.
  assert (Hnd : List.NoDup (map snd keys)).
  { eapply Permutation_NoDup; [|exact (si_unique _ HS)]. apply Permutation_map. symmetry. apply sort_by_perm. }
  destruct keys as [|[p id] ks] eqn:Ek; [destruct Hin|].
  assert (Hp : 0 < p) by (pose proof (desc_head_max _ _ _ _ _ Hd Hin); lia).
  destruct (si_sound _ HS p id) as (v & Hv & Hj & Hpv); [apply Hperm; left; reflexivity|]. subst p.
  inversion Hnd as [|? ? Hnotin _]; subst.
  destruct (apply_loop_head _ _ _ _ a0 a1 v E1) as [L1 L2]; try assumption.
  { unfold a0, cap_pos in *. cbn. lia. }
  { unfold a0. cbn. auto. }
  destruct (unbond_loop_last _ a1 a2 E2) as (U1 & _).
  assert (Hfin : last_pow (stk (la_chain a2)) !! id = Some (v_power v)).
  { rewrite U1. destruct (existsb (Z.eqb id) (sorted_keys (la_last a1))) eqn:Ex; [apply in_sorted_keys in Ex as [q Hq]; congruence|exact L1]. }
  destruct (if la_to_bonded a2 =? 0 then _ else _) as [b|]; [|discriminate]. inversion Hrun; subst. clear Hrun.
  exists id, (v_power v). destruct (la_upd a2); cbn; exact Hfin.
Qed.

(* ---- CometBFT's empty-set refusal ---- *)
Lemma nodup_fst_functional {B} (l : list (Z * B)) k a b : List.NoDup (map fst l) -> In (k, a) l -> In (k, b) l -> a = b.
Proof.
  induction l as [|[k' x] l IH]; cbn; [intros _ []|]. intros Hnd [H1|H1] [H2|H2]; inversion Hnd as [|? ? Hn Hnd']; subst.
  - congruence.
  - inversion H1; subst. exfalso. apply Hn. change k with (fst (k, b)). apply in_map. exact H2.
  - inversion H2; subst. exfalso. apply Hn. change k with (fst (k, a)). apply in_map. exact H1.
  - apply IH; assumption.
Qed.

Lemma pigeon (m : gmap Z Z) (l : list Z) k0 :
  List.NoDup l -> (forall x, In x l -> is_Some (m !! x)) -> is_Some (m !! k0) -> ~ In k0 l -> (length l < size m)%nat.
Proof.
  intros Hnd Hall Hk Hnot.
  assert (Hle : (length (k0 :: l) <= length (map fst (map_to_list m)))%nat).
  { apply NoDup_incl_length; [constructor; assumption|]. intros x [<-|Hx].
    - destruct Hk as [q Hq]. apply in_map_iff. exists (k0, q). split; [reflexivity|]. apply elem_of_list_In. apply elem_of_map_to_list. exact Hq.
    - destruct (Hall x Hx) as [q Hq]. apply in_map_iff. exists (x, q). split; [reflexivity|]. apply elem_of_list_In. apply elem_of_map_to_list. exact Hq. }
  rewrite map_length in Hle. unfold size, map_size. cbn [length] in Hle. lia.
Qed.

Lemma comet_apply_not_empty vs upd k0 :
  List.NoDup (map fst upd) -> (forall k, In (k, 0) upd -> is_Some (vs !! k)) -> is_Some (apply_updates vs upd !! k0) ->
  comet_apply vs upd <> inr 4.
Proof.
  intros Hnd Hz Hk. rewrite apply_updates_lookup in Hk by exact Hnd.
  unfold comet_apply. destruct upd as [|u0 upd0] eqn:Eu; [discriminate|]. rewrite <- Eu in *. clear Eu u0 upd0. cbn zeta.
  repeat match goal with |- context [if ?b then inr ?e else _] => lazymatch e with 4 => fail | _ => destruct b; [discriminate|] end end.
  set (deletes := filter (fun u : Z * Z => snd u =? 0) upd).
  set (updates := filter (fun u : Z * Z => negb (snd u =? 0)) upd).
  set (new_vals := filter (fun u : Z * Z => negb (bool_decide (is_Some (vs !! fst u)))) updates).
  destruct ((length new_vals =? 0)%nat && (size vs =? length deletes)%nat) eqn:E4.
  2:{ repeat match goal with |- context [if ?b then _ else _] => destruct b end; discriminate. }
  exfalso. apply andb_prop in E4 as [En Es]. apply Nat.eqb_eq in En, Es. apply length_zero_iff_nil in En.
  assert (Hmem : is_Some (vs !! k0) /\ ~ In k0 (map fst deletes)).
  { destruct (lookup_upd k0 upd) as [p|] eqn:El.
    - destruct (Z.eqb_spec p 0) as [->|Hp]; [destruct Hk; discriminate|]. apply lookup_upd_some in El. split.
      + assert (Hu : In (k0, p) updates) by (apply filter_In; split; [exact El|cbn; apply negb_true_iff; apply Z.eqb_neq; exact Hp]).
        pose proof (filter_nil_none _ _ En (k0, p) Hu) as Hf. cbn in Hf. apply negb_false_iff in Hf. apply bool_decide_eq_true in Hf. exact Hf.
      + intros Hin. apply in_map_iff in Hin as ([k q] & Hkq & Hin). cbn in Hkq. subst k. apply filter_In in Hin as [Hin Hq]. cbn in Hq. apply Z.eqb_eq in Hq. subst q.
        apply Hp. eapply nodup_fst_functional; eauto.
    - split; [exact Hk|]. apply lookup_upd_none in El. intros Hin. apply El. apply in_map_iff in Hin as (x & Hx & Hin). apply filter_In in Hin as [Hin _].
      apply in_map_iff. exists x. auto. }
  destruct Hmem as [Hk0 Hnot].
  assert (Hlt : (length (map fst deletes) < size vs)%nat).
  { apply (pigeon vs (map fst deletes) k0); [apply nodup_filter_fst; exact Hnd| |exact Hk0|exact Hnot].
    intros x Hx. apply in_map_iff in Hx as ([k q] & Hkq & Hin). cbn in Hkq. subst k. apply filter_In in Hin as [Hin Hq]. cbn in Hq. apply Z.eqb_eq in Hq. subst q.
    apply Hz. exact Hin. }
  rewrite map_length in Hlt. lia.
Qed.

(* ---- BeginBlock keeps the parameters ---- *)
Lemma handle_votes_params votes absent : forall c c', handle_votes votes absent c = Some c' -> params (stk c') = params (stk c).
Proof.
  induction votes as [|[k p] vs IH]; cbn; intros c c'; [intros [= <-]; reflexivity|].
  destruct (handle_signature c k p _) as [c1|] eqn:E; [|discriminate]. intros H. apply IH in H. rewrite H. clear H.
  unfold handle_signature in E. destruct (by_cons (stk c) !! k) as [id|]; [|discriminate].
  destruct (vals (stk c) !! id) as [v|]; [|discriminate]. destruct (v_jailed v); [inversion E; reflexivity|].
  destruct (infos (sl c) !! k) as [i|]; [|discriminate].
  destruct (if negb _ && negb _ then _ else _) as [bm' cnt].
  destruct (_ && _).
  - destruct (slash c k p _) as [cs|] eqn:Es; [|discriminate]. destruct (jail (stk cs) k) as [s2|] eqn:Ej; [|discriminate].
    inversion E; subst. cbn. apply slash_frame in Es as (_ & _ & _ & _ & _ & _ & _ & _ & Hps & _). rewrite <- Hps.
    unfold jail in Ej. destruct (by_cons (stk cs) !! k) as [j|]; [|discriminate]. destruct (vals (stk cs) !! j) as [vj|]; [|discriminate].
    destruct (v_jailed vj); [discriminate|]. inversion Ej. reflexivity.
  - inversion E; reflexivity.
Qed.

Lemma begin_block_params c votes absent evs c' : begin_block c votes absent evs = inl c' -> params (stk c') = params (stk c).
Proof.
  unfold begin_block. destruct (_ && _); [discriminate|]. destruct (handle_votes votes absent c) as [c1|] eqn:E; [|discriminate].
  destruct (handle_evidences evs c1) as [c2|] eqn:E2; [|discriminate].
  intros [= <-]. apply handle_votes_params in E. apply handle_evidences_frame in E2 as (_ & _ & _ & _ & _ & _ & _ & P & _).
  unfold poa_begin_block. destruct (1 <? height c2); cbn; congruence.
Qed.

Lemma staking_end_block_params c c' upd : staking_end_block c = EBOk c' upd -> params (stk c') = params (stk c).
Proof.
  unfold staking_end_block. destruct (apply_valset_updates c) as [c1 u|] eqn:E1; [|discriminate].
  destruct (unbond_all_mature c1) as [c2|] eqn:E2; [|discriminate]. intros [= <- _].
  unfold unbond_all_mature in E2. apply mature_slots_frame in E2 as (_ & P2 & _). apply apply_valset_updates_params in E1. congruence.
Qed.

(* the environment's part: after this block's BeginBlock (downtime jailing) somebody eligible is left *)
Definition alive_after_begin (w : world) (b : block) : Prop :=
  let c0 := with_clock (w_chain w) (height (w_chain w) + 1) (now (w_chain w) + b_dt b) in
  let votes := match c_prev (w_comet w) with Some vs => sorted_votes vs | None => [] end in
  match begin_block c0 votes (b_absent b) (b_evidence b) with inl c1 => NE (stk c1) | inr _ => True end.

Lemma run_block_cap w b : wt_block b -> CI (w_chain w) -> cap_pos (stk (w_chain w)) -> cap_pos (stk (w_chain (fst (run_block w b)))).
Proof.
  intros Hwt HCI HC. unfold run_block. destruct (w_halted w); [exact HC|].
  set (c0 := with_clock (w_chain w) (height (w_chain w) + 1) (now (w_chain w) + b_dt b)).
  assert (H0 : CI c0) by (apply CI_clock; exact HCI). assert (C0 : cap_pos (stk c0)) by exact HC.
  destruct (begin_block c0 _ (b_absent b) (b_evidence b)) as [c1|e] eqn:Eb; [|exact C0].
  pose proof (begin_block_CI _ _ _ _ _ H0 Eb) as H1.
  assert (C1 : cap_pos (stk c1)) by (unfold cap_pos; rewrite (begin_block_params _ _ _ _ _ Eb); exact C0).
  (* the witness is not needed for the cap: replay the transactions with the cap alone *)
  assert (C2 : cap_pos (stk (fst (deliver_txs c1 (b_txs b))))).
  { clear -Hwt H1 C1. unfold wt_block in Hwt. revert c1 H1 C1. induction (b_txs b) as [|tx txs IH]; cbn; intros c1 H1 C1; [exact C1|].
    inversion Hwt as [|? ? Hwtx Hwtxs]; subst. pose proof (deliver_tx_CI c1 tx H1) as HCx.
    assert (C2 : cap_pos (stk (fst (deliver_tx c1 tx)))).
    { unfold deliver_tx. destruct (cur_stk_decorator _ _); [exact C1|]. destruct (cur_wd_decorator _ _); [exact C1|].
      destruct (cur_comm_decorator _ _ _ _ _); try exact C1. destruct (existsb is_tree tx); [exact C1|].
      destruct (exec_msgs _ tx) as [c2|] eqn:E; [|exact C1]. cbn.
      assert (G : forall ms c c', Forall wt_msg ms -> cap_pos (stk c) -> exec_msgs c ms = MOk c' -> cap_pos (stk c')).
      { induction ms as [|m ms IHm]; cbn; intros c c' Hw Hc; [intros [= <-]; exact Hc|]. inversion Hw; subst.
        destruct (exec_msg c m) as [cm|] eqn:Em; [|discriminate]. cbn. apply IHm; [assumption|]. eapply exec_msg_cap; eauto. }
      eapply (G tx (bump_seqs c1 (dedup (map msg_sender tx))) c2); [exact Hwtx|exact C1|exact E]. }
    destruct (deliver_tx c1 tx) as [c2 o]. cbn in *. specialize (IH Hwtxs c2 HCx C2). destruct (deliver_txs c2 txs) as [c3 os]. exact IH. }
  pose proof (deliver_txs_CI (b_txs b) c1 H1) as H2.
  destruct (deliver_txs c1 (b_txs b)) as [c2 outs]. cbn in C2, H2.
  destruct (staking_end_block c2) as [c3 upd|e] eqn:Ee; [|exact C2].
  assert (C3 : cap_pos (stk c3)) by (unfold cap_pos; rewrite (staking_end_block_params _ _ _ Ee); exact C2).
  destruct (comet_apply _ upd); exact C3.
Qed.

(* one block: transactions cannot empty the set *)
Theorem block_not_emptied w b :
  WI w -> IC (stk (w_chain w)) -> cap_pos (stk (w_chain w)) -> wt_block b -> alive_after_begin w b ->
  w_halted w = None -> w_halted (fst (run_block w b)) <> Some (HComet 4).
Proof.
  intros [HCI Hrel] HI HC Hwt Halive Hh. specialize (Hrel Hh). unfold alive_after_begin in Halive. unfold run_block. rewrite Hh.
  set (c0 := with_clock (w_chain w) (height (w_chain w) + 1) (now (w_chain w) + b_dt b)) in *.
  assert (H0 : CI c0) by (apply CI_clock; exact HCI). assert (I0 : IC (stk c0)) by exact HI. assert (C0 : cap_pos (stk c0)) by exact HC.
  destruct (begin_block c0 _ (b_absent b) (b_evidence b)) as [c1|e] eqn:Eb; [|discriminate].
  pose proof (begin_block_CI _ _ _ _ _ H0 Eb) as H1. pose proof (begin_block_MS _ _ _ _ _ Eb) as M1. pose proof (begin_block_IC _ _ _ _ _ I0 Eb) as I1.
  assert (C1 : cap_pos (stk c1)) by (unfold cap_pos; rewrite (begin_block_params _ _ _ _ _ Eb); exact C0).
  destruct (deliver_txs_NE_cap (b_txs b) c1 Hwt H1 Halive C1) as [N2 C2].
  pose proof (deliver_txs_CI (b_txs b) c1 H1) as H2. pose proof (deliver_txs_MS (b_txs b) c1 H1) as M2. pose proof (deliver_txs_IC (b_txs b) c1 I1) as I2.
  destruct (deliver_txs c1 (b_txs b)) as [c2 outs]. cbn in H2, M2, I2, N2, C2.
  assert (Hrel2 : comet_rel (stk c2) (c_next (w_comet w))).
  { eapply comet_rel_stable; [exact M2|]. eapply comet_rel_stable; [exact M1|]. exact Hrel. }
  unfold staking_end_block. destruct (apply_valset_updates c2) as [c3 upd|e] eqn:Ea; [|discriminate].
  destruct (unbond_all_mature c3); [|discriminate].
  pose proof (apply_valset_updates_CI _ _ _ H2 Ea) as H3.
  pose proof (apply_valset_updates_comet _ _ _ _ H2 Hrel2 Ea) as Hrel3.
  destruct (apply_valset_updates_nonempty _ _ _ H2 I2 N2 C2 Ea) as (id & p & Hl).
  destruct H3 as [HS3 _]. destruct (si_last _ HS3 id p Hl) as (v & Hv & _).
  assert (Hk : apply_updates (c_next (w_comet w)) upd !! v_cons v = Some p) by (apply (Hrel3 (v_cons v) p); exists id, v; auto).
  destruct H2 as [HS2 HP2].
  pose proof (apply_valset_updates_safe c2 (si_sound _ HS2) (si_unique _ HS2) (si_cons _ HS2) (si_last _ HS2) (si_tok _ HS2)) as Hsafe. rewrite Ea in Hsafe.
  destruct Hsafe as [Hnd _].
  pose proof (comet_apply_not_empty (c_next (w_comet w)) upd (v_cons v) Hnd
                (apply_valset_updates_zero_members _ _ _ _ (conj HS2 HP2) Hrel2 Ea) ltac:(rewrite Hk; eauto)) as Hn4.
  destruct (comet_apply (c_next (w_comet w)) upd) as [nn|e]; cbn; [discriminate|]. intros [= ->]. congruence.
Qed.

(* histories: the environment hypotheses, block by block, relative to the state each block is applied to *)
Fixpoint env_ok (w : world) (bs : list block) : Prop :=
  match bs with
  | [] => True
  | b :: bs' => wt_block b /\ alive_after_begin w b /\ env_ok (fst (run_block w b)) bs'
  end.

Theorem history_never_emptied g bs :
  wf_genesis g -> 1 <= g_max_vals g -> env_ok (init_world g) bs ->
  w_halted (run_world (init_world g) bs) <> Some (HComet 4).
Proof.
  intros Hwf Hcap. pose proof (init_world_WI g Hwf) as HW. pose proof (init_world_IC g) as HI.
  assert (HC : cap_pos (stk (w_chain (init_world g)))).
  { unfold init_world. fold (genesis_chain g). destruct (apply_valset_updates (genesis_chain g)) as [c1 upd|e] eqn:E; cbn; [|exact Hcap].
    unfold cap_pos. cbn. rewrite (apply_valset_updates_params _ _ _ E). exact Hcap. }
  assert (H0 : w_halted (init_world g) <> Some (HComet 4)).
  { unfold init_world. fold (genesis_chain g). destruct (apply_valset_updates (genesis_chain g)); cbn; discriminate. }
  revert HW HI HC H0. generalize (init_world g). induction bs as [|b bs IH]; cbn; intros w HW HI HC H0 Henv; [exact H0|].
  destruct Henv as (Hwt & Halive & Henv).
  apply IH; [apply run_block_WI; exact HW|apply run_block_IC; exact HI|apply run_block_cap; [exact Hwt|apply HW|exact HC]| |exact Henv].
  destruct (w_halted w) as [r|] eqn:Hh.
  - unfold run_block. rewrite Hh. cbn. rewrite Hh. exact H0.
  - apply block_not_emptied; assumption.
Qed.
