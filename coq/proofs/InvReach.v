(* InvReach.v — a successful SetPower reaches the validator set: if a block carries a transaction [SetPower v P] that passes, no later
   message of the block names v, and v is not jailed when the block ends, then (max_validators not binding) v's last validator power
   after the block — what CometBFT is told — is floor(P / 10^6). *)
From stdpp Require Import gmap.
Require Import Model.Base Model.Ante Model.Validate Model.Current Model.State Model.Staking Model.Slashing Model.Poa Model.App.
Require Import proofs.EvBasic proofs.L1Basic proofs.L1More proofs.L1Effects proofs.Inv proofs.InvPres proofs.InvMsgs proofs.InvHistory proofs.InvComet proofs.InvElig proofs.InvLive proofs.InvUpd proofs.InvFrame.
Open Scope Z_scope.

Lemma deliver_txs_app a : forall c b, fst (deliver_txs c (a ++ b)) = fst (deliver_txs (fst (deliver_txs c a)) b).
Proof.
  induction a as [|tx a IH]; intros c b; cbn [app deliver_txs]; [reflexivity|].
  destruct (deliver_tx c tx) as [c1 o]. specialize (IH c1 b).
  destruct (deliver_txs c1 (a ++ b)) as [c2 os], (deliver_txs c1 a) as [c3 os3]. cbn [fst] in *. exact IH.
Qed.

Lemma msg_set_power_writes c s v P u c' : msg_set_power c s v P u = MOk c' ->
  exists r, vals (stk c') !! v = Some r /\ v_tokens r = cast_i64 P /\ 0 < tokens_to_power (cast_i64 P).
Proof.
  unfold msg_set_power. destruct (negb (is_admin s)); [discriminate|]. destruct (setpower_validate (0 <=? v) P) as [[]|] eqn:Ev; [|discriminate].
  destruct (match find_pending v (pending (poa c)) with Some q => accept_new_validator c q | None => ensure_active c v end) as [c1|]; [|discriminate]. cbn [mbind].
  destruct (set_poa_power c1 v (cast_i64 P)) as [c2|] eqn:E2; [|discriminate]. cbn [mbind].
  destruct (set_poa_power_target _ _ _ _ E2) as (v0 & _ & Hv2).
  assert (H2 : exists r, vals (stk c2) !! v = Some r /\ v_tokens r = cast_i64 P) by (eexists; split; [exact Hv2|reflexivity]).
  destruct H2 as (r & Hr & Ht). pose proof (valid_power_pos v P Ev) as Hpos.
  destruct (negb u && (1 <? height c2)); [destruct (_ =? 0); [discriminate|]; destruct (30 <=? _); [discriminate|]|];
    intros H; apply update_bonded_pool_stk in H as (-> & _); exists r; auto.
Qed.

Theorem setpower_reaches_the_set g bs b txs1 s v P u txs2 cb ca' :
  wf_genesis g ->
  let w := run_world (init_world g) bs in
  let w' := fst (run_block w b) in
  w_halted w = None -> w_halted w' = None ->
  b_txs b = txs1 ++ [MSetPower s v P u] :: txs2 ->
  begin_block (with_clock (w_chain w) (height (w_chain w) + 1) (now (w_chain w) + b_dt b))
              (match c_prev (w_comet w) with Some vs => sorted_votes vs | None => [] end) (b_absent b) (b_evidence b) = inl cb ->
  deliver_tx (fst (deliver_txs cb txs1)) [MSetPower s v P u] = (ca', TPass) ->
  spares_txs v txs2 ->
  (forall r, vals (stk (w_chain w')) !! v = Some r -> v_jailed r = false) ->
  n_pos (pidx (stk (w_chain w'))) <= sp_max_validators (params (stk (w_chain w'))) ->
  last_pow (stk (w_chain w')) !! v = Some (tokens_to_power (cast_i64 P)).
Proof.
  intros Hg w w' Hh Hh' Htxs Eb Etx Hsp Hnj Hcap.
  assert (HCw : CI (w_chain w)) by (apply reachable_CI; exact Hg).
  set (c0 := with_clock (w_chain w) (height (w_chain w) + 1) (now (w_chain w) + b_dt b)) in *.
  assert (HC0 : CI c0) by (apply CI_clock; exact HCw).
  pose proof (begin_block_CI _ _ _ _ _ HC0 Eb) as HCb.
  set (ca := fst (deliver_txs cb txs1)) in *.
  assert (HCa : CI ca) by (apply deliver_txs_CI; exact HCb).
  (* the transaction *)
  assert (Hrec : exists r, vals (stk ca') !! v = Some r /\ v_tokens r = cast_i64 P /\ 0 < tokens_to_power (cast_i64 P)).
  { revert Etx. unfold deliver_tx. destruct (cur_stk_decorator _ _); [discriminate|]. destruct (cur_wd_decorator _ _); [discriminate|].
    destruct (cur_comm_decorator _ _ _ _ _); try discriminate. cbn [existsb is_tree orb]. cbn [exec_msgs exec_msg].
    destruct (msg_set_power _ s v P u) as [c2|] eqn:Em; cbn [mbind]; [|discriminate]. intros [= <-]. eapply msg_set_power_writes; exact Em. }
  destruct Hrec as (r & Hr & Ht & Hpos).
  assert (HCa' : CI ca') by (pose proof (deliver_tx_CI ca [MSetPower s v P u] HCa) as H; rewrite Etx in H; exact H).
  (* the rest of the block's transactions *)
  pose proof (deliver_txs_same_at txs2 v ca' HCa' Hsp) as [A2 _].
  assert (Hc2 : fst (deliver_txs cb (b_txs b)) = fst (deliver_txs ca' txs2)).
  { rewrite Htxs, deliver_txs_app. fold ca. cbn [deliver_txs]. rewrite Etx. destruct (deliver_txs ca' txs2) as [cx ox]. reflexivity. }
  (* the EndBlocker *)
  assert (Hend : exists r', vals (stk (w_chain w')) !! v = Some r' /\ v_tokens r' = cast_i64 P).
  { subst w'. revert Hh'. unfold run_block. rewrite Hh. fold c0. rewrite Eb.
    destruct (deliver_txs cb (b_txs b)) as [c2 outs] eqn:Ed. cbn [fst] in Hc2. subst c2.
    destruct (staking_end_block _) as [c3 upd|e] eqn:Ee; [|cbn; discriminate].
    pose proof (staking_end_block_keeps _ _ _ v Ee) as [_ K]. rewrite A2, Hr in K.
    assert (Hv3 : exists r', vals (stk c3) !! v = Some r' /\ v_tokens r' = cast_i64 P).
    { destruct (vals (stk c3) !! v) as [r'|]; [exists r'; split; [reflexivity|]; destruct K as (_ & _ & T & _); congruence|].
      exfalso. destruct K as [T _]. unfold tokens_to_power, power_reduction in Hpos. rewrite Ht in T.
      assert (cast_i64 P / 1000000 <= 0) by (apply Z.div_le_upper_bound; lia). lia. }
    destruct (comet_apply _ upd); cbn; [intros _; exact Hv3|discriminate]. }
  destruct Hend as (r' & Hr' & Ht').
  (* the set is the eligible validators *)
  assert (Ew' : w' = run_world (init_world g) (bs ++ [b])) by (unfold w', w; symmetry; apply run_world_snoc).
  pose proof (reachable_set g (bs ++ [b]) Hg) as L. rewrite <- Ew' in L. specialize (L Hh' Hcap v). rewrite L, Hr'.
  unfold eligible. rewrite (Hnj r' Hr'). cbn. unfold v_power. rewrite Ht'.
  destruct (Z.ltb_spec 0 (tokens_to_power (cast_i64 P))); [reflexivity|lia].
Qed.

Lemma msg_remove_validator_writes c s v c' : msg_remove_validator c s v = MOk c' -> exists r, vals (stk c') !! v = Some r /\ v_tokens r = 0.
Proof.
  unfold msg_remove_validator. destruct (if is_admin s then None else _); [discriminate|]. destruct (_ =? 0); [discriminate|].
  destruct (vals (stk c) !! v) as [vv|]; [|discriminate]. destruct (negb _); [discriminate|].
  destruct (set_poa_power c v 0) as [c1|] eqn:E; [|discriminate]. cbn [mbind].
  destruct (set_poa_power_target _ _ _ _ E) as (v0 & _ & Hv1).
  intros H. apply update_bonded_pool_stk in H as (-> & _). cbn. eexists. split; [exact Hv1|reflexivity].
Qed.

(* ... and a successful RemoveValidator takes it out: no later message of the block naming it, and its last validator power is gone
   when the block ends (any max_validators) *)
Theorem remove_leaves_the_set g bs b txs1 s v txs2 cb ca' :
  wf_genesis g ->
  let w := run_world (init_world g) bs in
  let w' := fst (run_block w b) in
  w_halted w = None -> w_halted w' = None ->
  b_txs b = txs1 ++ [MRemoveValidator s v] :: txs2 ->
  begin_block (with_clock (w_chain w) (height (w_chain w) + 1) (now (w_chain w) + b_dt b))
              (match c_prev (w_comet w) with Some vs => sorted_votes vs | None => [] end) (b_absent b) (b_evidence b) = inl cb ->
  deliver_tx (fst (deliver_txs cb txs1)) [MRemoveValidator s v] = (ca', TPass) ->
  spares_txs v txs2 ->
  last_pow (stk (w_chain w')) !! v = None.
Proof.
  intros Hg w w' Hh Hh' Htxs Eb Etx Hsp.
  assert (HCw : CI (w_chain w)) by (apply reachable_CI; exact Hg).
  set (c0 := with_clock (w_chain w) (height (w_chain w) + 1) (now (w_chain w) + b_dt b)) in *.
  assert (HC0 : CI c0) by (apply CI_clock; exact HCw).
  pose proof (begin_block_CI _ _ _ _ _ HC0 Eb) as HCb.
  set (ca := fst (deliver_txs cb txs1)) in *.
  assert (HCa : CI ca) by (apply deliver_txs_CI; exact HCb).
  assert (Hrec : exists r, vals (stk ca') !! v = Some r /\ v_tokens r = 0).
  { revert Etx. unfold deliver_tx. destruct (cur_stk_decorator _ _); [discriminate|]. destruct (cur_wd_decorator _ _); [discriminate|].
    destruct (cur_comm_decorator _ _ _ _ _); try discriminate. cbn [existsb is_tree orb]. cbn [exec_msgs exec_msg].
    destruct (msg_remove_validator _ s v) as [c2|] eqn:Em; cbn [mbind]; [|discriminate]. intros [= <-]. eapply msg_remove_validator_writes; exact Em. }
  destruct Hrec as (r & Hr & Ht).
  assert (HCa' : CI ca') by (pose proof (deliver_tx_CI ca [MRemoveValidator s v] HCa) as H; rewrite Etx in H; exact H).
  pose proof (deliver_txs_same_at txs2 v ca' HCa' Hsp) as [A2 _].
  assert (Hc2 : fst (deliver_txs cb (b_txs b)) = fst (deliver_txs ca' txs2)).
  { rewrite Htxs, deliver_txs_app. fold ca. cbn [deliver_txs]. rewrite Etx. destruct (deliver_txs ca' txs2) as [cx ox]. reflexivity. }
  assert (Hend : forall r', vals (stk (w_chain w')) !! v = Some r' -> v_tokens r' = 0).
  { subst w'. revert Hh'. unfold run_block. rewrite Hh. fold c0. rewrite Eb.
    destruct (deliver_txs cb (b_txs b)) as [c2 outs] eqn:Ed. cbn [fst] in Hc2. subst c2.
    destruct (staking_end_block _) as [c3 upd|e] eqn:Ee; [|cbn; discriminate].
    pose proof (staking_end_block_keeps _ _ _ v Ee) as [_ K]. rewrite A2, Hr in K.
    destruct (comet_apply _ upd); cbn; [intros _|discriminate].
    intros r' Hr'. rewrite Hr' in K. destruct K as (_ & _ & T & _). congruence. }
  destruct (last_pow (stk (w_chain w')) !! v) as [q|] eqn:El; [|reflexivity]. exfalso.
  assert (Ew' : w' = run_world (init_world g) (bs ++ [b])) by (unfold w', w; symmetry; apply run_world_snoc).
  pose proof (reachable_members_ok g (bs ++ [b]) Hg) as M. rewrite <- Ew' in M. destruct (M Hh' v q El) as (v0 & Hv0 & _ & Hq & Hpos).
  subst q. unfold v_power, tokens_to_power, power_reduction in Hpos. rewrite (Hend v0 Hv0) in Hpos. rewrite Z.div_0_l in Hpos by lia. lia.
Qed.
