(* InvSupply.v — the money outside the two staking pools never moves: whatever PoA, x/slashing and x/staking's EndBlocker do
   to the bond-denom supply, they do to the pools; no account is credited or debited. *)
From stdpp Require Import gmap.
Require Import Model.Base Model.Ante Model.Validate Model.Current Model.State Model.Staking Model.Slashing Model.Poa Model.App.
Require Import proofs.EvBasic proofs.L1Basic proofs.L1More proofs.L1Effects proofs.Inv proofs.InvPres proofs.InvMsgs proofs.InvHistory proofs.InvQueue proofs.InvPools.
Open Scope Z_scope.

Definition outside (b : bank) : Z := supply b - bonded_pool b - notbonded_pool b.

Lemma ubp_outside c c' : update_bonded_pool c = MOk c' -> outside (bk c') = outside (bk c).
Proof. intros H. apply update_bonded_pool_spec in H as (_ & _ & _ & _ & _ & _ & _ & N & S). unfold outside. lia. Qed.

Lemma slash_outside c k p f c' : slash c k p f = Some c' -> outside (bk c') = outside (bk c).
Proof.
  unfold slash. destruct (f <? 0); [discriminate|].
  destruct (by_cons (stk c) !! k) as [id|]; [|intros [= <-]; reflexivity].
  destruct (vals (stk c) !! id) as [v|]; [|intros [= <-]; reflexivity].
  destruct (status_eqb (v_status v) Unbonded); [discriminate|].
  destruct (_ =? 0); [intros [= <-]; reflexivity|].
  destruct (status_eqb (v_status v) Bonded).
  - unfold burn_bonded. destruct (_ <? _); [discriminate|]. intros [= <-]. unfold outside. cbn. lia.
  - unfold burn_notbonded. destruct (_ <? _); [discriminate|]. intros [= <-]. unfold outside. cbn. lia.
Qed.

Lemma set_poa_power_outside c val n c' : set_poa_power c val n = MOk c' -> outside (bk c') = outside (bk c).
Proof.
  unfold set_poa_power. destruct (vals (stk c) !! val) as [v|]; [|discriminate]. destruct (_ =? _); [discriminate|].
  destruct (_ && _).
  - destruct (slash _ _ _ _) as [c2|] eqn:Es; [|discriminate]. cbn [mbind]. unfold update_validator_set. intros H.
    apply ubp_outside in H. cbn in H. rewrite H. apply slash_outside in Es. exact Es.
  - cbn [mbind]. unfold update_validator_set. intros H. apply ubp_outside in H. exact H.
Qed.

Lemma exec_msg_outside c m c' : exec_msg c m = MOk c' -> outside (bk c') = outside (bk c).
Proof.
  destruct m as [s v p u|s v|s v|v k mon r mx ch msd|s p|v|s|s t]; cbn.
  - unfold msg_set_power. destruct (negb (is_admin s)); [discriminate|].
    destruct (setpower_validate (0 <=? v) p) as [[]|]; [|discriminate].
    set (r1 := match find_pending v (pending (poa c)) with Some q => accept_new_validator c q | None => ensure_active c v end).
    assert (H1 : forall c1, r1 = MOk c1 -> outside (bk c1) = outside (bk c)).
    { subst r1. intros c1. destruct (find_pending v (pending (poa c))) as [q|].
      - unfold accept_new_validator. intros H. apply ubp_outside in H. exact H.
      - intros H. apply ensure_active_id in H as ->. reflexivity. }
    destruct r1 as [c1|]; [|discriminate]. cbn [mbind]. specialize (H1 c1 eq_refl).
    destruct (set_poa_power c1 v (cast_i64 p)) as [c2|] eqn:E2; [|discriminate]. cbn [mbind]. apply set_poa_power_outside in E2.
    destruct (negb u && (1 <? height c2)).
    + destruct (_ =? 0); [discriminate|]. destruct (30 <=? _); [discriminate|]. intros H. apply ubp_outside in H. congruence.
    + intros H. apply ubp_outside in H. congruence.
  - unfold msg_remove_validator. destruct (if is_admin s then None else _); [discriminate|].
    destruct (_ =? 0); [discriminate|]. destruct (vals (stk c) !! v) as [vv|]; [|discriminate]. destruct (negb _); [discriminate|].
    destruct (set_poa_power c v 0) as [c1|] eqn:E; [|discriminate]. cbn [mbind]. apply set_poa_power_outside in E.
    intros H. apply ubp_outside in H. cbn in H. congruence.
  - unfold msg_remove_pending. destruct (negb _); [discriminate|]. intros [= <-]. reflexivity.
  - destruct r as [r|], mx as [mx|], ch as [ch|]; try discriminate.
    unfold msg_create_validator. destruct (poa_create_validate _); try discriminate. destruct (_ <? _); [discriminate|].
    destruct (bool_decide _); [discriminate|]. destruct (bool_decide _); [discriminate|]. destruct (pending_conflict _ _ _); [discriminate|].
    destruct (negb _); [discriminate|]. intros H. apply ubp_outside in H. exact H.
  - unfold msg_update_params. destruct (negb _); [discriminate|]. destruct (negb _); [discriminate|]. destruct (negb _); [discriminate|].
    intros [= <-]. reflexivity.
  - unfold msg_unjail. destruct (vals (stk c) !! v) as [vv|]; [|discriminate]. destruct (dels (stk c) !! v); [|discriminate].
    destruct (_ =? 0); [discriminate|]. destruct (_ <? _); [discriminate|]. destruct (negb _); [discriminate|].
    destruct (match infos _ !! _ with Some _ => _ | None => _ end); [discriminate|].
    destruct (unjail (stk c) (v_cons vv)) as [s'|]; [|discriminate]. intros [= <-]. reflexivity.
  - intros [= <-]. reflexivity.
  - intros [= <-]. reflexivity.
Qed.

Lemma exec_msgs_outside ms : forall c c', exec_msgs c ms = MOk c' -> outside (bk c') = outside (bk c).
Proof.
  induction ms as [|m ms IH]; cbn; intros c c'; [intros [= <-]; reflexivity|].
  destruct (exec_msg c m) as [c1|] eqn:E; [|discriminate]. cbn. intros H. apply IH in H. apply exec_msg_outside in E. congruence.
Qed.

Lemma deliver_tx_outside c tx : outside (bk (fst (deliver_tx c tx))) = outside (bk c).
Proof.
  unfold deliver_tx. destruct (cur_stk_decorator _ _); [reflexivity|]. destruct (cur_wd_decorator _ _); [reflexivity|].
  destruct (cur_comm_decorator _ _ _ _ _); try reflexivity.
  destruct (existsb is_tree tx); [reflexivity|].
  destruct (exec_msgs _ tx) as [c2|] eqn:E; [|reflexivity]. cbn. apply exec_msgs_outside in E. exact E.
Qed.

Lemma deliver_txs_outside txs : forall c, outside (bk (fst (deliver_txs c txs))) = outside (bk c).
Proof.
  induction txs as [|tx txs IH]; cbn; intros c; [reflexivity|].
  pose proof (deliver_tx_outside c tx) as Q1. destruct (deliver_tx c tx) as [c1 o]. cbn in *.
  specialize (IH c1). destruct (deliver_txs c1 txs) as [c2 os]. cbn in *. congruence.
Qed.

Lemma handle_signature_outside c k p sg c' : handle_signature c k p sg = Some c' -> outside (bk c') = outside (bk c).
Proof.
  unfold handle_signature. destruct (by_cons (stk c) !! k) as [id|]; [|discriminate].
  destruct (vals (stk c) !! id) as [v|]; [|discriminate]. destruct (v_jailed v); [intros [= <-]; reflexivity|].
  destruct (infos (sl c) !! k) as [i|]; [|discriminate].
  destruct (if negb _ && negb sg then _ else _) as [bm' cnt].
  destruct (_ && _).
  - destruct (slash c k p _) as [c1|] eqn:Es; [|discriminate]. destruct (jail (stk c1) k) as [s2|]; [|discriminate].
    intros [= <-]. cbn. apply slash_outside in Es. exact Es.
  - intros [= <-]. reflexivity.
Qed.

Lemma handle_votes_outside votes absent : forall c c', handle_votes votes absent c = Some c' -> outside (bk c') = outside (bk c).
Proof.
  induction votes as [|[k p] vs IH]; cbn; intros c c'; [intros [= <-]; reflexivity|].
  destruct (handle_signature c k p _) as [c1|] eqn:E; [|discriminate]. intros H. apply IH in H. apply handle_signature_outside in E. congruence.
Qed.

Lemma handle_evidence_outside c e c' : handle_evidence c e = Some c' -> outside (bk c') = outside (bk c).
Proof.
  intros H. apply handle_evidence_cases in H as [->|(id & v & i & c1 & s2 & _ & _ & _ & _ & _ & _ & Es & Hj & ->)]; [reflexivity|].
  cbn. apply slash_outside in Es. exact Es.
Qed.

Lemma handle_evidences_outside evs c c' : handle_evidences evs c = Some c' -> outside (bk c') = outside (bk c).
Proof.
  apply (handle_evidences_rel (fun a b => outside (bk b) = outside (bk a))); [reflexivity|intros; congruence|].
  intros; eapply handle_evidence_outside; eauto.
Qed.

Lemma begin_block_outside c votes absent evs c' : begin_block c votes absent evs = inl c' -> outside (bk c') = outside (bk c).
Proof.
  unfold begin_block. destruct (_ && _); [discriminate|]. destruct (handle_votes votes absent c) as [c1|] eqn:E; [|discriminate].
  destruct (handle_evidences evs c1) as [c2|] eqn:E2; [|discriminate].
  intros [= <-]. apply handle_votes_outside in E. apply handle_evidences_outside in E2. unfold poa_begin_block. destruct (1 <? height c2); cbn; congruence.
Qed.

Lemma bond_validator_bk c id v : bk (fst (bond_validator c id v)) = bk c.
Proof. reflexivity. Qed.
Lemma begin_unbonding_bk c id v : bk (fst (begin_unbonding c id v)) = bk c.
Proof. reflexivity. Qed.

Lemma apply_loop_bk keys maxv : forall a a', apply_loop keys maxv a = LDone a' -> bk (la_chain a') = bk (la_chain a).
Proof.
  induction keys as [|[p id] ks IH]; intros a a'; cbn [apply_loop]; [intros [= <-]; reflexivity|].
  destruct (_ <=? _); [intros [= <-]; reflexivity|]. destruct (vals _ !! id) as [v|]; [|discriminate].
  destruct (v_jailed v); [apply IH|]. destruct (_ =? 0); [intros [= <-]; reflexivity|].
  destruct (v_status v).
  - pose proof (bond_validator_bk (la_chain a) id v) as Hb. destruct (bond_validator (la_chain a) id v) as [cb vb]. cbn in Hb.
    intros H. apply IH in H. rewrite H. cbn [la_chain]. destruct (match la_last a !! id with Some old => _ | None => true end); exact Hb.
  - pose proof (bond_validator_bk (la_chain a) id v) as Hb. destruct (bond_validator (la_chain a) id v) as [cb vb]. cbn in Hb.
    intros H. apply IH in H. rewrite H. cbn [la_chain]. destruct (match la_last a !! id with Some old => _ | None => true end); exact Hb.
  - intros H. apply IH in H. rewrite H. cbn [la_chain]. destruct (match la_last a !! id with Some old => _ | None => true end); reflexivity.
Qed.

Lemma unbond_loop_bk ids : forall a a', unbond_loop ids a = LDone a' -> bk (la_chain a') = bk (la_chain a).
Proof.
  induction ids as [|id rest IH]; intros a a'; cbn [unbond_loop]; [intros [= <-]; reflexivity|].
  destruct (vals _ !! id) as [v|]; [|discriminate]. destruct (negb _); [discriminate|].
  pose proof (begin_unbonding_bk (la_chain a) id v) as Hb. destruct (begin_unbonding (la_chain a) id v) as [cu vu]. cbn in Hb.
  intros H. apply IH in H. rewrite H. cbn [la_chain]. exact Hb.
Qed.

Lemma apply_valset_updates_outside c c' upd : apply_valset_updates c = EBOk c' upd -> outside (bk c') = outside (bk c).
Proof.
  unfold apply_valset_updates. destruct (apply_loop _ _ _) as [a1|] eqn:E1; [|discriminate]. destruct (unbond_loop _ a1) as [a2|] eqn:E2; [|discriminate].
  apply apply_loop_bk in E1. apply unbond_loop_bk in E2. cbn [la_chain] in E1.
  destruct (la_to_bonded a2 =? 0).
  - intros [= <- _]. destruct (la_upd a2); cbn; congruence.
  - destruct (pool_transfer _ _) as [b|] eqn:Ep; [|discriminate]. intros [= <- _].
    assert (outside b = outside (bk (la_chain a2))).
    { unfold pool_transfer in Ep. destruct (0 <=? la_to_bonded a2); destruct (_ <? _); try discriminate; inversion Ep; subst b; unfold outside; cbn; lia. }
    destruct (la_upd a2); cbn; congruence.
Qed.

Lemma mature_ids_bk ids : forall c c', mature_ids ids c = Some c' -> bk c' = bk c.
Proof.
  induction ids as [|id rest IH]; cbn [mature_ids]; intros c c'; [intros [= <-]; reflexivity|].
  destruct (vals (stk c) !! id) as [v|]; [|discriminate]. destruct (negb _); [discriminate|].
  destruct (_ =? 0).
  - destruct (0 <? _); [discriminate|]. intros H. apply IH in H. exact H.
  - intros H. apply IH in H. exact H.
Qed.

Lemma mature_slots_bk slots : forall c c', mature_slots slots c = Some c' -> bk c' = bk c.
Proof.
  induction slots as [|[[t h] ids] rest IH]; cbn [mature_slots]; intros c c'; [intros [= <-]; reflexivity|].
  destruct (_ && _); [|apply IH]. destruct (mature_ids ids c) as [c1|] eqn:E; [|discriminate]. intros H. apply IH in H.
  apply mature_ids_bk in E. congruence.
Qed.

Lemma staking_end_block_outside c c' upd : staking_end_block c = EBOk c' upd -> outside (bk c') = outside (bk c).
Proof.
  unfold staking_end_block. destruct (apply_valset_updates c) as [c1 u1|] eqn:E1; [|discriminate].
  destruct (unbond_all_mature c1) as [c2|] eqn:E2; [|discriminate]. intros [= <- _].
  apply apply_valset_updates_outside in E1. unfold unbond_all_mature in E2. apply mature_slots_bk in E2. congruence.
Qed.

Lemma run_block_outside w b : outside (bk (w_chain (fst (run_block w b)))) = outside (bk (w_chain w)).
Proof.
  unfold run_block. destruct (w_halted w); [reflexivity|].
  set (c0 := with_clock (w_chain w) (height (w_chain w) + 1) (now (w_chain w) + b_dt b)).
  destruct (begin_block c0 _ (b_absent b) (b_evidence b)) as [c1|e] eqn:Eb; [|reflexivity].
  apply begin_block_outside in Eb. pose proof (deliver_txs_outside (b_txs b) c1) as H2.
  destruct (deliver_txs c1 (b_txs b)) as [c2 outs]. cbn [fst] in H2.
  destruct (staking_end_block c2) as [c3 upd|e] eqn:Ee; [|cbn; change (bk c0) with (bk (w_chain w)) in Eb; congruence].
  apply staking_end_block_outside in Ee. change (bk c0) with (bk (w_chain w)) in Eb.
  destruct (comet_apply _ upd); cbn; congruence.
Qed.

Lemma run_world_outside bs : forall w, outside (bk (w_chain (run_world w bs))) = outside (bk (w_chain w)).
Proof. induction bs as [|b bs IH]; intros w; cbn [run_world]; [reflexivity|]. rewrite IH. apply run_block_outside. Qed.

Definition genesis_outside (g : genesis) : Z := n_accounts * account_funds - fold_right Z.add 0 (g_tokens g).

Lemma enumerate_sum i l : fold_right (fun p acc => snd p + acc) 0 (enumerate_from i l) = fold_right Z.add 0 l.
Proof. revert i. induction l as [|x xs IH]; intros i; cbn; [reflexivity|]. rewrite IH. reflexivity. Qed.

Lemma init_world_outside g : outside (bk (w_chain (init_world g))) = genesis_outside g.
Proof.
  unfold init_world. fold (genesis_chain g).
  assert (H0 : outside (bk (genesis_chain g)) = genesis_outside g).
  { unfold genesis_chain, outside, genesis_outside. cbn. rewrite enumerate_sum. lia. }
  destruct (apply_valset_updates (genesis_chain g)) as [c1 upd|e] eqn:E; cbn; [|exact H0].
  apply apply_valset_updates_outside in E. congruence.
Qed.

(* in every reachable state: what the accounts hold is what they held at genesis, and the supply is that plus the two pools;
   with the bonded pool equal to the bonded validators' tokens (InvPools), the supply moves with the admin's assignments
   and the slashing burns and with nothing else *)
Theorem history_outside g bs :
  let c := w_chain (run_world (init_world g) bs) in
  supply (bk c) = genesis_outside g + bonded_pool (bk c) + notbonded_pool (bk c).
Proof. intros c. pose proof (run_world_outside bs (init_world g)) as H. rewrite init_world_outside in H. fold c in H. unfold outside in H. lia. Qed.

Theorem history_supply g bs : wf_genesis g ->
  let c := w_chain (run_world (init_world g) bs) in
  supply (bk c) = genesis_outside g + bonded_tokens (stk c) + notbonded_pool (bk c).
Proof. intros Hg c. destruct (reachable_all g bs Hg) as (_ & _ & [HB _]). fold c in HB. rewrite <- HB. apply history_outside. Qed.
