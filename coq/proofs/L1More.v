(* L1More.v — pending queue, queries, removal guard, jailed/unbonding targets, CometBFT acceptance,
   composition of runs. *)
From stdpp Require Import gmap.
Require Import Model.Base Model.Ante Model.Validate Model.Current Model.State Model.Staking Model.Slashing Model.Poa Model.App.
Require Import proofs.L1Effects.
Open Scope Z_scope.

(* ---------- C10: pending queue ---------- *)
Lemma create_validator_effect c val cons mon r m ch c' :
  msg_create_validator c val cons mon r m ch = MOk c' ->
  pending (poa c') = pending (poa c) ++ [{| p_oper := val; p_cons := cons; p_rate := r; p_maxrate := m; p_maxchg := ch; p_moniker := mon |}] /\
  stk c' = stk c /\ sl c' = sl c /\
  (* not already a validator, not already pending (operator and consensus key) *)
  vals (stk c) !! val = None /\ by_cons (stk c) !! cons = None /\ pending_conflict val cons (pending (poa c)) = None.
Proof.
  unfold msg_create_validator. destruct (poa_create_validate _); try discriminate.
  destruct (_ <? _); [discriminate|].
  destruct (vals (stk c) !! val) eqn:Ev; [rewrite bool_decide_eq_true_2 by eauto; discriminate|].
  rewrite bool_decide_eq_false_2 by (intros [? ?]; discriminate).
  destruct (by_cons (stk c) !! cons) eqn:Ec; [rewrite bool_decide_eq_true_2 by eauto; discriminate|].
  rewrite bool_decide_eq_false_2 by (intros [? ?]; discriminate).
  destruct (pending_conflict _ _ _) eqn:Ep; [discriminate|].
  destruct (negb _); [discriminate|].
  intros H. apply update_bonded_pool_spec in H as (Hs & Hl & Hp & _). rewrite Hs, Hl, Hp. cbn. repeat split; auto.
Qed.

Lemma remove_pending_effect c val c' :
  msg_remove_pending c admin_id val = MOk c' ->
  pending (poa c') = remove_first_pending val (pending (poa c)) /\ stk c' = stk c /\ sl c' = sl c /\ bk c' = bk c /\
  cached_power (poa c') = cached_power (poa c) /\ abs_changed (poa c') = abs_changed (poa c).
Proof. unfold msg_remove_pending. cbn. intros [= <-]. cbn. repeat split. Qed.

Lemma pending_conflict_none val cons l :
  pending_conflict val cons l = None <-> Forall (fun p => p_oper p <> val /\ p_cons p <> cons) l.
Proof.
  induction l as [|p l IH]; cbn; [split; auto|].
  destruct (Z.eqb_spec (p_oper p) val); [split; [discriminate|]; intros H; inversion H; tauto|].
  destruct (Z.eqb_spec (p_cons p) cons); [split; [discriminate|]; intros H; inversion H; tauto|].
  rewrite IH. split; intros H; [constructor; auto|inversion H; auto].
Qed.

(* operators and consensus keys of pending applications are pairwise distinct and none belongs to a validator *)
Definition pending_unique (c : chain) : Prop :=
  base.NoDup (p_oper <$> pending (poa c)) /\ base.NoDup (p_cons <$> pending (poa c)) /\
  Forall (fun p => vals (stk c) !! p_oper p = None /\ by_cons (stk c) !! p_cons p = None) (pending (poa c)).

Lemma create_validator_unique c val cons mon r m ch c' :
  pending_unique c -> msg_create_validator c val cons mon r m ch = MOk c' -> pending_unique c'.
Proof.
  intros (Ho & Hc & Hv) H. apply create_validator_effect in H as (Hp & Hs & _ & Hnv & Hnc & Hconf).
  apply pending_conflict_none in Hconf. unfold pending_unique. rewrite Hp, Hs. rewrite !fmap_app. cbn.
  repeat split.
  - apply NoDup_app. split; [assumption|]. split; [|apply NoDup_singleton].
    intros x Hx. rewrite elem_of_list_singleton. intros ->. apply elem_of_list_fmap in Hx as (p & Hp1 & Hp2).
    rewrite Forall_forall in Hconf. apply elem_of_list_In in Hp2. destruct (Hconf p Hp2) as [H1 H2]. congruence.
  - apply NoDup_app. split; [assumption|]. split; [|apply NoDup_singleton].
    intros x Hx. rewrite elem_of_list_singleton. intros ->. apply elem_of_list_fmap in Hx as (p & Hp1 & Hp2).
    rewrite Forall_forall in Hconf. apply elem_of_list_In in Hp2. destruct (Hconf p Hp2) as [H1 H2]. congruence.
  - apply Forall_app. split; [assumption|]. constructor; [|constructor]. cbn. auto.
Qed.

Lemma remove_first_elem val l x : x ∈ remove_first_pending val l -> x ∈ l.
Proof.
  induction l as [|p l IH]; cbn; [auto|]. destruct (_ =? _); [intros H; right; exact H|].
  intros H. apply elem_of_cons in H as [->|H]; [left|right; auto].
Qed.

Lemma remove_first_nodup {B} (f : pending_val -> B) val l :
  base.NoDup (f <$> l) -> base.NoDup (f <$> remove_first_pending val l).
Proof.
  induction l as [|p l IH]; cbn; [auto|]. intros H. apply list.NoDup_cons in H as [Hn Hd].
  destruct (_ =? _); [exact Hd|]. cbn. apply list.NoDup_cons. split; [|auto].
  intros Hin. apply Hn. apply elem_of_list_fmap in Hin as (q & -> & Hq). apply elem_of_list_fmap. exists q. split; [reflexivity|].
  eapply remove_first_elem; eauto.
Qed.

Lemma remove_first_forall (P : pending_val -> Prop) val l : Forall P l -> Forall P (remove_first_pending val l).
Proof.
  induction l as [|p l IH]; cbn; [auto|]. intros H. inversion H; subst. destruct (_ =? _); [assumption|constructor; auto].
Qed.

Lemma remove_pending_unique c val c' :
  pending_unique c -> msg_remove_pending c admin_id val = MOk c' -> pending_unique c'.
Proof.
  intros (Ho & Hc & Hv) H. apply remove_pending_effect in H as (Hp & Hs & _).
  unfold pending_unique. rewrite Hp, Hs. repeat split.
  - apply remove_first_nodup; assumption.
  - apply remove_first_nodup; assumption.
  - apply remove_first_forall; assumption.
Qed.

(* ---------- C18: queries ---------- *)
Lemma query_power_known c val v :
  0 <= val -> vals (stk c) !! val = Some v -> query_power c val = Some (default 0 (last_pow (stk c) !! val)).
Proof. intros H Hv. unfold query_power. destruct (Z.ltb_spec val 0); [lia|]. rewrite Hv. reflexivity. Qed.

Lemma query_power_unknown c val : vals (stk c) !! val = None -> query_power c val = None.
Proof. intros Hv. unfold query_power. destruct (val <? 0); [reflexivity|]. rewrite Hv. reflexivity. Qed.

Lemma query_power_malformed c val : val < 0 -> query_power c val = None.
Proof. intros H. unfold query_power. destruct (Z.ltb_spec val 0); [reflexivity|lia]. Qed.

(* ---------- C04 / C13: guards ---------- *)
Lemma remove_validator_keeps_a_signer c sender val c' :
  msg_remove_validator c sender val = MOk c' ->
  other_signers c val <> 0 /\ exists v, vals (stk c) !! val = Some v /\ v_status v = Bonded.
Proof.
  unfold msg_remove_validator.
  destruct (if is_admin sender then None else _) eqn:Eg; [discriminate|].
  destruct (Z.eqb_spec (other_signers c val) 0); [discriminate|].
  destruct (vals (stk c) !! val) as [v|]; [|discriminate].
  destruct (v_status v) eqn:E; cbn; try discriminate. intros _. split; eauto.
Qed.

Lemma set_power_on_jailed c val power unsafe v :
  find_pending val (pending (poa c)) = None -> vals (stk c) !! val = Some v -> v_jailed v = true ->
  setpower_validate (0 <=? val) power = Ok tt ->
  msg_set_power c admin_id val power unsafe = MErr EStkValidatorJailed.
Proof.
  intros Hp Hv Hj Hval. unfold msg_set_power. change (is_admin admin_id) with true. cbn [negb]. rewrite Hval, Hp.
  unfold ensure_active. rewrite Hv, Hj. reflexivity.
Qed.

Lemma set_power_on_non_bonded c val power unsafe v :
  find_pending val (pending (poa c)) = None -> vals (stk c) !! val = Some v -> v_jailed v = false -> v_status v <> Bonded ->
  setpower_validate (0 <=? val) power = Ok tt ->
  msg_set_power c admin_id val power unsafe = MErr ESdkInvalidRequest.
Proof.
  intros Hp Hv Hj Hs Hval. unfold msg_set_power. change (is_admin admin_id) with true. cbn [negb]. rewrite Hval, Hp.
  unfold ensure_active. rewrite Hv, Hj. destruct (v_status v); try contradiction; reflexivity.
Qed.

Lemma remove_non_bonded c sender val v :
  vals (stk c) !! val = Some v -> v_status v <> Bonded -> exists e, msg_remove_validator c sender val = MErr e.
Proof.
  intros Hv Hs. unfold msg_remove_validator.
  destruct (if is_admin sender then None else _); [eauto|].
  destruct (_ =? 0); [eauto|]. rewrite Hv. destruct (v_status v); try contradiction; cbn; eauto.
Qed.

(* ---------- C12: a run can be cut at any commit boundary ---------- *)
Lemma run_world_app w bs1 bs2 : run_world w (bs1 ++ bs2) = run_world (run_world w bs1) bs2.
Proof. revert w. induction bs1 as [|b bs IH]; cbn; intros w; [reflexivity|apply IH]. Qed.

Lemma run_blocks_app w bs1 bs2 :
  w_halted (run_world w bs1) = None ->
  run_blocks w (bs1 ++ bs2) = run_blocks w bs1 ++ run_blocks (run_world w bs1) bs2.
Proof.
  revert w. induction bs1 as [|b bs IH]; cbn; intros w Hh; [reflexivity|].
  destruct (run_block w b) as [w' o] eqn:E. cbn in Hh.
  destruct (w_halted w') eqn:Eh.
  - (* halted worlds stay halted *)
    exfalso. clear IH. revert Hh. generalize bs. intros l. assert (Hst : forall l, w_halted (run_world w' l) = Some h).
    { induction l0 as [|b' l0 IHl]; cbn; [assumption|]. unfold run_block at 1. rewrite Eh. cbn. exact IHl. }
    rewrite Hst. discriminate.
  - rewrite IH by exact Hh. rewrite app_assoc. reflexivity.
Qed.
