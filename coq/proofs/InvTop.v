(* InvTop.v — who makes the cut when max_validators binds. Whatever the cap, the EndBlocker leaves in the last validator set
   exactly the first max_validators entries of the power index that have a positive power, in the index's iteration order
   (power descending, operator address ascending), each at that power; every other validator that was in the set leaves it
   (a lowered cap displaces the lowest-power validators at the end of the block). *)
From Coq Require Import Sorted.
From stdpp Require Import gmap.
Require Import Model.Base Model.Ante Model.Validate Model.Current Model.State Model.Staking Model.Slashing Model.Poa Model.App.
Require Import proofs.EvBasic proofs.Inv proofs.InvIdx proofs.L1Effects proofs.InvPres proofs.InvMsgs proofs.InvHistory proofs.InvComet proofs.InvElig.
Open Scope Z_scope.

(* the entries the loop takes: the first n positive ones *)
Definition take_top (n : Z) (keys : list (Z * Z)) : list (Z * Z) := firstn (Z.to_nat n) (filter pos_key keys).
Definition top_power (id : Z) (sel : list (Z * Z)) : option Z := option_map fst (find (fun k => snd k =? id) sel).

Lemma take_top_nonpos n keys : n <= 0 -> take_top n keys = [].
Proof. intros H. unfold take_top. replace (Z.to_nat n) with 0%nat by lia. reflexivity. Qed.

Lemma take_top_cons_pos n p id ks : 1 <= n -> 0 < p -> take_top n ((p, id) :: ks) = (p, id) :: take_top (n - 1) ks.
Proof.
  intros Hn Hp. unfold take_top. cbn [filter]. unfold pos_key at 1. cbn [fst]. destruct (Z.ltb_spec 0 p); [|lia].
  replace (Z.to_nat n) with (S (Z.to_nat (n - 1))) by lia. reflexivity.
Qed.

Lemma take_top_no_pos n keys : (forall q j, In (q, j) keys -> q <= 0) -> take_top n keys = [].
Proof.
  intros H. unfold take_top. assert (E : filter pos_key keys = []).
  { induction keys as [|[q j] ks IH]; [reflexivity|]. cbn. unfold pos_key at 1. cbn. specialize (H q j (or_introl eq_refl)) as Hq.
    destruct (Z.ltb_spec 0 q); [lia|]. apply IH. intros q' j' Hin. apply (H q' j'). right; exact Hin. }
  rewrite E. destruct (Z.to_nat n); reflexivity.
Qed.

Lemma in_firstn {A} n (l : list A) x : In x (firstn n l) -> In x l.
Proof. revert l. induction n as [|n IH]; intros [|y l]; cbn; try tauto. intros [H|H]; auto. Qed.

Lemma take_top_in n keys x : In x (take_top n keys) -> In x keys /\ 0 < fst x.
Proof.
  unfold take_top. intros H. apply in_firstn in H. apply filter_In in H as [H1 H2]. unfold pos_key in H2. split; [exact H1|lia].
Qed.

(* ---- the main loop, for any cap ---- *)
Lemma apply_loop_top keys maxv : forall a a',
  apply_loop keys maxv a = LDone a' ->
  (forall p id, In (p, id) keys -> exists v, vals (stk (la_chain a)) !! id = Some v /\ v_jailed v = false /\ p = v_power v) ->
  List.NoDup (map snd keys) -> desc keys -> (forall p id, In (p, id) keys -> 0 <= p) ->
  (forall id q, la_last a !! id = Some q -> last_pow (stk (la_chain a)) !! id = Some q) ->
  let sel := take_top (maxv - la_count a) keys in
  (forall p id, In (p, id) sel -> last_pow (stk (la_chain a')) !! id = Some p /\ la_last a' !! id = None) /\
  (forall id, ~ In id (map snd sel) ->
     last_pow (stk (la_chain a')) !! id = last_pow (stk (la_chain a)) !! id /\ la_last a' !! id = la_last a !! id).
Proof.
  induction keys as [|[p id] ks IH]; intros a a' Hrun K1 Knd Kd Knn Hagree; cbn [apply_loop] in Hrun.
  - inversion Hrun; subst. cbn zeta. unfold take_top. cbn [filter]. rewrite firstn_nil. split; [intros ? ? []|auto].
  - assert (Hnone : take_top (maxv - la_count a) ((p, id) :: ks) = [] -> LDone a = LDone a' ->
        let sel := take_top (maxv - la_count a) ((p, id) :: ks) in
        (forall p0 id0, In (p0, id0) sel -> last_pow (stk (la_chain a')) !! id0 = Some p0 /\ la_last a' !! id0 = None) /\
        (forall id0, ~ In id0 (map snd sel) -> last_pow (stk (la_chain a')) !! id0 = last_pow (stk (la_chain a)) !! id0 /\ la_last a' !! id0 = la_last a !! id0)).
    { intros Hz [= <-]. cbn zeta. rewrite Hz. split; [intros ? ? []|auto]. }
    destruct (Z.leb_spec maxv (la_count a)) as [Hfull|Hroom].
    { apply Hnone; [|exact Hrun]. apply take_top_nonpos. lia. }
    destruct (K1 p id (or_introl eq_refl)) as (v & Hv & Hj & Hp). subst p. rewrite Hv, Hj in Hrun.
    inversion Kd as [|? ? Kd' Kall]; subst. inversion Knd as [|? ? Knotin Knd']; subst.
    destruct (Z.eqb_spec (v_power v) 0) as [Hz|Hnz].
    { apply Hnone; [|exact Hrun]. apply take_top_no_pos. intros q j [Heq|Hin]; [inversion Heq; lia|].
      rewrite Forall_forall in Kall. specialize (Kall (q, j) Hin). cbn in Kall. lia. }
    assert (Hpos : 0 < v_power v) by (specialize (Knn (v_power v) id (or_introl eq_refl)); lia).
    set (r := match v_status v with Bonded => (la_chain a, v, 0) | _ => let '(c', v') := bond_validator (la_chain a) id v in (c', v', v_tokens v') end) in Hrun.
    assert (Hr : exists c1 v1 moved, r = (c1, v1, moved) /\ v_power v1 = v_power v /\
              (vals (stk c1) = vals (stk (la_chain a)) \/ vals (stk c1) = <[id := set_status v Bonded]> (vals (stk (la_chain a)))) /\
              last_pow (stk c1) = last_pow (stk (la_chain a))).
    { subst r. pose proof (bond_validator_vals (la_chain a) id v) as (H1 & H2 & H3).
      destruct (v_status v).
      - destruct (bond_validator (la_chain a) id v) as [c' v'']. cbn in *. subst v''. do 3 eexists. split; [reflexivity|]. split; [reflexivity|]. split; [right; exact H1|exact H3].
      - destruct (bond_validator (la_chain a) id v) as [c' v'']. cbn in *. subst v''. do 3 eexists. split; [reflexivity|]. split; [reflexivity|]. split; [right; exact H1|exact H3].
      - do 3 eexists. split; [reflexivity|]. split; [reflexivity|]. split; [left; reflexivity|reflexivity]. }
    destruct Hr as (c1 & v1 & moved & Er & Hp1 & Hvals1 & Hlp1). rewrite Er in Hrun. cbn zeta in Hrun.
    set (changed := match la_last a !! id with Some old => negb (old =? v_power v1) | None => true end) in Hrun.
    set (c2 := if changed then with_stk c1 (st_last_pow (stk c1) (<[id := v_power v1]> (last_pow (stk c1)))) else c1) in Hrun.
    assert (Hvals2 : vals (stk c2) = vals (stk c1)) by (subst c2; destruct changed; reflexivity).
    assert (Hlp2 : last_pow (stk c2) !! id = Some (v_power v) /\ forall j, j <> id -> last_pow (stk c2) !! j = last_pow (stk (la_chain a)) !! j).
    { subst c2 changed. destruct (la_last a !! id) as [old|] eqn:El.
      - destruct (Z.eqb_spec old (v_power v1)) as [->|Hne]; cbn [negb].
        + rewrite Hlp1. split; [rewrite <- Hp1; apply Hagree; exact El|auto].
        + cbn. rewrite Hlp1, Hp1. split; [apply lookup_insert|intros j Hjne; apply lookup_insert_ne; auto].
      - cbn. rewrite Hlp1, Hp1. split; [apply lookup_insert|intros j Hjne; apply lookup_insert_ne; auto]. }
    destruct Hlp2 as [Hlp2 Hlp2'].
    match type of Hrun with apply_loop ks maxv ?x = _ => set (a1 := x) in Hrun end.
    destruct (IH a1 a' Hrun) as (R1 & R2).
    { intros q j Hin. destruct (K1 q j (or_intror Hin)) as (w & Hw & Hjw & Hq). cbn [a1 la_chain]. rewrite Hvals2.
      destruct Hvals1 as [E|E]; rewrite E; [eauto|]. destruct (decide (j = id)) as [->|Hne].
      - rewrite lookup_insert. rewrite Hv in Hw. inversion Hw; subst w. exists (set_status v Bonded). auto.
      - rewrite lookup_insert_ne by auto. eauto. }
    { exact Knd'. } { exact Kd'. } { intros q j Hin. apply (Knn q j). right; exact Hin. }
    { cbn [a1 la_last la_chain]. intros j q Hl. apply lookup_delete_Some in Hl as [Hne Hl]. rewrite Hlp2' by auto. apply Hagree; exact Hl. }
    cbn zeta. assert (Hn1 : 1 <= maxv - la_count a) by lia. rewrite (take_top_cons_pos (maxv - la_count a) (v_power v) id ks Hn1 Hpos).
    replace (maxv - la_count a - 1) with (maxv - la_count a1) by (cbn [a1 la_count]; lia).
    set (sel' := take_top (maxv - la_count a1) ks) in *.
    assert (Hid_notin : ~ In id (map snd sel')).
    { intros Hin. apply Knotin. apply in_map_iff in Hin as ([q j] & Hj' & Hin). cbn in Hj'. subst j. apply take_top_in in Hin as [Hin _].
      change id with (snd (q, id)). apply in_map. exact Hin. }
    split.
    + intros q j [Heq|Hin].
      * inversion Heq; subst q j. destruct (R2 id Hid_notin) as [E1 E2]. rewrite E1, E2. cbn [a1 la_chain la_last]. split; [exact Hlp2|apply lookup_delete].
      * apply R1; exact Hin.
    + intros j Hnot. cbn [map snd] in Hnot. assert (Hne : j <> id) by (intros ->; apply Hnot; left; reflexivity).
      destruct (R2 j) as [E1 E2]; [intros Hin; apply Hnot; right; exact Hin|]. rewrite E1, E2. cbn [a1 la_chain la_last].
      split; [apply Hlp2'; exact Hne|apply lookup_delete_ne; auto].
Qed.

Lemma top_power_in sel p id : List.NoDup (map snd sel) -> In (p, id) sel -> top_power id sel = Some p.
Proof.
  unfold top_power. induction sel as [|[q j] sel IH]; cbn; [intros _ []|]. intros Hnd [Heq|Hin].
  - inversion Heq; subst. rewrite Z.eqb_refl. reflexivity.
  - inversion Hnd as [|? ? Hn Hnd']; subst. destruct (Z.eqb_spec j id) as [->|Hne]; [exfalso; apply Hn; change id with (snd (p, id)); apply in_map; exact Hin|]. apply IH; auto.
Qed.

Lemma top_power_none sel id : ~ In id (map snd sel) -> top_power id sel = None.
Proof.
  unfold top_power. induction sel as [|[q j] sel IH]; cbn; [reflexivity|]. intros Hn.
  destruct (Z.eqb_spec j id) as [->|Hne]; [exfalso; apply Hn; left; reflexivity|]. apply IH. intros H. apply Hn. right; exact H.
Qed.

Lemma top_power_some sel id p : top_power id sel = Some p -> In (p, id) sel.
Proof.
  unfold top_power. induction sel as [|[q j] sel IH]; cbn; [discriminate|].
  destruct (Z.eqb_spec j id) as [->|Hne]; cbn; [intros [= <-]; left; reflexivity|]. intros H. right. apply IH; exact H.
Qed.

Definition selected (c : chain) : list (Z * Z) :=
  take_top (sp_max_validators (params (stk c))) (sort_by pidx_le (pidx (stk c))).

Theorem apply_valset_updates_top c c' upd :
  CI c -> apply_valset_updates c = EBOk c' upd ->
  forall id, last_pow (stk c') !! id = top_power id (selected c).
Proof.
  intros [HS HP] Hrun. unfold apply_valset_updates in Hrun. unfold selected.
  set (keys := sort_by pidx_le (pidx (stk c))) in *.
  set (a0 := {| la_chain := c; la_last := last_pow (stk c); la_upd := []; la_count := 0; la_total := 0; la_to_bonded := 0 |}) in *.
  destruct (apply_loop keys _ a0) as [a1|] eqn:E1; [|discriminate].
  destruct (unbond_loop _ a1) as [a2|] eqn:E2; [|discriminate].
  assert (Hperm : forall x, In x keys -> In x (pidx (stk c))).
  { intros x H. apply (Permutation_in _ (sort_by_perm pidx_le _)) in H. exact H. }
  assert (Knd : List.NoDup (map snd keys)).
  { eapply Permutation_NoDup; [|exact (si_unique _ HS)]. apply Permutation_map. symmetry. apply sort_by_perm. }
  destruct (apply_loop_top keys _ a0 a1 E1) as (R1 & R2).
  { intros p id Hin. apply Hperm in Hin. apply (si_sound _ HS). exact Hin. }
  { exact Knd. } { apply sort_by_desc. }
  { intros p id Hin. apply Hperm in Hin. destruct (si_sound _ HS p id Hin) as (v & Hv & _ & ->). apply tokens_to_power_nonneg. eapply si_tok; eauto. }
  { unfold a0; cbn. auto. }
  unfold a0 in R1, R2. cbn [la_count la_chain la_last] in R1, R2. rewrite Z.sub_0_r in R1, R2.
  set (sel := take_top (sp_max_validators (params (stk c))) keys) in *.
  assert (Hsnd : List.NoDup (map snd sel)).
  { unfold sel, take_top. clear -Knd. generalize (Z.to_nat (sp_max_validators (params (stk c)))). intros n.
    assert (Hf : List.NoDup (map snd (filter pos_key keys))) by (apply nodup_filter_map; exact Knd).
    revert n. induction (filter pos_key keys) as [|x l IH]; intros [|n]; cbn; try constructor.
    - inversion Hf as [|? ? Hn Hf']; subst. intros Hin. apply Hn. apply in_map_iff in Hin as (y & Hy & Hin). apply in_firstn in Hin. apply in_map_iff. eauto.
    - inversion Hf; subst. apply IH; assumption. }
  destruct (unbond_loop_last _ a1 a2 E2) as (U1 & _).
  assert (Hfin : forall id, last_pow (stk (la_chain a2)) !! id = top_power id sel).
  { intros id. rewrite U1. destruct (in_dec Z.eq_dec id (map snd sel)) as [Hin|Hnot].
    - apply in_map_iff in Hin as ([p j] & Hj & Hin). cbn in Hj. subst j. destruct (R1 p id Hin) as [L1 L2].
      rewrite (top_power_in sel p id Hsnd Hin).
      destruct (existsb (Z.eqb id) (sorted_keys (la_last a1))) eqn:Ex; [apply in_sorted_keys in Ex as [q Hq]; congruence|exact L1].
    - rewrite (top_power_none sel id Hnot). destruct (R2 id Hnot) as [L1 L2].
      destruct (existsb (Z.eqb id) (sorted_keys (la_last a1))) eqn:Ex; [reflexivity|].
      rewrite L1. destruct (last_pow (stk c) !! id) as [q|] eqn:El; [|reflexivity]. exfalso.
      assert (Hs : is_Some (la_last a1 !! id)) by (rewrite L2; eauto). apply in_sorted_keys in Hs. congruence. }
  destruct (if la_to_bonded a2 =? 0 then _ else _) as [b|]; [|discriminate]. injection Hrun as Hc' _.
  intros id. rewrite <- Hc'. rewrite <- Hfin. destruct (la_upd a2); reflexivity.
Qed.

Theorem staking_end_block_top c c' upd :
  CI c -> staking_end_block c = EBOk c' upd -> forall id, last_pow (stk c') !! id = top_power id (selected c).
Proof.
  intros HCI Hrun. unfold staking_end_block in Hrun. destruct (apply_valset_updates c) as [c1 u|] eqn:E1; [|discriminate].
  destruct (unbond_all_mature c1) as [c2|] eqn:E2; [|discriminate]. inversion Hrun; subst c2 u. clear Hrun.
  unfold unbond_all_mature in E2. apply mature_slots_frame in E2 as (L2 & _ & _). intros id. rewrite L2. eapply apply_valset_updates_top; eauto.
Qed.

(* what the selection is made of: positive entries of the index, i.e. unjailed validators at their token power, at most
   max_validators of them, and nobody stronger is left out *)
Lemma selected_spec c : CI c ->
  (forall p id, In (p, id) (selected c) -> exists v, vals (stk c) !! id = Some v /\ v_jailed v = false /\ p = v_power v /\ 0 < p) /\
  (Z.of_nat (length (selected c)) <= Z.max 0 (sp_max_validators (params (stk c)))).
Proof.
  intros [HS _]. split.
  - intros p id Hin. unfold selected in Hin. apply take_top_in in Hin as [Hin Hp]. cbn in Hp.
    apply (Permutation_in _ (sort_by_perm pidx_le _)) in Hin. destruct (si_sound _ HS p id Hin) as (v & Hv & Hj & Hpv). eauto.
  - unfold selected, take_top. pose proof (firstn_le_length (Z.to_nat (sp_max_validators (params (stk c)))) (filter pos_key (sort_by pidx_le (pidx (stk c))))). lia.
Qed.

(* one block: the state handed to the EndBlocker *)
Definition before_endblock (w : world) (b : block) : option chain :=
  match begin_block (with_clock (w_chain w) (height (w_chain w) + 1) (now (w_chain w) + b_dt b))
                    (match c_prev (w_comet w) with Some vs => sorted_votes vs | None => [] end) (b_absent b) (b_evidence b) with
  | inl c1 => Some (fst (deliver_txs c1 (b_txs b)))
  | inr _ => None
  end.

Theorem block_set_is_the_top w b c2 :
  CI (w_chain w) -> w_halted w = None -> before_endblock w b = Some c2 -> w_halted (fst (run_block w b)) = None ->
  forall id, last_pow (stk (w_chain (fst (run_block w b)))) !! id = top_power id (selected c2).
Proof.
  intros HCI Hh Hb. unfold before_endblock in Hb. unfold run_block. rewrite Hh.
  set (c0 := with_clock (w_chain w) (height (w_chain w) + 1) (now (w_chain w) + b_dt b)) in *.
  assert (H0 : CI c0) by (apply CI_clock; exact HCI).
  destruct (begin_block c0 _ (b_absent b) (b_evidence b)) as [c1|e] eqn:Eb; [|discriminate]. inversion Hb; subst c2. clear Hb.
  pose proof (begin_block_CI _ _ _ _ _ H0 Eb) as H1. pose proof (deliver_txs_CI (b_txs b) c1 H1) as H2.
  destruct (deliver_txs c1 (b_txs b)) as [c2 outs]. cbn [fst] in *.
  destruct (staking_end_block c2) as [c3 upd|e] eqn:Ee; [|cbn; discriminate].
  pose proof (staking_end_block_top _ _ _ H2 Ee) as Ht.
  destruct (comet_apply _ upd); cbn; [intros _; exact Ht|discriminate].
Qed.

(* nobody left out is stronger than anybody selected *)
Lemma desc_filter f keys : desc keys -> desc (filter f keys).
Proof.
  induction keys as [|x l IH]; cbn; intros H; [constructor|]. inversion H as [|? ? Hd Hall]; subst.
  destruct (f x); [|apply IH; exact Hd]. constructor; [apply IH; exact Hd|].
  apply Forall_forall. intros y Hy. apply filter_In in Hy as [Hy _]. rewrite Forall_forall in Hall. apply Hall; exact Hy.
Qed.

Lemma desc_app_le l1 l2 : desc (l1 ++ l2) -> forall x y, In x l1 -> In y l2 -> fst y <= fst x.
Proof.
  induction l1 as [|a l1 IH]; cbn; intros H x y Hx Hy; [destruct Hx|]. inversion H as [|? ? Hd Hall]; subst.
  destruct Hx as [<-|Hx]; [|eapply IH; eauto]. rewrite Forall_forall in Hall. apply Hall. apply in_or_app. right; exact Hy.
Qed.

Theorem selection_takes_the_strongest c p id q j :
  In (p, id) (selected c) -> In (q, j) (pidx (stk c)) -> 0 < q -> ~ In (q, j) (selected c) -> q <= p.
Proof.
  unfold selected, take_top. set (n := Z.to_nat (sp_max_validators (params (stk c)))). set (pos := filter pos_key (sort_by pidx_le (pidx (stk c)))).
  intros Hsel Hin Hq Hnot.
  assert (Hpos : In (q, j) pos).
  { apply filter_In. split; [apply (Permutation_in _ (Permutation_sym (sort_by_perm pidx_le _))); exact Hin|unfold pos_key; cbn; apply Z.ltb_lt; exact Hq]. }
  assert (Hd : desc (firstn n pos ++ skipn n pos)) by (rewrite firstn_skipn; apply desc_filter; apply sort_by_desc).
  rewrite <- (firstn_skipn n pos) in Hpos. apply in_app_or in Hpos as [H|H]; [contradiction|].
  exact (desc_app_le _ _ Hd (p, id) (q, j) Hsel H).
Qed.
