(* GuardsC14.v — translator tie: MsgSetPower.Validate of /repo/validation.go, interpreted, is the model's setpower_validate. *)
From Coq Require Import ZArith List String Bool.
Require Import Model.Base Model.Validate Model.Ante Tie.GuardLang Tie.GuardSem Extracted.ExtractedGuards.
Import ListNotations.
Open Scope string_scope.
Open Scope Z_scope.

Local Arguments dec_one : simpl never.
Local Arguments max_int64 : simpl never.
Local Arguments min_power : simpl never.
Local Arguments max_moniker : simpl never.
Local Arguments max_identity : simpl never.
Local Arguments max_website : simpl never.
Local Arguments max_security : simpl never.
Local Arguments max_details : simpl never.

Theorem tie_guards_setpower_validate : forall addr_ok power,
  run (env_setpower addr_ok power) no_sub x_guards_MsgSetPower_Validate =
  Some (match setpower_validate addr_ok power with Ok _ => VOk | Err e => VErr e end).
Proof.
  intros addr_ok power. unfold setpower_validate. destruct addr_ok; [|reflexivity]. cbn.
  change 1000000 with min_power. destruct (power <? min_power); [reflexivity|]. cbn. destruct (max_int64 <? power); reflexivity.
Qed.

