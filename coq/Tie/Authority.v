(* Authority.v — the authority gate as the Go source has it. Generated on every run (Extracted/ExtractedAuthority.v):
   the guard list of keeper.IsAdmin and the first statement of every message handler of keeper/msg_server.go.
   1. Shape: IsAdmin is the documented simulation bypass followed by "k.authority == fromAddr", nothing else.
   2. Meaning: the first statement of SetPower, RemovePending and UpdateStakingParams, interpreted with IsAdmin(msg.Sender) read as
      the model's [is_admin sender], refuses exactly the senders the model's handlers refuse, with the same error; RemoveValidator's
      refuses exactly what the model's admin-or-self gate refuses. CreateValidator does not consult IsAdmin (anybody may apply).
   A handler that loses its gate, tests another field than msg.Sender, gates on something other than IsAdmin, returns another error,
   or an IsAdmin that compares something else, changes the generated terms and this file stops checking. *)
From Coq Require Import ZArith List String Bool.
Require Import Model.Base Model.State Model.Staking Model.Slashing Model.Poa Tie.GuardLang Extracted.ExtractedAuthority.
Import ListNotations.
Open Scope string_scope.
Open Scope Z_scope.

(* ---- 1. keeper.IsAdmin ---- *)
Definition expected_is_admin : list guard :=
  [ {| g_cond := GBin "==" (GFun "os.Getenv" (Some (GStr "POA_BYPASS_ADMIN_CHECK_FOR_SIMULATION_TESTING_ONLY"))) (GStr "not_for-production");
       g_ret := RExpr (GSel ["true"]) |};
    {| g_cond := GTrue; g_ret := RExpr (GBin "==" (GSel ["k"; "authority"]) (GSel ["fromAddr"])) |} ].

Theorem tie_is_admin_compares_with_the_authority : x_guards_Keeper_IsAdmin = expected_is_admin.
Proof. reflexivity. Qed.

(* keeper.GetAdmin returns the same field IsAdmin compares with, and the authority query reports GetAdmin *)
Theorem tie_get_admin_is_the_authority :
  x_guards_Keeper_GetAdmin = [ {| g_cond := GTrue; g_ret := RExpr (GSel ["k"; "authority"]) |} ] /\
  x_authority_query_reports = "qs.k.GetAdmin(ctx)".
Proof. split; reflexivity. Qed.

(* keeper.IsSenderValidator: both addresses decode or ErrInvalidAddress; then the bytes are compared *)
Definition expected_is_sender_validator : list guard :=
  [ {| g_cond := GFails (GFun "sdk.AccAddressFromBech32" (Some (GSel ["sender"]))); g_ret := RErr "sdkerrors.ErrInvalidAddress" |};
    {| g_cond := GFails (GFun "sdk.ValAddressFromBech32" (Some (GSel ["expectedValidator"]))); g_ret := RErr "sdkerrors.ErrInvalidAddress" |};
    {| g_cond := GTrue; g_ret := RExpr (GMeth (GFun "sdk.AccAddressFromBech32" (Some (GSel ["sender"]))) "Equals"
                                               (Some (GFun "sdk.ValAddressFromBech32" (Some (GSel ["expectedValidator"]))))) |} ].

Theorem tie_is_sender_validator_compares_the_bytes : x_guards_Keeper_IsSenderValidator = expected_is_sender_validator.
Proof. reflexivity. Qed.

(* ---- 2. the first statement of every handler, interpreted ---- *)
Definition path_is (p : list string) (a b : string) : bool :=
  match p with [x; y] => String.eqb x a && String.eqb y b | _ => false end.

Section Gate.
  Variables sender val : Z.          (* msg.Sender as an account id; msg.ValidatorAddress as a validator id (negative: does not decode) *)

  (* conditions: Some b = the condition's value; None = a form this interpreter does not know *)
  Fixpoint cond (e : gx) : option bool :=
    match e with
    | GNot a => option_map negb (cond a)
    | GBin op a b =>
      if String.eqb op "&&" then
        match cond a, cond b with Some x, Some y => Some (x && y) | _, _ => None end
      else None
    | GMeth (GSel r) name (Some (GSel a)) =>
      if path_is r "ms" "k" && String.eqb name "IsAdmin" && path_is a "msg" "Sender" then Some (is_admin sender) else None
    | GFails (GMeth (GSel r) name (Some (GBin op (GSel a) (GSel b)))) =>
      (* IsSenderValidator(msg.Sender, msg.ValidatorAddress) fails when an address does not decode: the signer's always does *)
      if path_is r "ms" "k" && String.eqb name "IsSenderValidator" && String.eqb op ","
         && path_is a "msg" "Sender" && path_is b "msg" "ValidatorAddress" then Some (val <? 0) else None
    | GMeth (GSel r) name (Some (GBin op (GSel a) (GSel b))) =>
      (* the value IsSenderValidator(msg.Sender, msg.ValidatorAddress) returns: same bytes *)
      if path_is r "ms" "k" && String.eqb name "IsSenderValidator" && String.eqb op ","
         && path_is a "msg" "Sender" && path_is b "msg" "ValidatorAddress" then Some (sender =? val) else None
    | _ => None
    end.

  (* Some (Some e): refused with e; Some None: the statement lets the message through; None: not understood *)
  Fixpoint gate (gs : list guard) : option (option err) :=
    match gs with
    | [] => Some None
    | g :: rest =>
      match cond (g_cond g) with
      | Some true =>
        match g_ret g with
        | RErr n => if String.eqb n "poa.ErrNotAnAuthority" then Some (Some EPoaNotAnAuthority) else None
        | RSameErr => Some (Some ESdkInvalidAddress)
        | _ => None
        end
      | Some false => gate rest
      | None => None
      end
    end.
End Gate.

Definition admin_only (sender : Z) : option err := if is_admin sender then None else Some EPoaNotAnAuthority.

Definition admin_or_self (sender val : Z) : option err :=
  if is_admin sender then None
  else if val <? 0 then Some ESdkInvalidAddress
  else if sender =? val then None
  else Some EPoaNotAnAuthority.

Theorem tie_gate_set_power : forall sender val, gate sender val x_first_guard_SetPower = Some (admin_only sender).
Proof. intros s v. unfold admin_only. cbn. destruct (is_admin s); reflexivity. Qed.

Theorem tie_gate_remove_pending : forall sender val, gate sender val x_first_guard_RemovePending = Some (admin_only sender).
Proof. intros s v. unfold admin_only. cbn. destruct (is_admin s); reflexivity. Qed.

Theorem tie_gate_update_params : forall sender val, gate sender val x_first_guard_UpdateStakingParams = Some (admin_only sender).
Proof. intros s v. unfold admin_only. cbn. destruct (is_admin s); reflexivity. Qed.

Theorem tie_gate_remove_validator : forall sender val, gate sender val x_first_guard_RemoveValidator = Some (admin_or_self sender val).
Proof.
  intros s v. unfold admin_or_self. cbn.
  destruct (is_admin s); cbn; [reflexivity|].
  destruct (v <? 0); cbn; [reflexivity|].
  destruct (s =? v); reflexivity.
Qed.

Theorem tie_create_validator_is_open : x_mentions_IsAdmin_CreateValidator = false.
Proof. reflexivity. Qed.

(* ---- and these gates are the model's ---- *)
Theorem model_gate_set_power : forall c sender val power unsafe e,
  admin_only sender = Some e -> msg_set_power c sender val power unsafe = MErr e.
Proof. intros c s v p u e. unfold admin_only, msg_set_power. destruct (is_admin s); cbn; [discriminate|]. now intros [= <-]. Qed.

Theorem model_gate_remove_pending : forall c sender val e,
  admin_only sender = Some e -> msg_remove_pending c sender val = MErr e.
Proof. intros c s v e. unfold admin_only, msg_remove_pending. destruct (is_admin s); cbn; [discriminate|]. now intros [= <-]. Qed.

Theorem model_gate_update_params : forall c sender p e,
  admin_only sender = Some e -> msg_update_params c sender p = MErr e.
Proof. intros c s p e. unfold admin_only, msg_update_params. destruct (is_admin s); cbn; [discriminate|]. now intros [= <-]. Qed.

Theorem model_gate_remove_validator : forall c sender val e,
  admin_or_self sender val = Some e -> msg_remove_validator c sender val = MErr e.
Proof.
  intros c s v e. unfold admin_or_self, msg_remove_validator.
  destruct (is_admin s); [discriminate|].
  destruct (v <? 0); [now intros [= <-]|].
  destruct (s =? v); [discriminate|]. now intros [= <-].
Qed.

(* the other direction: a sender the gate lets through is the admin (or, for RemoveValidator, the validator itself) *)
Theorem gate_open_means : forall sender val,
  (admin_only sender = None <-> sender = admin_id) /\
  (admin_or_self sender val = None <-> sender = admin_id \/ (0 <= val /\ sender = val)).
Proof.
  intros s v. unfold admin_only, admin_or_self, is_admin. split.
  - destruct (Z.eqb_spec s admin_id) as [He|Hn]; split; intros H; try easy.
  - destruct (Z.eqb_spec s admin_id) as [He|Hn]; [split; auto|].
    destruct (Z.ltb_spec v 0) as [Hv|Hv].
    + split; [discriminate|]. intros [H|[H1 H2]]; [easy|lia].
    + destruct (Z.eqb_spec s v) as [Hs|Hs]; split; intros H.
      * right. split; [lia|exact Hs].
      * reflexivity.
      * discriminate.
      * destruct H as [H|[H1 H2]]; [easy|easy].
Qed.

(* non-vacuity: the interpreted source refuses a stranger and a validator aiming at another one, and lets the admin and a
   validator removing itself through *)
Example gate_examples :
  gate 5 1 x_first_guard_SetPower = Some (Some EPoaNotAnAuthority) /\
  gate admin_id 1 x_first_guard_SetPower = Some None /\
  gate 5 1 x_first_guard_RemoveValidator = Some (Some EPoaNotAnAuthority) /\
  gate 5 (-1) x_first_guard_RemoveValidator = Some (Some ESdkInvalidAddress) /\
  gate 5 5 x_first_guard_RemoveValidator = Some None /\
  gate admin_id 5 x_first_guard_RemoveValidator = Some None.
Proof. vm_compute. repeat split; reflexivity. Qed.
