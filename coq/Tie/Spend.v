(* Spend.v — the term a power change adds to the running sum of the block, as keeper.SetPOAPower computes it (generated on every
   run from /repo/keeper/poa.go, Extracted/ExtractedSpend.v): the text of every top-level definition or assignment of the locals
   the term is built from, in source order, and of the call that adds it. It is the model's
     abs_diff := Z.abs (tokens_to_power new_shares - (if Bonded && not jailed then tokens_to_power current_tokens else 0))
   with [current_tokens] read before the tokens are overwritten — the float64 round trip of math.Abs is exact for these values
   (proofs/FloatAbs.v). This tie is textual: any edit of these statements, harmless or not, stops it checking. *)
From Coq Require Import List String.
Require Import Extracted.ExtractedSpend.
Import ListNotations.
Open Scope string_scope.

Theorem tie_setpoa_spend_term :
  x_setpoa_spend_definitions =
  [ "newBFTConsensusPower := k.stakingKeeper.TokensToConsensusPower(ctx, sdkmath.NewInt(newShares))";
    "currentTokens := val.Tokens";
    "val.Tokens = sdkmath.NewIntFromUint64(uint64(newShares))";
    "powerBefore := int64(0)";
    "if val.IsBonded() && !val.Jailed { powerBefore = k.stakingKeeper.TokensToConsensusPower(ctx, currentTokens) }";
    "absPowerDiff := uint64(math.Abs(float64(newBFTConsensusPower - powerBefore)))" ] /\
  x_setpoa_increase_calls = [ "k.IncreaseAbsoluteChangedInBlockPower(ctx, absPowerDiff)" ].
Proof. split; reflexivity. Qed.
