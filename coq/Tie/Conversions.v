(* Conversions.v — translator tie for /repo/conversions.go: each converter is one composite literal; the generator flattens it into
   (destination field, source expression) pairs (Extracted/ExtractedConversions.v). The model's converters (Model/Convert.v) copy
   every field from the same-named field, the description and the commission rates through x/staking's positional constructors
   in the constructors' own order, and reset nothing but the commission's update time (types.NewCommission does that). These
   theorems say the code is that field map: a field fed from another field, through a helper, a constant or in another order
   changes the generated pairs and they stop checking. *)
From Coq Require Import List String.
Require Import Extracted.ExtractedConversions.
Import ListNotations.
Open Scope string_scope.

Definition copied (src : string) (fields : list string) : list (string * string) := map (fun f => (f, src ++ "." ++ f)) fields.

Definition model_poa_to_staking : list (string * string) :=
  copied "poa" ["OperatorAddress"; "ConsensusPubkey"; "Jailed"] ++
  [("Status", "types.BondStatus(poa.Status)")] ++
  copied "poa" ["Tokens"; "DelegatorShares"] ++
  [("Description", "types.NewDescription(poa.Description.Moniker,poa.Description.Identity,poa.Description.Website,poa.Description.SecurityContact,poa.Description.Details)")] ++
  copied "poa" ["UnbondingHeight"; "UnbondingTime"] ++
  [("Commission", "types.NewCommission(poa.Commission.CommissionRates.Rate,poa.Commission.CommissionRates.MaxRate,poa.Commission.CommissionRates.MaxChangeRate)")] ++
  copied "poa" ["MinSelfDelegation"; "UnbondingOnHoldRefCount"; "UnbondingIds"].

Definition model_staking_to_poa : list (string * string) :=
  copied "val" ["OperatorAddress"; "ConsensusPubkey"; "Jailed"] ++
  [("Status", "BondStatus(val.Status)")] ++
  copied "val" ["Tokens"; "DelegatorShares"] ++
  copied "val" ["Description.Moniker"; "Description.Identity"; "Description.Website"; "Description.SecurityContact"; "Description.Details"] ++
  copied "val" ["UnbondingHeight"; "UnbondingTime"] ++
  [("Commission.CommissionRates.Rate", "val.Commission.Rate"); ("Commission.CommissionRates.MaxRate", "val.Commission.MaxRate");
   ("Commission.CommissionRates.MaxChangeRate", "val.Commission.MaxChangeRate")] ++
  copied "val" ["MinSelfDelegation"; "UnbondingOnHoldRefCount"; "UnbondingIds"].

Theorem tie_conversion_poa_to_staking :
  x_conv_ConvertPOAToStaking_shape = "single return of a composite literal" /\ x_conv_ConvertPOAToStaking = model_poa_to_staking.
Proof. split; vm_compute; reflexivity. Qed.

Theorem tie_conversion_staking_to_poa :
  x_conv_ConvertStakingToPOA_shape = "single return of a composite literal" /\ x_conv_ConvertStakingToPOA = model_staking_to_poa.
Proof. split; vm_compute; reflexivity. Qed.
