(* Limit.v — the per-block limit of MsgSetPower as the Go source has it. Generated on every run (x_limit_SetPower in
   Extracted/ExtractedAuthority.v): the statement of keeper/msg_server.go's SetPower whose condition reads msg.Unsafe, as a list of
   guarded returns with the block's locals replaced by their defining expressions. Interpreted below over the four values it reads
   (msg.Unsafe, the block height, the cached total power, the absolute power changed so far in the block — uint64 arithmetic:
   the product wraps at 2^64, the quotient truncates), it refuses exactly when the model's [msg_set_power] refuses, with the same
   error — for every value of the four. A changed threshold, comparison, factor, height bound, a dropped "unsafe" escape or another
   error value changes the generated term and this file stops checking. *)
From Coq Require Import ZArith List String Bool Lia.
Require Import Model.Base Model.State Model.Staking Model.Slashing Model.Poa Tie.GuardLang Extracted.ExtractedAuthority.
Import ListNotations.
Open Scope string_scope.
Open Scope Z_scope.

Inductive lval := LB (b : bool) | LZ (z : Z) | LBad.

Definition path_is (p : list string) (a b : string) : bool :=
  match p with [x; y] => String.eqb x a && String.eqb y b | _ => false end.

Section Limit.
  Variable unsafe : bool.
  Variables height cached changed : Z.

  Fixpoint lev (e : gx) : lval :=
    match e with
    | GLit z => LZ z
    | GSel p => if path_is p "msg" "Unsafe" then LB unsafe else LBad
    | GNot a => match lev a with LB b => LB (negb b) | _ => LBad end
    | GMeth (GSel r) name None =>
      match r with
      | [x] => if String.eqb x "sdkCtx" && String.eqb name "BlockHeight" then LZ height else LBad
      | _ => if path_is r "ms" "k" then
               if String.eqb name "GetCachedBlockPower" then LZ cached
               else if String.eqb name "GetAbsoluteChangedInBlockPower" then LZ changed
               else LBad
             else LBad
      end
    | GFails (GMeth (GSel r) name None) =>
      (* the two store reads: an absent item reads as 0, a present one decodes — they do not fail *)
      if path_is r "ms" "k" && (String.eqb name "GetCachedBlockPower" || String.eqb name "GetAbsoluteChangedInBlockPower")
      then LB false else LBad
    | GBin op a b =>
      if String.eqb op "&&" then
        (* Go's "&&" does not evaluate its right operand when the left one is false *)
        match lev a with
        | LB false => LB false
        | LB true => match lev b with LB y => LB y | _ => LBad end
        | _ => LBad
        end
      else
      match lev a, lev b with
      | LZ x, LZ y =>
        if String.eqb op ">" then LB (y <? x)
        else if String.eqb op ">=" then LB (y <=? x)
        else if String.eqb op "==" then LB (x =? y)
        else if String.eqb op "*" then LZ (wrap_u64 (x * y))
        else if String.eqb op "/" then (if y =? 0 then LBad else LZ (x / y))   (* Go panics on a zero divisor *)
        else LBad
      | _, _ => LBad
      end
    | _ => LBad
    end.

  (* Some (Some e): refused with e; Some None: lets the message through; None: not understood *)
  Fixpoint lrun (gs : list guard) : option (option err) :=
    match gs with
    | [] => Some None
    | g :: rest =>
      match lev (g_cond g) with
      | LB true =>
        match g_ret g with
        | RErr n => if String.eqb n "poa.ErrUnsafePower" then Some (Some EPoaUnsafePower) else None
        | _ => None
        end
      | LB false => lrun rest
      | _ => None
      end
    end.

  (* what the model's handler does with the same four values *)
  Definition model_limit : option err :=
    if negb unsafe && (1 <? height) then
      if cached =? 0 then Some EPoaUnsafePower
      else if 30 <=? wrap_u64 (changed * 100) / cached then Some EPoaUnsafePower else None
    else None.
End Limit.

(* a zero divisor is "not understood" to the interpreter (Go would panic): the theorem shows the division is never reached with
   cached = 0 — the earlier guard has returned *)
Theorem tie_limit_is_the_models : forall unsafe height cached changed,
  lrun unsafe height cached changed x_limit_SetPower = Some (model_limit unsafe height cached changed).
Proof.
  intros u h c ch. unfold model_limit, x_limit_SetPower.
  cbn [lrun g_cond g_ret lev path_is String.eqb Ascii.eqb Bool.eqb andb orb negb].
  destruct u; cbn.
  - (* unsafe: every guard is false *)
    destruct (1 <? h); cbn; destruct (c =? 0); reflexivity.
  - destruct (1 <? h) eqn:Hh; cbn.
    + destruct (c =? 0) eqn:Hc; cbn; [reflexivity|].
      destruct (30 <=? wrap_u64 (ch * 100) / c); reflexivity.
    + destruct (c =? 0); reflexivity.
Qed.

(* and [model_limit] is what [msg_set_power] applies after the power has been set *)
Theorem model_limit_in_set_power : forall c2 unsafe,
  (if negb unsafe && (1 <? height c2) then
     let cached := cached_power (poa c2) in
     if cached =? 0 then MErr EPoaUnsafePower
     else let percent := wrap_u64 (abs_changed (poa c2) * 100) / cached in
          if 30 <=? percent then MErr EPoaUnsafePower else update_bonded_pool c2
   else update_bonded_pool c2)
  = match model_limit unsafe (height c2) (cached_power (poa c2)) (abs_changed (poa c2)) with
    | Some e => MErr e
    | None => update_bonded_pool c2
    end.
Proof.
  intros c2 u. unfold model_limit. cbv zeta.
  destruct (negb u && (1 <? height c2)); [|reflexivity].
  destruct (cached_power (poa c2) =? 0); [reflexivity|].
  destruct (30 <=? wrap_u64 (abs_changed (poa c2) * 100) / cached_power (poa c2)); reflexivity.
Qed.

(* non-vacuity: total 40 — a running sum of 11 passes (27 %), 12 is refused (30 %), the unsafe flag and height 1 skip the test,
   a cached total of 0 refuses *)
Example limit_examples :
  lrun false 7 40 11 x_limit_SetPower = Some None /\
  lrun false 7 40 12 x_limit_SetPower = Some (Some EPoaUnsafePower) /\
  lrun true 7 40 12 x_limit_SetPower = Some None /\
  lrun false 1 40 12 x_limit_SetPower = Some None /\
  lrun false 7 0 0 x_limit_SetPower = Some (Some EPoaUnsafePower).
Proof. vm_compute. repeat split; reflexivity. Qed.
