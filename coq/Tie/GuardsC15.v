(* GuardsC15.v — translator tie: CommissionRates.Validate, Description.EnsureLength and MsgCreateValidator.Validate of
   /repo/validation.go, interpreted, are the model's commission_validate, ensure_length and poa_create_validate. *)
From Coq Require Import ZArith List String Bool.
Require Import Model.Base Model.Validate Model.Ante Tie.GuardLang Tie.GuardSem Extracted.ExtractedGuards.
Import ListNotations.
Open Scope string_scope.
Open Scope Z_scope.

Local Arguments dec_one : simpl never.
Local Arguments max_int64 : simpl never.
Local Arguments min_power : simpl never.
Local Arguments max_moniker : simpl never.
Local Arguments max_identity : simpl never.
Local Arguments max_website : simpl never.
Local Arguments max_security : simpl never.
Local Arguments max_details : simpl never.

Definition go_commission_validate (r m c : dec) : option vres := run (env_comm r m c) no_sub x_guards_CommissionRates_Validate.

Theorem tie_guards_commission_validate : forall r m c, go_commission_validate r m c = Some (commission_validate r m c).
Proof.
  intros r m c. unfold go_commission_validate, commission_validate. destruct m as [m|]; [|reflexivity].
  cbn. destruct (m <? 0); [reflexivity|]. cbn. destruct (dec_one <? m); [reflexivity|].
  destruct r as [r|]; [|reflexivity]. cbn. destruct (r <? 0); [reflexivity|]. cbn. destruct (m <? r); [reflexivity|].
  destruct c as [c|]; [|reflexivity]. cbn. destruct (c <? 0); [reflexivity|]. cbn. destruct (m <? c); reflexivity.
Qed.

Theorem tie_guards_ensure_length : forall d,
  run (env_desc d) no_sub x_guards_Description_EnsureLength = Some (if ensure_length d then VOk else VErr ESdkInvalidRequest).
Proof.
  intros d. unfold ensure_length. cbn.
  rewrite !Z.leb_antisym. destruct (max_moniker <? dl_moniker d); [reflexivity|]. cbn.
  destruct (max_identity <? dl_identity d); [reflexivity|]. cbn.
  destruct (max_website <? dl_website d); [reflexivity|]. cbn.
  destruct (max_security <? dl_security d); [reflexivity|]. cbn.
  destruct (max_details <? dl_details d); reflexivity.
Qed.

Local Arguments go_commission_validate : simpl never.
Local Arguments commission_validate : simpl never.

Theorem tie_guards_create_validate : forall c,
  run (env_create c) go_commission_validate x_guards_MsgCreateValidator_Validate = Some (poa_create_validate c).
Proof.
  intros [ao hp d r m ch]. unfold poa_create_validate, comm_is_zero_struct. cbn.
  destruct ao; [|reflexivity]. cbn. destruct hp; [|reflexivity]. cbn. destruct (desc_empty d); [reflexivity|]. cbn.
  destruct r as [r|], m as [m|], ch as [ch|]; cbn; try reflexivity;
    rewrite tie_guards_commission_validate; destruct (commission_validate _ _ _); reflexivity.
Qed.

