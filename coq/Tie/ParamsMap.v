(* ParamsMap.v — translator tie for UpdateStakingParams (/repo/keeper/msg_server.go): the handler builds one stakingtypes.Params
   literal, every field from the same-named field of the message's parameters, validates that value and stores that value. The
   generator extracts the literal as (field, source expression) pairs and the argument of SetParams; the model's handler
   (Model/Poa.v, msg_update_params) stores the message's six fields as they are. A field that is dropped, defaulted, truncated or
   fed from another field (seeded C16, C16c, C16d) changes the pairs. *)
From Coq Require Import List String.
Require Import Extracted.ExtractedParamsMap.
Import ListNotations.
Open Scope string_scope.

Theorem tie_params_map :
  x_params_shape = "one Params literal assigned to stakingParams" /\ x_params_stored = "stakingParams" /\
  x_params_map = map (fun f => (f, "msg.Params." ++ f))
                     ["UnbondingTime"; "MaxValidators"; "MaxEntries"; "HistoricalEntries"; "BondDenom"; "MinCommissionRate"].
Proof. repeat split; vm_compute; reflexivity. Qed.
