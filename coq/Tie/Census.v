(* Census.v — Tie theorems: the model's own tables equal the tables the fact generator reads off the
   running code (Extracted/ExtractedCensus.v, regenerated from /repo on every check). A sixth RPC, a new
   message-carrying type after an SDK bump, a staking message the filter forgets, a new field in a record
   the converters copy field by field, a new in-memory field of the keeper, a changed constant or admin
   precedence: each breaks one of these. *)
From Coq Require Import String List ZArith Bool.
Import ListNotations.
Require Import Model.Base Model.Ante Model.Validate.
Require Import Extracted.ExtractedCensus Extracted.ExtractedSource.
Open Scope string_scope.

(* ---- C01 / C18: the services ---- *)
Definition model_msg_methods : list string := ["CreateValidator"; "RemovePending"; "RemoveValidator"; "SetPower"; "UpdateStakingParams"].
(* gated by the admin check (RemoveValidator: admin or self); CreateValidator is open to every operator *)
Definition model_gated_methods : list string := ["RemovePending"; "RemoveValidator"; "SetPower"; "UpdateStakingParams"].
Definition model_msg_signers : list string :=
  ["CreateValidator=validator_address"; "RemovePending=sender"; "RemoveValidator=sender"; "SetPower=sender"; "UpdateStakingParams=sender"].
Definition model_query_methods : list string := ["ConsensusPower"; "PendingValidators"; "PoaAuthority"].

Theorem tie_msg_service : x_msg_methods = model_msg_methods /\ x_msgs_routed = true.
Proof. vm_compute. split; reflexivity. Qed.
Theorem tie_every_method_classified :
  forallb (fun m => existsb (String.eqb m) model_gated_methods || String.eqb m "CreateValidator") x_msg_methods = true.
Proof. vm_compute. reflexivity. Qed.
Theorem tie_signer_is_checked_sender : x_msg_signers = model_msg_signers.
Proof. vm_compute. reflexivity. Qed.
Theorem tie_query_service : x_query_methods = model_query_methods.
Proof. vm_compute. reflexivity. Qed.

(* ---- C07 / C08 / C09: registry ---- *)
Definition stk_url (k : stk_kind) : string :=
  match k with
  | SCreateValidator => "/cosmos.staking.v1beta1.MsgCreateValidator"
  | SDelegate => "/cosmos.staking.v1beta1.MsgDelegate"
  | SUndelegate => "/cosmos.staking.v1beta1.MsgUndelegate"
  | SBeginRedelegate => "/cosmos.staking.v1beta1.MsgBeginRedelegate"
  | SCancelUnbonding => "/cosmos.staking.v1beta1.MsgCancelUnbondingDelegation"
  | SUpdateParams => "/cosmos.staking.v1beta1.MsgUpdateParams"
  end.
Definition all_stk_kinds : list stk_kind := [SBeginRedelegate; SCancelUnbonding; SCreateValidator; SDelegate; SUndelegate; SUpdateParams].
Definition wrapper_url (w : wrapper) : string :=
  match w with
  | WAuthzExec => "/cosmos.authz.v1beta1.MsgExec"
  | WGovSubmit => "/cosmos.gov.v1.MsgSubmitProposal"
  | WGroupSubmit => "/cosmos.group.v1.MsgSubmitProposal"
  end.

(* the model's forbidden leaves are exactly the registered x/staking messages except EditValidator *)
Theorem tie_staking_census :
  filter (fun u => negb (String.eqb u "/cosmos.staking.v1beta1.MsgEditValidator")) x_staking_msgs = map stk_url all_stk_kinds.
Proof. vm_compute. reflexivity. Qed.
(* ... and exactly what the running staking decorator rejects at top level, among all registered messages *)
Theorem tie_staking_decorator_top : x_stk_rejected_at_top = map stk_url all_stk_kinds.
Proof. vm_compute. reflexivity. Qed.
Theorem tie_withdraw_decorator_top : x_wd_rejected_at_top = ["/cosmos.distribution.v1beta1.MsgWithdrawDelegatorReward"].
Proof. vm_compute. reflexivity. Qed.
(* the model's wrappers are exactly the registered message-carrying messages *)
Theorem tie_carrier_census : x_carriers = map wrapper_url [WAuthzExec; WGovSubmit; WGroupSubmit].
Proof. vm_compute. reflexivity. Qed.
(* for every registered message type, wrapped once in each carrier, both filters give the top-level verdict *)
Theorem tie_nested_verdicts : x_nested_verdicts_equal_top = true.
Proof. vm_compute. reflexivity. Qed.
(* the commission decorator looks at exactly the two rate-carrying types *)
Theorem tie_commission_types :
  x_commission_checked = ["/cosmos.staking.v1beta1.MsgEditValidator"; "/strangelove_ventures.poa.v1.MsgCreateValidator"].
Proof. vm_compute. reflexivity. Qed.

(* ---- C17 / C16: records copied field by field ---- *)
Definition model_validator_fields : list string :=
  ["OperatorAddress"; "ConsensusPubkey"; "Jailed"; "Status"; "Tokens"; "DelegatorShares"; "Description"; "UnbondingHeight";
   "UnbondingTime"; "Commission"; "MinSelfDelegation"; "UnbondingOnHoldRefCount"; "UnbondingIds"].
Theorem tie_validator_fields :
  x_staking_validator_fields = model_validator_fields /\ x_poa_validator_fields = model_validator_fields /\
  x_description_fields = x_staking_description_fields.
Proof. vm_compute. repeat split; reflexivity. Qed.
Theorem tie_params_fields :
  x_staking_params_fields = x_poa_params_fields /\
  x_poa_params_fields = ["UnbondingTime"; "MaxValidators"; "MaxEntries"; "HistoricalEntries"; "BondDenom"; "MinCommissionRate"].
Proof. vm_compute. split; reflexivity. Qed.

(* ---- C12: no process-local state beyond configuration and handles ---- *)
Theorem tie_keeper_fields :
  map (fun s => match index 0 ":" s with Some i => substring 0 i s | None => s end) x_keeper_fields =
    ["cdc"; "stakingKeeper"; "accountKeeper"; "slashKeeper"; "bankKeeper"; "logger"; "Schema"; "PendingValidators";
     "UpdatedValidatorsCache"; "CachedBlockPower"; "AbsoluteChangedInBlockPower"; "authority"] /\
  x_appmodule_fields = ["cdc:codec.Codec"; "keeper:keeper.Keeper"].
Proof. vm_compute. split; reflexivity. Qed.

(* ---- constants ---- *)
Theorem tie_constants :
  x_power_reduction = power_reduction /\ x_min_accepted_power = min_power /\ x_max_accepted_power = max_int64 /\
  x_desc_limits = [max_moniker; max_identity; max_website; max_security; max_details] /\
  x_poa_errors = ["poa/1"; "poa/2"; "poa/3"; "poa/4"; "poa/5"] /\
  map err_code [EPoaStakingNotAllowed; EPoaPowerBelowMinimum; EPoaNotAnAuthority; EPoaUnsafePower; EPoaWithdrawNotAllowed]
    = [(0,1); (0,2); (0,3); (0,4); (0,5)]%Z.
Proof. vm_compute. repeat split; reflexivity. Qed.

(* ---- C01: how the admin address is resolved (env override, else app config, else the gov module) ---- *)
Inductive admin_source := SrcDefault | SrcConfig | SrcEnv | SrcEnvAndConfig.
Definition resolve (s : admin_source) : string :=
  match s with SrcDefault => "module-address:gov" | SrcConfig => "module-address:config" | SrcEnv | SrcEnvAndConfig => "env" end.
Theorem tie_admin_resolution :
  x_admin_resolution = ["default=" ++ resolve SrcDefault; "config=" ++ resolve SrcConfig; "env=" ++ resolve SrcEnv; "env+config=" ++ resolve SrcEnvAndConfig].
Proof. vm_compute. reflexivity. Qed.

(* ---- C12 (and C06): where process-local state or non-determinism could enter, read off the source files ----
   every struct type of the keeper, module and ante packages with its fields (a memo, a cache or a mutex in the keeper,
   the message server, the query server or a decorator shows up here); no package-level variable that can hold mutable
   state; no use of wall-clock time, randomness, goroutines, select, sync, unsafe or runtime; the OS environment is read
   in exactly two places, both when the keeper is built / the admin is checked (C01: the admin override and the
   simulation-only bypass) *)
Theorem tie_source_census :
  x_src_structs =
    ["keeper.Keeper{cdc:codec.BinaryCodec,stakingKeeper:StakingKeeper,accountKeeper:AccountKeeper,slashKeeper:SlashingKeeper,bankKeeper:BankKeeper,logger:log.Logger,Schema:collections.Schema,PendingValidators:collections.Item[poa.Validators],UpdatedValidatorsCache:collections.KeySet[string],CachedBlockPower:collections.Item[poa.PowerCache],AbsoluteChangedInBlockPower:collections.Item[poa.PowerCache],authority:string}";
     "keeper.msgServer{k:Keeper}"; "keeper.queryServer{k:Keeper}";
     "module.AppModule{cdc:codec.Codec,keeper:keeper.Keeper}";
     "module.ModuleInputs{depinject.In,Cdc:codec.Codec,Config:*modulev1.Module,StoreService:store.KVStoreService,AddressCodec:address.Codec,StakingKeeper:keeper.StakingKeeper,SlashingKeeper:keeper.SlashingKeeper,BankKeeper:keeper.BankKeeper,AccountKeeper:keeper.AccountKeeper}";
     "module.ModuleOutputs{depinject.Out,Module:appmodule.AppModule,Keeper:keeper.Keeper}";
     "poaante.CommissionLimitDecorator{DoGenTxRateValidation:bool,RateFloor:math.LegacyDec,RateCeil:math.LegacyDec}";
     "poaante.MsgDisableWithdrawDelegatorRewards{}"; "poaante.MsgStakingFilterDecorator{}"] /\
  x_src_mutable_globals = [] /\
  x_src_nondeterminism = ["keeper/keeper.go:os.Getenv(POA_ADMIN_ADDRESS)"; "keeper/keeper.go:os.Getenv(POA_BYPASS_ADMIN_CHECK_FOR_SIMULATION_TESTING_ONLY)"].
Proof. vm_compute. repeat split; reflexivity. Qed.
