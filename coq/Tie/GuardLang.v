(* GuardLang.v — the syntax the guard translator (harness/cmd/harness/factgen_guards.go) emits: a validation method of
   /repo/validation.go as the list of its guarded returns, each condition as the Go expression it is. Nothing here has a meaning
   yet: Tie/Guards.v interprets it. *)
From Coq Require Import ZArith List String.

Inductive gx :=
| GTrue                                              (* the final, unguarded return *)
| GNil                                               (* nil *)
| GSel (path : list string)                          (* msg.Power, cr.MaxRate, types.MaxMonikerLength *)
| GLit (z : Z)                                       (* 1_000_000 *)
| GStr (s : string)                                  (* "a string literal" *)
| GBin (op : string) (a b : gx)                      (* a < b, a == b, a && b, ... *)
| GNot (a : gx)                                      (* !a *)
| GEmptyStruct (ty : string)                         (* Description{} *)
| GMeth (recv : gx) (name : string) (arg : option gx)  (* recv.Name(arg) *)
| GFun (name : string) (arg : option gx)             (* len(x), math.LegacyOneDec() *)
| GFails (call : gx)                                 (* "..., err := CALL; err != nil" *)
| GUnknown (what : string).                          (* a statement or expression form the translator does not know *)

Inductive gret :=
| ROk                                                (* return nil *)
| RErr (e : string)                                  (* return ErrX (Wrap / Wrapf stripped) *)
| RSameErr                                           (* return err — the error of the call that failed *)
| RExpr (e : gx)                                     (* return e — a function whose result is a value, not an error *)
| RUnknown (what : string).

Record guard := { g_cond : gx; g_ret : gret }.
