(* SigningInfo.v — keeper/slashing.go as the Go source has it, generated on every run (Extracted/ExtractedSigningInfo.v): the calls
   setSlashingInfo (admission) and clearSlashingInfo (removal) make, in order, and the ValidatorSigningInfo literal each stores.
   Both delete the missed-block bitmap of the key before they write the signing info (for admission this is the repair R13); the
   literal of setSlashingInfo, read over the block's height and time, is the record the model's [accept_new_validator] writes —
   for every height and time — and clearSlashingInfo stores the zero value, the model's [zero_info]. A dropped bitmap deletion, a
   counter or index that does not start at zero, a start height or jail time taken from elsewhere, or a tombstone flag set changes
   the generated terms and this file stops checking. *)
From Coq Require Import ZArith List String Bool.
Require Import Model.Base Model.State Model.Staking Model.Slashing Model.Poa Extracted.ExtractedSigningInfo.
Import ListNotations.
Open Scope string_scope.
Open Scope Z_scope.

(* ---- the calls, in order ---- *)
Theorem tie_slashing_info_calls :
  x_setSlashingInfo_calls = ["val.GetConsAddr"; "k.slashKeeper.DeleteMissedBlockBitmap"; "k.slashKeeper.SetValidatorSigningInfo"] /\
  x_clearSlashingInfo_calls = ["val.GetConsAddr"; "k.slashKeeper.DeleteMissedBlockBitmap"; "k.slashKeeper.SetValidatorSigningInfo"] /\
  x_setSlashingInfo_literals = 1%nat /\ x_clearSlashingInfo_literals = 1%nat.
Proof. repeat split; reflexivity. Qed.

(* ---- the literal, read as a model record ---- *)
Section Read.
  Variables height now : Z.           (* sdkCtx.BlockHeight(), sdkCtx.BlockHeader().Time *)

  Definition field (fs : list (string * string)) (name : string) : option string :=
    option_map snd (find (fun p => String.eqb (fst p) name) fs).

  (* a field that is absent from the literal has Go's zero value *)
  Definition int_of (src : option string) : option Z :=
    match src with
    | None => Some 0
    | Some s => if String.eqb s "0" then Some 0 else if String.eqb s "sdkCtx.BlockHeight()" then Some height else None
    end.
  Definition time_of (src : option string) : option Z :=
    match src with
    | None => Some t_zero
    | Some s => if String.eqb s "sdkCtx.BlockHeader().Time" then Some now else None
    end.
  Definition bool_of (src : option string) : option bool :=
    match src with
    | None => Some false
    | Some s => if String.eqb s "false" then Some false else if String.eqb s "true" then Some true else None
    end.

  (* fields other than the six of ValidatorSigningInfo make the literal unreadable; Address is the key itself *)
  Definition known (name : string) : bool :=
    existsb (String.eqb name) ["Address"; "StartHeight"; "IndexOffset"; "JailedUntil"; "Tombstoned"; "MissedBlocksCounter"].

  Definition read (fs : list (string * string)) : option signing :=
    if negb (forallb (fun p => known (fst p)) fs) then None else
    if negb (match field fs "Address" with
             | Some a => String.eqb a "sdk.ConsAddress(cons).String()"
             | None => true
             end) then None else
    match int_of (field fs "StartHeight"), int_of (field fs "IndexOffset"), time_of (field fs "JailedUntil"),
          bool_of (field fs "Tombstoned"), int_of (field fs "MissedBlocksCounter") with
    | Some st, Some ix, Some ju, Some tb, Some mc => Some {| si_start := st; si_index := ix; si_until := ju; si_tomb := tb; si_missed := mc |}
    | _, _, _, _, _ => None
    end.
End Read.

Theorem tie_admission_signing_info : forall height now,
  read height now x_setSlashingInfo_info
  = Some {| si_start := height; si_index := 0; si_until := now; si_tomb := false; si_missed := 0 |}.
Proof. intros h t. reflexivity. Qed.

Theorem tie_removal_signing_info : forall height now, read height now x_clearSlashingInfo_info = Some zero_info.
Proof. intros h t. reflexivity. Qed.
