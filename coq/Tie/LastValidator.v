(* LastValidator.v — the guard that keeps MsgRemoveValidator from emptying the signer set, as the Go source has it (generated on
   every run from keeper/msg_server.go, Extracted/ExtractedRemove.v): the condition under which the one counting loop counts a
   validator as "another signer", and the test of the count. Interpreted over a validator record, the condition is the predicate of
   the model's [other_signers] — not the validator being removed, bonded, not jailed, with voting power — for every record; the
   count is written in two places only (its initialisation and the increment) and the handler fails exactly when it is 0.
   A weaker predicate (jailed validators counted, validators without power counted), a test other than "== 0" or another write
   of the counter changes the generated terms and this file stops checking. *)
From Coq Require Import ZArith List String Bool.
Require Import Model.Base Model.State Model.Staking Model.Slashing Model.Poa Tie.GuardLang Extracted.ExtractedRemove.
Import ListNotations.
Open Scope string_scope.
Open Scope Z_scope.

Definition path_is (p : list string) (a b : string) : bool :=
  match p with [x; y] => String.eqb x a && String.eqb y b | _ => false end.

Section Counts.
  Variable same : bool.            (* val.OperatorAddress = msg.ValidatorAddress *)
  Variables bonded jailed : bool.
  Variable power : Z.              (* TokensToConsensusPower(val.Tokens) *)

  Inductive cv := CB (b : bool) | CZ (z : Z) | CSame | CBad.

  Fixpoint cev (e : gx) : cv :=
    match e with
    | GLit z => CZ z
    | GNot a => match cev a with CB b => CB (negb b) | _ => CBad end
    | GSel p => if path_is p "val" "Jailed" then CB jailed else CBad
    | GMeth (GSel r) name None =>
      match r with [x] => if String.eqb x "val" && String.eqb name "IsBonded" then CB bonded else CBad | _ => CBad end
    | GMeth (GSel r) name (Some (GSel a)) =>
      match r with
      | [x; y; z] => if String.eqb x "ms" && String.eqb y "k" && String.eqb z "stakingKeeper" && String.eqb name "TokensToConsensusPower"
                        && path_is a "val" "Tokens" then CZ power else CBad
      | _ => CBad
      end
    | GBin op (GSel a) (GSel b) =>
      if String.eqb op "!=" && path_is a "val" "OperatorAddress" && path_is b "msg" "ValidatorAddress" then CB (negb same) else CBad
    | GBin op a b =>
      match cev a, cev b with
      | CB x, CB y => if String.eqb op "&&" then CB (x && y) else CBad
      | CZ x, CZ y => if String.eqb op ">" then CB (y <? x) else CBad
      | _, _ => CBad
      end
    | _ => CBad
    end.
End Counts.

Theorem tie_other_signer_predicate : forall same bonded jailed power,
  cev same bonded jailed power x_remove_counts_as_other_signer = CB (negb same && bonded && negb jailed && (0 <? power)).
Proof. intros s b j p. cbn. destruct s, b, j; reflexivity. Qed.

Theorem tie_last_validator_guard :
  x_remove_counting_loops = 1%nat /\ x_remove_writes_of_others = 2%nat /\
  x_remove_last_validator_guard = [ {| g_cond := GBin "==" (GSel ["others"]) (GLit 0); g_ret := RErr "fmt.Errorf" |} ].
Proof. repeat split; reflexivity. Qed.

(* the model's count uses the same predicate, validator by validator *)
Theorem model_other_signers_predicate : forall c val,
  other_signers c val =
  stdpp.fin_maps.map_fold (fun id v acc =>
     if negb (id =? val) && status_eqb (v_status v) Bonded && negb (v_jailed v) && (0 <? v_power v) then acc + 1 else acc) 0 (vals (stk c)).
Proof. reflexivity. Qed.
