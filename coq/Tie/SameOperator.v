(* SameOperator.v — keeper.sameOperator (how operator addresses are compared when the pending list is searched) as the Go source
   has it, generated on every run (Extracted/ExtractedKeeper.v): equal strings, or both decode and the bytes are equal — the
   identity the model's [p_oper p =? val] stands for. A comparison of strings only (the upper-case spelling of an address would
   then name a different applicant) changes the generated term and this file stops checking. *)
From Coq Require Import ZArith List String.
Require Import Tie.GuardLang Extracted.ExtractedKeeper.
Import ListNotations.
Open Scope string_scope.

Definition to_bytes (x : string) : gx := GMeth (GMeth (GSel ["k"]) "GetValidatorAddressCodec" None) "StringToBytes" (Some (GSel [x])).

Theorem tie_same_operator_compares_the_bytes :
  x_guards_Keeper_sameOperator =
  [ {| g_cond := GBin "==" (GSel ["a"]) (GSel ["b"]); g_ret := RExpr (GSel ["true"]) |};
    {| g_cond := GFails (to_bytes "a"); g_ret := RExpr (GSel ["false"]) |};
    {| g_cond := GFails (to_bytes "b"); g_ret := RExpr (GSel ["false"]) |};
    {| g_cond := GTrue; g_ret := RExpr (GFun "bytes.Equal" (Some (GBin "," (to_bytes "a") (to_bytes "b")))) |} ].
Proof. reflexivity. Qed.
