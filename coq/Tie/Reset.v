(* Reset.v — how the two numbers of the per-block limit are written, as the Go source has it (Extracted/ExtractedKeeper.v,
   generated on every run): keeper.ResetCachedTotalPower, keeper.ResetAbsoluteBlockPower, keeper.IncreaseAbsoluteChangedInBlockPower
   and the statement of the module's BeginBlocker that calls the two resets. Interpreted over the values they read (x/staking's last
   total power, the cached total, the running sum, the amount to add), each leaves in the store what the model's [poa_begin_block]
   and [set_poa_power] write — for every value: after BeginBlock above height 1 the cached total is x/staking's last total power and
   the running sum is 0, unconditionally; an increase adds as a uint64. A refresh that happens only when something else holds, a
   total computed from something else, a reset under another height test or an addition that saturates changes the generated
   terms and this file stops checking. *)
From Coq Require Import ZArith List String Bool Lia.
Require Import Model.Base Model.State Model.Staking Model.Slashing Model.Poa Tie.GuardLang Extracted.ExtractedKeeper.
Import ListNotations.
Open Scope string_scope.
Open Scope Z_scope.

Inductive rv := RVB (b : bool) | RVZ (z : Z) | RVBad.

Definition is_k (e : gx) : bool := match e with GSel [x] => String.eqb x "k" | _ => false end.

Section Reset.
  Variables last_total cached changed amount : Z.

  (* reads *)
  Fixpoint rev (e : gx) : rv :=
    match e with
    | GLit z => RVZ z
    | GSel [x] => if String.eqb x "power" then RVZ amount else RVBad
    | GMeth r name None =>
      if is_k r && String.eqb name "GetCachedBlockPower" then RVZ cached
      else if is_k r && String.eqb name "GetAbsoluteChangedInBlockPower" then RVZ changed
      else if String.eqb name "Uint64" then
        (* k.GetStakingKeeper().GetLastTotalPower(ctx).Uint64() *)
        match r with
        | GMeth (GMeth k0 n1 None) n2 None =>
          if is_k k0 && String.eqb n1 "GetStakingKeeper" && String.eqb n2 "GetLastTotalPower" then RVZ last_total else RVBad
        | _ => RVBad
        end
      else RVBad
    | GFails (GMeth r name None) =>
      (* the store reads do not fail *)
      if is_k r && (String.eqb name "GetCachedBlockPower" || String.eqb name "GetAbsoluteChangedInBlockPower") then RVB false
      else match r with
           | GMeth k0 n1 None => if is_k k0 && String.eqb n1 "GetStakingKeeper" && String.eqb name "GetLastTotalPower" then RVB false else RVBad
           | _ => RVBad
           end
    | GBin op a b =>
      match rev a, rev b with
      | RVZ x, RVZ y =>
        if String.eqb op "!=" then RVB (negb (x =? y))
        else if String.eqb op "+" then RVZ (wrap_u64 (x + y))
        else RVBad
      | _, _ => RVBad
      end
    | GTrue => RVB true
    | _ => RVBad
    end.

  (* what a function writes: (which item, value); None inside = no write *)
  Inductive item := ICached | IChanged.
  Definition write_of (r : gret) : option (option (item * Z)) :=
    match r with
    | ROk | RSameErr => Some None                      (* "return nil" / "return err" with err = nil: nothing written *)
    | RExpr (GMeth r name (Some a)) =>
      if is_k r && String.eqb name "SetCachedBlockPower" then match rev a with RVZ z => Some (Some (ICached, z)) | _ => None end
      else if is_k r && String.eqb name "SetAbsoluteChangedInBlockPower" then match rev a with RVZ z => Some (Some (IChanged, z)) | _ => None end
      else None
    | _ => None
    end.

  Fixpoint wrun (gs : list guard) : option (option (item * Z)) :=
    match gs with
    | [] => None
    | g :: rest =>
      match rev (g_cond g) with
      | RVB true => write_of (g_ret g)
      | RVB false => wrun rest
      | _ => None
      end
    end.

  (* the value an item has after the function ran *)
  Definition after (it : item) (old : Z) (w : option (option (item * Z))) : option Z :=
    match w with
    | None => None
    | Some None => Some old
    | Some (Some (it', z)) => match it, it' with ICached, ICached | IChanged, IChanged => Some z | _, _ => None end
    end.
End Reset.

(* BeginBlock: the cached total becomes x/staking's last total power, whatever it was *)
Theorem tie_reset_cached_total : forall last_total cached changed amount,
  after ICached cached (wrun last_total cached changed amount x_guards_Keeper_ResetCachedTotalPower) = Some last_total.
Proof.
  intros lt c ch a. cbn. destruct (Z.eqb_spec lt c) as [->|]; reflexivity.
Qed.

(* ... and the running sum becomes 0, whatever it was *)
Theorem tie_reset_running_sum : forall last_total cached changed amount,
  after IChanged changed (wrun last_total cached changed amount x_guards_Keeper_ResetAbsoluteBlockPower) = Some 0.
Proof.
  intros lt c ch a. cbn. destruct (Z.eqb_spec ch 0) as [->|]; reflexivity.
Qed.

(* an increase adds, as a uint64 *)
Theorem tie_increase_running_sum : forall last_total cached changed amount,
  after IChanged changed (wrun last_total cached changed amount x_guards_Keeper_IncreaseAbsoluteChangedInBlockPower)
  = Some (wrap_u64 (changed + amount)).
Proof. intros lt c ch a. reflexivity. Qed.

(* both resets run in BeginBlock exactly above height 1, one after the other *)
Definition above_1 : gx := GBin ">" (GMeth (GSel ["sdkCtx"]) "BlockHeight" None) (GLit 1).
Theorem tie_begin_blocker_resets_above_height_1 :
  x_begin_blocker_reset =
  [ {| g_cond := GBin "&&" above_1 (GFails (GMeth (GSel ["am"; "keeper"]) "ResetCachedTotalPower" None)); g_ret := RSameErr |};
    {| g_cond := GBin "&&" above_1 (GFails (GMeth (GSel ["am"; "keeper"]) "ResetAbsoluteBlockPower" None)); g_ret := RSameErr |} ].
Proof. reflexivity. Qed.

(* and that is the model's BeginBlocker *)
Theorem model_begin_block_resets : forall c,
  cached_power (poa (poa_begin_block c)) = (if 1 <? height c then last_total (stk c) else cached_power (poa c)) /\
  abs_changed (poa (poa_begin_block c)) = (if 1 <? height c then 0 else abs_changed (poa c)).
Proof. intros c. unfold poa_begin_block. destruct (1 <? height c); split; reflexivity. Qed.

(* non-vacuity: a stale cached total of 33 becomes x/staking's 40, an equal one stays; a running sum of 5 becomes 0; 5 + 2 = 7 *)
Example reset_examples :
  after ICached 33 (wrun 40 33 5 2 x_guards_Keeper_ResetCachedTotalPower) = Some 40 /\
  after ICached 40 (wrun 40 40 5 2 x_guards_Keeper_ResetCachedTotalPower) = Some 40 /\
  after IChanged 5 (wrun 40 33 5 2 x_guards_Keeper_ResetAbsoluteBlockPower) = Some 0 /\
  after IChanged 5 (wrun 40 33 5 2 x_guards_Keeper_IncreaseAbsoluteChangedInBlockPower) = Some 7.
Proof. vm_compute. repeat split; reflexivity. Qed.
