(* GuardSem.v — meaning of the guard syntax (Tie/GuardLang.v). The guard lists generated from the Go source on every run
   (Extracted/ExtractedGuards.v), interpreted by [run] below, ARE the model's validation functions — for every input: that is
   proved per function in Tie/GuardsC09.v, GuardsC14.v, GuardsC15.v.
   A changed comparison, bound, order of checks or error value in the Go changes the generated term and these theorems stop
   checking; a statement form the translator does not know becomes GUnknown, which [run] maps to [None]. *)
From Coq Require Import ZArith List String Bool.
Require Import Model.Base Model.Validate Model.Ante Tie.GuardLang.
Import ListNotations.
Open Scope string_scope.
Open Scope Z_scope.

(* values of Go expressions, as far as the model distinguishes them *)
Inductive gval :=
| VBool (b : bool) | VInt (z : Z) | VDecV (d : dec) | VStrLen (n : Z)
| VAddr (ok : bool)                 (* a bech32 string: does it decode? *)
| VPtr (isnil : bool)               (* a pointer: is it nil? *)
| VDescV (d : desc_lens) | VCommV (r m c : dec)
| VNilV | VEmptyOf (ty : string)
| VCallRes (r : vres)               (* the error result of a call: VOk = nil *)
| VPanicV | VBadV.

(* error values by their Go names *)
Definition err_of_name (n : string) : option err :=
  if String.eqb n "sdkerrors.ErrInvalidAddress" then Some ESdkInvalidAddress
  else if String.eqb n "sdkerrors.ErrInvalidRequest" then Some ESdkInvalidRequest
  else if String.eqb n "types.ErrEmptyValidatorPubKey" then Some EStkEmptyPubKey
  else if String.eqb n "types.ErrCommissionNegative" then Some EStkCommissionNegative
  else if String.eqb n "types.ErrCommissionHuge" then Some EStkCommissionHuge
  else if String.eqb n "types.ErrCommissionGTMaxRate" then Some EStkCommissionGTMaxRate
  else if String.eqb n "types.ErrCommissionChangeRateNegative" then Some EStkCommissionChangeRateNegative
  else if String.eqb n "types.ErrCommissionChangeRateGTMaxRate" then Some EStkCommissionChangeRateGTMaxRate
  else if String.eqb n "ErrPowerBelowMinimum" then Some EPoaPowerBelowMinimum
  else if String.eqb n "fmt.Errorf" then Some EUndefined                      (* an error outside every registered codespace *)
  else None.

Section Eval.
  Variable env : list string -> gval.                 (* the method's receiver and parameters, package constants *)
  Variable validate_comm : dec -> dec -> dec -> option vres.   (* CommissionRates.Validate, for the one method that calls it *)

  Definition both_dec (a b : gval) (f : Z -> Z -> bool) : gval :=
    match a, b with
    | VDecV (Some x), VDecV (Some y) => VBool (f x y)
    | VDecV None, VDecV _ | VDecV _, VDecV None => VPanicV     (* nil *big.Int dereferenced *)
    | VPanicV, _ | _, VPanicV => VPanicV
    | _, _ => VBadV
    end.

  Fixpoint eval (e : gx) : gval :=
    match e with
    | GTrue => VBool true
    | GNil => VNilV
    | GSel p => env p
    | GLit z => VInt z
    | GStr _ => VBadV
    | GEmptyStruct ty => VEmptyOf ty
    | GNot a => match eval a with VBool b => VBool (negb b) | VPanicV => VPanicV | _ => VBadV end
    | GBin op a b =>
      match eval a, eval b with
      | VInt x, VInt y => if String.eqb op "<" then VBool (x <? y) else if String.eqb op ">" then VBool (y <? x) else VBadV
      | VBool x, VBool y => if String.eqb op "&&" then VBool (x && y) else if String.eqb op "||" then VBool (x || y) else VBadV
      | VPtr n, VNilV => if String.eqb op "==" then VBool n else VBadV
      | VDescV d, VEmptyOf ty => if String.eqb op "==" && String.eqb ty "Description" then VBool (desc_empty d) else VBadV
      | VCommV r m c, VEmptyOf ty =>
        if String.eqb op "==" && String.eqb ty "CommissionRates"
        then VBool (match r, m, c with None, None, None => true | _, _, _ => false end) else VBadV
      | VPanicV, _ | _, VPanicV => VPanicV
      | _, _ => VBadV
      end
    | GMeth r name arg =>
      match arg with
      | None =>
        if String.eqb name "IsNegative" then
          match eval r with VDecV (Some z) => VBool (z <? 0) | VDecV None => VPanicV | VPanicV => VPanicV | _ => VBadV end
        else if String.eqb name "Validate" then
          match eval r with
          | VCommV rt m c => match validate_comm rt m c with Some res => VCallRes res | None => VBadV end
          | _ => VBadV
          end
        else VBadV
      | Some a =>
        if String.eqb name "GT" then both_dec (eval r) (eval a) (fun x y => y <? x)
        else if String.eqb name "LT" then both_dec (eval r) (eval a) (fun x y => x <? y)
        else if String.eqb name "Equal" then both_dec (eval r) (eval a) (fun x y => x =? y)
        else if String.eqb name "StringToBytes" then
          match eval a with VAddr ok => VCallRes (if ok then VOk else VErr ESdkInvalidAddress) | _ => VBadV end
        else VBadV
      end
    | GFun name arg =>
      match arg with
      | None => if String.eqb name "math.LegacyOneDec" then VDecV (Some dec_one) else VBadV
      | Some a => if String.eqb name "len" then match eval a with VStrLen n => VInt n | _ => VBadV end else VBadV
      end
    | GFails c =>
      match eval c with
      | VCallRes VOk => VBool false
      | VCallRes (VErr _) => VBool true
      | VCallRes VPanicked => VPanicV
      | _ => VBadV
      end
    | GUnknown _ => VBadV
    end.

  (* the first guard whose condition holds decides; None = the translation (or this interpreter) does not cover the code *)
  Fixpoint run (gs : list guard) : option vres :=
    match gs with
    | [] => None
    | g :: rest =>
      match eval (g_cond g) with
      | VBool true =>
        match g_ret g with
        | ROk => Some VOk
        | RErr n => option_map VErr (err_of_name n)
        | RSameErr => match g_cond g with GFails c => match eval c with VCallRes r => Some r | _ => None end | _ => None end
        | RUnknown _ => None
        | RExpr _ => None
        end
      | VBool false => run rest
      | VPanicV => Some VPanicked
      | _ => None
      end
    end.
End Eval.

(* ---- environments: what the receiver and the parameters of each method are, in the model's terms ---- *)
Definition sel_is (p : list string) (a b : string) : bool :=
  match p with [x; y] => String.eqb x a && String.eqb y b | _ => false end.

Definition consts (p : list string) : gval :=
  if sel_is p "stdmath" "MaxInt64" then VInt max_int64
  else if sel_is p "types" "MaxMonikerLength" then VInt max_moniker
  else if sel_is p "types" "MaxIdentityLength" then VInt max_identity
  else if sel_is p "types" "MaxWebsiteLength" then VInt max_website
  else if sel_is p "types" "MaxSecurityContactLength" then VInt max_security
  else if sel_is p "types" "MaxDetailsLength" then VInt max_details
  else VBadV.

Definition env_setpower (addr_ok : bool) (power : Z) (p : list string) : gval :=
  if sel_is p "msg" "ValidatorAddress" then VAddr addr_ok
  else if sel_is p "msg" "Power" then VInt power
  else consts p.

Definition env_comm (r m c : dec) (p : list string) : gval :=
  if sel_is p "cr" "Rate" then VDecV r
  else if sel_is p "cr" "MaxRate" then VDecV m
  else if sel_is p "cr" "MaxChangeRate" then VDecV c
  else consts p.

Definition env_desc (d : desc_lens) (p : list string) : gval :=
  if sel_is p "d" "Moniker" then VStrLen (dl_moniker d)
  else if sel_is p "d" "Identity" then VStrLen (dl_identity d)
  else if sel_is p "d" "Website" then VStrLen (dl_website d)
  else if sel_is p "d" "SecurityContact" then VStrLen (dl_security d)
  else if sel_is p "d" "Details" then VStrLen (dl_details d)
  else consts p.

Definition env_create (c : create_basic) (p : list string) : gval :=
  if sel_is p "msg" "ValidatorAddress" then VAddr (cb_addr_ok c)
  else if sel_is p "msg" "Pubkey" then VPtr (negb (cb_has_pubkey c))
  else if sel_is p "msg" "Description" then VDescV (cb_desc c)
  else if sel_is p "msg" "Commission" then VCommV (cb_rate c) (cb_max c) (cb_chg c)
  else consts p.

Definition env_rate (source low high : Z) (p : list string) : gval :=
  match p with
  | [x] => if String.eqb x "source" then VDecV (Some source) else if String.eqb x "low" then VDecV (Some low)
           else if String.eqb x "high" then VDecV (Some high) else VBadV
  | _ => consts p
  end.

Definition no_sub (r m c : dec) : option vres := None.
