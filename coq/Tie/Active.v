(* Active.v — keeper.ensureActiveValidator (the test MsgSetPower applies to a validator that is not pending) as the Go source
   has it. Generated on every run (Extracted/ExtractedKeeper.v). Interpreted over "does the address decode" and the staking record
   of the validator (absent / jailed? / bonded?), it gives the verdict of the model's [ensure_active] for every state and
   validator. A dropped or reordered test, another error value or a status test other than IsBonded changes the generated term
   and this file stops checking. *)
From Coq Require Import ZArith List String Bool.
Require Import Model.Base Model.State Model.Staking Model.Slashing Model.Poa Tie.GuardLang Extracted.ExtractedKeeper.
Import ListNotations.
Open Scope string_scope.
Open Scope Z_scope.

Definition path_is (p : list string) (a b : string) : bool :=
  match p with [x; y] => String.eqb x a && String.eqb y b | _ => false end.

Definition is_decode (e : gx) : bool :=
  match e with
  | GFun name (Some (GSel [x])) => String.eqb name "sdk.ValAddressFromBech32" && String.eqb x "valOpBech32"
  | _ => false
  end.

Definition is_get_validator (e : gx) : bool :=
  match e with
  | GMeth (GSel r) name (Some a) => path_is r "k" "stakingKeeper" && String.eqb name "GetValidator" && is_decode a
  | _ => false
  end.

Section Active.
  Variable decodes : bool.                         (* the operator address is well-formed bech32 *)
  Variable record : option (bool * bool).          (* x/staking's record of the validator: (jailed, bonded) *)

  Definition acond (e : gx) : option bool :=
    match e with
    | GTrue => Some true
    | GFails c =>
      if is_decode c then Some (negb decodes)
      else if is_get_validator c then Some (match record with None => true | Some _ => false end)
      else None
    | GSel p => if path_is p "val" "Jailed" then option_map fst record else None
    | GNot (GMeth r name None) =>
      if is_get_validator r && String.eqb name "IsBonded" then option_map (fun x => negb (snd x)) record else None
    | _ => None
    end.

  (* Some (Some e): refused with e; Some None: passes; None: not understood *)
  Fixpoint arun (gs : list guard) : option (option err) :=
    match gs with
    | [] => None
    | g :: rest =>
      match acond (g_cond g) with
      | Some true =>
        match g_ret g with
        | ROk => Some None
        | RSameErr =>
          match g_cond g with
          | GFails c => if is_decode c then Some (Some ESdkInvalidAddress)
                        else if is_get_validator c then Some (Some EStkNoValidatorFound) else None
          | _ => None
          end
        | RErr n =>
          if String.eqb n "stakingtypes.ErrValidatorJailed" then Some (Some EStkValidatorJailed)
          else if String.eqb n "sdkerrors.ErrInvalidRequest" then Some (Some ESdkInvalidRequest) else None
        | _ => None
        end
      | Some false => arun rest
      | None => None
      end
    end.
End Active.

Definition verdict (r : mres) : option err := match r with MErr e => Some e | MOk _ => None end.

(* MsgSetPower.Validate has run before (the address decodes: val >= 0 in the model's terms) *)
Theorem tie_ensure_active : forall c val,
  arun true (option_map (fun v => (v_jailed v, status_eqb (v_status v) Bonded)) (stdpp.base.lookup val (vals (stk c))))
       x_guards_Keeper_ensureActiveValidator
  = Some (verdict (ensure_active c val)).
Proof.
  intros c val. unfold ensure_active.
  destruct (stdpp.base.lookup val (vals (stk c))) as [v|]; cbn; [|reflexivity].
  destruct (v_jailed v); cbn; [reflexivity|].
  destruct (status_eqb (v_status v) Bonded); reflexivity.
Qed.

(* a successful pass leaves the state alone *)
Theorem ensure_active_reads_only : forall c val c', ensure_active c val = MOk c' -> c' = c.
Proof.
  intros c val c'. unfold ensure_active.
  destruct (stdpp.base.lookup val (vals (stk c))) as [v|]; [|discriminate].
  destruct (v_jailed v); [discriminate|].
  destruct (negb (status_eqb (v_status v) Bonded)); [discriminate|]. now intros [= <-].
Qed.

(* non-vacuity: a bonded unjailed validator passes; a jailed one, an unbonding one and an unknown one are refused *)
Example active_examples :
  arun true (Some (false, true)) x_guards_Keeper_ensureActiveValidator = Some None /\
  arun true (Some (true, true)) x_guards_Keeper_ensureActiveValidator = Some (Some EStkValidatorJailed) /\
  arun true (Some (false, false)) x_guards_Keeper_ensureActiveValidator = Some (Some ESdkInvalidRequest) /\
  arun true None x_guards_Keeper_ensureActiveValidator = Some (Some EStkNoValidatorFound).
Proof. vm_compute. repeat split; reflexivity. Qed.
