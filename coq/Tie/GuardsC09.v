(* GuardsC09.v — translator tie: rateCheck of /repo/ante/commission_limit.go, interpreted, is the model's rate_check. *)
From Coq Require Import ZArith List String Bool.
Require Import Model.Base Model.Validate Model.Ante Tie.GuardLang Tie.GuardSem Extracted.ExtractedGuards.
Import ListNotations.
Open Scope string_scope.
Open Scope Z_scope.

Local Arguments dec_one : simpl never.
Local Arguments max_int64 : simpl never.
Local Arguments min_power : simpl never.
Local Arguments max_moniker : simpl never.
Local Arguments max_identity : simpl never.
Local Arguments max_website : simpl never.
Local Arguments max_security : simpl never.
Local Arguments max_details : simpl never.

(* the commission decorator's range test (ante/commission_limit.go, rateCheck) *)
Theorem tie_guards_rate_check : forall source low high,
  run (env_rate source low high) no_sub x_guards_rateCheck = Some (if rate_check source low high then VOk else VErr EUndefined).
Proof.
  intros source low high. unfold rate_check. cbn.
  destruct ((low =? high) && negb (source =? low)); [reflexivity|]. cbn.
  destruct ((high <? source) || (source <? low)); reflexivity.
Qed.
