(* SpendSem.v — the term a power change adds to the running sum, as keeper.SetPOAPower computes it, interpreted. The expression
   trees of the statements that define newBFTConsensusPower, currentTokens, powerBefore (initial value, condition, conditional
   value) and absPowerDiff are regenerated from /repo/keeper/poa.go on every run (Extracted/ExtractedSpend.v); evaluated over the
   requested tokens, the tokens the validator holds, and its bonded / jailed flags they give the model's
       Z.abs (tokens_to_power new_shares - (if bonded && not jailed then tokens_to_power current_tokens else 0))
   for every value of the four. uint64(math.Abs(float64(d))) is read as Z.abs d: that this is what IEEE 754 binary64 computes
   for the differences the code forms is proofs/FloatAbs.v (C14). Tie/Spend.v pins the order of the statements textually. *)
From Coq Require Import ZArith List String Bool.
Require Import Model.Base Model.State Model.Staking Tie.GuardLang Extracted.ExtractedSpend.
Import ListNotations.
Open Scope string_scope.
Open Scope Z_scope.

Inductive sv := SB (b : bool) | SZ (z : Z) | SBad.

Definition path_is (p : list string) (a b : string) : bool :=
  match p with [x; y] => String.eqb x a && String.eqb y b | _ => false end.

Section Spend.
  Variables new_shares tokens : Z.
  Variables bonded jailed : bool.

  (* locals already computed: name -> value *)
  Fixpoint sev (locals : list (string * Z)) (e : gx) : sv :=
    match e with
    | GLit z => SZ z
    | GSel [x] =>
      if String.eqb x "newShares" then SZ new_shares
      else match find (fun p => String.eqb (fst p) x) locals with Some p => SZ (snd p) | None => SBad end
    | GSel p => if path_is p "val" "Tokens" then SZ tokens else if path_is p "val" "Jailed" then SB jailed else SBad
    | GNot a => match sev locals a with SB b => SB (negb b) | _ => SBad end
    | GMeth (GSel r) name None =>
      match r with [x] => if String.eqb x "val" && String.eqb name "IsBonded" then SB bonded else SBad | _ => SBad end
    | GMeth (GSel r) name (Some a) =>
      if path_is r "k" "stakingKeeper" && String.eqb name "TokensToConsensusPower"
      then match sev locals a with SZ z => SZ (tokens_to_power z) | _ => SBad end else SBad
    | GFun name (Some a) =>
      if String.eqb name "sdkmath.NewInt" || String.eqb name "int64" then sev locals a
      else if String.eqb name "uint64" then
        (* uint64(math.Abs(float64(d))) *)
        match a with
        | GFun n2 (Some (GFun n3 (Some d))) =>
          if String.eqb n2 "math.Abs" && String.eqb n3 "float64" then match sev locals d with SZ z => SZ (Z.abs z) | _ => SBad end else SBad
        | _ => SBad
        end
      else SBad
    | GBin op a b =>
      match sev locals a, sev locals b with
      | SB x, SB y => if String.eqb op "&&" then SB (x && y) else SBad
      | SZ x, SZ y => if String.eqb op "-" then SZ (x - y) else SBad
      | _, _ => SBad
      end
    | _ => SBad
    end.

  (* the statements in order *)
  Definition spend_term : option Z :=
    match sev [] x_spend_newBFTConsensusPower, sev [] x_spend_currentTokens with
    | SZ newp, SZ cur =>
      match sev [] x_spend_powerBefore_cond, sev [] x_spend_powerBefore, sev [("currentTokens", cur)] x_spend_powerBefore_then with
      | SB c, SZ init, SZ thn =>
        let before := if c then thn else init in
        match sev [("newBFTConsensusPower", newp); ("powerBefore", before)] x_spend_absPowerDiff with
        | SZ d => Some d
        | _ => None
        end
      | _, _, _ => None
      end
    | _, _ => None
    end.
End Spend.

Theorem tie_spend_term_is_the_models : forall new_shares tokens bonded jailed,
  spend_term new_shares tokens bonded jailed
  = Some (Z.abs (tokens_to_power new_shares - (if bonded && negb jailed then tokens_to_power tokens else 0))).
Proof. intros n t b j. unfold spend_term. cbn. destruct b, j; reflexivity. Qed.

Theorem tie_spend_one_conditional : x_spend_powerBefore_conditionals = 1%nat.
Proof. reflexivity. Qed.

(* non-vacuity: 13 power requested for a bonded validator holding 10 adds 3; for a jailed or unbonded one it adds 13 *)
Example spend_examples :
  spend_term 13000000 10000000 true false = Some 3 /\
  spend_term 13000000 10000000 true true = Some 13 /\
  spend_term 0 10999999 true false = Some 10.
Proof. vm_compute. repeat split; reflexivity. Qed.
