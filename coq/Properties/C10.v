(* C10 — pending queue integrity and uniqueness of validator identities. *)
From stdpp Require Import gmap.
Require Import Model.Base Model.State Model.Staking Model.Slashing Model.Poa Model.App proofs.L1More proofs.Inv proofs.InvPres proofs.InvMsgs proofs.InvHistory proofs.InvPending proofs.InvAdmit.

(* a successful CreateValidator appends exactly the submitted application (operator, consensus key, rates,
   description); nothing in x/staking or x/slashing moves; it is neither a validator nor pending already *)
Theorem C10_create_appends : forall c val cons mon r m ch c',
  msg_create_validator c val cons mon r m ch = MOk c' ->
  pending (poa c') = pending (poa c) ++ [{| p_oper := val; p_cons := cons; p_rate := r; p_maxrate := m; p_maxchg := ch; p_moniker := mon |}] /\
  stk c' = stk c /\ sl c' = sl c /\
  vals (stk c) !! val = None /\ by_cons (stk c) !! cons = None /\ pending_conflict val cons (pending (poa c)) = None.
Proof. exact create_validator_effect. Qed.

Theorem C10_remove_pending_deletes : forall c val c',
  msg_remove_pending c admin_id val = MOk c' ->
  pending (poa c') = remove_first_pending val (pending (poa c)) /\ stk c' = stk c /\ sl c' = sl c /\ bk c' = bk c /\
  cached_power (poa c') = cached_power (poa c) /\ abs_changed (poa c') = abs_changed (poa c).
Proof. exact remove_pending_effect. Qed.

(* at no time do two pending applications, or an application and a validator, share an operator or a consensus key *)
Theorem C10_unique_after_create : forall c val cons mon r m ch c',
  pending_unique c -> msg_create_validator c val cons mon r m ch = MOk c' -> pending_unique c'.
Proof. exact create_validator_unique. Qed.

Theorem C10_unique_after_remove_pending : forall c val c',
  pending_unique c -> msg_remove_pending c admin_id val = MOk c' -> pending_unique c'.
Proof. exact remove_pending_unique. Qed.

(* the list as a function of the history: after any sequence of blocks the list the query returns is the replay, in order, of
   the messages of the transactions that passed — a CreateValidator appends exactly the application it carried, a SetPower
   or a RemovePending deletes the first entry of the operator it names (nothing, if there is none) — starting from the
   empty list; no other message, no failed or refused transaction, no BeginBlock (downtime, double-sign evidence) and no
   EndBlock ever adds, drops, reorders or edits an entry *)
Theorem C10_pending_list_is_the_replay_of_the_history : forall g bs,
  wf_genesis g ->
  pending (poa (w_chain (run_world (init_world g) bs))) = fold_left spec_step (history_contribution (init_world g) bs) [].
Proof. exact pending_list_is_the_replay. Qed.

(* what one message contributes to that replay *)
Theorem C10_replay_step_meaning : forall l m,
  spec_step l m =
  match m with
  | MCreateValidator v k mon (Some r) (Some mx) (Some ch) _ =>
      l ++ [{| p_oper := v; p_cons := k; p_rate := r; p_maxrate := mx; p_maxchg := ch; p_moniker := mon |}]
  | MSetPower _ v _ _ | MRemovePending _ v => remove_first_pending v l
  | _ => l
  end.
Proof. intros l m. destruct m as [? ? ? ?|? ?|? ?|? ? ? [?|] [?|] [?|] ?|? ?|?|?|? ?]; reflexivity. Qed.

(* in every reachable state: no two applications share an operator or a consensus key, no application's operator has a
   validator record, no application's key is any validator's key, and no two validator records share a key *)
Theorem C10_identities_unique_in_every_reachable_state : forall g bs,
  wf_genesis g ->
  let c := w_chain (run_world (init_world g) bs) in
  List.NoDup (map p_oper (pending (poa c))) /\ List.NoDup (map p_cons (pending (poa c))) /\
  (forall p, In p (pending (poa c)) -> vals (stk c) !! p_oper p = None) /\
  (forall p id v, In p (pending (poa c)) -> vals (stk c) !! id = Some v -> v_cons v <> p_cons p) /\
  (forall i j vi vj, vals (stk c) !! i = Some vi -> vals (stk c) !! j = Some vj -> v_cons vi = v_cons vj -> i = j).
Proof.
  intros g bs Hg c. destruct (reachable_CI g bs Hg) as [HS [A B C D]]. fold c in HS, A, B, C, D.
  split; [exact A|]. split; [exact B|]. split; [exact C|]. split; [exact D|]. exact (si_cons _ HS).
Qed.

(* admission moves exactly that application into the validator set and out of the list: the record a successful SetPower creates
   for a pending operator carries the application's consensus key, commission rates and description, minimum self-delegation 1,
   the requested tokens, shares and self-delegation, and is bonded and not jailed; the list loses that entry and nothing else *)
Theorem C10_admission_moves_exactly_the_application : forall c s v P u c' p,
  SI (stk c) -> find_pending v (pending (poa c)) = Some p -> msg_set_power c s v P u = MOk c' ->
  exists r, vals (stk c') !! v = Some r /\
    v_cons r = p_cons p /\ v_rate r = p_rate p /\ v_maxrate r = p_maxrate p /\ v_maxchg r = p_maxchg p /\ v_moniker r = p_moniker p /\
    v_msd r = 1 /\ v_jailed r = false /\ v_status r = Bonded /\ v_tokens r = cast_i64 P /\ v_shares r = cast_i64 P * dec_one /\
    dels (stk c') !! v = Some (cast_i64 P * dec_one) /\
    pending (poa c') = remove_first_pending v (pending (poa c)).
Proof. exact admission_moves_the_application. Qed.
