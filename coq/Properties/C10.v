(* C10 — pending queue integrity and uniqueness of validator identities. *)
From stdpp Require Import gmap.
Require Import Model.Base Model.State Model.Staking Model.Slashing Model.Poa proofs.L1More.

(* a successful CreateValidator appends exactly the submitted application (operator, consensus key, rates,
   description); nothing in x/staking or x/slashing moves; it is neither a validator nor pending already *)
Theorem C10_create_appends : forall c val cons mon r m ch c',
  msg_create_validator c val cons mon r m ch = MOk c' ->
  pending (poa c') = pending (poa c) ++ [{| p_oper := val; p_cons := cons; p_rate := r; p_maxrate := m; p_maxchg := ch; p_moniker := mon |}] /\
  stk c' = stk c /\ sl c' = sl c /\
  vals (stk c) !! val = None /\ by_cons (stk c) !! cons = None /\ pending_conflict val cons (pending (poa c)) = None.
Proof. exact create_validator_effect. Qed.

Theorem C10_remove_pending_deletes : forall c val c',
  msg_remove_pending c admin_id val = MOk c' ->
  pending (poa c') = remove_first_pending val (pending (poa c)) /\ stk c' = stk c /\ sl c' = sl c /\ bk c' = bk c /\
  cached_power (poa c') = cached_power (poa c) /\ abs_changed (poa c') = abs_changed (poa c).
Proof. exact remove_pending_effect. Qed.

(* at no time do two pending applications, or an application and a validator, share an operator or a consensus key *)
Theorem C10_unique_after_create : forall c val cons mon r m ch c',
  pending_unique c -> msg_create_validator c val cons mon r m ch = MOk c' -> pending_unique c'.
Proof. exact create_validator_unique. Qed.

Theorem C10_unique_after_remove_pending : forall c val c',
  pending_unique c -> msg_remove_pending c admin_id val = MOk c' -> pending_unique c'.
Proof. exact remove_pending_unique. Qed.
