(* C04 — no transaction sequence halts the chain; updates are always valid for CometBFT. *)
From stdpp Require Import gmap.
Require Import Model.Base Model.State Model.Staking Model.Slashing Model.Poa proofs.L1More.

(* the last bonded validator can be removed neither by the admin nor by itself: a successful removal leaves at
   least one other validator that is bonded, not jailed and has voting power *)
Theorem C04_last_bonded_guard : forall c sender val c',
  msg_remove_validator c sender val = MOk c' ->
  other_signers c val <> 0 /\ exists v, vals (stk c) !! val = Some v /\ v_status v = Bonded.
Proof. exact remove_validator_keeps_a_signer. Qed.
