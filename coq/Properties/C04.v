(* C04 — no transaction sequence halts the chain; updates are always valid for CometBFT. *)
From stdpp Require Import gmap.
Require Import Model.Base Model.State Model.Staking Model.Slashing Model.Poa Model.App.
Require Import proofs.Inv proofs.InvPres proofs.InvMsgs proofs.InvHistory proofs.InvComet proofs.InvQueue proofs.InvPools proofs.InvElig proofs.InvLive proofs.InvBegin proofs.InvBound proofs.L1More.

(* after every block of every history from every (non-negative) genesis — any number of blocks, any in-block
   order of any messages of the modelled alphabet, any downtime pattern, any time steps — the chain invariant
   holds: one index entry per non-jailed validator at its token power, distinct consensus keys, every member of
   the last validator set bonded, pending identities pairwise distinct and disjoint from the validators' *)
Theorem C04_invariant_of_every_reachable_state : forall g bs,
  wf_genesis g -> CI (w_chain (run_world (init_world g) bs)).
Proof. exact reachable_CI. Qed.

(* hence in the next block, whatever it contains, x/staking's EndBlocker never panics on a missing validator
   record (1) or a bad state transition (2), and CometBFT never refuses the returned updates for a duplicate
   consensus key (1) or a negative power (2) *)
Theorem C04_next_block_safe : forall g bs b,
  wf_genesis g ->
  let w := run_world (init_world g) bs in
  w_halted w = None ->
  let w' := fst (run_block w b) in
  w_halted w' <> Some (HEndBlock 1) /\ w_halted w' <> Some (HEndBlock 2) /\
  w_halted w' <> Some (HComet 1) /\ w_halted w' <> Some (HComet 2).
Proof. intros g bs b Hg w Hh. apply block_safe; [apply reachable_CI; exact Hg|exact Hh]. Qed.

(* ... nor for the removal of a key that is not in its set (3): every zero-power update concerns a validator of the
   last set, and CometBFT's set is the last set *)
Theorem C04_never_removes_a_non_member : forall g bs b,
  wf_genesis g ->
  let w := run_world (init_world g) bs in
  w_halted w = None -> w_halted (fst (run_block w b)) <> Some (HComet 3).
Proof. intros g bs b Hg w Hh. apply block_safe_members; [apply run_world_WI; apply init_world_WI; exact Hg|exact Hh]. Qed.

(* ... nor on the unbonding queue (3): every queued address has an unbonding record carrying the queue key it is filed
   under, at most once, and a record without shares holds no tokens — so "validator in the unbonding queue was not
   found", "unexpected validator in unbonding queue" and "attempting to remove a validator which still contains
   tokens" are unreachable in every history *)
Theorem C04_queue_invariant_of_every_reachable_state : forall g bs,
  wf_genesis g -> QI (stk (w_chain (run_world (init_world g) bs))).
Proof. exact reachable_QI. Qed.

Theorem C04_never_halts_on_the_unbonding_queue : forall g bs,
  wf_genesis g -> w_halted (run_world (init_world g) bs) <> Some (HEndBlock 3).
Proof. exact history_no_queue_halt. Qed.

(* ... nor for lack of funds in a pool (4). Altogether: x/staking's EndBlocker returns no error in any block of any
   history, whatever the transactions, the downtime pattern and the time steps were *)
Theorem C04_endblocker_never_fails : forall g bs e,
  wf_genesis g -> w_halted (run_world (init_world g) bs) <> Some (HEndBlock e).
Proof. exact history_endblock_never_halts. Qed.

(* never an empty resulting set through transactions: if each block's BeginBlock (downtime jailing — the environment)
   leaves at least one validator that is not jailed and has power, then whatever the blocks' transactions do — remove,
   re-power, lower the cap, unjail, in any order and number — CometBFT is never asked to adopt an empty set (4).
   The hypotheses are the environment's: a positive genesis cap, max_validators fields that are unsigned (the wire
   type), somebody left after downtime jailing; they are stated block by block against the state the block meets *)
Theorem C04_transactions_cannot_empty_the_set : forall g bs,
  wf_genesis g -> 1 <= g_max_vals g -> env_ok (init_world g) bs ->
  w_halted (run_world (init_world g) bs) <> Some (HComet 4).
Proof. exact history_never_emptied. Qed.

(* BeginBlock returns no error either: the validators whose votes a block carries (the set of two blocks earlier) still
   have a record that is Bonded or Unbonding and a signing info, so x/distribution finds every voter and x/slashing can
   look up, slash and jail — provided each block interval is shorter than the smallest unbonding time (m seconds) the
   admin ever sets (H-time; with a shorter one a removed validator's record is deleted before its last votes are counted).
   Double-sign evidence is handled by x/evidence in the same BeginBlock: it never fails either as long as each entry is
   about a validator whose record the chain still has, of a height that is not in the future (H-evidence, [ev_env]:
   CometBFT only forwards evidence younger than its max age); the signing info x/evidence insists on is proved to be there *)
Theorem C04_beginblock_never_fails : forall m g bs e,
  wf_genesis g -> 1 <= m -> m <= g_unbond_secs g -> 0 <= g_slash_down_bp g -> 0 <= g_slash_dbl_bp g -> Forall (ut_block m) bs ->
  ev_env (init_world g) bs ->
  w_halted (run_world (init_world g) bs) <> Some (HBeginBlock e).
Proof. exact history_begin_never_halts. Qed.

(* altogether: under the environment's hypotheses (H-time, H-alive, H-evidence, unsigned max_validators fields, a sane genesis) no
   sequence of blocks of transactions makes block execution return an error or CometBFT refuse the updates, except
   possibly for CometBFT's bound on the total voting power (code 5), which is not excluded here *)
Theorem C04_no_history_halts : forall m g bs,
  wf_genesis g -> 1 <= g_max_vals g -> 1 <= m -> m <= g_unbond_secs g -> 0 <= g_slash_down_bp g -> 0 <= g_slash_dbl_bp g ->
  Forall (ut_block m) bs -> env_ok (init_world g) bs -> ev_env (init_world g) bs ->
  w_halted (run_world (init_world g) bs) = None \/ w_halted (run_world (init_world g) bs) = Some (HComet 5).
Proof. exact history_never_halts. Qed.

(* ... and that bound holds too when consensus keys come from a pool of N keys with N * (2^63-1)/10^6 within it (N <= 125000)
   and genesis amounts are below 2^63: token amounts never exceed 2^63-1 and a set has at most N members *)
Theorem C04_total_power_within_comet_bound : forall N g bs,
  wf_genesis g -> wf_genesis_bounded N g -> 0 <= N -> N * max_power_one <= max_total_voting_power -> Forall (kb_block N) bs ->
  w_halted (run_world (init_world g) bs) <> Some (HComet 5).
Proof. exact history_never_too_large. Qed.

(* nothing left: under the environment's hypotheses no history halts at all *)
Theorem C04_no_history_halts_at_all : forall m N g bs,
  wf_genesis g -> wf_genesis_bounded N g -> 0 <= N -> N * max_power_one <= max_total_voting_power ->
  1 <= g_max_vals g -> 1 <= m -> m <= g_unbond_secs g -> 0 <= g_slash_down_bp g -> 0 <= g_slash_dbl_bp g ->
  Forall (ut_block m) bs -> Forall (kb_block N) bs -> env_ok (init_world g) bs -> ev_env (init_world g) bs ->
  w_halted (run_world (init_world g) bs) = None.
Proof. exact history_never_halts_at_all. Qed.

(* the EndBlocker's own contract, for any store satisfying the invariant and index sets of any size *)
Theorem C04_endblocker_contract : forall c,
  idx_sound (stk c) -> idx_unique (stk c) -> cons_inj (stk c) -> last_bonded (stk c) -> tokens_nonneg (stk c) ->
  match apply_valset_updates c with
  | EBHalt e => e = 4
  | EBOk _ upd => List.NoDup (map fst upd) /\ (forall k p, In (k, p) upd -> 0 <= p)
  end.
Proof. exact apply_valset_updates_safe. Qed.

(* the last bonded validator can be removed neither by the admin nor by itself: a successful removal leaves at
   least one other validator that is bonded, not jailed and has voting power *)
Theorem C04_last_bonded_guard : forall c sender val c',
  msg_remove_validator c sender val = MOk c' ->
  other_signers c val <> 0 /\ exists v, vals (stk c) !! val = Some v /\ v_status v = Bonded.
Proof. exact remove_validator_keeps_a_signer. Qed.
