(* C06 — a rejected PoA message leaves no trace. *)
From stdpp Require Import gmap.
Require Import Model.Base Model.Ante Model.Current Model.State Model.Staking Model.Slashing Model.Poa Model.App proofs.L1Basic.

(* whatever fails — authority, validation, the 30% limit after the power was applied, an unknown or
   unbonded target, a later message of the same transaction — the committed chain state is the one
   before the transaction, or that state with the signers' sequence numbers bumped *)
Theorem C06_failure_is_rollback : forall c tx c' e,
  deliver_tx c tx = (c', TErr e) -> c' = c \/ c' = bump_seqs c (dedup (map msg_sender tx)).
Proof. exact deliver_tx_failure. Qed.

Theorem C06_failed_tx_no_trace : forall c tx c' e,
  deliver_tx c tx = (c', TErr e) -> stk c' = stk c /\ sl c' = sl c /\ bk c' = bk c /\ poa c' = poa c.
Proof. exact failed_tx_no_trace. Qed.

Theorem C06_ante_reject_unchanged : forall c tx e,
  cur_stk_decorator (height c) (map ante_view tx) = Some e -> deliver_tx c tx = (c, TErr e).
Proof. exact ante_reject_unchanged. Qed.
