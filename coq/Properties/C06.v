(* C06 — a rejected PoA message leaves no trace. *)
From stdpp Require Import gmap.
Require Import Model.Base Model.Ante Model.Current Model.State Model.Staking Model.Slashing Model.Poa Model.App proofs.L1Basic proofs.InvSeqs.

(* whatever fails — authority, validation, the 30% limit after the power was applied, an unknown or
   unbonded target, a later message of the same transaction — the committed chain state is the one
   before the transaction, or that state with the signers' sequence numbers bumped *)
Theorem C06_failure_is_rollback : forall c tx c' e,
  deliver_tx c tx = (c', TErr e) -> c' = c \/ c' = bump_seqs c (dedup (map msg_sender tx)).
Proof. exact deliver_tx_failure. Qed.

Theorem C06_failed_tx_no_trace : forall c tx c' e,
  deliver_tx c tx = (c', TErr e) -> stk c' = stk c /\ sl c' = sl c /\ bk c' = bk c /\ poa c' = poa c.
Proof. exact failed_tx_no_trace. Qed.

Theorem C06_ante_reject_unchanged : forall c tx e,
  cur_stk_decorator (height c) (map ante_view tx) = Some e -> deliver_tx c tx = (c, TErr e).
Proof. exact ante_reject_unchanged. Qed.

(* nothing but the transaction wrapper reads or writes the sequence numbers: every handler commutes with replacing them *)
Theorem C06_handlers_ignore_sequence_numbers : forall c q m,
  exec_msg (with_seqs c q) m = match exec_msg c m with MOk c' => MOk (with_seqs c' q) | MErr e => MErr e end.
Proof. exact exec_msg_seqs. Qed.

(* within a block: with a failing transaction in it, every other transaction gets the result it gets without it, and
   the state handed to the EndBlocker differs in sequence numbers only *)
Theorem C06_failing_tx_is_invisible_to_the_rest_of_the_block : forall c txs1 tx txs2 c1 e,
  deliver_tx (fst (deliver_txs c txs1)) tx = (c1, TErr e) ->
  let with_it := deliver_txs c (txs1 ++ tx :: txs2) in
  let without := deliver_txs c (txs1 ++ txs2) in
  same_but_seqs (fst without) (fst with_it) /\
  snd with_it = firstn (length txs1) (snd without) ++ TErr e :: skipn (length txs1) (snd without).
Proof. exact failing_tx_is_invisible. Qed.

(* the block as a whole: the state it commits is the state it would have committed without the failing transaction, apart
   from sequence numbers — validator records, powers, pending list, per-block budget, slashing records, pools and supply
   are the same field by field — and so are the validator updates, CometBFT's sets and the halt status *)
Theorem C06_block_commits_the_same_state_without_the_failing_tx : forall w b txs1 tx txs2,
  let c1 := match begin_block (with_clock (w_chain w) (height (w_chain w) + 1) (now (w_chain w) + b_dt b))
                              (match c_prev (w_comet w) with Some vs => sorted_votes vs | None => [] end) (b_absent b) (b_evidence b) with inl c1 => c1 | inr _ => w_chain w end in
  (exists cf e, deliver_tx (fst (deliver_txs c1 txs1)) tx = (cf, TErr e)) ->
  let w1 := fst (run_block w (block_with b (txs1 ++ tx :: txs2))) in
  let w2 := fst (run_block w (block_with b (txs1 ++ txs2))) in
  same_but_seqs (w_chain w2) (w_chain w1) /\ w_comet w1 = w_comet w2 /\ w_halted w1 = w_halted w2 /\
  option_map bo_updates (snd (run_block w (block_with b (txs1 ++ tx :: txs2)))) = option_map bo_updates (snd (run_block w (block_with b (txs1 ++ txs2)))).
Proof. exact block_ignores_failing_tx. Qed.

(* what "differs in sequence numbers only" means *)
Theorem C06_same_but_seqs_meaning : forall c d, same_but_seqs c d ->
  height d = height c /\ now d = now c /\ stk d = stk c /\ sl d = sl c /\ bk d = bk c /\ poa d = poa c.
Proof. intros c d [q ->]. repeat split. Qed.
