(* C14 — SetPower input domain and unit conversion. *)
From stdpp Require Import gmap.
Require Import Model.Base Model.Validate Model.Current Model.State Model.Staking Model.Slashing Model.Poa proofs.ValidateProofs proofs.L1Basic proofs.L1Effects proofs.FloatAbs.

(* for every 64-bit unsigned power: accepted by Validate iff 1_000_000 <= p <= 2^63-1 *)
Theorem C14_domain : forall p, 0 <= p < two64 ->
  (cur_setpower_validate true p = Ok tt <-> min_power <= p <= max_int64).
Proof. intros p _. exact (setpower_validate_domain p). Qed.

Theorem C14_below_minimum : forall p, p < min_power -> cur_setpower_validate true p = Err EPoaPowerBelowMinimum.
Proof. exact setpower_validate_below. Qed.

Theorem C14_above_int64 : forall p, max_int64 < p -> cur_setpower_validate true p = Err ESdkInvalidRequest.
Proof. exact setpower_validate_above. Qed.

(* every accepted value is a positive int64 (the cast in the handler is the identity) with voting power >= 1 *)
Theorem C14_accepted_is_positive_int64 : forall p,
  cur_setpower_validate true p = Ok tt -> cast_i64 p = p /\ 1 <= tokens_to_power p.
Proof. intros p H. apply accepted_cast. apply setpower_validate_domain. exact H. Qed.

(* at the handler: out-of-domain powers never reach the state *)
Theorem C14_handler_rejects_small : forall c val power unsafe,
  0 <= val -> power < min_power -> msg_set_power c admin_id val power unsafe = MErr EPoaPowerBelowMinimum.
Proof. exact set_power_rejects_small. Qed.

Theorem C14_handler_rejects_huge : forall c val power unsafe,
  0 <= val -> max_int64 < power -> msg_set_power c admin_id val power unsafe = MErr ESdkInvalidRequest.
Proof. exact set_power_rejects_huge. Qed.

(* exact units: tokens = requested amount, shares and self-delegation = amount (as a decimal), voting power = amount / 10^6 *)
Theorem C14_exact_units : forall c val n c',
  0 < n -> set_poa_power c val n = MOk c' ->
  exists v', vals (stk c') !! val = Some v' /\ v_tokens v' = n /\ v_shares v' = n * dec_one /\
             dels (stk c') !! val = Some (n * dec_one) /\ v_power v' = n / power_reduction.
Proof.
  intros c val n c' Hn H. destruct (set_poa_power_assign _ _ _ _ Hn H) as (v & _ & _ & Hv & Hd & _).
  eexists. rewrite Hv, Hd, !lookup_insert. repeat split; reflexivity.
Qed.

(* a request that would not change the validator's power is refused before anything is written *)
Theorem C14_same_power_rejected : forall c val shares v,
  vals (stk c) !! val = Some v ->
  tokens_to_power shares = default 0 (last_pow (stk c) !! val) ->
  set_poa_power c val shares = MErr EUndefined.
Proof. exact set_poa_power_same. Qed.

Example C14_boundaries :
  cur_setpower_validate true 0 = Err EPoaPowerBelowMinimum /\
  cur_setpower_validate true 999999 = Err EPoaPowerBelowMinimum /\
  cur_setpower_validate true 1000000 = Ok tt /\
  cur_setpower_validate true (2^63 - 1) = Ok tt /\
  cur_setpower_validate true (2^63) = Err ESdkInvalidRequest /\
  cur_setpower_validate true (2^64 - 1) = Err ESdkInvalidRequest.
Proof. vm_compute. repeat split. Qed.

(* the one floating-point step of the code, uint64(math.Abs(float64(newPower - powerBefore))): with IEEE 754 binary64 as Flocq
   formalises it (conversion rounds to nearest even, Abs clears the sign, the conversion back truncates), the result is the exact
   absolute difference for every difference below 2^53 in absolute value ... *)
Theorem C14_float_step_is_exact : forall d, Z.abs d < 2 ^ 53 -> go_abs_diff d = Z.abs d.
Proof. exact go_abs_diff_exact. Qed.

(* ... and the differences the code forms are: both powers are token amounts below 2^63 divided by 10^6. So the model's
   [Z.abs (new_power - power_before)] in SetPOAPower is what the Go computes. *)
Theorem C14_power_differences_fit : forall n t,
  0 <= n <= max_int64 -> 0 <= t <= max_int64 ->
  go_abs_diff (tokens_to_power n - tokens_to_power t) = Z.abs (tokens_to_power n - tokens_to_power t) /\
  go_abs_diff (tokens_to_power n - 0) = Z.abs (tokens_to_power n - 0).
Proof.
  intros n t Hn Ht.
  assert (B : forall x, 0 <= x <= max_int64 -> 0 <= tokens_to_power x < 2 ^ 52).
  { intros x Hx. unfold tokens_to_power, power_reduction. unfold max_int64, two63 in Hx. split; [apply Z.div_pos; lia|].
    apply Z.div_lt_upper_bound; [lia|]. change (2 ^ 52) with 4503599627370496. change (2 ^ 63) with 9223372036854775808 in Hx. lia. }
  pose proof (B n Hn). pose proof (B t Ht). change (2 ^ 52) with 4503599627370496 in *.
  split; apply go_abs_diff_exact; change (2 ^ 53) with 9007199254740992; lia.
Qed.
