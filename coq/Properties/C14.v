(* C14 — SetPower input domain and unit conversion. *)
Require Import Model.Base Model.Validate Model.Current proofs.ValidateProofs.

(* for every 64-bit unsigned power: accepted by Validate iff 1_000_000 <= p <= 2^63-1 *)
Theorem C14_domain : forall p, 0 <= p < two64 ->
  (cur_setpower_validate true p = Ok tt <-> min_power <= p <= max_int64).
Proof. intros p _. exact (setpower_validate_domain p). Qed.

Theorem C14_below_minimum : forall p, p < min_power -> cur_setpower_validate true p = Err EPoaPowerBelowMinimum.
Proof. exact setpower_validate_below. Qed.

Theorem C14_above_int64 : forall p, max_int64 < p -> cur_setpower_validate true p = Err ESdkInvalidRequest.
Proof. exact setpower_validate_above. Qed.

(* every accepted value is a positive int64 (the cast in the handler is the identity) with voting power >= 1 *)
Theorem C14_accepted_is_positive_int64 : forall p,
  cur_setpower_validate true p = Ok tt -> cast_i64 p = p /\ 1 <= tokens_to_power p.
Proof. intros p H. apply accepted_cast. apply setpower_validate_domain. exact H. Qed.

Example C14_boundaries :
  cur_setpower_validate true 0 = Err EPoaPowerBelowMinimum /\
  cur_setpower_validate true 999999 = Err EPoaPowerBelowMinimum /\
  cur_setpower_validate true 1000000 = Ok tt /\
  cur_setpower_validate true (2^63 - 1) = Ok tt /\
  cur_setpower_validate true (2^63) = Err ESdkInvalidRequest /\
  cur_setpower_validate true (2^64 - 1) = Err ESdkInvalidRequest.
Proof. vm_compute. repeat split. Qed.
