(* C05 — per-block 30% limit on voting-power change for safe SetPower. *)
From stdpp Require Import gmap.
Require Import Model.Base Model.Validate Model.State Model.Staking Model.Slashing Model.Poa Model.App proofs.L1Effects proofs.InvHistory proofs.InvTotal proofs.InvCometTotal proofs.InvBudget.

(* a safe SetPower above height 1 succeeds only if the running sum (its own change included) is below
   30% of the cached total *)
Theorem C05_limit_test : forall c val power c',
  1 < height c -> msg_set_power c admin_id val power false = MOk c' ->
  cached_power (poa c') <> 0 /\ wrap_u64 (abs_changed (poa c') * 100) / cached_power (poa c') < 30.
Proof. exact msg_set_power_limit. Qed.

(* integer division says exactly "strictly less than 30%" *)
Theorem C05_percent_meaning : forall a t, 0 <= a -> 0 < t -> (a * 100 / t <? 30 = true <-> 100 * a < 30 * t).
Proof. exact percent_lt_iff. Qed.

(* every change — admission, removal, unsafe — adds |new - power held at that point of the block| *)
Theorem C05_counts_every_change : forall c val n c',
  0 < n -> set_poa_power c val n = MOk c' ->
  exists v, vals (stk c) !! val = Some v /\
    abs_changed (poa c') =
      wrap_u64 (abs_changed (poa c) +
                Z.abs (tokens_to_power n - (if status_eqb (v_status v) Bonded && negb (v_jailed v) then v_power v else 0))).
Proof.
  intros c val n c' Hn H. destruct (set_poa_power_assign _ _ _ _ Hn H) as (v & Hv & _ & _ & _ & _ & _ & _ & _ & _ & _ & _ & _ & _ & Ha).
  exists v. split; assumption.
Qed.

(* the sum starts from zero in every block and the reference total is refreshed *)
Theorem C05_reset : forall c,
  1 < height c -> abs_changed (poa (poa_begin_block c)) = 0 /\ cached_power (poa (poa_begin_block c)) = last_total (stk c)
                  /\ pending (poa (poa_begin_block c)) = pending (poa c).
Proof. exact poa_begin_block_reset. Qed.

(* only the unsafe flag skips the test *)
Theorem C05_unsafe_bypass : forall c val power c1 c2,
  setpower_validate (0 <=? val) power = Ok tt ->
  match find_pending val (pending (poa c)) with Some p => accept_new_validator c p | None => ensure_active c val end = MOk c1 ->
  set_poa_power c1 val (cast_i64 power) = MOk c2 ->
  msg_set_power c admin_id val power true = update_bonded_pool c2.
Proof. exact msg_set_power_unsafe_bypass. Qed.

(* what the cached total is: in every reachable running state x/staking's LastTotalPower equals the sum of the last
   validator powers (the voting power of the set CometBFT holds, C02) *)
Theorem C05_last_total_is_the_sum_of_the_last_powers : forall g bs,
  wf_genesis g ->
  let w := run_world (init_world g) bs in
  w_halted w = None -> last_total (stk (w_chain w)) = tsum (last_pow (stk (w_chain w))).
Proof. exact reachable_TL. Qed.

(* ... and throughout every block above height 1, whatever transactions have run so far, the total PoA tests against is
   that sum as the previous block left it: the total voting power the validator set had at the end of the previous block *)
Theorem C05_limit_base_is_previous_block_total : forall g bs b c1 txs,
  wf_genesis g ->
  let w := run_world (init_world g) bs in
  w_halted w = None -> 0 < height (w_chain w) ->
  begin_block (with_clock (w_chain w) (height (w_chain w) + 1) (now (w_chain w) + b_dt b))
              (match c_prev (w_comet w) with Some vs => sorted_votes vs | None => [] end) (b_absent b) (b_evidence b) = inl c1 ->
  cached_power (poa (fst (deliver_txs c1 txs))) = tsum (last_pow (stk (w_chain w))) /\
  last_pow (stk (fst (deliver_txs c1 txs))) = last_pow (stk (w_chain w)).
Proof. exact cached_total_is_previous_set_total. Qed.

(* ... and that sum is the total voting power of the validator set CometBFT holds (the set the previous block's updates
   produced): the base of the 30 % test is the true total of the previous block's validator set *)
Theorem C05_last_total_is_the_total_power_of_comets_set : forall g bs,
  wf_genesis g ->
  let w := run_world (init_world g) bs in
  w_halted w = None -> last_total (stk (w_chain w)) = tsum (c_next (w_comet w)).
Proof. exact reachable_comet_total. Qed.

Theorem C05_limit_base_is_the_total_power_of_comets_set : forall g bs b c1 txs,
  wf_genesis g ->
  let w := run_world (init_world g) bs in
  w_halted w = None -> 0 < height (w_chain w) ->
  begin_block (with_clock (w_chain w) (height (w_chain w) + 1) (now (w_chain w) + b_dt b))
              (match c_prev (w_comet w) with Some vs => sorted_votes vs | None => [] end) (b_absent b) (b_evidence b) = inl c1 ->
  cached_power (poa (fst (deliver_txs c1 txs))) = tsum (c_next (w_comet w)).
Proof.
  intros g bs b c1 txs Hg w Hh Hht Eb. destruct (cached_total_is_previous_set_total g bs b c1 txs Hg Hh Hht Eb) as [H _].
  rewrite H. transitivity (last_total (stk (w_chain w))); [symmetry; exact (reachable_TL g bs Hg Hh)|exact (reachable_comet_total g bs Hg Hh)].
Qed.

(* ---- the running sum in closed form ----
   In every block above height 1 of every history, after any prefix [txs] of the block's transactions, the sum PoA tests against
   the limit is the uint64 sum of one non-negative term per SetPower / RemoveValidator message of the transactions that passed so
   far, in order ([txs_spends]); the terms are spelled out by the three theorems that follow. *)
Theorem C05_block_budget_is_the_sum_of_the_changes : forall g bs b c1 txs,
  let w := run_world (init_world g) bs in
  0 < height (w_chain w) ->
  begin_block (with_clock (w_chain w) (height (w_chain w) + 1) (now (w_chain w) + b_dt b))
              (match c_prev (w_comet w) with Some vs => sorted_votes vs | None => [] end) (b_absent b) (b_evidence b) = inl c1 ->
  abs_changed (poa (fst (deliver_txs c1 txs))) = wrap_u64 (zsum (txs_spends c1 txs)) /\
  Forall (fun d => 0 <= d) (txs_spends c1 txs).
Proof. exact block_budget_is_the_sum_of_the_changes. Qed.

(* the term of a message: an admission counts its whole new power, any other SetPower |new - held|, a removal what the validator
   held — where "held" is the power of its tokens at that point of the block if it is bonded and not jailed, else 0; the unsafe flag
   plays no part; no other kind of message has a term *)
Theorem C05_budget_term_of_a_message : forall c m,
  msg_spend c m =
  match m with
  | MSetPower _ v p _ =>
      Some (match find_pending v (pending (poa c)) with
            | Some _ => Z.abs (tokens_to_power (cast_i64 p))
            | None => Z.abs (tokens_to_power (cast_i64 p) - held c v)
            end)
  | MRemoveValidator _ v => Some (Z.abs (tokens_to_power 0 - held c v))
  | _ => None
  end.
Proof. intros c m. destruct m; reflexivity. Qed.

Theorem C05_held_meaning : forall c val,
  held c val = match vals (stk c) !! val with
               | Some v => if status_eqb (v_status v) Bonded && negb (v_jailed v) then tokens_to_power (v_tokens v) else 0
               | None => 0
               end.
Proof. reflexivity. Qed.

(* a transaction that does not pass has no term; a passing single-message transaction has its message's term, taken in the state
   the message ran in *)
Theorem C05_failed_transaction_spends_nothing : forall c tx, snd (deliver_tx c tx) <> TPass -> tx_spends c tx = [].
Proof. exact tx_spends_failed. Qed.

Theorem C05_passing_transaction_spends_its_message : forall c m, snd (deliver_tx c [m]) = TPass ->
  tx_spends c [m] = spend_list (msg_spend (bump_seqs c (dedup [msg_sender m])) m).
Proof. exact tx_spends_single. Qed.

Theorem C05_transactions_spend_in_order : forall c tx rest,
  txs_spends c (tx :: rest) = tx_spends c tx ++ txs_spends (fst (deliver_tx c tx)) rest.
Proof. reflexivity. Qed.

(* non-vacuity: four validators of power 10 (total 40, so the limit is below 12). Block 2: +3 safe (passes, 3), a stranger's
   SetPower (refused, nothing), a removal (10: removals are counted but not tested), +1 safe (3+10+1 = 14 >= 12: refused, nothing),
   the same +1 unsafe (passes, 1). The sum is 14. *)
Example C05_budget_witness :
  let g := {| g_tokens := [10000000; 10000000; 10000000; 10000000]; g_max_vals := 10; g_unbond_secs := 30; g_window := 4;
              g_min_signed_pc := 50; g_jail_secs := 5; g_slash_down_bp := 100; g_slash_dbl_bp := 500 |} in
  let b0 := {| b_dt := 5; b_absent := []; b_evidence := []; b_txs := [] |} in
  let txs := [[MSetPower admin_id 0 13000000 false]; [MSetPower 5 1 1000000 false]; [MRemoveValidator admin_id 2];
              [MSetPower admin_id 1 11000000 false]; [MSetPower admin_id 1 11000000 true]] in
  let w := run_world (init_world g) [b0] in
  match begin_block (with_clock (w_chain w) (height (w_chain w) + 1) (now (w_chain w) + 5))
                    (match c_prev (w_comet w) with Some vs => sorted_votes vs | None => [] end) [] [] with
  | inl c1 => height (w_chain w) = 1 /\ cached_power (poa c1) = 40 /\
              snd (deliver_txs c1 txs) = [TPass; TErr EPoaNotAnAuthority; TPass; TErr EPoaUnsafePower; TPass] /\
              txs_spends c1 txs = [3; 10; 1] /\ abs_changed (poa (fst (deliver_txs c1 txs))) = 14
  | inr _ => False
  end.
Proof. vm_compute. repeat split; reflexivity. Qed.
