(* C05 — per-block 30% limit on voting-power change for safe SetPower. *)
From stdpp Require Import gmap.
Require Import Model.Base Model.Validate Model.State Model.Staking Model.Slashing Model.Poa Model.App proofs.L1Effects proofs.InvHistory proofs.InvTotal proofs.InvCometTotal.

(* a safe SetPower above height 1 succeeds only if the running sum (its own change included) is below
   30% of the cached total *)
Theorem C05_limit_test : forall c val power c',
  1 < height c -> msg_set_power c admin_id val power false = MOk c' ->
  cached_power (poa c') <> 0 /\ wrap_u64 (abs_changed (poa c') * 100) / cached_power (poa c') < 30.
Proof. exact msg_set_power_limit. Qed.

(* integer division says exactly "strictly less than 30%" *)
Theorem C05_percent_meaning : forall a t, 0 <= a -> 0 < t -> (a * 100 / t <? 30 = true <-> 100 * a < 30 * t).
Proof. exact percent_lt_iff. Qed.

(* every change — admission, removal, unsafe — adds |new - power held at that point of the block| *)
Theorem C05_counts_every_change : forall c val n c',
  0 < n -> set_poa_power c val n = MOk c' ->
  exists v, vals (stk c) !! val = Some v /\
    abs_changed (poa c') =
      wrap_u64 (abs_changed (poa c) +
                Z.abs (tokens_to_power n - (if status_eqb (v_status v) Bonded && negb (v_jailed v) then v_power v else 0))).
Proof.
  intros c val n c' Hn H. destruct (set_poa_power_assign _ _ _ _ Hn H) as (v & Hv & _ & _ & _ & _ & _ & _ & _ & _ & _ & _ & _ & _ & Ha).
  exists v. split; assumption.
Qed.

(* the sum starts from zero in every block and the reference total is refreshed *)
Theorem C05_reset : forall c,
  1 < height c -> abs_changed (poa (poa_begin_block c)) = 0 /\ cached_power (poa (poa_begin_block c)) = last_total (stk c)
                  /\ pending (poa (poa_begin_block c)) = pending (poa c).
Proof. exact poa_begin_block_reset. Qed.

(* only the unsafe flag skips the test *)
Theorem C05_unsafe_bypass : forall c val power c1 c2,
  setpower_validate (0 <=? val) power = Ok tt ->
  match find_pending val (pending (poa c)) with Some p => accept_new_validator c p | None => ensure_active c val end = MOk c1 ->
  set_poa_power c1 val (cast_i64 power) = MOk c2 ->
  msg_set_power c admin_id val power true = update_bonded_pool c2.
Proof. exact msg_set_power_unsafe_bypass. Qed.

(* what the cached total is: in every reachable running state x/staking's LastTotalPower equals the sum of the last
   validator powers (the voting power of the set CometBFT holds, C02) *)
Theorem C05_last_total_is_the_sum_of_the_last_powers : forall g bs,
  wf_genesis g ->
  let w := run_world (init_world g) bs in
  w_halted w = None -> last_total (stk (w_chain w)) = tsum (last_pow (stk (w_chain w))).
Proof. exact reachable_TL. Qed.

(* ... and throughout every block above height 1, whatever transactions have run so far, the total PoA tests against is
   that sum as the previous block left it: the total voting power the validator set had at the end of the previous block *)
Theorem C05_limit_base_is_previous_block_total : forall g bs b c1 txs,
  wf_genesis g ->
  let w := run_world (init_world g) bs in
  w_halted w = None -> 0 < height (w_chain w) ->
  begin_block (with_clock (w_chain w) (height (w_chain w) + 1) (now (w_chain w) + b_dt b))
              (match c_prev (w_comet w) with Some vs => sorted_votes vs | None => [] end) (b_absent b) (b_evidence b) = inl c1 ->
  cached_power (poa (fst (deliver_txs c1 txs))) = tsum (last_pow (stk (w_chain w))) /\
  last_pow (stk (fst (deliver_txs c1 txs))) = last_pow (stk (w_chain w)).
Proof. exact cached_total_is_previous_set_total. Qed.

(* ... and that sum is the total voting power of the validator set CometBFT holds (the set the previous block's updates
   produced): the base of the 30 % test is the true total of the previous block's validator set *)
Theorem C05_last_total_is_the_total_power_of_comets_set : forall g bs,
  wf_genesis g ->
  let w := run_world (init_world g) bs in
  w_halted w = None -> last_total (stk (w_chain w)) = tsum (c_next (w_comet w)).
Proof. exact reachable_comet_total. Qed.

Theorem C05_limit_base_is_the_total_power_of_comets_set : forall g bs b c1 txs,
  wf_genesis g ->
  let w := run_world (init_world g) bs in
  w_halted w = None -> 0 < height (w_chain w) ->
  begin_block (with_clock (w_chain w) (height (w_chain w) + 1) (now (w_chain w) + b_dt b))
              (match c_prev (w_comet w) with Some vs => sorted_votes vs | None => [] end) (b_absent b) (b_evidence b) = inl c1 ->
  cached_power (poa (fst (deliver_txs c1 txs))) = tsum (c_next (w_comet w)).
Proof.
  intros g bs b c1 txs Hg w Hh Hht Eb. destruct (cached_total_is_previous_set_total g bs b c1 txs Hg Hh Hht Eb) as [H _].
  rewrite H. transitivity (last_total (stk (w_chain w))); [symmetry; exact (reachable_TL g bs Hg Hh)|exact (reachable_comet_total g bs Hg Hh)].
Qed.
