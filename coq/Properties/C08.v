(* C08 — delegator-reward withdrawal is disabled after genesis at every nesting depth. *)
Require Import Model.Base Model.Ante Model.Current proofs.AnteProofs.

Theorem C08_genesis_pass : forall h msgs, h <= 1 -> cur_wd_decorator h msgs = None.
Proof. exact (wd_genesis_pass cur_unwraps). Qed.

Theorem C08_contains_rejected : forall h msgs,
  h > 1 -> tx_contains is_withdraw msgs = true -> cur_wd_decorator h msgs <> None.
Proof. exact wd_contains_rejected. Qed.

Theorem C08_reject_iff_contains : forall h msgs,
  h > 1 -> tx_well_packed msgs = true ->
  cur_wd_decorator h msgs = if tx_contains is_withdraw msgs then Some EPoaWithdrawNotAllowed else None.
Proof. exact wd_exact. Qed.

Theorem C08_no_false_reject : forall h msgs,
  tx_contains is_withdraw msgs = false -> tx_well_packed msgs = true -> cur_wd_decorator h msgs = None.
Proof. exact wd_no_false_reject. Qed.

Example C08_deep_witness :
  let t := [Leaf LOther;
            Wrap WGovSubmit true [Wrap WGroupSubmit true [Leaf LOther; Wrap WAuthzExec true [Leaf LOther; Leaf LWithdrawReward]]]] in
  tx_well_packed t = true /\ tx_contains is_withdraw t = true /\
  cur_wd_decorator 2 t = Some EPoaWithdrawNotAllowed /\ cur_wd_decorator 1 t = None.
Proof. vm_compute. repeat split. Qed.
