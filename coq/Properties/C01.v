(* C01 — only the PoA admin (or a validator removing itself) changes the validator set. *)
From stdpp Require Import gmap.
Require Import Model.Base Model.State Model.Staking Model.Slashing Model.Poa Model.App proofs.L1Basic.

Theorem C01_gate_set_power : forall c sender val power unsafe,
  sender <> admin_id -> msg_set_power c sender val power unsafe = MErr EPoaNotAnAuthority.
Proof. exact set_power_gate. Qed.

Theorem C01_gate_remove_pending : forall c sender val,
  sender <> admin_id -> msg_remove_pending c sender val = MErr EPoaNotAnAuthority.
Proof. exact remove_pending_gate. Qed.

Theorem C01_gate_update_params : forall c sender p,
  sender <> admin_id -> msg_update_params c sender p = MErr EPoaNotAnAuthority.
Proof. exact update_params_gate. Qed.

Theorem C01_gate_remove_validator : forall c sender val,
  sender <> admin_id -> sender <> val ->
  msg_remove_validator c sender val = MErr (if val <? 0 then ESdkInvalidAddress else EPoaNotAnAuthority).
Proof. exact remove_validator_gate. Qed.

(* the single exception: the operator of a bonded validator removing its own validator *)
Theorem C01_self_exception : forall c val c',
  msg_remove_validator c val val = MOk c' ->
  exists v, vals (stk c) !! val = Some v /\ v_status v = Bonded /\ other_signers c val <> 0.
Proof. exact self_removal_needs_bonded. Qed.

(* through the transaction wrapper: a gated message from anybody else fails and powers, pending list,
   staking parameters, pools and supply are exactly what they were (only the signer's sequence moves) *)
Theorem C01_non_admin_tx_no_effect : forall c m c' o,
  gated m = true -> msg_sender m <> admin_id -> self_removal m = false ->
  deliver_tx c [m] = (c', o) ->
  (exists e, o = TErr e) /\ stk c' = stk c /\ sl c' = sl c /\ bk c' = bk c /\ poa c' = poa c.
Proof. exact non_admin_tx_no_effect. Qed.

(* the address the authority query reports is the one the gates use *)
Theorem C01_authority_query : forall sender, is_admin sender = true <-> sender = query_authority.
Proof. intros s. unfold is_admin, query_authority. apply Z.eqb_eq. Qed.
