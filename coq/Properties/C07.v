(* C07 — staking is disabled after genesis for everyone, at every nesting depth.
   Statements only; proofs live in proofs/AnteProofs.v. [cur_stk_decorator] is what /repo implements
   now (Model/Current.v), compared with the running decorator on every check. *)
Require Import Model.Base Model.Ante Model.Current proofs.AnteProofs.

(* heights 0 and 1 (genesis transactions): everything passes *)
Theorem C07_genesis_pass : forall h msgs, h <= 1 -> cur_stk_decorator h msgs = None.
Proof. exact (stk_genesis_pass cur_unwraps). Qed.

(* above height 1 a forbidden x/staking message anywhere in the tree — any position, any depth, any
   fan-out, any mix of the application's message-carrying messages — is never let through *)
Theorem C07_contains_rejected : forall h msgs,
  h > 1 -> tx_contains is_blocked msgs = true -> cur_stk_decorator h msgs <> None.
Proof. exact stk_contains_rejected. Qed.

(* exact verdict for transactions whose carriers unpack (every decoded transaction):
   staking-not-allowed iff the tree contains a forbidden message *)
Theorem C07_reject_iff_contains : forall h msgs,
  h > 1 -> tx_well_packed msgs = true ->
  cur_stk_decorator h msgs = if tx_contains is_blocked msgs then Some EPoaStakingNotAllowed else None.
Proof. exact stk_exact. Qed.

(* transactions without such messages are never rejected by this rule *)
Theorem C07_no_false_reject : forall h msgs,
  tx_contains is_blocked msgs = false -> tx_well_packed msgs = true -> cur_stk_decorator h msgs = None.
Proof. exact stk_no_false_reject. Qed.

(* non-vacuity: a forbidden message, third of three, four carriers deep under all three carrier types *)
Example C07_deep_witness :
  let t := [Leaf LOther;
            Wrap WGroupSubmit true [Leaf LOther;
              Wrap WAuthzExec true [Wrap WGovSubmit true [Leaf (LEditValidator None);
                Wrap WGroupSubmit true [Leaf LOther; Leaf LOther; Leaf (LStaking SDelegate)]]]]] in
  tx_well_packed t = true /\ tx_contains is_blocked t = true /\
  cur_stk_decorator 2 t = Some EPoaStakingNotAllowed /\ cur_stk_decorator 1 t = None.
Proof. vm_compute. repeat split. Qed.
