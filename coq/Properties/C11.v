(* C11 — pool accounting and bond-denom supply follow the admin's power assignments. *)
From stdpp Require Import gmap.
Require Import Model.Base Model.State Model.Staking Model.Slashing Model.Poa Model.App proofs.L1Effects proofs.InvHistory proofs.InvPools proofs.InvSupply.

(* every PoA message ends with this reconciliation: afterwards the bonded pool holds exactly the tokens of the
   bonded validators, the not-bonded pool is untouched, and the supply moved by exactly what the pool moved
   (minted on an increase or admission, burnt on a decrease) — no other account is credited or debited *)
Theorem C11_pool_reconciled : forall c c',
  update_bonded_pool c = MOk c' ->
  stk c' = stk c /\ sl c' = sl c /\ poa c' = poa c /\ seqs c' = seqs c /\ height c' = height c /\ now c' = now c /\
  bonded_pool (bk c') = bonded_tokens (stk c) /\
  notbonded_pool (bk c') = notbonded_pool (bk c) /\
  supply (bk c') - supply (bk c) = bonded_pool (bk c') - bonded_pool (bk c).
Proof. exact update_bonded_pool_spec. Qed.

(* after every block of every history — admissions, re-powerings, removals, downtime slashes, jailings, unjailings,
   validators leaving and re-entering the set, unbonding periods maturing, in any order — the bonded pool holds
   exactly the tokens of the validators in the Bonded status, and the not-bonded pool covers the tokens of all
   the others (it may hold more: nothing PoA does ever takes from it) *)
Theorem C11_pools_match_validators_in_every_reachable_state : forall g bs,
  wf_genesis g ->
  let c := w_chain (run_world (init_world g) bs) in
  bonded_pool (bk c) = bonded_tokens (stk c) /\ other_tokens (stk c) <= notbonded_pool (bk c).
Proof. intros g bs Hg c. destruct (reachable_all g bs Hg) as (_ & _ & H). exact H. Qed.

(* so the transfer between the pools that ends x/staking's validator-set update always finds its funds *)
Theorem C11_pool_transfer_never_short : forall g bs,
  wf_genesis g -> apply_valset_updates (w_chain (run_world (init_world g) bs)) <> EBHalt 4.
Proof. intros g bs Hg. destruct (reachable_all g bs Hg) as (HC & _ & HB). apply apply_valset_updates_funds; assumption. Qed.

(* nobody else is credited or debited, ever: after any history the bond-denom supply is what the accounts held at genesis plus
   the two staking pools — every mint and burn of a PoA operation, every downtime and double-sign slash and every transfer of
   x/staking's EndBlocker lands in a pool and nowhere else (the model has no x/mint: the test chain's inflation is zero) *)
Theorem C11_supply_is_accounts_plus_pools : forall g bs,
  let c := w_chain (run_world (init_world g) bs) in
  supply (bk c) = genesis_outside g + bonded_pool (bk c) + notbonded_pool (bk c).
Proof. exact history_outside. Qed.

(* ... so, with the bonded pool equal to the bonded validators' tokens: the supply follows the admin's assignments and the slashing burns *)
Theorem C11_supply_follows_the_validators : forall g bs,
  wf_genesis g ->
  let c := w_chain (run_world (init_world g) bs) in
  supply (bk c) = genesis_outside g + bonded_tokens (stk c) + notbonded_pool (bk c).
Proof. exact history_supply. Qed.
