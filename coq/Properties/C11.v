(* C11 — pool accounting and bond-denom supply follow the admin's power assignments. *)
From stdpp Require Import gmap.
Require Import Model.Base Model.State Model.Staking Model.Slashing Model.Poa proofs.L1Effects.

(* every PoA message ends with this reconciliation: afterwards the bonded pool holds exactly the tokens of the
   bonded validators, the not-bonded pool is untouched, and the supply moved by exactly what the pool moved
   (minted on an increase or admission, burnt on a decrease) — no other account is credited or debited *)
Theorem C11_pool_reconciled : forall c c',
  update_bonded_pool c = MOk c' ->
  stk c' = stk c /\ sl c' = sl c /\ poa c' = poa c /\ seqs c' = seqs c /\ height c' = height c /\ now c' = now c /\
  bonded_pool (bk c') = bonded_tokens (stk c) /\
  notbonded_pool (bk c') = notbonded_pool (bk c) /\
  supply (bk c') - supply (bk c) = bonded_pool (bk c') - bonded_pool (bk c).
Proof. exact update_bonded_pool_spec. Qed.
