(* C12 — deterministic, restart-stable state transitions.
   The model's world is exactly what is persisted (application stores + CometBFT's sets); a run is a
   function of it. Stopping after any commit and continuing from the persisted world changes nothing. *)
From stdpp Require Import gmap.
Require Import Model.Base Model.State Model.App proofs.L1More.

Theorem C12_cut_at_any_commit : forall w bs1 bs2, run_world w (bs1 ++ bs2) = run_world (run_world w bs1) bs2.
Proof. exact run_world_app. Qed.

Theorem C12_outputs_cut_at_any_commit : forall w bs1 bs2,
  w_halted (run_world w bs1) = None ->
  run_blocks w (bs1 ++ bs2) = run_blocks w bs1 ++ run_blocks (run_world w bs1) bs2.
Proof. exact run_blocks_app. Qed.
