(* C13 — slashing/jailing and admin operations compose safely. *)
From stdpp Require Import gmap.
Require Import Model.Base Model.Validate Model.State Model.Staking Model.Slashing Model.Poa Model.App.
Require Import proofs.L1More proofs.Inv proofs.InvIdx proofs.InvPres proofs.InvMsgs proofs.InvHistory.

(* admin operations aimed at a jailed validator fail cleanly (the transaction wrapper then restores the state) *)
Theorem C13_set_power_on_jailed_fails : forall c val power unsafe v,
  find_pending val (pending (poa c)) = None -> vals (stk c) !! val = Some v -> v_jailed v = true ->
  setpower_validate (0 <=? val) power = Ok tt ->
  msg_set_power c admin_id val power unsafe = MErr EStkValidatorJailed.
Proof. exact set_power_on_jailed. Qed.

(* ... and so do operations on an unbonding or unbonded (removed-and-waiting, displaced) validator *)
Theorem C13_set_power_on_non_bonded_fails : forall c val power unsafe v,
  find_pending val (pending (poa c)) = None -> vals (stk c) !! val = Some v -> v_jailed v = false -> v_status v <> Bonded ->
  setpower_validate (0 <=? val) power = Ok tt ->
  msg_set_power c admin_id val power unsafe = MErr ESdkInvalidRequest.
Proof. exact set_power_on_non_bonded. Qed.

Theorem C13_remove_non_bonded_fails : forall c sender val v,
  vals (stk c) !! val = Some v -> v_status v <> Bonded -> exists e, msg_remove_validator c sender val = MErr e.
Proof. exact remove_non_bonded. Qed.

(* in every reachable state a jailed validator owns no power-index entry: whatever the admin did meanwhile,
   x/staking's EndBlocker cannot bring it back into the set before it is unjailed *)
Theorem C13_jailed_owns_no_index_entry : forall g bs id v p,
  wf_genesis g ->
  let s := stk (w_chain (run_world (init_world g) bs)) in
  vals s !! id = Some v -> v_jailed v = true -> ~ In (p, id) (pidx s).
Proof.
  intros g bs id v p Hg s Hv Hj. destruct (reachable_CI g bs Hg) as [HS _]. eapply jailed_owns_nothing; eauto. apply HS.
Qed.
