(* C13 — slashing/jailing and admin operations compose safely. *)
From stdpp Require Import gmap.
Require Import Model.Base Model.Validate Model.State Model.Staking Model.Slashing Model.Poa Model.App.
Require Import proofs.L1More proofs.Inv proofs.InvIdx proofs.InvPres proofs.InvMsgs proofs.InvHistory proofs.InvQueue proofs.InvPools proofs.InvComet proofs.InvElig.

(* admin operations aimed at a jailed validator fail cleanly (the transaction wrapper then restores the state) *)
Theorem C13_set_power_on_jailed_fails : forall c val power unsafe v,
  find_pending val (pending (poa c)) = None -> vals (stk c) !! val = Some v -> v_jailed v = true ->
  setpower_validate (0 <=? val) power = Ok tt ->
  msg_set_power c admin_id val power unsafe = MErr EStkValidatorJailed.
Proof. exact set_power_on_jailed. Qed.

(* ... and so do operations on an unbonding or unbonded (removed-and-waiting, displaced) validator *)
Theorem C13_set_power_on_non_bonded_fails : forall c val power unsafe v,
  find_pending val (pending (poa c)) = None -> vals (stk c) !! val = Some v -> v_jailed v = false -> v_status v <> Bonded ->
  setpower_validate (0 <=? val) power = Ok tt ->
  msg_set_power c admin_id val power unsafe = MErr ESdkInvalidRequest.
Proof. exact set_power_on_non_bonded. Qed.

Theorem C13_remove_non_bonded_fails : forall c sender val v,
  vals (stk c) !! val = Some v -> v_status v <> Bonded -> exists e, msg_remove_validator c sender val = MErr e.
Proof. exact remove_non_bonded. Qed.

(* in every reachable state a jailed validator owns no power-index entry: whatever the admin did meanwhile,
   x/staking's EndBlocker cannot bring it back into the set before it is unjailed *)
Theorem C13_jailed_owns_no_index_entry : forall g bs id v p,
  wf_genesis g ->
  let s := stk (w_chain (run_world (init_world g) bs)) in
  vals s !! id = Some v -> v_jailed v = true -> ~ In (p, id) (pidx s).
Proof.
  intros g bs id v p Hg s Hv Hj. destruct (reachable_CI g bs Hg) as [HS _]. eapply jailed_owns_nothing; eauto. apply HS.
Qed.

(* slashing, jailing, removal and re-admission in any order never leave the unbonding queue and the records out
   of step: a removed or jailed validator that waits in the queue is unbonding under exactly the key it is filed
   under, so its maturity (or its return to the set) finds what it expects *)
Theorem C13_queue_and_records_agree : forall g bs t h ids id,
  wf_genesis g ->
  let s := stk (w_chain (run_world (init_world g) bs)) in
  ubq s !! (t, h) = Some ids -> In id ids ->
  exists v, vals s !! id = Some v /\ v_status v = Unbonding /\ v_ubtime v = t /\ v_ubheight v = h.
Proof. intros g bs t h ids id Hg s. apply (qi_sound _ (reachable_QI g bs Hg)). Qed.

(* a downtime slash that follows any sequence of admin operations finds the tokens it burns: in every reachable
   state Slash can fail only on a validator that is already Unbonded (which the slashing module never targets:
   it skips jailed validators, and a validator is Unbonded only after having left the set for a whole unbonding period) *)
Theorem C13_slash_never_short_of_funds : forall g bs k p f,
  wf_genesis g -> 0 <= f ->
  let c := w_chain (run_world (init_world g) bs) in
  slash c k p f = None -> exists id v, by_cons (stk c) !! k = Some id /\ vals (stk c) !! id = Some v /\ v_status v = Unbonded.
Proof. exact reachable_slash_funds. Qed.

(* the power index holds an entry for every validator that is not jailed and has a positive power — so a validator
   unjailed, re-powered or re-admitted after any sequence of slashes and admin operations is seen by the next
   EndBlocker — and (C13_jailed_owns_no_index_entry) none for a jailed one *)
Theorem C13_index_complete : forall g bs id v,
  let s := stk (w_chain (run_world (init_world g) bs)) in
  vals s !! id = Some v -> v_jailed v = false -> 0 < v_power v -> In (v_power v, id) (pidx s).
Proof.
  intros g bs id v s Hv Hj Hp. apply (reachable_IC g bs id v I Hv). unfold eligible. rewrite Hj. cbn. apply Z.ltb_lt. exact Hp.
Qed.

(* a jailed validator is in nobody's set: at the end of every block of every history — whatever the admin did to it
   or to anyone else meanwhile, whatever max_validators is — a validator whose record is jailed has no last power and
   its consensus key is absent from the set CometBFT holds; it can come back only by being unjailed *)
Theorem C13_jailed_is_out_of_the_set : forall g bs id v,
  wf_genesis g ->
  let w := run_world (init_world g) bs in
  w_halted w = None ->
  vals (stk (w_chain w)) !! id = Some v -> v_jailed v = true ->
  last_pow (stk (w_chain w)) !! id = None /\ c_next (w_comet w) !! v_cons v = None.
Proof.
  intros g bs id v Hg w Hh Hv Hj.
  assert (Hl : last_pow (stk (w_chain w)) !! id = None).
  { destruct (last_pow (stk (w_chain w)) !! id) as [q|] eqn:El; [|reflexivity]. exfalso.
    destruct (reachable_members_ok g bs Hg Hh id q El) as (v' & Hv' & Hj' & _). unfold w in Hv. congruence. }
  split; [exact Hl|].
  destruct (c_next (w_comet w) !! v_cons v) as [p|] eqn:Ek; [|reflexivity]. exfalso.
  apply (reachable_comet_rel g bs Hg Hh (v_cons v) p) in Ek as (id' & v' & Hv' & Hc & Hl').
  destruct (reachable_CI g bs Hg) as [HS _]. assert (id' = id) by (eapply (si_cons _ HS); eauto). subst id'. unfold w in Hl. congruence.
Qed.

(* and when it is back (or was never away) its power is the one implied by its tokens: admin-assigned amount less any slash *)
Theorem C13_member_power_is_token_power : forall g bs id q,
  wf_genesis g ->
  let w := run_world (init_world g) bs in
  w_halted w = None ->
  last_pow (stk (w_chain w)) !! id = Some q ->
  exists v, vals (stk (w_chain w)) !! id = Some v /\ v_jailed v = false /\ q = tokens_to_power (v_tokens v) /\ 0 < q.
Proof. intros g bs id q Hg w Hh Hl. exact (reachable_members_ok g bs Hg Hh id q Hl). Qed.
