(* C13 — slashing/jailing and admin operations compose safely. *)
From stdpp Require Import gmap.
Require Import Model.Base Model.Validate Model.State Model.Staking Model.Slashing Model.Poa Model.App.
Require Import proofs.EvBasic proofs.InvFrame proofs.InvEvidence proofs.InvTomb proofs.InvJailed proofs.InvMissed proofs.L1More proofs.Inv proofs.InvIdx proofs.InvPres proofs.InvMsgs proofs.InvHistory proofs.InvQueue proofs.InvPools proofs.InvComet proofs.InvElig.

(* admin operations aimed at a jailed validator fail cleanly (the transaction wrapper then restores the state) *)
Theorem C13_set_power_on_jailed_fails : forall c val power unsafe v,
  find_pending val (pending (poa c)) = None -> vals (stk c) !! val = Some v -> v_jailed v = true ->
  setpower_validate (0 <=? val) power = Ok tt ->
  msg_set_power c admin_id val power unsafe = MErr EStkValidatorJailed.
Proof. exact set_power_on_jailed. Qed.

(* ... and so do operations on an unbonding or unbonded (removed-and-waiting, displaced) validator *)
Theorem C13_set_power_on_non_bonded_fails : forall c val power unsafe v,
  find_pending val (pending (poa c)) = None -> vals (stk c) !! val = Some v -> v_jailed v = false -> v_status v <> Bonded ->
  setpower_validate (0 <=? val) power = Ok tt ->
  msg_set_power c admin_id val power unsafe = MErr ESdkInvalidRequest.
Proof. exact set_power_on_non_bonded. Qed.

Theorem C13_remove_non_bonded_fails : forall c sender val v,
  vals (stk c) !! val = Some v -> v_status v <> Bonded -> exists e, msg_remove_validator c sender val = MErr e.
Proof. exact remove_non_bonded. Qed.

(* in every reachable state a jailed validator owns no power-index entry: whatever the admin did meanwhile,
   x/staking's EndBlocker cannot bring it back into the set before it is unjailed *)
Theorem C13_jailed_owns_no_index_entry : forall g bs id v p,
  wf_genesis g ->
  let s := stk (w_chain (run_world (init_world g) bs)) in
  vals s !! id = Some v -> v_jailed v = true -> ~ In (p, id) (pidx s).
Proof.
  intros g bs id v p Hg s Hv Hj. destruct (reachable_CI g bs Hg) as [HS _]. eapply jailed_owns_nothing; eauto. apply HS.
Qed.

(* slashing, jailing, removal and re-admission in any order never leave the unbonding queue and the records out
   of step: a removed or jailed validator that waits in the queue is unbonding under exactly the key it is filed
   under, so its maturity (or its return to the set) finds what it expects *)
Theorem C13_queue_and_records_agree : forall g bs t h ids id,
  wf_genesis g ->
  let s := stk (w_chain (run_world (init_world g) bs)) in
  ubq s !! (t, h) = Some ids -> In id ids ->
  exists v, vals s !! id = Some v /\ v_status v = Unbonding /\ v_ubtime v = t /\ v_ubheight v = h.
Proof. intros g bs t h ids id Hg s. apply (qi_sound _ (reachable_QI g bs Hg)). Qed.

(* a downtime slash that follows any sequence of admin operations finds the tokens it burns: in every reachable
   state Slash can fail only on a validator that is already Unbonded (which the slashing module never targets:
   it skips jailed validators, and a validator is Unbonded only after having left the set for a whole unbonding period) *)
Theorem C13_slash_never_short_of_funds : forall g bs k p f,
  wf_genesis g -> 0 <= f ->
  let c := w_chain (run_world (init_world g) bs) in
  slash c k p f = None -> exists id v, by_cons (stk c) !! k = Some id /\ vals (stk c) !! id = Some v /\ v_status v = Unbonded.
Proof. exact reachable_slash_funds. Qed.

(* the power index holds an entry for every validator that is not jailed and has a positive power — so a validator
   unjailed, re-powered or re-admitted after any sequence of slashes and admin operations is seen by the next
   EndBlocker — and (C13_jailed_owns_no_index_entry) none for a jailed one *)
Theorem C13_index_complete : forall g bs id v,
  let s := stk (w_chain (run_world (init_world g) bs)) in
  vals s !! id = Some v -> v_jailed v = false -> 0 < v_power v -> In (v_power v, id) (pidx s).
Proof.
  intros g bs id v s Hv Hj Hp. apply (reachable_IC g bs id v I Hv). unfold eligible. rewrite Hj. cbn. apply Z.ltb_lt. exact Hp.
Qed.

(* a jailed validator is in nobody's set: at the end of every block of every history — whatever the admin did to it
   or to anyone else meanwhile, whatever max_validators is — a validator whose record is jailed has no last power and
   its consensus key is absent from the set CometBFT holds; it can come back only by being unjailed *)
Theorem C13_jailed_is_out_of_the_set : forall g bs id v,
  wf_genesis g ->
  let w := run_world (init_world g) bs in
  w_halted w = None ->
  vals (stk (w_chain w)) !! id = Some v -> v_jailed v = true ->
  last_pow (stk (w_chain w)) !! id = None /\ c_next (w_comet w) !! v_cons v = None.
Proof.
  intros g bs id v Hg w Hh Hv Hj.
  assert (Hl : last_pow (stk (w_chain w)) !! id = None).
  { destruct (last_pow (stk (w_chain w)) !! id) as [q|] eqn:El; [|reflexivity]. exfalso.
    destruct (reachable_members_ok g bs Hg Hh id q El) as (v' & Hv' & Hj' & _). unfold w in Hv. congruence. }
  split; [exact Hl|].
  destruct (c_next (w_comet w) !! v_cons v) as [p|] eqn:Ek; [|reflexivity]. exfalso.
  apply (reachable_comet_rel g bs Hg Hh (v_cons v) p) in Ek as (id' & v' & Hv' & Hc & Hl').
  destruct (reachable_CI g bs Hg) as [HS _]. assert (id' = id) by (eapply (si_cons _ HS); eauto). subst id'. unfold w in Hl. congruence.
Qed.

(* and when it is back (or was never away) its power is the one implied by its tokens: admin-assigned amount less any slash *)
Theorem C13_member_power_is_token_power : forall g bs id q,
  wf_genesis g ->
  let w := run_world (init_world g) bs in
  w_halted w = None ->
  last_pow (stk (w_chain w)) !! id = Some q ->
  exists v, vals (stk (w_chain w)) !! id = Some v /\ v_jailed v = false /\ q = tokens_to_power (v_tokens v) /\ 0 < q.
Proof. intros g bs id q Hg w Hh Hl. exact (reachable_members_ok g bs Hg Hh id q Hl). Qed.

(* double-sign slashing (x/evidence, in the same BeginBlock as x/slashing's downtime accounting): an entry that is not ignored
   leaves the validator jailed and tombstoned, with its key and shares and no more tokens than it had, and touches no other
   validator's record and no other signing info *)
Theorem C13_double_sign_jails_and_tombstones : forall c e c', handle_evidence c e = Some c' ->
  c' = c \/
  exists id v i v',
    by_cons (stk c) !! ev_cons e = Some id /\ vals (stk c) !! id = Some v /\ status_eqb (v_status v) Unbonded = false /\
    infos (sl c) !! ev_cons e = Some i /\ si_tomb i = false /\
    vals (stk c') !! id = Some v' /\ v_jailed v' = true /\ v_cons v' = v_cons v /\ v_tokens v' <= v_tokens v /\ v_shares v' = v_shares v /\
    infos (sl c') !! ev_cons e = Some (tombstoned i) /\
    (forall w, w <> id -> vals (stk c') !! w = vals (stk c) !! w) /\
    (forall k, k <> ev_cons e -> infos (sl c') !! k = infos (sl c) !! k).
Proof. exact evidence_effect. Qed.

(* ... it is ignored (nothing changes) for an Unbonded validator, for an entry outside both limits of the evidence window, and
   for a validator that is tombstoned already *)
Theorem C13_double_sign_ignored_when : forall c e id v,
  by_cons (stk c) !! ev_cons e = Some id -> vals (stk c) !! id = Some v ->
  (status_eqb (v_status v) Unbonded = true \/
   (ev_max_age_secs < now c - ev_time e /\ ev_max_age_blocks < height c - ev_height e) \/
   (exists i, infos (sl c) !! ev_cons e = Some i /\ si_tomb i = true)) ->
  handle_evidence c e = Some c.
Proof. exact evidence_ignored_when. Qed.

(* ... and afterwards neither its operator nor the admin brings it back: Unjail is refused while the signing info is tombstoned,
   SetPower while the record is jailed *)
Theorem C13_tombstoned_cannot_unjail : forall c val v i,
  vals (stk c) !! val = Some v -> infos (sl c) !! v_cons v = Some i -> si_tomb i = true -> exists err, msg_unjail c val = MErr err.
Proof. exact tombstoned_cannot_unjail. Qed.

Theorem C13_jailed_cannot_be_powered : forall c val power unsafe v,
  find_pending val (pending (poa c)) = None -> vals (stk c) !! val = Some v -> v_jailed v = true ->
  exists err, msg_set_power c admin_id val power unsafe = MErr err.
Proof. exact jailed_cannot_be_powered. Qed.

(* a validator loses power or leaves the set only through downtime or double-sign slashing, an admin SetPower / RemoveValidator,
   its own removal (or its Unjail, which can only raise it), or the max-validators cut-off: through any blocks that carry none
   of these messages naming it, with the cap not binding, it keeps the voting power it had, unless slashing jailed it on the way *)
Theorem C13_power_is_lost_only_through_the_listed_causes : forall g bs bs2 id,
  wf_genesis g -> Forall (fun b => spares_txs id (b_txs b)) bs2 ->
  let w := run_world (init_world g) bs in
  let w2 := run_world w bs2 in
  w_halted w = None -> w_halted w2 = None ->
  n_pos (pidx (stk (w_chain w))) <= sp_max_validators (params (stk (w_chain w))) ->
  n_pos (pidx (stk (w_chain w2))) <= sp_max_validators (params (stk (w_chain w2))) ->
  last_pow (stk (w_chain w2)) !! id = last_pow (stk (w_chain w)) !! id \/
  (downed (stk (w_chain w)) (stk (w_chain w2)) id /\ last_pow (stk (w_chain w2)) !! id = None).
Proof. exact spared_validator_keeps_its_power. Qed.

(* what "jailed on the way" leaves behind *)
Theorem C13_downed_meaning : forall s s' id, downed s s' id ->
  dels s' !! id = dels s !! id /\
  exists v, vals s !! id = Some v /\
    match vals s' !! id with
    | Some v' => v_jailed v' = true /\ v_cons v' = v_cons v /\ v_tokens v' <= v_tokens v /\ v_shares v' = v_shares v
    | None => True
    end.
Proof. intros s s' id H. exact H. Qed.

(* ... for good: from any reachable state in which a validator is jailed and tombstoned, through any number of blocks that
   carry no SetPower and no RemoveValidator naming it — its own Unjail attempts, further evidence, votes counted as missed,
   anything aimed at the others are all allowed — it is still jailed and tombstoned at the end, or its record is gone (the end
   of its unbonding period, if it holds no tokens and shares) and stays gone: a double signer stays out whatever anybody
   but the admin does *)
Theorem C13_tombstoned_stays_out : forall g bs bs2 id k,
  wf_genesis g -> Forall (fun b => hspares_txs id (b_txs b)) bs2 ->
  let w := run_world (init_world g) bs in
  TJ (w_chain w) id k -> TJG (w_chain (run_world w bs2)) id k.
Proof. exact tombstoned_stays_out. Qed.

(* a jailed validator stays jailed until it is unjailed, whatever the admin does to it meanwhile: from any reachable state,
   through any number of blocks that carry no Unjail naming it — SetPower and RemoveValidator aimed at it included (the first is
   refused, the second leaves the flag) — its record is jailed at the end of every block, up to the block (if any) whose
   EndBlocker deletes the record *)
Theorem C13_jailed_until_unjailed_whatever_the_admin_does : forall g bs bs2 id,
  wf_genesis g -> Forall (fun b => no_unjail_txs id (b_txs b)) bs2 ->
  let w := run_world (init_world g) bs in
  jailed_at (stk (w_chain w)) id -> stays_jailed w bs2 id.
Proof. exact jailed_until_unjailed. Qed.

Theorem C13_tombstoned_meaning : forall c id k,
  TJ c id k <->
  (exists v, vals (stk c) !! id = Some v /\ v_cons v = k /\ v_jailed v = true) /\ (exists i, infos (sl c) !! k = Some i /\ si_tomb i = true).
Proof. intros c id k. reflexivity. Qed.

(* x/slashing's liveness accounting stays consistent whatever the admin does: in every reachable state, for every consensus key,
   the missed-block counter of its signing info is the number of misses recorded in its bitmap (none twice), and a key without a
   signing info has none recorded — so downtime is judged by the parameters, also for a validator that was removed, missed its
   last votes, applied again and was re-admitted (R13; the code before it reset the counter and kept the bits) *)
Theorem C13_missed_counter_is_the_number_of_recorded_misses : forall g bs k,
  let l := sl (w_chain (run_world (init_world g) bs)) in
  List.NoDup (bits l k) /\
  match infos l !! k with Some i => si_missed i = Z.of_nat (length (bits l k)) | None => bits l k = [] end.
Proof. intros g bs k. exact (reachable_MI g bs k). Qed.

Theorem C13_legacy_admission_broke_the_accounting_refuted :
  exists (l : slashing) (k : Z) (i : signing), MI l /\ si_missed i = 0 /\ ~ MI (set_info l k i).
Proof. exact legacy_admission_breaks_the_accounting. Qed.
