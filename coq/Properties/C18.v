(* C18 — queries report exactly the committed PoA state. Queries are functions of the state with no
   state in their result type: "never modify state" is a typing fact of the model (tied to the code by
   the unqueried-node comparison of the harness). *)
From stdpp Require Import gmap.
Require Import Model.Base Model.State Model.Staking Model.Slashing Model.Poa proofs.L1More.

Theorem C18_power_query_existing : forall c val v,
  0 <= val -> vals (stk c) !! val = Some v -> query_power c val = Some (default 0 (last_pow (stk c) !! val)).
Proof. exact query_power_known. Qed.

Theorem C18_power_query_unknown : forall c val, vals (stk c) !! val = None -> query_power c val = None.
Proof. exact query_power_unknown. Qed.

Theorem C18_power_query_malformed : forall c val, val < 0 -> query_power c val = None.
Proof. exact query_power_malformed. Qed.

Theorem C18_pending_query : forall c, query_pending c = pending (poa c).
Proof. reflexivity. Qed.

Theorem C18_authority_query : query_authority = admin_id.
Proof. reflexivity. Qed.
