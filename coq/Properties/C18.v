(* C18 — queries report exactly the committed PoA state. Queries are functions of the state with no
   state in their result type: "never modify state" is a typing fact of the model (tied to the code by
   the unqueried-node comparison of the harness). *)
From stdpp Require Import gmap.
Require Import Model.Base Model.State Model.Staking Model.Slashing Model.Poa Model.App proofs.L1More proofs.InvHistory proofs.InvComet proofs.InvElig proofs.InvAbsent.

Theorem C18_power_query_existing : forall c val v,
  0 <= val -> vals (stk c) !! val = Some v -> query_power c val = Some (default 0 (last_pow (stk c) !! val)).
Proof. exact query_power_known. Qed.

Theorem C18_power_query_unknown : forall c val, vals (stk c) !! val = None -> query_power c val = None.
Proof. exact query_power_unknown. Qed.

Theorem C18_power_query_malformed : forall c val, val < 0 -> query_power c val = None.
Proof. exact query_power_malformed. Qed.

Theorem C18_pending_query : forall c, query_pending c = pending (poa c).
Proof. reflexivity. Qed.

Theorem C18_authority_query : query_authority = admin_id.
Proof. reflexivity. Qed.

(* agreement with CometBFT: in every reachable, non-halted world the power query of an existing validator returns
   what CometBFT's next set holds for its consensus key (0 exactly when the key is absent from the set) *)
Theorem C18_power_query_is_comet_power : forall g bs val v,
  wf_genesis g ->
  let w := run_world (init_world g) bs in
  w_halted w = None -> 0 <= val -> vals (stk (w_chain w)) !! val = Some v ->
  query_power (w_chain w) val = Some (default 0 (c_next (w_comet w) !! v_cons v)).
Proof.
  intros g bs val v Hg w Hh Hval Hv. rewrite (query_power_known _ _ v Hval Hv). f_equal.
  pose proof (reachable_comet_rel g bs Hg Hh) as Hrel. fold w in Hrel.
  destruct (last_pow (stk (w_chain w)) !! val) as [p|] eqn:El.
  - assert (Hk : c_next (w_comet w) !! v_cons v = Some p) by (apply Hrel; exists val, v; auto). rewrite Hk. reflexivity.
  - destruct (c_next (w_comet w) !! v_cons v) as [q|] eqn:Ek; [|reflexivity]. exfalso.
    apply Hrel in Ek as (id & v' & Hv' & Hc & Hl).
    destruct (run_world_WI bs (init_world g) (init_world_WI g Hg)) as [[HS _] _]. fold w in HS.
    assert (id = val) by (eapply (InvPres.si_cons _ HS); eauto). subst id. congruence.
Qed.

(* ... and it is 0 for every validator the chain reports as jailed, unbonding or unbonded (removed, displaced, waiting): such a
   validator has no seat (C02_not_bonded_or_jailed_has_no_seat) *)
Theorem C18_power_query_zero_for_jailed_or_not_bonded : forall g bs val v,
  wf_genesis g ->
  let w := run_world (init_world g) bs in
  w_halted w = None -> 0 <= val -> vals (stk (w_chain w)) !! val = Some v -> (v_status v <> Bonded \/ v_jailed v = true) ->
  query_power (w_chain w) val = Some 0.
Proof.
  intros g bs val v Hg w Hh Hval Hv Hor. pose proof (C18_power_query_is_comet_power g bs val v Hg Hh Hval Hv) as H1.
  pose proof (not_bonded_or_jailed_has_no_seat g bs val v Hg Hh Hv Hor) as H2. cbv zeta in H1, H2. subst w. rewrite H1, H2. reflexivity.
Qed.
