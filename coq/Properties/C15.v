(* C15 — CreateValidator validates like x/staking and forces PoA's fixed fields. *)
From stdpp Require Import gmap.
Require Import Model.Base Model.Validate Model.State Model.Staking Model.Slashing Model.Poa proofs.ValidateProofs.

(* same verdict (acceptance, error, or crash on an absent decimal) as stakingtypes.MsgCreateValidator.Validate
   with any self-delegation value >= min-self-delegation >= 1 *)
Theorem C15_parity : forall c value msd,
  0 < msd -> msd <= value -> staking_create_validate c true value msd = poa_create_validate c.
Proof. exact create_validate_parity. Qed.

Theorem C15_commission_rules : forall r m c,
  commission_validate (Some r) (Some m) (Some c) = VOk <-> 0 <= r <= m /\ m <= dec_one /\ 0 <= c <= m.
Proof. exact commission_validate_ok. Qed.

Theorem C15_length_limits : forall d,
  ensure_length d = true <->
  dl_moniker d <= 70 /\ dl_identity d <= 3000 /\ dl_website d <= 140 /\ dl_security d <= 140 /\ dl_details d <= 280.
Proof. exact ensure_length_spec. Qed.
