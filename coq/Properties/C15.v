(* C15 — CreateValidator validates like x/staking and forces PoA's fixed fields. *)
From stdpp Require Import gmap.
Require Import Model.Base Model.Validate Model.State Model.Staking Model.Slashing Model.Poa Model.App proofs.ValidateProofs proofs.InvHistory proofs.InvPools proofs.InvAccept.

(* same verdict (acceptance, error, or crash on an absent decimal) as stakingtypes.MsgCreateValidator.Validate
   with any self-delegation value >= min-self-delegation >= 1 *)
Theorem C15_parity : forall c value msd,
  0 < msd -> msd <= value -> staking_create_validate c true value msd = poa_create_validate c.
Proof. exact create_validate_parity. Qed.

Theorem C15_commission_rules : forall r m c,
  commission_validate (Some r) (Some m) (Some c) = VOk <-> 0 <= r <= m /\ m <= dec_one /\ 0 <= c <= m.
Proof. exact commission_validate_ok. Qed.

Theorem C15_length_limits : forall d,
  ensure_length d = true <->
  dl_moniker d <= 70 /\ dl_identity d <= 3000 /\ dl_website d <= 140 /\ dl_security d <= 140 /\ dl_details d <= 280.
Proof. exact ensure_length_spec. Qed.

(* the handler as a whole, on any state whose bonded pool is reconciled (every reachable one, C11): an application is accepted
   exactly when the message validates like x/staking's, the rate is at least the chain minimum, and neither the operator
   nor the consensus key is used by a validator or by a pending application, and the description is within the limits *)
Theorem C15_accepts_exactly_when : forall c val cons mon r mx ch,
  bonded_pool (bk c) = bonded_tokens (stk c) ->
  (exists c', msg_create_validator c val cons mon r mx ch = MOk c') <->
  poa_create_validate (create_basic_of cons mon r mx ch) = VOk /\
  default 0 (sp_min_commission (params (stk c))) <= r /\
  vals (stk c) !! val = None /\ by_cons (stk c) !! cons = None /\
  (forall q, In q (pending (poa c)) -> p_oper q <> val /\ p_cons q <> cons) /\
  ensure_length (cb_desc (create_basic_of cons mon r mx ch)) = true.
Proof. exact create_accept_iff. Qed.

(* ... and acceptance appends exactly the submitted application and changes nothing else: no pool, no supply, no validator
   (a pending entry has no token or minimum-self-delegation field; admission gives it zero tokens and minimum 1) *)
Theorem C15_acceptance_only_appends : forall c val cons mon r mx ch c',
  bonded_pool (bk c) = bonded_tokens (stk c) ->
  msg_create_validator c val cons mon r mx ch = MOk c' ->
  c' = set_pending c (pending (poa c) ++ [application val cons mon r mx ch]).
Proof. exact create_accept_effect. Qed.

(* the hypothesis holds in every reachable state *)
Theorem C15_reconciled_in_every_reachable_state : forall g bs,
  wf_genesis g -> let c := w_chain (run_world (init_world g) bs) in bonded_pool (bk c) = bonded_tokens (stk c).
Proof. intros g bs Hg c. destruct (reachable_all g bs Hg) as (_ & _ & [H _]). exact H. Qed.
