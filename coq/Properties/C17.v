(* C17 — validator records survive conversion, storage and genesis round trips. *)
From stdpp Require Import gmap.
Require Import Model.Base Model.Convert Model.State Model.Staking Model.Poa Model.App proofs.ConvertProofs proofs.InvHistory proofs.InvPools proofs.InvTotal.

(* staking -> PoA -> staking: every field is preserved; only the commission's update time is reset
   (to the Unix epoch; it is not among the fields the property lists) *)
Theorem C17_roundtrip_staking_poa : forall v, to_staking (to_poa v) = with_sv_update_time v commission_epoch.
Proof. exact roundtrip_staking. Qed.

Theorem C17_roundtrip_poa_staking : forall p, to_poa (to_staking p) = with_pv_update_time p commission_zero_time.
Proof. exact roundtrip_poa. Qed.

(* pending lists (store / genesis export and import): same entries, same order *)
Theorem C17_list_order : forall l,
  map to_poa (map to_staking l) = map (fun p => with_pv_update_time p commission_zero_time) l.
Proof. exact roundtrip_list. Qed.

Example C17_all_fields_populated :
  let v := {| sv_operator := [1;2;3]; sv_pubkey := Some [9;9]; sv_jailed := true; sv_status := 2; sv_tokens := 12345678901234567890;
              sv_shares := 999999999999999999; sv_desc := {| d_moniker := [1]; d_identity := [2]; d_website := [3]; d_security := [4]; d_details := [5] |};
              sv_ubheight := 77; sv_ubtime := 88; sv_rate := 1; sv_maxrate := 2; sv_maxchg := 3; sv_commission_update_time := 1234;
              sv_msd := 5; sv_onhold := 6; sv_ubids := [7;8] |} in
  to_staking (to_poa v) = with_sv_update_time v 0 /\ to_staking (to_poa v) <> v.
Proof. split; [reflexivity|discriminate]. Qed.

(* InitGenesis (ordered after genutil, whose gentxs build the validator set): PoA caches the total power of the set the chain
   starts with — the sum of the last validator powers x/staking's first EndBlocker wrote — and starts with a zero running sum,
   so the per-block limit of the first blocks works from the imported chain's total power *)
Theorem C17_genesis_caches_the_total_power : forall g,
  wf_genesis g ->
  let c := w_chain (init_world g) in
  cached_power (poa c) = last_total (stk c) /\ last_total (stk c) = tsum (last_pow (stk c)) /\ abs_changed (poa c) = 0.
Proof.
  intros g Hg c. pose proof (init_world_not_halted g Hg) as Hh. pose proof (reachable_TL g [] Hg Hh) as HT. cbn in HT. fold c in HT.
  split; [|split; [exact HT|]]; subst c; unfold init_world; destruct (apply_valset_updates _); reflexivity.
Qed.
