(* C17 — validator records survive conversion, storage and genesis round trips. *)
Require Import Model.Base Model.Convert proofs.ConvertProofs.

(* staking -> PoA -> staking: every field is preserved; only the commission's update time is reset
   (to the Unix epoch; it is not among the fields the property lists) *)
Theorem C17_roundtrip_staking_poa : forall v, to_staking (to_poa v) = with_sv_update_time v commission_epoch.
Proof. exact roundtrip_staking. Qed.

Theorem C17_roundtrip_poa_staking : forall p, to_poa (to_staking p) = with_pv_update_time p commission_zero_time.
Proof. exact roundtrip_poa. Qed.

(* pending lists (store / genesis export and import): same entries, same order *)
Theorem C17_list_order : forall l,
  map to_poa (map to_staking l) = map (fun p => with_pv_update_time p commission_zero_time) l.
Proof. exact roundtrip_list. Qed.

Example C17_all_fields_populated :
  let v := {| sv_operator := [1;2;3]; sv_pubkey := Some [9;9]; sv_jailed := true; sv_status := 2; sv_tokens := 12345678901234567890;
              sv_shares := 999999999999999999; sv_desc := {| d_moniker := [1]; d_identity := [2]; d_website := [3]; d_security := [4]; d_details := [5] |};
              sv_ubheight := 77; sv_ubtime := 88; sv_rate := 1; sv_maxrate := 2; sv_maxchg := 3; sv_commission_update_time := 1234;
              sv_msd := 5; sv_onhold := 6; sv_ubids := [7;8] |} in
  to_staking (to_poa v) = with_sv_update_time v 0 /\ to_staking (to_poa v) <> v.
Proof. split; [reflexivity|discriminate]. Qed.
