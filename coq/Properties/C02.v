(* C02 — CometBFT's validator set always equals the chain's own bonded set and powers.
   (The invariant theorems are added by proofs/Inv.v; see the end of this file.) *)
From stdpp Require Import gmap.
Require Import Model.Base Model.Validate Model.State Model.Staking Model.Slashing Model.Poa Model.App.

(* non-vacuity / genesis: a three-validator genesis under a cap of two bonds the two strongest, and the set
   CometBFT starts from is exactly the chain's last validator powers keyed by consensus key *)
Example C02_genesis_witness :
  let g := {| g_tokens := [2000000; 33000000; 20000000]; g_max_vals := 2; g_unbond_secs := 30; g_window := 4;
              g_min_signed_pc := 50; g_jail_secs := 5; g_slash_down_bp := 100; g_slash_dbl_bp := 500 |} in
  let w := init_world g in
  w_halted w = None /\
  map_to_list (c_next (w_comet w)) ≡ₚ [(1, 33); (2, 20)] /\
  map_to_list (last_pow (stk (w_chain w))) ≡ₚ [(1, 33); (2, 20)] /\
  bonded_pool (bk (w_chain w)) = 53000000 /\ notbonded_pool (bk (w_chain w)) = 2000000.
Proof. vm_compute. repeat split; reflexivity. Qed.
