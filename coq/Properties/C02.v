(* C02 — CometBFT's validator set always equals the chain's own bonded set and powers. *)
From stdpp Require Import gmap.
Require Import Model.Base Model.Validate Model.State Model.Staking Model.Slashing Model.Poa Model.App.
Require Import proofs.Inv proofs.InvIdx proofs.InvPres proofs.InvMsgs proofs.InvHistory proofs.InvComet proofs.InvElig proofs.InvTop proofs.InvAbsent.

(* after every block of every history that has not halted — any number of blocks, any in-block order of CreateValidator,
   SetPower safe/unsafe, RemoveValidator, RemovePending, UpdateStakingParams, unjail, any downtime pattern, empty blocks,
   from every genesis validator set — the set obtained by applying each block's updates to the previous set is exactly
   the chain's last validator powers, keyed by the validators' consensus keys: what the PoA consensus-power query
   reports for a validator is what CometBFT holds for it, and validators without a last power (pending, removed, jailed,
   unbonding) are absent from CometBFT's set *)
Theorem C02_comet_set_is_last_powers : forall g bs,
  wf_genesis g ->
  let w := run_world (init_world g) bs in
  w_halted w = None ->
  forall k p, c_next (w_comet w) !! k = Some p <->
              exists id v, vals (stk (w_chain w)) !! id = Some v /\ v_cons v = k /\ last_pow (stk (w_chain w)) !! id = Some p.
Proof. exact reachable_comet_rel. Qed.

(* whatever max_validators is: every key in CometBFT's set belongs to a validator that is not jailed, at exactly the
   power of the tokens its record holds, and that power is positive — nobody pending, removed, jailed or without
   power is in the set, and no power in it is stale *)
Theorem C02_every_member_is_an_unjailed_validator_at_its_token_power : forall g bs,
  wf_genesis g ->
  let w := run_world (init_world g) bs in
  w_halted w = None ->
  forall k p, c_next (w_comet w) !! k = Some p ->
    exists id v, vals (stk (w_chain w)) !! id = Some v /\ v_cons v = k /\ v_jailed v = false /\ v_status v = Bonded /\
                 p = tokens_to_power (v_tokens v) /\ 0 < p.
Proof.
  intros g bs Hg w Hh k p Hk. apply (reachable_comet_rel g bs Hg Hh k p) in Hk as (id & v & Hv & Hc & Hl).
  destruct (reachable_members_ok g bs Hg Hh id p Hl) as (v' & Hv' & Hj & Hp & Hpos).
  assert (v' = v) by (unfold w in Hv; congruence). subst v'.
  destruct (reachable_CI g bs Hg) as [HS _]. destruct (si_last _ HS id p Hl) as (v2 & Hv2 & Hst). assert (v2 = v) by (unfold w in Hv; congruence). subst v2.
  exists id, v. repeat split; auto.
Qed.

(* ... and which validators those are: whenever max_validators does not bind (the number of validators that are not
   jailed and have a positive power — the positive entries of the power index — does not exceed it), CometBFT's set
   after any block of any history consists of exactly the validators that are not jailed and hold tokens worth a
   positive power, each at tokens / 10^6: nobody the admin did not put there, nobody missing, no stale power *)
Theorem C02_comet_set_is_the_eligible_validators : forall g bs,
  wf_genesis g ->
  let w := run_world (init_world g) bs in
  let s := stk (w_chain w) in
  w_halted w = None ->
  n_pos (pidx s) <= sp_max_validators (params s) ->
  forall k p, c_next (w_comet w) !! k = Some p <->
              exists id v, vals s !! id = Some v /\ v_cons v = k /\ v_jailed v = false /\ 0 < v_power v /\ p = v_power v.
Proof.
  intros g bs Hg w s Hh Hcap k p. pose proof (reachable_comet_rel g bs Hg Hh k p) as Hrel. pose proof (reachable_set g bs Hg Hh Hcap) as Hset.
  subst w s. cbv zeta in Hrel. rewrite Hrel. clear Hrel.
  split; intros (id & v & Hv & Hk & H); exists id, v; (split; [exact Hv|]); (split; [exact Hk|]).
  - specialize (Hset id). rewrite H, Hv in Hset. unfold eligible in Hset.
    destruct (v_jailed v); cbn in Hset; [discriminate|]. destruct (Z.ltb_spec 0 (v_power v)); inversion Hset; auto.
  - destruct H as (Hj & Hp & ->). rewrite (Hset id). rewrite Hv. unfold eligible. rewrite Hj. cbn.
    destruct (Z.ltb_spec 0 (v_power v)); [reflexivity|lia].
Qed.

(* the hypothesis counts what it should: positive index entries and eligible validators correspond one to one *)
Theorem C02_positive_entries_are_the_eligible_validators : forall g bs,
  wf_genesis g ->
  let s := stk (w_chain (run_world (init_world g) bs)) in
  List.NoDup (pidx s) /\
  forall p id, (In (p, id) (pidx s) /\ 0 < p) <-> (exists v, vals s !! id = Some v /\ eligible v = true /\ p = v_power v).
Proof.
  intros g bs Hg s. destruct (reachable_CI g bs Hg) as [HS _]. split.
  - apply (NoDup_map_inv snd). exact (si_unique _ HS).
  - apply pos_keys_are_eligible; [exact HS|apply reachable_IC].
Qed.

(* ... and whatever max_validators is: after any block applied to any reachable state, the last validator set (hence,
   by C02_comet_set_is_last_powers, CometBFT's next set) consists of exactly the first max_validators entries with a
   positive power of the power index the EndBlocker met, in its iteration order (power descending, operator ascending),
   each at that power; those entries are unjailed validators at their token power, and nobody left out is stronger *)
Theorem C02_set_is_the_strongest_max_validators : forall g bs b c2,
  wf_genesis g ->
  let w := run_world (init_world g) bs in
  w_halted w = None -> before_endblock w b = Some c2 -> w_halted (fst (run_block w b)) = None ->
  (forall id, last_pow (stk (w_chain (fst (run_block w b)))) !! id = top_power id (selected c2)) /\
  (forall p id, In (p, id) (selected c2) -> exists v, vals (stk c2) !! id = Some v /\ v_jailed v = false /\ p = v_power v /\ 0 < p) /\
  Z.of_nat (length (selected c2)) <= Z.max 0 (sp_max_validators (params (stk c2))) /\
  (forall p id q j, In (p, id) (selected c2) -> In (q, j) (pidx (stk c2)) -> 0 < q -> ~ In (q, j) (selected c2) -> q <= p).
Proof.
  intros g bs b c2 Hg w Hh Hb Hh'. pose proof (reachable_CI g bs Hg) as HCI. fold w in HCI.
  assert (HC2 : CI c2).
  { unfold before_endblock in Hb. destruct (begin_block _ _ _) as [c1|] eqn:Eb; [|discriminate]. inversion Hb; subst.
    apply deliver_txs_CI. eapply begin_block_CI; [|exact Eb]. apply CI_clock. exact HCI. }
  split; [exact (block_set_is_the_top w b c2 HCI Hh Hb Hh')|]. destruct (selected_spec c2 HC2) as [A B].
  split; [exact A|]. split; [exact B|]. intros p id q j. apply selection_takes_the_strongest.
Qed.

(* whenever CometBFT accepts a block's updates, its new set is the old one with the updates applied one by one *)
Theorem C02_comet_apply_is_sequential : forall vs upd nn,
  List.NoDup (map fst upd) -> comet_apply vs upd = inl nn -> nn = apply_updates vs upd.
Proof. exact comet_apply_is_apply_updates. Qed.

(* what makes x/staking's EndBlocker report the right set: in every reachable state each validator owns at most
   one power-index entry, it is at the validator's token power, and jailed validators own none (this is the
   statement that was false at the pinned commit; Legacy/StakingLegacy.v) *)
Theorem C02_index_exact : forall g bs,
  wf_genesis g ->
  let s := stk (w_chain (run_world (init_world g) bs)) in
  (forall p id, In (p, id) (pidx s) -> exists v, vals s !! id = Some v /\ v_jailed v = false /\ p = v_power v) /\
  List.NoDup (map snd (pidx s)).
Proof. intros g bs Hg s. destruct (reachable_CI g bs Hg) as [HS _]. split; [exact (si_sound _ HS)|exact (si_unique _ HS)]. Qed.

(* distinct validators never share a consensus key, so an update's key identifies its validator *)
Theorem C02_consensus_keys_distinct : forall g bs,
  wf_genesis g -> cons_inj (stk (w_chain (run_world (init_world g) bs))).
Proof. intros g bs Hg. destruct (reachable_CI g bs Hg) as [HS _]. exact (si_cons _ HS). Qed.

(* every member of the set last reported to CometBFT is a bonded validator of the chain *)
Theorem C02_last_set_bonded : forall g bs,
  wf_genesis g -> last_bonded (stk (w_chain (run_world (init_world g) bs))).
Proof. intros g bs Hg. destruct (reachable_CI g bs Hg) as [HS _]. exact (si_last _ HS). Qed.

(* non-vacuity / genesis: a three-validator genesis under a cap of two bonds the two strongest, and the set
   CometBFT starts from is exactly the chain's last validator powers keyed by consensus key *)
Example C02_genesis_witness :
  let g := {| g_tokens := [2000000; 33000000; 20000000]; g_max_vals := 2; g_unbond_secs := 30; g_window := 4;
              g_min_signed_pc := 50; g_jail_secs := 5; g_slash_down_bp := 100; g_slash_dbl_bp := 500 |} in
  let w := init_world g in
  w_halted w = None /\
  map_to_list (c_next (w_comet w)) ≡ₚ [(1, 33); (2, 20)] /\
  map_to_list (last_pow (stk (w_chain w))) ≡ₚ [(1, 33); (2, 20)] /\
  bonded_pool (bk (w_chain w)) = 53000000 /\ notbonded_pool (bk (w_chain w)) = 2000000.
Proof. vm_compute. repeat split; reflexivity. Qed.

(* who is absent: the consensus key of a pending application has no seat in CometBFT's set, nor has the key of a validator
   the chain reports as unbonding or unbonded (removed, displaced, waiting) or as jailed — in every reachable state *)
Theorem C02_pending_key_has_no_seat : forall g bs p,
  wf_genesis g ->
  let w := run_world (init_world g) bs in
  w_halted w = None -> In p (pending (poa (w_chain w))) -> c_next (w_comet w) !! p_cons p = None.
Proof. exact pending_key_has_no_seat. Qed.

Theorem C02_not_bonded_or_jailed_has_no_seat : forall g bs id v,
  wf_genesis g ->
  let w := run_world (init_world g) bs in
  w_halted w = None -> vals (stk (w_chain w)) !! id = Some v -> (v_status v <> Bonded \/ v_jailed v = true) ->
  c_next (w_comet w) !! v_cons v = None.
Proof. exact not_bonded_or_jailed_has_no_seat. Qed.
