(* C09 — commission limits cover every message of a transaction, and nothing else. *)
Require Import Model.Base Model.Ante Model.Current proofs.AnteProofs.

(* genesis-height transactions are exempt exactly when genesis validation is switched off *)
Theorem C09_genesis_exempt : forall lo hi h msgs, h <= 1 -> cur_comm_decorator false lo hi h msgs = VPass.
Proof. exact (comm_exempt cur_unwraps). Qed.

(* whenever the check applies (height > 1, or genesis validation on), a transaction whose carriers
   unpack is accepted iff every PoA CreateValidator / staking EditValidator that sets a rate — any
   position, any depth — has it within [lo, hi] (exactly lo when lo = hi) *)
Theorem C09_accept_iff_all_in_range : forall g lo hi h msgs,
  negb g && (h <=? 1) = false -> tx_well_packed msgs = true ->
  (cur_comm_decorator g lo hi h msgs = VPass <-> tx_all_in_range lo hi msgs = true).
Proof. exact comm_accept_iff. Qed.

Theorem C09_out_of_range_rejected : forall g lo hi h msgs,
  negb g && (h <=? 1) = false -> tx_all_in_range lo hi msgs = false ->
  cur_comm_decorator g lo hi h msgs <> VPass.
Proof. exact comm_out_of_range_rejected. Qed.

(* messages that set no rate never crash the check *)
Theorem C09_no_panic : forall g lo hi h msgs, cur_comm_decorator g lo hi h msgs <> VPanic.
Proof. exact (comm_no_panic cur_unwraps). Qed.

(* "within range" is the property's notion *)
Theorem C09_range_meaning : forall lo hi l,
  out_of_range lo hi l = true <-> exists r, comm_rate l = Some (Some r) /\ ~ in_range lo hi r.
Proof. exact out_of_range_spec. Qed.

Example C09_witness :
  let lo := 100000000000000000 in let hi := 500000000000000000 in
  let good := [Leaf (LPoaCreate (Some lo)); Leaf (LEditValidator None);
               Wrap WGroupSubmit true [Wrap WAuthzExec true [Leaf (LEditValidator (Some hi))]]] in
  let bad := [Leaf (LPoaCreate (Some lo)); Wrap WGovSubmit true [Leaf LOther; Leaf (LEditValidator (Some (hi + 1)))]] in
  tx_well_packed good = true /\ tx_all_in_range lo hi good = true /\ cur_comm_decorator false lo hi 2 good = VPass /\
  tx_all_in_range lo hi bad = false /\ cur_comm_decorator false lo hi 2 bad = VReject EUndefined /\
  cur_comm_decorator true lo hi 1 bad = VReject EUndefined /\ cur_comm_decorator false lo hi 1 bad = VPass.
Proof. vm_compute. repeat split. Qed.
