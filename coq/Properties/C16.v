(* C16 — UpdateStakingParams applies exactly the given, valid parameters. *)
From stdpp Require Import gmap.
Require Import Model.Base Model.Validate Model.State Model.Staking Model.Slashing Model.Poa Model.App proofs.L1Basic proofs.InvElig proofs.InvMsgs proofs.InvTop proofs.InvAccept proofs.InvCap.

Theorem C16_applies_exactly : forall c p c',
  msg_update_params c admin_id p = MOk c' ->
  params_validate p = true /\ params (stk c') = p /\
  vals (stk c') = vals (stk c) /\ pidx (stk c') = pidx (stk c) /\ last_pow (stk c') = last_pow (stk c) /\
  dels (stk c') = dels (stk c) /\ ubq (stk c') = ubq (stk c) /\ by_cons (stk c') = by_cons (stk c) /\
  last_total (stk c') = last_total (stk c) /\
  sl c' = sl c /\ bk c' = bk c /\ poa c' = poa c /\ seqs c' = seqs c.
Proof. exact update_params_ok. Qed.

Theorem C16_rejects_invalid : forall c sender p,
  params_validate p = false -> exists e, msg_update_params c sender p = MErr e.
Proof. exact update_params_invalid. Qed.

(* what is refused: zero max validators, non-positive unbonding time, zero max entries, a blank or
   invalid bond denom, a minimum commission rate outside [0,1] *)
Theorem C16_validity_meaning : forall p,
  params_validate p = true <->
  0 < sp_unbonding_time p /\ sp_max_validators p <> 0 /\ sp_max_entries p <> 0 /\ sp_bond_denom_ok p = true /\
  exists r, sp_min_commission p = Some r /\ 0 <= r <= dec_one.
Proof. exact params_validate_spec. Qed.

(* "no other effect than those parameters imply under x/staking's rules": the message itself changes the parameters only;
   what a lower cap implies is decided by the EndBlocker of the same block, which keeps exactly the max_validators
   strongest entries of the power index — for any store satisfying the chain invariant, any cap, any number of validators *)
Theorem C16_lower_cap_keeps_the_strongest : forall c c' upd,
  CI c -> staking_end_block c = EBOk c' upd ->
  (forall id, last_pow (stk c') !! id = top_power id (selected c)) /\
  Z.of_nat (length (selected c)) <= Z.max 0 (sp_max_validators (params (stk c))) /\
  (forall p id q j, In (p, id) (selected c) -> In (q, j) (pidx (stk c)) -> 0 < q -> ~ In (q, j) (selected c) -> q <= p).
Proof.
  intros c c' upd HCI H. split; [exact (staking_end_block_top c c' upd HCI H)|]. split; [exact (proj2 (selected_spec c HCI))|].
  intros p id q j. apply selection_takes_the_strongest.
Qed.

(* exactly when the update is accepted: the admin, a tuple x/staking's Validate accepts, the same bond denom *)
Theorem C16_accepts_exactly_when : forall c s p,
  (exists c', msg_update_params c s p = MOk c') <->
  is_admin s = true /\ params_validate p = true /\ sp_bond_denom p = sp_bond_denom (params (stk c)).
Proof. exact update_params_accept_iff. Qed.

(* the cap in force is respected at once: at the end of every block — the very block in which the admin lowers the cap included —
   the last validator set (what CometBFT is given) has at most max_validators members, max_validators being the value the block's
   last accepted update left *)
Theorem C16_set_never_exceeds_the_cap : forall w b c2,
  CI (w_chain w) -> w_halted w = None -> before_endblock w b = Some c2 -> w_halted (fst (run_block w b)) = None ->
  let w' := fst (run_block w b) in
  Z.of_nat (size (last_pow (stk (w_chain w')))) <= Z.max 0 (sp_max_validators (params (stk (w_chain w')))) /\
  params (stk (w_chain w')) = params (stk c2).
Proof. exact block_set_within_cap. Qed.
