(* C03 — admin operations have exactly the requested effect, on the target only. *)
From stdpp Require Import gmap.
Require Import Model.Base Model.Validate Model.State Model.Staking Model.Slashing Model.Poa Model.App proofs.L1Effects proofs.InvHistory proofs.InvComet proofs.InvElig proofs.InvUpd proofs.InvFrame proofs.InvReach.

(* the target gets exactly the requested tokens/shares/self-delegation and one index entry at the new power;
   x/staking's last powers (what CometBFT holds) are left for its EndBlocker to update *)
Theorem C03_setpower_on_target : forall c val n c',
  0 < n -> set_poa_power c val n = MOk c' ->
  exists v,
    vals (stk c) !! val = Some v /\
    tokens_to_power n <> default 0 (last_pow (stk c) !! val) /\
    vals (stk c') = <[val := set_status (set_shares (set_tokens v n) (n * dec_one)) Bonded]> (vals (stk c)) /\
    dels (stk c') = <[val := n * dec_one]> (dels (stk c)) /\
    pidx (stk c') = pidx (set_index (del_index (stk c) val v) val (set_tokens v n)) /\
    last_pow (stk c') = last_pow (stk c) /\ last_total (stk c') = last_total (stk c) /\
    ubq (stk c') = ubq (stk c) /\ by_cons (stk c') = by_cons (stk c) /\ params (stk c') = params (stk c) /\
    sl c' = sl c /\ pending (poa c') = pending (poa c) /\ cached_power (poa c') = cached_power (poa c) /\
    abs_changed (poa c') =
      wrap_u64 (abs_changed (poa c) +
                Z.abs (tokens_to_power n - (if status_eqb (v_status v) Bonded && negb (v_jailed v) then v_power v else 0))).
Proof. exact set_poa_power_assign. Qed.

(* frame: record, self-delegation, last power and index entries of every other validator are untouched *)
Theorem C03_frame : forall c val n c' w,
  0 < n -> set_poa_power c val n = MOk c' -> w <> val ->
  vals (stk c') !! w = vals (stk c) !! w /\ dels (stk c') !! w = dels (stk c) !! w /\
  last_pow (stk c') !! w = last_pow (stk c) !! w /\
  (forall p, In (p, w) (pidx (stk c')) <-> In (p, w) (pidx (stk c))).
Proof. exact set_poa_power_frame. Qed.

(* ... and the EndBlocker does update them to exactly that: at the end of every block of every history (max_validators
   not binding) the last validator power of each validator is the power of the tokens its record holds — the amount
   the admin's most recent accepted SetPower wrote, less any slash — if it is not jailed, and absent otherwise; no
   validator's power is anything else, whatever was done to the others *)
Theorem C03_last_power_is_token_power : forall g bs,
  wf_genesis g ->
  let w := run_world (init_world g) bs in
  let s := stk (w_chain w) in
  w_halted w = None ->
  n_pos (pidx s) <= sp_max_validators (params s) ->
  forall id, last_pow s !! id =
    match vals s !! id with Some v => if eligible v then Some (tokens_to_power (v_tokens v)) else None | None => None end.
Proof. exact reachable_set. Qed.

(* a block's validator updates mention only validators whose last validator power changes in that block's EndBlock,
   and say exactly what it changes to (p = 0: leaves the set): for every update (k, p) returned by any block applied to
   any reachable state there is a validator with consensus key k whose last power becomes p and was something else *)
Theorem C03_updates_mention_only_validators_whose_power_changes : forall g bs b w' out,
  wf_genesis g ->
  let w := run_world (init_world g) bs in
  w_halted w = None -> run_block w b = (w', Some out) ->
  forall k p, In (k, p) (bo_updates out) ->
    exists id, last_pow (stk (w_chain w')) !! id = new_power p /\
               last_pow (stk (w_chain w)) !! id <> last_pow (stk (w_chain w')) !! id /\
               ((exists v, vals (stk (w_chain w')) !! id = Some v /\ v_cons v = k) \/
                (exists v, vals (stk (w_chain w)) !! id = Some v /\ v_cons v = k)).
Proof.
  intros g bs b w' out Hg w Hh Hrun. apply (block_updates_only_changes w b w' out); [|exact Hh|exact Hrun].
  apply run_world_WI. apply init_world_WI. exact Hg.
Qed.

(* hence (max_validators not binding before and after) only validators whose jailed flag or token power differs between
   the end of the previous block and the end of this one — the targets of the block's successful PoA messages, and the
   validators slashing jailed or unjailed in it: nobody else's power changes as a side effect *)
Theorem C03_no_side_effects_on_other_validators : forall g bs b w' out,
  wf_genesis g ->
  let w := run_world (init_world g) bs in
  w_halted w = None -> run_block w b = (w', Some out) -> w_halted w' = None ->
  n_pos (pidx (stk (w_chain w))) <= sp_max_validators (params (stk (w_chain w))) ->
  n_pos (pidx (stk (w_chain w'))) <= sp_max_validators (params (stk (w_chain w'))) ->
  forall k p, In (k, p) (bo_updates out) ->
    exists id, elig_power (stk (w_chain w')) id = new_power p /\ elig_power (stk (w_chain w)) id <> elig_power (stk (w_chain w')) id /\
               ((exists v, vals (stk (w_chain w')) !! id = Some v /\ v_cons v = k) \/
                (exists v, vals (stk (w_chain w)) !! id = Some v /\ v_cons v = k)).
Proof. exact history_updates_only_changes. Qed.

(* a removed validator holds no tokens (the removal burns them all), and a validator without tokens worth a unit of power has
   no seat in any reachable state, whatever max_validators is: it stays out until the admin gives it tokens again *)
Theorem C03_no_tokens_no_seat : forall g bs id v,
  wf_genesis g ->
  let w := run_world (init_world g) bs in
  w_halted w = None -> vals (stk (w_chain w)) !! id = Some v -> v_tokens v < 1000000 ->
  last_pow (stk (w_chain w)) !! id = None.
Proof.
  intros g bs id v Hg w Hh Hv Ht. destruct (last_pow (stk (w_chain w)) !! id) as [q|] eqn:El; [|reflexivity]. exfalso.
  destruct (reachable_members_ok g bs Hg Hh id q El) as (v' & Hv' & _ & Hq & Hpos). unfold w in Hv. rewrite Hv in Hv'. inversion Hv'; subst v'.
  subst q. unfold v_power, tokens_to_power, power_reduction in Hpos.
  assert (v_tokens v / 1000000 <= 0); [|lia]. destruct (Z.le_gt_cases 0 (v_tokens v)); [rewrite Z.div_small by lia; lia|].
  apply Z.div_le_upper_bound; lia.
Qed.

(* no side effects on anybody's stake, in that block or in any later one: from any reachable state, through any number of
   blocks that carry no SetPower, RemoveValidator or Unjail naming validator id — whatever they do to everybody else —
   id's record keeps its consensus key, jailed flag, tokens, shares, minimum self-delegation, commission and description,
   and its self-delegation is untouched (a record disappears only if it holds neither tokens nor shares: a removed
   validator whose unbonding period ends); the one alternative is that slashing jailed it for downtime or punished it for
   a double sign on the way, and then it is still jailed at the end, with its key and shares and no more tokens than it had *)
Theorem C03_no_side_effects_on_anybodys_stake : forall g bs bs2 id,
  wf_genesis g -> Forall (fun b => spares_txs id (b_txs b)) bs2 ->
  let w := run_world (init_world g) bs in
  block_rel (stk (w_chain w)) (stk (w_chain (run_world w bs2))) id.
Proof. exact history_spared_validator. Qed.

Theorem C03_spared_means : forall id txs,
  spares_txs id txs <->
  forall tx m, In tx txs -> In m tx ->
    match m with MSetPower _ v _ _ | MRemoveValidator _ v | MUnjail v => v <> id | _ => True end.
Proof.
  intros id txs. unfold spares_txs, spares_tx. rewrite List.Forall_forall. split.
  - intros H tx m Htx Hm. specialize (H tx Htx). rewrite List.Forall_forall in H. specialize (H m Hm).
    destruct m; cbn in H; auto.
  - intros H tx Htx. rewrite List.Forall_forall. intros m Hm. specialize (H tx m Htx Hm). destruct m; cbn; auto.
Qed.

(* in terms of seats (max_validators not binding at either end): such a validator has at the end the voting power it had at
   the start — in particular a removed one, which has none, never returns unless the admin re-admits it — or it was jailed on
   the way and has none *)
Theorem C03_spared_validator_keeps_its_power : forall g bs bs2 id,
  wf_genesis g -> Forall (fun b => spares_txs id (b_txs b)) bs2 ->
  let w := run_world (init_world g) bs in
  let w2 := run_world w bs2 in
  w_halted w = None -> w_halted w2 = None ->
  n_pos (pidx (stk (w_chain w))) <= sp_max_validators (params (stk (w_chain w))) ->
  n_pos (pidx (stk (w_chain w2))) <= sp_max_validators (params (stk (w_chain w2))) ->
  last_pow (stk (w_chain w2)) !! id = last_pow (stk (w_chain w)) !! id \/
  (downed (stk (w_chain w)) (stk (w_chain w2)) id /\ last_pow (stk (w_chain w2)) !! id = None).
Proof. exact spared_validator_keeps_its_power. Qed.

(* a successful SetPower reaches the set, a successful RemoveValidator leaves it — at block level: the transaction [SetPower v P]
   (resp. [RemoveValidator v]) passes somewhere in the block, no later message of the block names v; then v's last validator power
   when the block ends — what CometBFT is told — is floor(P / 10^6) if v is not jailed at that point and max_validators does not bind
   (resp. is gone, whatever max_validators is) *)
Theorem C03_successful_setpower_reaches_the_next_set : forall g bs b txs1 s v P u txs2 cb ca',
  wf_genesis g ->
  let w := run_world (init_world g) bs in
  let w' := fst (run_block w b) in
  w_halted w = None -> w_halted w' = None ->
  b_txs b = txs1 ++ [MSetPower s v P u] :: txs2 ->
  begin_block (with_clock (w_chain w) (height (w_chain w) + 1) (now (w_chain w) + b_dt b))
              (match c_prev (w_comet w) with Some vs => sorted_votes vs | None => [] end) (b_absent b) (b_evidence b) = inl cb ->
  deliver_tx (fst (deliver_txs cb txs1)) [MSetPower s v P u] = (ca', TPass) ->
  spares_txs v txs2 ->
  (forall r, vals (stk (w_chain w')) !! v = Some r -> v_jailed r = false) ->
  n_pos (pidx (stk (w_chain w'))) <= sp_max_validators (params (stk (w_chain w'))) ->
  last_pow (stk (w_chain w')) !! v = Some (tokens_to_power (cast_i64 P)).
Proof. exact setpower_reaches_the_set. Qed.

Theorem C03_successful_removal_leaves_the_next_set : forall g bs b txs1 s v txs2 cb ca',
  wf_genesis g ->
  let w := run_world (init_world g) bs in
  let w' := fst (run_block w b) in
  w_halted w = None -> w_halted w' = None ->
  b_txs b = txs1 ++ [MRemoveValidator s v] :: txs2 ->
  begin_block (with_clock (w_chain w) (height (w_chain w) + 1) (now (w_chain w) + b_dt b))
              (match c_prev (w_comet w) with Some vs => sorted_votes vs | None => [] end) (b_absent b) (b_evidence b) = inl cb ->
  deliver_tx (fst (deliver_txs cb txs1)) [MRemoveValidator s v] = (ca', TPass) ->
  spares_txs v txs2 ->
  last_pow (stk (w_chain w')) !! v = None.
Proof. exact remove_leaves_the_set. Qed.
