(* C03 — admin operations have exactly the requested effect, on the target only. *)
From stdpp Require Import gmap.
Require Import Model.Base Model.Validate Model.State Model.Staking Model.Slashing Model.Poa Model.App proofs.L1Effects proofs.InvHistory proofs.InvElig.

(* the target gets exactly the requested tokens/shares/self-delegation and one index entry at the new power;
   x/staking's last powers (what CometBFT holds) are left for its EndBlocker to update *)
Theorem C03_setpower_on_target : forall c val n c',
  0 < n -> set_poa_power c val n = MOk c' ->
  exists v,
    vals (stk c) !! val = Some v /\
    tokens_to_power n <> default 0 (last_pow (stk c) !! val) /\
    vals (stk c') = <[val := set_status (set_shares (set_tokens v n) (n * dec_one)) Bonded]> (vals (stk c)) /\
    dels (stk c') = <[val := n * dec_one]> (dels (stk c)) /\
    pidx (stk c') = pidx (set_index (del_index (stk c) val v) val (set_tokens v n)) /\
    last_pow (stk c') = last_pow (stk c) /\ last_total (stk c') = last_total (stk c) /\
    ubq (stk c') = ubq (stk c) /\ by_cons (stk c') = by_cons (stk c) /\ params (stk c') = params (stk c) /\
    sl c' = sl c /\ pending (poa c') = pending (poa c) /\ cached_power (poa c') = cached_power (poa c) /\
    abs_changed (poa c') =
      wrap_u64 (abs_changed (poa c) +
                Z.abs (tokens_to_power n - (if status_eqb (v_status v) Bonded && negb (v_jailed v) then v_power v else 0))).
Proof. exact set_poa_power_assign. Qed.

(* frame: record, self-delegation, last power and index entries of every other validator are untouched *)
Theorem C03_frame : forall c val n c' w,
  0 < n -> set_poa_power c val n = MOk c' -> w <> val ->
  vals (stk c') !! w = vals (stk c) !! w /\ dels (stk c') !! w = dels (stk c) !! w /\
  last_pow (stk c') !! w = last_pow (stk c) !! w /\
  (forall p, In (p, w) (pidx (stk c')) <-> In (p, w) (pidx (stk c))).
Proof. exact set_poa_power_frame. Qed.

(* ... and the EndBlocker does update them to exactly that: at the end of every block of every history (max_validators
   not binding) the last validator power of each validator is the power of the tokens its record holds — the amount
   the admin's most recent accepted SetPower wrote, less any slash — if it is not jailed, and absent otherwise; no
   validator's power is anything else, whatever was done to the others *)
Theorem C03_last_power_is_token_power : forall g bs,
  wf_genesis g ->
  let w := run_world (init_world g) bs in
  let s := stk (w_chain w) in
  w_halted w = None ->
  n_pos (pidx s) <= sp_max_validators (params s) ->
  forall id, last_pow s !! id =
    match vals s !! id with Some v => if eligible v then Some (tokens_to_power (v_tokens v)) else None | None => None end.
Proof. exact reachable_set. Qed.
