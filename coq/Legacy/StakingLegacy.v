(* StakingLegacy.v — the pinned commit's SetPOAPower added an index entry for the new power without deleting
   the one for the old power. The x/staking EndBlocker (the same model as in Model/Staking.v) then visits the
   validator twice: machine-checked witnesses of the findings recorded as fixed in known_findings.json. *)
From stdpp Require Import gmap.
Require Import Model.Base Model.Validate Model.State Model.Staking Model.App proofs.Inv.
Open Scope Z_scope.

(* three validators at power 10; v0's tokens were set to 11M and then 12M in one block, legacy style:
   index entries (10,0) [stale], (11,0) [stale], (12,0); LastValidatorPower(v0) written to 12 by PoA itself *)
Definition legacy_state_P3 : chain :=
  let w := init_world {| g_tokens := [10000000; 10000000; 10000000]; g_max_vals := 100; g_unbond_secs := 30; g_window := 4;
                         g_min_signed_pc := 50; g_jail_secs := 5; g_slash_down_bp := 100; g_slash_dbl_bp := 500 |} in
  let c := w_chain w in
  let s := stk c in
  match vals s !! 0 with
  | Some v0 =>
      let v0' := set_shares (set_tokens v0 12000000) (12000000 * dec_one) in
      with_stk c (st_last_pow (st_pidx (st_vals s (<[0 := v0']> (vals s))) ((12, 0) :: (11, 0) :: pidx s)) (<[0 := 12]> (last_pow s)))
  | None => c
  end.

(* P3: two updates for one consensus key — CometBFT refuses the block ("duplicate entry") *)
Theorem C04_refuted_legacy_duplicate_update :
  ~ idx_unique (stk legacy_state_P3) /\
  exists c' upd, apply_valset_updates legacy_state_P3 = EBOk c' upd /\ upd = [(0, 12); (0, 12)] /\
                 comet_apply (list_to_map [(0, 10); (1, 10); (2, 10)]) upd = inr 1.
Proof.
  split.
  - unfold idx_unique. vm_compute. intros H. inversion H as [|? ? Hn _]; subst. apply Hn. left; reflexivity.
  - vm_compute. eexists _, _. repeat split.
Qed.
