(* P14: before the repair MsgSetPower.Validate had no upper bound; int64(msg.Power) then went negative. *)
Require Import Model.Base Model.Validate.

Theorem C14_refuted_legacy :
  ~ (forall p, 0 <= p < two64 -> (setpower_validate_legacy true p = Ok tt <-> min_power <= p <= max_int64)).
Proof.
  intros H. destruct (H (2 ^ 63)) as [H1 _]; [unfold two64; lia|].
  assert (Hc : min_power <= 2 ^ 63 <= max_int64) by (apply H1; reflexivity).
  unfold max_int64, two63 in Hc. lia.
Qed.

Example C14_legacy_cast_negative : cast_i64 (2 ^ 63) = - 2 ^ 63.
Proof. reflexivity. Qed.
