(* AnteLegacy.v — the ante decorators as they were at the pinned commit (before the "fix:" commits
   recorded in known_findings.json), and machine-checked refutations of C07/C08/C09 for them.
   These document the fixed findings; nothing else depends on this file. *)
Require Import Model.Base Model.Ante proofs.AnteProofs.

Definition legacy_stk_decorator := stk_decorator unwraps_authz_only.
Definition legacy_wd_decorator := wd_decorator unwraps_authz_only.
Definition legacy_comm_decorator := comm_decorator_legacy unwraps_authz_only.

(* P9: a group (or gov) proposal carrying MsgDelegate passes the staking filter *)
Theorem C07_refuted_legacy :
  ~ (forall h msgs, h > 1 -> tx_contains is_blocked msgs = true -> legacy_stk_decorator h msgs <> None).
Proof.
  intros H. apply (H 2 [Wrap WGroupSubmit true [Leaf (LStaking SDelegate)]]); [lia| |]; reflexivity.
Qed.

Theorem C08_refuted_legacy :
  ~ (forall h msgs, h > 1 -> tx_contains is_withdraw msgs = true -> legacy_wd_decorator h msgs <> None).
Proof.
  intros H. apply (H 2 [Wrap WGovSubmit true [Leaf LWithdrawReward]]); [lia| |]; reflexivity.
Qed.

(* P10: EditValidator without a rate crashes the check *)
Theorem C09_refuted_legacy_panic :
  ~ (forall g lo hi h msgs, legacy_comm_decorator g lo hi h msgs <> VPanic).
Proof.
  intros H. apply (H true 0 dec_one 2 [Leaf (LEditValidator None)]). reflexivity.
Qed.

(* P11: the verdict of the first commission-carrying message is returned; later ones are not looked at *)
Theorem C09_refuted_legacy_early_return :
  ~ (forall g lo hi h msgs, negb g && (h <=? 1) = false -> tx_all_in_range lo hi msgs = false ->
       legacy_comm_decorator g lo hi h msgs <> VPass).
Proof.
  intros H.
  apply (H true 100000000000000000 500000000000000000 2
           [Leaf (LPoaCreate (Some 100000000000000000)); Leaf (LPoaCreate (Some 900000000000000000))]); reflexivity.
Qed.

(* what the legacy walkers did decide: reachability through authz.MsgExec only *)
Theorem C07_legacy_partial : forall h msgs,
  h > 1 -> Forall (fun m => bad_unpack unwraps_authz_only m = false) msgs ->
  legacy_stk_decorator h msgs =
    if existsb (reaches unwraps_authz_only is_blocked) msgs then Some EPoaStakingNotAllowed else None.
Proof.
  unfold legacy_stk_decorator, stk_decorator. intros h msgs H Hw. destruct (Z.leb_spec h 1); [lia|].
  induction msgs as [|m ms IH]; cbn; [reflexivity|]. inversion Hw; subst.
  rewrite stk_walk_well_packed by assumption.
  destruct (reaches unwraps_authz_only is_blocked m); cbn; [reflexivity|]. apply IH; assumption.
Qed.
