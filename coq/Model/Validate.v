(* Validate.v — stateless validation of PoA messages (/repo/validation.go) and the x/staking
   rules they are copied from. *)
Require Import Model.Base.

(* ---- MsgSetPower.Validate ---- *)
Definition min_power : Z := 1000000.

(* before the repair: no upper bound *)
Definition setpower_validate_legacy (addr_ok : bool) (power : Z) : res unit :=
  if negb addr_ok then Err ESdkInvalidAddress
  else if power <? min_power then Err EPoaPowerBelowMinimum
  else Ok tt.

Definition setpower_validate (addr_ok : bool) (power : Z) : res unit :=
  if negb addr_ok then Err ESdkInvalidAddress
  else if power <? min_power then Err EPoaPowerBelowMinimum
  else if max_int64 <? power then Err ESdkInvalidRequest
  else Ok tt.

(* ---- CommissionRates.Validate (poa and x/staking: same text) ----
   A nil LegacyDec dereferences a nil *big.Int: Go panics (recovered by BaseApp.runTx). *)
Inductive vres := VOk | VErr (e : err) | VPanicked.

Definition commission_validate (rate mx chg : dec) : vres :=
  match mx with
  | None => VPanicked
  | Some m =>
    if m <? 0 then VErr EStkCommissionNegative
    else if dec_one <? m then VErr EStkCommissionHuge
    else match rate with
    | None => VPanicked
    | Some r =>
      if r <? 0 then VErr EStkCommissionNegative
      else if m <? r then VErr EStkCommissionGTMaxRate
      else match chg with
      | None => VPanicked
      | Some c =>
        if c <? 0 then VErr EStkCommissionChangeRateNegative
        else if m <? c then VErr EStkCommissionChangeRateGTMaxRate
        else VOk
      end
    end
  end.

(* ---- Description.EnsureLength: lengths of moniker, identity, website, security contact, details ---- *)
Record desc_lens := { dl_moniker : Z; dl_identity : Z; dl_website : Z; dl_security : Z; dl_details : Z }.
Definition max_moniker : Z := 70.
Definition max_identity : Z := 3000.
Definition max_website : Z := 140.
Definition max_security : Z := 140.
Definition max_details : Z := 280.

Definition ensure_length (d : desc_lens) : bool :=
  (dl_moniker d <=? max_moniker) && (dl_identity d <=? max_identity) && (dl_website d <=? max_website)
  && (dl_security d <=? max_security) && (dl_details d <=? max_details).

Definition desc_empty (d : desc_lens) : bool :=
  (dl_moniker d =? 0) && (dl_identity d =? 0) && (dl_website d =? 0) && (dl_security d =? 0) && (dl_details d =? 0).

(* ---- MsgCreateValidator.Validate ---- *)
Record create_basic := {
  cb_addr_ok : bool;          (* operator address decodes *)
  cb_has_pubkey : bool;       (* Pubkey != nil *)
  cb_desc : desc_lens;
  cb_rate : dec; cb_max : dec; cb_chg : dec
}.

Definition comm_is_zero_struct (c : create_basic) : bool :=
  match cb_rate c, cb_max c, cb_chg c with None, None, None => true | _, _, _ => false end.

(* poa.MsgCreateValidator.Validate *)
Definition poa_create_validate (c : create_basic) : vres :=
  if negb (cb_addr_ok c) then VErr ESdkInvalidAddress
  else if negb (cb_has_pubkey c) then VErr EStkEmptyPubKey
  else if desc_empty (cb_desc c) then VErr ESdkInvalidRequest
  else if comm_is_zero_struct c then VErr ESdkInvalidRequest
  else commission_validate (cb_rate c) (cb_max c) (cb_chg c).

(* stakingtypes.MsgCreateValidator.Validate with its own extra fields:
   value (coin amount, valid flag) and min-self-delegation *)
Definition staking_create_validate (c : create_basic) (value_valid : bool) (value msd : Z) : vres :=
  if negb (cb_addr_ok c) then VErr ESdkInvalidAddress
  else if negb (cb_has_pubkey c) then VErr EStkEmptyPubKey
  else if negb value_valid || (value <=? 0) then VErr ESdkInvalidRequest
  else if desc_empty (cb_desc c) then VErr ESdkInvalidRequest
  else if comm_is_zero_struct c then VErr ESdkInvalidRequest
  else match commission_validate (cb_rate c) (cb_max c) (cb_chg c) with
       | VOk => if msd <=? 0 then VErr ESdkInvalidRequest
                else if value <? msd then VErr EStkSelfDelegationBelowMinimum
                else VOk
       | other => other
       end.

(* ---- stakingtypes.Params.Validate ---- *)
Record sparams := {
  sp_unbonding_time : Z;     (* nanoseconds (time.Duration) *)
  sp_max_validators : Z;     (* uint32 *)
  sp_max_entries : Z;        (* uint32 *)
  sp_historical_entries : Z; (* uint32 *)
  sp_bond_denom_ok : bool;   (* non-blank and sdk.ValidateDenom accepts it *)
  sp_bond_denom : Z;         (* denom identity (0 = the chain's bond denom) *)
  sp_min_commission : dec
}.

Definition params_validate (p : sparams) : bool :=
  (0 <? sp_unbonding_time p) && negb (sp_max_validators p =? 0) && negb (sp_max_entries p =? 0)
  && sp_bond_denom_ok p
  && match sp_min_commission p with
     | None => false
     | Some r => (0 <=? r) && (r <=? dec_one)
     end.
