(* Current.v — which variant of each modelled function the code at /repo implements now.
   This file is the only place that changes when a "fix:" commit changes behaviour; the
   correspondence check runs these against the implementation. *)
Require Import Model.Base Model.Ante.

Definition cur_unwraps : wrapper -> bool := unwraps_all.
Definition cur_stk_decorator := stk_decorator cur_unwraps.
Definition cur_wd_decorator := wd_decorator cur_unwraps.
Definition cur_comm_decorator := comm_decorator cur_unwraps.

Require Import Model.Validate.
Definition cur_setpower_validate := setpower_validate.
