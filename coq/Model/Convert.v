(* Convert.v — the two hand-written record converters of /repo/conversions.go, field by field.
   Field contents are opaque atoms (Z for scalars, list Z for strings / id lists / key bytes). *)
Require Import Model.Base.

Record description := { d_moniker : list Z; d_identity : list Z; d_website : list Z; d_security : list Z; d_details : list Z }.

Record stk_validator := {
  sv_operator : list Z; sv_pubkey : option (list Z); sv_jailed : bool; sv_status : Z; sv_tokens : Z; sv_shares : Z;
  sv_desc : description; sv_ubheight : Z; sv_ubtime : Z;
  sv_rate : Z; sv_maxrate : Z; sv_maxchg : Z; sv_commission_update_time : Z;
  sv_msd : Z; sv_onhold : Z; sv_ubids : list Z
}.

Record poa_validator := {
  pv_operator : list Z; pv_pubkey : option (list Z); pv_jailed : bool; pv_status : Z; pv_tokens : Z; pv_shares : Z;
  pv_desc : description; pv_ubheight : Z; pv_ubtime : Z;
  pv_rate : Z; pv_maxrate : Z; pv_maxchg : Z; pv_commission_update_time : Z;
  pv_msd : Z; pv_onhold : Z; pv_ubids : list Z
}.

(* time.Time{} of a freshly built Commission (NewCommission sets UpdateTime to time.Unix(0,0).UTC()) *)
Definition commission_epoch : Z := 0.
(* poa.Commission{CommissionRates: ...} leaves UpdateTime at the zero time *)
Definition commission_zero_time : Z := -62135596800.

Definition to_staking (p : poa_validator) : stk_validator :=
  {| sv_operator := pv_operator p; sv_pubkey := pv_pubkey p; sv_jailed := pv_jailed p; sv_status := pv_status p;
     sv_tokens := pv_tokens p; sv_shares := pv_shares p;
     sv_desc := {| d_moniker := d_moniker (pv_desc p); d_identity := d_identity (pv_desc p); d_website := d_website (pv_desc p);
                   d_security := d_security (pv_desc p); d_details := d_details (pv_desc p) |};
     sv_ubheight := pv_ubheight p; sv_ubtime := pv_ubtime p;
     sv_rate := pv_rate p; sv_maxrate := pv_maxrate p; sv_maxchg := pv_maxchg p;
     sv_commission_update_time := commission_epoch;
     sv_msd := pv_msd p; sv_onhold := pv_onhold p; sv_ubids := pv_ubids p |}.

Definition to_poa (v : stk_validator) : poa_validator :=
  {| pv_operator := sv_operator v; pv_pubkey := sv_pubkey v; pv_jailed := sv_jailed v; pv_status := sv_status v;
     pv_tokens := sv_tokens v; pv_shares := sv_shares v;
     pv_desc := {| d_moniker := d_moniker (sv_desc v); d_identity := d_identity (sv_desc v); d_website := d_website (sv_desc v);
                   d_security := d_security (sv_desc v); d_details := d_details (sv_desc v) |};
     pv_ubheight := sv_ubheight v; pv_ubtime := sv_ubtime v;
     pv_rate := sv_rate v; pv_maxrate := sv_maxrate v; pv_maxchg := sv_maxchg v;
     pv_commission_update_time := commission_zero_time;
     pv_msd := sv_msd v; pv_onhold := sv_onhold v; pv_ubids := sv_ubids v |}.

(* equality on everything the property lists (all fields but the commission's update time) *)
Definition with_sv_update_time (v : stk_validator) (t : Z) : stk_validator :=
  {| sv_operator := sv_operator v; sv_pubkey := sv_pubkey v; sv_jailed := sv_jailed v; sv_status := sv_status v;
     sv_tokens := sv_tokens v; sv_shares := sv_shares v; sv_desc := sv_desc v; sv_ubheight := sv_ubheight v; sv_ubtime := sv_ubtime v;
     sv_rate := sv_rate v; sv_maxrate := sv_maxrate v; sv_maxchg := sv_maxchg v; sv_commission_update_time := t;
     sv_msd := sv_msd v; sv_onhold := sv_onhold v; sv_ubids := sv_ubids v |}.
Definition with_pv_update_time (p : poa_validator) (t : Z) : poa_validator :=
  {| pv_operator := pv_operator p; pv_pubkey := pv_pubkey p; pv_jailed := pv_jailed p; pv_status := pv_status p;
     pv_tokens := pv_tokens p; pv_shares := pv_shares p; pv_desc := pv_desc p; pv_ubheight := pv_ubheight p; pv_ubtime := pv_ubtime p;
     pv_rate := pv_rate p; pv_maxrate := pv_maxrate p; pv_maxchg := pv_maxchg p; pv_commission_update_time := t;
     pv_msd := pv_msd p; pv_onhold := pv_onhold p; pv_ubids := pv_ubids p |}.
