(* Base.v — shared vocabulary of the PoA model: integers, decimals, error codes, outcomes.
   Everything is total and computable; Z is unbounded, Go's fixed widths are written explicitly. *)
From Coq Require Export ZArith List Bool Lia.
Export ListNotations.
Open Scope Z_scope.

(* ---- fixed-width helpers (Go semantics written out) ---- *)
Definition two63 : Z := 2 ^ 63.
Definition two64 : Z := 2 ^ 64.
Definition max_int64 : Z := two63 - 1.
Definition wrap_u64 (x : Z) : Z := x mod two64.
(* int64(x) for x : uint64 *)
Definition cast_i64 (x : Z) : Z := if x <? two63 then x else x - two64.
(* uint64(x) for x : int64 *)
Definition cast_u64 (x : Z) : Z := x mod two64.

(* ---- sdk.DefaultPowerReduction ---- *)
Definition power_reduction : Z := 1000000.
Definition tokens_to_power (t : Z) : Z := t / power_reduction.
Definition power_to_tokens (p : Z) : Z := p * power_reduction.

(* ---- LegacyDec: integer scaled by 10^18; None = nil Dec (absent on the wire) ---- *)
Definition dec_one : Z := 10 ^ 18.
Definition dec := option Z.

(* ---- errors: (codespace, code) as registered by the Go packages ---- *)
Inductive err : Type :=
| EPoaStakingNotAllowed      (* poa 1 *)
| EPoaPowerBelowMinimum      (* poa 2 *)
| EPoaNotAnAuthority         (* poa 3 *)
| EPoaUnsafePower            (* poa 4 *)
| EPoaWithdrawNotAllowed     (* poa 5 *)
| ESdkInvalidAddress         (* sdk 7 *)
| ESdkInvalidRequest         (* sdk 18 *)
| ESdkInvalidType            (* sdk 29 *)
| ESdkInsufficientFunds      (* sdk 5 *)
| EStkEmptyPubKey            (* staking 39 *)
| EStkNoValidatorFound       (* staking 3 *)
| EStkOwnerExists            (* staking 4 *)
| EStkPubKeyExists           (* staking 5 *)
| EStkPubKeyTypeNotSupported (* staking 6 *)
| EStkValidatorJailed        (* staking 7 *)
| EStkCommissionNegative     (* staking 9 *)
| EStkCommissionHuge         (* staking 10 *)
| EStkCommissionGTMaxRate    (* staking 11 *)
| EStkCommissionUpdateTime   (* staking 12 *)
| EStkCommissionChangeRateNegative  (* staking 13 *)
| EStkCommissionChangeRateGTMaxRate (* staking 14 *)
| EStkCommissionGTMaxChangeRate     (* staking 15 *)
| EStkSelfDelegationBelowMinimum    (* staking 16 *)
| EStkMinSelfDelegationDecreased    (* staking 17 *)
| EStkCommissionLTMinRate    (* staking 40 *)
| ESlashNoValidatorForAddress   (* slashing 2 *)
| ESlashBadValidatorAddr        (* slashing 3 *)
| ESlashValidatorJailed         (* slashing 4 *)
| ESlashValidatorNotJailed      (* slashing 5 *)
| ESlashMissingSelfDelegation   (* slashing 6 *)
| ESlashSelfDelegationTooLow    (* slashing 7 *)
| ESlashNoSigningInfoFound      (* slashing 8 *)
| EUndefined                 (* undefined 1 : any unregistered Go error (fmt.Errorf, errors.New) *)
| EPanic.                    (* recovered panic in runTx: undefined/111222 *)

Definition err_code (e : err) : Z * Z :=   (* (codespace index, code); codespace: 0 poa,1 sdk,2 staking,3 slashing,4 undefined *)
  match e with
  | EPoaStakingNotAllowed => (0,1) | EPoaPowerBelowMinimum => (0,2) | EPoaNotAnAuthority => (0,3)
  | EPoaUnsafePower => (0,4) | EPoaWithdrawNotAllowed => (0,5)
  | ESdkInvalidAddress => (1,7) | ESdkInvalidRequest => (1,18) | ESdkInvalidType => (1,29)
  | ESdkInsufficientFunds => (1,5)
  | EStkEmptyPubKey => (2,39) | EStkNoValidatorFound => (2,3) | EStkOwnerExists => (2,4)
  | EStkPubKeyExists => (2,5) | EStkPubKeyTypeNotSupported => (2,6) | EStkValidatorJailed => (2,7)
  | EStkCommissionNegative => (2,9) | EStkCommissionHuge => (2,10) | EStkCommissionGTMaxRate => (2,11)
  | EStkCommissionUpdateTime => (2,12)
  | EStkCommissionChangeRateNegative => (2,13) | EStkCommissionChangeRateGTMaxRate => (2,14)
  | EStkCommissionGTMaxChangeRate => (2,15)
  | EStkSelfDelegationBelowMinimum => (2,16) | EStkMinSelfDelegationDecreased => (2,17)
  | EStkCommissionLTMinRate => (2,40)
  | ESlashNoValidatorForAddress => (3,2) | ESlashBadValidatorAddr => (3,3) | ESlashValidatorJailed => (3,4)
  | ESlashValidatorNotJailed => (3,5) | ESlashMissingSelfDelegation => (3,6)
  | ESlashSelfDelegationTooLow => (3,7) | ESlashNoSigningInfoFound => (3,8)
  | EUndefined => (4,1) | EPanic => (4,111222)
  end.

(* result of a computation that can fail with a Go error *)
Inductive res (A : Type) : Type := Ok (a : A) | Err (e : err).
Arguments Ok {A} a.
Arguments Err {A} e.

Definition bind {A B} (r : res A) (f : A -> res B) : res B :=
  match r with Ok a => f a | Err e => Err e end.

Definition Zsum (l : list Z) : Z := fold_right Z.add 0 l.
