(* App.v — block life cycle of the SimApp as far as PoA is concerned: BeginBlock (distribution's
   voter lookup, slashing, poa), transactions (PoA ante decorators, message atomicity of BaseApp),
   EndBlock (x/staking), CometBFT's validator-set update rules, histories and the projection that
   is compared with the implementation. *)
From stdpp Require Import gmap.
Require Import Model.Base Model.Ante Model.Validate Model.Current Model.State Model.Staking Model.Slashing Model.Poa.
Open Scope Z_scope.

(* ---- CometBFT: ValidatorSet.UpdateWithChangeSet ---- *)
Definition max_total_voting_power : Z := max_int64 / 8.

Fixpoint has_dup (l : list Z) : bool :=
  match l with [] => false | x :: xs => existsb (Z.eqb x) xs || has_dup xs end.

Definition comet_apply (vs : gmap Z Z) (upd : list (Z * Z)) : gmap Z Z + Z :=
  match upd with
  | [] => inl vs
  | _ =>
    if has_dup (map fst upd) then inr 1
    else if existsb (fun u => snd u <? 0) upd then inr 2
    else if existsb (fun u => max_total_voting_power <? snd u) upd then inr 5
    else
      let deletes := filter (fun u => snd u =? 0) upd in
      let updates := filter (fun u => negb (snd u =? 0)) upd in
      let new_vals := filter (fun u => negb (bool_decide (is_Some (vs !! fst u)))) updates in
      if (length new_vals =? 0)%nat && (size vs =? length deletes)%nat then inr 4
      else if existsb (fun u => negb (bool_decide (is_Some (vs !! fst u)))) deletes then inr 3
      else
        let vs1 := fold_left (fun m u => delete (fst u) m) deletes vs in
        let vs2 := fold_left (fun m u => <[fst u := snd u]> m) updates vs1 in
        if max_total_voting_power <? map_fold (fun _ p acc => acc + p) 0 vs2 then inr 5
        else inl vs2
  end.

(* the same updates applied one by one (what the set is when all keys are distinct; proofs/InvComet.v shows
   comet_apply returns exactly this whenever it accepts) *)
Definition apply_update (m : gmap Z Z) (u : Z * Z) : gmap Z Z :=
  if snd u =? 0 then delete (fst u) m else <[fst u := snd u]> m.
Definition apply_updates (m : gmap Z Z) (upd : list (Z * Z)) : gmap Z Z := fold_left apply_update upd m.

(* ---- messages and histories ---- *)
Inductive l1msg :=
| MSetPower (sender val power : Z) (unsafe : bool)
| MRemoveValidator (sender val : Z)
| MRemovePending (sender val : Z)
| MCreateValidator (val cons moniker : Z) (rate mx chg : option Z) (msd : Z)
| MUpdateParams (sender : Z) (p : sparams)
| MUnjail (val : Z)
| MOther (sender : Z)                     (* a message that touches no modelled state (bank send) *)
| MTree (sender : Z) (t : msg).           (* any (nested) message, as the ante decorators see it *)

Definition msg_sender (m : l1msg) : Z :=
  match m with
  | MSetPower s _ _ _ | MRemoveValidator s _ | MRemovePending s _ | MUpdateParams s _ | MOther s | MTree s _ => s
  | MCreateValidator v _ _ _ _ _ _ | MUnjail v => v
  end.

(* the message as the ante decorators classify it *)
Definition ante_view (m : l1msg) : msg :=
  match m with
  | MCreateValidator _ _ _ rate _ _ _ => Leaf (LPoaCreate rate)
  | MTree _ t => t
  | _ => Leaf LOther
  end.

Record block := { b_dt : Z; b_absent : list Z; b_evidence : list evidence; b_txs : list (list l1msg) }.

Record genesis := {
  g_tokens : list Z; g_max_vals : Z; g_unbond_secs : Z; g_window : Z; g_min_signed_pc : Z;
  g_jail_secs : Z; g_slash_down_bp : Z; g_slash_dbl_bp : Z
}.

Record history := { h_genesis : genesis; h_blocks : list block }.

(* the application's ante configuration (simapp/ante.go) *)
Definition cfg_floor : Z := 100000000000000000.
Definition cfg_ceil : Z := 500000000000000000.
Definition cfg_gentx_validation : bool := false.

(* outcome of a transaction: pass, error, or "passed the ante chain, execution not modelled" *)
Inductive tx_out := TPass | TErr (e : err) | TAnteOk.

Definition exec_msg (c : chain) (m : l1msg) : mres :=
  match m with
  | MSetPower s v p u => msg_set_power c s v p u
  | MRemoveValidator s v => msg_remove_validator c s v
  | MRemovePending s v => msg_remove_pending c s v
  | MCreateValidator v k mon (Some r) (Some mx) (Some ch) _ => msg_create_validator c v k mon r mx ch
  | MCreateValidator _ _ _ _ _ _ _ => MErr EPanic
  | MUpdateParams s p => msg_update_params c s p
  | MUnjail v => msg_unjail c v
  | MOther _ => MOk c
  | MTree _ _ => MOk c
  end.

Fixpoint exec_msgs (c : chain) (ms : list l1msg) : mres :=
  match ms with
  | [] => MOk c
  | m :: rest => mbind (exec_msg c m) (fun c' => exec_msgs c' rest)
  end.

Fixpoint dedup (l : list Z) : list Z :=
  match l with [] => [] | x :: xs => x :: filter (fun y => negb (y =? x)) (dedup xs) end.

Definition bump_seqs (c : chain) (signers : list Z) : chain :=
  with_seqs c (fold_left (fun m s => <[s := default 0 (m !! s) + 1]> m) signers (seqs c)).

Definition is_tree (m : l1msg) : bool := match m with MTree _ _ => true | _ => false end.

(* BaseApp.runTx: ante chain on a cache (discarded on failure), then the messages on a cache that is
   written back only if every message succeeds; the sequence bump of the ante chain survives. *)
Definition deliver_tx (c : chain) (tx : list l1msg) : chain * tx_out :=
  let view := map ante_view tx in
  match cur_stk_decorator (height c) view with
  | Some e => (c, TErr e)
  | None =>
    match cur_wd_decorator (height c) view with
    | Some e => (c, TErr e)
    | None =>
      match cur_comm_decorator cfg_gentx_validation cfg_floor cfg_ceil (height c) view with
      | VReject e => (c, TErr e)
      | VPanic => (c, TErr EPanic)
      | VPass =>
        let c1 := bump_seqs c (dedup (map msg_sender tx)) in
        if existsb is_tree tx then (c1, TAnteOk)
        else match exec_msgs c1 tx with
             | MOk c2 => (c2, TPass)
             | MErr e => (c1, TErr e)
             end
      end
    end
  end.

Fixpoint deliver_txs (c : chain) (txs : list (list l1msg)) : chain * list tx_out :=
  match txs with
  | [] => (c, [])
  | tx :: rest => let '(c1, o) := deliver_tx c tx in let '(c2, os) := deliver_txs c1 rest in (c2, o :: os)
  end.

(* ---- BeginBlock ---- *)
Fixpoint handle_votes (votes : list (Z * Z)) (absent : list Z) (c : chain) : option chain :=
  match votes with
  | [] => Some c
  | (ck, power) :: rest =>
    match handle_signature c ck power (negb (existsb (Z.eqb ck) absent)) with
    | None => None
    | Some c' => handle_votes rest absent c'
    end
  end.

Definition voter_known (c : chain) (cons : Z) : bool :=
  match by_cons (stk c) !! cons with
  | Some id => bool_decide (is_Some (vals (stk c) !! id))
  | None => false
  end.

Definition sorted_votes (vs : gmap Z Z) : list (Z * Z) :=
  map (fun k => (k, default 0 (vs !! k))) (sorted_keys vs).

(* x/evidence BeginBlocker: the block's Misbehavior entries, in order *)
Fixpoint handle_evidences (evs : list evidence) (c : chain) : option chain :=
  match evs with
  | [] => Some c
  | e :: rest => match handle_evidence c e with None => None | Some c' => handle_evidences rest c' end
  end.

Definition begin_block (c : chain) (votes : list (Z * Z)) (absent : list Z) (evs : list evidence) : chain + Z :=
  (* x/distribution AllocateTokens (height > 1): every voter must have a validator record *)
  if (1 <? height c) && negb (forallb (fun v => voter_known c (fst v)) votes) then inr 1
  else match handle_votes votes absent c with
       | None => inr 2
       | Some c1 =>
         match handle_evidences evs c1 with
         | None => inr 3
         | Some c2 => inl (poa_begin_block c2)
         end
       end.

(* ---- one block ---- *)
Record block_out := { bo_txs : list tx_out; bo_updates : list (Z * Z) }.

Definition run_block (w : world) (b : block) : world * option block_out :=
  match w_halted w with
  | Some _ => (w, None)
  | None =>
    let c0 := with_clock (w_chain w) (height (w_chain w) + 1) (now (w_chain w) + b_dt b) in
    let votes := match c_prev (w_comet w) with Some vs => sorted_votes vs | None => [] end in
    match begin_block c0 votes (b_absent b) (b_evidence b) with
    | inr e => ({| w_chain := c0; w_comet := w_comet w; w_halted := Some (HBeginBlock e) |}, None)
    | inl c1 =>
      let '(c2, outs) := deliver_txs c1 (b_txs b) in
      match staking_end_block c2 with
      | EBHalt e => ({| w_chain := c2; w_comet := w_comet w; w_halted := Some (HEndBlock e) |}, None)
      | EBOk c3 upd =>
        match comet_apply (c_next (w_comet w)) upd with
        | inr e => ({| w_chain := c3; w_comet := w_comet w; w_halted := Some (HComet e) |},
                    Some {| bo_txs := outs; bo_updates := upd |})
        | inl nn =>
          ({| w_chain := c3;
              w_comet := {| c_prev := Some (c_cur (w_comet w)); c_cur := c_next (w_comet w); c_next := nn |};
              w_halted := None |},
           Some {| bo_txs := outs; bo_updates := upd |})
        end
      end
    end
  end.

(* ---- genesis: validators created by gentxs (self-delegation), InitChain's EndBlock ---- *)
Definition default_params (g : genesis) : sparams :=
  {| sp_unbonding_time := g_unbond_secs g * 1000000000; sp_max_validators := g_max_vals g; sp_max_entries := 7;
     sp_historical_entries := 10000; sp_bond_denom_ok := true; sp_bond_denom := 0; sp_min_commission := Some 0 |}.

Definition genesis_validator (i tok : Z) : validator :=
  {| v_cons := i; v_jailed := false; v_status := Bonded; v_tokens := tok; v_shares := tok * dec_one;
     v_ubheight := 0; v_ubtime := t_epoch; v_msd := 1; v_rate := cfg_floor; v_maxrate := cfg_ceil; v_maxchg := cfg_floor;
     v_moniker := 4 |}.

Fixpoint enumerate_from (i : Z) (l : list Z) : list (Z * Z) :=
  match l with [] => [] | x :: xs => (i, x) :: enumerate_from (i + 1) xs end.

Definition n_accounts : Z := 11.
Definition account_funds : Z := 1000000000000.

(* InitChain: every gentx creates an Unbonded validator whose self-delegation sits in the not-bonded pool;
   genutil then runs x/staking's ApplyAndReturnValidatorSetUpdates once (the max_validators cut applies),
   and PoA's InitGenesis (ordered after genutil) caches the resulting total power. *)
Definition init_world (g : genesis) : world :=
  let vs := enumerate_from 0 (g_tokens g) in
  let total_tok := fold_right (fun p acc => snd p + acc) 0 vs in
  let s := {|
    vals := list_to_map (map (fun p => (fst p, set_status (genesis_validator (fst p) (snd p)) Unbonded)) vs);
    by_cons := list_to_map (map (fun p => (fst p, fst p)) vs);
    pidx := map (fun p => (tokens_to_power (snd p), fst p)) vs;
    last_pow := ∅;
    last_total := 0;
    dels := list_to_map (map (fun p => (fst p, snd p * dec_one)) vs);
    ubq := ∅;
    params := default_params g |} in
  let l := {|
    infos := ∅;
    bitmaps := ∅;
    slparams := {| slp_window := g_window g; slp_min_signed_pc := g_min_signed_pc g; slp_jail := g_jail_secs g;
                   slp_slash_down_bp := g_slash_down_bp g; slp_slash_dbl_bp := g_slash_dbl_bp g |} |} in
  let c0 := {| height := 0; now := 0; stk := s; sl := l;
               bk := {| bonded_pool := 0; notbonded_pool := total_tok; supply := n_accounts * account_funds |};
               poa := {| pending := []; cached_power := 0; abs_changed := 0 |};
               seqs := ∅ |} in
  match apply_valset_updates c0 with
  | EBHalt e => {| w_chain := c0; w_comet := {| c_prev := None; c_cur := ∅; c_next := ∅ |}; w_halted := Some (HEndBlock e) |}
  | EBOk c1 upd =>
    let c2 := with_poa c1 {| pending := []; cached_power := last_total (stk c1); abs_changed := 0 |} in
    let set0 : gmap Z Z := apply_updates ∅ upd in
    {| w_chain := c2; w_comet := {| c_prev := None; c_cur := set0; c_next := set0 |}; w_halted := None |}
  end.

(* ---- projection: numeric rows (tag, fields), printed identically by the harness ---- *)
Inductive row := Row (tag : Z) (fields : list Z).
(* tags: 1 H, 2 TX, 3 UPD, 4 HALT, 5 COMET, 6 VAL, 7 DEL, 8 IDX, 9 LAST, 10 LTOT, 11 UBQ, 12 PARAMS, 13 SIGN,
         14 PEND, 15 POA, 16 POOL, 17 SUPPLY, 18 QPOWER, 19 SEQ, 20 INITUPD *)
Definition b2z (b : bool) : Z := if b then 1 else 0.

Definition tx_out_fields (o : tx_out) : list Z :=
  match o with
  | TPass => [-1; 0]
  | TAnteOk => [-2; 0]
  | TErr e => let '(cs, code) := err_code e in [cs; code]
  end.

Definition flatten_pairs (l : list (Z * Z)) : list Z := flat_map (fun p => [fst p; snd p]) l.

Definition query_ids : list Z := [0; 1; 2; 3; 4; 5; 6; 7; 50; -2].
Definition seq_ids : list Z := [0; 1; 2; 3; 4; 5; 6; 7; 100; 101].

Definition project_state (c : chain) : list row :=
  let s := stk c in
  map (fun id => match vals s !! id with
                 | Some v => Row 6 [id; v_cons v; status_code (v_status v); b2z (v_jailed v); v_tokens v; v_shares v;
                                    v_ubheight v; v_ubtime v; v_msd v; v_rate v]
                 | None => Row 6 [id]
                 end) (sorted_val_ids (vals s))
  ++ map (fun id => Row 7 [id; default 0 (dels s !! id)]) (sorted_keys (dels s))
  ++ [Row 8 (flatten_pairs (sort_by pidx_le (pidx s)))]
  ++ [Row 9 (flat_map (fun id => [id; default 0 (last_pow s !! id)]) (sorted_keys (last_pow s)))]
  ++ [Row 10 [last_total s]]
  ++ map (fun sl => let '(t, h, ids) := sl in Row 11 (t :: h :: ids)) (sorted_slots (ubq s))
  ++ [Row 12 [sp_unbonding_time (params s); sp_max_validators (params s); sp_max_entries (params s);
              sp_historical_entries (params s); sp_bond_denom (params s); default (-1) (sp_min_commission (params s))]]
  ++ map (fun k => match infos (sl c) !! k with
                   | Some i => Row 13 [k; si_start i; si_index i; si_until i; b2z (si_tomb i); si_missed i;
                                       Z.of_nat (length (default [] (bitmaps (sl c) !! k)))]   (* missed bits in the window's bitmap *)
                   | None => Row 13 [k]
                   end) (sort_by Z.leb (map fst (map_to_list (infos (sl c)))))
  ++ map (fun p => Row 14 [p_oper p; p_cons p; p_rate p; p_maxrate p; p_maxchg p; p_moniker p]) (pending (poa c))
  ++ [Row 15 [cached_power (poa c); abs_changed (poa c)]]
  ++ [Row 16 [bonded_pool (bk c); notbonded_pool (bk c)]]
  ++ [Row 17 [supply (bk c)]]
  ++ [Row 18 (flat_map (fun id => [id; default (-1) (query_power c id)]) query_ids)]
  ++ [Row 19 (flat_map (fun a => [a; default 0 (seqs c !! a)]) seq_ids)].

Definition halt_code (h : halt_reason) : Z :=
  match h with HBeginBlock e => 100 + e | HEndBlock e => 200 + e | HComet e => e end.

Fixpoint number {A} (i : Z) (l : list A) : list (Z * A) :=
  match l with [] => [] | x :: xs => (i, x) :: number (i + 1) xs end.

Definition tx_rows (outs : list tx_out) : list row :=
  map (fun p => Row 2 (fst p :: tx_out_fields (snd p))) (number 0 outs).

Definition project_block (w : world) (o : option block_out) : list row :=
  [Row 1 [height (w_chain w)]] ++
  match o, w_halted w with
  | None, _ => [Row 4 []]
  | Some bo, Some (HComet e) => tx_rows (bo_txs bo) ++ [Row 3 (flatten_pairs (bo_updates bo)); Row 5 [e]]
  | Some bo, _ => tx_rows (bo_txs bo) ++ [Row 3 (flatten_pairs (bo_updates bo)); Row 5 [0]] ++ project_state (w_chain w)
  end.

Fixpoint run_blocks (w : world) (bs : list block) : list row :=
  match bs with
  | [] => []
  | b :: rest =>
    let '(w', o) := run_block w b in
    project_block w' o ++ match w_halted w' with Some _ => [] | None => run_blocks w' rest end
  end.

Definition run_history (h : history) : list row :=
  let w := init_world (h_genesis h) in
  [Row 1 [0]; Row 20 (flatten_pairs (sorted_votes (c_next (w_comet w))))] ++ project_state (w_chain w) ++ run_blocks w (h_blocks h).

(* the final world of a history (what the theorems talk about) *)
Fixpoint run_world (w : world) (bs : list block) : world :=
  match bs with
  | [] => w
  | b :: rest => run_world (fst (run_block w b)) rest
  end.
